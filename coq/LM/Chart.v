(* LM/Chart.v -- executable model of lm/left.hh (RuleScore) and lm/partial.hh (ExtendLoop, RevealBefore,
   RevealAfter, Subsume), line by line over LM/Query.v.  No proofs here.
   A left-state pointer (uint64 extend_left) is modelled by the key of the entry it denotes. *)
From Coq Require Import List ZArith NArith Bool Arith.
From Kenlm Require Import LM.Defs LM.Query.
Import ListNotations.
Local Open Scope Z_scope.

Record left := { l_ptrs : list key; l_full : bool }.
Record chart := { c_left : left; c_right : state }.
Definition empty_chart : chart := {| c_left := {| l_ptrs := []; l_full := false |}; c_right := null_state |}.

(* RuleScore: out_ (left pointers and right state being built), left_done_, prob_ *)
Record rs := { rs_ptrs : list key; rs_right : state; rs_done : bool; rs_prob : Z }.
Definition rs_init : rs := {| rs_ptrs := []; rs_right := null_state; rs_done := false; rs_prob := 0 |}.

Section Chart.
  Variable N_order : nat.
  Variable T : table.
  Variable different_rest : bool.

  Definition rs_begin_sentence (bos_state : state) (r : rs) : rs :=
    {| rs_ptrs := rs_ptrs r; rs_right := bos_state; rs_done := true; rs_prob := rs_prob r |}.

  Definition rs_terminal (r : rs) (w : word) : rs :=
    let copy := rs_right r in
    let '(ret, right') := full_score N_order T copy w in
    if rs_done r then {| rs_ptrs := rs_ptrs r; rs_right := right'; rs_done := true; rs_prob := rs_prob r + r_prob ret |}
    else if r_indep ret then {| rs_ptrs := rs_ptrs r; rs_right := right'; rs_done := true; rs_prob := rs_prob r + r_prob ret |}
    else {| rs_ptrs := rs_ptrs r ++ [r_ext ret]; rs_right := right';
            rs_done := negb (Nat.eqb (length (s_words right')) (S (length (s_words copy))));
            rs_prob := rs_prob r + r_rest ret |}.

  Definition rs_begin_nonterminal (c : chart) (p : Z) : rs :=
    {| rs_ptrs := l_ptrs (c_left c); rs_right := c_right c; rs_done := l_full (c_left c); rs_prob := p |}.

  (* ProcessRet *)
  Definition process_ret (ptrs : list key) (done : bool) (prob : Z) (ret : ret) : list key * bool * Z :=
    if done then (ptrs, true, prob + r_prob ret)
    else if r_indep ret then (ptrs, true, prob + r_prob ret)
    else (ptrs ++ [r_ext ret], false, prob + r_rest ret).

  (* the loop of NonTerminal over in.left.pointers; el = extend_length of the pointer at the head of `ptrs_in`.
     Returns either an early exit (Some rs) or the loop state (ptrs, done, prob, next_use, back). *)
  Fixpoint nt_loop (in_c : chart) (orig_right : state) (ptrs_in : list key) (el : nat)
           (ptrs : list key) (done : bool) (prob : Z) (next_use : nat) (back : list boval)
    : rs + (list key * bool * Z * nat * list boval) :=
    match ptrs_in with
    | [] => inr (ptrs, done, prob, next_use, back)
    | p :: rest =>
        let '(ret, back_out, nu) := extend_left N_order T (firstn next_use (s_words orig_right)) back p in
        let '(ptrs1, done1, prob1) := process_ret ptrs done prob ret in
        if negb (Nat.eqb nu (length (s_words orig_right))) then
          if Nat.eqb nu 0 then
            (* early exit: out.right = in.right; prob += UnRest(remaining pointers) *)
            inl {| rs_ptrs := ptrs1; rs_right := c_right in_c; rs_done := true;
                   rs_prob := prob1 + un_rest T different_rest rest |}
          else nt_loop in_c orig_right rest (S el) ptrs1 true prob1 nu back_out
        else nt_loop in_c orig_right rest (S el) ptrs1 done1 prob1 nu back_out
    end.

  Definition rs_nonterminal (r : rs) (in_c : chart) (p : Z) : rs :=
    let prob0 := rs_prob r + p in
    let inl_ := c_left in_c in
    match l_ptrs inl_ with
    | [] =>
        if l_full inl_ then
          {| rs_ptrs := rs_ptrs r; rs_right := c_right in_c; rs_done := true; rs_prob := prob0 + sum_bo (s_bo (rs_right r)) |}
        else {| rs_ptrs := rs_ptrs r; rs_right := rs_right r; rs_done := rs_done r; rs_prob := prob0 |}
    | _ =>
        match s_words (rs_right r) with
        | [] =>
            if rs_done r then
              {| rs_ptrs := rs_ptrs r; rs_right := c_right in_c; rs_done := true;
                 rs_prob := prob0 + un_rest T different_rest (l_ptrs inl_) |}
            else match rs_ptrs r with
                 | _ :: _ => {| rs_ptrs := rs_ptrs r; rs_right := c_right in_c; rs_done := true; rs_prob := prob0 |}
                 | [] => {| rs_ptrs := l_ptrs inl_; rs_right := c_right in_c; rs_done := l_full inl_; rs_prob := prob0 |}
                 end
        | _ =>
            let orig := rs_right r in
            match nt_loop in_c orig (l_ptrs inl_) 1 (rs_ptrs r) (rs_done r) prob0 (length (s_words orig)) (s_bo orig) with
            | inl early => early
            | inr (ptrs, done, prob, next_use, back) =>
                if l_full inl_ then
                  {| rs_ptrs := ptrs; rs_right := c_right in_c; rs_done := true; rs_prob := prob + sum_bo (firstn next_use back) |}
                else if Nat.ltb (length (s_words (c_right in_c))) (length (l_ptrs inl_)) then
                  {| rs_ptrs := ptrs; rs_right := c_right in_c; rs_done := done; rs_prob := prob |}
                else
                  {| rs_ptrs := ptrs;
                     rs_right := {| s_words := s_words (c_right in_c) ++ firstn next_use (s_words orig);
                                    s_bo := s_bo (c_right in_c) ++ firstn next_use back |};
                     rs_done := done; rs_prob := prob |}
            end
        end
    end.

  Definition rs_finish (r : rs) : chart * Z :=
    ({| c_left := {| l_ptrs := rs_ptrs r; l_full := orb (rs_done r) (Nat.eqb (length (rs_ptrs r)) (N_order - 1)) |};
        c_right := rs_right r |}, rs_prob r).

  (* ---- derivation trees ------------------------------------------------------------------------ *)
  (* a rule application: optional <s>, then a sequence of terminals and sub-derivations;
     `fast` = use BeginNonTerminal when the first item is a sub-derivation *)
  Inductive item := Term (w : word) | Sub (t : tree)
  with tree := Rule (bos : bool) (fast : bool) (items : list item).

  Fixpoint eval_tree (bos_state : state) (t : tree) {struct t} : chart * Z :=
    match t with
    | Rule bos fast items =>
        let start := if bos then rs_begin_sentence bos_state rs_init else rs_init in
        let go := fix go (first : bool) (r : rs) (l : list item) {struct l} : rs :=
          match l with
          | [] => r
          | Term w :: l' => go false (rs_terminal r w) l'
          | Sub t' :: l' =>
              let '(c, p) := eval_tree bos_state t' in
              go false (if andb first (andb fast (negb bos)) then rs_begin_nonterminal c p else rs_nonterminal r c p) l'
          end in
        rs_finish (go true start items)
    end.

  (* ---- lm/partial.hh --------------------------------------------------------------------------- *)
  Record extend_ret := { x_adjust : Z; x_make_full : bool; x_next_use : nat }.

  (* first loop of ExtendLoop (write mode): returns (remaining pointers, written pointers, value, backoff_in) *)
  Fixpoint ext_write (add : list word) (add_length : nat) (ptrs : list key) (written : list key)
           (adjust : Z) (next_use : nat) (back : list boval)
    : list key * list key * Z * bool * nat * list boval :=
    match ptrs with
    | [] => ([], written, adjust, false, next_use, back)
    | p :: rest =>
        let '(ret, back_out, nu) := extend_left N_order T (firstn next_use add) back p in
        if r_indep ret then (rest, written, adjust + r_prob ret, true, nu, back_out)
        else
          let written' := written ++ [r_ext ret] in
          if negb (Nat.eqb nu add_length) then (rest, written', adjust + r_rest ret, true, nu, back_out)
          else ext_write add add_length rest written' (adjust + r_rest ret) nu back_out
    end.

  (* second loop: using some of the new context, left state already complete *)
  Fixpoint ext_full (add : list word) (ptrs : list key) (adjust : Z) (next_use : nat) (back : list boval)
    : list key * Z * nat * list boval :=
    match ptrs with
    | [] => ([], adjust, next_use, back)
    | p :: rest =>
        if Nat.eqb next_use 0 then (ptrs, adjust, next_use, back)
        else
          let '(ret, back_out, nu) := extend_left N_order T (firstn next_use add) back p in
          ext_full add rest (adjust + r_prob ret) nu back_out
    end.

  (* ExtendLoop: returns (value, pointers written, backoff_write = first next_use of the final backoff_in) *)
  Definition extend_loop (add : list word) (backoff_start : list boval) (ptrs : list key) (write : bool)
    : extend_ret * list key * list boval :=
    let add_length := length add in
    let back0 := firstn add_length backoff_start in
    let '(rest1, written, adj1, mf, nu1, back1) :=
      if write then ext_write add add_length ptrs [] 0 add_length back0
      else (ptrs, [], 0, false, add_length, back0) in
    let '(rest2, adj2, nu2, back2) := ext_full add rest1 adj1 nu1 back1 in
    let adj3 := adj2 + un_rest T different_rest rest2 in
    ({| x_adjust := adj3; x_make_full := mf; x_next_use := nu2 |}, written, firstn nu2 back2).

  (* RevealBefore(reveal, seen, reveal_full, left, right) -> (adjust, left', right') *)
  Definition reveal_before (reveal : state) (seen : nat) (reveal_full : bool) (l : left) (r : state) : Z * left * state :=
    let '(v, written, bw) := extend_loop (skipn seen (s_words reveal)) (skipn seen (s_bo reveal)) (l_ptrs l) (negb reveal_full) in
    let new_ptrs := if reveal_full then [] else written in
    let make_full := if reveal_full then true else orb (x_make_full v) (Nat.eqb (length written) (N_order - 1)) in
    if l_full l then
      (x_adjust v + sum_bo bw, {| l_ptrs := new_ptrs; l_full := true |}, r)
    else
      let r' := {| s_words := s_words r ++ firstn (x_next_use v) (skipn seen (s_words reveal)); s_bo := s_bo r ++ bw |} in
      (x_adjust v, {| l_ptrs := new_ptrs; l_full := orb make_full (Nat.eqb (length (s_words r')) (N_order - 1)) |}, r').

  (* RevealAfter(left, right, reveal, seen) -> (adjust, left', right') *)
  Definition reveal_after (l : left) (r : state) (reveal : left) (seen : nat) : Z * left * state :=
    let '(v, written, bw) := extend_loop (s_words r) (s_bo r) (skipn seen (l_ptrs reveal)) (negb (l_full l)) in
    let '(adjust, r', make_full) :=
      if l_full reveal then (x_adjust v + sum_bo bw, null_state, true)
      else (x_adjust v, {| s_words := firstn (x_next_use v) (s_words r); s_bo := bw |},
            orb (x_make_full v) (Nat.eqb (x_next_use v) (N_order - 1))) in
    let l' := if l_full l then l
              else let ptrs := l_ptrs l ++ written in
                   {| l_ptrs := ptrs; l_full := orb make_full (Nat.eqb (length ptrs) (N_order - 1)) |} in
    (adjust, l', r').

  (* Subsume(first_left, first_right, second_left, second_right, between_length = 0): merge two adjacent fragments;
     returns (adjust, first_left', second_right') *)
  Definition subsume (l1 : left) (r1 : state) (l2 : left) (r2 : state) : Z * left * state :=
    let '(v, written, bw) := extend_loop (s_words r1) (s_bo r1) (l_ptrs l2) (negb (l_full l1)) in
    let '(adjust, r2', make_full) :=
      if l_full l2 then (x_adjust v + sum_bo bw, r2, x_make_full v)
      else
        let r' := {| s_words := s_words r2 ++ firstn (x_next_use v) (s_words r1); s_bo := s_bo r2 ++ bw |} in
        (x_adjust v, r', orb (x_make_full v) (Nat.eqb (length (s_words r')) (N_order - 1))) in
    let l1' := if l_full l1 then l1
               else let ptrs := l_ptrs l1 ++ written in
                    {| l_ptrs := ptrs; l_full := orb make_full (orb (l_full l2) (Nat.eqb (length ptrs) (N_order - 1))) |} in
    (adjust, l1', r2').

  Fixpoint yield (t : tree) : list word :=
    match t with
    | Rule _ _ items =>
        (fix ys (l : list item) : list word :=
           match l with
           | [] => []
           | Term w :: l' => w :: ys l'
           | Sub t' :: l' => yield t' ++ ys l'
           end) items
    end.
End Chart.
