(* LM/Chart.v -- executable model of lm/left.hh (RuleScore) and lm/partial.hh (ExtendLoop, RevealBefore,
   RevealAfter, Subsume), line by line over LM/Query.v.  No proofs here.
   A left-state pointer (uint64 extend_left) is modelled by the key of the entry it denotes. *)
From Coq Require Import List ZArith NArith Bool Arith.
From Kenlm Require Import LM.Defs LM.Query.
Import ListNotations.
Local Open Scope Z_scope.

Record left := { l_ptrs : list key; l_full : bool }.
Record chart := { c_left : left; c_right : state }.
Definition empty_chart : chart := {| c_left := {| l_ptrs := []; l_full := false |}; c_right := null_state |}.

(* RuleScore: out_ (left pointers and right state being built), left_done_, prob_ *)
Record rs := { rs_ptrs : list key; rs_right : state; rs_done : bool; rs_prob : Z }.
Definition rs_init : rs := {| rs_ptrs := []; rs_right := null_state; rs_done := false; rs_prob := 0 |}.

Section Chart.
  Variable N_order : nat.
  Variable T : table.
  Variable different_rest : bool.

  Definition rs_begin_sentence (bos_state : state) (r : rs) : rs :=
    {| rs_ptrs := rs_ptrs r; rs_right := bos_state; rs_done := true; rs_prob := rs_prob r |}.

  Definition rs_terminal (r : rs) (w : word) : rs :=
    let copy := rs_right r in
    let '(ret, right') := full_score N_order T copy w in
    if rs_done r then {| rs_ptrs := rs_ptrs r; rs_right := right'; rs_done := true; rs_prob := rs_prob r + r_prob ret |}
    else if r_indep ret then {| rs_ptrs := rs_ptrs r; rs_right := right'; rs_done := true; rs_prob := rs_prob r + r_prob ret |}
    else {| rs_ptrs := rs_ptrs r ++ [r_ext ret]; rs_right := right';
            rs_done := negb (Nat.eqb (length (s_words right')) (S (length (s_words copy))));
            rs_prob := rs_prob r + r_rest ret |}.

  Definition rs_begin_nonterminal (c : chart) (p : Z) : rs :=
    {| rs_ptrs := l_ptrs (c_left c); rs_right := c_right c; rs_done := l_full (c_left c); rs_prob := p |}.

  (* ProcessRet *)
  Definition process_ret (ptrs : list key) (done : bool) (prob : Z) (ret : ret) : list key * bool * Z :=
    if done then (ptrs, true, prob + r_prob ret)
    else if r_indep ret then (ptrs, true, prob + r_prob ret)
    else (ptrs ++ [r_ext ret], false, prob + r_rest ret).

  (* the loop of NonTerminal over in.left.pointers; el = extend_length of the pointer at the head of `ptrs_in`.
     Returns either an early exit (Some rs) or the loop state (ptrs, done, prob, next_use, back). *)
  Fixpoint nt_loop (in_c : chart) (orig_right : state) (ptrs_in : list key) (el : nat)
           (ptrs : list key) (done : bool) (prob : Z) (next_use : nat) (back : list boval)
    : rs + (list key * bool * Z * nat * list boval) :=
    match ptrs_in with
    | [] => inr (ptrs, done, prob, next_use, back)
    | p :: rest =>
        let '(ret, back_out, nu) := extend_left N_order T (firstn next_use (s_words orig_right)) back p in
        let '(ptrs1, done1, prob1) := process_ret ptrs done prob ret in
        if negb (Nat.eqb nu (length (s_words orig_right))) then
          if Nat.eqb nu 0 then
            (* early exit: out.right = in.right; prob += UnRest(remaining pointers) *)
            inl {| rs_ptrs := ptrs1; rs_right := c_right in_c; rs_done := true;
                   rs_prob := prob1 + un_rest T different_rest rest |}
          else nt_loop in_c orig_right rest (S el) ptrs1 true prob1 nu back_out
        else nt_loop in_c orig_right rest (S el) ptrs1 done1 prob1 nu back_out
    end.

  Definition rs_nonterminal (r : rs) (in_c : chart) (p : Z) : rs :=
    let prob0 := rs_prob r + p in
    let inl_ := c_left in_c in
    match l_ptrs inl_ with
    | [] =>
        if l_full inl_ then
          {| rs_ptrs := rs_ptrs r; rs_right := c_right in_c; rs_done := true; rs_prob := prob0 + sum_bo (s_bo (rs_right r)) |}
        else {| rs_ptrs := rs_ptrs r; rs_right := rs_right r; rs_done := rs_done r; rs_prob := prob0 |}
    | _ =>
        match s_words (rs_right r) with
        | [] =>
            if rs_done r then
              {| rs_ptrs := rs_ptrs r; rs_right := c_right in_c; rs_done := true;
                 rs_prob := prob0 + un_rest T different_rest (l_ptrs inl_) |}
            else match rs_ptrs r with
                 | _ :: _ => {| rs_ptrs := rs_ptrs r; rs_right := c_right in_c; rs_done := true; rs_prob := prob0 |}
                 | [] => {| rs_ptrs := l_ptrs inl_; rs_right := c_right in_c; rs_done := l_full inl_; rs_prob := prob0 |}
                 end
        | _ =>
            let orig := rs_right r in
            match nt_loop in_c orig (l_ptrs inl_) 1 (rs_ptrs r) (rs_done r) prob0 (length (s_words orig)) (s_bo orig) with
            | inl early => early
            | inr (ptrs, done, prob, next_use, back) =>
                if l_full inl_ then
                  {| rs_ptrs := ptrs; rs_right := c_right in_c; rs_done := true; rs_prob := prob + sum_bo (firstn next_use back) |}
                else if Nat.ltb (length (s_words (c_right in_c))) (length (l_ptrs inl_)) then
                  {| rs_ptrs := ptrs; rs_right := c_right in_c; rs_done := done; rs_prob := prob |}
                else
                  {| rs_ptrs := ptrs;
                     rs_right := {| s_words := s_words (c_right in_c) ++ firstn next_use (s_words orig);
                                    s_bo := s_bo (c_right in_c) ++ firstn next_use back |};
                     rs_done := done; rs_prob := prob |}
            end
        end
    end.

  Definition rs_finish (r : rs) : chart * Z :=
    ({| c_left := {| l_ptrs := rs_ptrs r; l_full := orb (rs_done r) (Nat.eqb (length (rs_ptrs r)) (N_order - 1)) |};
        c_right := rs_right r |}, rs_prob r).

  (* ---- derivation trees ------------------------------------------------------------------------ *)
  (* a rule application: optional <s>, then a sequence of terminals and sub-derivations;
     `fast` = use BeginNonTerminal when the first item is a sub-derivation *)
  Inductive item := Term (w : word) | Sub (t : tree)
  with tree := Rule (bos : bool) (fast : bool) (items : list item).

  Fixpoint eval_tree (bos_state : state) (t : tree) {struct t} : chart * Z :=
    match t with
    | Rule bos fast items =>
        let start := if bos then rs_begin_sentence bos_state rs_init else rs_init in
        let go := fix go (first : bool) (r : rs) (l : list item) {struct l} : rs :=
          match l with
          | [] => r
          | Term w :: l' => go false (rs_terminal r w) l'
          | Sub t' :: l' =>
              let '(c, p) := eval_tree bos_state t' in
              go false (if andb first (andb fast (negb bos)) then rs_begin_nonterminal c p else rs_nonterminal r c p) l'
          end in
        rs_finish (go true start items)
    end.

  Fixpoint yield (t : tree) : list word :=
    match t with
    | Rule _ _ items =>
        (fix ys (l : list item) : list word :=
           match l with
           | [] => []
           | Term w :: l' => w :: ys l'
           | Sub t' :: l' => yield t' ++ ys l'
           end) items
    end.
End Chart.
