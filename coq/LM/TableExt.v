(* LM/TableExt.v -- queries are a function of the table alone (no functional extensionality needed): two tables with the same lookup
   function give identical FullScore, FullScoreForgotState and GetState.  Shared by C04 (a loader that reconstructs the same table answers
   identically) and C01 (the table decoded from the loaded file). *)
From Coq Require Import ZArith List Bool.
From Kenlm Require Import LM.Defs LM.Query LM.QueryProofs.
Import ListNotations.
Local Open Scope Z_scope.

Theorem same_table_same_answers : forall N T1 T2 K s w ctx,
  (forall k, T1 k = T2 k) ->
  full_score N T1 s w = full_score N T2 s w /\
  full_score_forgot N T1 K ctx w = full_score_forgot N T2 K ctx w /\
  get_state N T1 ctx = get_state N T2 ctx.
Proof.
  intros N T1 T2 K s w ctx Heq.
  (* without functional extensionality: all three functions only ever apply the table *)
  assert (R : forall hist om2 node bos nu r, resume N T1 hist om2 node bos nu r = resume N T2 hist om2 node bos nu r).
  { induction hist as [|h hist IH]; intros; cbn [resume]; [reflexivity|]. rewrite !Heq.
    destruct (r_indep r); [reflexivity|]. destruct (Nat.eqb om2 (N - 2)); [reflexivity|].
    destruct (T2 (node ++ [h])); [apply IH|reflexivity]. }
  assert (U : forall x, uni T1 x = uni T2 x) by (intros x; unfold uni; rewrite Heq; reflexivity).
  assert (S : forall c x, score_except_backoff N T1 c x = score_except_backoff N T2 c x).
  { intros c x. unfold score_except_backoff. rewrite U. destruct c; [reflexivity|]. rewrite R. reflexivity. }
  assert (C : forall rest node, charge T1 rest node = charge T2 rest node).
  { induction rest as [|x rest IH]; intros; cbn [charge]; [reflexivity|]. rewrite Heq. destruct (T2 (node ++ [x])); [rewrite IH|]; reflexivity. }
  assert (W : forall rest node b, trie_walk T1 rest node b = trie_walk T2 rest node b).
  { induction rest as [|x rest IH]; intros; cbn [trie_walk]; [reflexivity|]. destruct b; [reflexivity|]. rewrite Heq.
    destruct (T2 (node ++ [x])); [apply IH|reflexivity]. }
  assert (G : forall rest node bos len i, get_state_loop T1 rest node bos len i = get_state_loop T2 rest node bos len i).
  { induction rest as [|x rest IH]; intros; cbn [get_state_loop]; [reflexivity|]. rewrite Heq. destruct (T2 (node ++ [x])); [apply IH|reflexivity]. }
  split; [unfold full_score; rewrite S; reflexivity|]. split.
  - unfold full_score_forgot. rewrite S. destruct (score_except_backoff N T2 (firstn (N - 1) ctx) w) as [r out].
    destruct (Nat.ltb _ _); [reflexivity|]. destruct (Nat.leb _ _).
    + destruct (firstn (N - 1) ctx); [reflexivity|]. rewrite U, C. reflexivity.
    + unfold fast_make_node. destruct K.
      * rewrite C. reflexivity.
      * destruct (firstn (r_len r - 1) (firstn (N - 1) ctx)) as [|x rest]; [rewrite C; reflexivity|].
        rewrite U, W. destruct (trie_walk T2 rest [x] (negb (e_left (uni T2 x)))); [rewrite C|]; reflexivity.
  - unfold get_state. destruct (firstn (N - 1) ctx); [reflexivity|]. rewrite U, G. reflexivity.
Qed.

(* the loaders' invariant only ever applies the table: it transfers along pointwise equality *)
Lemma TInv_ext : forall n (T1 T2 : table) M, (forall k, T1 k = T2 k) -> TInv n T1 M -> TInv n T2 M.
Proof.
  intros n T1 T2 M H [I1 I2 I3 I4 I5 I6 I7 I8]. constructor.
  - intros k x Hk Hx. rewrite <- H in *. exact (I1 k x Hk Hx).
  - intros k e He Hl. rewrite <- H in He. destruct (I2 k e He Hl) as [A B]. split.
    + intros Hle. destruct (A Hle) as [x Hx]. exists x. rewrite <- H. exact Hx.
    + intros [x Hx]. apply B. exists x. rewrite H. exact Hx.
  - intros w c e He. rewrite <- H in He. exact (I3 w c e He).
  - intros k e He. rewrite <- H in He. exact (I4 k e He).
  - intros k Hk. rewrite <- H in Hk. exact (I5 k Hk).
  - intros k e He Hx. rewrite <- H in He. destruct (I6 k e He Hx) as [A B]. split; [exact A|]. intros x. rewrite <- H. apply B.
  - intros w k Hk Hw. rewrite <- H in *. exact (I7 w k Hk Hw).
  - intros k Hk. rewrite <- H in Hk. exact (I8 k Hk).
Qed.
