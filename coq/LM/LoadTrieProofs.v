(* LM/LoadTrieProofs.v -- the trie loader model (LM/Load.v load_trie) establishes the invariants TInv
   (LM/QueryProofs.v) for EVERY well-formed input it accepts (file with <unk>). *)
From Coq Require Import List ZArith NArith Bool Arith Lia.
From Kenlm Require Import LM.Defs LM.Query LM.QueryProofs LM.Load LM.InvCheck.
Import ListNotations.
Local Open Scope Z_scope.

(* ---- association-list plumbing ----------------------------------------------------------------- *)
Lemma key_eqb_refl : forall k, key_eqb k k = true.
Proof. intros. apply key_eqb_true. reflexivity. Qed.

Lemma key_eqb_false : forall a b, key_eqb a b = false <-> a <> b.
Proof. intros a b. unfold key_eqb. destruct (list_eq_dec N.eq_dec a b); split; congruence. Qed.

Lemma alookup_app : forall a b k, alookup (a ++ b) k = match alookup a k with Some e => Some e | None => alookup b k end.
Proof.
  induction a as [|[k' e] a IH]; intros b k; cbn [app alookup]; [reflexivity|].
  destruct (key_eqb k' k); [reflexivity|apply IH].
Qed.

Lemma alookup_map_entries : forall (l : atable) (f : key -> entry -> entry) k,
  alookup (map (fun ke => (fst ke, f (fst ke) (snd ke))) l) k = option_map (f k) (alookup l k).
Proof.
  induction l as [|[k' e] l IH]; intros f k; cbn [map alookup fst snd]; [reflexivity|].
  destruct (key_eqb k' k) eqn:E; [apply key_eqb_true in E; subst; reflexivity|apply IH].
Qed.

Lemma mem_key_true : forall k l, mem_key k l = true <-> In k l.
Proof.
  intros k l. unfold mem_key. rewrite existsb_exists. split.
  - intros [x [Hx He]]. apply key_eqb_true in He. subst. exact Hx.
  - intros H. exists k. split; [exact H|apply key_eqb_refl].
Qed.

Lemma alookup_map_keys : forall (l : list key) (h : key -> entry) k,
  alookup (map (fun B => (B, h B)) l) k = if mem_key k l then Some (h k) else None.
Proof.
  induction l as [|B l IH]; intros h k; cbn [map alookup]; [reflexivity|].
  unfold mem_key. cbn [existsb]. fold (mem_key k l).
  destruct (key_eqb B k) eqn:E.
  - apply key_eqb_true in E. subst. rewrite key_eqb_refl. reflexivity.
  - assert (key_eqb k B = false) by (apply key_eqb_false; apply key_eqb_false in E; congruence).
    rewrite H. cbn [orb]. apply IH.
Qed.

Lemma alookup_some_in : forall t k e, alookup t k = Some e -> In k (map fst t).
Proof. intros t k e H. apply alookup_in. rewrite H. discriminate. Qed.

Lemma dedup_in : forall l acc k, In k (dedup l acc) <-> In k l \/ In k acc.
Proof.
  induction l as [|x l IH]; intros acc k; cbn [dedup].
  - rewrite <- in_rev. cbn [In]. tauto.
  - destruct (mem_key x acc) eqn:E.
    + rewrite IH. apply mem_key_true in E. cbn [In]. split; [tauto|]. intros [[Hx|H]|H]; [subst; tauto|tauto|tauto].
    + rewrite IH. cbn [In]. tauto.
Qed.

(* ---- the file as a function -------------------------------------------------------------------- *)
Definition M_of (grams : list gram) : arpa :=
  fun k => match find (fun g => key_eqb (g_key g) k) grams with Some g => Some (g_prob g, g_bo g) | None => None end.

(* the real entries, with the entry made of each listed n-gram left open: mk_entry for everything except the <unk> the
   loader synthesises (whose back-off +0.0 carries the extension bit) *)
Definition reals_gen (mk : gram -> entry) (grams : list gram) : atable := map (fun g => (g_key g, mk g)) grams.
Definition mk_std (g : gram) : entry := mk_entry (g_prob g) (g_bo g).
Definition reals_of (grams : list gram) : atable := reals_gen mk_std grams.

Lemma alookup_reals_gen : forall mk grams k,
  alookup (reals_gen mk grams) k = option_map mk (find (fun g => key_eqb (g_key g) k) grams).
Proof.
  unfold reals_gen. induction grams as [|g gs IH]; intros k; cbn [map alookup find]; [reflexivity|].
  destruct (key_eqb (g_key g) k); [reflexivity|apply IH].
Qed.

Lemma alookup_reals : forall grams k,
  alookup (reals_of grams) k = option_map (fun pb => mk_entry (fst pb) (snd pb)) (M_of grams k).
Proof.
  intros grams k. unfold reals_of. rewrite alookup_reals_gen. unfold M_of.
  destruct (find (fun g => key_eqb (g_key g) k) grams); reflexivity.
Qed.

Lemma is_real_M_gen : forall mk grams k, is_real (reals_gen mk grams) k = true <-> M_of grams k <> None.
Proof.
  intros mk grams k. unfold is_real. rewrite alookup_reals_gen. unfold M_of.
  destruct (find (fun g => key_eqb (g_key g) k) grams); cbn; split; congruence.
Qed.

Lemma is_real_M : forall grams k, is_real (reals_of grams) k = true <-> M_of grams k <> None.
Proof. intros. apply is_real_M_gen. Qed.

Section TrieInv.
  Variable N_order : nat.
  Hypothesis Hord : (2 <= N_order)%nat.
  Variable unigrams : list gram.
  Variable higher : list (list gram).
  Variable mk : gram -> entry.
  Hypothesis mk_ok : forall g, e_prob (mk g) = g_prob g /\ e_bo (mk g) = g_bo g /\ (e_ext (mk g) = false -> g_bo g = 0).
  Let grams := unigrams ++ concat higher.
  Let M := M_of grams.
  Let reals := reals_gen mk grams.
  Let real_keys := map fst reals.

  (* well-formed input: what ReadARPA + the vocabulary guarantee before the trie is built *)
  Hypothesis wf_len : forall g, In g grams -> (1 <= length (g_key g) <= N_order)%nat.
  Hypothesis wf_words : forall g w, In g grams -> In w (g_key g) -> M [w] <> None.

  Let blanks := dedup (concat (map (fun K => blanks_of reals K) real_keys)) [].
  Let all_targets := concat (map (fun B => targets (based_on reals B (length B - 1)) B) blanks).
  Definition trie_real_contexts := map (fun K => tl K) (filter (fun K => Nat.ltb 1 (length K)) real_keys).
  Let real_contexts := trie_real_contexts.
  Let all_keys := real_keys ++ blanks.
  Let has_child (k : key) := existsb (fun k' => andb (Nat.eqb (length k') (S (length k))) (key_eqb (firstn (length k) k') k)) all_keys.
  Let upgrade (k : key) (e : entry) : entry :=
    {| e_prob := e_prob e; e_bo := e_bo e;
       e_ext := orb (e_ext e) (orb (mem_key k real_contexts) (mem_key k all_targets));
       e_left := has_child k; e_rest := e_prob e |}.
  Let bentry (B : key) : entry :=
    {| e_prob := blank_prob reals B; e_bo := 0;
       e_ext := andb (negb (Nat.eqb (length B) (N_order - 1))) (mem_key B all_targets);
       e_left := has_child B; e_rest := blank_prob reals B |}.
  Definition trie_tbl : atable := map (fun ke => (fst ke, upgrade (fst ke) (snd ke))) reals ++ map (fun B => (B, bentry B)) blanks.
  Let tbl := trie_tbl.

  Definition T : table := alookup tbl.

  Lemma T_eq : forall k, T k = match alookup reals k with
                               | Some e => Some (upgrade k e)
                               | None => if mem_key k blanks then Some (bentry k) else None
                               end.
  Proof.
    intros k. unfold T, tbl, trie_tbl. rewrite alookup_app, alookup_map_entries, alookup_map_keys.
    destruct (alookup reals k); reflexivity.
  Qed.

  Lemma real_iff : forall k, alookup reals k <> None <-> M k <> None.
  Proof. intros k. unfold M. rewrite <- is_real_M_gen with (mk := mk). fold reals. unfold is_real. destruct (alookup reals k); split; congruence. Qed.

  Lemma real_key_in : forall k, M k <> None <-> In k real_keys.
  Proof. intros k. rewrite <- real_iff. unfold real_keys. apply alookup_in. Qed.

  Lemma real_key_len : forall k, In k real_keys -> (1 <= length k <= N_order)%nat.
  Proof.
    intros k Hk. unfold real_keys, reals, reals_gen in Hk. rewrite map_map in Hk. cbn [fst] in Hk.
    apply in_map_iff in Hk. destruct Hk as [g [Hg Hin]]. subst. apply wf_len. exact Hin.
  Qed.

  (* blanks: the proper prefixes (orders 2..n-1) of real n-grams that are not real *)
  Lemma blank_iff : forall B, In B blanks <->
    (M B = None /\ exists K j, In K real_keys /\ (2 <= j < length K)%nat /\ B = firstn j K).
  Proof.
    intros B. unfold blanks. rewrite dedup_in. cbn [In]. rewrite in_concat. split.
    - intros [[l [Hl HB]]|[]]. apply in_map_iff in Hl. destruct Hl as [K [HK HinK]]. subst l.
      unfold blanks_of in HB. apply filter_In in HB. destruct HB as [HB Hnr].
      apply in_map_iff in HB. destruct HB as [j [Hj Hin]]. apply in_seq in Hin.
      split.
      + apply negb_true_iff in Hnr. destruct (M B) eqn:EM; [|reflexivity]. exfalso.
        assert (is_real reals B = true) by (apply (is_real_M_gen mk grams); fold M; rewrite EM; discriminate). congruence.
      + exists K, j. split; [exact HinK|]. split; [lia|congruence].
    - intros [HM [K [j [HK [Hj HB]]]]]. left. exists (blanks_of reals K). split.
      + apply in_map_iff. exists K. split; [reflexivity|exact HK].
      + unfold blanks_of. apply filter_In. split.
        * apply in_map_iff. exists j. split; [congruence|]. apply in_seq. lia.
        * apply negb_true_iff. destruct (is_real reals B) eqn:E; [|reflexivity]. exfalso.
          apply (is_real_M_gen mk grams) in E. fold M in E. congruence.
  Qed.

  Lemma blank_len : forall B, In B blanks -> (2 <= length B <= N_order - 1)%nat.
  Proof.
    intros B HB. apply blank_iff in HB. destruct HB as [_ [K [j [HK [Hj ->]]]]].
    pose proof (real_key_len K HK). rewrite firstn_length. lia.
  Qed.

  Lemma T_some_iff : forall k, T k <> None <-> (M k <> None \/ In k blanks).
  Proof.
    intros k. rewrite T_eq. destruct (alookup reals k) as [e|] eqn:E.
    - split; [intros _; left; apply real_iff; rewrite E; discriminate|discriminate].
    - assert (M k = None) by (destruct (M k) eqn:EM; [exfalso; apply (proj2 (real_iff k)) ; [rewrite EM; discriminate|exact E]|reflexivity]).
      destruct (mem_key k blanks) eqn:Em.
      + split; [intros _; right; apply mem_key_true; exact Em|discriminate].
      + split; [congruence|]. intros [Hr|Hb]; [congruence|]. apply mem_key_true in Hb. congruence.
  Qed.

  Lemma T_in_all_keys : forall k, T k <> None <-> In k all_keys.
  Proof. intros k. rewrite T_some_iff. unfold all_keys. rewrite in_app_iff, real_key_in. reflexivity. Qed.

  (* a prefix of order >= 1 of a stored key is stored (suffix closure with blanks) *)
  Lemma unigram_real : forall K w, In K real_keys -> In w K -> M [w] <> None.
  Proof.
    intros K w HK Hw. unfold real_keys, reals, reals_gen in HK. rewrite map_map in HK. cbn [fst] in HK.
    apply in_map_iff in HK. destruct HK as [g [Hg Hin]]. subst. apply (wf_words g w Hin Hw).
  Qed.

  Lemma prefix_stored_real : forall K j, In K real_keys -> (1 <= j <= length K)%nat -> T (firstn j K) <> None.
  Proof.
    intros K j HK Hj. apply T_some_iff.
    destruct (M (firstn j K)) eqn:EM; [left; discriminate|]. right.
    destruct (Nat.eq_dec j (length K)) as [->|Hne].
    - rewrite firstn_all in EM. apply real_key_in in HK. congruence.
    - destruct (Nat.eq_dec j 1) as [->|Hn1].
      + exfalso. destruct K as [|w K']; [simpl in Hj; lia|]. cbn [firstn] in EM.
        apply (unigram_real (w :: K') w HK (or_introl eq_refl)). exact EM.
      + apply blank_iff. split; [exact EM|]. exists K, j. split; [exact HK|]. split; [lia|reflexivity].
  Qed.

  Lemma prefix_stored : forall k j, T k <> None -> (1 <= j <= length k)%nat -> T (firstn j k) <> None.
  Proof.
    intros k j Hk Hj. apply T_some_iff in Hk. destruct Hk as [Hr|Hb].
    - apply prefix_stored_real; [apply real_key_in; exact Hr|exact Hj].
    - apply blank_iff in Hb. destruct Hb as [_ [K [i [HK [Hi ->]]]]].
      rewrite firstn_length in Hj. rewrite firstn_firstn.
      apply prefix_stored_real; [exact HK|lia].
  Qed.

  (* ---- the MissingContext check passed ------------------------------------------------------ *)
  Hypothesis Hctx : forallb (fun c => is_real reals c) real_contexts = true.

  Lemma real_context_real : forall K, In K real_keys -> (2 <= length K)%nat -> M (tl K) <> None.
  Proof.
    intros K HK Hl. rewrite forallb_forall in Hctx.
    assert (In (tl K) real_contexts).
    { unfold real_contexts. apply in_map_iff. exists K. split; [reflexivity|]. apply filter_In. split; [exact HK|].
      apply Nat.ltb_lt. lia. }
    apply Hctx in H. apply (is_real_M_gen mk grams) in H. exact H.
  Qed.

  Lemma real_entry : forall k e, alookup reals k = Some e ->
    exists g, find (fun g => key_eqb (g_key g) k) grams = Some g /\ e = mk g /\ M k = Some (g_prob g, g_bo g).
  Proof.
    intros k e H. unfold reals in H. rewrite alookup_reals_gen in H.
    destruct (find (fun g => key_eqb (g_key g) k) grams) as [g|] eqn:Ef; [|discriminate]. injection H as <-.
    exists g. split; [reflexivity|]. split; [reflexivity|]. unfold M, M_of. rewrite Ef. reflexivity.
  Qed.

  Lemma real_bo : forall c, (match alookup reals c with Some e => e_bo e | None => 0 end) = bo_of M c.
  Proof.
    intros c. destruct (alookup reals c) as [e|] eqn:E.
    - destruct (real_entry c e E) as [g [_ [-> HM]]]. unfold bo_of. rewrite HM. apply (proj1 (proj2 (mk_ok g))).
    - unfold bo_of. destruct (M c) eqn:EM; [|reflexivity]. exfalso.
      assert (alookup reals c <> None) by (apply real_iff; rewrite EM; discriminate). congruence.
  Qed.

  Lemma real_prob : forall k p q, M k = Some (p, q) ->
    exists e, alookup reals k = Some e /\ e_prob e = p /\ e_bo e = q /\ (e_ext e = false -> q = 0).
  Proof.
    intros k p q H. destruct (alookup reals k) as [e|] eqn:E.
    - destruct (real_entry k e E) as [g [_ [-> HM]]]. rewrite H in HM. injection HM as -> ->.
      exists (mk g). split; [reflexivity|]. destruct (mk_ok g) as [A [B C]]. split; [exact A|]. split; [exact B|exact C].
    - exfalso. assert (alookup reals k <> None) by (apply real_iff; rewrite H; discriminate). congruence.
  Qed.

  (* ---- blank probabilities are the back-off recursion -------------------------------------- *)
  Definition addbo (acc : Z) (c : key) : Z := match alookup reals c with Some e => acc + e_bo e | None => acc end.

  Lemma addbo_spec : forall acc c, addbo acc c = acc + bo_of M c.
  Proof. intros. unfold addbo. rewrite <- real_bo. destruct (alookup reals c); lia. Qed.

  Lemma spec_hit' : forall w c k p q, M (w :: firstn k c) = Some (p, q) -> spec M c w k = p.
  Proof. intros w c k p q H. destruct k; cbn [spec]; rewrite H; reflexivity. Qed.

  Lemma spec_blank : forall w c n b p q, (1 <= b)%nat -> M (w :: firstn (b - 1) c) = Some (p, q) ->
    (forall i, (b <= i < b + n)%nat -> M (w :: firstn i c) = None) -> (b - 1 + n <= length c)%nat ->
    spec M c w (b - 1 + n) = fold_left addbo (map (fun i => firstn i c) (seq b n)) p.
  Proof.
    intros w c n. induction n as [|n IH]; intros b p q Hb Hhit Hmiss Hlen.
    - rewrite Nat.add_0_r. cbn [seq map fold_left]. apply (spec_hit' w c (b - 1)%nat p q Hhit).
    - replace (b - 1 + S n)%nat with (S (b - 1 + n)) by lia. cbn [spec].
      replace (S (b - 1 + n)) with (b + n)%nat by lia.
      rewrite (Hmiss (b + n)%nat) by lia.
      rewrite seq_S, map_app, fold_left_app. cbn [map fold_left]. rewrite addbo_spec.
      replace (b + n - 1)%nat with (b - 1 + n)%nat by lia.
      assert (IH' : spec M c w (b - 1 + n) = fold_left addbo (map (fun i => firstn i c) (seq b n)) p).
      { apply (IH b p q Hb Hhit); [intros i Hi; apply Hmiss; lia|lia]. }
      rewrite IH'. apply Z.add_comm.
  Qed.

  Lemma based_on_spec : forall B j, M (firstn 1 B) <> None -> (1 <= j)%nat ->
    let b := based_on reals B j in
    (1 <= b <= j)%nat /\ M (firstn b B) <> None /\ forall i, (b < i <= j)%nat -> M (firstn i B) = None.
  Proof.
    intros B j H1. induction j as [|j IH]; intros Hj; [lia|].
    cbn [based_on]. destruct (is_real reals (firstn (S j) B)) eqn:E.
    - apply (is_real_M_gen mk grams) in E. fold M in E. cbv zeta. split; [lia|]. split; [exact E|]. intros; lia.
    - assert (EM : M (firstn (S j) B) = None).
      { destruct (M (firstn (S j) B)) eqn:EM; [|reflexivity]. exfalso.
        assert (is_real reals (firstn (S j) B) = true) by (apply (is_real_M_gen mk grams); fold M; rewrite EM; discriminate). congruence. }
      destruct (Nat.eq_dec j 0) as [->|Hj0]; [congruence|].
      destruct (IH ltac:(lia)) as [Hb [Hr Hm]]. cbv zeta. split; [lia|]. split; [exact Hr|].
      intros i Hi. destruct (Nat.eq_dec i (S j)) as [->|Hne]; [exact EM|apply Hm; lia].
  Qed.

  Lemma blank_prob_spec : forall w c, In (w :: c) blanks -> blank_prob reals (w :: c) = spec M c w (length c).
  Proof.
    intros w c HB. pose proof (blank_len _ HB) as HL. cbn [length] in HL.
    pose proof (proj1 (blank_iff _) HB) as [HMB [K [j [HK [Hj HBK]]]]].
    assert (H1 : M (firstn 1 (w :: c)) <> None).
    { cbn [firstn]. apply (unigram_real K w HK). rewrite <- (firstn_skipn j K), <- HBK. apply in_or_app. left. left. reflexivity. }
    unfold blank_prob. cbn [length]. replace (S (length c) - 1)%nat with (length c) by lia.
    destruct (based_on_spec (w :: c) (length c) H1 ltac:(lia)) as [Hb [Hr Hm]].
    set (b := based_on reals (w :: c) (length c)) in *.
    destruct (M (firstn b (w :: c))) as [[p q]|] eqn:EM; [|congruence].
    destruct (real_prob _ p q EM) as [e0 [Hr0 [Hp0 _]]]. rewrite Hr0, Hp0.
    unfold targets. cbn [tl length].
    assert (Hfb : firstn b (w :: c) = w :: firstn (b - 1) c) by (destruct b; [lia|cbn [firstn]; f_equal; f_equal; lia]).
    rewrite Hfb in EM.
    pose proof (spec_blank w c (S (length c) - b) b p q ltac:(lia) EM) as Hs.
    replace (b - 1 + (S (length c) - b))%nat with (length c) in Hs by lia.
    rewrite Hs; [reflexivity| |lia].
    intros i Hi. destruct (Nat.eq_dec i (length c)) as [->|Hne].
    - rewrite firstn_all. exact HMB.
    - specialize (Hm (S i) ltac:(lia)). cbn [firstn] in Hm. exact Hm.
  Qed.

  Lemma has_child_iff : forall k, has_child k = true <-> exists x, T (k ++ [x]) <> None.
  Proof.
    intros k. unfold has_child. rewrite existsb_exists. split.
    - intros [k' [Hin Hk']]. apply andb_true_iff in Hk'. destruct Hk' as [Hl He].
      apply Nat.eqb_eq in Hl. apply key_eqb_true in He.
      assert (Hs : length (skipn (length k) k') = 1%nat) by (rewrite skipn_length; lia).
      destruct (skipn (length k) k') as [|x [|y r]] eqn:Es; try (simpl in Hs; lia).
      exists x. rewrite <- He at 1. rewrite <- Es. rewrite firstn_skipn. apply T_in_all_keys. exact Hin.
    - intros [x Hx]. exists (k ++ [x]). split; [apply T_in_all_keys; exact Hx|].
      rewrite app_length. cbn [length]. rewrite firstn_app, Nat.sub_diag, firstn_all. cbn [firstn]. rewrite app_nil_r.
      rewrite key_eqb_refl. rewrite (proj2 (Nat.eqb_eq _ _)) by lia. reflexivity.
  Qed.

  Lemma tl_blank_is_target : forall B, In B blanks -> In (tl B) all_targets.
  Proof.
    intros B HB. unfold all_targets. apply in_concat. exists (targets (based_on reals B (length B - 1)) B).
    split; [apply in_map_iff; exists B; split; [reflexivity|exact HB]|].
    pose proof (blank_len _ HB) as HL.
    pose proof (proj1 (blank_iff _) HB) as [HMB [K [j [HK [Hj HBK]]]]].
    assert (H1 : M (firstn 1 B) <> None).
    { destruct B as [|w c]; [simpl in HL; lia|]. cbn [firstn]. apply (unigram_real K w HK).
      rewrite <- (firstn_skipn j K), <- HBK. apply in_or_app. left. left. reflexivity. }
    destruct (based_on_spec B (length B - 1) H1 ltac:(lia)) as [Hb _].
    unfold targets. apply in_map_iff. exists (length B - 1)%nat. split.
    - apply firstn_all2. destruct B; simpl in *; lia.
    - apply in_seq. lia.
  Qed.

  (* ---- the theorem: the accepted table satisfies every invariant -------------------------------- *)
  Theorem trie_table_inv : TInv N_order T M.
  Proof.
    constructor.
    - (* i_suffix *)
      intros k x Hne Hs.
      replace k with (firstn (length k) (k ++ [x])) by (rewrite firstn_app, Nat.sub_diag, firstn_all; cbn [firstn]; apply app_nil_r).
      apply prefix_stored; [exact Hs|]. rewrite app_length. cbn [length]. destruct k; [congruence|cbn [length]; lia].
    - (* i_left *)
      intros k e He _. rewrite <- has_child_iff. rewrite T_eq in He.
      destruct (alookup reals k); [injection He as <-; reflexivity|].
      destruct (mem_key k blanks); [injection He as <-; reflexivity|discriminate].
    - (* i_prob *)
      intros w c e He. rewrite T_eq in He. destruct (alookup reals (w :: c)) as [e0|] eqn:Er.
      + injection He as <-. cbn [e_prob upgrade]. destruct (real_entry _ _ Er) as [g [_ [-> EM]]].
        rewrite (proj1 (mk_ok g)).
        destruct (length c) eqn:El; cbn [spec]; rewrite <- ?El, firstn_all, EM; reflexivity.
      + destruct (mem_key (w :: c) blanks) eqn:Em; [|discriminate]. injection He as <-. cbn [e_prob bentry].
        apply blank_prob_spec. apply mem_key_true. exact Em.
    - (* i_bo *)
      intros k e He. rewrite T_eq in He. rewrite <- real_bo. destruct (alookup reals k) as [e0|] eqn:Er.
      + injection He as <-. reflexivity.
      + destruct (mem_key k blanks); [injection He as <-; reflexivity|discriminate].
    - (* i_sub *)
      intros k Hn. destruct (M k) eqn:EM; [|reflexivity]. exfalso.
      assert (T k <> None) by (apply T_some_iff; left; rewrite EM; discriminate). congruence.
    - (* i_ext *)
      intros k e He Hext. rewrite T_eq in He. destruct (alookup reals k) as [e0|] eqn:Er.
      + injection He as <-. cbn [e_ext e_bo upgrade] in *.
        apply orb_false_iff in Hext. destruct Hext as [H1 H2]. apply orb_false_iff in H2. destruct H2 as [H2 H3].
        destruct (real_entry _ _ Er) as [g [_ [-> EM]]]. destruct (mk_ok g) as [_ [Hgb Hgx]].
        split; [rewrite Hgb; apply Hgx; exact H1|].
        intros x. destruct (T (x :: k)) eqn:Ex; [|reflexivity]. exfalso.
        assert (Hx : T (x :: k) <> None) by (rewrite Ex; discriminate).
        apply T_some_iff in Hx. destruct Hx as [Hr|Hb].
        * assert (In k real_contexts).
          { unfold real_contexts. apply in_map_iff. exists (x :: k). split; [reflexivity|]. apply filter_In.
            split; [apply real_key_in; exact Hr|]. apply Nat.ltb_lt. cbn [length].
            assert (In k real_keys) by (apply real_key_in; rewrite EM; discriminate).
            pose proof (real_key_len k H). lia. }
          apply mem_key_true in H. congruence.
        * apply tl_blank_is_target in Hb. cbn [tl] in Hb. apply mem_key_true in Hb. congruence.
      + destruct (mem_key k blanks) eqn:Em; [|discriminate]. injection He as <-. cbn [e_ext e_bo bentry] in *.
        split; [reflexivity|]. apply mem_key_true in Em.
        intros x. destruct (T (x :: k)) eqn:Ex; [|reflexivity]. exfalso.
        assert (Hx : T (x :: k) <> None) by (rewrite Ex; discriminate).
        apply T_some_iff in Hx. destruct Hx as [Hr|Hb].
        * pose proof (blank_len k Em) as HL.
          pose proof (real_context_real (x :: k) ltac:(apply real_key_in; exact Hr) ltac:(cbn [length]; lia)) as Hc.
          cbn [tl] in Hc. apply (proj1 (blank_iff k)) in Em. destruct Em as [Hn _]. congruence.
        * pose proof (tl_blank_is_target _ Hb) as Ht. cbn [tl] in Ht. apply mem_key_true in Ht. rewrite Ht in Hext.
          rewrite andb_true_r in Hext. apply negb_false_iff in Hext. apply Nat.eqb_eq in Hext.
          pose proof (blank_len _ Hb) as HL. cbn [length] in HL. lia.
    - (* i_ctx *)
      intros w k Hne Hs. apply T_some_iff in Hs. destruct Hs as [Hr|Hb].
      + apply T_some_iff. left.
        apply (real_context_real (w :: k)); [apply real_key_in; exact Hr|]. destruct k; [congruence|cbn [length]; lia].
      + apply blank_iff in Hb. destruct Hb as [_ [K [j [HK [Hj HB]]]]].
        assert (Hk : k = firstn (j - 1) (tl K)).
        { destruct K as [|a K']; [simpl in Hj; lia|]. destruct j as [|j]; [lia|]. cbn [firstn tl] in *.
          injection HB as _ Hk. rewrite Hk. f_equal. lia. }
        rewrite Hk. apply prefix_stored_real.
        * apply real_key_in. apply real_context_real; [exact HK|lia].
        * destruct K; simpl in *; lia.
    - (* i_len *)
      intros k Hk. apply T_some_iff in Hk. destruct Hk as [Hr|Hb].
      + apply real_key_len. apply real_key_in. exact Hr.
      + pose proof (blank_len k Hb). lia.
  Qed.
End TrieInv.

(* ---- closed statements ---------------------------------------------------------------------- *)
Lemma mk_std_ok : forall g, e_prob (mk_std g) = g_prob g /\ e_bo (mk_std g) = g_bo g /\ (e_ext (mk_std g) = false -> g_bo g = 0).
Proof.
  intros g. unfold mk_std, mk_entry. cbn [e_prob e_bo e_ext]. split; [reflexivity|]. split; [reflexivity|].
  intros H. apply negb_false_iff in H. apply Z.eqb_eq in H. exact H.
Qed.

Lemma load_trie_unfold : forall N up unigrams higher,
  load_trie N true up unigrams higher =
  if negb (forallb (fun c => is_real (reals_gen mk_std (unigrams ++ concat higher)) c) (trie_real_contexts unigrams higher mk_std))
  then LoadError MissingContext else Loaded (trie_tbl N unigrams higher mk_std).
Proof.
  intros N up unigrams higher. unfold load_trie, trie_tbl, trie_real_contexts. cbv zeta.
  replace (map (fun g => (g_key g, mk_entry (g_prob g) (g_bo g))) unigrams ++
           map (fun g => (g_key g, mk_entry (g_prob g) (g_bo g))) (concat higher)) with (reals_gen mk_std (unigrams ++ concat higher))
    by (unfold reals_gen, mk_std; rewrite map_app; reflexivity).
  reflexivity.
Qed.

Theorem load_trie_inv : forall N unigrams higher unk_prob t, (2 <= N)%nat ->
  (forall g, In g (unigrams ++ concat higher) -> (1 <= length (g_key g) <= N)%nat) ->
  (forall g w, In g (unigrams ++ concat higher) -> In w (g_key g) -> M_of (unigrams ++ concat higher) [w] <> None) ->
  load_trie N true unk_prob unigrams higher = Loaded t ->
  TInv N (alookup t) (M_of (unigrams ++ concat higher)).
Proof.
  intros N unigrams higher up t HN Hlen Hwords Hload.
  rewrite load_trie_unfold in Hload.
  destruct (forallb _ _) eqn:Hc; cbn [negb] in Hload; [|discriminate].
  injection Hload as <-.
  exact (trie_table_inv N HN unigrams higher mk_std mk_std_ok Hlen Hwords Hc).
Qed.

(* ---- files that do not list <unk>: the loader synthesises it (back-off +0.0: the extension bit is on) ------------- *)
Lemma TInv_ext_raise : forall N M T T', TInv N T M ->
  (forall k, match T k, T' k with
             | Some e, Some e' => e_prob e' = e_prob e /\ e_bo e' = e_bo e /\ e_left e' = e_left e /\ (e_ext e = true -> e_ext e' = true)
             | None, None => True
             | _, _ => False
             end) ->
  TInv N T' M.
Proof.
  intros N M T T' I H.
  assert (Hp : forall k, T' k <> None <-> T k <> None).
  { intros k. specialize (H k). destruct (T k), (T' k); split; intros; try congruence; try contradiction. }
  assert (Hv : forall k e', T' k = Some e' -> exists e, T k = Some e /\ e_prob e' = e_prob e /\ e_bo e' = e_bo e /\ e_left e' = e_left e /\ (e_ext e = true -> e_ext e' = true)).
  { intros k e' Hk. specialize (H k). rewrite Hk in H. destruct (T k) as [e|]; [|contradiction]. exists e. split; [reflexivity|exact H]. }
  destruct I. constructor.
  - intros k x Hk Hx. apply Hp. apply (i_suffix k x Hk). apply Hp. exact Hx.
  - intros k e' Hk Hl. destruct (Hv k e' Hk) as [e [He [_ [_ [Hle _]]]]]. rewrite Hle. rewrite (i_left k e He Hl).
    split; intros [x Hx]; exists x; apply Hp; [exact Hx|]. apply Hp. apply Hp. exact Hx.
  - intros w c e' Hk. destruct (Hv _ e' Hk) as [e [He [Hpr _]]]. rewrite Hpr. apply (i_prob w c e He).
  - intros k e' Hk. destruct (Hv k e' Hk) as [e [He [_ [Hbo _]]]]. rewrite Hbo. apply (i_bo k e He).
  - intros k Hk. apply i_sub. destruct (T k) eqn:E; [|reflexivity]. exfalso. assert (T k <> None) by (rewrite E; discriminate). apply Hp in H0. congruence.
  - intros k e' Hk Hx. destruct (Hv k e' Hk) as [e [He [_ [Hbo [_ Hex]]]]].
    assert (e_ext e = false) by (destruct (e_ext e); [rewrite Hex in Hx by reflexivity; discriminate|reflexivity]).
    destruct (i_ext k e He H0) as [B1 B2]. rewrite Hbo. split; [exact B1|].
    intros x. specialize (B2 x). destruct (T' (x :: k)) eqn:E; [|reflexivity]. exfalso.
    assert (T' (x :: k) <> None) by (rewrite E; discriminate). apply Hp in H1. congruence.
  - intros w k Hk Hx. apply Hp. apply (i_ctx w k Hk). apply Hp. exact Hx.
  - intros k Hk. apply i_len. apply Hp. exact Hk.
Qed.

Definition unk_gram_t (unk_prob : Z) : gram := {| g_key := [0%N]; g_prob := unk_prob; g_bo := 0; g_pz := false |}.
Definition mk_unk (g : gram) : entry :=
  if key_eqb (g_key g) [0%N] then {| e_prob := g_prob g; e_bo := g_bo g; e_ext := true; e_left := false; e_rest := g_prob g |}
  else mk_std g.

Lemma mk_unk_ok : forall g, e_prob (mk_unk g) = g_prob g /\ e_bo (mk_unk g) = g_bo g /\ (e_ext (mk_unk g) = false -> g_bo g = 0).
Proof.
  intros g. unfold mk_unk. destruct (key_eqb (g_key g) [0%N]); [|apply mk_std_ok].
  cbn [e_prob e_bo e_ext]. split; [reflexivity|]. split; [reflexivity|discriminate].
Qed.

Definition unk_final (unk_prob : Z) (e : entry) : entry :=
  {| e_prob := unk_prob; e_bo := 0; e_ext := true; e_left := e_left e; e_rest := unk_prob |}.

(* the body of load_trie as a function of the list of real entries *)
Definition trie_of_reals (N_order : nat) (reals : atable) : loaded :=
  let real_keys := map fst reals in
  let blanks := dedup (concat (map (fun K => blanks_of reals K) real_keys)) [] in
  let all_targets := concat (map (fun B => targets (based_on reals B (length B - 1)) B) blanks) in
  let real_contexts := map (fun K => tl K) (filter (fun K => Nat.ltb 1 (length K)) real_keys) in
  if negb (forallb (fun c => is_real reals c) real_contexts) then LoadError MissingContext
  else
    let all_keys := real_keys ++ blanks in
    let has_child (k : key) := existsb (fun k' => andb (Nat.eqb (length k') (S (length k))) (key_eqb (firstn (length k) k') k)) all_keys in
    let real_entries := map (fun ke =>
        let k := fst ke in let e := snd ke in
        (k, {| e_prob := e_prob e; e_bo := e_bo e;
               e_ext := orb (e_ext e) (orb (mem_key k real_contexts) (mem_key k all_targets));
               e_left := has_child k; e_rest := e_prob e |})) reals in
    let blank_entries := map (fun B =>
        let p := blank_prob reals B in
        (B, {| e_prob := p; e_bo := 0;
               e_ext := andb (negb (Nat.eqb (length B) (N_order - 1))) (mem_key B all_targets);
               e_left := has_child B; e_rest := p |})) blanks in
    Loaded (real_entries ++ blank_entries).

Lemma load_trie_nounk_as : forall N up unigrams higher,
  load_trie N false up unigrams higher =
  match trie_of_reals N ((([0%N], {| e_prob := up; e_bo := 0; e_ext := true; e_left := false; e_rest := up |})
                          :: map (fun g => (g_key g, mk_entry (g_prob g) (g_bo g))) unigrams) ++
                         map (fun g => (g_key g, mk_entry (g_prob g) (g_bo g))) (concat higher)) with
  | Loaded t => Loaded (aupdate t [0%N] (unk_final up))
  | err => err
  end.
Proof.
  intros N up unigrams higher. unfold load_trie, trie_of_reals. cbv zeta iota.
  match goal with |- (if ?c then _ else _) = match (if ?c' then _ else _) with Loaded _ => _ | LoadError _ => _ end =>
    change c' with c; destruct c end; reflexivity.
Qed.

Lemma trie_of_reals_gen : forall N unigrams higher mk,
  trie_of_reals N (reals_gen mk (unigrams ++ concat higher)) =
  if negb (forallb (fun c => is_real (reals_gen mk (unigrams ++ concat higher)) c) (trie_real_contexts unigrams higher mk))
  then LoadError MissingContext else Loaded (trie_tbl N unigrams higher mk).
Proof. intros. reflexivity. Qed.

Lemma load_trie_unfold_nounk : forall N up unigrams higher,
  (forall g, In g (unigrams ++ concat higher) -> g_key g <> [0%N]) ->
  load_trie N false up unigrams higher =
  if negb (forallb (fun c => is_real (reals_gen mk_unk ((unk_gram_t up :: unigrams) ++ concat higher)) c)
                   (trie_real_contexts (unk_gram_t up :: unigrams) higher mk_unk))
  then LoadError MissingContext
  else Loaded (aupdate (trie_tbl N (unk_gram_t up :: unigrams) higher mk_unk) [0%N] (unk_final up)).
Proof.
  intros N up unigrams higher Hno. rewrite load_trie_nounk_as.
  assert (E : (([0%N], {| e_prob := up; e_bo := 0; e_ext := true; e_left := false; e_rest := up |})
               :: map (fun g => (g_key g, mk_entry (g_prob g) (g_bo g))) unigrams) ++
              map (fun g => (g_key g, mk_entry (g_prob g) (g_bo g))) (concat higher) =
              reals_gen mk_unk ((unk_gram_t up :: unigrams) ++ concat higher)).
  { unfold reals_gen. cbn [app map unk_gram_t g_key]. unfold mk_unk at 1. cbn [g_key g_prob g_bo]. rewrite key_eqb_refl.
    f_equal. rewrite <- map_app. apply map_ext_in. intros g Hin. unfold mk_unk.
    assert (Hk : key_eqb (g_key g) [0%N] = false) by (apply key_eqb_false; apply Hno; exact Hin). rewrite Hk. reflexivity. }
  rewrite E. rewrite trie_of_reals_gen. destruct (negb _); reflexivity.
Qed.

Lemma alookup_aupdate' : forall t k f k',
  alookup (aupdate t k f) k' = if key_eqb k k' then option_map f (alookup t k') else alookup t k'.
Proof.
  induction t as [|[k0 e0] t IH]; intros k f k'; cbn [aupdate alookup].
  - destruct (key_eqb k k'); reflexivity.
  - destruct (key_eqb k0 k) eqn:E0; cbn [alookup].
    + apply key_eqb_true in E0. subst k0. destruct (key_eqb k k'); reflexivity.
    + destruct (key_eqb k0 k') eqn:E1.
      * apply key_eqb_true in E1. subst k0.
        assert (key_eqb k k' = false) by (apply key_eqb_false; apply key_eqb_false in E0; congruence).
        rewrite H. reflexivity.
      * apply IH.
Qed.

Theorem load_trie_inv_nounk : forall N unigrams higher unk_prob t, (2 <= N)%nat ->
  let U := unk_gram_t unk_prob :: unigrams in
  (forall g, In g (unigrams ++ concat higher) -> g_key g <> [0%N]) ->
  (forall g, In g (U ++ concat higher) -> (1 <= length (g_key g) <= N)%nat) ->
  (forall g w, In g (U ++ concat higher) -> In w (g_key g) -> M_of (U ++ concat higher) [w] <> None) ->
  load_trie N false unk_prob unigrams higher = Loaded t ->
  TInv N (alookup t) (M_of (U ++ concat higher)).
Proof.
  intros N unigrams higher up t HN U Hno Hlen Hwords Hload.
  rewrite (load_trie_unfold_nounk N up unigrams higher Hno) in Hload.
  destruct (forallb _ _) eqn:Hc; [change (negb true) with false in Hload|change (negb false) with true in Hload; discriminate].
  remember (aupdate (trie_tbl N (unk_gram_t up :: unigrams) higher mk_unk) [0%N] (unk_final up)) as tf eqn:Etf in Hload.
  injection Hload as <-.
  pose proof (trie_table_inv N HN U higher mk_unk mk_unk_ok Hlen Hwords Hc) as I.
  apply (TInv_ext_raise N _ (alookup (trie_tbl N U higher mk_unk))); [exact I|].
  intros k. rewrite Etf. rewrite alookup_aupdate'. fold U.
  destruct (key_eqb [0%N] k) eqn:Ek.
  - apply key_eqb_true in Ek. subst k. destruct (alookup (trie_tbl N U higher mk_unk) [0%N]) as [e|] eqn:E0; cbn [option_map]; [|exact Logic.I].
    assert (HM0 : M_of (U ++ concat higher) [0%N] = Some (up, 0)).
    { unfold U, M_of. cbn [app find unk_gram_t g_key]. rewrite key_eqb_refl. reflexivity. }
    pose proof (i_prob _ _ _ I 0%N [] e E0) as P0. cbn [spec firstn length] in P0. rewrite HM0 in P0.
    pose proof (i_bo _ _ _ I [0%N] e E0) as B0. unfold bo_of in B0. rewrite HM0 in B0.
    cbn [unk_final e_prob e_bo e_left e_ext]. split; [symmetry; exact P0|]. split; [symmetry; exact B0|]. split; reflexivity.
  - destruct (alookup (trie_tbl N U higher mk_unk) k); [repeat split; auto|exact Logic.I].
Qed.
