(* LM/RevealProofs.v -- lm/partial.hh RevealAfter called incrementally.
   RevealAfter(left, right, reveal, seen) walks reveal.pointers[seen..) with the context in `right`; what it leaves in
   (left, right) is exactly the loop state of ExtendLoop (pointers written so far, the context words still in use and
   their back-offs, left.full = "no longer writing").  So revealing the pointers of the following fragment in any number
   of instalments is the one-shot call split at the instalment boundaries -- provided the bookkeeping that decides
   `left.full` from counts (N-1 pointers, N-1 context words) never disagrees with what the loop would have done, which is
   where the order limit comes in: a pointer whose extension would reach length N is always independent of further left
   context.  Nothing here depends on the table satisfying the loader invariant. *)
From Coq Require Import List ZArith NArith Bool Arith Lia.
From Kenlm Require Import LM.Defs LM.Query LM.QueryProofs LM.Chart LM.ChartProofs LM.FlattenProofs.
Import ListNotations.

Section Reveal.
  Variable N_order : nat.
  Hypothesis Hord : 2 <= N_order.
  Variable T : table.
  Variable dr : bool.

  Notation xw := (ext_write N_order T).
  Notation xf := (ext_full N_order T).
  Notation xl := (extend_loop N_order T dr).
  Notation unr := (un_rest T dr).
  Notation el := (extend_left N_order T).

  Lemma unr_app' : forall a b, unr (a ++ b) = (unr a + unr b)%Z.
  Proof.
    intros a b. unfold un_rest. destruct dr; [|reflexivity].
    induction a as [|p a IH]; cbn [app fold_right]; [lia|]. rewrite IH. destruct (T p); lia.
  Qed.
  Lemma unr_nil'' : unr [] = 0%Z.
  Proof. unfold un_rest. destruct dr; reflexivity. Qed.

  (* ---- the two loops over a concatenation of pointer lists --------------------------------------------------- *)
  Lemma xf_app : forall add P1 P2 a nu back,
    xf add (P1 ++ P2) a nu back =
    (let '(rest1, a1, nu1, back1) := xf add P1 a nu back in
     let '(rest2, a2, nu2, back2) := xf add P2 a1 nu1 back1 in
     (rest1 ++ rest2, a2, nu2, back2)).
  Proof.
    intros add P1. induction P1 as [|p P1 IH]; intros P2 a nu back.
    - cbn [app ext_full]. destruct (xf add P2 a nu back) as [[[r2 a2] n2] b2]. reflexivity.
    - cbn [app ext_full]. destruct (Nat.eqb_spec nu 0) as [E|E].
      + subst nu. destruct P2 as [|q P2]; cbn [ext_full Nat.eqb]; rewrite ?app_nil_r; reflexivity.
      + destruct (el (firstn nu add) back p) as [[ret bo] nu'].
        apply IH.
  Qed.

  Lemma xw_app : forall add al P1 P2 w a nu back,
    xw add al (P1 ++ P2) w a nu back =
    (let '(rest1, w1, a1, mf1, nu1, back1) := xw add al P1 w a nu back in
     if mf1 then (rest1 ++ P2, w1, a1, true, nu1, back1) else xw add al P2 w1 a1 nu1 back1).
  Proof.
    intros add al P1. induction P1 as [|p P1 IH]; intros P2 w a nu back.
    - reflexivity.
    - cbn [app ext_write]. destruct (el (firstn nu add) back p) as [[ret bo] nu'].
      destruct (r_indep ret); [reflexivity|].
      destruct (negb (Nat.eqb nu' al)); [reflexivity|]. apply IH.
  Qed.

  (* when the writing loop runs to the end of its list: nothing left over, next_use untouched, one pointer written each *)
  Lemma xw_nobreak : forall add al P w a nu back rest w' a' nu' back',
    xw add al P w a nu back = (rest, w', a', false, nu', back') ->
    rest = [] /\ (P <> [] -> nu' = al) /\ (P = [] -> nu' = nu /\ back' = back) /\ exists wn, w' = w ++ wn /\ length wn = length P.
  Proof.
    intros add al P. induction P as [|p P IH]; intros w a nu back rest w' a' nu' back' H.
    - cbn [ext_write] in H. injection H as <- <- <- <- <-. split; [reflexivity|]. split; [congruence|]. split; [auto|].
      exists []. rewrite app_nil_r. split; reflexivity.
    - cbn [ext_write] in H. destruct (el (firstn nu add) back p) as [[ret bo] nu1].
      destruct (r_indep ret); [discriminate|].
      destruct (Nat.eqb_spec nu1 al) as [E|E]; cbn [negb] in H; [|discriminate].
      destruct (IH _ _ _ _ _ _ _ _ _ H) as [H1 [H2 [H3 [wn [H4 H5]]]]].
      split; [exact H1|]. split.
      + intros _. destruct P as [|q P]; [destruct (H3 eq_refl) as [-> _]; exact E|apply H2; discriminate].
      + split; [discriminate|]. exists (r_ext ret :: wn). split; [rewrite H4, <- app_assoc; reflexivity|cbn [length]; lia].
  Qed.

  (* accumulators only shift the results *)
  Lemma xf_shift : forall add P a0 a nu back,
    xf add P (a0 + a)%Z nu back = (let '(rest, a1, nu1, back1) := xf add P a nu back in (rest, (a0 + a1)%Z, nu1, back1)).
  Proof.
    intros add P. induction P as [|p P IH]; intros a0 a nu back; cbn [ext_full]; [reflexivity|].
    destruct (Nat.eqb nu 0); [reflexivity|].
    destruct (el (firstn nu add) back p) as [[ret bo] nu'].
    replace (a0 + a + r_prob ret)%Z with (a0 + (a + r_prob ret))%Z by lia. apply IH.
  Qed.

  Lemma xw_shift : forall add al P w0 w a0 a nu back,
    xw add al P (w0 ++ w) (a0 + a)%Z nu back =
    (let '(rest, w1, a1, mf, nu1, back1) := xw add al P w a nu back in (rest, w0 ++ w1, (a0 + a1)%Z, mf, nu1, back1)).
  Proof.
    intros add al P. induction P as [|p P IH]; intros w0 w a0 a nu back; cbn [ext_write]; [reflexivity|].
    destruct (el (firstn nu add) back p) as [[ret bo] nu'].
    destruct (r_indep ret).
    - f_equal. f_equal. f_equal. f_equal. lia.
    - rewrite <- app_assoc.
      replace (a0 + a + r_rest ret)%Z with (a0 + (a + r_rest ret))%Z by lia.
      destruct (negb (Nat.eqb nu' al)); [reflexivity|]. apply IH.
  Qed.

  (* only the first next_use words of `add` are looked at *)
  Notation ne := (Forall (fun p : key => p <> [])).
  Lemma xf_add : forall add P a nu nu0 back, ne P -> nu <= nu0 ->
    xf (firstn nu0 add) P a nu back = xf add P a nu back.
  Proof.
    intros add P. induction P as [|p P IH]; intros a nu nu0 back HP Hn; cbn [ext_full]; [reflexivity|].
    inversion HP as [|? ? Hp HP']. subst.
    destruct (Nat.eqb nu 0); [reflexivity|].
    rewrite firstn_firstn. replace (Nat.min nu nu0) with nu by lia.
    destruct (el (firstn nu add) back p) as [[ret bo] nu'] eqn:E.
    apply IH; [exact HP'|]. destruct (extend_left_bounds N_order Hord T _ _ _ _ _ _ Hp E) as [B1 _].
    rewrite firstn_length in B1. lia.
  Qed.

  (* only the first next_use incoming back-offs are looked at; what comes out is compared through firstn next_use *)
  Lemma xf_bin : forall add P a nu back, nu <= length add ->
    (let '(rest, a1, nu1, b1) := xf add P a nu back in (rest, a1, nu1, firstn nu1 b1)) =
    (let '(rest, a1, nu1, b1) := xf add P a nu (firstn nu back) in (rest, a1, nu1, firstn nu1 b1)).
  Proof.
    intros add [|p P] a nu back Hn; cbn [ext_full].
    - rewrite firstn_firstn, Nat.min_id. reflexivity.
    - destruct (Nat.eqb_spec nu 0) as [E|E]; [subst; reflexivity|].
      rewrite (extend_left_bin N_order T (firstn nu add) back p).
      rewrite (extend_left_bin N_order T (firstn nu add) (firstn nu back) p).
      rewrite firstn_length. replace (Nat.min nu (length add)) with nu by lia.
      rewrite firstn_firstn, Nat.min_id. reflexivity.
  Qed.

  Lemma xw_bin : forall add al P w a nu back, nu <= length add ->
    (let '(rest, w1, a1, mf, nu1, b1) := xw add al P w a nu back in (rest, w1, a1, mf, nu1, firstn nu1 b1)) =
    (let '(rest, w1, a1, mf, nu1, b1) := xw add al P w a nu (firstn nu back) in (rest, w1, a1, mf, nu1, firstn nu1 b1)).
  Proof.
    intros add al [|p P] w a nu back Hn; cbn [ext_write].
    - rewrite firstn_firstn, Nat.min_id. reflexivity.
    - rewrite (extend_left_bin N_order T (firstn nu add) back p).
      rewrite (extend_left_bin N_order T (firstn nu add) (firstn nu back) p).
      rewrite firstn_length. replace (Nat.min nu (length add)) with nu by lia.
      rewrite firstn_firstn, Nat.min_id. reflexivity.
  Qed.

  (* bounds kept by the loops *)
  Lemma xf_inv : forall add P a nu back rest a1 nu1 b1, ne P -> nu <= length add -> nu <= length back ->
    xf add P a nu back = (rest, a1, nu1, b1) -> nu1 <= nu /\ nu1 <= length b1.
  Proof.
    intros add P. induction P as [|p P IH]; intros a nu back rest a1 nu1 b1 HP Hn Hb H; cbn [ext_full] in H.
    - injection H as <- <- <- <-. lia.
    - inversion HP as [|? ? Hp HP']. subst.
      destruct (Nat.eqb_spec nu 0) as [E|E]; [injection H as <- <- <- <-; lia|].
      destruct (el (firstn nu add) back p) as [[ret bo] nu'] eqn:E1.
      destruct (extend_left_bounds N_order Hord T _ _ _ _ _ _ Hp E1) as [B1 [B2 _]]. rewrite firstn_length in B1.
      assert (Hx : nu' <= length add) by lia.
      destruct (IH _ _ _ _ _ _ _ HP' Hx B2 H). lia.
  Qed.

  Lemma xw_inv : forall add al P w a nu back rest w1 a1 mf nu1 b1, ne P -> nu <= length add -> nu <= length back ->
    xw add al P w a nu back = (rest, w1, a1, mf, nu1, b1) -> nu1 <= length add /\ nu1 <= length b1 /\ ne rest.
  Proof.
    intros add al P. induction P as [|p P IH]; intros w a nu back rest w1 a1 mf nu1 b1 HP Hn Hb H; cbn [ext_write] in H.
    - injection H as <- <- <- <- <- <-. repeat split; [lia|lia|constructor].
    - inversion HP as [|? ? Hp HP']. subst.
      destruct (el (firstn nu add) back p) as [[ret bo] nu'] eqn:E1.
      destruct (extend_left_bounds N_order Hord T _ _ _ _ _ _ Hp E1) as [B1 [B2 _]]. rewrite firstn_length in B1.
      destruct (r_indep ret); [injection H as <- <- <- <- <- <-; repeat split; [lia|lia|exact HP']|].
      destruct (negb (Nat.eqb nu' al)); [injection H as <- <- <- <- <- <-; repeat split; [lia|lia|exact HP']|].
      assert (Hx : nu' <= length add) by lia.
      apply (IH _ _ _ _ _ _ _ _ _ _ HP' Hx B2 H).
  Qed.

  (* the order limit: a pointer whose extension would reach length N always ends independent of further context *)
  Lemma el_long_indep : forall add bin p, p <> [] -> length p <= N_order - 1 -> N_order <= length p + length add ->
    r_indep (fst (fst (el add bin p))) = true.
  Proof.
    intros add bin p Hp Hl Hn. rewrite extend_left_core. cbn zeta.
    assert (Hl1 : 1 <= length p) by (destruct p; [congruence|cbn; lia]).
    pose proof (core_long_indep N_order T add (length p - 1) p (rx0_of T p) ltac:(lia) ltac:(lia) Hord) as H.
    destruct (resume_core N_order T add (length p - 1) p (rx0_of T p)) as [[b o] r]. exact H.
  Qed.

  (* ---- ExtendLoop = first loop, then `fin2` ---------------------------------------------------------------- *)
  Definition fin2 (add : list word) (st : list key * list key * Z * bool * nat * list boval) : extend_ret * list key * list boval :=
    let '(rest1, w, adj1, mf, nu1, back1) := st in
    let '(rest2, adj2, nu2, back2) := xf add rest1 adj1 nu1 back1 in
    ({| x_adjust := (adj2 + unr rest2)%Z; x_make_full := mf; x_next_use := nu2 |}, w, firstn nu2 back2).

  Lemma xl_write : forall add bs P,
    xl add bs P true = fin2 add (xw add (length add) P [] 0%Z (length add) (firstn (length add) bs)).
  Proof.
    intros. unfold extend_loop, fin2.
    destruct (xw add (length add) P [] 0%Z (length add) (firstn (length add) bs)) as [[[[[rest1 w] a1] mf] nu1] b1].
    destruct (xf add rest1 a1 nu1 b1) as [[[rest2 a2] nu2] b2]. reflexivity.
  Qed.
  Lemma xl_full : forall add bs P,
    xl add bs P false = fin2 add (P, [], 0%Z, false, length add, firstn (length add) bs).
  Proof.
    intros. unfold extend_loop, fin2.
    destruct (xf add P 0%Z (length add) (firstn (length add) bs)) as [[[rest2 a2] nu2] b2]. reflexivity.
  Qed.

  Lemma fin2_bin : forall add rest w a mf nu b b', nu <= length add -> firstn nu b = firstn nu b' ->
    fin2 add (rest, w, a, mf, nu, b) = fin2 add (rest, w, a, mf, nu, b').
  Proof.
    intros add rest w a mf nu b b' Hn Hb. unfold fin2.
    pose proof (xf_bin add rest a nu b Hn) as H1. pose proof (xf_bin add rest a nu b' Hn) as H2. rewrite Hb in H1.
    destruct (xf add rest a nu b) as [[[r1 a1] n1] c1]. destruct (xf add rest a nu b') as [[[r2 a2] n2] c2].
    destruct (xf add rest a nu (firstn nu b')) as [[[r3 a3] n3] c3].
    injection H1 as -> -> -> E1. injection H2 as -> -> -> E2. rewrite E1, E2. reflexivity.
  Qed.

  Lemma fin2_shift : forall add rest w0 w a0 a mf nu b,
    fin2 add (rest, w0 ++ w, (a0 + a)%Z, mf, nu, b) =
    (let '(v, w', bw) := fin2 add (rest, w, a, mf, nu, b) in
     ({| x_adjust := (a0 + x_adjust v)%Z; x_make_full := x_make_full v; x_next_use := x_next_use v |}, w0 ++ w', bw)).
  Proof.
    intros. unfold fin2. rewrite xf_shift. destruct (xf add rest a nu b) as [[[r1 a1] n1] c1]. cbn.
    f_equal. f_equal. f_equal. lia.
  Qed.

  (* the second loop continued by a call of its own: the words still in use and their back-offs are the whole interface *)
  Lemma full_cont : forall add rest1 P2 a1 nu1 b1 w mf, ne rest1 -> ne P2 -> nu1 <= length add -> nu1 <= length b1 ->
    let '(r1', a1', n1', b1') := xf add rest1 a1 nu1 b1 in
    let '(v2, w2, bw2) := xl (firstn n1' add) (firstn n1' b1') P2 false in
    fin2 add (rest1 ++ P2, w, a1, mf, nu1, b1) =
    ({| x_adjust := (a1' + unr r1' + x_adjust v2)%Z; x_make_full := mf; x_next_use := x_next_use v2 |}, w, bw2)
    /\ w2 = [] /\ x_make_full v2 = false /\ x_next_use v2 <= n1' /\ n1' <= length add /\ n1' <= length b1'.
  Proof.
    intros add rest1 P2 a1 nu1 b1 w mf H1 H2 Hn Hb.
    destruct (xf add rest1 a1 nu1 b1) as [[[r1' a1'] n1'] b1'] eqn:E1.
    destruct (xf_inv _ _ _ _ _ _ _ _ _ H1 Hn Hb E1) as [I1 I2].
    rewrite xl_full. rewrite firstn_length. replace (Nat.min n1' (length add)) with n1' by lia.
    rewrite firstn_firstn, Nat.min_id.
    unfold fin2 at 1. rewrite xf_add by (assumption || lia).
    assert (I00 : n1' <= length add) by lia.
    pose proof (xf_bin add P2 0%Z n1' b1' I00) as HB.
    destruct (xf add P2 0%Z n1' (firstn n1' b1')) as [[[r2 a2] n2] b2] eqn:E2.
    destruct (xf add P2 0%Z n1' b1') as [[[r3 a3] n3] b3] eqn:E3.
    injection HB as -> -> -> HB.
    assert (I0 : n1' <= length add) by lia.
    destruct (xf_inv _ _ _ _ _ _ _ _ _ H2 I0 I2 E3) as [I3 I4].
    unfold fin2. rewrite xf_app, E1.
    replace a1' with (a1' + 0)%Z by lia. rewrite xf_shift, E3.
    cbn [x_adjust x_make_full x_next_use]. rewrite unr_app', HB.
    repeat split; try lia. f_equal. f_equal. f_equal. lia.
  Qed.

  (* ---- RevealAfter with a reveal state that is not (yet) complete ------------------------------------------------ *)
  Definition ra (l : left) (r : state) (Pp : list key) : Z * left * state :=
    reveal_after N_order T dr l r {| l_ptrs := Pp; l_full := false |} 0.

  Lemma ra_unfold : forall l r Pp,
    ra l r Pp =
    (let '(v, w, bw) := xl (s_words r) (s_bo r) Pp (negb (l_full l)) in
     (x_adjust v,
      (if l_full l then l
       else {| l_ptrs := l_ptrs l ++ w;
               l_full := orb (orb (x_make_full v) (Nat.eqb (x_next_use v) (N_order - 1))) (Nat.eqb (length (l_ptrs l ++ w)) (N_order - 1)) |}),
      {| s_words := firstn (x_next_use v) (s_words r); s_bo := bw |})).
  Proof.
    intros l r Pp. unfold ra, reveal_after. cbn [skipn l_ptrs l_full].
    destruct (xl (s_words r) (s_bo r) Pp (negb (l_full l))) as [[v w] bw]. reflexivity.
  Qed.

  (* what (left, right) must satisfy k pointers into the revealed list, and the shape of that list *)
  Definition J (l : left) (r : state) (k : nat) : Prop :=
    length (s_bo r) = length (s_words r) /\ (l_full l = false -> length (l_ptrs l) <= length (s_words r) + k).
  Fixpoint chain (k : nat) (P : list key) : Prop :=
    match P with [] => True | p :: P' => length p = S k /\ S k <= N_order - 1 /\ chain (S k) P' end.

  Lemma chain_ne : forall P k, chain k P -> ne P.
  Proof.
    induction P as [|p P IH]; intros k H; [constructor|]. destruct H as [H1 [_ H2]].
    constructor; [destruct p; [discriminate|discriminate]|exact (IH _ H2)].
  Qed.
  Lemma chain_app : forall P1 P2 k, chain k (P1 ++ P2) -> chain k P1 /\ chain (k + length P1) P2.
  Proof.
    induction P1 as [|p P1 IH]; intros P2 k H; cbn [app length chain] in *.
    - rewrite Nat.add_0_r. split; [exact I|exact H].
    - destruct H as [H1 [H2 H3]]. destruct (IH _ _ H3) as [H4 H5]. replace (k + S (length P1)) with (S k + length P1) by lia. tauto.
  Qed.

  Lemma ra_app : forall P1 P2 l r k, J l r k -> chain k (P1 ++ P2) ->
    let '(a1, l1, r1) := ra l r P1 in
    ra l r (P1 ++ P2) = (let '(a2, l2, r2) := ra l1 r1 P2 in ((a1 + a2)%Z, l2, r2)) /\ J l1 r1 (k + length P1).
  Proof.
    intros P1 P2 l r k [Hs Hopen] Hc.
    destruct (chain_app _ _ _ Hc) as [Hc1 Hc2].
    pose proof (chain_ne _ _ Hc1) as N1. pose proof (chain_ne _ _ Hc2) as N2.
    rewrite !ra_unfold.
    set (add := s_words r) in *. set (bs := s_bo r) in *. set (al := length add) in *.
    assert (Hb0 : length (firstn al bs) = al) by (rewrite firstn_length; lia).
    destruct (l_full l) eqn:Ef; cbn [negb].
    - (* left already complete: second loop only *)
      rewrite (xl_full add bs P1), (xl_full add bs (P1 ++ P2)). fold al.
      pose proof (full_cont add P1 P2 0%Z al (firstn al bs) [] false N1 N2 (le_n _) ltac:(lia)) as HF.
      unfold fin2 at 1.
      destruct (xf add P1 0%Z al (firstn al bs)) as [[[r1' a1'] n1'] b1'] eqn:E1.
      cbn [x_adjust x_next_use x_make_full].
      rewrite ra_unfold. cbn [l_full negb s_words s_bo]. rewrite Ef. cbn [negb].
      destruct (xl (firstn n1' add) (firstn n1' b1') P2 false) as [[v2 w2] bw2] eqn:E2.
      destruct HF as [HF [Hw2 [Hm2 [Hn2 [Hn1 Hn1b]]]]]. rewrite HF. cbn [x_adjust x_next_use].
      split.
      + f_equal. f_equal. rewrite firstn_firstn. replace (Nat.min (x_next_use v2) n1') with (x_next_use v2) by lia. reflexivity.
      + split; [cbn [s_words s_bo]; rewrite !firstn_length; lia|rewrite Ef; discriminate].
    - (* still writing *)
      specialize (Hopen eq_refl).
      rewrite (xl_write add bs P1), (xl_write add bs (P1 ++ P2)). fold al.
      rewrite xw_app.
      destruct (xw add al P1 [] 0%Z al (firstn al bs)) as [[[[[rest1 w1] a1] mf1] nu1] bk1] eqn:E1.
      assert (Hb0' : al <= length (firstn al bs)) by lia.
      destruct (xw_inv _ _ _ _ _ _ _ _ _ _ _ _ _ N1 (le_n _) Hb0' E1) as [I1 [I2 I3]].
      destruct mf1.
      + (* the first loop stopped inside P1: from there on both runs are in the second loop *)
        pose proof (full_cont add rest1 P2 a1 nu1 bk1 w1 true I3 N2 I1 I2) as HF.
        unfold fin2 at 1.
        destruct (xf add rest1 a1 nu1 bk1) as [[[r1' a1'] n1'] b1'] eqn:E2.
        cbn [x_adjust x_next_use x_make_full orb].
        rewrite ra_unfold. cbn [l_full negb s_words s_bo l_ptrs].
        destruct (xl (firstn n1' add) (firstn n1' b1') P2 false) as [[v2 w2] bw2] eqn:E3.
        destruct HF as [HF [Hw2 [Hm2 [Hn2 [Hn1 Hn1b]]]]]. rewrite HF. cbn [x_adjust x_next_use x_make_full orb].
        split.
        * f_equal. f_equal. rewrite firstn_firstn. replace (Nat.min (x_next_use v2) n1') with (x_next_use v2) by lia. reflexivity.
        * split; [cbn [s_words s_bo]; rewrite !firstn_length; lia|cbn [l_full]; discriminate].
      + (* the first loop ran through P1 *)
        destruct (xw_nobreak _ _ _ _ _ _ _ _ _ _ _ _ E1) as [-> [K1 [K2 [wn [K3 K4]]]]]. cbn [app] in K3. subst w1.
        assert (nu1 = al) by (destruct P1 as [|q Q]; [destruct (K2 eq_refl) as [-> _]; reflexivity|apply K1; discriminate]). subst nu1.
        unfold fin2 at 1. cbn [ext_full]. rewrite unr_nil''. cbn [x_adjust x_next_use x_make_full orb].
        assert (Eadd : firstn al add = add) by (apply firstn_all).
        rewrite Eadd.
        set (f1 := orb (Nat.eqb al (N_order - 1)) (Nat.eqb (length (l_ptrs l ++ wn)) (N_order - 1))).
        rewrite ra_unfold. cbn [l_full negb s_words s_bo l_ptrs].
        split; [|split; [cbn [s_words s_bo]; rewrite firstn_length; fold al; lia|
                         cbn [l_full l_ptrs s_words]; intros _; rewrite app_length; fold al; lia]].
        destruct f1 eqn:Ef1; cbn [negb].
        * (* the counts say complete although the loop had not stopped *)
          destruct P2 as [|p P2'].
          -- cbn [ext_write]. unfold fin2. cbn [ext_full]. rewrite unr_nil''. cbn [x_adjust x_next_use x_make_full orb].
             rewrite xl_full. unfold fin2. cbn [ext_full]. rewrite unr_nil''. cbn [x_adjust x_next_use].
             fold al. fold f1. rewrite Ef1. rewrite Eadd. rewrite !firstn_firstn, !Nat.min_id.
             f_equal. f_equal. lia.
          -- destruct Hc2 as [Hp1 [Hp2 _]].
             assert (Hlong : N_order <= length p + al).
             { unfold f1 in Ef1. apply orb_true_iff in Ef1. destruct Ef1 as [E|E]; apply Nat.eqb_eq in E.
               - lia.
               - rewrite app_length in E. lia. }
             assert (Hal : al <> 0) by lia.
             assert (Hpne : p <> []) by (destruct p; [cbn in Hp1; lia|discriminate]).
             pose proof (el_long_indep add bk1 p Hpne ltac:(lia) Hlong) as Hind.
             cbn [ext_write]. rewrite Eadd.
             rewrite xl_full. fold al. unfold fin2 at 2. cbn [ext_full].
             replace (Nat.eqb al 0) with false by (symmetry; apply Nat.eqb_neq; exact Hal).
             rewrite Eadd. rewrite firstn_firstn, Nat.min_id.
             assert (Eel : el add (firstn al bk1) p = el add bk1 p) by (symmetry; apply extend_left_bin). rewrite Eel.
             destruct (el add bk1 p) as [[ret bo] nu'] eqn:E3. cbn [fst] in Hind. rewrite Hind.
             unfold fin2.
             replace (a1 + r_prob ret)%Z with (a1 + (0 + r_prob ret))%Z by lia. rewrite xf_shift.
             destruct (xf add P2' (0 + r_prob ret)%Z nu' bo) as [[[r3 a3] n3] b3] eqn:E4.
             cbn [x_adjust x_next_use x_make_full orb].
             f_equal. f_equal. lia.
        * (* both go on writing *)
          rewrite xl_write. fold al. rewrite firstn_firstn, Nat.min_id.
          replace a1 with (a1 + 0)%Z by lia.
          replace wn with (wn ++ []) at 1 by apply app_nil_r.
          rewrite xw_shift.
          pose proof (xw_bin add al P2 [] 0%Z al bk1 (le_n _)) as HB.
          destruct (xw add al P2 [] 0%Z al bk1) as [[[[[rest2 w2] a2] mf2] nu2] b2] eqn:E5.
          destruct (xw add al P2 [] 0%Z al (firstn al bk1)) as [[[[[rest3 w3] a3] mf3] nu3] b3] eqn:E6.
          injection HB as -> -> -> -> -> HB.
          assert (I2' : al <= length bk1) by (fold al in I2; exact I2).
          destruct (xw_inv _ _ _ _ _ _ _ _ _ _ _ _ _ N2 (le_n _) I2' E5) as [I4 [I5 I6]].
          rewrite fin2_shift.
          rewrite (fin2_bin add rest3 w3 a3 mf3 nu3 b2 b3 I4 HB).
          destruct (fin2 add (rest3, w3, a3, mf3, nu3, b3)) as [[v w'] bw].
          cbn [x_adjust x_next_use x_make_full]. rewrite !app_assoc. f_equal. f_equal. lia.
  Qed.

  (* ---- any number of instalments -------------------------------------------------------------------------- *)
  Lemma ra_seen : forall l r P seen,
    reveal_after N_order T dr l r {| l_ptrs := P; l_full := false |} seen = ra l r (skipn seen P).
  Proof. intros. unfold ra, reveal_after. cbn [l_ptrs l_full skipn]. reflexivity. Qed.

  (* RevealAfter called once per cut point c1 <= c2 <= ..., each time with the first c_i pointers and seen = c_(i-1) *)
  Fixpoint ra_seq (l : left) (r : state) (P : list key) (seen : nat) (cuts : list nat) : Z * left * state :=
    match cuts with
    | [] => (0%Z, l, r)
    | c :: cs =>
        let '(a, l1, r1) := reveal_after N_order T dr l r {| l_ptrs := firstn c P; l_full := false |} seen in
        let '(a', l2, r2) := ra_seq l1 r1 P c cs in ((a + a')%Z, l2, r2)
    end.

  Fixpoint increasing (from : nat) (cuts : list nat) (upto : nat) : Prop :=
    match cuts with [] => from <= upto | c :: cs => from <= c /\ increasing c cs upto end.

  Lemma chain_skipn : forall P k s, chain k P -> chain (k + s) (skipn s P).
  Proof.
    induction P as [|p P IH]; intros k s H.
    - rewrite skipn_nil. exact I.
    - destruct s as [|s]; [rewrite Nat.add_0_r; exact H|]. cbn [skipn]. destruct H as [_ [_ H]].
      replace (k + S s) with (S k + s) by lia. apply IH. exact H.
  Qed.
  Lemma chain_firstn : forall P k c, chain k P -> chain k (firstn c P).
  Proof.
    induction P as [|p P IH]; intros k c H; [rewrite firstn_nil; exact I|].
    destruct c as [|c]; [exact I|]. cbn [firstn chain]. destruct H as [H1 [H2 H3]]. repeat split; try assumption. apply IH. exact H3.
  Qed.

  Lemma skip_first_split : forall (A : Type) (P : list A) s c d, s <= c -> c <= d -> d <= length P ->
    skipn s (firstn d P) = skipn s (firstn c P) ++ skipn c (firstn d P).
  Proof.
    intros A P s c d H1 H2 H3.
    rewrite <- (firstn_skipn c (firstn d P)) at 1. rewrite firstn_firstn. replace (Nat.min c d) with c by lia.
    rewrite skipn_app. rewrite firstn_length.
    replace (s - Nat.min c (length P)) with 0 by lia. reflexivity.
  Qed.

  Lemma last_default : forall (cs : list nat) a b, cs <> [] -> last cs a = last cs b.
  Proof.
    induction cs as [|x cs IH]; intros a b H; [congruence|]. destruct cs as [|y cs']; [reflexivity|].
    cbn [last]. apply (IH a b). discriminate.
  Qed.
  Lemma last_cons : forall (cs : list nat) x a, last (x :: cs) a = last cs x.
  Proof.
    intros cs x a. destruct cs as [|y cs']; [reflexivity|].
    change (last (x :: y :: cs') a) with (last (y :: cs') a). apply last_default. discriminate.
  Qed.
  Lemma increasing_last : forall cuts from upto, increasing from cuts upto -> from <= last cuts from /\ last cuts from <= upto.
  Proof.
    induction cuts as [|x cs IH]; intros from upto H; cbn [increasing last] in *; [lia|].
    destruct H as [H1 H2]. specialize (IH x upto H2). destruct cs as [|y cs']; [cbn [last] in IH; lia|].
    rewrite (last_default (y :: cs') from x) by discriminate. lia.
  Qed.

  Theorem ra_seq_one_shot : forall cuts c l r P seen, J l r seen -> chain 0 P -> increasing seen (c :: cuts) (length P) ->
    ra_seq l r P seen (c :: cuts) = ra l r (skipn seen (firstn (last cuts c) P)).
  Proof.
    induction cuts as [|c' cuts IH]; intros c l r P seen HJ Hc Hi.
    - cbn [ra_seq last]. rewrite ra_seen.
      destruct (ra l r (skipn seen (firstn c P))) as [[a l1] r1]. f_equal. f_equal. lia.
    - destruct Hi as [H1 Hi]. pose proof Hi as Hi'. destruct Hi' as [H2 Hi'].
      pose proof (increasing_last _ _ _ Hi') as Hlast.
      change (ra_seq l r P seen (c :: c' :: cuts)) with
        (let '(a, l1, r1) := reveal_after N_order T dr l r {| l_ptrs := firstn c P; l_full := false |} seen in
         let '(a', l2, r2) := ra_seq l1 r1 P c (c' :: cuts) in ((a + a')%Z, l2, r2)).
      rewrite ra_seen.
      rewrite (last_cons cuts c' c).
      set (d := last cuts c') in *.
      assert (Hcd : c <= d) by lia. assert (HdP : d <= length P) by lia.
      rewrite (skip_first_split _ P seen c d H1 Hcd HdP).
      assert (Hch : chain seen (skipn seen (firstn c P) ++ skipn c (firstn d P))).
      { rewrite <- (skip_first_split _ P seen c d H1 Hcd HdP). apply (chain_skipn _ 0 seen). apply chain_firstn. exact Hc. }
      pose proof (ra_app (skipn seen (firstn c P)) (skipn c (firstn d P)) l r seen HJ Hch) as HA.
      destruct (ra l r (skipn seen (firstn c P))) as [[a1 l1] r1]. destruct HA as [HA HJ1].
      rewrite HA.
      assert (Hlen : seen + length (skipn seen (firstn c P)) = c).
      { rewrite skipn_length, firstn_length. lia. }
      rewrite Hlen in HJ1.
      rewrite (IH c' l1 r1 P c HJ1 Hc Hi). fold d. reflexivity.
  Qed.

  (* ---- the last call, once the following fragment's left state is known to be complete ---------------------------- *)
  Lemma ra_finish : forall l r P seen, J l r seen -> chain seen (skipn seen P) ->
    reveal_after N_order T dr l r {| l_ptrs := P; l_full := true |} seen =
    (let '(a1, l1, r1) := reveal_after N_order T dr l r {| l_ptrs := P; l_full := false |} seen in
     let '(a2, l2, r2) := reveal_after N_order T dr l1 r1 {| l_ptrs := P; l_full := true |} (length P) in
     ((a1 + a2)%Z, l2, r2)).
  Proof.
    intros l r P seen HJ Hc.
    pose proof (ra_app (skipn seen P) [] l r seen HJ ltac:(rewrite app_nil_r; exact Hc)) as HA.
    rewrite ra_seen. unfold ra in *. unfold reveal_after in *. cbn [l_ptrs l_full skipn] in *.
    rewrite skipn_all.
    destruct (xl (s_words r) (s_bo r) (skipn seen P) (negb (l_full l))) as [[v w] bw] eqn:E.
    destruct HA as [_ [HS _]]. cbn [s_words s_bo] in HS.
    unfold extend_loop. cbn [ext_write ext_full length s_words s_bo l_full].
    rewrite <- HS. rewrite firstn_all.
    destruct (l_full l) eqn:Ef.
    - rewrite Ef. cbn [negb ext_full x_adjust x_next_use x_make_full]. rewrite unr_nil'', firstn_all.
      repeat (f_equal; try lia).
    - cbn [l_full l_ptrs].
      destruct (orb (orb (x_make_full v) (Nat.eqb (x_next_use v) (N_order - 1))) (Nat.eqb (length (l_ptrs l ++ w)) (N_order - 1))) eqn:Eo;
        cbn [negb ext_write ext_full x_adjust x_next_use x_make_full]; rewrite unr_nil'', firstn_all; rewrite ?app_nil_r; cbn [orb].
      + repeat (f_equal; try lia).
      + repeat (f_equal; try lia).
  Qed.
End Reveal.

(* ---- fragments: the left pointers of a scored fragment form a chain, so the instalments add up to the whole minus the parts ---- *)
Section RevealFragments.
  Variable N_order : nat.
  Hypothesis Hord : 2 <= N_order.
  Variable T : table.
  Variable M : arpa.
  Hypothesis Inv : TInv N_order T M.
  Variable dr : bool.
  Hypothesis rest_dr : dr = false -> forall k e, T k = Some e -> e_rest e = e_prob e.
  Hypothesis ext_ctx : forall k e, T k = Some e -> e_ext e = true -> 2 <= length k -> exists x, T (x :: k) <> None.

  Notation flatf := (flat N_order T).
  Notation fin := (rs_finish N_order).

  Lemma chain_snoc : forall P k p, chain N_order k P -> length p = S (k + length P) -> S (k + length P) <= N_order - 1 ->
    chain N_order k (P ++ [p]).
  Proof.
    induction P as [|q P IH]; intros k p H Hl Hn; cbn [app chain length] in *.
    - rewrite Nat.add_0_r in *. repeat split; assumption.
    - destruct H as [H1 [H2 H3]]. repeat split; try assumption. apply IH; [exact H3|lia|lia].
  Qed.

  Lemma term_chain : forall X w, wf X -> known T w -> chain N_order 0 (rs_ptrs X) -> chain N_order 0 (rs_ptrs (rs_terminal N_order T X w)).
  Proof.
    intros X w WX Hw HC. unfold rs_terminal.
    destruct (full_score N_order T (rs_right X) w) as [rf outf] eqn:Hf.
    destruct (rs_done X) eqn:Ed; [exact HC|]. destruct (r_indep rf) eqn:Ei; [exact HC|]. cbn [rs_ptrs].
    pose proof (wf_state X WX) as Hs. unfold swf in Hs. pose proof (wf_open X WX Ed) as Ho.
    destruct (rs_right X) as [c1 B1]. cbn [s_words s_bo] in *.
    destruct (sim_ext N_order Hord T M Inv ext_ctx c1 B1 w rf outf Hw Hs Hf Ei) as [e [He [Hl [Hc1 [_ [_ [Hx _]]]]]]].
    apply chain_snoc; [exact HC|rewrite Hx; cbn [length]; lia|lia].
  Qed.

  Lemma flat_chain : forall ws X, wf X -> Forall (known T) ws -> chain N_order 0 (rs_ptrs X) -> chain N_order 0 (rs_ptrs (flatf X ws)).
  Proof.
    induction ws as [|w ws IH]; intros X WX Hk HC; [exact HC|]. inversion Hk as [|? ? Hw Hk']. subst.
    cbn [flat fold_left]. apply IH; [apply term_wf; [exact Hord|exact WX]|exact Hk'|apply term_chain; assumption].
  Qed.

  Lemma reveal_after_one_shot : forall us ws, Forall (known T) us -> Forall (known T) ws ->
    let A := fin (flatf rs_init us) in
    let B := fin (flatf rs_init ws) in
    fst (fst (reveal_after N_order T dr (c_left (fst A)) (c_right (fst A)) (c_left (fst B)) 0)) =
    (snd (fin (flatf rs_init (us ++ ws))) - snd A - snd B)%Z.
  Proof.
    intros us ws Hu Hw A B.
    rewrite (reveal_after_is_subsume N_order T dr (c_left (fst A)) (c_right (fst A)) (c_left (fst B)) (c_right (fst B))).
    destruct (subsume N_order T dr (c_left (fst A)) (c_right (fst A)) (c_left (fst B)) (c_right (fst B))) as [[adj l'] r'] eqn:ES.
    pose proof (subsume_flat N_order Hord T M Inv dr rest_dr ext_ctx us ws Hu Hw adj l' r' ES) as HF.
    apply (f_equal snd) in HF. cbn [fst snd] in *. unfold rs_finish at 1 in HF. cbn [snd mkrs rs_prob] in HF.
    unfold A, B. lia.
  Qed.

  (* RevealAfter in instalments: the pointers of the following fragment revealed c1, then c2, ... at a time (the last cut
     being all of them), plus the closing call when that fragment's left state is complete, give the whole minus the parts *)
  Theorem reveal_after_incremental : forall us ws c cuts, Forall (known T) us -> Forall (known T) ws ->
    let A := fin (flatf rs_init us) in
    let B := fin (flatf rs_init ws) in
    let P := l_ptrs (c_left (fst B)) in
    increasing 0 (c :: cuts) (length P) -> last cuts c = length P ->
    let '(a1, l1, r1) := ra_seq N_order T dr (c_left (fst A)) (c_right (fst A)) P 0 (c :: cuts) in
    let '(a2, l2, r2) := if l_full (c_left (fst B))
                         then reveal_after N_order T dr l1 r1 {| l_ptrs := P; l_full := true |} (length P)
                         else (0%Z, l1, r1) in
    (a1 + a2)%Z = (snd (fin (flatf rs_init (us ++ ws))) - snd A - snd B)%Z.
  Proof.
    intros us ws c cuts Hu Hw A B P Hi Hlast.
    assert (W0 : wf rs_init) by (constructor; cbn; [reflexivity|constructor|reflexivity]).
    assert (WA : wf (flatf rs_init us)) by (apply flat_wf; [exact Hord|exact W0]).
    pose proof (fin_cwf N_order (flatf rs_init us) WA) as CA. fold A in CA.
    assert (HJ : J (c_left (fst A)) (c_right (fst A)) 0).
    { destruct CA as [C1 C2 C3]. split; [exact C1|]. intros Hf. rewrite (C3 Hf). lia. }
    assert (HC : chain N_order 0 P).
    { unfold P, B. rewrite fin_eq. cbn [fst mkchart c_left l_ptrs]. apply flat_chain; [exact W0|exact Hw|exact I]. }
    rewrite (ra_seq_one_shot N_order Hord T dr cuts c _ _ P 0 HJ HC Hi). rewrite Hlast. cbn [skipn]. rewrite firstn_all.
    pose proof (reveal_after_one_shot us ws Hu Hw) as H1. cbn zeta in H1. fold A B in H1.
    destruct (l_full (c_left (fst B))) eqn:Ef.
    - pose proof (ra_finish N_order Hord T dr (c_left (fst A)) (c_right (fst A)) P 0 HJ HC) as HF.
      rewrite ra_seen in HF. cbn [skipn] in HF.
      destruct (ra N_order T dr (c_left (fst A)) (c_right (fst A)) P) as [[a1 l1] r1].
      destruct (reveal_after N_order T dr l1 r1 {| l_ptrs := P; l_full := true |} (length P)) as [[a2 l2] r2].
      assert (EB : c_left (fst B) = {| l_ptrs := P; l_full := true |}) by (unfold P; destruct (c_left (fst B)); cbn in *; subst; reflexivity).
      rewrite EB, HF in H1. exact H1.
    - assert (EB : c_left (fst B) = {| l_ptrs := P; l_full := false |}) by (unfold P; destruct (c_left (fst B)); cbn in *; subst; reflexivity).
      rewrite EB in H1. fold (ra N_order T dr (c_left (fst A)) (c_right (fst A)) P) in H1.
      destruct (ra N_order T dr (c_left (fst A)) (c_right (fst A)) P) as [[a1 l1] r1]. cbn [fst] in H1. lia.
  Qed.
End RevealFragments.

(* ================================================================================================================= *)
(* RevealBefore called incrementally: between two calls the left pointers themselves are rewritten (each is replaced by
   its extension with the words revealed so far), so the second call walks further from where the first one stopped.
   One ExtendLeft over the context A1 ++ A2 is ExtendLeft over A1 followed by ExtendLeft over A2 from the extended
   pointer (the el_comp lemmas); the loops of the single call, of the first call and of the second call are then run side by side. *)
Section RevealBefore.
  Variable N_order : nat.
  Hypothesis Hord : 2 <= N_order.
  Variable T : table.
  Variable M : arpa.
  Hypothesis Inv : TInv N_order T M.
  Variable dr : bool.
  Hypothesis rest_dr : dr = false -> forall k e, T k = Some e -> e_rest e = e_prob e.
  Hypothesis ext_ctx : forall k e, T k = Some e -> e_ext e = true -> 2 <= length k -> exists x, T (x :: k) <> None.

  Notation el := (extend_left N_order T).
  Notation unr := (un_rest T dr).
  Definition rest_of (p : key) : Z := e_rest (match T p with Some e => e | None => unk_entry end).

  Lemma sum_bo_app' : forall a b, sum_bo (a ++ b) = (sum_bo a + sum_bo b)%Z.
  Proof. unfold sum_bo. induction a as [|x a IH]; intros b; cbn [app fold_right]; [lia|]. rewrite IH. lia. Qed.

  Lemma rx0_len : forall p, r_len (rx0_of T p) = length p.
  Proof. reflexivity. Qed.

  Lemma el_comp_indep : forall A1 A2 B1 B2 p ret1 bo1 nu1, 1 <= length p <= N_order - 1 -> length B1 = length A1 ->
    el A1 B1 p = (ret1, bo1, nu1) -> r_indep ret1 = true ->
    el (A1 ++ A2) (B1 ++ B2) p =
    ({| r_prob := (r_prob ret1 + sum_bo (firstn (length A2) B2))%Z; r_len := r_len ret1; r_indep := true; r_ext := r_ext ret1;
        r_rest := r_rest ret1 |}, bo1, nu1).
  Proof.
    intros A1 A2 B1 B2 p ret1 bo1 nu1 Hp HB H1 Hi.
    rewrite extend_left_core in *. cbn zeta in *.
    pose proof (core_app N_order T A1 A2 (length p - 1) p (rx0_of T p)) as HA.
    destruct (resume_core N_order T A1 (length p - 1) p (rx0_of T p)) as [[b1 o1] r1] eqn:E1.
    injection H1 as <- <- <-. cbn [r_indep] in Hi. rewrite Hi in HA. rewrite HA.
    destruct (core_rlen N_order Hord T _ _ _ _ _ _ _ E1 ltac:(rewrite rx0_len; lia) ltac:(lia)) as [L1 L2].
    cbn [r_prob r_len r_indep r_ext r_rest]. rewrite Hi.
    f_equal. f_equal. f_equal.
    set (m := r_len r1 - length p). assert (Hm : m <= length A1) by (unfold m; lia).
    rewrite app_length.
    rewrite skipn_app. replace (m - length B1) with 0 by lia. cbn [skipn].
    rewrite firstn_app. rewrite skipn_length.
    replace (length A1 + length A2 - m - (length B1 - m)) with (length A2) by lia.
    rewrite (firstn_all2 (n := length A1 + length A2 - m) (skipn m B1)) by (rewrite skipn_length; lia).
    rewrite (firstn_all2 (n := length A1 - m) (skipn m B1)) by (rewrite skipn_length; lia).
    rewrite sum_bo_app'. lia.
  Qed.

  Lemma el_comp_ext : forall A1 B1 p ret1 bo1 nu1, 1 <= length p <= N_order - 1 -> A1 <> [] -> length B1 = length A1 ->
    el A1 B1 p = (ret1, bo1, nu1) -> r_indep ret1 = false ->
    exists e, T (p ++ A1) = Some e /\ e_left e = true /\ r_ext ret1 = p ++ A1 /\ length bo1 = length A1 /\
      length p + length A1 <= N_order - 1 /\
      r_rest ret1 = (e_rest e - rest_of p)%Z /\ r_prob ret1 = (e_prob e - rest_of p)%Z /\ nu1 <= length A1 /\
      forall A2 B2 ret2 bo2 nu2, el A2 B2 (p ++ A1) = (ret2, bo2, nu2) ->
        el (A1 ++ A2) (B1 ++ B2) p =
        ({| r_prob := (r_rest ret1 + r_prob ret2)%Z; r_len := r_len ret2; r_indep := r_indep ret2; r_ext := r_ext ret2;
            r_rest := (r_rest ret1 + r_rest ret2)%Z |}, bo1 ++ bo2, if Nat.eqb nu2 0 then nu1 else length A1 + nu2) /\
        (nu1 < length A1 -> nu2 = 0).
  Proof.
    intros A1 B1 p ret1 bo1 nu1 Hp HA1 HB H1 Hi.
    rewrite extend_left_core in H1. cbn zeta in H1.
    destruct (resume_core N_order T A1 (length p - 1) p (rx0_of T p)) as [[b1 o1] r1] eqn:E1.
    injection H1 as <- <- <-. cbn [r_indep] in Hi.
    destruct (core_walk_all N_order Hord T A1 (length p - 1) p (rx0_of T p) b1 o1 r1 E1 Hi HA1 ltac:(lia) ltac:(lia))
      as [e [He [Hr1 [Hl [Hx Hlen]]]]].
    pose proof (core_app N_order T A1 [] (length p - 1) p (rx0_of T p)) as HA0. rewrite E1, Hi in HA0. destruct HA0 as [Hb1 _].
    destruct (core_pick_range N_order T _ _ _ _ _ _ _ E1) as [_ Ho1].
    assert (Hnu1 : pick o1 (length p) - length p <= length A1).
    { destruct o1 as [v|]; cbn [pick]; lia. }
    exists e. split; [exact He|]. split; [exact Hl|]. cbn [r_ext r_rest r_prob].
    split; [rewrite Hr1; reflexivity|]. split; [exact Hb1|]. split; [lia|].
    split; [rewrite Hr1; reflexivity|]. split.
    { rewrite Hr1. cbn [r_prob r_len]. rewrite app_length.
      replace (length A1 - (length p + length A1 - length p)) with 0 by lia. cbn [firstn]. unfold sum_bo. cbn [fold_right]. unfold rest_of. lia. }
    split; [exact Hnu1|].
    intros A2 B2 ret2 bo2 nu2 H2.
    rewrite extend_left_core in H2. cbn zeta in H2.
    assert (Erx : rx0_of T (p ++ A1) = r1).
    { rewrite Hr1. unfold rx0_of. rewrite He.
      replace (Nat.eqb (length (p ++ A1)) 1) with false; [reflexivity|].
      symmetry. apply Nat.eqb_neq. rewrite app_length. destruct A1; [congruence|cbn [length]; lia]. }
    rewrite Erx in H2. rewrite app_length in H2.
    replace (length p + length A1 - 1) with (length p - 1 + length A1) in H2 by lia.
    destruct (resume_core N_order T A2 (length p - 1 + length A1) (p ++ A1) r1) as [[b2 o2] r2] eqn:E2.
    injection H2 as <- <- <-.
    assert (Hr1len : r_len r1 = S (length p - 1 + length A1)) by (rewrite Hr1; cbn [r_len]; rewrite app_length; lia).
    destruct (core_rlen N_order Hord T _ _ _ _ _ _ _ E2 Hr1len ltac:(lia)) as [L1 L2].
    destruct (core_pick_range N_order T _ _ _ _ _ _ _ E2) as [Hb2 Ho2].
    split.
    - rewrite extend_left_core. cbn zeta.
      pose proof (core_app N_order T A1 A2 (length p - 1) p (rx0_of T p)) as HA. rewrite E1, Hi in HA. destruct HA as [_ HA].
      rewrite HA, E2. cbn [r_prob r_len r_indep r_ext r_rest]. rewrite He. fold (rest_of p).
      f_equal; [f_equal|].
      + f_equal; [|rewrite Hr1; cbn [r_rest]; unfold rest_of; lia].
        rewrite Hr1. cbn [r_rest].
        set (m2 := r_len r2 - (length p + length A1)).
        replace (r_len r2 - length p) with (length A1 + m2) by (unfold m2; lia).
        rewrite app_length.
        replace (length A1 + length A2 - (length A1 + m2)) with (length A2 - m2) by lia.
        rewrite skipn_app. rewrite HB. replace (length A1 + m2 - length A1) with m2 by lia.
        rewrite (skipn_all2 (n := length A1 + m2) B1) by lia. cbn [app]. unfold rest_of. lia.
      + destruct o2 as [v|]; cbn [pick].
        * replace (Nat.eqb (v - (length p + length A1)) 0) with false by (symmetry; apply Nat.eqb_neq; lia). lia.
        * rewrite Nat.sub_diag. cbn [Nat.eqb]. reflexivity.
    - intros Hlt. destruct o2 as [v|]; cbn [pick]; [|lia]. exfalso.
      destruct (core_pick_ext N_order Hord T A2 _ (p ++ A1) r1 b2 (Some v) r2 v E2 eq_refl ltac:(rewrite app_length; lia))
        as [e2 [He2 [Hx2 _]]].
      assert (Hpne : p ++ A1 <> []) by (destruct p; [cbn in Hp; lia|discriminate]).
      pose proof (ext_suffix N_order Hord T M Inv ext_ctx (p ++ A1) _ e2 e Hpne He2 Hx2 He) as Hxe.
      rewrite (Hx Hxe) in Hlt. cbn [pick] in Hlt. rewrite app_length in Hlt. lia.
  Qed.

  (* ---- ExtendLoop (writing) as a fold over the pointers ---------------------------------------------------------- *)
  Record st := { md : bool; wr : list key; aj : Z; nx : nat; bk : list boval }.   (* md = still in the writing loop *)
  Definition stepf (add : list word) (s : st) (p : key) : st :=
    if md s then
      let '(ret, bo, nu') := el (firstn (nx s) add) (bk s) p in
      if r_indep ret then {| md := false; wr := wr s; aj := (aj s + r_prob ret)%Z; nx := nu'; bk := bo |}
      else {| md := Nat.eqb nu' (length add); wr := wr s ++ [r_ext ret]; aj := (aj s + r_rest ret)%Z; nx := nu'; bk := bo |}
    else if Nat.eqb (nx s) 0 then {| md := false; wr := wr s; aj := (aj s + unr [p])%Z; nx := 0; bk := bk s |}
    else
      let '(ret, bo, nu') := el (firstn (nx s) add) (bk s) p in
      {| md := false; wr := wr s; aj := (aj s + r_prob ret)%Z; nx := nu'; bk := bo |}.
  Definition run (add : list word) (P : list key) (s : st) : st := fold_left (stepf add) P s.

  Lemma unr_cons : forall p P, unr (p :: P) = (unr [p] + unr P)%Z.
  Proof. intros. change (p :: P) with ([p] ++ P). apply (unr_app' N_order Hord). Qed.

  Lemma run_cons : forall add p P s, run add (p :: P) s = run add P (stepf add s p).
  Proof. reflexivity. Qed.
  Lemma run_nil : forall add s, run add [] s = s.
  Proof. reflexivity. Qed.

  Lemma run_stopped : forall add Q w a b,
    run add Q {| md := false; wr := w; aj := a; nx := 0; bk := b |} = {| md := false; wr := w; aj := (a + unr Q)%Z; nx := 0; bk := b |}.
  Proof.
    intros add Q. induction Q as [|q Q IHQ]; intros w a b.
    - rewrite run_nil, unr_nil''. f_equal. lia.
    - rewrite run_cons. unfold stepf. cbn [md nx bk wr aj Nat.eqb]. rewrite IHQ. rewrite (unr_cons q Q). f_equal. lia.
  Qed.

  Lemma run_full : forall add P w a nu back rest a' nu' bk',
    ext_full N_order T add P a nu back = (rest, a', nu', bk') ->
    run add P {| md := false; wr := w; aj := a; nx := nu; bk := back |} =
    {| md := false; wr := w; aj := (a' + unr rest)%Z; nx := nu'; bk := bk' |}.
  Proof.
    intros add P. induction P as [|p P IH]; intros w a nu back rest a' nu' bk' H; cbn [ext_full] in H.
    - injection H as <- <- <- <-. rewrite run_nil, unr_nil''. f_equal. lia.
    - destruct (Nat.eqb_spec nu 0) as [E|E].
      + injection H as <- <- <- <-. subst nu. rewrite run_stopped. reflexivity.
      + rewrite run_cons. unfold stepf. cbn [md nx bk wr aj].
        replace (Nat.eqb nu 0) with false by (symmetry; apply Nat.eqb_neq; exact E).
        destruct (el (firstn nu add) back p) as [[ret bo] nu1]. apply (IH _ _ _ _ _ _ _ _ H).
  Qed.

  Lemma run_write : forall add P w a back rest w' a' mf nu' bk',
    ext_write N_order T add (length add) P w a (length add) back = (rest, w', a', mf, nu', bk') ->
    run add P {| md := true; wr := w; aj := a; nx := length add; bk := back |} =
    run add rest {| md := negb mf; wr := w'; aj := a'; nx := nu'; bk := bk' |}.
  Proof.
    intros add P. induction P as [|p P IH]; intros w a back rest w' a' mf nu' bk' H; cbn [ext_write] in H.
    - injection H as <- <- <- <- <- <-. reflexivity.
    - rewrite run_cons. unfold stepf. cbn [md nx bk wr aj].
      destruct (el (firstn (length add) add) back p) as [[ret bo] nu1].
      destruct (r_indep ret).
      + injection H as <- <- <- <- <- <-. reflexivity.
      + destruct (Nat.eqb_spec nu1 (length add)) as [E|E]; cbn [negb] in H.
        * subst nu1. apply (IH _ _ _ _ _ _ _ _ _ H).
        * injection H as <- <- <- <- <- <-. reflexivity.
  Qed.

  Lemma xl_run : forall add bs P,
    extend_loop N_order T dr add bs P true =
    (let s := run add P {| md := true; wr := []; aj := 0%Z; nx := length add; bk := firstn (length add) bs |} in
     ({| x_adjust := aj s; x_make_full := negb (md s); x_next_use := nx s |}, wr s, firstn (nx s) (bk s))).
  Proof.
    intros add bs P. cbn zeta. unfold extend_loop.
    destruct (ext_write N_order T add (length add) P [] 0%Z (length add) (firstn (length add) bs)) as [[[[[rest1 w1] a1] mf] nu1] b1] eqn:E1.
    rewrite (run_write _ _ _ _ _ _ _ _ _ _ _ E1).
    destruct (ext_full N_order T add rest1 a1 nu1 b1) as [[[rest2 a2] nu2] b2] eqn:E2.
    destruct mf; cbn [negb].
    - rewrite (run_full _ _ _ _ _ _ _ _ _ _ E2). reflexivity.
    - (* the writing loop ran to the end: nothing is left for the second loop *)
      destruct (xw_nobreak N_order Hord T _ _ _ _ _ _ _ _ _ _ _ _ E1) as [-> _]. cbn [ext_full] in E2. injection E2 as <- <- <- <-.
      rewrite run_nil. cbn [md aj nx wr bk negb]. rewrite unr_nil''. f_equal. f_equal. f_equal. lia.
  Qed.


  Lemma el_nil_prob : forall B q e, T q = Some e ->
    exists ret, el [] B q = (ret, [], 0) /\ r_prob ret = (e_prob e - e_rest e)%Z.
  Proof.
    intros B q e He. rewrite extend_left_core. cbn zeta. cbn [resume_core]. unfold rx0_of. rewrite He.
    cbn [r_prob r_len r_indep r_ext r_rest pick length]. rewrite Nat.sub_diag.
    eexists. split; [reflexivity|]. cbn [r_prob Nat.sub firstn]. unfold sum_bo. cbn [fold_right]. lia.
  Qed.



  Lemma xl_run_full : forall add bs P,
    extend_loop N_order T dr add bs P false =
    (let s := run add P {| md := false; wr := []; aj := 0%Z; nx := length add; bk := firstn (length add) bs |} in
     ({| x_adjust := aj s; x_make_full := false; x_next_use := nx s |}, [], firstn (nx s) (bk s))).
  Proof.
    intros add bs P. cbn zeta. unfold extend_loop.
    destruct (ext_full N_order T add P 0%Z (length add) (firstn (length add) bs)) as [[[rest2 a2] nu2] b2] eqn:E2.
    rewrite (run_full _ _ _ _ _ _ _ _ _ _ E2). reflexivity.
  Qed.

  Lemma stepf_bounds : forall add s p, p <> [] -> nx s <= length add -> nx s <= length (bk s) ->
    nx (stepf add s p) <= length add /\ nx (stepf add s p) <= length (bk (stepf add s p)).
  Proof.
    intros add s p Hp H1 H2. unfold stepf. destruct (md s).
    - destruct (el (firstn (nx s) add) (bk s) p) as [[ret bo] nu'] eqn:E.
      destruct (extend_left_bounds N_order Hord T _ _ _ _ _ _ Hp E) as [Q1 [Q2 _]]. rewrite firstn_length in Q1.
      destruct (r_indep ret); cbn [nx bk]; lia.
    - destruct (Nat.eqb (nx s) 0); [cbn [nx bk]; lia|].
      destruct (el (firstn (nx s) add) (bk s) p) as [[ret bo] nu'] eqn:E.
      destruct (extend_left_bounds N_order Hord T _ _ _ _ _ _ Hp E) as [Q1 [Q2 _]]. rewrite firstn_length in Q1. cbn [nx bk]. lia.
  Qed.
  Lemma run_bounds : forall add P s, Forall (fun p : key => p <> []) P -> nx s <= length add -> nx s <= length (bk s) ->
    nx (run add P s) <= length add /\ nx (run add P s) <= length (bk (run add P s)).
  Proof.
    intros add P. induction P as [|p P IH]; intros s HP H1 H2; [rewrite run_nil; split; assumption|].
    inversion HP as [|? ? Hp HP']. subst. rewrite run_cons. destruct (stepf_bounds add s p Hp H1 H2) as [B1 B2]. apply IH; assumption.
  Qed.


  (* ---- more facts about the fold ------------------------------------------------------------------------------------ *)
  Lemma run_full_mode : forall add Q s, Forall (fun p : key => p <> []) Q -> md s = false ->
    md (run add Q s) = false /\ wr (run add Q s) = wr s /\ nx (run add Q s) <= nx s.
  Proof.
    intros add Q. induction Q as [|q Q IH]; intros s HQ Hm; [rewrite run_nil; repeat split; [exact Hm|lia]|].
    inversion HQ as [|? ? Hq HQ']. subst. rewrite run_cons.
    assert (E : md (stepf add s q) = false /\ wr (stepf add s q) = wr s /\ nx (stepf add s q) <= nx s).
    { unfold stepf. rewrite Hm. destruct (Nat.eqb_spec (nx s) 0) as [Z|Z]; [cbn [md wr nx]; repeat split; lia|].
      destruct (el (firstn (nx s) add) (bk s) q) as [[ret bo] nu'] eqn:E1.
      destruct (extend_left_bounds N_order Hord T _ _ _ _ _ _ Hq E1) as [Q1 _]. rewrite firstn_length in Q1.
      cbn [md wr nx]. repeat split. lia. }
    destruct E as [E1 [E2 E3]]. destruct (IH _ HQ' E1) as [I1 [I2 I3]]. repeat split; [exact I1|congruence|lia].
  Qed.

  (* with N-1 words of context every pointer ends independent: whether the loop is still "writing" makes no difference *)
  Lemma run_mode_irrelevant : forall add q Q s, q <> [] -> length q <= N_order - 1 -> N_order <= length q + length add ->
    nx s = length add -> length add <> 0 ->
    run add (q :: Q) {| md := true; wr := wr s; aj := aj s; nx := nx s; bk := bk s |} =
    run add (q :: Q) {| md := false; wr := wr s; aj := aj s; nx := nx s; bk := bk s |}.
  Proof.
    intros add q Q s Hq Hl Hn Hx Ha. rewrite !run_cons. f_equal. unfold stepf. cbn [md wr aj nx bk]. rewrite Hx.
    replace (Nat.eqb (length add) 0) with false by (symmetry; apply Nat.eqb_neq; exact Ha).
    rewrite firstn_all.
    pose proof (el_long_indep N_order Hord T add (bk s) q Hq Hl Hn) as Hi.
    destruct (el add (bk s) q) as [[ret bo] nu']. cbn [fst] in Hi. rewrite Hi. reflexivity.
  Qed.

  (* RevealBefore with reveal_full = false, as a function of the words and back-offs it adds *)
  Definition rbf (add : list word) (bs : list boval) (l : left) (r : state) : Z * left * state :=
    let '(v, written, bw) := extend_loop N_order T dr add bs (l_ptrs l) true in
    let make_full := orb (x_make_full v) (Nat.eqb (length written) (N_order - 1)) in
    if l_full l then ((x_adjust v + sum_bo bw)%Z, {| l_ptrs := written; l_full := true |}, r)
    else
      let r' := {| s_words := s_words r ++ firstn (x_next_use v) add; s_bo := s_bo r ++ bw |} in
      (x_adjust v, {| l_ptrs := written; l_full := orb make_full (Nat.eqb (length (s_words r')) (N_order - 1)) |}, r').

  Lemma rb_unfold : forall rv seen l r,
    reveal_before N_order T dr rv seen false l r = rbf (skipn seen (s_words rv)) (skipn seen (s_bo rv)) l r.
  Proof.
    intros. unfold reveal_before, rbf. cbn [negb].
    destruct (extend_loop N_order T dr (skipn seen (s_words rv)) (skipn seen (s_bo rv)) (l_ptrs l) true) as [[v written] bw].
    destruct (l_full l); reflexivity.
  Qed.

  Definition good' (p : key) : Prop := 1 <= length p <= N_order - 1.
  Definition BJ (l : left) (r : state) (s : nat) : Prop :=
    Forall good' (l_ptrs l) /\ length (s_bo r) = length (s_words r) /\
    (l_full l = false -> chain N_order s (l_ptrs l) /\ length (s_words r) <= length (l_ptrs l) + s).

  (* ---- the single call, the first call and the second call side by side -------------------------------------------- *)
  Lemma chain_good : forall P k, chain N_order k P -> Forall good' P.
  Proof.
    induction P as [|p P IH]; intros k H; [constructor|]. destruct H as [H1 [H2 H3]]. constructor; [unfold good'; lia|exact (IH _ H3)].
  Qed.

  Lemma chain_count : forall P k, chain N_order k P -> P = [] \/ k + length P <= N_order - 1.
  Proof.
    induction P as [|p P IH]; intros k H; [left; reflexivity|]. right. destruct H as [_ [H2 H3]].
    destruct (IH _ H3) as [E|E]; [subst P; cbn [length]; lia|cbn [length]; lia].
  Qed.

  Section Sim.
    Variables A1 A2 : list word.
    Hypothesis HA1 : A1 <> [].
    Hypothesis HA2 : A2 <> [].
    Let a1 := length A1.
    Let a2 := length A2.

    Lemma a1_pos : 1 <= a1.
    Proof. unfold a1. assert (length A1 <> 0) by (intro H0; apply HA1; apply length_zero_iff_nil; exact H0). lia. Qed.
    Lemma a2_pos : 1 <= a2.
    Proof. unfold a2. assert (length A2 <> 0) by (intro H0; apply HA2; apply length_zero_iff_nil; exact H0). lia. Qed.

    (* the pointer the first call writes for p, if any *)
    Definition new1 (s1 : st) (p : key) : option key :=
      if md s1 then let '(ret, _, _) := el (firstn (nx s1) A1) (bk s1) p in if r_indep ret then None else Some (r_ext ret)
      else None.
    Definition step2 (s1 s2 : st) (p : key) : st := match new1 s1 p with Some q => stepf A2 s2 q | None => s2 end.

    Inductive Rel (s s1 s2 : st) : Prop :=
    | RelA : md s = true -> md s1 = true -> md s2 = true -> nx s = a1 + a2 -> nx s1 = a1 -> nx s2 = a2 ->
             wr s = wr s2 -> aj s = (aj s1 + aj s2)%Z -> length (bk s1) = a1 ->
             firstn (a1 + a2) (bk s) = bk s1 ++ firstn a2 (bk s2) -> Rel s s1 s2
    | RelB : md s = false -> md s1 = true -> md s2 = false -> nx s1 = a1 -> nx s = a1 + nx s2 -> nx s2 <= a2 ->
             wr s = wr s2 -> aj s = (aj s1 + aj s2)%Z -> length (bk s1) = a1 ->
             firstn (nx s) (bk s) = bk s1 ++ firstn (nx s2) (bk s2) -> Rel s s1 s2
    | RelC : md s = false -> md s1 = false -> nx s = nx s1 -> nx s1 <= a1 -> wr s = wr s2 ->
             aj s = (aj s1 + aj s2 + sum_bo (firstn (nx s2) (bk s2)))%Z ->
             firstn (nx s) (bk s) = firstn (nx s1) (bk s1) -> Rel s s1 s2.

    Lemma firstn_app_exact : forall (X : Type) (l1 l2 : list X) n, length l1 = n -> forall k, firstn (n + k) (l1 ++ l2) = l1 ++ firstn k l2.
    Proof. intros X l1 l2 n H k. rewrite firstn_app, H. replace (n + k - n) with k by lia. rewrite firstn_all2 by lia. reflexivity. Qed.

    Lemma el_bin' : forall add bin bin' p, firstn (length add) bin = firstn (length add) bin' -> el add bin p = el add bin' p.
    Proof. intros add bin bin' p H. rewrite (extend_left_bin N_order T add bin p), (extend_left_bin N_order T add bin' p), H. reflexivity. Qed.

    Lemma Rel_step : forall s s1 s2 p, 1 <= length p <= N_order - 1 -> Rel s s1 s2 ->
      Rel (stepf (A1 ++ A2) s p) (stepf A1 s1 p) (step2 s1 s2 p).
    Proof.
      intros s s1 s2 p Hp HR. assert (Hpn : p <> []) by (destruct p; [cbn in Hp; lia|discriminate]).
      pose proof a1_pos as Ha1. pose proof a2_pos as Ha2.
      inversion HR as [M0 M1 M2 X0 X1 X2 HW HJ HL HBk | M0 M1 M2 X1 X0 X2 HW HJ HL HBk | M0 M1 X0 X1 HW HJ HBk].
      - (* all three still writing *)
        unfold step2, new1, stepf. rewrite M0, M1, M2, X0, X1, X2.
        assert (EA : firstn (a1 + a2) (A1 ++ A2) = A1 ++ A2) by (apply firstn_all2; rewrite app_length; unfold a1, a2; lia).
        assert (EA1 : firstn a1 A1 = A1) by (apply firstn_all). assert (EA2 : firstn a2 A2 = A2) by (apply firstn_all).
        rewrite EA, EA1, EA2.
        assert (EB : el (A1 ++ A2) (bk s) p = el (A1 ++ A2) (bk s1 ++ firstn a2 (bk s2)) p).
        { apply el_bin'. rewrite app_length. fold a1 a2. rewrite HBk. rewrite (firstn_app_exact _ (bk s1) (firstn a2 (bk s2)) a1 HL a2).
          rewrite firstn_firstn, Nat.min_id. reflexivity. }
        rewrite EB.
        destruct (el A1 (bk s1) p) as [[ret1 bo1] nu1] eqn:E1.
        destruct (r_indep ret1) eqn:Ei1.
        + rewrite (el_comp_indep A1 A2 (bk s1) (firstn a2 (bk s2)) p ret1 bo1 nu1 Hp HL E1 Ei1). cbn [r_indep r_prob].
          destruct (extend_left_bounds N_order Hord T _ _ _ _ _ _ Hpn E1) as [Q1 [Q2 _]].
          apply RelC; cbn [md nx wr aj bk]; try reflexivity; try assumption.
          rewrite X2. fold a2. rewrite firstn_firstn, Nat.min_id. lia.
        + destruct (el_comp_ext A1 (bk s1) p ret1 bo1 nu1 Hp HA1 HL E1 Ei1) as [e [He [Hl [Hx [Hbo [Hlen [Hrest [Hprob [Hnu1 HC]]]]]]]]].
          rewrite Hx.
          assert (EB2 : el A2 (bk s2) (p ++ A1) = el A2 (firstn a2 (bk s2)) (p ++ A1)).
          { apply el_bin'. fold a2. rewrite firstn_firstn, Nat.min_id. reflexivity. }
          rewrite EB2.
          destruct (el A2 (firstn a2 (bk s2)) (p ++ A1)) as [[ret2 bo2] nu2] eqn:E2.
          destruct (HC A2 (firstn a2 (bk s2)) ret2 bo2 nu2 E2) as [HC1 HC2]. rewrite HC1. cbn [r_indep r_prob r_rest r_ext].
          assert (Hpne : p ++ A1 <> []) by (destruct p; [cbn in Hp; lia|discriminate]).
          destruct (extend_left_bounds N_order Hord T _ _ _ _ _ _ Hpne E2) as [Q1 [Q2 _]]. fold a2 in Q1.
          rewrite app_length. fold a1 a2.
          destruct (r_indep ret2) eqn:Ei2.
          * (* the second call stops on this pointer *)
            destruct (Nat.eqb_spec nu1 a1) as [En|En].
            -- apply RelB; cbn [md nx wr aj bk]; try reflexivity; try assumption; try lia.
               ++ destruct (Nat.eqb_spec nu2 0); lia.
               ++ destruct (Nat.eqb_spec nu2 0) as [Z|Z].
                  ** subst nu2. rewrite En. cbn [firstn]. rewrite app_nil_r. rewrite firstn_app. rewrite Hbo. fold a1.
                     rewrite Nat.sub_diag. cbn [firstn]. rewrite app_nil_r. apply firstn_all2. fold a1 in Hbo. lia.
                  ** apply firstn_app_exact. exact Hbo.
            -- assert (Z : nu2 = 0) by (apply HC2; fold a1; lia). subst nu2. cbn [Nat.eqb].
               apply RelC; cbn [md nx wr aj bk firstn]; try reflexivity; try assumption; try lia.
               ++ unfold sum_bo. cbn [fold_right]. lia.
               ++ rewrite firstn_app. rewrite Hbo. fold a1. replace (nu1 - a1) with 0 by lia. cbn [firstn]. apply app_nil_r.
          * (* the second call writes too *)
            destruct (Nat.eqb_spec nu1 a1) as [En|En].
            -- destruct (Nat.eqb_spec nu2 a2) as [En2|En2].
               ++ assert (Z : Nat.eqb nu2 0 = false) by (apply Nat.eqb_neq; lia).
                  rewrite Z. rewrite En2. rewrite Nat.eqb_refl.
                  apply RelA; cbn [md nx wr aj bk]; try reflexivity; try assumption; try lia.
                  ** rewrite HW. reflexivity.
                  ** apply firstn_app_exact. exact Hbo.
               ++ replace (Nat.eqb (if Nat.eqb nu2 0 then nu1 else a1 + nu2) (a1 + a2)) with false
                    by (symmetry; apply Nat.eqb_neq; destruct (Nat.eqb_spec nu2 0); lia).
                  apply RelB; cbn [md nx wr aj bk]; try reflexivity; try assumption; try lia.
                  ** destruct (Nat.eqb_spec nu2 0); lia.
                  ** rewrite HW. reflexivity.
                  ** destruct (Nat.eqb_spec nu2 0) as [Z|Z].
                     --- subst nu2. rewrite En. cbn [firstn]. rewrite app_nil_r. rewrite firstn_app. rewrite Hbo. fold a1.
                         rewrite Nat.sub_diag. cbn [firstn]. rewrite app_nil_r. apply firstn_all2. fold a1 in Hbo. lia.
                     --- apply firstn_app_exact. exact Hbo.
            -- assert (Z : nu2 = 0) by (apply HC2; fold a1; lia). subst nu2. cbn [Nat.eqb].
               replace (Nat.eqb nu1 (a1 + a2)) with false by (symmetry; apply Nat.eqb_neq; fold a1 in Hnu1; lia).
               replace (Nat.eqb 0 a2) with false by (symmetry; apply Nat.eqb_neq; lia).
               apply RelC; cbn [md nx wr aj bk firstn]; try reflexivity; try assumption; try lia.
               ++ rewrite HW. reflexivity.
               ++ unfold sum_bo. cbn [fold_right]. lia.
               ++ rewrite firstn_app. rewrite Hbo. fold a1. replace (nu1 - a1) with 0 by lia. cbn [firstn]. apply app_nil_r.
      - (* the single call is in its second loop, the first call still writes, the second call is in its second loop *)
        unfold step2, new1. unfold stepf at 1 2. rewrite M0, M1, X0, X1.
        replace (Nat.eqb (a1 + nx s2) 0) with false by (symmetry; apply Nat.eqb_neq; lia).
        assert (EA1 : firstn a1 A1 = A1) by (apply firstn_all). rewrite EA1.
        assert (EA : firstn (a1 + nx s2) (A1 ++ A2) = A1 ++ firstn (nx s2) A2) by (apply firstn_app_exact; reflexivity).
        rewrite EA.
        assert (Ln2 : length (firstn (nx s2) A2) = nx s2) by (rewrite firstn_length; fold a2; lia).
        assert (EB : el (A1 ++ firstn (nx s2) A2) (bk s) p = el (A1 ++ firstn (nx s2) A2) (bk s1 ++ firstn (nx s2) (bk s2)) p).
        { apply el_bin'. rewrite app_length, Ln2. fold a1. rewrite <- X0, HBk. rewrite X0.
          rewrite (firstn_app_exact _ (bk s1) (firstn (nx s2) (bk s2)) a1 HL (nx s2)). rewrite firstn_firstn, Nat.min_id. reflexivity. }
        rewrite EB.
        destruct (el A1 (bk s1) p) as [[ret1 bo1] nu1] eqn:E1.
        destruct (r_indep ret1) eqn:Ei1.
        + rewrite (el_comp_indep A1 (firstn (nx s2) A2) (bk s1) (firstn (nx s2) (bk s2)) p ret1 bo1 nu1 Hp HL E1 Ei1). cbn [r_prob].
          destruct (extend_left_bounds N_order Hord T _ _ _ _ _ _ Hpn E1) as [Q1 [Q2 _]].
          apply RelC; cbn [md nx wr aj bk]; try reflexivity; try assumption.
          rewrite Ln2, firstn_firstn, Nat.min_id. lia.
        + destruct (el_comp_ext A1 (bk s1) p ret1 bo1 nu1 Hp HA1 HL E1 Ei1) as [e [He [Hl [Hx [Hbo [Hlen [Hrest [Hprob [Hnu1 HC]]]]]]]]].
          rewrite Hx. unfold stepf. rewrite M2.
          destruct (Nat.eqb_spec (nx s2) 0) as [Z2|Z2].
          * (* the second call has no context left: the written pointer goes to its UnRest *)
            rewrite Z2 in *. cbn [firstn] in *.
            destruct (el_nil_prob [] (p ++ A1) e He) as [ret2 [E2 Hp2]].
            destruct (HC [] [] ret2 [] 0 E2) as [HC1 _]. rewrite HC1. cbn [r_prob Nat.eqb].
            pose proof (unr_one N_order Hord T dr rest_dr (p ++ A1) e He) as HU.
            fold a1. destruct (Nat.eqb_spec nu1 a1) as [En|En].
            -- apply RelB; cbn [md nx wr aj bk firstn]; try reflexivity; try assumption; try lia.
               rewrite !app_nil_r. rewrite En. apply firstn_all2. fold a1 in Hbo. lia.
            -- apply RelC; cbn [md nx wr aj bk firstn]; try reflexivity; try assumption; try lia.
               ++ unfold sum_bo. cbn [fold_right]. lia.
               ++ rewrite app_nil_r. reflexivity.
          * assert (EB2 : el (firstn (nx s2) A2) (bk s2) (p ++ A1) = el (firstn (nx s2) A2) (firstn (nx s2) (bk s2)) (p ++ A1)).
            { apply el_bin'. rewrite Ln2, firstn_firstn, Nat.min_id. reflexivity. }
            rewrite EB2.
            destruct (el (firstn (nx s2) A2) (firstn (nx s2) (bk s2)) (p ++ A1)) as [[ret2 bo2] nu2] eqn:E2.
            destruct (HC (firstn (nx s2) A2) (firstn (nx s2) (bk s2)) ret2 bo2 nu2 E2) as [HC1 HC2]. rewrite HC1. cbn [r_prob].
            assert (Hpne : p ++ A1 <> []) by (destruct p; [cbn in Hp; lia|discriminate]).
            destruct (extend_left_bounds N_order Hord T _ _ _ _ _ _ Hpne E2) as [Q1 [Q2 _]]. rewrite Ln2 in Q1.
            fold a1. destruct (Nat.eqb_spec nu1 a1) as [En|En].
            -- apply RelB; cbn [md nx wr aj bk]; try reflexivity; try assumption; try lia.
               ++ destruct (Nat.eqb_spec nu2 0); lia.
               ++ destruct (Nat.eqb_spec nu2 0) as [Z|Z].
                  ** subst nu2. rewrite En. cbn [firstn]. rewrite app_nil_r. rewrite firstn_app. rewrite Hbo. fold a1.
                     rewrite Nat.sub_diag. cbn [firstn]. rewrite app_nil_r. apply firstn_all2. fold a1 in Hbo. lia.
                  ** apply firstn_app_exact. exact Hbo.
            -- assert (Z : nu2 = 0) by (apply HC2; fold a1; lia). subst nu2. cbn [Nat.eqb].
               apply RelC; cbn [md nx wr aj bk firstn]; try reflexivity; try assumption; try lia.
               ++ unfold sum_bo. cbn [fold_right]. lia.
               ++ rewrite firstn_app. rewrite Hbo. fold a1. replace (nu1 - a1) with 0 by lia. cbn [firstn]. apply app_nil_r.
      - (* the first call has stopped: the single call and the first call go on alike, the second call sees nothing more *)
        unfold step2, new1. rewrite M1. unfold stepf. rewrite M0, M1, X0.
        destruct (Nat.eqb_spec (nx s1) 0) as [Z|Z].
        + apply RelC; cbn [md nx wr aj bk]; try reflexivity; try assumption; try lia.
        + assert (EA : firstn (nx s1) (A1 ++ A2) = firstn (nx s1) A1).
          { rewrite firstn_app. fold a1. replace (nx s1 - a1) with 0 by lia. cbn [firstn]. apply app_nil_r. }
          rewrite EA.
          assert (Ln : length (firstn (nx s1) A1) = nx s1) by (rewrite firstn_length; fold a1; lia).
          assert (EB : el (firstn (nx s1) A1) (bk s) p = el (firstn (nx s1) A1) (bk s1) p).
          { apply el_bin'. rewrite Ln. rewrite <- X0 at 1. exact HBk. }
          rewrite EB.
          destruct (el (firstn (nx s1) A1) (bk s1) p) as [[ret bo] nu'] eqn:E1.
          destruct (extend_left_bounds N_order Hord T _ _ _ _ _ _ Hpn E1) as [Q1 [Q2 _]]. rewrite Ln in Q1.
          apply RelC; cbn [md nx wr aj bk]; try reflexivity; try assumption; try lia.
    Qed.

    (* pointers written by the first call over P, in order *)
    Fixpoint news (P : list key) (s1 : st) : list key :=
      match P with
      | [] => []
      | p :: P' => (match new1 s1 p with Some q => [q] | None => [] end) ++ news P' (stepf A1 s1 p)
      end.

    Lemma wr_step1 : forall s1 p, wr (stepf A1 s1 p) = wr s1 ++ (match new1 s1 p with Some q => [q] | None => [] end).
    Proof.
      intros s1 p. unfold stepf, new1. destruct (md s1).
      - destruct (el (firstn (nx s1) A1) (bk s1) p) as [[ret bo] nu']. destruct (r_indep ret); cbn [wr]; [rewrite app_nil_r|]; reflexivity.
      - destruct (Nat.eqb (nx s1) 0); [cbn [wr]; rewrite app_nil_r; reflexivity|].
        destruct (el (firstn (nx s1) A1) (bk s1) p) as [[ret bo] nu']. cbn [wr]. rewrite app_nil_r. reflexivity.
    Qed.

    Lemma wr_run1 : forall P s1, wr (run A1 P s1) = wr s1 ++ news P s1.
    Proof.
      induction P as [|p P IH]; intros s1; [rewrite run_nil; cbn [news]; rewrite app_nil_r; reflexivity|].
      rewrite run_cons, IH, wr_step1. cbn [news]. rewrite app_assoc. reflexivity.
    Qed.

    Definition good (p : key) : Prop := 1 <= length p <= N_order - 1.

    Lemma Rel_run : forall P s s1 s2, Forall good P -> Rel s s1 s2 ->
      Rel (run (A1 ++ A2) P s) (run A1 P s1) (run A2 (news P s1) s2).
    Proof.
      induction P as [|p P IH]; intros s s1 s2 HP HR; [exact HR|].
      inversion HP as [|? ? Hp HP']. subst. rewrite !run_cons. cbn [news].
      unfold run at 3. rewrite fold_left_app. fold (run A2 (news P (stepf A1 s1 p))).
      apply IH; [exact HP'|].
      pose proof (Rel_step s s1 s2 p Hp HR) as H. unfold step2 in H.
      destruct (new1 s1 p) as [q|]; cbn [fold_left]; exact H.
    Qed.

    (* ---- the first call on its own: while it writes, it writes p ++ A1 for every p ---------------------------------- *)
    Definition W1inv (s1 : st) : Prop := md s1 = true -> nx s1 = a1 /\ length (bk s1) = a1.

    Lemma step1_facts : forall s1 p, good p -> W1inv s1 -> Forall good (wr s1) ->
      let s1' := stepf A1 s1 p in
      W1inv s1' /\ Forall good (wr s1') /\
      (md s1' = true -> md s1 = true /\ wr s1' = wr s1 ++ [p ++ A1] /\ length p + a1 <= N_order - 1) /\
      (md s1 = false -> md s1' = false).
    Proof.
      intros s1 p Hp HI HG. cbn zeta. unfold stepf. destruct (md s1) eqn:M1.
      - destruct (HI M1) as [X1 HL]. rewrite X1.
        assert (EA1 : firstn a1 A1 = A1) by (apply firstn_all). rewrite EA1.
        destruct (el A1 (bk s1) p) as [[ret1 bo1] nu1] eqn:E1.
        destruct (r_indep ret1) eqn:Ei1.
        + cbn [md wr]. split; [intros H; discriminate|]. split; [exact HG|]. split; intros H; discriminate.
        + destruct (el_comp_ext A1 (bk s1) p ret1 bo1 nu1 Hp HA1 HL E1 Ei1) as [e [He [Hl [Hx [Hbo [Hlen [_ [_ [Hnu1 _]]]]]]]]].
          cbn [md wr nx bk]. fold a1. split.
          * intros H. apply Nat.eqb_eq in H. split; [exact H|exact Hbo].
          * split.
            -- apply Forall_app. split; [exact HG|]. constructor; [|constructor]. rewrite Hx. unfold good. rewrite app_length. fold a1.
               pose proof a1_pos. fold a1 in Hlen. unfold good in Hp. lia.
            -- split; [|intros H; discriminate]. intros _. split; [reflexivity|]. rewrite Hx. split; [reflexivity|]. fold a1 in Hlen. exact Hlen.
      - assert (G : forall X : st, md X = false -> W1inv X) by (intros X HX H; congruence).
        destruct (Nat.eqb (nx s1) 0).
        + cbn [md wr]. split; [apply G; reflexivity|]. split; [exact HG|]. split; [intros H; discriminate|reflexivity].
        + destruct (el (firstn (nx s1) A1) (bk s1) p) as [[ret bo] nu']. cbn [md wr].
          split; [apply G; reflexivity|]. split; [exact HG|]. split; [intros H; discriminate|reflexivity].
    Qed.

    Lemma run1_facts : forall P s1, Forall good P -> W1inv s1 -> Forall good (wr s1) ->
      let s1' := run A1 P s1 in
      W1inv s1' /\ Forall good (wr s1') /\
      (md s1' = true -> md s1 = true /\ wr s1' = wr s1 ++ map (fun p => p ++ A1) P /\ Forall (fun p => length p + a1 <= N_order - 1) P).
    Proof.
      induction P as [|p P IH]; intros s1 HP HI HG; cbn zeta.
      - rewrite run_nil. split; [exact HI|]. split; [exact HG|]. intros H. split; [exact H|]. cbn [map]. rewrite app_nil_r. split; [reflexivity|constructor].
      - inversion HP as [|? ? Hp HP']. subst. rewrite run_cons.
        destruct (step1_facts s1 p Hp HI HG) as [I1 [G1 [K1 K2]]].
        destruct (IH (stepf A1 s1 p) HP' I1 G1) as [I2 [G2 K3]].
        split; [exact I2|]. split; [exact G2|]. intros H. destruct (K3 H) as [H1 [H2 H3]]. destruct (K1 H1) as [H4 [H5 H6]].
        split; [exact H4|]. split.
        + rewrite H2, H5. rewrite <- app_assoc. reflexivity.
        + constructor; assumption.
    Qed.

    (* ---- the second call: a pointer of length N-1 uses up all context ---------------------------------------------- *)
    Lemma el_last : forall add B q, length q = N_order - 1 -> snd (el add B q) = 0.
    Proof.
      intros add B q Hq. rewrite extend_left_core. cbn zeta.
      destruct add as [|h add'].
      - cbn [resume_core snd pick]. lia.
      - cbn [resume_core]. destruct (r_indep (rx0_of T q)); [cbn [snd pick]; lia|].
        replace (Nat.eqb (length q - 1) (N_order - 2)) with true by (symmetry; apply Nat.eqb_eq; lia).
        destruct (T (q ++ [h])); cbn [snd pick]; lia.
    Qed.

    Lemma step2_last : forall s2 q, length q = N_order - 1 -> nx (stepf A2 s2 q) = 0.
    Proof.
      intros s2 q Hq. unfold stepf. destruct (md s2).
      - pose proof (el_last (firstn (nx s2) A2) (bk s2) q Hq) as H.
        destruct (el (firstn (nx s2) A2) (bk s2) q) as [[ret bo] nu']. cbn [snd] in H. subst nu'. destruct (r_indep ret); reflexivity.
      - destruct (Nat.eqb_spec (nx s2) 0) as [Z|Z]; [reflexivity|].
        pose proof (el_last (firstn (nx s2) A2) (bk s2) q Hq) as H.
        destruct (el (firstn (nx s2) A2) (bk s2) q) as [[ret bo] nu']. cbn [snd] in H. subst nu'. reflexivity.
    Qed.

    Lemma run2_last : forall Q q s2, length q = N_order - 1 -> nx (run A2 (Q ++ [q]) s2) = 0.
    Proof.
      intros Q q s2 Hq. unfold run. rewrite fold_left_app. cbn [fold_left]. apply step2_last; assumption.
    Qed.

    (* ---- RevealBefore over A1 ++ A2 is RevealBefore over A1 followed by RevealBefore over A2 -------------------------- *)
    Lemma chain_map_app : forall P k, chain N_order k P -> Forall (fun p => length p + a1 <= N_order - 1) P ->
      chain N_order (k + a1) (map (fun p => p ++ A1) P).
    Proof.
      induction P as [|p P IH]; intros k HC HF; [exact I|]. cbn [map chain]. destruct HC as [H1 [H2 H3]]. inversion HF as [|? ? F1 F2]. subst.
      rewrite app_length. fold a1. split; [lia|]. split; [lia|]. replace (S (k + a1)) with (S k + a1) by lia. apply IH; assumption.
    Qed.
    Lemma chain_last_len : forall P k p, chain N_order k (P ++ [p]) -> length p = k + length P + 1.
    Proof.
      induction P as [|q P IH]; intros k p H; cbn [app chain length] in *; [lia|]. destruct H as [_ [_ H]]. rewrite (IH _ _ H). lia.
    Qed.


    Lemma Rel_sums : forall s s1 s2, Rel s s1 s2 -> W1inv s1 ->
      (aj s + sum_bo (firstn (nx s) (bk s)))%Z =
      (aj s1 + sum_bo (firstn (nx s1) (bk s1)) + (aj s2 + sum_bo (firstn (nx s2) (bk s2))))%Z /\ wr s = wr s2.
    Proof.
      intros s s1 s2 HR HI. inversion HR as [M0 M1 M2 X0 X1 X2 HW HJ HL HBk | M0 M1 M2 X1 X0 X2 HW HJ HL HBk | M0 M1 X0 X1 HW HJ HBk].
      - split; [|exact HW]. rewrite X0, HBk, X1, X2, sum_bo_app'. rewrite (firstn_all2 (n := a1) (bk s1)) by lia. lia.
      - split; [|exact HW]. rewrite HBk, X1, sum_bo_app'. rewrite (firstn_all2 (n := a1) (bk s1)) by lia. lia.
      - split; [|exact HW]. rewrite HBk. lia.
    Qed.

    Theorem rbf_two : forall B1 B2 l r s, length B1 = a1 -> length B2 = a2 -> BJ l r s -> s + a1 + a2 <= N_order - 1 ->
      let '(x1, l1, r1) := rbf A1 B1 l r in
      rbf (A1 ++ A2) (B1 ++ B2) l r = (let '(x2, l2, r2) := rbf A2 B2 l1 r1 in ((x1 + x2)%Z, l2, r2)) /\ BJ l1 r1 (s + a1).
    Proof.
      intros B1 B2 l r s HB1 HB2 [HG [Hsw Hopen]] Hu.
      pose proof a1_pos as Ha1. pose proof a2_pos as Ha2.
      unfold rbf. rewrite !xl_run. cbn zeta. rewrite app_length. fold a1 a2.
      set (P := l_ptrs l) in *.
      set (s0 := {| md := true; wr := []; aj := 0%Z; nx := a1 + a2; bk := firstn (a1 + a2) (B1 ++ B2) |}).
      set (s10 := {| md := true; wr := []; aj := 0%Z; nx := a1; bk := firstn a1 B1 |}).
      assert (R0 : Rel s0 s10 {| md := true; wr := []; aj := 0%Z; nx := a2; bk := firstn a2 B2 |}).
      { apply RelA; cbn [md nx wr aj bk]; try reflexivity.
        - unfold s10. cbn [bk]. rewrite firstn_length. lia.
        - unfold s0, s10. cbn [bk]. rewrite firstn_firstn, Nat.min_id. rewrite (firstn_all2 (n := a1) B1) by lia.
          rewrite !(firstn_all2 (n := a2) B2) by lia. apply firstn_all2. rewrite app_length. lia. }
      pose proof (Rel_run P _ _ _ HG R0) as HR.
      assert (I0 : W1inv s10) by (intros _; unfold s10; cbn [nx bk]; split; [reflexivity|rewrite firstn_length; lia]).
      destruct (run1_facts P s10 HG I0 ltac:(constructor)) as [I1 [G1 K1]].
      assert (HW1 : news P s10 = wr (run A1 P s10)) by (rewrite wr_run1; reflexivity). rewrite HW1 in HR.
      set (sf := run (A1 ++ A2) P s0) in *. set (s1f := run A1 P s10) in *.
      set (s2f := run A2 (wr s1f) {| md := true; wr := []; aj := 0%Z; nx := a2; bk := firstn a2 B2 |}) in *.
      cbn [x_adjust x_make_full x_next_use].
      destruct (l_full l) eqn:Ef.
      - (* the left state was complete before: back-offs are charged at once by all three calls *)
        cbn [l_ptrs l_full]. rewrite xl_run. cbn zeta. fold a2. fold s2f. cbn [x_adjust x_make_full x_next_use].
        destruct (Rel_sums _ _ _ HR I1) as [HS HW]. split.
        + rewrite HS, HW. reflexivity.
        + split; [exact G1|]. split; [exact Hsw|]. cbn [l_full]. discriminate.
      - destruct (Hopen eq_refl) as [HC HLen].
        assert (NeP : Forall (fun p : key => p <> []) P).
        { apply Forall_forall. intros p Hin. rewrite Forall_forall in HG. specialize (HG p Hin). unfold good' in HG. destruct p; [cbn in HG; lia|discriminate]. }
        assert (Bd1 : nx s1f <= a1 /\ nx s1f <= length (bk s1f)).
        { apply (run_bounds A1 P s10 NeP); unfold s10; cbn [nx bk]; [fold a1; lia|rewrite firstn_length; lia]. }
        assert (EA1 : firstn a1 A1 = A1) by apply firstn_all.
        (* what the first call leaves when it never stopped *)
        assert (Open1 : md s1f = true ->
                  wr s1f = map (fun p => p ++ A1) P /\ nx s1f = a1 /\ length (bk s1f) = a1 /\
                  Nat.eqb (length (wr s1f)) (N_order - 1) = false /\ chain N_order (s + a1) (wr s1f) /\
                  (Nat.eqb (length (s_words r ++ A1)) (N_order - 1) = true -> nx s2f = 0)).
        { intros M1. destruct (K1 M1) as [_ [HWr HFl]]. unfold s10 in HWr. cbn [wr app] in HWr. destruct (I1 M1) as [X1' HL'].
          split; [exact HWr|]. split; [exact X1'|]. split; [exact HL'|].
          assert (HPlen : length P = 0 \/ length P + s + a1 <= N_order - 1).
          { destruct (Nat.eq_dec (length P) 0) as [Z|Z]; [left; exact Z|]. right.
            assert (HPne : P <> []) by (intros E; rewrite E in Z; cbn in Z; lia).
            destruct (exists_last HPne) as [P' [pl EP]].
            rewrite EP in HC, HFl. pose proof (chain_last_len _ _ _ HC) as Hpl.
            apply Forall_app in HFl. destruct HFl as [_ HFl]. inversion HFl as [|? ? Hq _]. subst.
            rewrite EP, app_length. cbn [length]. lia. }
          split; [rewrite HWr, map_length; apply Nat.eqb_neq; unfold key in *; lia|].
          split; [rewrite HWr; apply chain_map_app; assumption|].
          intros Ec. apply Nat.eqb_eq in Ec. rewrite app_length in Ec. fold a1 in Ec.
          assert (HPne : P <> []) by (intros E; rewrite E in HLen; cbn [length] in HLen; lia).
          destruct (exists_last HPne) as [P' [pl EP]].
          rewrite EP in HC. pose proof (chain_last_len _ _ _ HC) as Hpl.
          assert (Hpl2 : length pl + a1 <= N_order - 1).
          { rewrite EP in HFl. apply Forall_app in HFl. destruct HFl as [_ HFl']. inversion HFl' as [|? ? Hq' _]. exact Hq'. }
          assert (Hq : length (pl ++ A1) = N_order - 1) by (rewrite app_length; fold a1; rewrite EP, app_length in HLen; cbn [length] in HLen; lia).
          unfold s2f. rewrite HWr, EP, map_app. cbn [map]. apply run2_last; exact Hq. }
        inversion HR as [M0 M1 M2 X0 X1 X2 HW HJ HL HBk | M0 M1 M2 X1 X0 X2 HW HJ HL HBk | M0 M1 X0 X1 HW HJ HBk].
        + (* nobody stopped *)
          destruct (Open1 M1) as [HWr [_ [_ [HnP [HCh Hlast]]]]].
          rewrite M1, M0, X1, X0, EA1. cbn [negb orb]. rewrite HnP. cbn [orb].
          destruct (Nat.eqb (length (s_words r ++ A1)) (N_order - 1)) eqn:Ec; [specialize (Hlast eq_refl); lia|].
          cbn [l_ptrs l_full s_words s_bo]. rewrite ?Ec. rewrite xl_run. cbn zeta. fold a2. fold s2f. cbn [x_adjust x_make_full x_next_use].
          rewrite M2, X2. cbn [negb orb].
          rewrite (firstn_app_exact _ A1 A2 a1 eq_refl a2), HBk, HW, HJ. rewrite (firstn_all2 (n := a1) (bk s1f)) by lia.
          rewrite !app_assoc. split; [reflexivity|].
          split; [exact G1|]. split; [cbn [s_bo s_words]; rewrite !app_length; lia|].
          cbn [l_full l_ptrs s_words]. intros _. split; [exact HCh|]. rewrite app_length, HWr, map_length. fold a1. unfold key in *. lia.
        + (* the single call and the second call stopped on the same pointer, the first call never stopped *)
          destruct (Open1 M1) as [HWr [_ [_ [HnP [HCh Hlast]]]]].
          rewrite M1, M0, X1, X0, EA1. cbn [negb orb]. rewrite HnP. cbn [orb].
          destruct (Nat.eqb (length (s_words r ++ A1)) (N_order - 1)) eqn:Ec.
          * (* ... and the right state is complete by its length: the last pointer has used up all context *)
            specialize (Hlast eq_refl).
            cbn [l_ptrs l_full s_words s_bo]. rewrite ?Ec. rewrite xl_run. cbn zeta. fold a2. fold s2f. cbn [x_adjust x_make_full x_next_use].
            rewrite X0, Hlast, Nat.add_0_r in HBk. cbn [firstn] in HBk. rewrite app_nil_r in HBk.
            rewrite Hlast, Nat.add_0_r. cbn [firstn].
            assert (EA0 : firstn a1 (A1 ++ A2) = A1) by (rewrite firstn_app; fold a1; rewrite Nat.sub_diag; cbn [firstn]; rewrite app_nil_r; apply firstn_all).
            rewrite EA0, HBk, HW, HJ.
            rewrite (firstn_all2 (n := a1) (bk s1f)) by lia. unfold sum_bo at 1. cbn [fold_right].
            split; [f_equal; f_equal; lia|].
            split; [exact G1|]. split; [cbn [s_bo s_words]; rewrite !app_length; lia|]. cbn [l_full]. discriminate.
          * cbn [l_ptrs l_full s_words s_bo]. rewrite ?Ec. rewrite xl_run. cbn zeta. fold a2. fold s2f. cbn [x_adjust x_make_full x_next_use].
            rewrite M2. cbn [negb orb].
            rewrite X0 in HBk. rewrite (firstn_app_exact _ A1 A2 a1 eq_refl (nx s2f)), HBk, HW, HJ. rewrite (firstn_all2 (n := a1) (bk s1f)) by lia.
            rewrite !app_assoc. split; [reflexivity|].
            split; [exact G1|]. split; [cbn [s_bo s_words]; rewrite !app_length; lia|].
            cbn [l_full l_ptrs s_words]. intros _. split; [exact HCh|]. rewrite app_length, HWr, map_length. fold a1. unfold key in *. lia.
        + (* the first call stopped *)
          rewrite M1, M0. cbn [negb orb l_ptrs l_full]. rewrite xl_run. cbn zeta. fold a2. fold s2f. cbn [x_adjust x_make_full x_next_use].
          assert (EA : firstn (nx sf) (A1 ++ A2) = firstn (nx s1f) A1).
          { rewrite X0. rewrite firstn_app. fold a1. replace (nx s1f - a1) with 0 by lia. cbn [firstn]. apply app_nil_r. }
          rewrite EA, HBk, HW, HJ. split.
          * f_equal. f_equal. lia.
          * split; [exact G1|]. split; [|cbn [l_full]; discriminate]. cbn [s_bo s_words]. rewrite !app_length, !firstn_length. fold a1. lia.
    Qed.


    (* ---- a RevealBefore instalment and a RevealAfter instalment on the same fragment commute ---------------------------------
       (A1 = the fragment's right-state words, the context RevealAfter walks with; A2 = the words RevealBefore adds.)
       RevealAfter first: the following fragment's pointers are extended by A1 and appended, then RevealBefore extends them by A2.
       RevealBefore first: A2 is appended to the right state, then RevealAfter extends the pointers by A1 ++ A2 in one go.
       That is the single call / first call / second call situation again, the second call starting from the loop state
       RevealBefore has reached after the fragment's own pointers. *)
    Definition unshift (W0 : list key) (J0 : Z) (s : st) : st :=
      {| md := md s; wr := skipn (length W0) (wr s); aj := (aj s - J0)%Z; nx := nx s; bk := bk s |}.

    Lemma skipn_app_exact : forall (X : Type) (l1 l2 : list X), skipn (length l1) (l1 ++ l2) = l2.
    Proof. intros. rewrite skipn_app, skipn_all, Nat.sub_diag. reflexivity. Qed.

    Lemma stepf_unshift : forall add W0 J0 s q w, wr s = W0 ++ w ->
      stepf add (unshift W0 J0 s) q = unshift W0 J0 (stepf add s q) /\ exists w', wr (stepf add s q) = W0 ++ w'.
    Proof.
      intros add W0 J0 s q w Hw. unfold stepf, unshift. cbn [md nx bk wr aj]. rewrite Hw, skipn_app_exact.
      destruct (md s).
      - destruct (el (firstn (nx s) add) (bk s) q) as [[ret bo] nu']. destruct (r_indep ret); cbn [md nx bk wr aj].
        + split; [rewrite skipn_app_exact; f_equal; lia|exists w; reflexivity].
        + split; [rewrite <- app_assoc, skipn_app_exact; f_equal; lia|exists (w ++ [r_ext ret]); rewrite app_assoc; reflexivity].
      - destruct (Nat.eqb (nx s) 0); cbn [md nx bk wr aj].
        + split; [rewrite skipn_app_exact; f_equal; lia|exists w; reflexivity].
        + destruct (el (firstn (nx s) add) (bk s) q) as [[ret bo] nu']. cbn [md nx bk wr aj].
          split; [rewrite skipn_app_exact; f_equal; lia|exists w; reflexivity].
    Qed.

    Lemma run_unshift : forall add Q W0 J0 s w, wr s = W0 ++ w ->
      run add Q (unshift W0 J0 s) = unshift W0 J0 (run add Q s) /\ exists w', wr (run add Q s) = W0 ++ w'.
    Proof.
      intros add Q. induction Q as [|q Q IH]; intros W0 J0 s w Hw; [rewrite !run_nil; split; [reflexivity|exists w; exact Hw]|].
      rewrite !run_cons. destruct (stepf_unshift add W0 J0 s q w Hw) as [E [w' Hw']]. rewrite E. apply (IH W0 J0 _ w' Hw').
    Qed.

    (* in its second loop ExtendLoop looks only at the first next_use words of the context *)
    Lemma run_add_full : forall add n0 P s, Forall (fun p : key => p <> []) P -> md s = false -> nx s <= n0 ->
      run (firstn n0 add) P s = run add P s.
    Proof.
      intros add n0 P. induction P as [|p P IH]; intros s HP Hm Hn; [reflexivity|]. inversion HP as [|? ? Hp HP']. subst.
      rewrite !run_cons.
      assert (E : stepf (firstn n0 add) s p = stepf add s p).
      { unfold stepf. rewrite Hm. destruct (Nat.eqb (nx s) 0); [reflexivity|].
        rewrite firstn_firstn. replace (Nat.min (nx s) n0) with (nx s) by lia. reflexivity. }
      rewrite E. apply IH; [exact HP'| |].
      - unfold stepf. rewrite Hm. destruct (Nat.eqb (nx s) 0); [reflexivity|].
        destruct (el (firstn (nx s) add) (bk s) p) as [[ret bo] nu']. reflexivity.
      - unfold stepf. rewrite Hm. destruct (Nat.eqb_spec (nx s) 0) as [Z|Z]; [cbn [nx]; lia|].
        destruct (el (firstn (nx s) add) (bk s) p) as [[ret bo] nu'] eqn:E1.
        destruct (extend_left_bounds N_order Hord T _ _ _ _ _ _ Hp E1) as [Q1 _]. rewrite firstn_length in Q1. cbn [nx]. lia.
    Qed.

  End Sim.


  (* ---- a RevealBefore instalment and a RevealAfter instalment on the same fragment commute ------------------------------------
     (A1 = the fragment's right-state words, the context RevealAfter walks with; A2 = the words RevealBefore adds.)
     RevealAfter first: the following fragment's pointers are extended by A1 and appended, then RevealBefore extends them by A2.
     RevealBefore first: A2 is appended to the right state, then RevealAfter extends the pointers by A1 ++ A2 in one go.
     That is the single call / first call / second call situation again, the second call starting from the loop state
     RevealBefore has reached after the fragment's own pointers. *)
  Section Commute.
    Variables A1 A2 : list word.
    Hypothesis HA1 : A1 <> [].
    Hypothesis HA2 : A2 <> [].
    Let a1 := length A1.
    Let a2 := length A2.

    Lemma commute_open : forall B2 l r Q sb sa, s_words r = A1 -> length B2 = a2 -> l_full l = false ->
      BJ l r sb -> J l r sa -> chain N_order sa Q -> sb + a2 <= N_order - 1 ->
      let '(x1, l1, r1) := rbf A2 B2 l r in
      let '(x2, l2, r2) := ra N_order T dr l1 r1 Q in
      let '(y1, l1', r1') := ra N_order T dr l r Q in
      let '(y2, l2', r2') := rbf A2 B2 l1' r1' in
      (x1 + x2)%Z = (y1 + y2)%Z /\ l2 = l2' /\ r2 = r2'.
    Proof.
      intros B2 l r Q sb sa Hr HB2 Ef [HG [Hsw Hopen]] [_ HJ] HCQ Hu.
      pose proof (a1_pos A1 A2 HA1) as Ha1. pose proof (a1_pos A2 A1 HA2) as Ha2. fold a1 in Ha1. fold a2 in Ha2.
      destruct (Hopen Ef) as [HC HLen]. specialize (HJ Ef). rewrite Hr in HLen, HJ, Hsw. fold a1 in HLen, HJ, Hsw.
      set (P := l_ptrs l) in *.
      assert (NeP : Forall (fun p : key => p <> []) P).
      { apply Forall_forall. intros p Hin. rewrite Forall_forall in HG. specialize (HG p Hin). unfold good' in HG. destruct p; [cbn in HG; lia|discriminate]. }
      pose proof (chain_good _ _ HCQ) as GQ.
      assert (NeQ : Forall (fun p : key => p <> []) Q).
      { apply Forall_forall. intros p Hin. rewrite Forall_forall in GQ. specialize (GQ p Hin). unfold good' in GQ. destruct p; [cbn in GQ; lia|discriminate]. }
      set (s20 := {| md := true; wr := []; aj := 0%Z; nx := a2; bk := firstn a2 B2 |}).
      set (s10 := {| md := true; wr := []; aj := 0%Z; nx := a1; bk := firstn a1 (s_bo r) |}).
      set (s2P := run A2 P s20).
      set (s1f := run A1 Q s10).
      set (s2f := run A2 (wr s1f) s2P).
      (* facts about RevealBefore's loop over the fragment's own pointers *)
      assert (I20 : W1inv A2 s20) by (intros _; unfold s20; cbn [nx bk]; split; [reflexivity|rewrite firstn_length; fold a2; lia]).
      destruct (run1_facts A2 A1 HA2 P s20 HG I20 ltac:(constructor)) as [I2P [G2P K2P]]. fold s2P in I2P, G2P, K2P.
      assert (Bd2P : nx s2P <= a2 /\ nx s2P <= length (bk s2P)).
      { apply (run_bounds A2 P s20 NeP); unfold s20; cbn [nx bk]; [fold a2; lia|rewrite firstn_length; lia]. }
      (* facts about RevealAfter's loop over the following fragment's pointers *)
      assert (I10 : W1inv A1 s10) by (intros _; unfold s10; cbn [nx bk]; split; [reflexivity|rewrite firstn_length; fold a1; lia]).
      destruct (run1_facts A1 A2 HA1 Q s10 GQ I10 ltac:(constructor)) as [I1f [G1f K1f]]. fold s1f in I1f, G1f, K1f.
      assert (Bd1f : nx s1f <= a1 /\ nx s1f <= length (bk s1f)).
      { apply (run_bounds A1 Q s10 NeQ); unfold s10; cbn [nx bk]; [fold a1; lia|rewrite firstn_length; lia]. }
      (* the longest pointer of P, when it has length N-1, uses up all context *)
      assert (LastP : forall P' pl, P = P' ++ [pl] -> length pl = N_order - 1 -> nx s2P = 0).
      { intros P' pl EP Hl. unfold s2P. rewrite EP. apply (run2_last A1 A2). exact Hl. }
      (* Fact 1: while RevealBefore's loop has not stopped it cannot have written N-1 pointers *)
      assert (Fact1 : md s2P = true -> Nat.eqb (length (wr s2P)) (N_order - 1) = false).
      { intros M2. destruct (K2P M2) as [_ [HW HF]]. unfold s20 in HW. cbn [wr app] in HW. rewrite HW, map_length. apply Nat.eqb_neq.
        destruct (Nat.eq_dec (length P) 0) as [Z|Z]; [unfold key in *; lia|].
        assert (HPne : P <> []) by (intros E; rewrite E in Z; cbn in Z; lia).
        destruct (exists_last HPne) as [P' [pl EP]]. rewrite EP in HC, HF.
        pose proof (chain_last_len A1 A2 _ _ _ HC) as Hpl.
        apply Forall_app in HF. destruct HF as [_ HF]. inversion HF as [|? ? Hq _]. fold a2 in Hq.
        rewrite EP, app_length. cbn [length]. unfold key in *. lia. }
      (* Fact 2: when RevealAfter's loop has not stopped but its left state is complete by the counts, the second call ends with no context in use *)
      assert (Fact2 : md s1f = true -> orb (Nat.eqb (nx s1f) (N_order - 1)) (Nat.eqb (length (P ++ wr s1f)) (N_order - 1)) = true -> nx s2f = 0).
      { intros M1 Hc. destruct (K1f M1) as [_ [HW HF]]. unfold s10 in HW. cbn [wr app] in HW. destruct (I1f M1) as [X1 _]. fold a1 in HF.
        destruct (Nat.eq_dec (length Q) 0) as [Z|Z].
        - assert (EQ : Q = []) by (destruct Q; [reflexivity|cbn in Z; lia]).
          assert (Es2 : s2f = s2P) by (unfold s2f; rewrite HW, EQ; reflexivity). rewrite Es2.
          assert (HPl : N_order - 1 <= length P + sb).
          { apply orb_true_iff in Hc. destruct Hc as [Hc|Hc]; apply Nat.eqb_eq in Hc.
            - rewrite X1 in Hc. unfold key in *. lia.
            - rewrite HW, EQ in Hc. cbn [map] in Hc. rewrite app_nil_r in Hc. unfold key in *. lia. }
          assert (HPne : P <> []) by (intros E; rewrite E in HPl; cbn [length] in HPl; lia).
          destruct (exists_last HPne) as [P' [pl EP]]. rewrite EP in HC. pose proof (chain_last_len A1 A2 _ _ _ HC) as Hpl.
          assert (Hgl : good' pl) by (rewrite Forall_forall in HG; apply HG; rewrite EP; apply in_or_app; right; left; reflexivity).
          apply (LastP P' pl EP). unfold good' in Hgl. rewrite EP, app_length in HPl. cbn [length] in HPl. unfold key in *. lia.
        - assert (HQne : Q <> []) by (intros E; rewrite E in Z; cbn in Z; lia).
          destruct (exists_last HQne) as [Q' [ql EQ]]. rewrite EQ in HCQ, HF. pose proof (chain_last_len A1 A2 _ _ _ HCQ) as Hql.
          apply Forall_app in HF. destruct HF as [_ HF]. inversion HF as [|? ? Hq _].
          assert (Hlen : length (ql ++ A1) = N_order - 1).
          { rewrite app_length. fold a1. apply orb_true_iff in Hc. destruct Hc as [Hc|Hc]; apply Nat.eqb_eq in Hc.
            - rewrite X1 in Hc. assert (1 <= length ql) by lia. lia.
            - rewrite HW, app_length, map_length, EQ, app_length in Hc. cbn [length] in Hc. unfold key in *. lia. }
          unfold s2f. rewrite HW, EQ, map_app. cbn [map]. apply (run2_last A1 A2). exact Hlen. }
      (* unfold the four calls *)
      unfold rbf at 1. rewrite xl_run. cbn zeta. fold a2 P s20 s2P. rewrite Ef. cbn [x_adjust x_make_full x_next_use].
      rewrite (ra_unfold N_order T dr l r Q). rewrite Ef. cbn [negb]. rewrite xl_run. cbn zeta. rewrite Hr. fold a1 s10 s1f.
      cbn [x_adjust x_make_full x_next_use].
      unfold rbf. rewrite xl_run. cbn zeta. cbn [l_ptrs l_full s_words s_bo]. fold a2 s20. fold P.
      assert (E2f : run A2 (P ++ wr s1f) s20 = s2f) by (unfold s2f, s2P, run; rewrite fold_left_app; reflexivity).
      rewrite E2f. cbn [x_adjust x_make_full x_next_use].
      rewrite ra_unfold. cbn [l_ptrs l_full s_words s_bo].
      set (add' := A1 ++ firstn (nx s2P) A2).
      set (bs' := s_bo r ++ firstn (nx s2P) (bk s2P)).
      assert (Ladd : length add' = a1 + nx s2P) by (unfold add'; rewrite app_length, firstn_length; fold a1 a2; lia).
      assert (Lbs : length bs' = a1 + nx s2P) by (unfold bs'; rewrite app_length, firstn_length; lia).
      set (FB := orb (orb (negb (md s2P)) (Nat.eqb (length (wr s2P)) (N_order - 1))) (Nat.eqb (length add') (N_order - 1))).
      set (FA := orb (orb (negb (md s1f)) (Nat.eqb (nx s1f) (N_order - 1))) (Nat.eqb (length (P ++ wr s1f)) (N_order - 1))).
      assert (Ebs10 : bk s10 = s_bo r) by (unfold s10; cbn [bk]; apply firstn_all2; lia).
      destruct Q as [|q0 Q0].
      - (* nothing to reveal on the right: both orders do the same RevealBefore *)
        assert (Es1 : s1f = s10) by reflexivity.
        assert (Es2 : s2f = s2P) by (unfold s2f; rewrite Es1; reflexivity).
        rewrite Es2, Es1. unfold FA. rewrite Es1. change (nx s10) with a1. change (md s10) with true. change (wr s10) with (@nil key).
        rewrite app_nil_r. cbn [negb orb].
        assert (EX : forall wflag, extend_loop N_order T dr add' bs' [] wflag =
                       ({| x_adjust := 0%Z; x_make_full := false; x_next_use := length add' |}, [], bs')).
        { intros [|]; unfold extend_loop; cbn [ext_write ext_full]; rewrite (unr_nil'' T dr);
            rewrite firstn_firstn, Nat.min_id, firstn_all2 by lia; reflexivity. }
        rewrite EX. cbn [x_adjust x_make_full x_next_use orb]. rewrite firstn_all, app_nil_r.
        rewrite (firstn_all2 (n := a1) A1) by (fold a1; lia). rewrite Ebs10. rewrite (firstn_all2 (n := a1) (s_bo r)) by lia.
        fold add' bs'. change (aj s10) with 0%Z.
        destruct (orb (Nat.eqb a1 (N_order - 1)) (Nat.eqb (length P) (N_order - 1))) eqn:EFA.
        + assert (Hz : nx s2P = 0).
          { rewrite <- Es2. apply Fact2; [reflexivity|]. rewrite Es1. unfold s10. cbn [nx wr]. rewrite app_nil_r. exact EFA. }
          assert (Eadd : add' = A1) by (unfold add'; rewrite Hz; cbn [firstn]; apply app_nil_r).
          assert (Ebs : bs' = s_bo r) by (unfold bs'; rewrite Hz; cbn [firstn]; apply app_nil_r).
          assert (HFB : FB = true).
          { unfold FB. rewrite Eadd. fold a1. apply orb_true_iff in EFA. destruct EFA as [E|E]; [rewrite E; apply orb_true_r|].
            destruct (md s2P) eqn:M2; [|reflexivity]. exfalso.
            pose proof (Fact1 eq_refl) as F1. destruct (K2P eq_refl) as [_ [HW _]]. unfold s20 in HW. cbn [wr app] in HW.
            rewrite HW, map_length in F1. unfold key in *. rewrite E in F1. discriminate. }
          rewrite HFB, Hz, Eadd, Ebs. cbn [firstn]. unfold sum_bo. cbn [fold_right].
          split; [lia|]. split; reflexivity.
        + fold add'. fold FB. split; [lia|]. split; [|reflexivity].
          destruct FB eqn:HFB; [reflexivity|].
          unfold FB in HFB. apply orb_false_iff in HFB. destruct HFB as [HFB1 HFB2]. apply orb_false_iff in HFB1. destruct HFB1 as [_ HFB1].
          rewrite HFB1, HFB2. reflexivity.
      - set (Qn := q0 :: Q0) in *.
        assert (Gq0 : good' q0) by (inversion GQ; assumption).
        assert (Nq0 : q0 <> []) by (inversion NeQ; assumption).
        assert (Enews : news A1 Qn s10 = wr s1f) by (unfold s1f; rewrite wr_run1; reflexivity).
        set (U0 := unshift (wr s2P) (aj s2P) s2P).
        set (Uf := unshift (wr s2P) (aj s2P) s2f).
        destruct (run_unshift A1 A2 A2 (wr s1f) (wr s2P) (aj s2P) s2P [] ltac:(rewrite app_nil_r; reflexivity)) as [EUf [w2 Hw2]].
        fold s2f U0 Uf in EUf, Hw2.
        assert (FldU : md Uf = md s2f /\ nx Uf = nx s2f /\ bk Uf = bk s2f /\ wr Uf = w2 /\ aj Uf = (aj s2f - aj s2P)%Z).
        { unfold Uf, unshift. cbn [md nx bk wr aj]. rewrite Hw2, skipn_app_exact. repeat split. }
        destruct FldU as [UM [UX [UB [UW UJ]]]].
        (* the single call: its final loop state sf, related to the two other calls *)
        assert (SF : exists sf, Rel A1 A2 sf s1f Uf /\
                      (FB = false -> extend_loop N_order T dr add' bs' Qn true =
                                     ({| x_adjust := aj sf; x_make_full := negb (md sf); x_next_use := nx sf |}, wr sf, firstn (nx sf) (bk sf))) /\
                      (FB = true -> extend_loop N_order T dr add' bs' Qn false =
                                     ({| x_adjust := aj sf; x_make_full := false; x_next_use := nx sf |}, [], firstn (nx sf) (bk sf)) /\
                                    md sf = false /\ wr sf = [])).
        { destruct (md s2P) eqn:M2.
          - destruct (I2P M2) as [X2 HL2].
            assert (Eadd : add' = A1 ++ A2) by (unfold add'; rewrite X2; apply f_equal; apply firstn_all).
            assert (Ebs : bs' = s_bo r ++ bk s2P) by (unfold bs'; rewrite X2, firstn_all2 by lia; reflexivity).
            set (s0w := {| md := true; wr := []; aj := 0%Z; nx := a1 + a2; bk := firstn (a1 + a2) bs' |}).
            assert (R0 : Rel A1 A2 s0w s10 U0).
            { apply RelA; unfold s0w, s10, U0, unshift; cbn [md nx wr aj bk]; fold a1 a2; try reflexivity; try assumption.
              - rewrite skipn_all. reflexivity.
              - lia.
              - rewrite firstn_length. lia.
              - rewrite firstn_firstn, Nat.min_id, Ebs. rewrite (firstn_all2 (n := a1) (s_bo r)) by lia.
                rewrite (firstn_all2 (n := a2) (bk s2P)) by lia. apply firstn_all2. rewrite app_length. lia. }
            pose proof (Rel_run A1 A2 HA1 HA2 Qn s0w s10 U0 GQ R0) as HR. rewrite Enews, EUf in HR. fold s1f in HR.
            exists (run (A1 ++ A2) Qn s0w). split; [exact HR|].
            assert (Ladd2 : length add' = a1 + a2) by (rewrite Ladd, X2; reflexivity).
            split.
            + intros _. rewrite xl_run. cbn zeta. rewrite Ladd2, Eadd. reflexivity.
            + intros HFB. rewrite xl_run_full. cbn zeta. rewrite Ladd2.
              assert (Hsum : a1 + a2 = N_order - 1).
              { unfold FB in HFB. rewrite (Fact1 eq_refl), Ladd2 in HFB. cbn [negb orb] in HFB. apply Nat.eqb_eq in HFB. exact HFB. }
              set (s0f := {| md := false; wr := []; aj := 0%Z; nx := a1 + a2; bk := firstn (a1 + a2) bs' |}).
              assert (Eirr : run (A1 ++ A2) Qn s0w = run (A1 ++ A2) Qn s0f).
              { unfold Qn. apply (run_mode_irrelevant (A1 ++ A2) q0 Q0 s0w Nq0); unfold good' in Gq0; rewrite ?app_length; fold a1 a2; unfold s0w; cbn [nx]; lia. }
              rewrite Eadd. fold s0f. rewrite <- Eirr.
              destruct (run_full_mode (A1 ++ A2) Qn s0f NeQ eq_refl) as [F1 [F2 _]]. rewrite <- Eirr in F1, F2.
              split; [reflexivity|]. split; [exact F1|exact F2].
          - set (s0 := {| md := false; wr := []; aj := 0%Z; nx := a1 + nx s2P; bk := firstn (a1 + nx s2P) bs' |}).
            assert (R0 : Rel A1 A2 s0 s10 U0).
            { apply RelB; unfold s0, s10, U0, unshift; cbn [md nx wr aj bk]; fold a1 a2; try reflexivity; try assumption; try lia.
              - rewrite skipn_all. reflexivity.
              - rewrite firstn_length. lia.
              - rewrite firstn_firstn, Nat.min_id. unfold bs'. rewrite (firstn_all2 (n := a1) (s_bo r)) by lia.
                rewrite firstn_app, Hsw. replace (a1 + nx s2P - a1) with (nx s2P) by lia. rewrite firstn_firstn, Nat.min_id.
                rewrite (firstn_all2 (n := a1 + nx s2P) (s_bo r)) by lia. reflexivity. }
            pose proof (Rel_run A1 A2 HA1 HA2 Qn s0 s10 U0 GQ R0) as HR. rewrite Enews, EUf in HR. fold s1f in HR.
            exists (run (A1 ++ A2) Qn s0). split; [exact HR|].
            assert (HFB : FB = true) by (unfold FB; reflexivity).
            split; [intros E; congruence|]. intros _.
            rewrite xl_run_full. cbn zeta. rewrite Ladd. fold s0.
            assert (Eadd : add' = firstn (a1 + nx s2P) (A1 ++ A2)).
            { unfold add'. rewrite (firstn_app_exact A1 A2 _ A1 A2 a1 eq_refl (nx s2P)). reflexivity. }
            rewrite Eadd. rewrite (run_add_full A1 A2 (A1 ++ A2) (a1 + nx s2P) Qn s0 NeQ eq_refl ltac:(unfold s0; cbn [nx]; lia)).
            destruct (run_full_mode (A1 ++ A2) Qn s0 NeQ eq_refl) as [F1 [F2 _]].
            split; [reflexivity|]. split; [exact F1|exact F2]. }
        destruct SF as [sf [HRel [SFw SFf]]].
        assert (Bn : nx s2f <= nx s2P).
        { destruct (md s2P) eqn:M2.
          - destruct (I2P M2) as [X2 _]. rewrite X2.
            apply (run_bounds A2 (wr s1f) s2P); [|lia|lia].
            apply Forall_forall. intros p Hin. rewrite Forall_forall in G1f. specialize (G1f p Hin). unfold good in G1f. destruct p; [cbn in G1f; lia|discriminate].
          - apply (run_full_mode A2 (wr s1f) s2P); [|exact M2].
            apply Forall_forall. intros p Hin. rewrite Forall_forall in G1f. specialize (G1f p Hin). unfold good in G1f. destruct p; [cbn in G1f; lia|discriminate]. }
        assert (Efa1 : forall n, n <= nx s2P -> firstn (a1 + n) add' = A1 ++ firstn n A2).
        { intros n Hn. unfold add'. rewrite (firstn_app_exact A1 A2 _ A1 (firstn (nx s2P) A2) a1 eq_refl n).
          rewrite firstn_firstn. replace (Nat.min n (nx s2P)) with n by lia. reflexivity. }
        assert (Efa0 : forall n, n <= a1 -> firstn n add' = firstn n A1).
        { intros n Hn. unfold add'. rewrite firstn_app. fold a1. replace (n - a1) with 0 by lia. cbn [firstn]. apply app_nil_r. }
        assert (EA1 : firstn a1 A1 = A1) by apply firstn_all.
        change (aj s10) with 0%Z.
        inversion HRel as [M0 M1 M2 X0 X1 X2 HW HJJ HL HBk | M0 M1 M2 X1 X0 X2 HW HJJ HL HBk | M0 M1 X0 X1 HW HJJ HBk];
          rewrite ?UM, ?UX, ?UB, ?UW, ?UJ in *.
        + (* nobody stopped *)
          fold a1 a2 in HBk, X0, X1, X2, HL.
          destruct FB eqn:HFB; [destruct (SFf eq_refl) as [_ [Msf _]]; congruence|].
          cbn [negb]. rewrite (SFw eq_refl). cbn [negb x_adjust x_make_full x_next_use].
          unfold FA. rewrite M1, X1. fold a1. cbn [negb orb].
          destruct (orb (Nat.eqb a1 (N_order - 1)) (Nat.eqb (length (P ++ wr s1f)) (N_order - 1))) eqn:EFA.
          * exfalso. assert (nx s2f = 0) by (apply Fact2; [exact M1|rewrite X1; exact EFA]). lia.
          * assert (Em2 : nx s2P = a2) by lia.
            rewrite M0, M2, X0, X2, HW, Hw2, HJJ. fold a1 a2. rewrite (Efa1 a2) by lia. rewrite HBk, EA1.
            rewrite (firstn_all2 (n := a1) (bk s1f)) by lia. cbn [negb orb].
            split; [lia|]. split; [|reflexivity].
            f_equal. rewrite !app_length, !firstn_length. fold a2. replace (Nat.min a2 a2) with a2 by lia.
            apply orb_comm.
        + (* the single call and the second call stopped, the first call did not *)
          fold a1 a2 in HBk, X0, X1, X2, HL. rewrite X0 in HBk.
          unfold FA. rewrite M1, X1. fold a1. cbn [negb orb].
          destruct (orb (Nat.eqb a1 (N_order - 1)) (Nat.eqb (length (P ++ wr s1f)) (N_order - 1))) eqn:EFA.
          * assert (Hz : nx s2f = 0) by (apply Fact2; [exact M1|rewrite X1; exact EFA]).
            rewrite Hz in *. rewrite Nat.add_0_r in X0, HBk. cbn [firstn] in *. rewrite app_nil_r in HBk.
            destruct FB eqn:HFB.
            -- destruct (SFf eq_refl) as [EX [Msf Wsf]]. cbn [negb]. rewrite EX. cbn [negb x_adjust x_make_full x_next_use].
               rewrite X0. fold a1. rewrite (Efa0 a1) by lia. rewrite EA1, HBk. rewrite (firstn_all2 (n := a1) (bk s1f)) by lia.
               rewrite Wsf in HW. rewrite Hw2, <- HW, app_nil_r. unfold sum_bo. cbn [fold_right].
               split; [lia|]. split; reflexivity.
            -- cbn [negb]. rewrite (SFw eq_refl). cbn [negb x_adjust x_make_full x_next_use]. rewrite M0. cbn [negb orb].
               rewrite X0. fold a1. rewrite (Efa0 a1) by lia. rewrite EA1, HBk. rewrite (firstn_all2 (n := a1) (bk s1f)) by lia.
               rewrite HW, <- Hw2. unfold sum_bo. cbn [fold_right].
               split; [lia|]. split; reflexivity.
          * rewrite M2. cbn [negb orb].
            destruct FB eqn:HFB.
            -- destruct (SFf eq_refl) as [EX [Msf Wsf]]. cbn [negb]. rewrite EX. cbn [negb x_adjust x_make_full x_next_use].
               rewrite X0. fold a1. rewrite (Efa1 (nx s2f) Bn), HBk, EA1. rewrite (firstn_all2 (n := a1) (bk s1f)) by lia.
               rewrite Wsf in HW. rewrite Hw2, <- HW, app_nil_r.
               split; [lia|]. split; reflexivity.
            -- cbn [negb]. rewrite (SFw eq_refl). cbn [negb x_adjust x_make_full x_next_use]. rewrite M0. cbn [negb orb].
               rewrite X0. fold a1. rewrite (Efa1 (nx s2f) Bn), HBk, EA1. rewrite (firstn_all2 (n := a1) (bk s1f)) by lia.
               rewrite HW, <- Hw2.
               split; [lia|]. split; reflexivity.
        + (* the first call stopped *)
          fold a1 a2 in HBk, X0, X1. rewrite X0 in HBk.
          unfold FA. rewrite M1. cbn [negb orb].
          destruct FB eqn:HFB.
          * destruct (SFf eq_refl) as [EX [Msf Wsf]]. cbn [negb]. rewrite EX. cbn [negb x_adjust x_make_full x_next_use].
            rewrite X0, (Efa0 (nx s1f)) by lia. rewrite HBk.
            rewrite Wsf in HW. rewrite Hw2, <- HW, app_nil_r.
            split; [lia|]. split; reflexivity.
          * cbn [negb]. rewrite (SFw eq_refl). cbn [negb x_adjust x_make_full x_next_use]. rewrite M0. cbn [negb orb].
            rewrite X0, (Efa0 (nx s1f)) by lia. rewrite HBk.
            rewrite HW, <- Hw2.
            split; [lia|]. split; reflexivity.
    Qed.
  End Commute.


  (* ---- the joint invariant of a fragment with sb words revealed on its left and sa pointers on its right ------------------- *)
  Definition K (l : left) (r : state) (sb sa : nat) : Prop :=
    Forall good' (l_ptrs l) /\ length (s_bo r) = length (s_words r) /\
    (l_full l = false -> chain N_order sb (l_ptrs l) /\ length (s_words r) + sa = length (l_ptrs l) + sb /\ s_words r <> []).

  Lemma K_BJ : forall l r sb sa, K l r sb sa -> BJ l r sb.
  Proof. intros l r sb sa [H1 [H2 H3]]. split; [exact H1|]. split; [exact H2|]. intros Hf. destruct (H3 Hf) as [C [E _]]. split; [exact C|lia]. Qed.
  Lemma K_J : forall l r sb sa, K l r sb sa -> J l r sa.
  Proof. intros l r sb sa [H1 [H2 H3]]. split; [exact H2|]. intros Hf. destruct (H3 Hf) as [_ [E _]]. lia. Qed.

  Lemma chain_app_intro : forall P Q k, chain N_order k P -> chain N_order (k + length P) Q -> chain N_order k (P ++ Q).
  Proof.
    induction P as [|p P IH]; intros Q k HP HQ; cbn [app length] in *; [rewrite Nat.add_0_r in HQ; exact HQ|].
    destruct HP as [H1 [H2 H3]]. cbn [chain]. repeat split; try assumption. apply IH; [exact H3|].
    replace (S k + length P) with (k + S (length P)) by lia. exact HQ.
  Qed.

  Lemma good_ne : forall P, Forall good' P -> Forall (fun p : key => p <> []) P.
  Proof.
    intros P H. apply Forall_forall. intros p Hin. rewrite Forall_forall in H. specialize (H p Hin). unfold good' in H.
    destruct p; [cbn in H; lia|discriminate].
  Qed.

  (* RevealBefore keeps it *)
  Lemma rbf_K : forall A2 B2 l r sb sa, A2 <> [] -> length B2 = length A2 -> K l r sb sa ->
    let '(x, l1, r1) := rbf A2 B2 l r in K l1 r1 (sb + length A2) sa.
  Proof.
    intros A2 B2 l r sb sa HA2 HB2 [HG [Hsw Hopen]].
    unfold rbf. rewrite xl_run. cbn zeta.
    set (s20 := {| md := true; wr := []; aj := 0%Z; nx := length A2; bk := firstn (length A2) B2 |}).
    set (sf := run A2 (l_ptrs l) s20).
    assert (I20 : W1inv A2 s20) by (intros _; unfold s20; cbn [nx bk]; split; [reflexivity|rewrite firstn_length; lia]).
    destruct (run1_facts A2 A2 HA2 (l_ptrs l) s20 HG I20 ltac:(constructor)) as [If [Gf Kf]]. fold sf in If, Gf, Kf.
    destruct (run_bounds A2 (l_ptrs l) s20 (good_ne _ HG) ltac:(unfold s20; cbn [nx]; lia) ltac:(unfold s20; cbn [nx bk]; rewrite firstn_length; lia)) as [Bn1 Bn2].
    fold sf in Bn1, Bn2. cbn [x_adjust x_make_full x_next_use].
    destruct (l_full l) eqn:Ef.
    - split; [exact Gf|]. split; [exact Hsw|]. cbn [l_full]. discriminate.
    - destruct (Hopen eq_refl) as [HC [HE Hne]].
      split; [exact Gf|]. split; [cbn [s_bo s_words]; rewrite !app_length, !firstn_length; lia|].
      cbn [l_full l_ptrs s_words]. intros Hf. apply orb_false_iff in Hf. destruct Hf as [Hf _]. apply orb_false_iff in Hf. destruct Hf as [Hm _].
      apply negb_false_iff in Hm. destruct (Kf Hm) as [_ [HW HF]]. destruct (If Hm) as [X _].
      unfold s20 in HW. cbn [wr app] in HW. rewrite HW, X, firstn_all.
      split; [apply (chain_map_app A2 A2); assumption|]. split; [rewrite app_length, map_length; unfold key in *; lia|].
      intros Z. apply app_eq_nil in Z. destruct Z as [Z _]. exact (Hne Z).
  Qed.

  (* RevealAfter keeps it *)
  Lemma ra_K : forall l r Q sb sa, K l r sb sa -> chain N_order sa Q ->
    let '(x, l1, r1) := ra N_order T dr l r Q in K l1 r1 sb (sa + length Q).
  Proof.
    intros l r Q sb sa [HG [Hsw Hopen]] HCQ.
    pose proof (chain_good _ _ HCQ) as GQ.
    rewrite ra_unfold.
    destruct (l_full l) eqn:Ef; cbn [negb].
    - rewrite xl_run_full. cbn zeta.
      set (s0 := {| md := false; wr := []; aj := 0%Z; nx := length (s_words r); bk := firstn (length (s_words r)) (s_bo r) |}).
      destruct (run_bounds (s_words r) Q s0 (good_ne _ GQ) ltac:(unfold s0; cbn [nx]; lia) ltac:(unfold s0; cbn [nx bk]; rewrite firstn_length; lia)) as [Bn1 Bn2].
      cbn [x_adjust x_make_full x_next_use].
      split; [exact HG|]. split; [cbn [s_bo s_words]; rewrite !firstn_length; lia|]. intros Hf. congruence.
    - destruct (Hopen eq_refl) as [HC [HE Hne]].
      rewrite xl_run. cbn zeta.
      set (A1 := s_words r) in *.
      set (s10 := {| md := true; wr := []; aj := 0%Z; nx := length A1; bk := firstn (length A1) (s_bo r) |}).
      set (sf := run A1 Q s10).
      assert (I10 : W1inv A1 s10) by (intros _; unfold s10; cbn [nx bk]; split; [reflexivity|rewrite firstn_length; lia]).
      destruct (run1_facts A1 A1 Hne Q s10 GQ I10 ltac:(constructor)) as [If [Gf Kf]]. fold sf in If, Gf, Kf.
      destruct (run_bounds A1 Q s10 (good_ne _ GQ) ltac:(unfold s10; cbn [nx]; lia) ltac:(unfold s10; cbn [nx bk]; rewrite firstn_length; lia)) as [Bn1 Bn2].
      fold sf in Bn1, Bn2. cbn [x_adjust x_make_full x_next_use].
      split; [cbn [l_ptrs]; apply Forall_app; split; [exact HG|exact Gf]|].
      split; [cbn [s_bo s_words]; rewrite !firstn_length; lia|].
      cbn [l_full l_ptrs s_words]. intros Hf. apply orb_false_iff in Hf. destruct Hf as [Hf _]. apply orb_false_iff in Hf. destruct Hf as [Hm _].
      apply negb_false_iff in Hm. destruct (Kf Hm) as [_ [HW HF]]. destruct (If Hm) as [X _].
      unfold s10 in HW. cbn [wr app] in HW. rewrite HW, X, firstn_all.
      split.
      + apply chain_app_intro; [exact HC|]. replace (sb + length (l_ptrs l)) with (sa + length A1) by (unfold key in *; lia).
        apply (chain_map_app A1 A1); assumption.
      + split; [rewrite app_length, map_length; unfold key in *; lia|exact Hne].
  Qed.


  Lemma commute : forall A2 B2 l r Q sb sa, A2 <> [] -> length B2 = length A2 -> K l r sb sa -> chain N_order sa Q ->
    sb + length A2 <= N_order - 1 ->
    (let '(x1, l1, r1) := rbf A2 B2 l r in let '(x2, l2, r2) := ra N_order T dr l1 r1 Q in ((x1 + x2)%Z, l2, r2)) =
    (let '(y1, l1', r1') := ra N_order T dr l r Q in let '(y2, l2', r2') := rbf A2 B2 l1' r1' in ((y1 + y2)%Z, l2', r2')).
  Proof.
    intros A2 B2 l r Q sb sa HA2 HB2 HK HCQ Hu.
    destruct (l_full l) eqn:Ef.
    - (* complete left state: RevealAfter only walks (no writing, left untouched), RevealBefore does not look at the right state *)
      unfold rbf. rewrite !ra_unfold. rewrite Ef. cbn [negb].
      destruct (extend_loop N_order T dr A2 B2 (l_ptrs l) true) as [[v1 w1] bw1] eqn:E1.
      cbn [l_full l_ptrs s_words s_bo negb]. rewrite ra_unfold. cbn [l_full negb].
      destruct (extend_loop N_order T dr (s_words r) (s_bo r) Q false) as [[v2 w2] bw2] eqn:E2.
      cbn [l_full l_ptrs]. rewrite Ef, E1. f_equal. f_equal. lia.
    - destruct HK as [HG [Hsw Hopen]]. destruct (Hopen Ef) as [HC [HE Hne]].
      pose proof (commute_open (s_words r) A2 Hne HA2 B2 l r Q sb sa eq_refl HB2 Ef
                    (K_BJ l r sb sa (conj HG (conj Hsw Hopen))) (K_J l r sb sa (conj HG (conj Hsw Hopen))) HCQ Hu) as H.
      destruct (rbf A2 B2 l r) as [[x1 l1] r1]. destruct (ra N_order T dr l1 r1 Q) as [[x2 l2] r2].
      destruct (ra N_order T dr l r Q) as [[y1 l1'] r1']. destruct (rbf A2 B2 l1' r1') as [[y2 l2'] r2'].
      destruct H as [H1 [H2 H3]]. rewrite H1, H2, H3. reflexivity.
  Qed.

  (* ---- on the revealed state itself ------------------------------------------------------------------------------ *)
  Definition rvc (W : list word) (Bk : list boval) (c : nat) : state := {| s_words := firstn c W; s_bo := firstn c Bk |}.

  Theorem rb_two : forall W Bk l r s t u, length Bk = length W -> s < t -> t < u -> u <= length W -> u <= N_order - 1 -> BJ l r s ->
    let '(x1, l1, r1) := reveal_before N_order T dr (rvc W Bk t) s false l r in
    reveal_before N_order T dr (rvc W Bk u) s false l r =
      (let '(x2, l2, r2) := reveal_before N_order T dr (rvc W Bk u) t false l1 r1 in ((x1 + x2)%Z, l2, r2)) /\ BJ l1 r1 t.
  Proof.
    intros W Bk l r s t u HL Hst Htu Hu HuN HJ.
    rewrite !rb_unfold. unfold rvc. cbn [s_words s_bo].
    assert (Hsu : s <= t) by lia. assert (Htu' : t <= u) by lia.
    rewrite (skip_first_split N_order Hord _ W s t u Hsu Htu' Hu).
    rewrite (skip_first_split N_order Hord _ Bk s t u Hsu Htu' ltac:(lia)).
    set (A1 := skipn s (firstn t W)). set (A2 := skipn t (firstn u W)).
    set (B1 := skipn s (firstn t Bk)). set (B2 := skipn t (firstn u Bk)).
    assert (L1 : length A1 = t - s) by (unfold A1; rewrite skipn_length, firstn_length; lia).
    assert (L2 : length A2 = u - t) by (unfold A2; rewrite skipn_length, firstn_length; lia).
    assert (L3 : length B1 = t - s) by (unfold B1; rewrite skipn_length, firstn_length; lia).
    assert (L4 : length B2 = u - t) by (unfold B2; rewrite skipn_length, firstn_length; lia).
    assert (N1 : A1 <> []) by (intros E; rewrite E in L1; cbn in L1; lia).
    assert (N2 : A2 <> []) by (intros E; rewrite E in L2; cbn in L2; lia).
    pose proof (rbf_two A1 A2 N1 N2 B1 B2 l r s ltac:(lia) ltac:(lia) HJ ltac:(lia)) as H.
    destruct (rbf A1 B1 l r) as [[x1 l1] r1]. rewrite L1 in H. replace (s + (t - s)) with t in H by lia. exact H.
  Qed.

  (* RevealBefore called once per cut point c1 < c2 < ..., each time with the state cut to its first c_i words and seen = c_(i-1) *)
  Fixpoint rb_seq (W : list word) (Bk : list boval) (l : left) (r : state) (seen : nat) (cuts : list nat) : Z * left * state :=
    match cuts with
    | [] => (0%Z, l, r)
    | c :: cs =>
        let '(a, l1, r1) := reveal_before N_order T dr (rvc W Bk c) seen false l r in
        let '(a', l2, r2) := rb_seq W Bk l1 r1 c cs in ((a + a')%Z, l2, r2)
    end.
  Fixpoint sincreasing (from : nat) (cuts : list nat) (upto : nat) : Prop :=
    match cuts with [] => from <= upto | c :: cs => from < c /\ sincreasing c cs upto end.

  Lemma sincreasing_last : forall cuts from upto, sincreasing from cuts upto -> from <= last cuts from /\ last cuts from <= upto.
  Proof.
    induction cuts as [|x cs IH]; intros from upto H; cbn [sincreasing last] in *; [lia|].
    destruct H as [H1 H2]. specialize (IH x upto H2). destruct cs as [|y cs']; [cbn [last] in IH; lia|].
    rewrite (last_default (y :: cs') from x) by discriminate. lia.
  Qed.

  Theorem rb_seq_one_shot : forall cuts c W Bk l r seen, length Bk = length W -> length W <= N_order - 1 -> BJ l r seen ->
    sincreasing seen (c :: cuts) (length W) ->
    rb_seq W Bk l r seen (c :: cuts) = reveal_before N_order T dr (rvc W Bk (last cuts c)) seen false l r.
  Proof.
    induction cuts as [|c' cuts IH]; intros c W Bk l r seen HL HN HJ Hi.
    - cbn [rb_seq last]. destruct (reveal_before N_order T dr (rvc W Bk c) seen false l r) as [[a l1] r1]. f_equal. f_equal. lia.
    - destruct Hi as [H1 Hi]. pose proof Hi as Hi'. destruct Hi' as [H2 Hi'].
      pose proof (sincreasing_last _ _ _ Hi') as Hlast.
      change (rb_seq W Bk l r seen (c :: c' :: cuts)) with
        (let '(a, l1, r1) := reveal_before N_order T dr (rvc W Bk c) seen false l r in
         let '(a', l2, r2) := rb_seq W Bk l1 r1 c (c' :: cuts) in ((a + a')%Z, l2, r2)).
      rewrite (last_cons cuts c' c).
      set (d := last cuts c') in *.
      pose proof (rb_two W Bk l r seen c d HL H1 ltac:(lia) ltac:(lia) ltac:(lia) HJ) as HT.
      destruct (reveal_before N_order T dr (rvc W Bk c) seen false l r) as [[a1 l1] r1]. destruct HT as [HT HJ1].
      rewrite HT. rewrite (IH c' W Bk l1 r1 c HL HN HJ1 Hi). fold d. reflexivity.
  Qed.


  (* ---- any interleaving of the instalments of the two sides -------------------------------------------------------------- *)
  Inductive op := OB (c : nat) | OA (c : nat).       (* RevealBefore up to c words / RevealAfter up to c pointers *)
  Fixpoint run_ops (W : list word) (Bk : list boval) (P : list key) (l : left) (r : state) (sb sa : nat) (ops : list op)
    : Z * left * state :=
    match ops with
    | [] => (0%Z, l, r)
    | OB c :: t =>
        let '(x, l1, r1) := reveal_before N_order T dr (rvc W Bk c) sb false l r in
        let '(y, l2, r2) := run_ops W Bk P l1 r1 c sa t in ((x + y)%Z, l2, r2)
    | OA c :: t =>
        let '(x, l1, r1) := reveal_after N_order T dr l r {| l_ptrs := firstn c P; l_full := false |} sa in
        let '(y, l2, r2) := run_ops W Bk P l1 r1 sb c t in ((x + y)%Z, l2, r2)
    end.
  Fixpoint bcuts (ops : list op) : list nat := match ops with [] => [] | OB c :: t => c :: bcuts t | OA _ :: t => bcuts t end.
  Fixpoint acuts (ops : list op) : list nat := match ops with [] => [] | OA c :: t => c :: acuts t | OB _ :: t => acuts t end.

  Section Interleave.
    Variable W : list word.
    Variable Bk : list boval.
    Variable P : list key.
    Hypothesis HBk : length Bk = length W.
    Hypothesis HWN : length W <= N_order - 1.
    Hypothesis HCP : chain N_order 0 P.

    Definition vops (sb sa : nat) (ops : list op) : Prop :=
      sincreasing sb (bcuts ops) (length W) /\ increasing sa (acuts ops) (length P).

    Lemma step_b_K : forall l r sb sa c, K l r sb sa -> sb < c -> c <= length W ->
      let '(x, l1, r1) := reveal_before N_order T dr (rvc W Bk c) sb false l r in K l1 r1 c sa.
    Proof.
      intros l r sb sa c HK H1 H2. rewrite rb_unfold. unfold rvc. cbn [s_words s_bo].
      set (A2 := skipn sb (firstn c W)). set (B2 := skipn sb (firstn c Bk)).
      assert (L1 : length A2 = c - sb) by (unfold A2; rewrite skipn_length, firstn_length; lia).
      assert (L2 : length B2 = c - sb) by (unfold B2; rewrite skipn_length, firstn_length; lia).
      assert (N2 : A2 <> []) by (intros E; rewrite E in L1; cbn in L1; lia).
      assert (L21 : length B2 = length A2) by lia.
      pose proof (rbf_K A2 B2 l r sb sa N2 L21 HK) as H. destruct (rbf A2 B2 l r) as [[x l1] r1].
      rewrite L1 in H. replace (sb + (c - sb)) with c in H by lia. exact H.
    Qed.

    Lemma chain_chunk : forall sa d, sa <= d -> d <= length P -> chain N_order sa (skipn sa (firstn d P)).
    Proof.
      intros sa d H1 H2. apply (chain_skipn N_order Hord (firstn d P) 0 sa). apply chain_firstn. exact HCP.
    Qed.

    Lemma step_a_K : forall l r sb sa d, K l r sb sa -> sa <= d -> d <= length P ->
      let '(x, l1, r1) := reveal_after N_order T dr l r {| l_ptrs := firstn d P; l_full := false |} sa in K l1 r1 sb d.
    Proof.
      intros l r sb sa d HK H1 H2. rewrite ra_seen.
      pose proof (ra_K l r (skipn sa (firstn d P)) sb sa HK (chain_chunk sa d H1 H2)) as H.
      destruct (ra N_order T dr l r (skipn sa (firstn d P))) as [[x l1] r1].
      rewrite skipn_length, firstn_length in H. replace (sa + (Nat.min d (length P) - sa)) with d in H by lia. exact H.
    Qed.

    Lemma swap_ab : forall l r sb sa c d t, K l r sb sa -> sb < c -> c <= length W -> sa <= d -> d <= length P ->
      run_ops W Bk P l r sb sa (OA d :: OB c :: t) = run_ops W Bk P l r sb sa (OB c :: OA d :: t).
    Proof.
      intros l r sb sa c d t HK H1 H2 H3 H4. cbn [run_ops].
      set (A2 := skipn sb (firstn c W)). set (B2 := skipn sb (firstn c Bk)). set (Q := skipn sa (firstn d P)).
      assert (L1 : length A2 = c - sb) by (unfold A2; rewrite skipn_length, firstn_length; lia).
      assert (L2 : length B2 = c - sb) by (unfold B2; rewrite skipn_length, firstn_length; lia).
      assert (N2 : A2 <> []) by (intros E; rewrite E in L1; cbn in L1; lia).
      assert (L21 : length B2 = length A2) by lia.
      assert (Hu : sb + length A2 <= N_order - 1) by lia.
      pose proof (commute A2 B2 l r Q sb sa N2 L21 HK (chain_chunk sa d H3 H4) Hu) as HCm.
      assert (RB : forall l0 r0, reveal_before N_order T dr (rvc W Bk c) sb false l0 r0 = rbf A2 B2 l0 r0) by (intros; rewrite rb_unfold; reflexivity).
      assert (RA : forall l0 r0, reveal_after N_order T dr l0 r0 {| l_ptrs := firstn d P; l_full := false |} sa = ra N_order T dr l0 r0 Q) by (intros; rewrite ra_seen; reflexivity).
      rewrite (RA l r), (RB l r).
      destruct (ra N_order T dr l r Q) as [[y1 l1'] r1']. rewrite (RB l1' r1').
      destruct (rbf A2 B2 l r) as [[x1 l1] r1]. rewrite (RA l1 r1).
      destruct (rbf A2 B2 l1' r1') as [[y2 l2'] r2']. destruct (ra N_order T dr l1 r1 Q) as [[x2 l2] r2].
      injection HCm as E1 E2 E3. subst l2' r2'.
      destruct (run_ops W Bk P l2 r2 c d t) as [[z l3] r3]. f_equal. f_equal. lia.
    Qed.

    Lemma bcuts_map_OB : forall x, bcuts (map OB x) = x.
    Proof. induction x as [|c x IH]; cbn; [reflexivity|rewrite IH; reflexivity]. Qed.
    Lemma acuts_map_OB : forall x, acuts (map OB x) = [].
    Proof. induction x as [|c x IH]; cbn; [reflexivity|exact IH]. Qed.
    Lemma bcuts_app : forall a b, bcuts (a ++ b) = bcuts a ++ bcuts b.
    Proof. induction a as [|o a IH]; intros b; cbn; [reflexivity|]. destruct o; cbn; rewrite IH; reflexivity. Qed.

    Lemma move_a : forall bc d rest l r sb sa, K l r sb sa -> sincreasing sb bc (length W) -> sa <= d -> d <= length P ->
      run_ops W Bk P l r sb sa (OA d :: map OB bc ++ rest) = run_ops W Bk P l r sb sa (map OB bc ++ OA d :: rest).
    Proof.
      induction bc as [|c bc IH]; intros d rest l r sb sa HK Hi H3 H4; [reflexivity|].
      cbn [map app]. destruct Hi as [H1 Hi]. pose proof (sincreasing_last _ _ _ Hi) as HL.
      assert (H2 : c <= length W) by lia.
      rewrite (swap_ab l r sb sa c d (map OB bc ++ rest) HK H1 H2 H3 H4).
      cbn [run_ops]. pose proof (step_b_K l r sb sa c HK H1 H2) as HK1.
      destruct (reveal_before N_order T dr (rvc W Bk c) sb false l r) as [[x l1] r1].
      change (let '(y, l2, r2) := run_ops W Bk P l1 r1 c sa (OA d :: map OB bc ++ rest) in ((x + y)%Z, l2, r2)) with
             (let '(y, l2, r2) := run_ops W Bk P l1 r1 c sa (OA d :: map OB bc ++ rest) in ((x + y)%Z, l2, r2)).
      rewrite <- (IH d rest l1 r1 c sa HK1 Hi H3 H4). reflexivity.
    Qed.

    Theorem sort_ops : forall ops l r sb sa, K l r sb sa -> vops sb sa ops ->
      run_ops W Bk P l r sb sa ops = run_ops W Bk P l r sb sa (map OB (bcuts ops) ++ map OA (acuts ops)).
    Proof.
      induction ops as [|o t IH]; intros l r sb sa HK [Vb Va]; [reflexivity|].
      destruct o as [c|d].
      - cbn [bcuts acuts map app run_ops] in *. destruct Vb as [H1 Vb]. pose proof (sincreasing_last _ _ _ Vb) as HL.
        assert (H2 : c <= length W) by lia.
        pose proof (step_b_K l r sb sa c HK H1 H2) as HK1.
        destruct (reveal_before N_order T dr (rvc W Bk c) sb false l r) as [[x l1] r1].
        rewrite (IH l1 r1 c sa HK1 (conj Vb Va)). reflexivity.
      - cbn [bcuts acuts map] in *. destruct Va as [H3 Va]. pose proof (increasing_last N_order Hord _ _ _ Va) as HL.
        assert (H4 : d <= length P) by lia.
        rewrite <- (move_a (bcuts t) d (map OA (acuts t)) l r sb sa HK Vb H3 H4).
        cbn [run_ops]. pose proof (step_a_K l r sb sa d HK H3 H4) as HK1.
        destruct (reveal_after N_order T dr l r {| l_ptrs := firstn d P; l_full := false |} sa) as [[x l1] r1].
        rewrite (IH l1 r1 sb d HK1 (conj Vb Va)). reflexivity.
    Qed.

    Lemma run_sorted : forall bc ac l r sb sa,
      run_ops W Bk P l r sb sa (map OB bc ++ map OA ac) =
      (let '(x, l1, r1) := rb_seq W Bk l r sb bc in
       let '(y, l2, r2) := ra_seq N_order T dr l1 r1 P sa ac in ((x + y)%Z, l2, r2)).
    Proof.
      induction bc as [|c bc IH]; intros ac l r sb sa.
      - cbn [map app rb_seq]. revert l r sa. induction ac as [|d ac IHa]; intros l r sa; cbn [map run_ops ra_seq]; [reflexivity|].
        destruct (reveal_after N_order T dr l r {| l_ptrs := firstn d P; l_full := false |} sa) as [[x l1] r1].
        rewrite IHa. destruct (ra_seq N_order T dr l1 r1 P d ac) as [[y l2] r2]. repeat (f_equal; try lia).
      - cbn [map app run_ops rb_seq].
        destruct (reveal_before N_order T dr (rvc W Bk c) sb false l r) as [[x l1] r1].
        rewrite IH. destruct (rb_seq W Bk l1 r1 c bc) as [[x' l1'] r1'].
        destruct (ra_seq N_order T dr l1' r1' P sa ac) as [[y l2] r2]. repeat (f_equal; try lia).
    Qed.
  End Interleave.

  (* ---- the closing call: RevealBefore(reveal, seen = reveal.length, reveal_full = true) ---------------------------------
     Writing pointers (rest costs) and converting them afterwards (UnRest) is the same as never writing them (probabilities). *)
  Section WriteVsFull.
    Variable A : list word.
    Hypothesis HA : A <> [].
    Let a := length A.

    Definition Rw (sw sf : st) : Prop :=
      md sf = false /\ aj sf = (aj sw + unr (wr sw))%Z /\ nx sf = nx sw /\ bk sf = bk sw /\ wr sf = [] /\
      (md sw = true -> nx sw = a /\ length (bk sw) = a).

    Lemma Rw_step : forall sw sf p, good' p -> Rw sw sf -> Rw (stepf A sw p) (stepf A sf p).
    Proof.
      intros sw sf p Hp [F1 [F2 [F3 [F4 [F5 F6]]]]].
      assert (Ha : 1 <= a) by (unfold a; assert (length A <> 0) by (intro H0; apply HA; apply length_zero_iff_nil; exact H0); lia).
      unfold stepf. rewrite F1, F3, F4. destruct (md sw) eqn:Mw.
      - destruct (F6 eq_refl) as [X HL]. rewrite X.
        replace (Nat.eqb a 0) with false by (symmetry; apply Nat.eqb_neq; lia).
        assert (EA : firstn a A = A) by apply firstn_all. rewrite EA.
        destruct (el A (bk sw) p) as [[ret bo] nu'] eqn:E1.
        destruct (r_indep ret) eqn:Ei.
        + unfold Rw. cbn [md aj nx bk wr]. split; [reflexivity|]. split; [lia|]. split; [reflexivity|]. split; [reflexivity|].
          split; [assumption|]. intros HH; discriminate.
        + destruct (el_comp_ext A (bk sw) p ret bo nu' Hp HA HL E1 Ei) as [e [He [Hl [Hx [Hbo [Hlen [Hrest [Hprob [Hnu1 _]]]]]]]]].
          pose proof (unr_one N_order Hord T dr rest_dr (p ++ A) e He) as HU.
          unfold Rw. cbn [md aj nx bk wr]. split; [reflexivity|]. split; [rewrite (unr_app' N_order Hord), Hx; lia|].
          split; [reflexivity|]. split; [reflexivity|]. split; [assumption|].
          intros HH. apply Nat.eqb_eq in HH. split; [exact HH|exact Hbo].
      - destruct (Nat.eqb (nx sw) 0).
        + unfold Rw. cbn [md aj nx bk wr]. split; [reflexivity|]. split; [lia|]. split; [reflexivity|]. split; [reflexivity|].
          split; [assumption|]. intros HH; discriminate.
        + destruct (el (firstn (nx sw) A) (bk sw) p) as [[ret bo] nu'].
          unfold Rw. cbn [md aj nx bk wr]. split; [reflexivity|]. split; [lia|]. split; [reflexivity|]. split; [reflexivity|].
          split; [assumption|]. intros HH; discriminate.
    Qed.

    Lemma Rw_run : forall P sw sf, Forall good' P -> Rw sw sf -> Rw (run A P sw) (run A P sf).
    Proof.
      induction P as [|p P IH]; intros sw sf HP HR; [exact HR|]. inversion HP as [|? ? Hp HP']. subst.
      rewrite !run_cons. apply IH; [exact HP'|]. apply Rw_step; assumption.
    Qed.
  End WriteVsFull.


  Theorem rb_finish : forall rv l r, length (s_bo rv) = length (s_words rv) -> s_words rv <> [] -> Forall good' (l_ptrs l) ->
    reveal_before N_order T dr rv 0 true l r =
    (let '(x1, l1, r1) := reveal_before N_order T dr rv 0 false l r in
     let '(x2, l2, r2) := reveal_before N_order T dr rv (length (s_words rv)) true l1 r1 in ((x1 + x2)%Z, l2, r2)).
  Proof.
    intros rv l r HL HW HG. destruct rv as [W Bk]. cbn [s_words s_bo] in *.
    unfold reveal_before. cbn [negb skipn s_words s_bo].
    rewrite skipn_all. rewrite (skipn_all2 (n := length W) Bk) by lia.
    rewrite xl_run_full, xl_run. cbn zeta.
    set (sw0 := {| md := true; wr := []; aj := 0%Z; nx := length W; bk := firstn (length W) Bk |}).
    set (sf0 := {| md := false; wr := []; aj := 0%Z; nx := length W; bk := firstn (length W) Bk |}).
    assert (R0 : Rw W sw0 sf0).
    { unfold Rw, sw0, sf0. cbn [md aj nx bk wr]. rewrite unr_nil''. split; [reflexivity|]. split; [lia|]. split; [reflexivity|]. split; [reflexivity|].
      split; [reflexivity|]. intros _. split; [reflexivity|rewrite firstn_length; lia]. }
    destruct (Rw_run W HW (l_ptrs l) sw0 sf0 HG R0) as [F1 [F2 [F3 [F4 [F5 F6]]]]].
    set (sw := run W (l_ptrs l) sw0) in *. set (sf := run W (l_ptrs l) sf0) in *.
    cbn [x_adjust x_make_full x_next_use].
    rewrite F2, F3, F4.
    assert (XC : forall Q, extend_loop N_order T dr [] [] Q false = ({| x_adjust := unr Q; x_make_full := false; x_next_use := 0 |}, [], [])).
    { intros Q. rewrite xl_run_full. cbn zeta. cbn [length firstn]. rewrite run_stopped. cbn [aj nx bk firstn]. repeat (f_equal; try lia). }
    destruct (l_full l) eqn:Ef.
    - cbn [l_full l_ptrs]. rewrite XC. cbn [x_adjust x_next_use]. unfold sum_bo at 3. cbn [fold_right]. repeat (f_equal; try lia).
    - cbn [l_full l_ptrs orb].
      destruct (orb (orb (negb (md sw)) (Nat.eqb (length (wr sw)) (N_order - 1)))
                    (Nat.eqb (length (s_words r ++ firstn (nx sw) W)) (N_order - 1))); cbn [l_ptrs].
      + rewrite XC. cbn [x_adjust x_next_use]. unfold sum_bo. cbn [fold_right]. repeat (f_equal; try lia).
      + rewrite XC. cbn [x_adjust x_next_use firstn s_words s_bo orb]. rewrite !app_nil_r. repeat (f_equal; try lia).
  Qed.


  (* the closing call of the left-hand side: what it is, and that it commutes with a RevealAfter call *)
  Lemma rb_closing : forall rv l r, length (s_bo rv) = length (s_words rv) ->
    reveal_before N_order T dr rv (length (s_words rv)) true l r =
    (unr (l_ptrs l), {| l_ptrs := []; l_full := true |}, {| s_words := s_words r; s_bo := s_bo r |}).
  Proof.
    intros rv l r HL. destruct r as [rw rb]. unfold reveal_before. cbn [negb s_words s_bo]. rewrite skipn_all. rewrite (skipn_all2 (n := length (s_words rv)) (s_bo rv)) by lia.
    rewrite xl_run_full. cbn zeta. cbn [length firstn]. rewrite run_stopped. cbn [aj nx bk firstn x_adjust x_make_full x_next_use].
    destruct (l_full l); cbn [orb]; rewrite ?app_nil_r; unfold sum_bo; cbn [fold_right]; repeat (f_equal; try lia).
  Qed.

  Lemma closing_commutes_ra : forall rv l r Q sb sa, length (s_bo rv) = length (s_words rv) -> K l r sb sa -> chain N_order sa Q ->
    (let '(y, l1, r1) := ra N_order T dr l r Q in
     let '(z, l2, r2) := reveal_before N_order T dr rv (length (s_words rv)) true l1 r1 in ((y + z)%Z, l2, r2)) =
    (let '(z, l1, r1) := reveal_before N_order T dr rv (length (s_words rv)) true l r in
     let '(y, l2, r2) := ra N_order T dr l1 r1 Q in ((z + y)%Z, l2, r2)).
  Proof.
    intros rv l r Q sb sa HL [HG [Hsw Hopen]] HCQ.
    pose proof (chain_good _ _ HCQ) as GQ.
    rewrite (rb_closing rv l r HL). rewrite !ra_unfold. cbn [l_full negb s_words s_bo].
    destruct (l_full l) eqn:Ef; cbn [negb].
    - destruct (extend_loop N_order T dr (s_words r) (s_bo r) Q false) as [[v w] bw]. rewrite (rb_closing rv l _ HL).
      cbn [s_words s_bo l_ptrs]. repeat (f_equal; try lia).
    - destruct (Hopen eq_refl) as [HC [HE Hne]].
      rewrite xl_run, xl_run_full. cbn zeta.
      set (A1 := s_words r) in *.
      set (sw0 := {| md := true; wr := []; aj := 0%Z; nx := length A1; bk := firstn (length A1) (s_bo r) |}).
      set (sf0 := {| md := false; wr := []; aj := 0%Z; nx := length A1; bk := firstn (length A1) (s_bo r) |}).
      assert (R0 : Rw A1 sw0 sf0).
      { unfold Rw, sw0, sf0. cbn [md aj nx bk wr]. rewrite unr_nil''. split; [reflexivity|]. split; [lia|]. split; [reflexivity|]. split; [reflexivity|].
        split; [reflexivity|]. intros _. split; [reflexivity|rewrite firstn_length; lia]. }
      destruct (Rw_run A1 Hne Q sw0 sf0 GQ R0) as [F1 [F2 [F3 [F4 [F5 F6]]]]].
      set (sw := run A1 Q sw0) in *. set (sf := run A1 Q sf0) in *.
      cbn [x_adjust x_make_full x_next_use l_ptrs].
      rewrite (rb_closing rv _ _ HL). cbn [l_ptrs s_words s_bo].
      rewrite F2, F3, F4. rewrite (unr_app' N_order Hord). repeat (f_equal; try lia).
  Qed.

  (* ---- fragments ---------------------------------------------------------------------------------------------------- *)
  Notation flatf := (flat N_order T).
  Notation fin := (rs_finish N_order).


  Lemma flat_right_len : forall ws X, length (s_words (rs_right X)) <= N_order - 1 ->
    length (s_words (rs_right (flatf X ws))) <= N_order - 1.
  Proof.
    induction ws as [|w ws IH]; intros X HX; [exact HX|]. cbn [flat fold_left]. apply IH.
    unfold rs_terminal. pose proof (state_bounds N_order Hord T M Inv (rs_right X) w) as [HB _].
    destruct (full_score N_order T (rs_right X) w) as [ret out]. cbn [snd] in HB.
    destruct (rs_done X); [exact HB|]. destruct (r_indep ret); exact HB.
  Qed.

  Lemma reveal_before_one_shot : forall us ws, Forall (known T) us -> Forall (known T) ws ->
    let A := fin (flatf rs_init us) in
    let B := fin (flatf rs_init ws) in
    fst (fst (reveal_before N_order T dr (c_right (fst A)) 0 (l_full (c_left (fst A))) (c_left (fst B)) (c_right (fst B)))) =
    (snd (fin (flatf rs_init (us ++ ws))) - snd A - snd B)%Z.
  Proof.
    intros us ws Hu Hw A B.
    rewrite (proj1 (reveal_before_is_subsume N_order T dr (c_left (fst A)) (c_right (fst A)) (c_left (fst B)) (c_right (fst B)))).
    destruct (subsume N_order T dr (c_left (fst A)) (c_right (fst A)) (c_left (fst B)) (c_right (fst B))) as [[adj l'] r'] eqn:ES.
    pose proof (subsume_flat N_order Hord T M Inv dr rest_dr ext_ctx us ws Hu Hw adj l' r' ES) as HF.
    apply (f_equal snd) in HF. cbn [fst snd] in *. unfold rs_finish at 1 in HF. cbn [snd mkrs rs_prob] in HF.
    unfold A, B. lia.
  Qed.

  (* RevealBefore in instalments: the right state of the preceding fragment revealed up to c1, then c2, ... words (the last cut
     being all of them), plus the closing call when that fragment's left state is complete, give the whole minus the parts *)
  Theorem reveal_before_incremental : forall us ws c cuts, Forall (known T) us -> Forall (known T) ws ->
    let A := fin (flatf rs_init us) in
    let B := fin (flatf rs_init ws) in
    let rv := c_right (fst A) in
    sincreasing 0 (c :: cuts) (length (s_words rv)) -> last cuts c = length (s_words rv) ->
    let '(a1, l1, r1) := rb_seq (s_words rv) (s_bo rv) (c_left (fst B)) (c_right (fst B)) 0 (c :: cuts) in
    let '(a2, l2, r2) := if l_full (c_left (fst A))
                         then reveal_before N_order T dr rv (length (s_words rv)) true l1 r1
                         else (0%Z, l1, r1) in
    (a1 + a2)%Z = (snd (fin (flatf rs_init (us ++ ws))) - snd A - snd B)%Z.
  Proof.
    intros us ws c cuts Hu Hw A B rv Hi Hlast.
    assert (W0 : wf rs_init) by (constructor; cbn; [reflexivity|constructor|reflexivity]).
    assert (WA : wf (flatf rs_init us)) by (apply flat_wf; [exact Hord|exact W0]).
    assert (WB : wf (flatf rs_init ws)) by (apply flat_wf; [exact Hord|exact W0]).
    pose proof (fin_cwf N_order (flatf rs_init us) WA) as CA. fold A in CA.
    pose proof (fin_cwf N_order (flatf rs_init ws) WB) as CB. fold B in CB.
    assert (Hsw : length (s_bo rv) = length (s_words rv)) by (destruct CA as [C1 _ _]; exact C1).
    assert (HrvN : length (s_words rv) <= N_order - 1).
    { unfold rv, A. rewrite fin_eq. cbn [fst mkchart c_right]. apply flat_right_len. cbn. lia. }
    assert (HC : chain N_order 0 (l_ptrs (c_left (fst B)))).
    { unfold B. rewrite fin_eq. cbn [fst mkchart c_left l_ptrs]. apply (flat_chain N_order Hord T M Inv ext_ctx); [exact W0|exact Hw|exact I]. }
    assert (HJ : BJ (c_left (fst B)) (c_right (fst B)) 0).
    { destruct CB as [C1 C2 C3]. split; [exact (chain_good _ _ HC)|]. split; [exact C1|]. intros Hf. split; [exact HC|]. rewrite (C3 Hf). lia. }
    assert (Hne : s_words rv <> []).
    { intros E. rewrite E in Hi. cbn [length sincreasing] in Hi. destruct Hi as [Hc Hi]. pose proof (sincreasing_last _ _ _ Hi). lia. }
    rewrite (rb_seq_one_shot cuts c (s_words rv) (s_bo rv) _ _ 0 Hsw HrvN HJ Hi). rewrite Hlast.
    assert (Erv : rvc (s_words rv) (s_bo rv) (length (s_words rv)) = rv).
    { unfold rvc. rewrite firstn_all. rewrite <- Hsw, firstn_all. destruct rv; reflexivity. }
    rewrite Erv.
    pose proof (reveal_before_one_shot us ws Hu Hw) as H1. cbn zeta in H1. fold A B rv in H1.
    destruct (l_full (c_left (fst A))) eqn:Ef.
    - pose proof (rb_finish rv (c_left (fst B)) (c_right (fst B)) Hsw Hne (chain_good _ _ HC)) as HF.
      destruct (reveal_before N_order T dr rv 0 false (c_left (fst B)) (c_right (fst B))) as [[a1 l1] r1].
      destruct (reveal_before N_order T dr rv (length (s_words rv)) true l1 r1) as [[a2 l2] r2].
      rewrite HF in H1. exact H1.
    - destruct (reveal_before N_order T dr rv 0 false (c_left (fst B)) (c_right (fst B))) as [[a1 l1] r1]. cbn [fst] in H1. lia.
  Qed.

  (* ---- both sides: all of the preceding context in instalments, then all of the following fragment's pointers in instalments --- *)
  Lemma xw_len : forall add al P w a nu back rest w' a' mf nu' back',
    ext_write N_order T add al P w a nu back = (rest, w', a', mf, nu', back') -> length w' <= length w + length P.
  Proof.
    intros add al P. induction P as [|p P IH]; intros w a nu back rest w' a' mf nu' back' H; cbn [ext_write] in H.
    - injection H as <- <- <- <- <- <-. cbn [length]. lia.
    - destruct (el (firstn nu add) back p) as [[ret bo] nu1]. cbn [length].
      destruct (r_indep ret); [injection H as <- <- <- <- <- <-; lia|].
      destruct (negb (Nat.eqb nu1 al)); [injection H as <- <- <- <- <- <-; rewrite app_length; cbn [length]; lia|].
      specialize (IH _ _ _ _ _ _ _ _ _ _ H). rewrite app_length in IH. cbn [length] in IH. lia.
  Qed.

  Lemma xl_shape : forall add bs P write,
    let '(v, w, bw) := extend_loop N_order T dr add bs P write in
    length w <= length P /\ (write = false -> w = [] /\ x_make_full v = false) /\
    (x_make_full v = false -> write = true -> length w = length P /\ x_next_use v = length add).
  Proof.
    intros add bs P write. destruct write.
    - rewrite (xl_write N_order T dr). unfold fin2.
      destruct (ext_write N_order T add (length add) P [] 0%Z (length add) (firstn (length add) bs)) as [[[[[rest1 w1] a1] mf] nu1] b1] eqn:E1.
      pose proof (xw_len _ _ _ _ _ _ _ _ _ _ _ _ _ E1) as HL. cbn [length] in HL.
      destruct (ext_full N_order T add rest1 a1 nu1 b1) as [[[rest2 a2] nu2] b2] eqn:E2. cbn [x_make_full x_next_use].
      split; [lia|]. split; [intros H; discriminate|]. intros Hm _. subst mf.
      destruct (xw_nobreak N_order Hord T _ _ _ _ _ _ _ _ _ _ _ _ E1) as [-> [K1 [K2 [wn [K3 K4]]]]]. cbn [app] in K3. subst w1.
      cbn [ext_full] in E2. injection E2 as <- <- <- <-. split; [exact K4|].
      destruct P as [|q Q]; [destruct (K2 eq_refl) as [-> _]; reflexivity|apply K1; discriminate].
    - rewrite (xl_full N_order T dr). unfold fin2.
      destruct (ext_full N_order T add P 0%Z (length add) (firstn (length add) bs)) as [[[rest2 a2] nu2] b2]. cbn [x_make_full length].
      split; [lia|]. split; [intros _; split; reflexivity|]. intros _ H; discriminate.
  Qed.


  (* the state RevealBefore leaves after the whole preceding context is the right state of the concatenation, and its
     completeness flag is that of the concatenation's left state *)
  Lemma rb_state_is_concat : forall us ws, Forall (known T) us -> Forall (known T) ws ->
    let U := fin (flatf rs_init us) in
    let Mf := fin (flatf rs_init ws) in
    let '(a, lb, rb) := reveal_before N_order T dr (c_right (fst U)) 0 (l_full (c_left (fst U))) (c_left (fst Mf)) (c_right (fst Mf)) in
    let UM := fin (flatf rs_init (us ++ ws)) in
    rb = c_right (fst UM) /\ l_full lb = l_full (c_left (fst UM)) /\ a = (snd UM - snd U - snd Mf)%Z /\
    (l_full lb = false -> length (l_ptrs lb) <= length (s_words rb)).
  Proof.
    intros us ws Hu Hw U Mf.
    assert (W0 : wf rs_init) by (constructor; cbn; [reflexivity|constructor|reflexivity]).
    assert (WU : wf (flatf rs_init us)) by (apply flat_wf; [exact Hord|exact W0]).
    assert (WM : wf (flatf rs_init ws)) by (apply flat_wf; [exact Hord|exact W0]).
    pose proof (fin_cwf N_order _ WU) as CU. fold U in CU. pose proof (fin_cwf N_order _ WM) as CM. fold Mf in CM.
    assert (WUM : wf (flatf rs_init (us ++ ws))) by (apply flat_wf; [exact Hord|exact W0]).
    pose proof (fin_cwf N_order _ WUM) as CUM.
    assert (HCM : chain N_order 0 (l_ptrs (c_left (fst Mf)))).
    { unfold Mf. rewrite fin_eq. cbn [fst mkchart c_left l_ptrs]. apply (flat_chain N_order Hord T M Inv ext_ctx); [exact W0|exact Hw|exact I]. }
    assert (HMfull : l_full (c_left (fst Mf)) = false -> length (l_ptrs (c_left (fst Mf))) <> N_order - 1).
    { unfold Mf. rewrite fin_eq. cbn [fst mkchart c_left l_ptrs l_full]. intros H. apply orb_false_iff in H. destruct H as [_ H]. apply Nat.eqb_neq in H. exact H. }
    destruct (subsume N_order T dr (c_left (fst U)) (c_right (fst U)) (c_left (fst Mf)) (c_right (fst Mf))) as [[adj l'] r'] eqn:ES.
    pose proof (subsume_flat N_order Hord T M Inv dr rest_dr ext_ctx us ws Hu Hw adj l' r' ES) as HF.
    fold U Mf in HF. set (UM := fin (flatf rs_init (us ++ ws))) in *.
    clearbody U Mf UM.
    unfold subsume in ES. unfold reveal_before. cbn [skipn].
    pose proof (xl_shape (s_words (c_right (fst U))) (s_bo (c_right (fst U))) (l_ptrs (c_left (fst Mf))) (negb (l_full (c_left (fst U))))) as HS.
    destruct (extend_loop N_order T dr (s_words (c_right (fst U))) (s_bo (c_right (fst U))) (l_ptrs (c_left (fst Mf))) (negb (l_full (c_left (fst U)))))
      as [[v w] bw] eqn:EX.
    destruct HS as [S1 [S2 S3]].
    rewrite fin_eq in HF. cbn [mkrs rs_ptrs rs_done rs_right rs_prob] in HF.
    destruct CU as [U1 U2 U3]. destruct CM as [M1 M2 M3]. destruct CUM as [X1 X2 X3].
    destruct (l_full (c_left (fst Mf))) eqn:EfM.
    - (* the fragment's left state was complete already *)
      injection ES as <- <- <-.
      assert (HUM : UM = (mkchart (l_ptrs (if l_full (c_left (fst U)) then c_left (fst U)
                                      else {| l_ptrs := l_ptrs (c_left (fst U)) ++ w;
                                              l_full := orb (x_make_full v) (orb true (Nat.eqb (length (l_ptrs (c_left (fst U)) ++ w)) (N_order - 1))) |}))
                                  (orb (l_full (if l_full (c_left (fst U)) then c_left (fst U)
                                      else {| l_ptrs := l_ptrs (c_left (fst U)) ++ w;
                                              l_full := orb (x_make_full v) (orb true (Nat.eqb (length (l_ptrs (c_left (fst U)) ++ w)) (N_order - 1))) |}))
                                       (Nat.eqb (length (l_ptrs (if l_full (c_left (fst U)) then c_left (fst U)
                                      else {| l_ptrs := l_ptrs (c_left (fst U)) ++ w;
                                              l_full := orb (x_make_full v) (orb true (Nat.eqb (length (l_ptrs (c_left (fst U)) ++ w)) (N_order - 1))) |}))) (N_order - 1)))
                                  (c_right (fst Mf)),
                          (snd U + snd Mf + (x_adjust v + sum_bo bw))%Z)) by (symmetry; exact HF).
      rewrite HUM. cbn [fst snd mkchart c_left c_right l_full].
      split; [reflexivity|]. split.
      + destruct (l_full (c_left (fst U))) eqn:EfU; cbn [l_full orb]; [rewrite EfU; reflexivity|rewrite orb_true_r; reflexivity].
      + split; [lia|]. cbn [l_full]. intros H; discriminate.
    - (* the fragment's left state was open: the words still in use are appended to its right state *)
      assert (Hm : length (l_ptrs (c_left (fst Mf))) <= N_order - 2).
      { pose proof (HMfull eq_refl). destruct (chain_count _ _ HCM) as [E|E]; [rewrite E; cbn; lia|lia]. }
      specialize (M3 eq_refl).
      destruct (l_full (c_left (fst U))) eqn:EfU; cbn [negb] in *.
      + injection ES as <- <- <-. rewrite <- HF.
        cbn [fst snd mkchart c_left c_right l_full l_ptrs s_words s_bo orb]. rewrite EfU. cbn [orb].
        split; [reflexivity|]. split; [reflexivity|]. split; [lia|]. intros H; discriminate.
      + specialize (U3 eq_refl).
        injection ES as <- <- <-. rewrite <- HF.
        cbn [fst snd mkchart c_left c_right l_full l_ptrs s_words s_bo orb].
        split; [reflexivity|].
        replace (Nat.eqb (length w) (N_order - 1)) with false by (symmetry; apply Nat.eqb_neq; lia).
        rewrite orb_false_r.
        split.
        * destruct (x_make_full v) eqn:Emf; cbn [orb]; [reflexivity|].
          destruct (S3 eq_refl eq_refl) as [Sw Snu]. rewrite Snu, firstn_all.
          rewrite !app_length. rewrite Sw, U3, M3.
          replace (length (s_words (c_right (fst U))) + length (s_words (c_right (fst Mf))))
            with (length (s_words (c_right (fst Mf))) + length (s_words (c_right (fst U)))) by lia.
          destruct (Nat.eqb (length (s_words (c_right (fst Mf))) + length (s_words (c_right (fst U)))) (N_order - 1)); reflexivity.
        * split; [lia|]. intros _. rewrite app_length. lia.
  Qed.


  (* a non-empty fragment whose left state is still open has recorded at least one pointer (and as many right-state words) *)
  Lemma term_progress : forall X w, rs_done X = true \/ rs_ptrs X <> [] ->
    rs_done (rs_terminal N_order T X w) = true \/ rs_ptrs (rs_terminal N_order T X w) <> [].
  Proof.
    intros X w H. unfold rs_terminal. destruct (full_score N_order T (rs_right X) w) as [ret out].
    destruct (rs_done X) eqn:Ed; [left; reflexivity|]. destruct (r_indep ret); [left; reflexivity|].
    right. cbn [rs_ptrs]. intros Z. apply app_eq_nil in Z. destruct Z as [_ Z]. discriminate.
  Qed.
  Lemma flat_progress : forall ws X, rs_done X = true \/ rs_ptrs X <> [] ->
    rs_done (flatf X ws) = true \/ rs_ptrs (flatf X ws) <> [].
  Proof.
    induction ws as [|w ws IH]; intros X H; [exact H|]. cbn [flat fold_left]. apply IH. apply term_progress. exact H.
  Qed.
  Lemma frag_K : forall ws, ws <> [] -> Forall (known T) ws ->
    let Mf := fin (flatf rs_init ws) in K (c_left (fst Mf)) (c_right (fst Mf)) 0 0.
  Proof.
    intros ws Hne Hw Mf.
    assert (W0 : wf rs_init) by (constructor; cbn; [reflexivity|constructor|reflexivity]).
    assert (WM : wf (flatf rs_init ws)) by (apply flat_wf; [exact Hord|exact W0]).
    pose proof (fin_cwf N_order _ WM) as CM. fold Mf in CM. destruct CM as [C1 C2 C3].
    assert (HCM : chain N_order 0 (l_ptrs (c_left (fst Mf)))).
    { unfold Mf. rewrite fin_eq. cbn [fst mkchart c_left l_ptrs]. apply (flat_chain N_order Hord T M Inv ext_ctx); [exact W0|exact Hw|exact I]. }
    split; [exact (chain_good _ _ HCM)|]. split; [exact C1|]. intros Hf. split; [exact HCM|]. split; [rewrite (C3 Hf); lia|].
    destruct ws as [|w ws']; [congruence|].
    assert (HP : rs_done (flatf rs_init (w :: ws')) = true \/ rs_ptrs (flatf rs_init (w :: ws')) <> []).
    { cbn [flat fold_left]. apply flat_progress. unfold rs_terminal.
      destruct (full_score N_order T (rs_right rs_init) w) as [ret out]. cbn [rs_init rs_done].
      destruct (r_indep ret); [left; reflexivity|right; cbn [rs_ptrs]; discriminate]. }
    unfold Mf in Hf, C3 |- *. rewrite fin_eq in Hf, C3 |- *. cbn [fst mkchart c_left c_right l_full l_ptrs] in *.
    pose proof Hf as Hf0. apply orb_false_iff in Hf. destruct Hf as [Hd _]. destruct HP as [HP|HP]; [congruence|].
    intros Z. apply HP. specialize (C3 Hf0).
    destruct (rs_ptrs (flatf rs_init (w :: ws'))); [reflexivity|]. rewrite Z in C3. cbn in C3. lia.
  Qed.

  Theorem reveal_both_sides : forall us ws vs cb cutsb ca cutsa,
    Forall (known T) us -> Forall (known T) ws -> Forall (known T) vs ->
    let U := fin (flatf rs_init us) in
    let Mf := fin (flatf rs_init ws) in
    let V := fin (flatf rs_init vs) in
    let rv := c_right (fst U) in
    let P := l_ptrs (c_left (fst V)) in
    sincreasing 0 (cb :: cutsb) (length (s_words rv)) -> last cutsb cb = length (s_words rv) ->
    increasing 0 (ca :: cutsa) (length P) -> last cutsa ca = length P ->
    let '(a1, l1, r1) := rb_seq (s_words rv) (s_bo rv) (c_left (fst Mf)) (c_right (fst Mf)) 0 (cb :: cutsb) in
    let '(a2, l2, r2) := if l_full (c_left (fst U)) then reveal_before N_order T dr rv (length (s_words rv)) true l1 r1 else (0%Z, l1, r1) in
    let '(a3, l3, r3) := ra_seq N_order T dr l2 r2 P 0 (ca :: cutsa) in
    let '(a4, l4, r4) := if l_full (c_left (fst V)) then reveal_after N_order T dr l3 r3 {| l_ptrs := P; l_full := true |} (length P) else (0%Z, l3, r3) in
    (a1 + a2 + a3 + a4)%Z = (snd (fin (flatf rs_init (us ++ ws ++ vs))) - snd U - snd Mf - snd V)%Z.
  Proof.
    intros us ws vs cb cutsb ca cutsa Hu Hw Hv U Mf V rv P Hib Hlb Hia Hla.
    assert (W0 : wf rs_init) by (constructor; cbn; [reflexivity|constructor|reflexivity]).
    assert (WU : wf (flatf rs_init us)) by (apply flat_wf; [exact Hord|exact W0]).
    assert (WM : wf (flatf rs_init ws)) by (apply flat_wf; [exact Hord|exact W0]).
    pose proof (fin_cwf N_order _ WU) as CU. fold U in CU. pose proof (fin_cwf N_order _ WM) as CM. fold Mf in CM.
    assert (Hsw : length (s_bo rv) = length (s_words rv)) by (destruct CU as [C1 _ _]; exact C1).
    assert (HrvN : length (s_words rv) <= N_order - 1).
    { unfold rv, U. rewrite fin_eq. cbn [fst mkchart c_right]. apply flat_right_len. cbn. lia. }
    assert (HCM : chain N_order 0 (l_ptrs (c_left (fst Mf)))).
    { unfold Mf. rewrite fin_eq. cbn [fst mkchart c_left l_ptrs]. apply (flat_chain N_order Hord T M Inv ext_ctx); [exact W0|exact Hw|exact I]. }
    assert (HCV : chain N_order 0 P).
    { unfold P, V. rewrite fin_eq. cbn [fst mkchart c_left l_ptrs]. apply (flat_chain N_order Hord T M Inv ext_ctx); [exact W0|exact Hv|exact I]. }
    assert (HJ : BJ (c_left (fst Mf)) (c_right (fst Mf)) 0).
    { destruct CM as [C1 C2 C3]. split; [exact (chain_good _ _ HCM)|]. split; [exact C1|]. intros Hf. split; [exact HCM|]. rewrite (C3 Hf). lia. }
    assert (Hne : s_words rv <> []).
    { intros E. rewrite E in Hib. cbn [length sincreasing] in Hib. destruct Hib as [Hc Hib]. pose proof (sincreasing_last _ _ _ Hib). lia. }
    (* the preceding context *)
    rewrite (rb_seq_one_shot cutsb cb (s_words rv) (s_bo rv) _ _ 0 Hsw HrvN HJ Hib). rewrite Hlb.
    assert (Erv : rvc (s_words rv) (s_bo rv) (length (s_words rv)) = rv).
    { unfold rvc. rewrite firstn_all. rewrite <- Hsw, firstn_all. destruct rv; reflexivity. }
    rewrite Erv.
    pose proof (rb_state_is_concat us ws Hu Hw) as HB. cbn zeta in HB. fold U Mf rv in HB.
    assert (HB' : let '(a1, l1, r1) := reveal_before N_order T dr rv 0 false (c_left (fst Mf)) (c_right (fst Mf)) in
                  let '(a2, l2, r2) := if l_full (c_left (fst U)) then reveal_before N_order T dr rv (length (s_words rv)) true l1 r1 else (0%Z, l1, r1) in
                  ((a1 + a2)%Z, l2, r2) = reveal_before N_order T dr rv 0 (l_full (c_left (fst U))) (c_left (fst Mf)) (c_right (fst Mf))).
    { destruct (l_full (c_left (fst U))) eqn:EfU.
      - rewrite (rb_finish rv (c_left (fst Mf)) (c_right (fst Mf)) Hsw Hne (chain_good _ _ HCM)).
        destruct (reveal_before N_order T dr rv 0 false (c_left (fst Mf)) (c_right (fst Mf))) as [[a1 l1] r1].
        destruct (reveal_before N_order T dr rv (length (s_words rv)) true l1 r1) as [[a2 l2] r2]. reflexivity.
      - destruct (reveal_before N_order T dr rv 0 false (c_left (fst Mf)) (c_right (fst Mf))) as [[a1 l1] r1]. f_equal. f_equal. lia. }
    destruct (reveal_before N_order T dr rv 0 false (c_left (fst Mf)) (c_right (fst Mf))) as [[a1 l1] r1].
    destruct (if l_full (c_left (fst U)) then reveal_before N_order T dr rv (length (s_words rv)) true l1 r1 else (0%Z, l1, r1)) as [[a2 l2] r2].
    rewrite <- HB' in HB. destruct HB as [Hr [Hf [Ha Hlen]]].
    (* the following fragment *)
    assert (WUM : wf (flatf rs_init (us ++ ws))) by (apply flat_wf; [exact Hord|exact W0]).
    pose proof (fin_cwf N_order _ WUM) as CUM.
    assert (HJ2 : J l2 r2 0).
    { split; [rewrite Hr; destruct CUM as [C1 _ _]; exact C1|]. intros H. specialize (Hlen H). lia. }
    rewrite (ra_seq_one_shot N_order Hord T dr cutsa ca l2 r2 P 0 HJ2 HCV Hia). rewrite Hla. cbn [skipn]. rewrite firstn_all.
    assert (Huw : Forall (known T) (us ++ ws)) by (apply Forall_app; split; assumption).
    pose proof (reveal_after_one_shot N_order Hord T M Inv dr rest_dr ext_ctx (us ++ ws) vs Huw Hv) as H1. cbn zeta in H1.
    rewrite <- app_assoc in H1. fold V in H1.
    (* the adjustment of RevealAfter depends on the left state it is given only through its completeness flag *)
    assert (Eadj : forall l l' r rev seen, l_full l = l_full l' ->
              fst (fst (reveal_after N_order T dr l r rev seen)) = fst (fst (reveal_after N_order T dr l' r rev seen))).
    { intros l l' r rev seen E. unfold reveal_after. rewrite E.
      destruct (extend_loop N_order T dr (s_words r) (s_bo r) (skipn seen (l_ptrs rev)) (negb (l_full l'))) as [[v w] bw].
      destruct (l_full rev); reflexivity. }
    rewrite <- (Eadj l2 _ _ _ _ Hf), <- Hr in H1.
    destruct (l_full (c_left (fst V))) eqn:EfV.
    - pose proof (ra_finish N_order Hord T dr l2 r2 P 0 HJ2 HCV) as HF.
      rewrite ra_seen in HF. cbn [skipn] in HF.
      destruct (ra N_order T dr l2 r2 P) as [[a3 l3] r3].
      destruct (reveal_after N_order T dr l3 r3 {| l_ptrs := P; l_full := true |} (length P)) as [[a4 l4] r4].
      assert (EV : c_left (fst V) = {| l_ptrs := P; l_full := true |}) by (unfold P; destruct (c_left (fst V)); cbn in *; subst; reflexivity).
      rewrite EV, HF in H1. cbn [fst] in H1. lia.
    - assert (EV : c_left (fst V) = {| l_ptrs := P; l_full := false |}) by (unfold P; destruct (c_left (fst V)); cbn in *; subst; reflexivity).
      rewrite EV in H1. fold (ra N_order T dr l2 r2 P) in H1.
      destruct (ra N_order T dr l2 r2 P) as [[a3 l3] r3]. cbn [fst] in H1. lia.
  Qed.

  Lemma rb_seq_K : forall W Bk, length Bk = length W -> length W <= N_order - 1 -> forall bc l r sb sa, K l r sb sa -> sincreasing sb bc (length W) ->
    let '(x, l1, r1) := rb_seq W Bk l r sb bc in K l1 r1 (last bc sb) sa.
  Proof.
    intros W Bk HBk HWN. induction bc as [|c bc IH]; intros l r sb sa HK Hi; cbn [rb_seq]; [exact HK|].
    destruct Hi as [H1 Hi]. pose proof (sincreasing_last _ _ _ Hi) as HL.
    assert (H2 : c <= length W) by lia.
    pose proof (step_b_K W Bk HBk HWN l r sb sa c HK H1 H2) as HK1.
    destruct (reveal_before N_order T dr (rvc W Bk c) sb false l r) as [[x l1] r1].
    specialize (IH l1 r1 c sa HK1 Hi). destruct (rb_seq W Bk l1 r1 c bc) as [[x' l2] r2].
    rewrite (last_cons bc c sb). exact IH.
  Qed.

  (* ANY interleaving of the instalments of the two sides, then the two closing calls *)
  Theorem reveal_interleaved : forall us ws vs ops cb cutsb ca cutsa, ws <> [] ->
    Forall (known T) us -> Forall (known T) ws -> Forall (known T) vs ->
    let U := fin (flatf rs_init us) in
    let Mf := fin (flatf rs_init ws) in
    let V := fin (flatf rs_init vs) in
    let rv := c_right (fst U) in
    let P := l_ptrs (c_left (fst V)) in
    bcuts ops = cb :: cutsb -> acuts ops = ca :: cutsa ->
    sincreasing 0 (cb :: cutsb) (length (s_words rv)) -> last cutsb cb = length (s_words rv) ->
    increasing 0 (ca :: cutsa) (length P) -> last cutsa ca = length P ->
    let '(a, l1, r1) := run_ops (s_words rv) (s_bo rv) P (c_left (fst Mf)) (c_right (fst Mf)) 0 0 ops in
    let '(b, l2, r2) := if l_full (c_left (fst U)) then reveal_before N_order T dr rv (length (s_words rv)) true l1 r1 else (0%Z, l1, r1) in
    let '(c, l3, r3) := if l_full (c_left (fst V)) then reveal_after N_order T dr l2 r2 {| l_ptrs := P; l_full := true |} (length P) else (0%Z, l2, r2) in
    (a + b + c)%Z = (snd (fin (flatf rs_init (us ++ ws ++ vs))) - snd U - snd Mf - snd V)%Z.
  Proof.
    intros us ws vs ops cb cutsb ca cutsa Hne Hu Hw Hv U Mf V rv P Eb Ea Hib Hlb Hia Hla.
    assert (W0 : wf rs_init) by (constructor; cbn; [reflexivity|constructor|reflexivity]).
    assert (WU : wf (flatf rs_init us)) by (apply flat_wf; [exact Hord|exact W0]).
    pose proof (fin_cwf N_order _ WU) as CU. fold U in CU.
    assert (Hsw : length (s_bo rv) = length (s_words rv)) by (destruct CU as [C1 _ _]; exact C1).
    assert (HrvN : length (s_words rv) <= N_order - 1).
    { unfold rv, U. rewrite fin_eq. cbn [fst mkchart c_right]. apply flat_right_len. cbn. lia. }
    assert (HCV : chain N_order 0 P).
    { unfold P, V. rewrite fin_eq. cbn [fst mkchart c_left l_ptrs]. apply (flat_chain N_order Hord T M Inv ext_ctx); [exact W0|exact Hv|exact I]. }
    pose proof (frag_K ws Hne Hw) as HK0. cbn zeta in HK0. fold Mf in HK0.
    (* sort the instalments: all of the left-hand side first *)
    rewrite (sort_ops (s_words rv) (s_bo rv) P Hsw HrvN HCV ops _ _ 0 0 HK0 ltac:(split; [rewrite Eb; exact Hib|rewrite Ea; exact Hia])).
    rewrite Eb, Ea, (run_sorted (s_words rv) (s_bo rv) P Hsw HrvN).
    pose proof (rb_seq_K (s_words rv) (s_bo rv) Hsw HrvN (cb :: cutsb) _ _ 0 0 HK0 Hib) as HK1.
    pose proof (reveal_both_sides us ws vs cb cutsb (length P) [] Hu Hw Hv) as HB. cbn zeta in HB. fold U Mf V rv P in HB.
    specialize (HB Hib Hlb ltac:(cbn [increasing]; lia) eq_refl).
    destruct (rb_seq (s_words rv) (s_bo rv) (c_left (fst Mf)) (c_right (fst Mf)) 0 (cb :: cutsb)) as [[a1 l1] r1].
    change (last (cb :: cutsb) 0) with (last (cb :: cutsb) 0) in HK1. rewrite (last_cons cutsb cb 0), Hlb in HK1.
    (* the right-hand side in one call *)
    rewrite (ra_seq_one_shot N_order Hord T dr cutsa ca l1 r1 P 0 (K_J _ _ _ _ HK1) HCV Hia). rewrite Hla. cbn [skipn]. rewrite firstn_all.
    cbn [ra_seq] in HB. rewrite firstn_all in HB.
    assert (RA0 : forall l0 r0, reveal_after N_order T dr l0 r0 {| l_ptrs := P; l_full := false |} 0 = ra N_order T dr l0 r0 P) by (intros; rewrite ra_seen; reflexivity).
    destruct (l_full (c_left (fst U))) eqn:EfU.
    - pose proof (closing_commutes_ra rv l1 r1 P (length (s_words rv)) 0 Hsw HK1 HCV) as HCm.
      destruct (ra N_order T dr l1 r1 P) as [[y l1a] r1a].
      destruct (reveal_before N_order T dr rv (length (s_words rv)) true l1a r1a) as [[z l2a] r2a].
      destruct (reveal_before N_order T dr rv (length (s_words rv)) true l1 r1) as [[z' l2] r2].
      rewrite (RA0 l2 r2) in HB.
      destruct (ra N_order T dr l2 r2 P) as [[y' l3] r3].
      injection HCm as E1 E2 E3. subst l3 r3.
      destruct (l_full (c_left (fst V))).
      + destruct (reveal_after N_order T dr l2a r2a {| l_ptrs := P; l_full := true |} (length P)) as [[c l4] r4]. lia.
      + lia.
    - rewrite (RA0 l1 r1) in HB.
      destruct (ra N_order T dr l1 r1 P) as [[y l1a] r1a].
      destruct (l_full (c_left (fst V))).
      + destruct (reveal_after N_order T dr l1a r1a {| l_ptrs := P; l_full := true |} (length P)) as [[c l4] r4]. lia.
      + lia.
  Qed.
End RevealBefore.
