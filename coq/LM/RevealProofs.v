(* LM/RevealProofs.v -- lm/partial.hh RevealAfter called incrementally.
   RevealAfter(left, right, reveal, seen) walks reveal.pointers[seen..) with the context in `right`; what it leaves in
   (left, right) is exactly the loop state of ExtendLoop (pointers written so far, the context words still in use and
   their back-offs, left.full = "no longer writing").  So revealing the pointers of the following fragment in any number
   of instalments is the one-shot call split at the instalment boundaries -- provided the bookkeeping that decides
   `left.full` from counts (N-1 pointers, N-1 context words) never disagrees with what the loop would have done, which is
   where the order limit comes in: a pointer whose extension would reach length N is always independent of further left
   context.  Nothing here depends on the table satisfying the loader invariant. *)
From Coq Require Import List ZArith NArith Bool Arith Lia.
From Kenlm Require Import LM.Defs LM.Query LM.QueryProofs LM.Chart LM.ChartProofs LM.FlattenProofs.
Import ListNotations.

Section Reveal.
  Variable N_order : nat.
  Hypothesis Hord : 2 <= N_order.
  Variable T : table.
  Variable dr : bool.

  Notation xw := (ext_write N_order T).
  Notation xf := (ext_full N_order T).
  Notation xl := (extend_loop N_order T dr).
  Notation unr := (un_rest T dr).
  Notation el := (extend_left N_order T).

  Lemma unr_app' : forall a b, unr (a ++ b) = (unr a + unr b)%Z.
  Proof.
    intros a b. unfold un_rest. destruct dr; [|reflexivity].
    induction a as [|p a IH]; cbn [app fold_right]; [lia|]. rewrite IH. destruct (T p); lia.
  Qed.
  Lemma unr_nil'' : unr [] = 0%Z.
  Proof. unfold un_rest. destruct dr; reflexivity. Qed.

  (* ---- the two loops over a concatenation of pointer lists --------------------------------------------------- *)
  Lemma xf_app : forall add P1 P2 a nu back,
    xf add (P1 ++ P2) a nu back =
    (let '(rest1, a1, nu1, back1) := xf add P1 a nu back in
     let '(rest2, a2, nu2, back2) := xf add P2 a1 nu1 back1 in
     (rest1 ++ rest2, a2, nu2, back2)).
  Proof.
    intros add P1. induction P1 as [|p P1 IH]; intros P2 a nu back.
    - cbn [app ext_full]. destruct (xf add P2 a nu back) as [[[r2 a2] n2] b2]. reflexivity.
    - cbn [app ext_full]. destruct (Nat.eqb_spec nu 0) as [E|E].
      + subst nu. destruct P2 as [|q P2]; cbn [ext_full Nat.eqb]; rewrite ?app_nil_r; reflexivity.
      + destruct (el (firstn nu add) back p) as [[ret bo] nu'].
        apply IH.
  Qed.

  Lemma xw_app : forall add al P1 P2 w a nu back,
    xw add al (P1 ++ P2) w a nu back =
    (let '(rest1, w1, a1, mf1, nu1, back1) := xw add al P1 w a nu back in
     if mf1 then (rest1 ++ P2, w1, a1, true, nu1, back1) else xw add al P2 w1 a1 nu1 back1).
  Proof.
    intros add al P1. induction P1 as [|p P1 IH]; intros P2 w a nu back.
    - reflexivity.
    - cbn [app ext_write]. destruct (el (firstn nu add) back p) as [[ret bo] nu'].
      destruct (r_indep ret); [reflexivity|].
      destruct (negb (Nat.eqb nu' al)); [reflexivity|]. apply IH.
  Qed.

  (* when the writing loop runs to the end of its list: nothing left over, next_use untouched, one pointer written each *)
  Lemma xw_nobreak : forall add al P w a nu back rest w' a' nu' back',
    xw add al P w a nu back = (rest, w', a', false, nu', back') ->
    rest = [] /\ (P <> [] -> nu' = al) /\ (P = [] -> nu' = nu /\ back' = back) /\ exists wn, w' = w ++ wn /\ length wn = length P.
  Proof.
    intros add al P. induction P as [|p P IH]; intros w a nu back rest w' a' nu' back' H.
    - cbn [ext_write] in H. injection H as <- <- <- <- <-. split; [reflexivity|]. split; [congruence|]. split; [auto|].
      exists []. rewrite app_nil_r. split; reflexivity.
    - cbn [ext_write] in H. destruct (el (firstn nu add) back p) as [[ret bo] nu1].
      destruct (r_indep ret); [discriminate|].
      destruct (Nat.eqb_spec nu1 al) as [E|E]; cbn [negb] in H; [|discriminate].
      destruct (IH _ _ _ _ _ _ _ _ _ H) as [H1 [H2 [H3 [wn [H4 H5]]]]].
      split; [exact H1|]. split.
      + intros _. destruct P as [|q P]; [destruct (H3 eq_refl) as [-> _]; exact E|apply H2; discriminate].
      + split; [discriminate|]. exists (r_ext ret :: wn). split; [rewrite H4, <- app_assoc; reflexivity|cbn [length]; lia].
  Qed.

  (* accumulators only shift the results *)
  Lemma xf_shift : forall add P a0 a nu back,
    xf add P (a0 + a)%Z nu back = (let '(rest, a1, nu1, back1) := xf add P a nu back in (rest, (a0 + a1)%Z, nu1, back1)).
  Proof.
    intros add P. induction P as [|p P IH]; intros a0 a nu back; cbn [ext_full]; [reflexivity|].
    destruct (Nat.eqb nu 0); [reflexivity|].
    destruct (el (firstn nu add) back p) as [[ret bo] nu'].
    replace (a0 + a + r_prob ret)%Z with (a0 + (a + r_prob ret))%Z by lia. apply IH.
  Qed.

  Lemma xw_shift : forall add al P w0 w a0 a nu back,
    xw add al P (w0 ++ w) (a0 + a)%Z nu back =
    (let '(rest, w1, a1, mf, nu1, back1) := xw add al P w a nu back in (rest, w0 ++ w1, (a0 + a1)%Z, mf, nu1, back1)).
  Proof.
    intros add al P. induction P as [|p P IH]; intros w0 w a0 a nu back; cbn [ext_write]; [reflexivity|].
    destruct (el (firstn nu add) back p) as [[ret bo] nu'].
    destruct (r_indep ret).
    - f_equal. f_equal. f_equal. f_equal. lia.
    - rewrite <- app_assoc.
      replace (a0 + a + r_rest ret)%Z with (a0 + (a + r_rest ret))%Z by lia.
      destruct (negb (Nat.eqb nu' al)); [reflexivity|]. apply IH.
  Qed.

  (* only the first next_use words of `add` are looked at *)
  Notation ne := (Forall (fun p : key => p <> [])).
  Lemma xf_add : forall add P a nu nu0 back, ne P -> nu <= nu0 ->
    xf (firstn nu0 add) P a nu back = xf add P a nu back.
  Proof.
    intros add P. induction P as [|p P IH]; intros a nu nu0 back HP Hn; cbn [ext_full]; [reflexivity|].
    inversion HP as [|? ? Hp HP']. subst.
    destruct (Nat.eqb nu 0); [reflexivity|].
    rewrite firstn_firstn. replace (Nat.min nu nu0) with nu by lia.
    destruct (el (firstn nu add) back p) as [[ret bo] nu'] eqn:E.
    apply IH; [exact HP'|]. destruct (extend_left_bounds N_order Hord T _ _ _ _ _ _ Hp E) as [B1 _].
    rewrite firstn_length in B1. lia.
  Qed.

  (* only the first next_use incoming back-offs are looked at; what comes out is compared through firstn next_use *)
  Lemma xf_bin : forall add P a nu back, nu <= length add ->
    (let '(rest, a1, nu1, b1) := xf add P a nu back in (rest, a1, nu1, firstn nu1 b1)) =
    (let '(rest, a1, nu1, b1) := xf add P a nu (firstn nu back) in (rest, a1, nu1, firstn nu1 b1)).
  Proof.
    intros add [|p P] a nu back Hn; cbn [ext_full].
    - rewrite firstn_firstn, Nat.min_id. reflexivity.
    - destruct (Nat.eqb_spec nu 0) as [E|E]; [subst; reflexivity|].
      rewrite (extend_left_bin N_order T (firstn nu add) back p).
      rewrite (extend_left_bin N_order T (firstn nu add) (firstn nu back) p).
      rewrite firstn_length. replace (Nat.min nu (length add)) with nu by lia.
      rewrite firstn_firstn, Nat.min_id. reflexivity.
  Qed.

  Lemma xw_bin : forall add al P w a nu back, nu <= length add ->
    (let '(rest, w1, a1, mf, nu1, b1) := xw add al P w a nu back in (rest, w1, a1, mf, nu1, firstn nu1 b1)) =
    (let '(rest, w1, a1, mf, nu1, b1) := xw add al P w a nu (firstn nu back) in (rest, w1, a1, mf, nu1, firstn nu1 b1)).
  Proof.
    intros add al [|p P] w a nu back Hn; cbn [ext_write].
    - rewrite firstn_firstn, Nat.min_id. reflexivity.
    - rewrite (extend_left_bin N_order T (firstn nu add) back p).
      rewrite (extend_left_bin N_order T (firstn nu add) (firstn nu back) p).
      rewrite firstn_length. replace (Nat.min nu (length add)) with nu by lia.
      rewrite firstn_firstn, Nat.min_id. reflexivity.
  Qed.

  (* bounds kept by the loops *)
  Lemma xf_inv : forall add P a nu back rest a1 nu1 b1, ne P -> nu <= length add -> nu <= length back ->
    xf add P a nu back = (rest, a1, nu1, b1) -> nu1 <= nu /\ nu1 <= length b1.
  Proof.
    intros add P. induction P as [|p P IH]; intros a nu back rest a1 nu1 b1 HP Hn Hb H; cbn [ext_full] in H.
    - injection H as <- <- <- <-. lia.
    - inversion HP as [|? ? Hp HP']. subst.
      destruct (Nat.eqb_spec nu 0) as [E|E]; [injection H as <- <- <- <-; lia|].
      destruct (el (firstn nu add) back p) as [[ret bo] nu'] eqn:E1.
      destruct (extend_left_bounds N_order Hord T _ _ _ _ _ _ Hp E1) as [B1 [B2 _]]. rewrite firstn_length in B1.
      assert (Hx : nu' <= length add) by lia.
      destruct (IH _ _ _ _ _ _ _ HP' Hx B2 H). lia.
  Qed.

  Lemma xw_inv : forall add al P w a nu back rest w1 a1 mf nu1 b1, ne P -> nu <= length add -> nu <= length back ->
    xw add al P w a nu back = (rest, w1, a1, mf, nu1, b1) -> nu1 <= length add /\ nu1 <= length b1 /\ ne rest.
  Proof.
    intros add al P. induction P as [|p P IH]; intros w a nu back rest w1 a1 mf nu1 b1 HP Hn Hb H; cbn [ext_write] in H.
    - injection H as <- <- <- <- <- <-. repeat split; [lia|lia|constructor].
    - inversion HP as [|? ? Hp HP']. subst.
      destruct (el (firstn nu add) back p) as [[ret bo] nu'] eqn:E1.
      destruct (extend_left_bounds N_order Hord T _ _ _ _ _ _ Hp E1) as [B1 [B2 _]]. rewrite firstn_length in B1.
      destruct (r_indep ret); [injection H as <- <- <- <- <- <-; repeat split; [lia|lia|exact HP']|].
      destruct (negb (Nat.eqb nu' al)); [injection H as <- <- <- <- <- <-; repeat split; [lia|lia|exact HP']|].
      assert (Hx : nu' <= length add) by lia.
      apply (IH _ _ _ _ _ _ _ _ _ _ HP' Hx B2 H).
  Qed.

  (* the order limit: a pointer whose extension would reach length N always ends independent of further context *)
  Lemma el_long_indep : forall add bin p, p <> [] -> length p <= N_order - 1 -> N_order <= length p + length add ->
    r_indep (fst (fst (el add bin p))) = true.
  Proof.
    intros add bin p Hp Hl Hn. rewrite extend_left_core. cbn zeta.
    assert (Hl1 : 1 <= length p) by (destruct p; [congruence|cbn; lia]).
    pose proof (core_long_indep N_order T add (length p - 1) p (rx0_of T p) ltac:(lia) ltac:(lia) Hord) as H.
    destruct (resume_core N_order T add (length p - 1) p (rx0_of T p)) as [[b o] r]. exact H.
  Qed.

  (* ---- ExtendLoop = first loop, then `fin2` ---------------------------------------------------------------- *)
  Definition fin2 (add : list word) (st : list key * list key * Z * bool * nat * list boval) : extend_ret * list key * list boval :=
    let '(rest1, w, adj1, mf, nu1, back1) := st in
    let '(rest2, adj2, nu2, back2) := xf add rest1 adj1 nu1 back1 in
    ({| x_adjust := (adj2 + unr rest2)%Z; x_make_full := mf; x_next_use := nu2 |}, w, firstn nu2 back2).

  Lemma xl_write : forall add bs P,
    xl add bs P true = fin2 add (xw add (length add) P [] 0%Z (length add) (firstn (length add) bs)).
  Proof.
    intros. unfold extend_loop, fin2.
    destruct (xw add (length add) P [] 0%Z (length add) (firstn (length add) bs)) as [[[[[rest1 w] a1] mf] nu1] b1].
    destruct (xf add rest1 a1 nu1 b1) as [[[rest2 a2] nu2] b2]. reflexivity.
  Qed.
  Lemma xl_full : forall add bs P,
    xl add bs P false = fin2 add (P, [], 0%Z, false, length add, firstn (length add) bs).
  Proof.
    intros. unfold extend_loop, fin2.
    destruct (xf add P 0%Z (length add) (firstn (length add) bs)) as [[[rest2 a2] nu2] b2]. reflexivity.
  Qed.

  Lemma fin2_bin : forall add rest w a mf nu b b', nu <= length add -> firstn nu b = firstn nu b' ->
    fin2 add (rest, w, a, mf, nu, b) = fin2 add (rest, w, a, mf, nu, b').
  Proof.
    intros add rest w a mf nu b b' Hn Hb. unfold fin2.
    pose proof (xf_bin add rest a nu b Hn) as H1. pose proof (xf_bin add rest a nu b' Hn) as H2. rewrite Hb in H1.
    destruct (xf add rest a nu b) as [[[r1 a1] n1] c1]. destruct (xf add rest a nu b') as [[[r2 a2] n2] c2].
    destruct (xf add rest a nu (firstn nu b')) as [[[r3 a3] n3] c3].
    injection H1 as -> -> -> E1. injection H2 as -> -> -> E2. rewrite E1, E2. reflexivity.
  Qed.

  Lemma fin2_shift : forall add rest w0 w a0 a mf nu b,
    fin2 add (rest, w0 ++ w, (a0 + a)%Z, mf, nu, b) =
    (let '(v, w', bw) := fin2 add (rest, w, a, mf, nu, b) in
     ({| x_adjust := (a0 + x_adjust v)%Z; x_make_full := x_make_full v; x_next_use := x_next_use v |}, w0 ++ w', bw)).
  Proof.
    intros. unfold fin2. rewrite xf_shift. destruct (xf add rest a nu b) as [[[r1 a1] n1] c1]. cbn.
    f_equal. f_equal. f_equal. lia.
  Qed.

  (* the second loop continued by a call of its own: the words still in use and their back-offs are the whole interface *)
  Lemma full_cont : forall add rest1 P2 a1 nu1 b1 w mf, ne rest1 -> ne P2 -> nu1 <= length add -> nu1 <= length b1 ->
    let '(r1', a1', n1', b1') := xf add rest1 a1 nu1 b1 in
    let '(v2, w2, bw2) := xl (firstn n1' add) (firstn n1' b1') P2 false in
    fin2 add (rest1 ++ P2, w, a1, mf, nu1, b1) =
    ({| x_adjust := (a1' + unr r1' + x_adjust v2)%Z; x_make_full := mf; x_next_use := x_next_use v2 |}, w, bw2)
    /\ w2 = [] /\ x_make_full v2 = false /\ x_next_use v2 <= n1' /\ n1' <= length add /\ n1' <= length b1'.
  Proof.
    intros add rest1 P2 a1 nu1 b1 w mf H1 H2 Hn Hb.
    destruct (xf add rest1 a1 nu1 b1) as [[[r1' a1'] n1'] b1'] eqn:E1.
    destruct (xf_inv _ _ _ _ _ _ _ _ _ H1 Hn Hb E1) as [I1 I2].
    rewrite xl_full. rewrite firstn_length. replace (Nat.min n1' (length add)) with n1' by lia.
    rewrite firstn_firstn, Nat.min_id.
    unfold fin2 at 1. rewrite xf_add by (assumption || lia).
    assert (I00 : n1' <= length add) by lia.
    pose proof (xf_bin add P2 0%Z n1' b1' I00) as HB.
    destruct (xf add P2 0%Z n1' (firstn n1' b1')) as [[[r2 a2] n2] b2] eqn:E2.
    destruct (xf add P2 0%Z n1' b1') as [[[r3 a3] n3] b3] eqn:E3.
    injection HB as -> -> -> HB.
    assert (I0 : n1' <= length add) by lia.
    destruct (xf_inv _ _ _ _ _ _ _ _ _ H2 I0 I2 E3) as [I3 I4].
    unfold fin2. rewrite xf_app, E1.
    replace a1' with (a1' + 0)%Z by lia. rewrite xf_shift, E3.
    cbn [x_adjust x_make_full x_next_use]. rewrite unr_app', HB.
    repeat split; try lia. f_equal. f_equal. f_equal. lia.
  Qed.

  (* ---- RevealAfter with a reveal state that is not (yet) complete ------------------------------------------------ *)
  Definition ra (l : left) (r : state) (Pp : list key) : Z * left * state :=
    reveal_after N_order T dr l r {| l_ptrs := Pp; l_full := false |} 0.

  Lemma ra_unfold : forall l r Pp,
    ra l r Pp =
    (let '(v, w, bw) := xl (s_words r) (s_bo r) Pp (negb (l_full l)) in
     (x_adjust v,
      (if l_full l then l
       else {| l_ptrs := l_ptrs l ++ w;
               l_full := orb (orb (x_make_full v) (Nat.eqb (x_next_use v) (N_order - 1))) (Nat.eqb (length (l_ptrs l ++ w)) (N_order - 1)) |}),
      {| s_words := firstn (x_next_use v) (s_words r); s_bo := bw |})).
  Proof.
    intros l r Pp. unfold ra, reveal_after. cbn [skipn l_ptrs l_full].
    destruct (xl (s_words r) (s_bo r) Pp (negb (l_full l))) as [[v w] bw]. reflexivity.
  Qed.

  (* what (left, right) must satisfy k pointers into the revealed list, and the shape of that list *)
  Definition J (l : left) (r : state) (k : nat) : Prop :=
    length (s_bo r) = length (s_words r) /\ (l_full l = false -> length (l_ptrs l) = length (s_words r) + k).
  Fixpoint chain (k : nat) (P : list key) : Prop :=
    match P with [] => True | p :: P' => length p = S k /\ S k <= N_order - 1 /\ chain (S k) P' end.

  Lemma chain_ne : forall P k, chain k P -> ne P.
  Proof.
    induction P as [|p P IH]; intros k H; [constructor|]. destruct H as [H1 [_ H2]].
    constructor; [destruct p; [discriminate|discriminate]|exact (IH _ H2)].
  Qed.
  Lemma chain_app : forall P1 P2 k, chain k (P1 ++ P2) -> chain k P1 /\ chain (k + length P1) P2.
  Proof.
    induction P1 as [|p P1 IH]; intros P2 k H; cbn [app length chain] in *.
    - rewrite Nat.add_0_r. split; [exact I|exact H].
    - destruct H as [H1 [H2 H3]]. destruct (IH _ _ H3) as [H4 H5]. replace (k + S (length P1)) with (S k + length P1) by lia. tauto.
  Qed.

  Lemma ra_app : forall P1 P2 l r k, J l r k -> chain k (P1 ++ P2) ->
    let '(a1, l1, r1) := ra l r P1 in
    ra l r (P1 ++ P2) = (let '(a2, l2, r2) := ra l1 r1 P2 in ((a1 + a2)%Z, l2, r2)) /\ J l1 r1 (k + length P1).
  Proof.
    intros P1 P2 l r k [Hs Hopen] Hc.
    destruct (chain_app _ _ _ Hc) as [Hc1 Hc2].
    pose proof (chain_ne _ _ Hc1) as N1. pose proof (chain_ne _ _ Hc2) as N2.
    rewrite !ra_unfold.
    set (add := s_words r) in *. set (bs := s_bo r) in *. set (al := length add) in *.
    assert (Hb0 : length (firstn al bs) = al) by (rewrite firstn_length; lia).
    destruct (l_full l) eqn:Ef; cbn [negb].
    - (* left already complete: second loop only *)
      rewrite (xl_full add bs P1), (xl_full add bs (P1 ++ P2)). fold al.
      pose proof (full_cont add P1 P2 0%Z al (firstn al bs) [] false N1 N2 (le_n _) ltac:(lia)) as HF.
      unfold fin2 at 1.
      destruct (xf add P1 0%Z al (firstn al bs)) as [[[r1' a1'] n1'] b1'] eqn:E1.
      cbn [x_adjust x_next_use x_make_full].
      rewrite ra_unfold. cbn [l_full negb s_words s_bo]. rewrite Ef. cbn [negb].
      destruct (xl (firstn n1' add) (firstn n1' b1') P2 false) as [[v2 w2] bw2] eqn:E2.
      destruct HF as [HF [Hw2 [Hm2 [Hn2 [Hn1 Hn1b]]]]]. rewrite HF. cbn [x_adjust x_next_use].
      split.
      + f_equal. f_equal. rewrite firstn_firstn. replace (Nat.min (x_next_use v2) n1') with (x_next_use v2) by lia. reflexivity.
      + split; [cbn [s_words s_bo]; rewrite !firstn_length; lia|rewrite Ef; discriminate].
    - (* still writing *)
      specialize (Hopen eq_refl).
      rewrite (xl_write add bs P1), (xl_write add bs (P1 ++ P2)). fold al.
      rewrite xw_app.
      destruct (xw add al P1 [] 0%Z al (firstn al bs)) as [[[[[rest1 w1] a1] mf1] nu1] bk1] eqn:E1.
      assert (Hb0' : al <= length (firstn al bs)) by lia.
      destruct (xw_inv _ _ _ _ _ _ _ _ _ _ _ _ _ N1 (le_n _) Hb0' E1) as [I1 [I2 I3]].
      destruct mf1.
      + (* the first loop stopped inside P1: from there on both runs are in the second loop *)
        pose proof (full_cont add rest1 P2 a1 nu1 bk1 w1 true I3 N2 I1 I2) as HF.
        unfold fin2 at 1.
        destruct (xf add rest1 a1 nu1 bk1) as [[[r1' a1'] n1'] b1'] eqn:E2.
        cbn [x_adjust x_next_use x_make_full orb].
        rewrite ra_unfold. cbn [l_full negb s_words s_bo l_ptrs].
        destruct (xl (firstn n1' add) (firstn n1' b1') P2 false) as [[v2 w2] bw2] eqn:E3.
        destruct HF as [HF [Hw2 [Hm2 [Hn2 [Hn1 Hn1b]]]]]. rewrite HF. cbn [x_adjust x_next_use x_make_full orb].
        split.
        * f_equal. f_equal. rewrite firstn_firstn. replace (Nat.min (x_next_use v2) n1') with (x_next_use v2) by lia. reflexivity.
        * split; [cbn [s_words s_bo]; rewrite !firstn_length; lia|cbn [l_full]; discriminate].
      + (* the first loop ran through P1 *)
        destruct (xw_nobreak _ _ _ _ _ _ _ _ _ _ _ _ E1) as [-> [K1 [K2 [wn [K3 K4]]]]]. cbn [app] in K3. subst w1.
        assert (nu1 = al) by (destruct P1 as [|q Q]; [destruct (K2 eq_refl) as [-> _]; reflexivity|apply K1; discriminate]). subst nu1.
        unfold fin2 at 1. cbn [ext_full]. rewrite unr_nil''. cbn [x_adjust x_next_use x_make_full orb].
        assert (Eadd : firstn al add = add) by (apply firstn_all).
        rewrite Eadd.
        set (f1 := orb (Nat.eqb al (N_order - 1)) (Nat.eqb (length (l_ptrs l ++ wn)) (N_order - 1))).
        rewrite ra_unfold. cbn [l_full negb s_words s_bo l_ptrs].
        split; [|split; [cbn [s_words s_bo]; rewrite firstn_length; fold al; lia|
                         cbn [l_full l_ptrs s_words]; intros _; rewrite app_length; fold al; lia]].
        destruct f1 eqn:Ef1; cbn [negb].
        * (* the counts say complete although the loop had not stopped *)
          destruct P2 as [|p P2'].
          -- cbn [ext_write]. unfold fin2. cbn [ext_full]. rewrite unr_nil''. cbn [x_adjust x_next_use x_make_full orb].
             rewrite xl_full. unfold fin2. cbn [ext_full]. rewrite unr_nil''. cbn [x_adjust x_next_use].
             fold al. fold f1. rewrite Ef1. rewrite Eadd. rewrite !firstn_firstn, !Nat.min_id.
             f_equal. f_equal. lia.
          -- destruct Hc2 as [Hp1 [Hp2 _]].
             assert (Hlong : N_order <= length p + al).
             { unfold f1 in Ef1. apply orb_true_iff in Ef1. destruct Ef1 as [E|E]; apply Nat.eqb_eq in E.
               - lia.
               - rewrite app_length in E. lia. }
             assert (Hal : al <> 0) by lia.
             assert (Hpne : p <> []) by (destruct p; [cbn in Hp1; lia|discriminate]).
             pose proof (el_long_indep add bk1 p Hpne ltac:(lia) Hlong) as Hind.
             cbn [ext_write]. rewrite Eadd.
             rewrite xl_full. fold al. unfold fin2 at 2. cbn [ext_full].
             replace (Nat.eqb al 0) with false by (symmetry; apply Nat.eqb_neq; exact Hal).
             rewrite Eadd. rewrite firstn_firstn, Nat.min_id.
             assert (Eel : el add (firstn al bk1) p = el add bk1 p) by (symmetry; apply extend_left_bin). rewrite Eel.
             destruct (el add bk1 p) as [[ret bo] nu'] eqn:E3. cbn [fst] in Hind. rewrite Hind.
             unfold fin2.
             replace (a1 + r_prob ret)%Z with (a1 + (0 + r_prob ret))%Z by lia. rewrite xf_shift.
             destruct (xf add P2' (0 + r_prob ret)%Z nu' bo) as [[[r3 a3] n3] b3] eqn:E4.
             cbn [x_adjust x_next_use x_make_full orb].
             f_equal. f_equal. lia.
        * (* both go on writing *)
          rewrite xl_write. fold al. rewrite firstn_firstn, Nat.min_id.
          replace a1 with (a1 + 0)%Z by lia.
          replace wn with (wn ++ []) at 1 by apply app_nil_r.
          rewrite xw_shift.
          pose proof (xw_bin add al P2 [] 0%Z al bk1 (le_n _)) as HB.
          destruct (xw add al P2 [] 0%Z al bk1) as [[[[[rest2 w2] a2] mf2] nu2] b2] eqn:E5.
          destruct (xw add al P2 [] 0%Z al (firstn al bk1)) as [[[[[rest3 w3] a3] mf3] nu3] b3] eqn:E6.
          injection HB as -> -> -> -> -> HB.
          assert (I2' : al <= length bk1) by (fold al in I2; exact I2).
          destruct (xw_inv _ _ _ _ _ _ _ _ _ _ _ _ _ N2 (le_n _) I2' E5) as [I4 [I5 I6]].
          rewrite fin2_shift.
          rewrite (fin2_bin add rest3 w3 a3 mf3 nu3 b2 b3 I4 HB).
          destruct (fin2 add (rest3, w3, a3, mf3, nu3, b3)) as [[v w'] bw].
          cbn [x_adjust x_next_use x_make_full]. rewrite !app_assoc. f_equal. f_equal. lia.
  Qed.

  (* ---- any number of instalments -------------------------------------------------------------------------- *)
  Lemma ra_seen : forall l r P seen,
    reveal_after N_order T dr l r {| l_ptrs := P; l_full := false |} seen = ra l r (skipn seen P).
  Proof. intros. unfold ra, reveal_after. cbn [l_ptrs l_full skipn]. reflexivity. Qed.

  (* RevealAfter called once per cut point c1 <= c2 <= ..., each time with the first c_i pointers and seen = c_(i-1) *)
  Fixpoint ra_seq (l : left) (r : state) (P : list key) (seen : nat) (cuts : list nat) : Z * left * state :=
    match cuts with
    | [] => (0%Z, l, r)
    | c :: cs =>
        let '(a, l1, r1) := reveal_after N_order T dr l r {| l_ptrs := firstn c P; l_full := false |} seen in
        let '(a', l2, r2) := ra_seq l1 r1 P c cs in ((a + a')%Z, l2, r2)
    end.

  Fixpoint increasing (from : nat) (cuts : list nat) (upto : nat) : Prop :=
    match cuts with [] => from <= upto | c :: cs => from <= c /\ increasing c cs upto end.

  Lemma chain_skipn : forall P k s, chain k P -> chain (k + s) (skipn s P).
  Proof.
    induction P as [|p P IH]; intros k s H.
    - rewrite skipn_nil. exact I.
    - destruct s as [|s]; [rewrite Nat.add_0_r; exact H|]. cbn [skipn]. destruct H as [_ [_ H]].
      replace (k + S s) with (S k + s) by lia. apply IH. exact H.
  Qed.
  Lemma chain_firstn : forall P k c, chain k P -> chain k (firstn c P).
  Proof.
    induction P as [|p P IH]; intros k c H; [rewrite firstn_nil; exact I|].
    destruct c as [|c]; [exact I|]. cbn [firstn chain]. destruct H as [H1 [H2 H3]]. repeat split; try assumption. apply IH. exact H3.
  Qed.

  Lemma skip_first_split : forall (A : Type) (P : list A) s c d, s <= c -> c <= d -> d <= length P ->
    skipn s (firstn d P) = skipn s (firstn c P) ++ skipn c (firstn d P).
  Proof.
    intros A P s c d H1 H2 H3.
    rewrite <- (firstn_skipn c (firstn d P)) at 1. rewrite firstn_firstn. replace (Nat.min c d) with c by lia.
    rewrite skipn_app. rewrite firstn_length.
    replace (s - Nat.min c (length P)) with 0 by lia. reflexivity.
  Qed.

  Lemma last_default : forall (cs : list nat) a b, cs <> [] -> last cs a = last cs b.
  Proof.
    induction cs as [|x cs IH]; intros a b H; [congruence|]. destruct cs as [|y cs']; [reflexivity|].
    cbn [last]. apply (IH a b). discriminate.
  Qed.
  Lemma last_cons : forall (cs : list nat) x a, last (x :: cs) a = last cs x.
  Proof.
    intros cs x a. destruct cs as [|y cs']; [reflexivity|].
    change (last (x :: y :: cs') a) with (last (y :: cs') a). apply last_default. discriminate.
  Qed.
  Lemma increasing_last : forall cuts from upto, increasing from cuts upto -> from <= last cuts from /\ last cuts from <= upto.
  Proof.
    induction cuts as [|x cs IH]; intros from upto H; cbn [increasing last] in *; [lia|].
    destruct H as [H1 H2]. specialize (IH x upto H2). destruct cs as [|y cs']; [cbn [last] in IH; lia|].
    rewrite (last_default (y :: cs') from x) by discriminate. lia.
  Qed.

  Theorem ra_seq_one_shot : forall cuts c l r P seen, J l r seen -> chain 0 P -> increasing seen (c :: cuts) (length P) ->
    ra_seq l r P seen (c :: cuts) = ra l r (skipn seen (firstn (last cuts c) P)).
  Proof.
    induction cuts as [|c' cuts IH]; intros c l r P seen HJ Hc Hi.
    - cbn [ra_seq last]. rewrite ra_seen.
      destruct (ra l r (skipn seen (firstn c P))) as [[a l1] r1]. f_equal. f_equal. lia.
    - destruct Hi as [H1 Hi]. pose proof Hi as Hi'. destruct Hi' as [H2 Hi'].
      pose proof (increasing_last _ _ _ Hi') as Hlast.
      change (ra_seq l r P seen (c :: c' :: cuts)) with
        (let '(a, l1, r1) := reveal_after N_order T dr l r {| l_ptrs := firstn c P; l_full := false |} seen in
         let '(a', l2, r2) := ra_seq l1 r1 P c (c' :: cuts) in ((a + a')%Z, l2, r2)).
      rewrite ra_seen.
      rewrite (last_cons cuts c' c).
      set (d := last cuts c') in *.
      assert (Hcd : c <= d) by lia. assert (HdP : d <= length P) by lia.
      rewrite (skip_first_split _ P seen c d H1 Hcd HdP).
      assert (Hch : chain seen (skipn seen (firstn c P) ++ skipn c (firstn d P))).
      { rewrite <- (skip_first_split _ P seen c d H1 Hcd HdP). apply (chain_skipn _ 0 seen). apply chain_firstn. exact Hc. }
      pose proof (ra_app (skipn seen (firstn c P)) (skipn c (firstn d P)) l r seen HJ Hch) as HA.
      destruct (ra l r (skipn seen (firstn c P))) as [[a1 l1] r1]. destruct HA as [HA HJ1].
      rewrite HA.
      assert (Hlen : seen + length (skipn seen (firstn c P)) = c).
      { rewrite skipn_length, firstn_length. lia. }
      rewrite Hlen in HJ1.
      rewrite (IH c' l1 r1 P c HJ1 Hc Hi). fold d. reflexivity.
  Qed.

  (* ---- the last call, once the following fragment's left state is known to be complete ---------------------------- *)
  Lemma ra_finish : forall l r P seen, J l r seen -> chain seen (skipn seen P) ->
    reveal_after N_order T dr l r {| l_ptrs := P; l_full := true |} seen =
    (let '(a1, l1, r1) := reveal_after N_order T dr l r {| l_ptrs := P; l_full := false |} seen in
     let '(a2, l2, r2) := reveal_after N_order T dr l1 r1 {| l_ptrs := P; l_full := true |} (length P) in
     ((a1 + a2)%Z, l2, r2)).
  Proof.
    intros l r P seen HJ Hc.
    pose proof (ra_app (skipn seen P) [] l r seen HJ ltac:(rewrite app_nil_r; exact Hc)) as HA.
    rewrite ra_seen. unfold ra in *. unfold reveal_after in *. cbn [l_ptrs l_full skipn] in *.
    rewrite skipn_all.
    destruct (xl (s_words r) (s_bo r) (skipn seen P) (negb (l_full l))) as [[v w] bw] eqn:E.
    destruct HA as [_ [HS _]]. cbn [s_words s_bo] in HS.
    unfold extend_loop. cbn [ext_write ext_full length s_words s_bo l_full].
    rewrite <- HS. rewrite firstn_all.
    destruct (l_full l) eqn:Ef.
    - rewrite Ef. cbn [negb ext_full x_adjust x_next_use x_make_full]. rewrite unr_nil'', firstn_all.
      repeat (f_equal; try lia).
    - cbn [l_full l_ptrs].
      destruct (orb (orb (x_make_full v) (Nat.eqb (x_next_use v) (N_order - 1))) (Nat.eqb (length (l_ptrs l ++ w)) (N_order - 1))) eqn:Eo;
        cbn [negb ext_write ext_full x_adjust x_next_use x_make_full]; rewrite unr_nil'', firstn_all; rewrite ?app_nil_r; cbn [orb].
      + repeat (f_equal; try lia).
      + repeat (f_equal; try lia).
  Qed.
End Reveal.

(* ---- fragments: the left pointers of a scored fragment form a chain, so the instalments add up to the whole minus the parts ---- *)
Section RevealFragments.
  Variable N_order : nat.
  Hypothesis Hord : 2 <= N_order.
  Variable T : table.
  Variable M : arpa.
  Hypothesis Inv : TInv N_order T M.
  Variable dr : bool.
  Hypothesis rest_dr : dr = false -> forall k e, T k = Some e -> e_rest e = e_prob e.
  Hypothesis ext_ctx : forall k e, T k = Some e -> e_ext e = true -> 2 <= length k -> exists x, T (x :: k) <> None.

  Notation flatf := (flat N_order T).
  Notation fin := (rs_finish N_order).

  Lemma chain_snoc : forall P k p, chain N_order k P -> length p = S (k + length P) -> S (k + length P) <= N_order - 1 ->
    chain N_order k (P ++ [p]).
  Proof.
    induction P as [|q P IH]; intros k p H Hl Hn; cbn [app chain length] in *.
    - rewrite Nat.add_0_r in *. repeat split; assumption.
    - destruct H as [H1 [H2 H3]]. repeat split; try assumption. apply IH; [exact H3|lia|lia].
  Qed.

  Lemma term_chain : forall X w, wf X -> known T w -> chain N_order 0 (rs_ptrs X) -> chain N_order 0 (rs_ptrs (rs_terminal N_order T X w)).
  Proof.
    intros X w WX Hw HC. unfold rs_terminal.
    destruct (full_score N_order T (rs_right X) w) as [rf outf] eqn:Hf.
    destruct (rs_done X) eqn:Ed; [exact HC|]. destruct (r_indep rf) eqn:Ei; [exact HC|]. cbn [rs_ptrs].
    pose proof (wf_state X WX) as Hs. unfold swf in Hs. pose proof (wf_open X WX Ed) as Ho.
    destruct (rs_right X) as [c1 B1]. cbn [s_words s_bo] in *.
    destruct (sim_ext N_order Hord T M Inv ext_ctx c1 B1 w rf outf Hw Hs Hf Ei) as [e [He [Hl [Hc1 [_ [_ [Hx _]]]]]]].
    apply chain_snoc; [exact HC|rewrite Hx; cbn [length]; lia|lia].
  Qed.

  Lemma flat_chain : forall ws X, wf X -> Forall (known T) ws -> chain N_order 0 (rs_ptrs X) -> chain N_order 0 (rs_ptrs (flatf X ws)).
  Proof.
    induction ws as [|w ws IH]; intros X WX Hk HC; [exact HC|]. inversion Hk as [|? ? Hw Hk']. subst.
    cbn [flat fold_left]. apply IH; [apply term_wf; [exact Hord|exact WX]|exact Hk'|apply term_chain; assumption].
  Qed.

  Lemma reveal_after_one_shot : forall us ws, Forall (known T) us -> Forall (known T) ws ->
    let A := fin (flatf rs_init us) in
    let B := fin (flatf rs_init ws) in
    fst (fst (reveal_after N_order T dr (c_left (fst A)) (c_right (fst A)) (c_left (fst B)) 0)) =
    (snd (fin (flatf rs_init (us ++ ws))) - snd A - snd B)%Z.
  Proof.
    intros us ws Hu Hw A B.
    rewrite (reveal_after_is_subsume N_order T dr (c_left (fst A)) (c_right (fst A)) (c_left (fst B)) (c_right (fst B))).
    destruct (subsume N_order T dr (c_left (fst A)) (c_right (fst A)) (c_left (fst B)) (c_right (fst B))) as [[adj l'] r'] eqn:ES.
    pose proof (subsume_flat N_order Hord T M Inv dr rest_dr ext_ctx us ws Hu Hw adj l' r' ES) as HF.
    apply (f_equal snd) in HF. cbn [fst snd] in *. unfold rs_finish at 1 in HF. cbn [snd mkrs rs_prob] in HF.
    unfold A, B. lia.
  Qed.

  (* RevealAfter in instalments: the pointers of the following fragment revealed c1, then c2, ... at a time (the last cut
     being all of them), plus the closing call when that fragment's left state is complete, give the whole minus the parts *)
  Theorem reveal_after_incremental : forall us ws c cuts, Forall (known T) us -> Forall (known T) ws ->
    let A := fin (flatf rs_init us) in
    let B := fin (flatf rs_init ws) in
    let P := l_ptrs (c_left (fst B)) in
    increasing 0 (c :: cuts) (length P) -> last cuts c = length P ->
    let '(a1, l1, r1) := ra_seq N_order T dr (c_left (fst A)) (c_right (fst A)) P 0 (c :: cuts) in
    let '(a2, l2, r2) := if l_full (c_left (fst B))
                         then reveal_after N_order T dr l1 r1 {| l_ptrs := P; l_full := true |} (length P)
                         else (0%Z, l1, r1) in
    (a1 + a2)%Z = (snd (fin (flatf rs_init (us ++ ws))) - snd A - snd B)%Z.
  Proof.
    intros us ws c cuts Hu Hw A B P Hi Hlast.
    assert (W0 : wf rs_init) by (constructor; cbn; [reflexivity|constructor|reflexivity]).
    assert (WA : wf (flatf rs_init us)) by (apply flat_wf; [exact Hord|exact W0]).
    pose proof (fin_cwf N_order (flatf rs_init us) WA) as CA. fold A in CA.
    assert (HJ : J (c_left (fst A)) (c_right (fst A)) 0).
    { destruct CA as [C1 C2 C3]. split; [exact C1|]. intros Hf. rewrite (C3 Hf). lia. }
    assert (HC : chain N_order 0 P).
    { unfold P, B. rewrite fin_eq. cbn [fst mkchart c_left l_ptrs]. apply flat_chain; [exact W0|exact Hw|exact I]. }
    rewrite (ra_seq_one_shot N_order Hord T dr cuts c _ _ P 0 HJ HC Hi). rewrite Hlast. cbn [skipn]. rewrite firstn_all.
    pose proof (reveal_after_one_shot us ws Hu Hw) as H1. cbn zeta in H1. fold A B in H1.
    destruct (l_full (c_left (fst B))) eqn:Ef.
    - pose proof (ra_finish N_order Hord T dr (c_left (fst A)) (c_right (fst A)) P 0 HJ HC) as HF.
      rewrite ra_seen in HF. cbn [skipn] in HF.
      destruct (ra N_order T dr (c_left (fst A)) (c_right (fst A)) P) as [[a1 l1] r1].
      destruct (reveal_after N_order T dr l1 r1 {| l_ptrs := P; l_full := true |} (length P)) as [[a2 l2] r2].
      assert (EB : c_left (fst B) = {| l_ptrs := P; l_full := true |}) by (unfold P; destruct (c_left (fst B)); cbn in *; subst; reflexivity).
      rewrite EB, HF in H1. exact H1.
    - assert (EB : c_left (fst B) = {| l_ptrs := P; l_full := false |}) by (unfold P; destruct (c_left (fst B)); cbn in *; subst; reflexivity).
      rewrite EB in H1. fold (ra N_order T dr (c_left (fst A)) (c_right (fst A)) P) in H1.
      destruct (ra N_order T dr (c_left (fst A)) (c_right (fst A)) P) as [[a1 l1] r1]. cbn [fst] in H1. lia.
  Qed.
End RevealFragments.
