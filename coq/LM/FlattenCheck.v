(* LM/FlattenCheck.v -- executable check of the two extra hypotheses of the flattening theorem (LM/FlattenProofs.v)
   on an association-list table, proved sound.  The harness evaluates the extracted checker on the tables the loader
   models build for every generated estimator-like ARPA file, so the hypotheses are established case by case. *)
From Coq Require Import List ZArith NArith Bool Arith Lia.
From Kenlm Require Import LM.Defs LM.InvCheck.
Import ListNotations.

Definition is_context_of (k : key) (k' : key) : bool := match k' with [] => false | _ :: tl => key_eqb tl k end.

Definition rest_check (t : atable) : bool := forallb (fun ke => Z.eqb (e_rest (snd ke)) (e_prob (snd ke))) t.
Definition ext_ctx_check (t : atable) : bool :=
  forallb (fun ke => implb (e_ext (snd ke) && Nat.leb 2 (length (fst ke))) (existsb (fun ke' => is_context_of (fst ke) (fst ke')) t)) t.
Definition flat_hyp_check (t : atable) : bool := rest_check t && ext_ctx_check t.

Lemma alookup_some_in : forall t k e, alookup t k = Some e -> In (k, e) t.
Proof.
  induction t as [|[k' e'] t IH]; intros k e H; cbn [alookup] in H; [discriminate|].
  destruct (key_eqb k' k) eqn:E.
  - apply key_eqb_true in E. subst. injection H as ->. left. reflexivity.
  - right. apply IH. exact H.
Qed.

Theorem ext_ctx_check_sound : forall t, ext_ctx_check t = true ->
  forall k e, alookup t k = Some e -> e_ext e = true -> 2 <= length k -> exists x, alookup t (x :: k) <> None.
Proof.
  intros t H2 k e Hk Hx Hl. unfold ext_ctx_check in H2. rewrite forallb_forall in H2.
  specialize (H2 (k, e) (alookup_some_in t k e Hk)). cbn [fst snd] in H2. rewrite Hx in H2.
  rewrite (proj2 (Nat.leb_le 2 (length k)) Hl) in H2. cbn [andb implb] in H2.
  apply existsb_exists in H2. destruct H2 as [[k' e'] [Hin Hc]]. cbn [fst] in Hc. unfold is_context_of in Hc.
  destruct k' as [|x tl]; [discriminate|]. apply key_eqb_true in Hc. subst tl. exists x.
  apply alookup_in. unfold keys_of. apply in_map_iff. exists (x :: k, e'). split; [reflexivity|exact Hin].
Qed.

Theorem flat_hyp_check_sound : forall t, flat_hyp_check t = true ->
  (forall k e, alookup t k = Some e -> e_rest e = e_prob e) /\
  (forall k e, alookup t k = Some e -> e_ext e = true -> 2 <= length k -> exists x, alookup t (x :: k) <> None).
Proof.
  intros t H. unfold flat_hyp_check in H. apply andb_true_iff in H. destruct H as [H1 H2]. split.
  - unfold rest_check in H1. rewrite forallb_forall in H1.
    intros k e Hk. specialize (H1 (k, e) (alookup_some_in t k e Hk)). cbn [snd] in H1. apply Z.eqb_eq. exact H1.
  - exact (ext_ctx_check_sound t H2).
Qed.
