(* C05/KNAdjustB.v -- one iteration of the AdjustCounts loop: the stack of live lower-order entries. *)
From Coq Require Import List NArith ZArith Bool Lia Sorted.
From Kenlm Require Import C05.KNDefs C05.KNSpec C05.KNModel C05.KNLex C05.KNEvents C05.KNAdjustA.
Import ListNotations.
Local Arguments N.add : simpl never.
Local Arguments N.leb : simpl never.
Local Arguments N.ltb : simpl never.

Section B.
  Variable n : nat.
  Variable o : options.
  Hypothesis Hn : (2 <= n)%nat.

  Definition markf (k : nat) (p : gram) (a : N) : bool :=
    ((a <=? thr o k)%N && negb (geqb p [EOS])) || has_pruned o p.
  Definition rec_of (k : nat) (p : gram) (fs : fulls) : entry :=
    mkE p (adjf k p fs) (markf k p (act k p fs)) (adjf k p fs).
  Definition ent (fs : fulls) (rp : gram) (k : nat) : lower :=
    mkL (firstn k rp) (adjf k (firstn k rp) fs) (act k (firstn k rp) fs).
  Fixpoint stk (fs : fulls) (rp : gram) (m : nat) : list lower :=
    match m with O => [] | S m' => ent fs rp (S m') :: stk fs rp m' end.
  Definition lvl (r : gram) : nat := Nat.min (n - 1) (S (vlen r)).

  Lemma stk_length : forall fs rp m, length (stk fs rp m) = m.
  Proof. induction m; simpl; congruence. Qed.

  Lemma emit_lower_ent : forall fs rp k, (k <= length rp)%nat ->
    emit_lower true o (ent fs rp k) = rec_of k (firstn k rp) fs.
  Proof.
    intros fs rp k Hk. unfold emit_lower, mark_lower, ent, rec_of, markf. simpl.
    rewrite firstn_length. replace (Nat.min k (length rp)) with k by lia. reflexivity.
  Qed.

  Definition emits (fs : fulls) (rp : gram) (same d : nat) : list entry :=
    map (fun k => rec_of k (firstn k rp) fs) (seq (S same) d).

  Lemma pop_emit_stk : forall fs rp d same tr, (same + d <= length rp)%nat ->
    pop_emit true o d (stk fs rp (same + d)) tr = (stk fs rp same, emits fs rp same d ++ tr).
  Proof.
    induction d as [|d IH]; intros same tr Hlen.
    - rewrite Nat.add_0_r. destruct (stk fs rp same); reflexivity.
    - replace (same + S d)%nat with (S (same + d)) by lia. simpl stk. simpl pop_emit.
      rewrite IH by lia. f_equal. unfold emits. rewrite seq_S, map_app. simpl.
      rewrite <- app_assoc. simpl. rewrite emit_lower_ent by lia. replace (S (same + d)) with (S same + d)%nat by lia. reflexivity.
  Qed.

  Definition addc (c : N) (l : lower) : lower := mkL (l_gram l) (l_count l) (l_actual l + c).
  Definition inc (l : lower) : lower := mkL (l_gram l) (l_count l + 1) (l_actual l).

  Lemma bump_eq : forall c s, bump c s = match map (addc c) s with [] => [] | l :: rest => inc l :: rest end.
  Proof. reflexivity. Qed.

  Section Step.
    Variables (fs : fulls) (rp : gram) (cp : N) (r : gram) (c : N).
    Let fs' := fs ++ [(r, c)].
    Variable same : nat.
    Hypothesis Hin : In (rp, cp) fs.
    Hypothesis Hlenr : length r = n.
    Hypothesis Hlenrp : length rp = n.
    Hypothesis Hsame : firstn same r = firstn same rp.
    Hypothesis Hsv : (same <= vlen r)%nat.
    Hypothesis Hsn : (same <= n - 1)%nat.
    Hypothesis Hnew : forall k f, (same < k <= n)%nat -> In f fs -> firstn k (fst f) <> firstn k r.

    Lemma firstn_same_le : forall k, (k <= same)%nat -> firstn k r = firstn k rp.
    Proof.
      intros k Hk. replace k with (Nat.min k same) by lia. rewrite <- !firstn_firstn. rewrite Hsame. reflexivity.
    Qed.

    Lemma not_bos_le : forall k, (1 <= k <= same)%nat -> (last (firstn k r) UNK =? BOS)%N = false.
    Proof.
      intros k Hk. destruct k as [|k]; [lia|]. rewrite last_firstn_nth by lia.
      apply N.eqb_neq. apply vlen_nth_lt. lia.
    Qed.

    Lemma ent_step_lt : forall k, (1 <= k < same)%nat -> ent fs' r k = addc c (ent fs rp k).
    Proof.
      intros k Hk. unfold ent, addc, fs'. cbn [l_gram l_count l_actual]. rewrite <- (firstn_same_le k) by lia. f_equal.
      - unfold adjf. rewrite not_bos_le by lia. apply extn_snoc_old. exists (rp, cp). cbn [fst].
        split; [exact Hin|]. split; symmetry; apply firstn_same_le; lia.
      - apply act_snoc_same.
    Qed.

    Lemma ent_step_eq : (1 <= same)%nat -> ent fs' r same = inc (addc c (ent fs rp same)).
    Proof.
      intros Hk. unfold ent, addc, inc, fs'. cbn [l_gram l_count l_actual]. rewrite <- (firstn_same_le same) by lia. f_equal.
      - unfold adjf. rewrite not_bos_le by lia. apply extn_snoc_new. intros f Hf. apply Hnew; [lia|exact Hf].
      - apply act_snoc_same.
    Qed.

    Lemma stk_step_lt : forall m, (m < same)%nat -> map (addc c) (stk fs rp m) = stk fs' r m.
    Proof.
      induction m as [|m IH]; intros Hm; simpl; [reflexivity|]. rewrite IH by lia. rewrite ent_step_lt by lia. reflexivity.
    Qed.

    Lemma bump_stk_S : forall m, same = S m -> bump c (stk fs rp (S m)) = stk fs' r (S m).
    Proof.
      intros m E. rewrite bump_eq. simpl. rewrite stk_step_lt by lia. rewrite <- E. rewrite <- ent_step_eq by lia. reflexivity.
    Qed.

    Lemma bump_stk : bump c (stk fs rp same) = stk fs' r same.
    Proof.
      destruct (Nat.eq_dec same 0) as [E|N']; [rewrite E; reflexivity|].
      destruct (Nat.eq_dec same (S (same - 1))) as [E|]; [|lia]. rewrite E. apply bump_stk_S. exact E.
    Qed.

    (* entries of the orders above `same` are new *)
    Lemma ent_new : forall k, (same < k <= n)%nat ->
      ent fs' r k = mkL (firstn k r) (if (last (firstn k r) UNK =? BOS)%N then c else 1%N) c.
    Proof.
      intros k Hk. unfold ent, fs', adjf.
      assert (Hno : forall f, In f fs -> firstn k (fst f) <> firstn k r) by (intros f Hf; apply Hnew; [lia|exact Hf]).
      rewrite act_first, extn_first by exact Hno. reflexivity.
    Qed.

    Lemma push_new_stk : forall d idx, (idx + d = n - 1)%nat -> (same <= idx)%nat -> (idx <= vlen r)%nat ->
      push_new d idx r c (stk fs' r idx) = (stk fs' r (lvl r), (n - 1 <=? vlen r)%nat).
    Proof.
      induction d as [|d IH]; intros idx Hd Hsi Hiv; cbn [push_new].
      - assert (E : lvl r = idx) by (unfold lvl; lia). rewrite E. f_equal. symmetry. apply Nat.leb_le. lia.
      - destruct (N.eqb_spec (nth idx r UNK) BOS) as [Hb|Hb].
        + assert (Ev : vlen r = idx).
          { destruct (Nat.eq_dec (vlen r) idx) as [E|N']; [exact E|]. exfalso. apply (vlen_nth_lt r idx); [lia|exact Hb]. }
          assert (E : lvl r = S idx) by (unfold lvl; lia). rewrite E. cbn [stk]. f_equal.
          * f_equal. rewrite ent_new by lia. rewrite last_firstn_nth by lia. rewrite Hb. reflexivity.
          * symmetry. apply Nat.leb_gt. lia.
        + assert (Hlt : (idx < vlen r)%nat).
          { destruct (Nat.eq_dec (vlen r) idx) as [E|N']; [|lia]. exfalso. apply Hb. rewrite <- E. apply vlen_nth_eq. lia. }
          assert (Ee : mkL (firstn (S idx) r) 1 c = ent fs' r (S idx)).
          { rewrite ent_new by lia. rewrite last_firstn_nth by lia. apply N.eqb_neq in Hb. rewrite Hb. reflexivity. }
          rewrite Ee. change (ent fs' r (S idx) :: stk fs' r idx) with (stk fs' r (S idx)). apply IH; lia.
    Qed.
  End Step.
End B.
