(* C05/KNAddRight.v -- AddRight's run-by-run accumulation over the context-sorted stream (KNModel.v) produces exactly
   gamma_stream: one record per context, in suffix order of the contexts, with the specification's gamma. *)
From Coq Require Import List NArith ZArith QArith Bool Lia Sorted Permutation.
From Kenlm Require Import C05.KNDefs C05.KNSpec C05.KNModel C05.KNLex C05.KNAdjustE C06.SumQ C06.SumProofs.
Import ListNotations.

(* aggregate of a whole list restricted to one context *)
Definition agg (c : gram) (l : list entry) : acc := fold_left acc_add (filter (in_ctx c) l) acc0.

Lemma fold_acc_app : forall l a, fold_left acc_add l a =
  mkAcc (ac_den a + ac_den (fold_left acc_add l acc0)) (ac_c1 a + ac_c1 (fold_left acc_add l acc0)) (ac_c2 a + ac_c2 (fold_left acc_add l acc0))
        (ac_c3 a + ac_c3 (fold_left acc_add l acc0)) (ac_norm a + ac_norm (fold_left acc_add l acc0)).
Proof.
  induction l as [|e l IH]; intros a; simpl.
  - destruct a; simpl. f_equal; lia.
  - rewrite IH. rewrite (IH (acc_add acc0 e)). unfold acc_add. simpl. f_equal; lia.
Qed.

(* ---- structure of the stream transformer: a run consumes the maximal prefix with the current context *)
Fixpoint takeW (c : gram) (l : list entry) : list entry :=
  match l with [] => [] | e :: t => if geqb (ctx e) c then e :: takeW c t else [] end.
Fixpoint dropW (c : gram) (l : list entry) : list entry :=
  match l with [] => [] | e :: t => if geqb (ctx e) c then dropW c t else l end.

Lemma run_struct : forall d l c a,
  add_right_run d c a l = (c, acc_gamma d (fold_left acc_add (takeW c l) a)) :: add_right d (dropW c l).
Proof.
  intros d. induction l as [|e t IH]; intros c a; simpl; [reflexivity|].
  destruct (geqb (ctx e) c) eqn:E; simpl; [apply IH|reflexivity].
Qed.

Lemma dropW_length : forall c l, (length (dropW c l) <= length l)%nat.
Proof. induction l as [|e t IH]; simpl; [lia|]. destruct (geqb (ctx e) c); simpl; lia. Qed.

(* ---- on a context-sorted list the prefix is the whole group *)
Definition ctx_le (a b : entry) : Prop := cmp (ctx a) (ctx b) <> Gt.
Definition ctx_sorted (l : list entry) : Prop := StronglySorted ctx_le l.

Lemma cmp_le_antisym : forall a b, cmp a b <> Gt -> cmp b a <> Gt -> a = b.
Proof.
  intros a b H1 H2. destruct (cmp a b) eqn:E; [apply cmp_eq; exact E| |congruence].
  exfalso. apply H2. apply cmp_lt_gt. exact E.
Qed.

Lemma cmp_le_trans : forall a b c, cmp a b <> Gt -> cmp b c <> Gt -> cmp a c <> Gt.
Proof.
  intros a b c H1 H2. destruct (cmp a b) eqn:E1; [apply cmp_eq in E1; subst; exact H2| |congruence].
  destruct (cmp b c) eqn:E2; [apply cmp_eq in E2; subst; rewrite E1; discriminate| |congruence].
  rewrite (cmp_lt_trans _ _ _ E1 E2). discriminate.
Qed.

(* lower bound c for all contexts, sorted: the elements with context c form a prefix *)
Lemma sorted_group : forall l c, ctx_sorted l -> (forall e, In e l -> cmp c (ctx e) <> Gt) ->
  takeW c l = filter (in_ctx c) l /\ dropW c l = filter (fun e => negb (in_ctx c e)) l /\
  ctx_sorted (dropW c l) /\ (forall e, In e (dropW c l) -> cmp c (ctx e) = Lt).
Proof.
  induction l as [|e t IH]; intros c Hs Hlb; [simpl; repeat split; try constructor; intros ? []|].
  inversion Hs as [|? ? Hst Hall]; subst. rewrite Forall_forall in Hall.
  assert (Ei : in_ctx c e = geqb (ctx e) c) by reflexivity.
  cbn [takeW dropW filter]. rewrite Ei. destruct (geqb (ctx e) c) eqn:E; cbn [negb].
  - destruct (IH c Hst (fun x Hx => Hlb x (or_intror Hx))) as [H1 [H2 [H3 H4]]]. rewrite H1. split; [reflexivity|]. split; [exact H2|]. split; assumption.
  - assert (Hlt : cmp c (ctx e) = Lt).
    { apply geqb_neq in E. specialize (Hlb e (or_introl eq_refl)). destruct (cmp c (ctx e)) eqn:Ec; [apply cmp_eq in Ec; congruence|reflexivity|congruence]. }
    assert (Hnone : forall x, In x t -> in_ctx c x = false).
    { intros x Hx. unfold in_ctx. apply geqb_neq. intro Ex. fold (ctx x) in Ex. specialize (Hall x Hx). unfold ctx_le in Hall. rewrite Ex in Hall.
      apply Hall. apply cmp_lt_gt. exact Hlt. }
    split; [|split; [|split]].
    + f_equal. symmetry. apply filter_none. exact Hnone.
    + f_equal. symmetry. apply filter_all. intros x Hx. rewrite (Hnone x Hx). reflexivity.
    + exact Hs.
    + intros x [<-|Hx]; [exact Hlt|]. specialize (Hall x Hx). unfold ctx_le in Hall.
      destruct (cmp c (ctx x)) eqn:Ec; [|reflexivity|].
      * apply cmp_eq in Ec. rewrite <- Ec in Hall. exfalso. apply Hall. apply cmp_lt_gt. exact Hlt.
      * exfalso. apply (cmp_le_trans c (ctx e) (ctx x)); [rewrite Hlt; discriminate|exact Hall|exact Ec].
Qed.

(* the distinct contexts in stream order *)
Fixpoint uctx (fuel : nat) (l : list entry) : list gram :=
  match fuel, l with
  | S f, e :: t => ctx e :: uctx f (dropW (ctx e) t)
  | _, _ => []
  end.

Lemma takeW_ctx : forall c l e, In e (takeW c l) -> ctx e = c.
Proof.
  induction l as [|x t IH]; intros e He; simpl in He; [destruct He|]. destruct (geqb (ctx x) c) eqn:E; [|destruct He].
  destruct He as [<-|He]; [apply geqb_eq; exact E|apply IH; exact He].
Qed.

Theorem add_right_sorted : forall d fuel l, (length l <= fuel)%nat -> ctx_sorted l ->
  add_right d l = map (fun c => (c, acc_gamma d (agg c l))) (uctx fuel l) /\
  gsorted (uctx fuel l) /\ (forall c, In c (uctx fuel l) <-> In c (map ctx l)).
Proof.
  intros d. induction fuel as [|fuel IH]; intros l Hlen Hs.
  - destruct l; [|simpl in Hlen; lia]. simpl. repeat split; try constructor; tauto.
  - destruct l as [|e t]; [simpl; repeat split; try constructor; tauto|].
    inversion Hs as [|? ? Hst Hall]; subst. rewrite Forall_forall in Hall.
    destruct (sorted_group t (ctx e) Hst (fun x Hx => Hall x Hx)) as [Htake [Hdrop [Hds Hgt]]].
    assert (Hlen' : (length (dropW (ctx e) t) <= fuel)%nat) by (pose proof (dropW_length (ctx e) t); simpl in Hlen; lia).
    destruct (IH (dropW (ctx e) t) Hlen' Hds) as [Heq [Hsorted Hmem]].
    cbn [add_right uctx map]. rewrite run_struct, Heq. split; [|split].
    + f_equal.
      * f_equal. f_equal. unfold agg. cbn [filter]. unfold in_ctx at 1. fold (ctx e). rewrite geqb_refl. cbn [fold_left]. rewrite Htake. reflexivity.
      * apply map_ext_in. intros c Hc. f_equal. f_equal. unfold agg. cbn [filter]. unfold in_ctx at 2. fold (ctx e).
        assert (Hne : ctx e <> c).
        { intro E. apply Hmem in Hc. apply in_map_iff in Hc. destruct Hc as [x [Ex Hx]]. specialize (Hgt x Hx). rewrite Ex, <- E, cmp_refl in Hgt. discriminate. }
        assert (E1 : geqb (ctx e) c = false) by (apply geqb_neq; exact Hne). rewrite E1.
        f_equal. rewrite Hdrop. clear - Hne. induction t as [|x t IHt]; [reflexivity|]. cbn [filter].
        destruct (in_ctx (ctx e) x) eqn:Ex; cbn [negb]; [|cbn [filter]; destruct (in_ctx c x); [f_equal|]; exact IHt].
        assert (E2 : in_ctx c x = false).
        { unfold in_ctx in *. apply geqb_eq in Ex. apply geqb_neq. rewrite Ex. exact Hne. }
        rewrite E2. exact IHt.
    + constructor; [exact Hsorted|]. apply Forall_forall. intros c Hc. apply Hmem in Hc. apply in_map_iff in Hc. destruct Hc as [x [<- Hx]]. apply Hgt. exact Hx.
    + intros c. cbn [map In]. rewrite Hmem. split.
      * intros [<-|Hc]; [left; reflexivity|]. right. apply in_map_iff in Hc. destruct Hc as [x [<- Hx]]. apply in_map. rewrite Hdrop in Hx. apply filter_In in Hx. tauto.
      * intros [<-|Hc]; [left; reflexivity|]. destruct (list_eq_dec N.eq_dec (ctx e) c) as [E|Hne]; [left; exact E|right].
        apply in_map_iff in Hc. destruct Hc as [x [<- Hx]]. apply in_map. rewrite Hdrop. apply filter_In. split; [exact Hx|].
        apply negb_true_iff. unfold in_ctx. apply geqb_neq. fold (ctx x). congruence.
Qed.

(* ---- the accumulator of a list, field by field *)
Lemma b2n_cut1 : forall e, b2n ((if e_marked e then 0 else e_adj e) =? 1)%N = b2n (kept e && (N.min (e_adj e) 3 =? 1)%N).
Proof.
  intros e. unfold kept. destruct (e_marked e); [reflexivity|]. cbn [negb andb]. f_equal.
  destruct (N.eqb_spec (e_adj e) 1) as [E|H]; [rewrite E; reflexivity|]. symmetry. apply N.eqb_neq. lia.
Qed.
Lemma b2n_cut2 : forall e, b2n ((if e_marked e then 0 else e_adj e) =? 2)%N = b2n (kept e && (N.min (e_adj e) 3 =? 2)%N).
Proof.
  intros e. unfold kept. destruct (e_marked e); [reflexivity|]. cbn [negb andb]. f_equal.
  destruct (N.eqb_spec (e_adj e) 2) as [E|H]; [rewrite E; reflexivity|]. symmetry. apply N.eqb_neq. lia.
Qed.
Lemma b2n_cut3 : forall e, b2n (3 <=? (if e_marked e then 0 else e_adj e))%N = b2n (kept e && (N.min (e_adj e) 3 =? 3)%N).
Proof.
  intros e. unfold kept. destruct (e_marked e); [reflexivity|]. cbn [negb andb]. f_equal.
  destruct (N.leb_spec 3 (e_adj e)) as [H|H]; symmetry; [apply N.eqb_eq|apply N.eqb_neq]; lia.
Qed.

Definition lenF (p : entry -> bool) (l : list entry) : N := lenN (filter p l).
Lemma lenF_cons : forall p e l, lenF p (e :: l) = (b2n (p e) + lenF p l)%N.
Proof. intros p e l. unfold lenF, lenN. cbn [filter]. destruct (p e); cbn [length b2n]; [rewrite Nat2N.inj_succ; lia|lia]. Qed.

Lemma acc_fields : forall l,
  let a := fold_left acc_add l acc0 in
  ac_den a = sumN (map e_adj l) /\
  ac_c1 a = lenF (fun e => kept e && (N.min (e_adj e) 3 =? 1)%N) l /\
  ac_c2 a = lenF (fun e => kept e && (N.min (e_adj e) 3 =? 2)%N) l /\
  ac_c3 a = lenF (fun e => kept e && (N.min (e_adj e) 3 =? 3)%N) l /\
  ac_norm a = sumN (map e_adj (filter e_marked l)).
Proof.
  induction l as [|e l IH]; [cbv zeta; simpl; repeat split; reflexivity|]. cbv zeta in *. cbn [fold_left]. rewrite fold_acc_app.
  destruct IH as [H1 [H2 [H3 [H4 H5]]]]. cbn [ac_den ac_c1 ac_c2 ac_c3 ac_norm acc_add acc0]. rewrite H1, H2, H3, H4, H5.
  rewrite !lenF_cons, b2n_cut1, b2n_cut2, b2n_cut3. cbn [map filter sumN].
  repeat split; try lia. destruct (e_marked e); cbn [map sumN]; lia.
Qed.

Lemma filter_filter' : forall {A} (p q : A -> bool) l, filter p (filter q l) = filter (fun x => q x && p x) l.
Proof. intros A p q l. induction l as [|x l IH]; simpl; [reflexivity|]. destruct (q x); simpl; [destruct (p x); rewrite IH; reflexivity|exact IH]. Qed.

Lemma perm_filter : forall {A} (p : A -> bool) l l', Permutation l l' -> Permutation (filter p l) (filter p l').
Proof.
  intros A p l l' H. induction H; simpl; [constructor| | |eapply perm_trans; eassumption].
  - destruct (p x); [constructor|]; assumption.
  - destruct (p x); destruct (p y); try constructor; apply Permutation_refl.
Qed.

Lemma perm_sumN : forall l l', Permutation l l' -> sumN l = sumN l'.
Proof. intros l l' H. induction H; simpl; lia. Qed.

(* ---- AddRight on any context-sorted permutation of the order-k entries sends exactly gamma_stream *)
Theorem add_right_gamma_stream : forall tab ds k l, Permutation l (ents tab k) -> ctx_sorted l ->
  add_right (dk ds k) l = gamma_stream tab ds k.
Proof.
  intros tab ds k l Hp Hs. destruct (add_right_sorted (dk ds k) (length l) l (le_n _) Hs) as [Heq [Hsorted Hmem]].
  rewrite Heq. unfold gamma_stream, contexts.
  assert (Eu : uctx (length l) l = sort_uniq (map (fun e => tl (e_gram e)) (ents tab k))).
  { apply gsorted_ext; [exact Hsorted|apply sort_uniq_sorted|]. intros c. rewrite Hmem, In_sort_uniq. unfold ctx.
    split; intros Hc; apply in_map_iff in Hc; destruct Hc as [x [<- Hx]]; apply (in_map (fun e : entry => tl (e_gram e)));
      [apply (Permutation_in _ Hp)|apply (Permutation_in _ (Permutation_sym Hp))]; exact Hx. }
  rewrite Eu. apply map_ext. intros c. f_equal.
  unfold agg. pose proof (acc_fields (filter (in_ctx c) l)) as Hf. cbv zeta in Hf. destruct Hf as [H1 [H2 [H3 [H4 H5]]]].
  unfold acc_gamma, gamma. destruct (dk ds k) as [[d1 d2] d3]. rewrite H1, H2, H3, H4, H5. unfold lenF. rewrite !filter_filter'.
  unfold cnt_i, msum, denom.
  assert (Pf : forall p, lenN (filter p l) = lenN (filter p (ents tab k))).
  { intros p. unfold lenN. f_equal. apply Permutation_length. apply perm_filter. exact Hp. }
  assert (Ps : forall p, sumN (map e_adj (filter p l)) = sumN (map e_adj (filter p (ents tab k)))).
  { intros p. apply perm_sumN. apply Permutation_map. apply perm_filter. exact Hp. }
  rewrite !Pf, !Ps.
  assert (E1 : forall i, filter (fun x => in_ctx c x && (kept x && (N.min (e_adj x) 3 =? i)%N)) (ents tab k) =
                         filter (fun e => in_ctx c e && kept e && (N.min (e_adj e) 3 =? i)%N) (ents tab k)).
  { intros i. apply filter_ext. intros x. rewrite andb_assoc. reflexivity. }
  rewrite !E1. reflexivity.
Qed.

Lemma cins_perm : forall e l, Permutation (cins e l) (e :: l).
Proof.
  intros e l. induction l as [|h t IH]; simpl; [apply Permutation_refl|].
  destruct (cmp (ctx e) (ctx h)); try apply Permutation_refl.
  eapply perm_trans; [apply perm_skip; exact IH|apply perm_swap].
Qed.

Lemma ctx_sort_perm : forall l, Permutation (ctx_sort l) l.
Proof. induction l as [|e l IH]; simpl; [constructor|]. eapply perm_trans; [apply cins_perm|apply perm_skip; exact IH]. Qed.

Lemma cins_sorted : forall e l, ctx_sorted l -> ctx_sorted (cins e l).
Proof.
  intros e l H. induction H as [|h t Hs IH Hall]; simpl; [constructor; constructor|].
  rewrite Forall_forall in Hall. destruct (cmp (ctx e) (ctx h)) eqn:E.
  - constructor; [constructor; [exact Hs|apply Forall_forall; exact Hall]|]. apply Forall_forall. intros x [<-|Hx]; unfold ctx_le; [rewrite E; discriminate|].
    apply (cmp_le_trans _ (ctx h)); [rewrite E; discriminate|apply Hall; exact Hx].
  - constructor; [constructor; [exact Hs|apply Forall_forall; exact Hall]|]. apply Forall_forall. intros x [<-|Hx]; unfold ctx_le; [rewrite E; discriminate|].
    apply (cmp_le_trans _ (ctx h)); [rewrite E; discriminate|apply Hall; exact Hx].
  - constructor; [exact IH|]. apply Forall_forall. intros x Hx. apply (Permutation_in _ (cins_perm e t)) in Hx. destruct Hx as [<-|Hx].
    + unfold ctx_le. intro H. apply cmp_lt_gt in H. rewrite H in E. discriminate.
    + apply Hall. exact Hx.
Qed.

Lemma ctx_sort_sorted : forall l, ctx_sorted (ctx_sort l).
Proof. induction l as [|e l IH]; simpl; [constructor|]. apply cins_sorted. exact IH. Qed.

Corollary gamma_records_spec : forall tab ds k, gamma_records tab ds k = gamma_stream tab ds k.
Proof. intros. unfold gamma_records. apply add_right_gamma_stream; [apply ctx_sort_perm|apply ctx_sort_sorted]. Qed.
