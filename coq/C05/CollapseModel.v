(* C05/CollapseModel.v -- which n-gram slots CollapseStream (lm/builder/adjust_counts.cc) reads/marks, per block.
   A block is given by its number of valid entries; an access is (block number, slot).  StartBlock skips empty blocks and
   marks slot 0; operator++ moves to the next slot of the block or, at its end, to the next block -- and then the
   UNREPAIRED code marks `current_` once more, which is the slot BEHIND the last block when the stream is over
   (defect F15L: heap-buffer-overflow under ASan when that block is full and the last of the chain's allocation). *)
From Coq Require Import List Arith Bool Lia.
Import ListNotations.

Section Collapse.
  Variable fixed : bool.
  (* accesses made while the blocks `vs` (numbered from b) are consumed; `prev` = the block just finished (number, size) *)
  Fixpoint start_block (b : nat) (vs : list nat) : option (nat * nat * list nat) :=   (* first non-empty block: number, size, rest *)
    match vs with
    | [] => None
    | O :: t => start_block (S b) t
    | S v :: t => Some (b, S v, t)
    end.
  (* slots of one block after StartBlock marked slot 0: operator++ marks slots 1 .. v-1 *)
  Definition inner (b v : nat) : list (nat * nat) := map (fun i => (b, i)) (seq 1 (v - 1)).
  Fixpoint run (fuel : nat) (b : nat) (vs : list nat) : list (nat * nat) :=
    match fuel with
    | O => []
    | S f =>
        match start_block b vs with
        | None => []
        | Some (b', v, rest) =>
            (b', 0) :: inner b' v ++
            (* operator++ at the end of block b': ++block_, StartBlock, then (unrepaired) one more access to current_ *)
            match start_block (S b') rest with
            | None => if fixed then [] else [(b', v)]
            | Some (b'', _, _) => (if fixed then [] else [(b'', 0)]) ++ run f (S b') rest
            end
        end
    end.
  Definition accesses (vs : list nat) : list (nat * nat) := run (S (length vs)) 0 vs.
End Collapse.

Definition in_bounds (vs : list nat) (a : nat * nat) : Prop := snd a < nth (fst a) vs 0.
