(* C05/KNModel.v -- executable model of what lmplz does up to and including AdjustCounts
   (lm/builder/corpus_count.cc, combine_counts.hh, adjust_counts.cc), followed by the shared `finish`.
   No proofs in this file.

   corpus_count + Sort<SuffixOrder, CombineCounts> are modelled by their result: the strictly increasing
   (suffix order) list of the distinct order-n n-grams padded with <s>, with their counts (`sorted_counts`;
   that the real block-wise counting and the external sort produce exactly this list is C07/C16).
   AdjustCounts::Run is modelled statement by statement: the stack of live lower-order entries
   (`lower_valid` and the streams below it), `actual_counts`, the three STEPs of the loop body, the final
   flush, StatCollector, and CollapseStream's deletion of n-grams with <s> in the second position.

   Two switches select the unrepaired code:
     fix_stat = false : the final flush passes the actual count to stats.Add (defect F1)
     fix_eos  = false : the unigram </s> can be marked for pruning by the unigram threshold (defect F12L)
   The repaired tree is (true, true). *)
From Coq Require Import List NArith ZArith QArith Bool.
From Kenlm Require Import C05.KNDefs.
Import ListNotations.

(* Writer::StartSentence / Append: every position is counted as an order-n window, left-padded with <s> *)
Definition pad (n : nat) (e : gram) : gram := firstn n (e ++ repeat BOS n).

Fixpoint ins_count (g : gram) (l : list (gram * N)) : list (gram * N) :=
  match l with
  | [] => [(g, 1%N)]
  | (h, c) :: t => match cmp g h with
                   | Lt => (g, 1%N) :: l
                   | Eq => (h, (c + 1)%N) :: t
                   | Gt => (h, c) :: ins_count g t
                   end
  end.
Definition sorted_counts (n : nat) (ev : list gram) : list (gram * N) :=
  fold_right (fun e acc => ins_count (pad n e) acc) [] ev.

Definition MAX64 : N := 18446744073709551615%N.

Section Adjust.
  Variable fix_stat fix_eos : bool.
  Variable n : nat.
  Variable o : options.

  Record lower := mkL { l_gram : gram; l_count : N; l_actual : N }.
  (* the state of the loop: live entries (highest order first; its length is lower_valid+1),
     everything emitted so far on the lower-order streams (newest first; stream k = the entries of
     order k), and the calls of AddFull (count, marked) *)
  Record st := mkSt { stack : list lower; trace : list entry; fullstat : list entry }.

  Definition has_pruned (g : gram) : bool := existsb (pruned_word o) g.
  (* the marking code of STEP 1 / of the final flush *)
  Definition mark_lower (l : lower) : bool :=
    let k := length (l_gram l) in
    let by_count := (l_actual l <=? thr o k)%N in
    let by_count := if fix_eos then by_count && negb (geqb (l_gram l) [EOS]) else by_count in
    by_count || has_pruned (l_gram l).
  Definition emit_lower (l : lower) : entry :=
    mkE (l_gram l) (l_count l) (mark_lower l) (l_count l).
  Definition emit_flush (l : lower) : entry :=
    mkE (l_gram l) (l_count l) (mark_lower l) (if fix_stat then l_count l else l_actual l).

  (* STEP 1: output the entries above `same` *)
  Fixpoint pop_emit (m : nat) (stk : list lower) (tr : list entry) : list lower * list entry :=
    match m, stk with
    | S m', l :: rest => pop_emit m' rest (emit_lower l :: tr)
    | _, _ => (stk, tr)
    end.
  (* STEP 2: the entries that still match get the count of the full n-gram; the longest match one more extension *)
  Definition bump (c : N) (stk : list lower) : list lower :=
    match map (fun l => mkL (l_gram l) (l_count l) (l_actual l + c)) stk with
    | [] => []
    | l :: rest => mkL (l_gram l) (l_count l + 1) (l_actual l) :: rest
    end.
  (* STEP 3: initialise the new entries from position idx on, up to <s> or to the 0th word;
     returns true when the 0th word was reached (the else branch: AddFull) *)
  Fixpoint push_new (d idx : nat) (r : gram) (c : N) (stk : list lower) : list lower * bool :=
    match d with
    | O => (stk, true)
    | S d' =>
        if (nth idx r UNK =? BOS)%N then (mkL (firstn (S idx) r) c c :: stk, false)
        else push_new d' (S idx) r c (mkL (firstn (S idx) r) 1 c :: stk)
    end.
  (* CollapseStream's marking of a highest-order n-gram *)
  Definition mark_full (r : gram) (c : N) : bool := (c <=? thr o n)%N || has_pruned r.

  Definition step (s : st) (f : gram * N) : st :=
    let '(r, c) := f in
    let top := match stack s with [] => [] | l :: _ => l_gram l end in
    let same := lcp r top in
    let '(stk1, tr1) := pop_emit (length (stack s) - same) (stack s) (trace s) in
    let stk2 := bump c stk1 in
    let '(stk3, full) := push_new (n - 1 - same) same r c stk2 in
    mkSt stk3 tr1 (if full then mkE r c (mark_full r c) c :: fullstat s else fullstat s).

  Definition init : st :=
    mkSt [mkL [BOS] 0 MAX64] [mkE [UNK] 0 false 0] [].

  (* the final flush (ascending order; every order has its own stream, so only the order within a stream matters) *)
  Definition flush (s : st) : list entry := map emit_flush (stack s) ++ trace s.

  Definition stream (tr : list entry) (k : nat) : list entry :=
    rev (filter (fun e => (length (e_gram e) =? k)%nat) tr).
  (* the highest-order stream after CollapseStream: n-grams with <s> in the second position are gone *)
  Definition collapse (fulls : list (gram * N)) : list entry :=
    map (fun f => mkE (fst f) (snd f) (mark_full (fst f) (snd f)) (snd f))
        (filter (fun f => negb (nth (n - 2) (fst f) UNK =? BOS)%N) fulls).

  (* order 1: "Only unigrams.  Just collect stats." -- the Writer has put <unk> and <s> in front *)
  Definition adjust1 (fulls : list (gram * N)) : list entry :=
    map (fun f => let g := fst f in let c := snd f in
                  mkE g c (negb (special1 g) && ((c <=? thr o 1)%N || has_pruned g)) c)
        (([UNK], 0%N) :: ([BOS], 0%N) :: fulls).

  (* result: (streams of orders 1..n as they leave AdjustCounts, per-order statistics) *)
  Definition adjust (fulls : list (gram * N)) : list (list entry) * list ostat :=
    match n with
    | O => ([], [])
    | 1%nat => let l := adjust1 fulls in ([l], [order_stat l])
    | _ =>
        let s := fold_left step fulls init in
        let tr := flush s in
        let lows := map (stream tr) (seq 1 (n - 1)) in
        (lows ++ [collapse fulls], map order_stat lows ++ [order_stat (rev (fullstat s))])
    end.
End Adjust.

Definition kn_impl_gen (fs fe : bool) (c : corpus) (n : nat) (o : options) : result :=
  let '(tab, stats) := adjust fs fe n o (sorted_counts n (events c)) in
  finish_with n o tab stats.
Definition kn_impl := kn_impl_gen true true.

(* ---- what AddRight must send to Interpolate for order k1 = k+1 (specification of `gamma_records` below): one record per
   context of the (unpruned) k1-grams, in the suffix order of the contexts. *)
Definition contexts (tab : list (list entry)) (k1 : nat) : list gram :=
  sort_uniq (map (fun e => tl (e_gram e)) (ents tab k1)).
Definition gamma_stream (tab : list (list entry)) (ds : list disc) (k1 : nat) : list (gram * Q) :=
  map (fun c => (c, gamma tab ds k1 c)) (contexts tab k1).

(* ---- AddRight (lm/builder/initial_probabilities.cc) as a stream transformer: it reads the order-k n-grams in CONTEXT
   order, accumulates -- while the context stays the same -- the denominator, the numbers of kept extensions with
   cutoff count 1, 2, 3+ and the pruned mass, and sends one (context, gamma) record per run.  The sort into context order
   between AdjustCounts and InitialProbabilities is represented by its result (`ctx_sort`, a stable insertion sort on
   the context; the order inside a run does not matter to the sums). *)
Record acc := mkAcc { ac_den : N; ac_c1 : N; ac_c2 : N; ac_c3 : N; ac_norm : N }.
Definition acc0 : acc := mkAcc 0 0 0 0 0.
Definition b2n (b : bool) : N := if b then 1%N else 0%N.
Definition acc_add (a : acc) (e : entry) : acc :=
  let cnt := e_adj e in
  let cut := if e_marked e then 0%N else cnt in      (* CutoffCount() *)
  mkAcc (ac_den a + cnt) (ac_c1 a + b2n (cut =? 1)%N) (ac_c2 a + b2n (cut =? 2)%N) (ac_c3 a + b2n (3 <=? cut)%N) (ac_norm a + (cnt - cut)).
Definition acc_gamma (d : disc) (a : acc) : Q :=
  let '(d1, d2, d3) := d in
  (d1 * QN (ac_c1 a) + d2 * QN (ac_c2 a) + d3 * QN (ac_c3 a) + QN (ac_norm a)) / QN (ac_den a).
Definition ctx (e : entry) : gram := tl (e_gram e).
Fixpoint add_right_run (d : disc) (c : gram) (a : acc) (l : list entry) : list (gram * Q) :=
  match l with
  | [] => [(c, acc_gamma d a)]
  | e :: t => if geqb (ctx e) c then add_right_run d c (acc_add a e) t
              else (c, acc_gamma d a) :: add_right_run d (ctx e) (acc_add acc0 e) t
  end.
Definition add_right (d : disc) (l : list entry) : list (gram * Q) :=
  match l with [] => [] | e :: t => add_right_run d (ctx e) (acc_add acc0 e) t end.
Fixpoint cins (e : entry) (l : list entry) : list entry :=
  match l with
  | [] => [e]
  | h :: t => match cmp (ctx e) (ctx h) with Gt => h :: cins e t | _ => e :: l end
  end.
Definition ctx_sort (l : list entry) : list entry := fold_right cins [] l.
(* the gamma records that reach Interpolate for order k1 *)
Definition gamma_records (tab : list (list entry)) (ds : list disc) (k1 : nat) : list (gram * Q) :=
  add_right (dk ds k1) (ctx_sort (ents tab k1)).

(* Callback::Enter, the back-off of the n-gram just entered.  "Not a context": the n-gram ends in <unk> or </s>, or the
   stream is exhausted.  Without pruning at the next order the NEXT record is taken (position only); with pruning
   records are skipped until the hash of the record equals the hash of the n-gram (the 64-bit MurmurHash is modelled
   by the context itself: no collisions). *)
Definition last_special (g : gram) : bool := let w := hd UNK g in (w =? UNK)%N || (w =? EOS)%N.
Fixpoint join_seq (gs : list gram) (st : list (gram * Q)) : list Q :=
  match gs with
  | [] => []
  | g :: t =>
      if last_special g then 1 :: join_seq t st
      else match st with
           | [] => 1 :: join_seq t []
           | (_, gm) :: st' => gm :: join_seq t st'
           end
  end.
Fixpoint skip_to (g : gram) (st : list (gram * Q)) : option (Q * list (gram * Q)) :=
  match st with
  | [] => None
  | (c, gm) :: st' => if geqb c g then Some (gm, st') else skip_to g st'
  end.
Fixpoint join_hash (gs : list gram) (st : list (gram * Q)) : list Q :=
  match gs with
  | [] => []
  | g :: t =>
      if last_special g then 1 :: join_hash t st
      else match skip_to g st with
           | Some (gm, st') => gm :: join_hash t st'
           | None => 1 :: join_hash t []
           end
  end.
Definition hash_mode (o : options) (k1 : nat) : bool :=
  (match o_limit o with Some _ => true | None => false end) || (0 <? thr o k1)%N.
(* the back-off weights of the kept order-k n-grams, in stream order *)
Definition backoffs_impl (n : nat) (o : options) (tab : list (list entry)) (ds : list disc) (k : nat) : list Q :=
  let gs := map e_gram (filter kept (ents tab k)) in
  if (k <? n)%nat then (if hash_mode o (S k) then join_hash else join_seq) gs (gamma_records tab ds (S k))
  else map (fun _ => 1) gs.

(* ---- Interpolate (lm/builder/interpolate.cc), bottom up as the code computes it: MergeRight has stored with every kept
   n-gram its uninterpolated probability and the interpolation weight of its context; Callback::Enter combines them with
   probs_[order-1], the interpolated probability of the SUFFIX n-gram, which the JointOrder traversal must have entered
   just before -- it throws "Detected n-gram without matching suffix" when the suffix is not in the lower stream.
   (The merge-join of JointOrder itself is represented by a lookup; the streams are in suffix order by C05_adjust_counts_refines_spec.)
   The back-off weight comes from the gamma stream through Callback::Enter's positional or hash join (backoffs_impl). *)
Section Interp.
  Variable n : nat.
  Variable tab : list (list entry).
  Variable ds : list disc.
  Variable interp : bool.
  Variable o : options.

  Definition uninterp (k : nat) (e : entry) : Q * Q :=
    let g := e_gram e in
    let w := hd UNK g in
    if (k =? 1)%nat then
      if (w =? BOS)%N then (1, 0)
      else if interp then ((if (w =? UNK)%N then 0 else u tab ds 1 g), gamma tab ds 1 [])
      else ((if (w =? UNK)%N then gamma tab ds 1 [] else u tab ds 1 g), 0)
    else (u tab ds k g, gamma tab ds k (tl g)).
  Definition uniform : Q := 1 / QN (vocab_size tab).

  Definition lower_prob (k : nat) (prev : list arpa) (g : gram) : option Q :=
    if (k =? 1)%nat then Some uniform
    else option_map a_prob (find (fun a => geqb (a_gram a) (removelast g)) prev).

  Fixpoint interp_order (k : nat) (prev : list arpa) (es : list entry) (bos : list Q) : list arpa + gram :=
    match es with
    | [] => inl []
    | e :: t =>
        let g := e_gram e in
        match lower_prob k prev g with
        | None => inr g
        | Some lower =>
            match interp_order k prev t (tl bos) with
            | inr x => inr x
            | inl r => inl (mkA g (Qred (fst (uninterp k e) + snd (uninterp k e) * lower)) (Qred (hd 1 bos)) :: r)
            end
        end
    end.

  Fixpoint interp_orders (ks : list nat) (prev : list arpa) : list (list arpa) + gram :=
    match ks with
    | [] => inl []
    | k :: ks' =>
        match interp_order k prev (filter kept (ents tab k)) (backoffs_impl n o tab ds k) with
        | inr g => inr g
        | inl cur => match interp_orders ks' cur with inl r => inl (cur :: r) | inr g => inr g end
        end
    end.
End Interp.

Inductive result2 := Refused2 (order : nat) | NoSuffix2 (g : gram) | Built2 (m : model).
Definition lift_result (r : result) : result2 := match r with Refused k => Refused2 k | Built m => Built2 m end.

(* the pipeline with the streaming AdjustCounts and the bottom-up interpolation *)
Definition kn_pipeline (c : corpus) (n : nat) (o : options) : result2 :=
  let '(tab, stats) := adjust true true n o (sorted_counts n (events c)) in
  match all_discounts (o_fallback o) 1 stats with
  | inr k => Refused2 k
  | inl ds => match interp_orders n tab ds (o_interp_uni o) o (seq 1 n) [] with
              | inr g => NoSuffix2 g
              | inl orders => Built2 (mkM (map s_count_pruned stats) ds orders)
              end
  end.
