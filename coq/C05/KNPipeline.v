(* C05/KNPipeline.v -- the whole modelled pipeline (streaming AdjustCounts, discounts, bottom-up interpolation with
   suffix lookup) equals the specification; in particular "n-gram without matching suffix" is never raised. *)
From Coq Require Import List NArith ZArith QArith Bool Lia.
From Kenlm Require Import C05.KNDefs C05.KNSpec C05.KNModel C05.KNLex C05.KNEvents C05.KNAdjustD C05.KNAdjustE C05.KNAdjustF C05.KNNgramSet
  C06.SumQ C06.SumProofs C06.GoodTable C06.Final C05.KNInterp C05.KNJoin.
Import ListNotations.

Lemma last_firstn_full : forall (e : gram) d, e <> [] -> last (firstn (length e) e) d = last e d.
Proof. intros e d _. rewrite firstn_all. reflexivity. Qed.

Lemma table_adj_pos : forall (c : corpus) n o k e, (1 <= n)%nat -> (2 <= k)%nat -> In e (ents (table n o (events c)) k) -> (1 <= e_adj e)%N.
Proof.
  intros c n o k e Hn Hk He. destruct (In_ents c n o Hn k e ltac:(lia) He) as [Hkn [Hg Ee]].
  destruct (gram_event c n Hn k (e_gram e) Hk Hg) as [e' [He' [Hl Eg]]]. rewrite Ee. cbn [sp e_adj]. rewrite Eg. unfold adj.
  assert (Hlen : length (firstn k e') = k) by (rewrite firstn_length; lia).
  assert (Ht : (1 <= tcount (events c) (firstn k e'))%N).
  { unfold tcount, lenN. rewrite Hlen.
    assert (Hin : In e' (filter (fun x => geqb (firstn k x) (firstn k e')) (events c))) by (apply filter_In; split; [exact He'|apply geqb_refl]).
    destruct (filter _ (events c)); [destruct Hin|simpl; lia]. }
  destruct ((k =? n)%nat || (last (firstn k e') UNK =? BOS)%N) eqn:Eb; [exact Ht|].
  apply orb_false_iff in Eb. destruct Eb as [Ekn Elast]. apply Nat.eqb_neq in Ekn. apply N.eqb_neq in Elast.
  assert (Hlong : (S k <= length e')%nat).
  { destruct (Nat.eq_dec (length e') k) as [E|]; [|lia]. exfalso. apply Elast. rewrite <- E, firstn_all.
    pose proof (events_wf c) as Hw. rewrite Forall_forall in Hw. destruct (Hw e' He') as [pre [-> _]]. apply last_last. }
  unfold lext, lenN. rewrite Hlen.
  assert (Hin : In (firstn (S k) e') (filter (fun q => geqb (firstn k q) (firstn k e')) (grams (events c) (S k)))).
  { apply filter_In. split; [apply In_grams; right; exists e'; split; [exact He'|]; split; [exact Hlong|reflexivity]|].
    rewrite firstn_firstn. replace (Nat.min k (S k)) with k by lia. apply geqb_refl. }
  destruct (filter _ (grams (events c) (S k))); [destruct Hin|simpl; lia].
Qed.

(* ---- facts about the events of a corpus that the back-off join relies on *)
Definition inner_ok (x : N) : Prop := x <> EOS /\ x <> UNK.

Lemma sent_events_tl_ok : forall s hist, Forall inner_ok hist -> Forall (fun x => (2 < x)%N) s ->
  forall e, In e (sent_events hist s) -> Forall inner_ok (tl e).
Proof.
  induction s as [|w s IH]; intros hist Hh Hs e He; simpl in He.
  - destruct He as [<-|[]]. exact Hh.
  - inversion Hs as [|? ? Hw Hs']; subst. destruct He as [<-|He]; [exact Hh|].
    apply (IH (w :: hist)); [|exact Hs'|exact He]. constructor; [|exact Hh]. unfold inner_ok, EOS, UNK. lia.
Qed.

Lemma events_tl_ok : forall c e, In e (events c) -> Forall inner_ok (tl e).
Proof.
  intros c e He. unfold events in He. apply in_flat_map in He. destruct He as [s [_ He]].
  apply (sent_events_tl_ok (clean s) [BOS]); [|apply clean_gt2|exact He]. constructor; [|constructor]. unfold inner_ok, BOS, EOS, UNK. lia.
Qed.

Lemma sent_events_next : forall s hist e, In e (sent_events hist s) -> hd UNK e <> EOS -> exists w, In (w :: e) (sent_events hist s).
Proof.
  induction s as [|w s IH]; intros hist e He Hh; simpl in He.
  - destruct He as [<-|[]]. exfalso. apply Hh. reflexivity.
  - destruct He as [<-|He].
    + destruct s as [|x s']; [exists EOS|exists x]; simpl; right; left; reflexivity.
    + destruct (IH (w :: hist) e He Hh) as [x Hx]. exists x. simpl. right. exact Hx.
Qed.

Lemma events_next : forall c e, In e (events c) -> hd UNK e <> EOS -> exists w, In (w :: e) (events c).
Proof.
  intros c e He Hh. unfold events in *. apply in_flat_map in He. destruct He as [s [Hs He]].
  destruct (sent_events_next _ _ _ He Hh) as [w Hw]. exists w. apply in_flat_map. exists s. tauto.
Qed.

Lemma events_first : forall c, c <> [] -> exists w, In [w; BOS] (events c).
Proof.
  intros c Hc. destruct c as [|s c']; [congruence|]. rewrite events_cons. destruct (clean s) as [|x t]; [exists EOS|exists x]; apply in_or_app; left; left; reflexivity.
Qed.

Section TableJoin.
  Variable c : corpus.
  Variable n : nat.
  Variable o : options.
  Hypothesis Hc : c <> [].
  Hypothesis Hn : (1 <= n)%nat.
  Hypothesis Hmono : thr_mono o n.
  Let ev := events c.
  Let tab := table n o ev.

  Lemma table_sorted : forall k, (1 <= k <= n)%nat -> gsorted (map e_gram (ents tab k)).
  Proof.
    intros k Hk. unfold tab. rewrite (ents_table n o ev k Hk), entries_sp, map_map. cbn [sp e_gram]. rewrite map_id. unfold grams. apply sort_uniq_sorted.
  Qed.

  Lemma table_ext : forall k, (1 <= k)%nat -> (k < n)%nat -> forall e, In e (ents tab k) -> last_special (e_gram e) = false ->
    exists e', In e' (ents tab (S k)) /\ tl (e_gram e') = e_gram e /\ (1 <= e_adj e')%N.
  Proof.
    intros k Hk Hkn e He Hls. destruct (In_ents c n o Hn k e Hk He) as [_ [Hg _]].
    unfold last_special in Hls. apply orb_false_iff in Hls. destruct Hls as [Hu He']. apply N.eqb_neq in Hu. apply N.eqb_neq in He'.
    assert (Hq : exists q, In q (grams ev (S k)) /\ tl q = e_gram e).
    { apply In_grams in Hg. destruct Hg as [[-> [Eg|Eg]]|[e0 [He0 [Hl Eg]]]].
      - rewrite Eg in Hu. exfalso. apply Hu. reflexivity.
      - destruct (events_first c Hc) as [w Hw]. exists [w; BOS]. split; [|rewrite Eg; reflexivity].
        apply In_grams. right. exists [w; BOS]. split; [exact Hw|]. split; [simpl; lia|reflexivity].
      - assert (Hh : hd UNK e0 <> EOS).
        { rewrite Eg in He'. destruct e0 as [|x t]; [simpl in Hl; lia|]. destruct k; [lia|]. exact He'. }
        destruct (events_next c e0 He0 Hh) as [w Hw]. exists (firstn (S k) (w :: e0)). split.
        + apply In_grams. right. exists (w :: e0). split; [exact Hw|]. split; [simpl; lia|reflexivity].
        + rewrite Eg. reflexivity. }
    destruct Hq as [q [Hq Ht]]. exists (sp n o ev (S k) q). split; [apply (ents_In c n o Hn); [lia|exact Hq]|]. split; [exact Ht|].
    apply (table_adj_pos c n o (S k)); [exact Hn|lia|]. apply (ents_In c n o Hn); [lia|exact Hq].
  Qed.

  Lemma table_noext : forall k, (1 <= k)%nat -> forall e', In e' (ents tab (S k)) -> last_special (tl (e_gram e')) = false.
  Proof.
    intros k Hk e' He'. destruct (In_ents c n o Hn (S k) e' ltac:(lia) He') as [_ [Hg _]].
    destruct (gram_event c n Hn (S k) _ ltac:(lia) Hg) as [e0 [He0 [Hl ->]]].
    destruct e0 as [|x t]; [simpl in Hl; lia|]. cbn [firstn tl].
    pose proof (events_tl_ok c (x :: t) He0) as Hok. cbn [tl] in Hok.
    destruct t as [|y t']; [simpl in Hl; lia|]. destruct k; [lia|]. cbn [firstn]. unfold last_special. cbn [hd].
    inversion Hok as [|? ? [H1 H2] _]; subst. apply orb_false_iff. split; apply N.eqb_neq; assumption.
  Qed.

  Lemma table_noprune : forall k, (1 <= k)%nat -> (k < n)%nat -> hash_mode o (S k) = false -> forall e, In e (ents tab k) -> e_marked e = false.
  Proof.
    intros k Hk Hkn Hhm e He. destruct (In_ents c n o Hn k e Hk He) as [_ [Hg Ee]]. rewrite Ee. cbn [sp e_marked].
    unfold hash_mode in Hhm. apply orb_false_iff in Hhm. destruct Hhm as [Hlim Hthr].
    assert (Hl : o_limit o = None) by (destruct (o_limit o); [discriminate|reflexivity]).
    apply N.ltb_ge in Hthr. pose proof (Hmono k (S k) ltac:(lia) ltac:(lia)) as Hm.
    unfold marked. destruct (special1 (e_gram e)) eqn:Es; [reflexivity|]. rewrite (no_limit_no_pruned o _ Hl), orb_false_r.
    apply N.leb_gt. assert (Ht : (1 <= tcount ev (e_gram e))%N).
    { apply In_grams in Hg. destruct Hg as [[-> [Eg|Eg]]|[e0 [He0 [Hl0 Eg]]]]; [rewrite Eg in Es; discriminate Es|rewrite Eg in Es; discriminate Es|].
      unfold tcount, lenN. rewrite Eg, firstn_length. replace (Nat.min k (length e0)) with k by lia.
      assert (Hin : In e0 (filter (fun x => geqb (firstn k x) (firstn k e0)) ev)) by (apply filter_In; split; [exact He0|apply geqb_refl]).
      destruct (filter _ ev); [destruct Hin|simpl; lia]. }
    unfold ev in *. lia.
  Qed.

  Lemma table_backoffs : forall ds k, (1 <= k <= n)%nat ->
    backoffs_impl n o tab ds k = map (fun e => backoff n tab ds k (e_gram e)) (filter kept (ents tab k)).
  Proof.
    intros ds k Hk. apply (backoffs_impl_spec n o tab ds k); [lia|apply table_good; assumption|apply table_sorted; exact Hk| | |].
    - intros Hkn. apply table_ext; lia.
    - apply table_noext. lia.
    - intros Hkn. apply table_noprune; lia.
  Qed.
End TableJoin.

Theorem pipeline_refines_spec : forall (c : corpus) (n : nat) (o : options),
  c <> [] -> (1 <= n)%nat -> thr_mono o n -> (forall k, (thr o k < MAX64)%N) ->
  kn_pipeline c n o = lift_result (kn_spec c n o).
Proof.
  intros c n o Hc Hn Hmono Hthr. unfold kn_pipeline, kn_spec, finish, finish_with.
  rewrite (adjust_counts_refines_spec c n o Hn Hthr).
  destruct (all_discounts (o_fallback o) 1 (map order_stat (table n o (events c)))) as [ds|k]; [|reflexivity].
  rewrite (interp_orders_spec n (table n o (events c)) ds (o_interp_uni o) o (table_good c n o Hc Hn Hmono) (table_length n o (events c))).
  - reflexivity.
  - intros k e Hk He. apply (table_adj_pos c n o k e Hn Hk He).
  - intros k Hk. apply table_backoffs; assumption.
Qed.
