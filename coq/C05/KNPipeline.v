(* C05/KNPipeline.v -- the whole modelled pipeline (streaming AdjustCounts, discounts, bottom-up interpolation with
   suffix lookup) equals the specification; in particular "n-gram without matching suffix" is never raised. *)
From Coq Require Import List NArith ZArith QArith Bool Lia.
From Kenlm Require Import C05.KNDefs C05.KNSpec C05.KNModel C05.KNLex C05.KNEvents C05.KNAdjustD C05.KNAdjustE C05.KNAdjustF C05.KNNgramSet
  C06.SumQ C06.SumProofs C06.GoodTable C06.Final C05.KNInterp.
Import ListNotations.

Lemma last_firstn_full : forall (e : gram) d, e <> [] -> last (firstn (length e) e) d = last e d.
Proof. intros e d _. rewrite firstn_all. reflexivity. Qed.

Lemma table_adj_pos : forall (c : corpus) n o k e, (1 <= n)%nat -> (2 <= k)%nat -> In e (ents (table n o (events c)) k) -> (1 <= e_adj e)%N.
Proof.
  intros c n o k e Hn Hk He. destruct (In_ents c n o Hn k e ltac:(lia) He) as [Hkn [Hg Ee]].
  destruct (gram_event c n Hn k (e_gram e) Hk Hg) as [e' [He' [Hl Eg]]]. rewrite Ee. cbn [sp e_adj]. rewrite Eg. unfold adj.
  assert (Hlen : length (firstn k e') = k) by (rewrite firstn_length; lia).
  assert (Ht : (1 <= tcount (events c) (firstn k e'))%N).
  { unfold tcount, lenN. rewrite Hlen.
    assert (Hin : In e' (filter (fun x => geqb (firstn k x) (firstn k e')) (events c))) by (apply filter_In; split; [exact He'|apply geqb_refl]).
    destruct (filter _ (events c)); [destruct Hin|simpl; lia]. }
  destruct ((k =? n)%nat || (last (firstn k e') UNK =? BOS)%N) eqn:Eb; [exact Ht|].
  apply orb_false_iff in Eb. destruct Eb as [Ekn Elast]. apply Nat.eqb_neq in Ekn. apply N.eqb_neq in Elast.
  assert (Hlong : (S k <= length e')%nat).
  { destruct (Nat.eq_dec (length e') k) as [E|]; [|lia]. exfalso. apply Elast. rewrite <- E, firstn_all.
    pose proof (events_wf c) as Hw. rewrite Forall_forall in Hw. destruct (Hw e' He') as [pre [-> _]]. apply last_last. }
  unfold lext, lenN. rewrite Hlen.
  assert (Hin : In (firstn (S k) e') (filter (fun q => geqb (firstn k q) (firstn k e')) (grams (events c) (S k)))).
  { apply filter_In. split; [apply In_grams; right; exists e'; split; [exact He'|]; split; [exact Hlong|reflexivity]|].
    rewrite firstn_firstn. replace (Nat.min k (S k)) with k by lia. apply geqb_refl. }
  destruct (filter _ (grams (events c) (S k))); [destruct Hin|simpl; lia].
Qed.

Theorem pipeline_refines_spec : forall (c : corpus) (n : nat) (o : options),
  c <> [] -> (1 <= n)%nat -> thr_mono o n -> (forall k, (thr o k < MAX64)%N) ->
  kn_pipeline c n o = lift_result (kn_spec c n o).
Proof.
  intros c n o Hc Hn Hmono Hthr. unfold kn_pipeline, kn_spec, finish, finish_with.
  rewrite (adjust_counts_refines_spec c n o Hn Hthr).
  destruct (all_discounts (o_fallback o) 1 (map order_stat (table n o (events c)))) as [ds|k]; [|reflexivity].
  rewrite (interp_orders_spec n (table n o (events c)) ds (o_interp_uni o) (table_good c n o Hc Hn Hmono) (table_length n o (events c))).
  - reflexivity.
  - intros k e Hk He. apply (table_adj_pos c n o k e Hn Hk He).
Qed.
