(* C05/KNAdjustF.v -- AdjustCounts (repaired) = the declarative adjusted-count tables, for every corpus and order. *)
From Coq Require Import List NArith ZArith Bool Lia Sorted.
From Kenlm Require Import C05.KNDefs C05.KNSpec C05.KNModel C05.KNLex C05.KNEvents C05.KNAdjustA C05.KNAdjustB C05.KNAdjustC C05.KNAdjustD C05.KNAdjustE.
Import ListNotations.
Local Arguments N.add : simpl never.
Local Arguments N.leb : simpl never.
Local Arguments N.ltb : simpl never.

Lemma ins_count_nonempty : forall g l, ins_count g l <> [].
Proof. intros g l. destruct l as [|[h c] t]; simpl; [discriminate|]. destruct (cmp g h); discriminate. Qed.

Lemma sorted_counts_nil : forall n ev, sorted_counts n ev = [] -> ev = [].
Proof. intros n ev H. destruct ev as [|e ev]; [reflexivity|]. simpl in H. exfalso. exact (ins_count_nonempty _ _ H). Qed.

Lemma seq_last : forall n, (1 <= n)%nat -> seq 1 n = seq 1 (n - 1) ++ [n].
Proof. intros n H. replace n with (S (n - 1)) at 1 by lia. rewrite seq_S. f_equal. f_equal. lia. Qed.

Lemma glt_special' : forall (w x : N), (w <= 1)%N -> (2 <= x)%N -> glt [w] [x].
Proof. intros w x Hw Hx. unfold glt. cbn [cmp]. assert (E : (w ?= x)%N = Lt) by (apply N.compare_lt_iff; lia). rewrite E. reflexivity. Qed.

Section F.
  Variable o : options.
  Variable ev : list gram.
  Hypothesis Hthr : forall k, (thr o k < MAX64)%N.
  Hypothesis Hev : Forall wf_event ev.

  (* ---- orders >= 2 *)
  Lemma adjust_ge2 : forall n, (2 <= n)%nat ->
    adjust true true n o (sorted_counts n ev) = (table n o ev, map order_stat (table n o ev)).
  Proof.
    intros n Hn. assert (Hn1 : (1 <= n)%nat) by lia.
    assert (Hunfold : adjust true true n o (sorted_counts n ev) =
      let s := fold_left (step true n o) (sorted_counts n ev) init in
      let tr := flush true true o s in
      let lows := map (stream tr) (seq 1 (n - 1)) in
      (lows ++ [collapse n o (sorted_counts n ev)], map order_stat lows ++ [order_stat (rev (fullstat s))])).
    { unfold adjust. destruct n as [|[|n']]; try lia. reflexivity. }
    rewrite Hunfold. clear Hunfold. cbv zeta.
    unfold table. rewrite (seq_last n Hn1), !map_app. cbn [map].
    rewrite (collapse_entries n o ev Hn Hev).
    destruct (sorted_counts n ev) as [|[r c] rest] eqn:Efs.
    - (* no sentence at all *)
      apply sorted_counts_nil in Efs. subst ev. cbn [fold_left].
      assert (Efl : flush true true o init = [BOSe; UNKe]).
      { unfold flush, init. cbn [stack trace map app]. change (emit_flush true true o (mkL [BOS] 0 MAX64)) with (emit_lower true o (mkL [BOS] 0 MAX64)).
        rewrite (emit_bos o Hthr). reflexivity. }
      rewrite Efl.
      assert (Elow : map (stream [BOSe; UNKe]) (seq 1 (n - 1)) = map (entries n o []) (seq 1 (n - 1))).
      { apply map_ext_in. intros k Hk. apply in_seq in Hk. destruct k as [|[|k]]; [lia| |].
        - rewrite entries_sp. change (grams [] 1) with [[UNK]; [BOS]]. cbn [map]. rewrite (sp_unk n o [] Hn Hev), (sp_bos n o [] Hn Hev). reflexivity.
        - reflexivity. }
      rewrite Elow. f_equal. f_equal. f_equal. cbn [fullstat init rev].
      rewrite entries_sp. destruct n as [|[|n']]; try lia. reflexivity.
    - (* the loop ran *)
      assert (Hwf : wf_fulls n ((r, c) :: rest)) by (rewrite <- Efs; apply fs_wf; assumption).
      destruct (loop_inv n o Hn Hthr r c rest Hwf) as [fs1 [rl [cl [Esplit Hinv]]]].
      set (s := fold_left (step true n o) ((r, c) :: rest) init) in *.
      rewrite <- Esplit, <- Efs in Hinv. rewrite Esplit in Efs.
      assert (Elow : map (stream (flush true true o s)) (seq 1 (n - 1)) = map (entries n o ev) (seq 1 (n - 1))).
      { apply map_ext_in. intros k Hk. apply in_seq in Hk. apply (stream_final n o ev Hn Hev fs1 rl cl s Efs Hinv). lia. }
      destruct Hinv as [_ [_ Hfull]]. rewrite Elow, Hfull, rev_involutive, (collapse_entries n o ev Hn Hev). reflexivity.
  Qed.

  (* ---- order 1 *)
  Lemma csorted_map_fst : forall l : list (gram * N), csorted l -> gsorted (map fst l).
  Proof.
    intros l H. induction H as [|h t Hs IH Hall]; simpl; [constructor|]. constructor; [exact IH|].
    rewrite Forall_forall in *. intros x Hx. apply in_map_iff in Hx. destruct Hx as [f [<- Hf]]. apply Hall. exact Hf.
  Qed.

  Lemma adjust1_entries : adjust1 o (sorted_counts 1 ev) = entries 1 o ev 1.
  Proof.
    rewrite entries_sp. unfold adjust1. set (fs := sorted_counts 1 ev).
    assert (Hsorted : csorted fs) by apply sorted_counts_sorted.
    assert (Hall : forall f, In f fs -> exists x, fst f = [x] /\ (2 <= x)%N).
    { intros f Hf. destruct (fs_In 1 ev f Hf) as [e [He ->]]. pose proof (ev_wf ev Hev e He) as Hw.
      destruct (pad_wf 1 e ltac:(lia) Hw) as [Hl [_ [_ Hh]]]. destruct (pad 1 e) as [|x [|y t]]; simpl in Hl; try lia.
      exists x. split; [reflexivity|exact Hh]. }
    assert (Ezero : forall w, (w <= 1)%N -> tcount ev [w] = 0%N).
    { intros w Hw. unfold tcount. rewrite filter_none; [reflexivity|]. intros e He. apply geqb_neq. intro Eq.
      destruct (hd_event ev Hev e He) as [x [t [-> Hx]]]. simpl in Eq. injection Eq as Eq. lia. }
    set (l := ([UNK], 0%N) :: ([BOS], 0%N) :: fs).
    assert (Hval : forall f, In f l ->
      mkE (fst f) (snd f) (negb (special1 (fst f)) && ((snd f <=? thr o 1)%N || has_pruned o (fst f))) (snd f) = sp 1 o ev 1 (fst f)).
    { intros f Hf. unfold sp, adj. cbn [Nat.eqb orb]. destruct Hf as [<-|[<-|Hf]].
      - cbn [fst snd]. rewrite (Ezero UNK) by (unfold UNK; lia). reflexivity.
      - cbn [fst snd]. rewrite (Ezero BOS) by (unfold BOS; lia). reflexivity.
      - destruct f as [r c]. cbn [fst snd]. destruct (Hall _ Hf) as [x [Er Hx]]. cbn [fst] in Er. subst r.
        assert (Ec : c = tcount ev [x]).
        { rewrite <- (act_tcount 1 ev Hev 1 [x]) by (simpl; lia). unfold act, sel. fold fs.
          rewrite (filter_ext_in (fun f : gram * N => geqb (firstn 1 (fst f)) [x]) (fun f : gram * N => geqb (fst f) [x])).
          - rewrite (csorted_unique fs [x] c Hsorted Hf). simpl. lia.
          - intros f Hf'. destruct (Hall f Hf') as [y [Ey _]]. rewrite Ey. reflexivity. }
        unfold marked, has_pruned. rewrite <- Ec. destruct (special1 [x]); reflexivity. }
    rewrite (map_ext_in _ (fun f => sp 1 o ev 1 (fst f)) l Hval). rewrite <- (map_map fst (sp 1 o ev 1)). f_equal.
    apply gsorted_ext.
    - unfold l. cbn [map fst]. pose proof (csorted_map_fst fs Hsorted) as Hs.
      assert (Hb : Forall (glt [BOS]) (map fst fs)).
      { apply Forall_forall. intros g Hg. apply in_map_iff in Hg. destruct Hg as [f [<- Hf]]. destruct (Hall f Hf) as [x [-> Hx]].
        apply glt_special'; [unfold BOS; lia|exact Hx]. }
      constructor; [constructor; assumption|]. constructor; [reflexivity|].
      rewrite Forall_forall in *. intros g Hg. eapply glt_trans; [|apply Hb; exact Hg]. reflexivity.
    - unfold grams. apply sort_uniq_sorted.
    - intros g. rewrite In_grams. unfold l. cbn [map fst In]. split.
      + intros [<-|[<-|Hg]]; [left; tauto|left; tauto|right].
        apply (sorted_counts_In 1 ev g) in Hg. destruct Hg as [e [He ->]]. exists e.
        pose proof (wf_event_length e (ev_wf ev Hev e He)). split; [exact He|]. split; [lia|apply pad_long; lia].
      + intros [[_ [->| ->]]|[e [He [Hl ->]]]]; [tauto|tauto|]. right; right. apply (sorted_counts_In 1 ev). exists e.
        split; [exact He|]. symmetry. apply pad_long. exact Hl.
  Qed.

  Lemma adjust_1 : adjust true true 1 o (sorted_counts 1 ev) = (table 1 o ev, map order_stat (table 1 o ev)).
  Proof. unfold adjust, table. cbn [seq map]. rewrite adjust1_entries. reflexivity. Qed.

  Theorem adjust_refines : forall n, (1 <= n)%nat ->
    adjust true true n o (sorted_counts n ev) = (table n o ev, map order_stat (table n o ev)).
  Proof.
    intros n Hn. destruct (Nat.eq_dec n 1) as [->|N1]; [apply adjust_1|apply adjust_ge2; lia].
  Qed.
End F.

Theorem adjust_counts_refines_spec : forall (c : corpus) (n : nat) (o : options),
  (1 <= n)%nat -> (forall k, (thr o k < MAX64)%N) ->
  adjust true true n o (sorted_counts n (events c)) = (table n o (events c), map order_stat (table n o (events c))).
Proof. intros c n o Hn Hthr. apply adjust_refines; [exact Hthr|apply events_wf|exact Hn]. Qed.

Theorem impl_refines_spec : forall (c : corpus) (n : nat) (o : options),
  (1 <= n)%nat -> (forall k, (thr o k < MAX64)%N) -> kn_impl c n o = kn_spec c n o.
Proof.
  intros c n o Hn Hthr. unfold kn_impl, kn_impl_gen, kn_spec, finish. rewrite adjust_counts_refines_spec by assumption. reflexivity.
Qed.
