(* C05/KNInterp.v -- the bottom-up interpolation of the code (probability of an n-gram from the probability of its
   suffix) never misses a suffix and computes the textbook recursion. *)
From Coq Require Import List NArith ZArith QArith Bool Lia Lqa.
From Kenlm Require Import C05.KNDefs C05.KNSpec C05.KNModel C05.KNLex C05.KNEvents C05.KNAdjustD C05.KNAdjustE C05.KNAdjustF C05.KNNgramSet
  C06.SumQ C06.SumProofs C06.GoodTable C06.BoProofs.
Import ListNotations.
Local Open Scope Q_scope.

Lemma sumN_ge_elem : forall (l : list entry) e, In e l -> (e_adj e <= sumN (map e_adj l))%N.
Proof.
  intros l e H. induction l as [|x l IH]; [destruct H|]. simpl. destruct H as [->|H]; [lia|]. specialize (IH H). lia.
Qed.

Lemma removelast_snoc : forall {A} (l : list A) x, removelast (l ++ [x]) = l.
Proof. intros A l x. apply removelast_last. Qed.

Section Interp.
  Variable n : nat.
  Variable tab : list (list entry).
  Variable ds : list (Q * Q * Q).
  Variable interp : bool.
  Variable o : options.
  Hypothesis G : good tab.
  Hypothesis Hlen : length tab = n.
  (* every n-gram of order >= 2 has a positive adjusted count *)
  Hypothesis Hpos : forall k e, (2 <= k)%nat -> In e (ents tab k) -> (1 <= e_adj e)%N.
  (* Callback::Enter's join delivers the specification's back-off weights (KNJoin.v) *)
  Hypothesis Hbo : forall k, (1 <= k <= n)%nat ->
    backoffs_impl n o tab ds k = map (fun e => backoff n tab ds k (e_gram e)) (filter kept (ents tab k)).

  Notation E := (ents tab).

  Lemma denom_pos : forall k e, (2 <= k)%nat -> In e (E k) -> denom tab k (tl (e_gram e)) <> 0%N.
  Proof.
    intros k e Hk He. unfold denom.
    assert (Hin : In e (filter (in_ctx (tl (e_gram e))) (E k))) by (apply filter_In; split; [exact He|apply geqb_refl]).
    pose proof (sumN_ge_elem _ e Hin). pose proof (Hpos k e Hk He). lia.
  Qed.

  (* the code's recurrence is the textbook recursion *)
  Lemma pkn_step : forall k e, (2 <= k)%nat -> In e (E k) ->
    let g := e_gram e in
    pkn tab ds interp (rev (tl g)) (hd UNK g) ==
    u tab ds k g + gamma tab ds k (tl g) * pkn tab ds interp (rev (tl (removelast g))) (hd UNK g).
  Proof.
    intros k e Hk He g. pose proof (g_len tab G k e ltac:(lia) He) as Hl. fold g in Hl.
    destruct g as [|w rc] eqn:Eg; [simpl in Hl; lia|]. cbn [tl hd].
    assert (Hrc : length rc = (k - 1)%nat) by (simpl in Hl; lia).
    destruct (rev rc) as [|x c'] eqn:Er.
    - exfalso. assert (length (rev rc) = 0%nat) by (rewrite Er; reflexivity). rewrite rev_length in H. lia.
    - assert (Erc : rc = rev c' ++ [x]) by (rewrite <- (rev_involutive rc), Er; reflexivity).
      cbn [pkn]. rewrite <- Er, rev_involutive.
      assert (Ek : S (length (rev rc)) = k) by (rewrite rev_length; lia). rewrite Ek.
      pose proof (denom_pos k e Hk He) as Hd. unfold g in *. rewrite Eg in Hd. cbn [tl] in Hd.
      destruct (N.eqb_spec (denom tab k rc) 0) as [Hz|_]; [contradiction|].
      assert (Esfx : tl (removelast (w :: rc)) = rev c').
      { rewrite Erc. transitivity (tl (w :: removelast (rev c' ++ [x]))).
        - f_equal. destruct (rev c' ++ [x]) eqn:Ey; [destruct (rev c'); discriminate|reflexivity].
        - cbn [tl]. apply removelast_snoc. }
      rewrite Esfx, rev_involutive. reflexivity.
  Qed.

  Lemma u1_unk : u tab ds 1 [UNK] == 0.
  Proof. apply (u1_special tab ds G). left. reflexivity. Qed.

  Lemma uni_value : forall e, In e (E 1) ->
    fst (uninterp tab ds interp 1 e) + snd (uninterp tab ds interp 1 e) * uniform tab == pkn tab ds interp (rev (tl (e_gram e))) (hd UNK (e_gram e)).
  Proof.
    intros e He. rewrite (uni_gram tab G e He). cbn [tl rev pkn hd]. unfold uninterp, p_uni, uniform. cbn [Nat.eqb e_gram].
    rewrite (uni_gram tab G e He). cbn [hd]. set (w := hd UNK (e_gram e)).
    destruct (w =? BOS)%N; [cbn [fst snd]; ring|]. destruct interp.
    - destruct (N.eqb_spec w UNK) as [->|]; cbn [fst snd]; [rewrite u1_unk|]; reflexivity.
    - destruct (w =? UNK)%N; cbn [fst snd]; ring.
  Qed.

  Lemma interp_order_1 : interp_order tab ds interp 1 [] (filter kept (E 1)) (map (fun e => backoff n tab ds 1 (e_gram e)) (filter kept (E 1))) =
                         inl (emit_order n tab ds interp 1).
  Proof.
    unfold emit_order. assert (H : forall e, In e (filter kept (E 1)) -> In e (E 1)) by (intros e He; apply filter_In in He; tauto).
    induction (filter kept (E 1)) as [|e l IH]; [reflexivity|]. cbn [interp_order map lower_prob Nat.eqb hd tl].
    rewrite IH by (intros x Hx; apply H; right; exact Hx). f_equal. f_equal. unfold emit. f_equal.
    apply Qred_complete. apply uni_value. apply H. left. reflexivity.
  Qed.

  Lemma interp_order_k : forall k, (2 <= k <= n)%nat ->
    interp_order tab ds interp k (emit_order n tab ds interp (k - 1)) (filter kept (E k)) (map (fun e => backoff n tab ds k (e_gram e)) (filter kept (E k))) =
    inl (emit_order n tab ds interp k).
  Proof.
    intros k Hk. unfold emit_order at 2.
    assert (H : forall e, In e (filter kept (E k)) -> In e (E k) /\ e_marked e = false).
    { intros e He. apply filter_In in He. destruct He as [He Hm]. unfold kept in Hm. apply negb_true_iff in Hm. tauto. }
    induction (filter kept (E k)) as [|e l IH]; [reflexivity|]. cbn [interp_order map hd tl].
    destruct (H e (or_introl eq_refl)) as [He Hm].
    assert (Elow : lower_prob tab k (emit_order n tab ds interp (k - 1)) (e_gram e) =
                   Some (Qred (pkn tab ds interp (rev (tl (removelast (e_gram e)))) (hd UNK (e_gram e))))).
    { unfold lower_prob. assert (Ek1 : (k =? 1)%nat = false) by (apply Nat.eqb_neq; lia). rewrite Ek1.
      replace k with (S (k - 1)) in He by lia.
      destruct (g_sfx tab G (k - 1) e ltac:(lia) He Hm) as [e' [He' [Hg' Hm']]].
      unfold emit_order. rewrite find_map_gram by reflexivity. rewrite find_filter_kept by (apply (g_nodup tab G)).
      pose proof (find_NoDup (E (k - 1)) e' (g_nodup tab G _) He') as Hf. rewrite Hg' in Hf. rewrite Hf, Hm'. cbn [option_map emit a_prob].
      rewrite Hg'. f_equal. f_equal. f_equal. apply hd_removelast.
      pose proof (g_len tab G (S (k - 1)) e ltac:(lia) He). lia. }
    rewrite Elow. rewrite IH by (intros x Hx; apply H; right; exact Hx). f_equal. f_equal. unfold emit. f_equal.
    apply Qred_complete. unfold uninterp. assert (Ek1 : (k =? 1)%nat = false) by (apply Nat.eqb_neq; lia). rewrite Ek1. cbn [fst snd].
    rewrite Qred_correct. symmetry. apply (pkn_step k e); [lia|exact He].
  Qed.

  Lemma interp_orders_from : forall m k, (1 <= k)%nat -> (k + m = S n)%nat ->
    interp_orders n tab ds interp o (seq k m) (if (k =? 1)%nat then [] else emit_order n tab ds interp (k - 1)) =
    inl (map (emit_order n tab ds interp) (seq k m)).
  Proof.
    induction m as [|m IH]; intros k Hk Hkm; [reflexivity|]. cbn [seq interp_orders map].
    assert (Ecur : interp_order tab ds interp k (if (k =? 1)%nat then [] else emit_order n tab ds interp (k - 1)) (filter kept (E k)) (backoffs_impl n o tab ds k) =
                   inl (emit_order n tab ds interp k)).
    { rewrite Hbo by lia. destruct (Nat.eqb_spec k 1) as [->|Hne]; [apply interp_order_1|apply interp_order_k; lia]. }
    rewrite Ecur. specialize (IH (S k) ltac:(lia) ltac:(lia)).
    assert (E1 : (S k =? 1)%nat = false) by (apply Nat.eqb_neq; lia). rewrite E1 in IH. replace (S k - 1)%nat with k in IH by lia.
    rewrite IH. reflexivity.
  Qed.

  Theorem interp_orders_spec : interp_orders n tab ds interp o (seq 1 n) [] = inl (map (emit_order n tab ds interp) (seq 1 n)).
  Proof. exact (interp_orders_from n 1 ltac:(lia) ltac:(lia)). Qed.
End Interp.
