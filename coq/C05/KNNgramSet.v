(* C05/KNNgramSet.v -- which n-grams kn_spec writes. *)
From Coq Require Import List NArith ZArith QArith Bool Lia.
From Kenlm Require Import C05.KNDefs C05.KNSpec C05.KNModel C05.KNLex C05.KNEvents C05.KNAdjustD.
Import ListNotations.

Lemma kn_spec_orders : forall c n o m, kn_spec c n o = Built m ->
  exists ds, m_orders m = map (emit_order n (table n o (events c)) ds (o_interp_uni o)) (seq 1 n).
Proof.
  intros c n o m H. unfold kn_spec, finish, finish_with in H.
  destruct (all_discounts (o_fallback o) 1 (map order_stat (table n o (events c)))) as [ds|k]; [|discriminate].
  injection H as <-. exists ds. reflexivity.
Qed.

Lemma ents_table : forall n o ev k, (1 <= k <= n)%nat -> ents (table n o ev) k = entries n o ev k.
Proof.
  intros n o ev k Hk. unfold ents, table. rewrite (nth_indep _ [] (entries n o ev 0)) by (rewrite map_length, seq_length; lia).
  rewrite map_nth. rewrite seq_nth by lia. f_equal. lia.
Qed.

Lemma filter_map_comm : forall {A B} (f : A -> B) (p : B -> bool) l, filter p (map f l) = map f (filter (fun x => p (f x)) l).
Proof. intros A B f p l. induction l as [|x l IH]; simpl; [reflexivity|]. destruct (p (f x)); simpl; rewrite IH; reflexivity. Qed.

Lemma emitted_ngrams : forall (c : corpus) n o m k, kn_spec c n o = Built m -> (1 <= k <= n)%nat ->
  map a_gram (nth (k - 1) (m_orders m) []) = filter (fun g => negb (marked o (events c) k g)) (grams (events c) k).
Proof.
  intros c n o m k H Hk. destruct (kn_spec_orders c n o m H) as [ds ->].
  rewrite (nth_indep _ [] (emit_order n (table n o (events c)) ds (o_interp_uni o) 0)) by (rewrite map_length, seq_length; lia).
  rewrite map_nth, seq_nth by lia. replace (1 + (k - 1))%nat with k by lia.
  unfold emit_order. rewrite map_map. cbn [emit a_gram]. rewrite ents_table by exact Hk.
  unfold entries. rewrite filter_map_comm, map_map. cbn [kept e_marked e_gram]. rewrite map_id. reflexivity.
Qed.

Lemma no_limit_no_pruned : forall o g, o_limit o = None -> existsb (pruned_word o) g = false.
Proof.
  intros o g H. unfold pruned_word. rewrite H. induction g as [|w g IH]; simpl; [reflexivity|exact IH].
Qed.

Lemma emitted_ngrams_unpruned : forall (c : corpus) n o m k, kn_spec c n o = Built m -> (1 <= k <= n)%nat ->
  (forall j, thr o j = 0%N) -> o_limit o = None ->
  map a_gram (nth (k - 1) (m_orders m) []) = grams (events c) k.
Proof.
  intros c n o m k H Hk Hthr Hlim. rewrite (emitted_ngrams c n o m k H Hk).
  assert (E : forall g, In g (grams (events c) k) -> negb (marked o (events c) k g) = true).
  { intros g Hg. unfold marked. destruct (special1 g) eqn:Es; [reflexivity|]. rewrite Hthr.
    rewrite (no_limit_no_pruned o g Hlim), orb_false_r. apply negb_true_iff. apply N.leb_gt.
    apply In_grams in Hg. destruct Hg as [[-> [-> | ->]]|[e [He [Hl ->]]]]; [discriminate Es|discriminate Es|].
    unfold tcount, lenN. rewrite firstn_length. replace (Nat.min k (length e)) with k by lia.
    assert (Hin : In e (filter (fun e0 => geqb (firstn k e0) (firstn k e)) (events c))) by (apply filter_In; split; [exact He|apply geqb_refl]).
    destruct (filter _ (events c)); [destruct Hin|simpl; lia]. }
  clear H. induction (grams (events c) k) as [|g l IH]; simpl; [reflexivity|].
  rewrite (E g) by (left; reflexivity). f_equal. apply IH. intros x Hx. apply E. right. exact Hx.
Qed.
