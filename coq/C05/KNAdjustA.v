(* C05/KNAdjustA.v -- the quantities the AdjustCounts loop maintains, defined over the list of full n-grams
   processed so far, and how they change when one more n-gram arrives. *)
From Coq Require Import List NArith ZArith Bool Lia Sorted.
From Kenlm Require Import C05.KNDefs C05.KNSpec C05.KNModel C05.KNLex C05.KNEvents.
Import ListNotations.
Local Arguments N.add : simpl never.
Local Arguments N.leb : simpl never.
Local Arguments N.ltb : simpl never.

Notation fulls := (list (list N * N)) (only parsing).

Definition sel (k : nat) (p : gram) (fs : fulls) : fulls := filter (fun f : gram * N => geqb (firstn k (fst f)) p) fs.
Definition act (k : nat) (p : gram) (fs : fulls) : N := sumN (map snd (sel k p fs)).
Definition extn (k : nat) (p : gram) (fs : fulls) : N :=
  lenN (sort_uniq (map (fun f : gram * N => firstn (S k) (fst f)) (sel k p fs))).
Definition adjf (k : nat) (p : gram) (fs : fulls) : N :=
  if (last p UNK =? BOS)%N then act k p fs else extn k p fs.

Lemma sel_snoc : forall k p fs (f : gram * N), sel k p (fs ++ [f]) = sel k p fs ++ (if geqb (firstn k (fst f)) p then [f] else []).
Proof. intros. unfold sel. rewrite filter_app. reflexivity. Qed.

Lemma sel_snoc_other : forall k p fs (f : gram * N), firstn k (fst f) <> p -> sel k p (fs ++ [f]) = sel k p fs.
Proof. intros k p fs f H. rewrite sel_snoc. apply geqb_neq in H. rewrite H. apply app_nil_r. Qed.

Lemma sel_snoc_same : forall k fs r (c : N), sel k (firstn k r) (fs ++ [(r, c)]) = sel k (firstn k r) fs ++ [(r, c)].
Proof. intros k fs r c. rewrite sel_snoc. simpl fst. rewrite geqb_refl. reflexivity. Qed.

Lemma sel_none : forall k p fs, (forall f, In f fs -> firstn k (fst f) <> p) -> sel k p fs = [].
Proof.
  intros k p fs H. unfold sel. induction fs as [|f fs IH]; simpl; [reflexivity|].
  assert (E : geqb (firstn k (fst f)) p = false) by (apply geqb_neq; apply H; left; reflexivity).
  rewrite E. apply IH. intros g Hg. apply H. right. exact Hg.
Qed.

Lemma In_sel : forall k p fs f, In f (sel k p fs) <-> In f fs /\ firstn k (fst f) = p.
Proof. intros. unfold sel. rewrite filter_In, geqb_eq. tauto. Qed.

(* ---- length of sort_uniq when one element is appended *)
Lemma ins_In_id : forall q L, gsorted L -> In q L -> ins q L = L.
Proof.
  intros q L HL Hin. apply gsorted_ext; [apply ins_sorted; exact HL|exact HL|].
  intros x. rewrite In_ins. split; [intros [->|H]; assumption|tauto].
Qed.

Lemma ins_notin_len : forall q L, ~ In q L -> length (ins q L) = S (length L).
Proof.
  intros q L. induction L as [|h t IH]; intros Hn; simpl; [reflexivity|].
  destruct (cmp q h) eqn:E; simpl.
  - apply cmp_eq in E. subst h. exfalso. apply Hn. left. reflexivity.
  - reflexivity.
  - rewrite IH; [reflexivity|]. intro H. apply Hn. right. exact H.
Qed.

Lemma sort_uniq_snoc : forall l q, sort_uniq (l ++ [q]) = ins q (sort_uniq l).
Proof.
  intros l q. change (ins q (sort_uniq l)) with (sort_uniq (q :: l)). apply sort_uniq_ext.
  intros x. rewrite in_app_iff. simpl. tauto.
Qed.

Lemma sort_uniq_snoc_old : forall l q, In q l -> length (sort_uniq (l ++ [q])) = length (sort_uniq l).
Proof.
  intros l q H. rewrite sort_uniq_snoc, ins_In_id; [reflexivity|apply sort_uniq_sorted|apply In_sort_uniq; exact H].
Qed.

Lemma sort_uniq_snoc_new : forall l q, ~ In q l -> length (sort_uniq (l ++ [q])) = S (length (sort_uniq l)).
Proof.
  intros l q H. rewrite sort_uniq_snoc. apply ins_notin_len. rewrite In_sort_uniq. exact H.
Qed.

(* ---- one more full n-gram *)
Lemma act_snoc_other : forall k p fs f, firstn k (fst f) <> p -> act k p (fs ++ [f]) = act k p fs.
Proof. intros. unfold act. rewrite sel_snoc_other by assumption. reflexivity. Qed.

Lemma extn_snoc_other : forall k p fs f, firstn k (fst f) <> p -> extn k p (fs ++ [f]) = extn k p fs.
Proof. intros. unfold extn. rewrite sel_snoc_other by assumption. reflexivity. Qed.

Lemma adjf_snoc_other : forall k p fs f, firstn k (fst f) <> p -> adjf k p (fs ++ [f]) = adjf k p fs.
Proof. intros. unfold adjf. rewrite act_snoc_other, extn_snoc_other by assumption. reflexivity. Qed.

Lemma act_snoc_same : forall k fs r c, act k (firstn k r) (fs ++ [(r, c)]) = (act k (firstn k r) fs + c)%N.
Proof.
  intros. unfold act. rewrite sel_snoc_same. rewrite map_app, sumN_app. simpl. lia.
Qed.

Lemma extn_snoc_old : forall k fs r c,
  (exists f, In f fs /\ firstn k (fst f) = firstn k r /\ firstn (S k) (fst f) = firstn (S k) r) ->
  extn k (firstn k r) (fs ++ [(r, c)]) = extn k (firstn k r) fs.
Proof.
  intros k fs r c [f [Hin [Hk HS]]]. unfold extn, lenN. rewrite sel_snoc_same, map_app. simpl.
  rewrite sort_uniq_snoc_old; [reflexivity|]. apply in_map_iff. exists f. split; [exact HS|]. apply In_sel. split; assumption.
Qed.

Lemma extn_snoc_new : forall k fs r c,
  (forall f, In f fs -> firstn (S k) (fst f) <> firstn (S k) r) ->
  extn k (firstn k r) (fs ++ [(r, c)]) = (extn k (firstn k r) fs + 1)%N.
Proof.
  intros k fs r c H. unfold extn, lenN. rewrite sel_snoc_same, map_app. simpl.
  rewrite sort_uniq_snoc_new; [lia|]. intro Hin. apply in_map_iff in Hin. destruct Hin as [f [E Hf]].
  apply In_sel in Hf. apply (H f); tauto.
Qed.

Lemma act_first : forall k fs r c, (forall f, In f fs -> firstn k (fst f) <> firstn k r) -> act k (firstn k r) (fs ++ [(r, c)]) = c.
Proof. intros k fs r c H. rewrite act_snoc_same. unfold act. rewrite sel_none by exact H. simpl. lia. Qed.

Lemma extn_first : forall k fs r c, (forall f, In f fs -> firstn k (fst f) <> firstn k r) -> extn k (firstn k r) (fs ++ [(r, c)]) = 1%N.
Proof.
  intros k fs r c H. unfold extn. rewrite sel_snoc_same. rewrite sel_none by exact H. reflexivity.
Qed.

(* ---- well-formed, strictly sorted input *)
Definition wf_fulls (n : nat) (fs : fulls) : Prop := csorted fs /\ Forall (fun f => wf_full n (fst f)) fs.

Lemma csorted_snoc_inv : forall fs f, csorted (fs ++ [f]) -> csorted fs /\ forall g, In g fs -> glt (fst g) (fst f).
Proof.
  induction fs as [|h t IH]; intros f H; simpl in *.
  - split; [constructor|]. intros g [].
  - inversion H as [|? ? Hs Hall]; subst. destruct (IH f Hs) as [Ht Hlt]. rewrite Forall_forall in Hall. split.
    + constructor; [exact Ht|]. apply Forall_forall. intros x Hx. apply Hall. apply in_or_app. left. exact Hx.
    + intros g [<-|Hg]; [apply Hall; apply in_or_app; right; left; reflexivity|apply Hlt; exact Hg].
Qed.

Lemma wf_fulls_snoc_inv : forall n fs f, wf_fulls n (fs ++ [f]) ->
  wf_fulls n fs /\ wf_full n (fst f) /\ forall g, In g fs -> glt (fst g) (fst f).
Proof.
  intros n fs f [Hs Hw]. destruct (csorted_snoc_inv fs f Hs) as [Hs' Hlt].
  apply Forall_app in Hw. destruct Hw as [Hw1 Hw2]. inversion Hw2 as [|? ? Hf _]; subst. split; [split; assumption|]. split; [exact Hf|exact Hlt].
Qed.

(* two distinct well-formed full n-grams share fewer words than either has before its first <s>, and fewer than n *)
Lemma lcp_bound : forall n r rp, wf_full n r -> wf_full n rp -> r <> rp ->
  (lcp r rp <= vlen rp)%nat /\ (lcp r rp <= vlen r)%nat /\ (lcp r rp <= n - 1)%nat.
Proof.
  intros n r rp [Hl [Ht Hv]] [Hl' [Ht' Hv']] Hne.
  assert (Hlen : (lcp r rp <= n)%nat) by (rewrite <- Hl; apply lcp_le_l).
  split; [|split].
  - destruct (Nat.le_gt_cases (lcp r rp) (vlen rp)) as [H|H]; [exact H|]. exfalso. apply Hne. symmetry.
    apply (bos_trail_eq rp r (vlen rp)); try assumption; [congruence| |apply vlen_nth_eq; lia].
    symmetry. apply lcp_firstn. lia.
  - destruct (Nat.le_gt_cases (lcp r rp) (vlen r)) as [H|H]; [exact H|]. exfalso. apply Hne.
    apply (bos_trail_eq r rp (vlen r)); try assumption; [congruence| |apply vlen_nth_eq; lia].
    apply lcp_firstn. lia.
  - destruct (Nat.le_gt_cases (lcp r rp) (n - 1)) as [H|H]; [exact H|]. exfalso. apply Hne.
    assert (E : firstn n r = firstn n rp) by (apply lcp_firstn; lia).
    rewrite <- Hl in E at 1. rewrite <- Hl' in E. rewrite !firstn_all in E. exact E.
Qed.

(* no earlier n-gram shares more than lcp r rp words with r, where rp is the previous n-gram *)
Lemma no_earlier : forall n fs rp cp r k, wf_fulls n (fs ++ [(rp, cp)]) -> glt rp r -> length r = n ->
  (lcp r rp < k <= n)%nat -> forall f, In f (fs ++ [(rp, cp)]) -> firstn k (fst f) <> firstn k r.
Proof.
  intros n fs rp cp r k Hwf Hlt Hlen Hk f Hf E.
  destruct (wf_fulls_snoc_inv _ _ _ Hwf) as [_ [[Hlp _] Hbefore]]. simpl in *.
  assert (Hrp : firstn k rp = firstn k r).
  { apply in_app_or in Hf. destruct Hf as [Hf|[<-|[]]]; [|exact E].
    rewrite <- E. apply (firstn_sandwich k (fst f) rp r); [apply Hbefore; exact Hf|exact Hlt|exact E]. }
  assert (H : (k <= lcp r rp)%nat) by (apply firstn_lcp; [lia|lia|symmetry; exact Hrp]). lia.
Qed.

Lemma vlen_prefix_iff : forall k a b, firstn k a = firstn k b -> ((k - 1 <= vlen a)%nat <-> (k - 1 <= vlen b)%nat).
Proof.
  intros k a b H. assert (E : vlen (firstn k a) = vlen (firstn k b)) by (rewrite H; reflexivity).
  rewrite !vlen_firstn in E. lia.
Qed.

Lemma last_firstn_nth : forall k (r : gram), (k < length r)%nat -> last (firstn (S k) r) UNK = nth k r UNK.
Proof.
  induction k as [|k IH]; intros r H; destruct r as [|x t]; simpl in H; try lia.
  - reflexivity.
  - destruct t as [|y t']; [simpl in H; lia|]. specialize (IH (y :: t') ltac:(simpl in *; lia)).
    change (firstn (S (S k)) (x :: y :: t')) with (x :: firstn (S k) (y :: t')).
    change (nth (S k) (x :: y :: t') UNK) with (nth k (y :: t') UNK). rewrite <- IH.
    change (firstn (S k) (y :: t')) with (y :: firstn k t'). reflexivity.
Qed.

Lemma lcp_firstn_r : forall a b m, lcp a (firstn m b) = Nat.min (lcp a b) m.
Proof.
  induction a as [|x a IH]; intros b m; simpl; [reflexivity|].
  destruct m; [destruct b; simpl; [reflexivity|]; destruct (x =? n)%N; simpl; lia|].
  destruct b as [|y b]; simpl; [reflexivity|]. destruct (x =? y)%N; [rewrite IH; reflexivity|reflexivity].
Qed.
