(* C05/KNSpec.v -- the specification: interpolated modified Kneser-Ney over exact rationals,
   written from the property text (and Chen & Goodman / Heafield et al. 2013), not from the code.
   No proofs in this file.  See KNDefs.v for the representation (n-grams newest word first). *)
From Coq Require Import List NArith ZArith QArith Bool.
From Kenlm Require Import C05.KNDefs.
Import ListNotations.

Section Spec.
  Variable n : nat.            (* order of the model *)
  Variable o : options.
  Variable ev : list gram.     (* events of the corpus *)

  (* true count of an n-gram: the number of positions of the <s>..</s> delimited text where it ends *)
  Definition tcount (g : gram) : N := lenN (filter (fun e => geqb (firstn (length g) e) g) ev).
  (* all order-k n-grams of the delimited sentences *)
  Definition windows (k : nat) : list gram := map (firstn k) (filter (fun e => (k <=? length e)%nat) ev).
  (* ... as a duplicate-free list in suffix order; <unk> and <s> are always unigrams *)
  Definition grams (k : nat) : list gram :=
    sort_uniq (match k with 1%nat => [UNK] :: [BOS] :: windows 1 | _ => windows k end).
  (* N1+(. g): the number of distinct words that precede g, counted among the n-grams one order up *)
  Definition lext (up : list gram) (g : gram) : N := lenN (filter (fun q => geqb (firstn (length g) q) g) up).
  (* adjusted count: the true count for the highest order and for n-grams that start with <s>
     (newest-first: whose last element is <s>), the number of distinct left extensions otherwise *)
  Definition adj (k : nat) (up : list gram) (g : gram) : N :=
    if (k =? n)%nat || (last g UNK =? BOS)%N then tcount g else lext up g.
  (* pruning: true count at or below the threshold of the order, or an excluded word; specials never *)
  Definition marked (k : nat) (g : gram) : bool :=
    if special1 g then false else (tcount g <=? thr o k)%N || existsb (pruned_word o) g.
  Definition entries (k : nat) : list entry :=
    let up := grams (S k) in
    map (fun g => let a := adj k up g in mkE g a (marked k g) a) (grams k).
  Definition table : list (list entry) := map entries (seq 1 n).
End Spec.

Definition kn_spec (c : corpus) (n : nat) (o : options) : result :=
  finish n o (table n o (events c)).

(* ---- the ARPA back-off recursion over an emitted model (what every reader of the file computes):
   context oldest word first; an n-gram that is present gives its probability, otherwise the back-off
   weight of the context (1 if the context is absent) times the score in the shortened context. *)
Definition lookup (m : model) (g : gram) : option arpa :=
  find (fun a => geqb (a_gram a) g) (nth (length g - 1) (m_orders m) []).
Definition unk_prob (m : model) : Q := match lookup m [UNK] with Some a => a_prob a | None => 0 end.
Fixpoint bo_prob (m : model) (c : list word) (w : word) : Q :=
  match lookup m (w :: rev c) with
  | Some a => a_prob a
  | None =>
      match c with
      | [] => unk_prob m
      | _ :: c' => (match lookup m (rev c) with Some a => a_bo a | None => 1 end) * bo_prob m c' w
      end
  end.
(* the vocabulary of a model: its unigrams *)
Definition vocab (m : model) : list word := map (fun a => hd UNK (a_gram a)) (nth 0 (m_orders m) []).
Fixpoint sumQ {A} (f : A -> Q) (l : list A) : Q := match l with [] => 0 | x :: t => f x + sumQ f t end.
