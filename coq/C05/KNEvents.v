(* C05/KNEvents.v -- facts about the events of a corpus, the padded order-n windows and sorted_counts. *)
From Coq Require Import List NArith ZArith Bool Lia Sorted.
From Kenlm Require Import C05.KNDefs C05.KNSpec C05.KNModel C05.KNLex.
Import ListNotations.
Local Arguments N.add : simpl never.
Local Arguments N.leb : simpl never.
Local Arguments N.ltb : simpl never.

(* an event is a non-empty list of words >= 2 (real words, or </s> in front) followed by <s> *)
Definition wf_event (e : gram) : Prop :=
  exists pre, e = pre ++ [BOS] /\ pre <> [] /\ Forall (fun x => (2 <= x)%N) pre.

Lemma sent_events_wf : forall s hist, Forall (fun x => (2 < x)%N) s ->
  (exists pre, hist = pre ++ [BOS] /\ Forall (fun x => (2 <= x)%N) pre) ->
  Forall wf_event (sent_events hist s).
Proof.
  induction s as [|w s IH]; intros hist Hs [pre [Hh Hp]]; simpl.
  - constructor; [|constructor]. exists (EOS :: pre). subst hist. split; [reflexivity|]. split; [discriminate|].
    constructor; [unfold EOS; lia|exact Hp].
  - inversion Hs as [|? ? Hw Hs']; subst. constructor.
    + exists (w :: pre). split; [reflexivity|]. split; [discriminate|]. constructor; [lia|exact Hp].
    + apply IH; [exact Hs'|]. exists (w :: pre). split; [reflexivity|]. constructor; [lia|exact Hp].
Qed.

Lemma clean_gt2 : forall s, Forall (fun x => (2 < x)%N) (clean s).
Proof.
  intros s. unfold clean. apply Forall_forall. intros x Hx. apply filter_In in Hx. destruct Hx as [_ Hx].
  apply N.ltb_lt in Hx. exact Hx.
Qed.

Lemma events_wf : forall c, Forall wf_event (events c).
Proof.
  intros c. unfold events. apply Forall_forall. intros e He. apply in_flat_map in He. destruct He as [s [_ He]].
  pose proof (sent_events_wf (clean s) [BOS] (clean_gt2 s)) as H.
  rewrite Forall_forall in H. apply H; [|exact He]. exists []. split; [reflexivity|constructor].
Qed.

(* the event one position earlier in the same sentence *)
Lemma sent_events_tl : forall s hist e, In e (sent_events hist s) -> tl e = hist \/ In (tl e) (sent_events hist s).
Proof.
  induction s as [|w s IH]; intros hist e He; simpl in *.
  - destruct He as [<-|[]]. left. reflexivity.
  - destruct He as [<-|He]; [left; reflexivity|]. right. destruct (IH _ _ He) as [E|Hin]; [left; symmetry; exact E|right; exact Hin].
Qed.

Lemma events_tl : forall c e, In e (events c) -> tl e = [BOS] \/ In (tl e) (events c).
Proof.
  intros c e He. unfold events in *. apply in_flat_map in He. destruct He as [s [Hs He]].
  destruct (sent_events_tl _ _ _ He) as [E|Hin]; [left; exact E|right]. apply in_flat_map. exists s. split; assumption.
Qed.

Lemma wf_event_length : forall e, wf_event e -> (2 <= length e)%nat.
Proof. intros e [pre [-> [Hne _]]]. rewrite app_length. simpl. destruct pre; [congruence|simpl; lia]. Qed.

(* ---- vlen: number of words before the first <s> *)
Fixpoint vlen (r : gram) : nat :=
  match r with [] => O | x :: t => if (x =? BOS)%N then O else S (vlen t) end.

Lemma vlen_le : forall r, (vlen r <= length r)%nat.
Proof. induction r as [|x t IH]; simpl; [lia|]. destruct (x =? BOS)%N; lia. Qed.

Lemma vlen_nth_lt : forall r i, (i < vlen r)%nat -> nth i r UNK <> BOS.
Proof.
  induction r as [|x t IH]; intros i Hi; simpl in *; [lia|].
  destruct (N.eqb_spec x BOS) as [E|N]; [lia|]. destruct i; [exact N|]. apply IH. lia.
Qed.

Lemma vlen_nth_eq : forall r, (vlen r < length r)%nat -> nth (vlen r) r UNK = BOS.
Proof.
  induction r as [|x t IH]; intros H; simpl in *; [lia|].
  destruct (N.eqb_spec x BOS) as [E|N]; [exact E|]. apply IH. lia.
Qed.

Lemma vlen_app_bos : forall pre rest, Forall (fun x => (2 <= x)%N) pre -> vlen (pre ++ BOS :: rest) = length pre.
Proof.
  induction pre as [|x pre IH]; intros rest H; simpl; [reflexivity|].
  inversion H as [|? ? Hx Hp]; subst. destruct (N.eqb_spec x BOS) as [E|N]; [unfold BOS in E; lia|]. f_equal. apply IH. exact Hp.
Qed.

Lemma vlen_firstn : forall k r, vlen (firstn k r) = Nat.min k (vlen r).
Proof.
  induction k as [|k IH]; intros r; simpl; [reflexivity|]. destruct r as [|x t]; simpl; [reflexivity|].
  destruct (x =? BOS)%N; [reflexivity|]. rewrite IH. reflexivity.
Qed.

(* <s> only in a trailing block *)
Definition bos_trail (r : gram) : Prop :=
  forall i j, (i <= j)%nat -> (j < length r)%nat -> nth i r UNK = BOS -> nth j r UNK = BOS.

Lemma bos_trail_app_repeat : forall pre m, Forall (fun x => (2 <= x)%N) pre -> bos_trail (pre ++ repeat BOS m).
Proof.
  intros pre m Hp i j Hij Hj Hi. rewrite app_length, repeat_length in Hj.
  destruct (Nat.lt_ge_cases i (length pre)) as [Hl|Hl].
  - rewrite app_nth1 in Hi by exact Hl. rewrite Forall_forall in Hp. specialize (Hp (nth i pre UNK) (nth_In _ _ Hl)).
    rewrite Hi in Hp. unfold BOS in Hp. lia.
  - rewrite app_nth2 by lia. apply nth_repeat_lt || idtac.
    assert (Hin : In (nth (j - length pre) (repeat BOS m) UNK) (repeat BOS m)) by (apply nth_In; rewrite repeat_length; lia).
    apply repeat_spec in Hin. exact Hin.
Qed.

Lemma bos_trail_firstn : forall k r, bos_trail r -> bos_trail (firstn k r).
Proof.
  intros k r H i j Hij Hj Hi. rewrite firstn_length in Hj.
  assert (Hjk : (j < k)%nat) by lia. assert (Hik : (i < k)%nat) by lia.
  rewrite nth_firstn_lt in * by assumption. apply (H i j); [exact Hij|lia|exact Hi].
Qed.

Lemma bos_trail_vlen : forall r j, bos_trail r -> (vlen r <= j)%nat -> (j < length r)%nat -> nth j r UNK = BOS.
Proof.
  intros r j H Hv Hj. apply (H (vlen r) j Hv Hj). apply vlen_nth_eq. lia.
Qed.

(* two equal-length lists with trailing <s> that agree up to and including a <s> are equal *)
Lemma bos_trail_eq : forall r r' k, bos_trail r -> bos_trail r' -> length r = length r' ->
  firstn (S k) r = firstn (S k) r' -> nth k r UNK = BOS -> r = r'.
Proof.
  intros r r' k Hr Hr' Hlen Hf Hk.
  apply (nth_ext r r' UNK UNK Hlen). intros i Hi.
  destruct (Nat.lt_ge_cases i (S k)) as [Hlt|Hge].
  - assert (E : nth i (firstn (S k) r) UNK = nth i (firstn (S k) r') UNK) by (rewrite Hf; reflexivity).
    rewrite !nth_firstn_lt in E by lia. exact E.
  - assert (Hk' : nth k r' UNK = BOS).
    { assert (E : nth k (firstn (S k) r) UNK = nth k (firstn (S k) r') UNK) by (rewrite Hf; reflexivity).
      rewrite !nth_firstn_lt in E by lia. rewrite <- E. exact Hk. }
    rewrite (Hr k i); [|lia|exact Hi|exact Hk]. rewrite (Hr' k i); [reflexivity|lia|lia|exact Hk'].
Qed.

(* ---- padded windows *)
Definition wf_full (n : nat) (r : gram) : Prop := length r = n /\ bos_trail r /\ (1 <= vlen r)%nat /\ (2 <= hd UNK r)%N.

Lemma pad_wf : forall n e, (1 <= n)%nat -> wf_event e -> wf_full n (pad n e).
Proof.
  intros n e Hn [pre [-> [Hne Hp]]]. unfold pad, wf_full.
  rewrite <- app_assoc. change ([BOS] ++ repeat BOS n) with (repeat BOS (S n)).
  split; [|split; [|split]].
  - rewrite firstn_length, app_length, repeat_length. lia.
  - apply bos_trail_firstn. apply bos_trail_app_repeat. exact Hp.
  - rewrite vlen_firstn. simpl repeat. rewrite vlen_app_bos by exact Hp. destruct pre; [congruence|simpl; lia].
  - destruct pre as [|x pre]; [congruence|]. destruct n; [lia|]. simpl. inversion Hp; subst. assumption.
Qed.

Lemma pad_firstn_long : forall n k e, (k <= n)%nat -> (k <= length e)%nat -> firstn k (pad n e) = firstn k e.
Proof.
  intros n k e Hkn Hke. unfold pad. rewrite firstn_firstn. replace (Nat.min k n) with k by lia.
  rewrite firstn_app. replace (k - length e)%nat with O by lia. simpl. rewrite app_nil_r. reflexivity.
Qed.

Lemma pad_vlen : forall n e, wf_event e -> vlen (pad n e) = Nat.min n (length e - 1).
Proof.
  intros n e [pre [-> [Hne Hp]]]. unfold pad. rewrite <- app_assoc. simpl. rewrite vlen_firstn, vlen_app_bos by exact Hp.
  rewrite app_length. simpl length. rewrite Nat.add_sub. reflexivity.
Qed.

(* the order-k n-gram of a padded window is the order-k n-gram of the event, provided it has no <s> before its last word *)
Lemma pad_firstn_iff : forall n k e g, (1 <= k <= n)%nat -> wf_event e -> (k - 1 <= vlen g)%nat -> length g = k ->
  (firstn k (pad n e) = g <-> firstn k e = g).
Proof.
  intros n k e g Hk He Hg Hlen.
  destruct (Nat.le_gt_cases k (length e)) as [Hle|Hgt].
  - rewrite pad_firstn_long by lia. tauto.
  - split; intros H.
    + exfalso. assert (Hv : vlen (firstn k (pad n e)) = vlen g) by (rewrite H; reflexivity).
      rewrite vlen_firstn, pad_vlen in Hv by exact He. pose proof (wf_event_length e He). lia.
    + exfalso. rewrite firstn_all2 in H by lia. subst g. lia.
Qed.

(* ---- sorted_counts *)
Definition csorted (l : list (gram * N)) : Prop := StronglySorted (fun a b => glt (fst a) (fst b)) l.

Lemma ins_count_In_fst : forall g l x, In x (map fst (ins_count g l)) <-> x = g \/ In x (map fst l).
Proof.
  intros g l x. induction l as [|[h c] t IH]; simpl; [intuition|].
  destruct (cmp g h) eqn:E; simpl.
  - apply cmp_eq in E. subst h. intuition.
  - intuition.
  - rewrite IH. intuition.
Qed.

Lemma ins_count_sorted : forall g l, csorted l -> csorted (ins_count g l).
Proof.
  intros g l H. induction H as [|[h c] t Hs IH Hall]; simpl.
  - constructor; constructor.
  - destruct (cmp g h) eqn:E.
    + apply cmp_eq in E. subst h. constructor; [exact Hs|exact Hall].
    + constructor; [constructor; assumption|]. constructor; [exact E|].
      rewrite Forall_forall in *. intros x Hx. eapply glt_trans; [exact E|]. apply (Hall x Hx).
    + constructor; [exact IH|]. rewrite Forall_forall in *. intros [x cx] Hx. simpl.
      assert (Hin : In x (map fst (ins_count g t))) by (apply in_map_iff; exists (x, cx); split; [reflexivity|exact Hx]).
      apply ins_count_In_fst in Hin. destruct Hin as [->|Hin].
      * apply cmp_lt_gt. exact E.
      * apply in_map_iff in Hin. destruct Hin as [[x' c'] [Ex Hin]]. simpl in Ex. subst x'. apply (Hall _ Hin).
Qed.

Lemma sorted_counts_sorted : forall n ev, csorted (sorted_counts n ev).
Proof. intros n ev. unfold sorted_counts. induction ev as [|e ev IH]; simpl; [constructor|]. apply ins_count_sorted. exact IH. Qed.

Lemma sumN_app : forall a b, sumN (a ++ b) = (sumN a + sumN b)%N.
Proof. induction a as [|x a IH]; intros b; simpl; [reflexivity|]. rewrite IH. lia. Qed.

(* total count of the entries selected by a predicate on the n-gram *)
Definition wsum (P : gram -> bool) (l : list (gram * N)) : N := sumN (map snd (filter (fun f => P (fst f)) l)).

Lemma ins_count_wsum : forall P g l, wsum P (ins_count g l) = (wsum P l + (if P g then 1 else 0))%N.
Proof.
  intros P g l. unfold wsum. induction l as [|[h c] t IH]; simpl.
  - destruct (P g); simpl; lia.
  - destruct (cmp g h) eqn:E; simpl.
    + apply cmp_eq in E. subst h. destruct (P g); simpl; lia.
    + destruct (P g); destruct (P h); simpl; lia.
    + destruct (P h); simpl; rewrite IH; lia.
Qed.

Lemma sorted_counts_wsum : forall P n ev, wsum P (sorted_counts n ev) = lenN (filter (fun e => P (pad n e)) ev).
Proof.
  intros P n ev. unfold sorted_counts, lenN. induction ev as [|e ev IH]; simpl; [reflexivity|].
  rewrite ins_count_wsum, IH. destruct (P (pad n e)); simpl length; lia.
Qed.

Lemma sorted_counts_In : forall n ev r, In r (map fst (sorted_counts n ev)) <-> exists e, In e ev /\ r = pad n e.
Proof.
  intros n ev r. unfold sorted_counts. induction ev as [|e ev IH]; simpl.
  - split; [tauto|]. intros [e [[] _]].
  - rewrite ins_count_In_fst, IH. split.
    + intros [->|[e' [He' ->]]]; [exists e; tauto|exists e'; tauto].
    + intros [e' [[<-|He'] ->]]; [left; reflexivity|right; exists e'; tauto].
Qed.

Lemma ins_count_pos : forall g l, Forall (fun f => (0 < snd f)%N) l -> Forall (fun f => (0 < snd f)%N) (ins_count g l).
Proof.
  intros g l H. induction H as [|[h c] t Hc Ht IH]; simpl.
  - constructor; [simpl; lia|constructor].
  - destruct (cmp g h); constructor; simpl in *; try lia; try assumption. constructor; assumption.
Qed.

Lemma sorted_counts_pos : forall n ev, Forall (fun f => (0 < snd f)%N) (sorted_counts n ev).
Proof. intros n ev. unfold sorted_counts. induction ev as [|e ev IH]; simpl; [constructor|]. apply ins_count_pos. exact IH. Qed.

Lemma sorted_counts_wf : forall n c, (1 <= n)%nat -> Forall (fun f => wf_full n (fst f)) (sorted_counts n (events c)).
Proof.
  intros n c Hn. apply Forall_forall. intros [r cnt] Hin. simpl.
  assert (H : In r (map fst (sorted_counts n (events c)))) by (apply in_map_iff; exists (r, cnt); split; [reflexivity|exact Hin]).
  apply sorted_counts_In in H. destruct H as [e [He ->]]. apply pad_wf; [exact Hn|].
  pose proof (events_wf c) as Hw. rewrite Forall_forall in Hw. apply Hw. exact He.
Qed.
