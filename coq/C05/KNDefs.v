(* C05/KNDefs.v -- shared vocabulary of the Kneser-Ney development (no proofs in this file).

   Words are vocabulary ids (N): 0 = <unk>, 1 = <s>, 2 = </s>, real words >= 3 in first-occurrence
   order (lm/builder/corpus_count.cc, GrowableVocab).  An n-gram is a list of words written
   NEWEST WORD FIRST ("reversed"): the ARPA n-gram  a b c  is [c; b; a].  In this representation
     - the context of g (ARPA: all but the last word) is   tl g,
     - the suffix the back-off recursion moves to (ARPA: all but the first word) is   removelast g,
     - lmplz's SuffixOrder (lm/common/compare.hh) is the lexicographic order `cmp`,
     - the order-k n-gram ending where g ends is   firstn k g. *)
From Coq Require Import List NArith ZArith QArith Bool.
Import ListNotations.

Notation word := N (only parsing).
Definition UNK : word := 0%N.
Definition BOS : word := 1%N.
Definition EOS : word := 2%N.
Notation gram := (list N) (only parsing).
Notation corpus := (list (list N)) (only parsing).

(* SuffixOrder::Compare on equal-length n-grams = lexicographic order on the reversed representation *)
Fixpoint cmp (a b : gram) : comparison :=
  match a, b with
  | [], [] => Eq
  | [], _ :: _ => Lt
  | _ :: _, [] => Gt
  | x :: a', y :: b' => match N.compare x y with Eq => cmp a' b' | c => c end
  end.

Definition geqb (a b : gram) : bool := match cmp a b with Eq => true | _ => false end.
Definition gltb (a b : gram) : bool := match cmp a b with Lt => true | _ => false end.

(* insertion into a strictly increasing list; sort_uniq = sorted list of the distinct elements *)
Fixpoint ins (g : gram) (l : list gram) : list gram :=
  match l with
  | [] => [g]
  | h :: t => match cmp g h with Lt => g :: l | Eq => l | Gt => h :: ins g t end
  end.
Definition sort_uniq (l : list gram) : list gram := fold_right ins [] l.

(* length of the longest common prefix (FindDifference in adjust_counts.cc walks it from the newest word) *)
Fixpoint lcp (a b : gram) : nat :=
  match a, b with
  | x :: a', y :: b' => if (x =? y)%N then S (lcp a' b') else O
  | _, _ => O
  end.

Fixpoint sumN (l : list N) : N := match l with [] => 0%N | x :: t => (x + sumN t)%N end.
Definition QN (n : N) : Q := inject_Z (Z.of_N n).
Definition lenN {A} (l : list A) : N := N.of_nat (length l).

(* ---- the <s> ... </s> delimited sentences, as the list of reversed prefixes ("events"):
   the sentence a b gives  [a;<s>]  [b;a;<s>]  [</s>;b;a;<s>].   The order-k n-gram ending at an event e
   is firstn k e (it exists iff k <= length e).  --skip_symbols: special ids in the text are dropped. *)
Definition clean (s : list word) : list word := filter (fun w => (2 <? w)%N) s.
Fixpoint sent_events (hist : gram) (s : list word) : list gram :=
  match s with
  | [] => [EOS :: hist]
  | w :: s' => (w :: hist) :: sent_events (w :: hist) s'
  end.
Definition events (c : corpus) : list gram := flat_map (fun s => sent_events [BOS] (clean s)) c.

(* ---- options of lmplz that the property quantifies over *)
Notation disc := (Q * Q * Q)%type (only parsing).            (* D1, D2, D3+ *)
Record options := mkOpts {
  o_prune : list N;               (* pruning thresholds per order (after ParsePruning's padding) *)
  o_limit : option (list word);   (* --limit_vocab_file: the allowed ids; None = option absent *)
  o_interp_uni : bool;            (* --interpolate_unigrams *)
  o_fallback : option disc        (* --discount_fallback *)
}.
Definition thr (o : options) (k : nat) : N := nth (k - 1) (o_prune o) 0%N.
Definition pruned_word (o : options) (w : word) : bool :=
  match o_limit o with
  | None => false
  | Some l => (2 <? w)%N && negb (existsb (N.eqb w) l)
  end.
Definition special1 (g : gram) : bool := match g with [w] => (w <=? 2)%N | _ => false end.

(* lmplz_main.cc ParsePruning: at most `order` values, non-decreasing, padded with the last one *)
Fixpoint nondecreasing (l : list N) : bool :=
  match l with
  | x :: ((y :: _) as t) => (x <=? y)%N && nondecreasing t
  | _ => true
  end.
Definition parse_pruning (p : list N) (order : nat) : option (list N) :=
  match p with
  | [] => Some (repeat 0%N order)
  | _ => if (length p <=? order)%nat && nondecreasing p
         then Some (p ++ repeat (last p 0%N) (order - length p)) else None
  end.

(* ---- one n-gram leaving AdjustCounts: adjusted count, pruning mark, and the count that was
   entered into the counts-of-counts statistics (StatCollector::Add / AddFull) *)
Record entry := mkE { e_gram : gram; e_adj : N; e_marked : bool; e_stat : N }.

Record ostat := mkS { s_n1 : N; s_n2 : N; s_n3 : N; s_n4 : N; s_count : N; s_count_pruned : N }.
Definition nstat (l : list entry) (j : N) : N := lenN (filter (fun e => (e_stat e =? j)%N) l).
Definition order_stat (l : list entry) : ostat :=
  mkS (nstat l 1) (nstat l 2) (nstat l 3) (nstat l 4) (lenN l) (lenN (filter (fun e => negb (e_marked e)) l)).

(* ---- StatCollector::CalculateDiscounts: Chen & Goodman closed form, failing on the three conditions the code tests *)
Definition in_range (d : Q) (j : Q) : bool := Qle_bool 0 d && Qle_bool d j.
Definition mk_disc (d1 d2 d3 : Q) : option disc :=
  if in_range d1 1 && in_range d2 2 && in_range d3 3 then Some (Qred d1, Qred d2, Qred d3) else None.
Definition closed_form (s : ostat) : option disc :=
  let n1 := s_n1 s in let n2 := s_n2 s in let n3 := s_n3 s in let n4 := s_n4 s in
  if (n1 =? 0)%N || (n2 =? 0)%N || (n3 =? 0)%N then None else
  let y := QN n1 / (QN n1 + 2 * QN n2) in
  mk_disc (1 - 2 * y * QN n2 / QN n1) (2 - 3 * y * QN n3 / QN n2) (3 - 4 * y * QN n4 / QN n3).
Definition order_discount (fallback : option disc) (s : ostat) : option disc :=
  match closed_form s with Some d => Some d | None => fallback end.
Fixpoint all_discounts (fallback : option disc) (k : nat) (ss : list ostat) : list disc + nat :=
  match ss with
  | [] => inl []
  | s :: t => match order_discount fallback s with
              | None => inr k
              | Some d => match all_discounts fallback (S k) t with inl ds => inl (d :: ds) | inr j => inr j end
              end
  end.

(* Discount::Get *)
Definition Dget (d : disc) (a : N) : Q :=
  let '(d1, d2, d3) := d in
  if (a =? 0)%N then 0 else if (a =? 1)%N then d1 else if (a =? 2)%N then d2 else d3.

(* ---- what is written to the ARPA file *)
Record arpa := mkA { a_gram : gram; a_prob : Q; a_bo : Q }.
Record model := mkM { m_counts : list N; m_discounts : list disc; m_orders : list (list arpa) }.
Inductive result := Refused (order : nat) | Built (m : model).

(* ---- InitialProbabilities + Interpolate, as the textbook recursion over a table of adjusted counts.
   tab = entries per order (index k-1), ds = discounts per order. *)
Section Finish.
  Variable n : nat.
  Variable tab : list (list entry).
  Variable ds : list disc.
  Variable interp : bool.

  Definition ents (k : nat) : list entry := nth (k - 1) tab [].
  Definition dk (k : nat) : disc := nth (k - 1) ds (0, 0, 0).
  Definition in_ctx (c : gram) (e : entry) : bool := geqb (tl (e_gram e)) c.
  Definition kept (e : entry) : bool := negb (e_marked e).
  (* AddRight: denominator, numbers of kept extensions with adjusted count 1, 2, 3+, mass of the pruned ones *)
  Definition denom (k : nat) (c : gram) : N := sumN (map e_adj (filter (in_ctx c) (ents k))).
  Definition cnt_i (k : nat) (c : gram) (i : N) : N :=
    lenN (filter (fun e => in_ctx c e && kept e && (N.min (e_adj e) 3 =? i)%N) (ents k)).
  Definition msum (k : nat) (c : gram) : N := sumN (map e_adj (filter (fun e => in_ctx c e && e_marked e) (ents k))).
  Definition gamma (k : nat) (c : gram) : Q :=
    let '(d1, d2, d3) := dk k in
    (d1 * QN (cnt_i k c 1) + d2 * QN (cnt_i k c 2) + d3 * QN (cnt_i k c 3) + QN (msum k c)) / QN (denom k c).
  Definition find_kept (k : nat) (g : gram) : option N :=
    match find (fun e => geqb (e_gram e) g) (ents k) with
    | Some e => if e_marked e then None else Some (e_adj e)
    | None => None
    end.
  (* MergeRight: discounted relative frequency of a kept n-gram (0 for anything else) *)
  Definition u (k : nat) (g : gram) : Q :=
    match find_kept k g with
    | Some a => (QN a - Dget (dk k) a) / QN (denom k (tl g))
    | None => 0
    end.
  (* Interpolate: vocabulary size "includes <unk> but excludes <s>" *)
  Definition vocab_size : N := (lenN (filter kept (ents 1)) - 1)%N.
  Definition p_uni (w : word) : Q :=
    if (w =? BOS)%N then 1 else
    if interp then u 1 [w] + gamma 1 [] * (1 / QN vocab_size)
    else if (w =? UNK)%N then gamma 1 [] else u 1 [w].
  (* interpolated probability of w after the context c (OLDEST word first, so that backing off is tl) *)
  Fixpoint pkn (c : list word) (w : word) : Q :=
    match c with
    | [] => p_uni w
    | _ :: c' =>
        let rc := rev c in
        let k := S (length c) in
        if (denom k rc =? 0)%N then pkn c' w else u k (w :: rc) + gamma k rc * pkn c' w
    end.
  Definition backoff (k : nat) (g : gram) : Q :=
    if (k <? n)%nat then (if (denom (S k) g =? 0)%N then 1 else gamma (S k) g) else 1.
  Definition emit (k : nat) (e : entry) : arpa :=
    let g := e_gram e in
    mkA g (Qred (pkn (rev (tl g)) (hd UNK g))) (Qred (backoff k g)).
  Definition emit_order (k : nat) : list arpa := map (emit k) (filter kept (ents k)).
End Finish.

(* the pipeline: the discounts and the header counts come from StatCollector's statistics, the n-grams from the streams *)
Definition finish_with (n : nat) (o : options) (tab : list (list entry)) (stats : list ostat) : result :=
  match all_discounts (o_fallback o) 1 stats with
  | inr k => Refused k
  | inl ds => Built (mkM (map s_count_pruned stats) ds
                         (map (emit_order n tab ds (o_interp_uni o)) (seq 1 n)))
  end.
Definition finish (n : nat) (o : options) (tab : list (list entry)) : result :=
  finish_with n o tab (map order_stat tab).
