(* C05/KNAdjustE.v -- the streams leaving the (repaired) AdjustCounts loop are the specification's tables. *)
From Coq Require Import List NArith ZArith Bool Lia Sorted.
From Kenlm Require Import C05.KNDefs C05.KNSpec C05.KNModel C05.KNLex C05.KNEvents C05.KNAdjustA C05.KNAdjustB C05.KNAdjustC C05.KNAdjustD.
Import ListNotations.
Local Arguments N.add : simpl never.
Local Arguments N.leb : simpl never.
Local Arguments N.ltb : simpl never.

Lemma filter_none : forall {A} (f : A -> bool) l, (forall x, In x l -> f x = false) -> filter f l = [].
Proof.
  intros A f l H. induction l as [|x l IH]; simpl; [reflexivity|]. rewrite (H x) by (left; reflexivity).
  apply IH. intros y Hy. apply H. right. exact Hy.
Qed.

Lemma stream_In : forall tr k e, In e (stream tr k) <-> In e tr /\ elen e = k.
Proof. intros. unfold stream. rewrite <- in_rev, filter_In, Nat.eqb_eq. reflexivity. Qed.

Lemma stream_sorted : forall tr k, StronglySorted Rel tr -> gsorted (map e_gram (stream tr k)).
Proof.
  intros tr k H. unfold stream. induction H as [|a t Hs IH Hall]; simpl; [constructor|].
  destruct (Nat.eqb_spec (length (e_gram a)) k) as [E|N']; [|exact IH].
  simpl. rewrite map_app. simpl. apply gsorted_snoc; [exact IH|].
  intros g Hg. apply in_map_iff in Hg. destruct Hg as [b [<- Hb]]. apply in_rev in Hb. apply filter_In in Hb. destruct Hb as [Hb Hk].
  apply Nat.eqb_eq in Hk. rewrite Forall_forall in Hall. apply (Hall b Hb). unfold elen. congruence.
Qed.

Lemma map_determined : forall {A B} (f : B -> A) (F : A -> B) (l : list B), (forall e, In e l -> e = F (f e)) -> l = map F (map f l).
Proof.
  intros A B f F l H. induction l as [|x l IH]; simpl; [reflexivity|]. f_equal; [apply H; left; reflexivity|].
  apply IH. intros e He. apply H. right. exact He.
Qed.

Lemma csorted_map_filter : forall (P : gram * N -> bool) l, csorted l -> gsorted (map fst (filter P l)).
Proof.
  intros P l H. induction H as [|h t Hs IH Hall]; simpl; [constructor|]. destruct (P h); [|exact IH].
  simpl. constructor; [exact IH|]. rewrite Forall_forall in *. intros x Hx. apply in_map_iff in Hx. destruct Hx as [f [<- Hf]].
  apply filter_In in Hf. apply Hall. tauto.
Qed.

Lemma csorted_unique : forall l r (c : N), csorted l -> In (r, c) l -> filter (fun f : gram * N => geqb (fst f) r) l = [(r, c)].
Proof.
  intros l r c H. induction H as [|h t Hs IH Hall]; intros Hin; [destruct Hin|]. rewrite Forall_forall in Hall. simpl.
  destruct Hin as [->|Hin].
  - simpl. rewrite geqb_refl. f_equal. apply filter_none. intros x Hx. apply geqb_neq. intro E.
    specialize (Hall x Hx). simpl in Hall. rewrite E in Hall. exact (cmp_irrefl _ Hall).
  - assert (E : geqb (fst h) r = false).
    { apply geqb_neq. intro E. specialize (Hall (r, c) Hin). simpl in Hall. rewrite E in Hall. exact (cmp_irrefl _ Hall). }
    rewrite E. apply IH. exact Hin.
Qed.

Lemma pad_long : forall n e, (n <= length e)%nat -> pad n e = firstn n e.
Proof.
  intros n e H. unfold pad. rewrite firstn_app. replace (n - length e)%nat with O by lia. simpl. apply app_nil_r.
Qed.

Section E.
  Variable n : nat.
  Variable o : options.
  Variable ev : list gram.
  Hypothesis Hn : (2 <= n)%nat.
  Hypothesis Hthr : forall k, (thr o k < MAX64)%N.
  Hypothesis Hev : Forall wf_event ev.
  Let fs := sorted_counts n ev.
  Let Hn1 : (1 <= n)%nat := Nat.le_trans 1 2 n (le_S 1 1 (le_n 1)) Hn.

  Lemma fs_wf : wf_fulls n fs.
  Proof.
    split; [apply sorted_counts_sorted|]. apply Forall_forall. intros f Hf. destruct (fs_In n ev f Hf) as [e [He ->]].
    apply pad_wf; [exact Hn1|]. apply (ev_wf ev Hev). exact He.
  Qed.

  Lemma entries_sp : forall k, entries n o ev k = map (sp n o ev k) (grams ev k).
  Proof. reflexivity. Qed.

  Lemma hd_event : forall e, In e ev -> exists x t, e = x :: t /\ (2 <= x)%N.
  Proof.
    intros e He. destruct (ev_wf ev Hev e He) as [pre [-> [Hne Hp]]]. destruct pre as [|x pre]; [congruence|].
    inversion Hp; subst. exists x, (pre ++ [BOS]). split; [reflexivity|assumption].
  Qed.

  Lemma sp_unk : sp n o ev 1 [UNK] = UNKe.
  Proof.
    unfold sp, adj, UNKe. assert (E : (1 =? n)%nat = false) by (apply Nat.eqb_neq; lia). rewrite E. cbn [last orb].
    assert (E2 : (UNK =? BOS)%N = false) by reflexivity. rewrite E2. unfold lext.
    rewrite filter_none; [reflexivity|]. intros q Hq. apply geqb_neq. intro Eq.
    apply In_grams in Hq. destruct Hq as [[Hk _]|[e [He [Hl ->]]]]; [discriminate|].
    destruct (hd_event e He) as [x [t [-> Hx]]]. simpl in Eq. injection Eq as Eq. unfold UNK in Eq. lia.
  Qed.

  Lemma sp_bos : sp n o ev 1 [BOS] = BOSe.
  Proof.
    unfold sp, adj, BOSe. cbn [last]. rewrite N.eqb_refl, orb_true_r. unfold tcount.
    rewrite filter_none; [reflexivity|]. intros e He. apply geqb_neq. intro Eq.
    destruct (hd_event e He) as [x [t [-> Hx]]]. simpl in Eq. injection Eq as Eq. unfold BOS in Eq. lia.
  Qed.

  (* ---- the lower orders, from the invariant at loop exit *)
  Section Lower.
    Variables (fs1 : fulls) (rl : gram) (cl : N) (s : st).
    Hypothesis Efs : fs = fs1 ++ [(rl, cl)].
    Hypothesis Hinv : SInv n o fs rl s.

    Let m := lvl n rl.
    Let final := flush true true o s.

    Lemma rl_wf : wf_full n rl.
    Proof.
      destruct fs_wf as [_ Hall]. rewrite Forall_forall in Hall. apply (Hall (rl, cl)). rewrite Efs. apply in_or_app. right. left. reflexivity.
    Qed.

    Lemma map_emit_stk : forall k, (k <= length rl)%nat -> map (emit_flush true true o) (stk fs rl k) = rev (emits o fs rl 0 k).
    Proof.
      induction k as [|k IH]; intros Hk; [reflexivity|]. simpl stk. simpl map. rewrite IH by lia.
      unfold emits. rewrite seq_S, map_app, rev_app_distr. simpl. f_equal.
      change (emit_flush true true o (ent fs rl (S k))) with (emit_lower true o (ent fs rl (S k))).
      apply (emit_lower_ent n o Hn). exact Hk.
    Qed.

    Lemma final_eq : final = rev (emits o fs rl 0 m) ++ trace s.
    Proof.
      unfold final, flush. destruct Hinv as [Hst _]. rewrite Hst. rewrite map_emit_stk; [reflexivity|].
      destruct rl_wf as [Hl _]. unfold lvl. lia.
    Qed.

    Lemma final_new : forall e, In e (rev (emits o fs rl 0 m)) -> exists k, (1 <= k <= m)%nat /\ e = rec_of o k (firstn k rl) fs /\ elen e = k.
    Proof.
      intros e He. apply in_rev in He. apply (In_emits n o Hn) in He. destruct He as [k [Hk ->]]. exists k. split; [lia|]. split; [reflexivity|].
      unfold elen, rec_of. cbn [e_gram]. rewrite firstn_length. destruct rl_wf as [Hl _]. unfold m, lvl in *. lia.
    Qed.

    Lemma final_base : TBase n o fs final.
    Proof.
      rewrite final_eq. destruct Hinv as [_ [[[Hsorted Hval Hspec] Hbound Hcover] _]]. destruct rl_wf as [Hl [Ht [Hv Hh]]].
      assert (Hm : (m <= n - 1)%nat) by (unfold m, lvl; lia).
      split.
      - apply SS_app; [|exact Hsorted|].
        + apply SS_distinct. rewrite map_rev. apply NoDup_rev. rewrite (emits_elen n o Hn) by lia. apply seq_NoDup.
        + intros a b Ha Hb E. destruct (final_new a Ha) as [k [Hk [-> Hek]]]. unfold rec_of at 1. cbn [e_gram].
          specialize (Hbound b Hb). rewrite <- E, Hek in Hbound. exact Hbound.
      - intros e He. apply in_app_or in He. destruct He as [He|He]; [|apply Hval; exact He].
        right; right. destruct (final_new e He) as [k [Hk [-> Hek]]]. split; [rewrite Hek; lia|]. split.
        + rewrite Hek. unfold rec_of at 2. cbn [e_gram]. reflexivity.
        + exists (rl, cl). split; [rewrite Efs; apply in_or_app; right; left; reflexivity|]. rewrite Hek. cbn [fst].
          split; [unfold m, lvl in Hk; lia|reflexivity].
      - destruct Hspec as [H1 H2]. split; apply in_or_app; right; assumption.
    Qed.

    Lemma final_cover : forall f k, In f fs -> (1 <= k <= n - 1)%nat -> (k - 1 <= vlen (fst f))%nat ->
      exists e, In e final /\ e_gram e = firstn k (fst f).
    Proof.
      intros f k Hf Hk Hv. rewrite final_eq. destruct Hinv as [_ [[_ _ Hcover] _]].
      destruct (Hcover f k Hf Hk Hv) as [[e [He Hg]]|E].
      - exists e. split; [apply in_or_app; right; exact He|exact Hg].
      - exists (rec_of o k (firstn k rl) fs). split; [|unfold rec_of; cbn [e_gram]; symmetry; exact E].
        apply in_or_app. left. apply -> in_rev. apply (In_emits n o Hn). exists k. split; [|reflexivity].
        assert (Hvp : (k - 1 <= vlen rl)%nat) by (apply (vlen_prefix_iff k (fst f) rl E); exact Hv).
        unfold m, lvl. lia.
    Qed.

    Lemma stream_final : forall k, (1 <= k <= n - 1)%nat -> stream final k = entries n o ev k.
    Proof.
      intros k Hk. rewrite entries_sp. destruct final_base as [Hsorted Hval Hspec].
      assert (Hdet : forall e, In e (stream final k) -> e = sp n o ev k (e_gram e)).
      { intros e He. apply stream_In in He. destruct He as [He Hek]. destruct (Hval e He) as [->|[->|[Hr [Erec [f [Hf [Hv Hg]]]]]]].
        - unfold elen in Hek. simpl in Hek. subst k. symmetry. apply sp_unk.
        - unfold elen in Hek. simpl in Hek. subst k. symmetry. apply sp_bos.
        - rewrite Hek in *. rewrite Erec at 1. rewrite <- Hg. apply (rec_of_sp n o ev Hn1 Hev); assumption. }
      rewrite (map_determined e_gram (sp n o ev k) (stream final k) Hdet). f_equal.
      apply gsorted_ext.
      - apply stream_sorted. exact Hsorted.
      - unfold grams. apply sort_uniq_sorted.
      - intros g. rewrite in_map_iff, In_grams. split.
        + intros [e [<- He]]. apply stream_In in He. destruct He as [He Hek]. destruct (Hval e He) as [->|[->|[Hr [Erec [f [Hf [Hv Hg]]]]]]].
          * left. unfold elen in Hek. simpl in Hek. split; [congruence|left; reflexivity].
          * left. unfold elen in Hek. simpl in Hek. split; [congruence|right; reflexivity].
          * right. rewrite Hek in *. destruct (prefix_props n ev Hn1 Hev f k Hf ltac:(lia) Hv) as [_ [_ [_ [_ Hex]]]].
            rewrite Hg in Hex. exact Hex.
        + intros [[Hk1 [->| ->]]|[e [He [Hl ->]]]].
          * exists UNKe. split; [reflexivity|]. apply stream_In. split; [apply Hspec|]. unfold elen. simpl. congruence.
          * exists BOSe. split; [reflexivity|]. apply stream_In. split; [apply Hspec|]. unfold elen. simpl. congruence.
          * destruct (fs_of_event n ev e He) as [c Hc].
            assert (Hv : (k - 1 <= vlen (fst (pad n e, c)))%nat).
            { cbn [fst]. rewrite pad_vlen by (apply (ev_wf ev Hev); exact He). lia. }
            destruct (final_cover (pad n e, c) k Hc Hk Hv) as [x [Hx Hg]]. cbn [fst] in Hg. rewrite pad_firstn_long in Hg by lia.
            exists x. split; [exact Hg|]. apply stream_In. split; [exact Hx|]. unfold elen. rewrite Hg, firstn_length. lia.
    Qed.
  End Lower.

  (* ---- the highest order *)
  Lemma collapse_entries : collapse n o fs = entries n o ev n.
  Proof.
    rewrite entries_sp. unfold collapse.
    set (P := fun f : gram * N => negb (nth (n - 2) (fst f) UNK =? BOS)%N).
    destruct fs_wf as [Hsorted Hall]. rewrite Forall_forall in Hall.
    assert (Hval : forall f, In f (filter P fs) -> mkE (fst f) (snd f) (mark_full n o (fst f) (snd f)) (snd f) = sp n o ev n (fst f)).
    { intros [r c] Hf. apply filter_In in Hf. destruct Hf as [Hf HP]. cbn [fst snd]. pose proof (Hall _ Hf) as Hw. cbn [fst] in Hw.
      assert (Hvr : (n - 1 <= vlen r)%nat).
      { apply Nat.leb_le. rewrite (full_flag n Hn r Hw). exact HP. }
      destruct Hw as [Hl _].
      assert (Ec : c = tcount ev r).
      { rewrite <- (act_tcount n ev Hev n r) by lia. unfold act, sel. fold fs.
        rewrite (filter_ext_in (fun f : gram * N => geqb (firstn n (fst f)) r) (fun f : gram * N => geqb (fst f) r)).
        - rewrite (csorted_unique fs r c Hsorted Hf). simpl. lia.
        - intros f Hf'. destruct (Hall f Hf') as [Hlf _]. rewrite <- Hlf, firstn_all. reflexivity. }
      unfold sp, adj, marked, mark_full, has_pruned. rewrite Nat.eqb_refl. cbn [orb]. rewrite <- Ec.
      assert (Es : special1 r = false).
      { destruct r as [|x [|y t]]; simpl in Hl; try lia; reflexivity. }
      rewrite Es. reflexivity. }
    rewrite (map_ext_in _ (fun f => sp n o ev n (fst f)) _ Hval). rewrite <- (map_map fst (sp n o ev n)). f_equal.
    apply gsorted_ext.
    - apply csorted_map_filter. exact Hsorted.
    - unfold grams. apply sort_uniq_sorted.
    - intros r. rewrite in_map_iff, In_grams. split.
      + intros [[r' c] [<- Hf]]. cbn [fst]. apply filter_In in Hf. destruct Hf as [Hf HP]. right.
        destruct (fs_In n ev _ Hf) as [e [He Er]]. cbn [fst] in Er. subst r'.
        pose proof (ev_wf ev Hev e He) as Hwe. pose proof (pad_wf n e Hn1 Hwe) as Hw.
        assert (Hvr : (n - 1 <= vlen (pad n e))%nat) by (apply Nat.leb_le; rewrite (full_flag n Hn _ Hw); exact HP).
        rewrite pad_vlen in Hvr by exact Hwe. exists e. split; [exact He|]. split; [lia|].
        apply pad_long. lia.
      + intros [[Hk _]|[e [He [Hl ->]]]]; [lia|]. destruct (fs_of_event n ev e He) as [c Hc].
        pose proof (ev_wf ev Hev e He) as Hwe. pose proof (pad_wf n e Hn1 Hwe) as Hw.
        assert (Ep : pad n e = firstn n e) by (apply pad_long; exact Hl).
        exists (pad n e, c). split; [exact Ep|]. apply filter_In. split; [exact Hc|]. unfold P. cbn [fst].
        rewrite <- (full_flag n Hn _ Hw). apply Nat.leb_le. rewrite pad_vlen by exact Hwe. lia.
  Qed.
End E.
