(* C05/MergeCombine.v *)
(* corpus_count writes one deduplicated block after another; each block is sorted and the sorter merges the runs with
   CombineCounts, which adds the counts of two records iff they are the SAME n-gram (all words equal).  Whatever the
   block boundaries are, the result is sorted_counts of the whole corpus. *)
From Coq Require Import List NArith ZArith Bool Lia Sorted.
From Kenlm Require Import C05.KNDefs C05.KNSpec C05.KNModel C05.KNLex C05.KNEvents.
Import ListNotations.
Local Arguments N.add : simpl never.

Fixpoint merge_combine (a : list (gram * N)) : list (gram * N) -> list (gram * N) :=
  fix inner (b : list (gram * N)) : list (gram * N) :=
    match a, b with
    | [], _ => b
    | _, [] => a
    | (g, c) :: a', (h, d) :: b' =>
        match cmp g h with
        | Lt => (g, c) :: merge_combine a' b
        | Gt => (h, d) :: inner b'
        | Eq => (g, (c + d)%N) :: merge_combine a' b'      (* CombineCounts: same n-gram, counts added *)
        end
    end.

Definition merge_runs (runs : list (list (gram * N))) : list (gram * N) := fold_right merge_combine [] runs.

Lemma merge_nil_r : forall a, merge_combine a [] = a.
Proof. destruct a as [|[g c] a]; reflexivity. Qed.

Lemma merge_wsum : forall P a b, wsum P (merge_combine a b) = (wsum P a + wsum P b)%N.
Proof.
  intros P. induction a as [|[g c] a IHa]; intros b; [destruct b; unfold wsum; simpl; lia|].
  induction b as [|[h d] b IHb]; [rewrite merge_nil_r; unfold wsum; simpl; lia|].
  cbn [merge_combine]. destruct (cmp g h) eqn:E.
  - apply cmp_eq in E. subst h. unfold wsum in *. cbn [filter fst]. destruct (P g); cbn [map snd sumN]; rewrite IHa; lia.
  - unfold wsum in *. cbn [filter fst]. destruct (P g); cbn [map snd sumN]; rewrite IHa; cbn [filter fst]; lia.
  - change ((fix inner (b0 : list (gram * N)) : list (gram * N) := match b0 with | [] => (g, c) :: a | (h0, d0) :: b'0 => match cmp g h0 with | Eq => (g, (c + d0)%N) :: merge_combine a b'0 | Lt => (g, c) :: merge_combine a b0 | Gt => (h0, d0) :: inner b'0 end end) b)
      with (merge_combine ((g, c) :: a) b).
    unfold wsum in *. cbn [filter fst]. destruct (P h); cbn [map snd sumN]; rewrite IHb; cbn [filter fst]; lia.
Qed.

From Kenlm Require Import C05.KNAdjustE C05.KNAdjustF.

Definition ksum (g : gram) (l : list (gram * N)) : N := wsum (fun r => geqb r g) l.
Definition allpos (l : list (gram * N)) : Prop := Forall (fun f => (0 < snd f)%N) l.

Lemma ksum_in : forall l g c, csorted l -> In (g, c) l -> ksum g l = c.
Proof.
  intros l g c Hs Hin. unfold ksum, wsum. rewrite (csorted_unique l g c Hs Hin). simpl. lia.
Qed.

Lemma ksum_notin : forall l g, ~ In g (map fst l) -> ksum g l = 0%N.
Proof.
  intros l g H. unfold ksum, wsum. rewrite filter_none; [reflexivity|]. intros f Hf. apply geqb_neq. intro E. apply H. rewrite <- E. apply in_map. exact Hf.
Qed.

Lemma csorted_canonical : forall l, csorted l -> l = map (fun g => (g, ksum g l)) (map fst l).
Proof.
  intros l Hs. rewrite map_map. rewrite <- (map_id l) at 1. apply map_ext_in. intros [g c] Hin. simpl. rewrite (ksum_in l g c Hs Hin). reflexivity.
Qed.

Lemma csorted_ext : forall l1 l2, csorted l1 -> csorted l2 -> allpos l1 -> allpos l2 ->
  (forall g, ksum g l1 = ksum g l2) -> l1 = l2.
Proof.
  intros l1 l2 H1 H2 P1 P2 Hk.
  assert (Hkeys : map fst l1 = map fst l2).
  { apply gsorted_ext; [apply csorted_map_fst; exact H1|apply csorted_map_fst; exact H2|].
    assert (Hmem : forall la lb, csorted la -> allpos la -> (forall g, ksum g la = ksum g lb) -> forall g, In g (map fst la) -> In g (map fst lb)).
    { intros la lb Ha Pa Hab g Hg. apply in_map_iff in Hg. destruct Hg as [[g' c] [Eg Hin]]. simpl in Eg. subst g'.
      destruct (in_dec (list_eq_dec N.eq_dec) g (map fst lb)) as [Hi|Hn]; [exact Hi|]. exfalso.
      pose proof (ksum_in la g c Ha Hin) as Ea. rewrite Hab, (ksum_notin lb g Hn) in Ea.
      unfold allpos in Pa. rewrite Forall_forall in Pa. specialize (Pa (g, c) Hin). simpl in Pa. lia. }
    intros g. split; [apply (Hmem l1 l2 H1 P1 Hk)|apply (Hmem l2 l1 H2 P2 (fun x => eq_sym (Hk x)))]. }
  rewrite (csorted_canonical l1 H1), (csorted_canonical l2 H2), Hkeys. apply map_ext. intros g. rewrite Hk. reflexivity.
Qed.

Lemma merge_keys : forall a b x, In x (map fst (merge_combine a b)) <-> In x (map fst a) \/ In x (map fst b).
Proof.
  induction a as [|[g c] a IHa]; intros b x; [destruct b; simpl; tauto|].
  induction b as [|[h d] b IHb]; [rewrite merge_nil_r; simpl; tauto|].
  cbn [merge_combine]. destruct (cmp g h) eqn:E.
  - apply cmp_eq in E. subst h. cbn [map fst In]. rewrite IHa. tauto.
  - cbn [map fst In]. rewrite IHa. cbn [map fst In]. tauto.
  - change ((fix inner (b0 : list (gram * N)) : list (gram * N) := match b0 with | [] => (g, c) :: a | (h0, d0) :: b'0 => match cmp g h0 with | Eq => (g, (c + d0)%N) :: merge_combine a b'0 | Lt => (g, c) :: merge_combine a b0 | Gt => (h0, d0) :: inner b'0 end end) b)
      with (merge_combine ((g, c) :: a) b).
    cbn [map fst In]. rewrite IHb. cbn [map fst In]. tauto.
Qed.

Lemma csorted_cons_inv : forall f l, csorted (f :: l) -> csorted l /\ forall x, In x (map fst l) -> glt (fst f) x.
Proof.
  intros f l H. inversion H as [|? ? Hs Hall]; subst. split; [exact Hs|]. rewrite Forall_forall in Hall.
  intros x Hx. apply in_map_iff in Hx. destruct Hx as [y [<- Hy]]. apply Hall. exact Hy.
Qed.

Lemma csorted_cons : forall f l, csorted l -> (forall x, In x (map fst l) -> glt (fst f) x) -> csorted (f :: l).
Proof.
  intros f l Hs H. constructor; [exact Hs|]. apply Forall_forall. intros y Hy. apply H. apply in_map. exact Hy.
Qed.

Lemma merge_sorted : forall a b, csorted a -> csorted b -> csorted (merge_combine a b).
Proof.
  induction a as [|[g c] a IHa]; intros b Ha Hb; [destruct b; exact Hb|].
  induction b as [|[h d] b IHb]; [rewrite merge_nil_r; exact Ha|].
  destruct (csorted_cons_inv _ _ Ha) as [Ha' Hga]. destruct (csorted_cons_inv _ _ Hb) as [Hb' Hhb]. simpl fst in *.
  cbn [merge_combine]. destruct (cmp g h) eqn:E.
  - apply cmp_eq in E. subst h. apply csorted_cons; [apply IHa; assumption|]. simpl fst. intros x Hx. apply merge_keys in Hx. destruct Hx; auto.
  - apply csorted_cons; [apply IHa; assumption|]. simpl fst. intros x Hx. apply merge_keys in Hx. destruct Hx as [Hx|Hx]; [auto|].
    cbn [map fst In] in Hx. destruct Hx as [<-|Hx]; [exact E|]. eapply glt_trans; [exact E|auto].
  - change ((fix inner (b0 : list (gram * N)) : list (gram * N) := match b0 with | [] => (g, c) :: a | (h0, d0) :: b'0 => match cmp g h0 with | Eq => (g, (c + d0)%N) :: merge_combine a b'0 | Lt => (g, c) :: merge_combine a b0 | Gt => (h0, d0) :: inner b'0 end end) b)
      with (merge_combine ((g, c) :: a) b).
    apply csorted_cons; [apply IHb; exact Hb'|]. simpl fst. assert (Ehg : glt h g) by (apply cmp_lt_gt; exact E).
    intros x Hx. apply merge_keys in Hx. destruct Hx as [Hx|Hx]; [|auto].
    cbn [map fst In] in Hx. destruct Hx as [<-|Hx]; [exact Ehg|]. eapply glt_trans; [exact Ehg|auto].
Qed.

Lemma merge_pos : forall a b, allpos a -> allpos b -> allpos (merge_combine a b).
Proof.
  unfold allpos. induction a as [|[g c] a IHa]; intros b Ha Hb; [destruct b; exact Hb|].
  induction b as [|[h d] b IHb]; [rewrite merge_nil_r; exact Ha|].
  inversion Ha as [|? ? Hc Ha']; subst. inversion Hb as [|? ? Hd Hb']; subst. simpl in Hc, Hd.
  cbn [merge_combine]. destruct (cmp g h).
  - constructor; [simpl; lia|apply IHa; assumption].
  - constructor; [exact Hc|apply IHa; assumption].
  - change ((fix inner (b0 : list (gram * N)) : list (gram * N) := match b0 with | [] => (g, c) :: a | (h0, d0) :: b'0 => match cmp g h0 with | Eq => (g, (c + d0)%N) :: merge_combine a b'0 | Lt => (g, c) :: merge_combine a b0 | Gt => (h0, d0) :: inner b'0 end end) b)
      with (merge_combine ((g, c) :: a) b).
    constructor; [exact Hd|apply IHb; exact Hb'].
Qed.

Lemma lenN_app : forall {A} (x y : list A), lenN (x ++ y) = (lenN x + lenN y)%N.
Proof. intros. unfold lenN. rewrite app_length, Nat2N.inj_add. reflexivity. Qed.

(* merging the sorted counts of two pieces of the corpus = the sorted counts of the whole *)
Theorem merge_sorted_counts : forall n x y, merge_combine (sorted_counts n x) (sorted_counts n y) = sorted_counts n (x ++ y).
Proof.
  intros n x y. apply csorted_ext.
  - apply merge_sorted; apply sorted_counts_sorted.
  - apply sorted_counts_sorted.
  - apply merge_pos; apply sorted_counts_pos.
  - apply sorted_counts_pos.
  - intros g. unfold ksum. rewrite merge_wsum, !sorted_counts_wsum, filter_app, lenN_app. reflexivity.
Qed.

(* any number of blocks, any block boundaries *)
Theorem merge_runs_blocks : forall n (blocks : list (list gram)),
  merge_runs (map (sorted_counts n) blocks) = sorted_counts n (concat blocks).
Proof.
  intros n blocks. unfold merge_runs. induction blocks as [|x bs IH]; [reflexivity|]. cbn [map fold_right concat]. rewrite IH. apply merge_sorted_counts.
Qed.
