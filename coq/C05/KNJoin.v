(* C05/KNJoin.v -- Callback::Enter's join of the kept order-k n-grams with the gamma records of order k+1 (positional
   without pruning, by hash with pruning) delivers the specification's back-off weights. *)
From Coq Require Import List NArith ZArith QArith Bool Lia Sorted.
From Kenlm Require Import C05.KNDefs C05.KNSpec C05.KNModel C05.KNLex C05.KNAdjustE C06.SumQ C06.SumProofs C05.KNAddRight.
Import ListNotations.

(* ---- the two joins over abstract lists: A = all order-k n-grams (duplicate free), the stream holds the records of those
   that are contexts (q), the n-grams entered are the kept ones (p) *)
Section AbstractJoin.
  Variable f : gram -> Q.
  Variable q : gram -> bool.
  Hypothesis Hq : forall g, q g = negb (last_special g).
  Let rec_of (g : gram) : gram * Q := (g, f g).
  Let want (g : gram) : Q := if q g then f g else 1.

  Lemma join_seq_all : forall A, join_seq A (map rec_of (filter q A)) = map want A.
  Proof.
    induction A as [|a A IH]; [reflexivity|]. cbn [join_seq filter map]. unfold want at 1. rewrite (Hq a).
    destruct (last_special a); cbn [negb]; [rewrite IH; reflexivity|]. cbn [map rec_of]. rewrite IH. reflexivity.
  Qed.

  Lemma join_hash_skip : forall K a x st, ~ In a K -> join_hash K ((a, x) :: st) = join_hash K st.
  Proof.
    induction K as [|g K IH]; intros a x st Hn; [reflexivity|]. cbn [join_hash].
    assert (Hne : geqb a g = false) by (apply geqb_neq; intro E; apply Hn; left; symmetry; exact E).
    destruct (last_special g); [rewrite IH by (intro H; apply Hn; right; exact H); reflexivity|].
    cbn [skip_to]. rewrite Hne. reflexivity.
  Qed.

  Lemma join_hash_filter : forall (p : gram -> bool) A, NoDup A ->
    join_hash (filter p A) (map rec_of (filter q A)) = map want (filter p A).
  Proof.
    intros p A Hnd. induction A as [|a A IH]; [reflexivity|]. inversion Hnd as [|? ? Ha HA]; subst. specialize (IH HA).
    cbn [filter]. destruct (p a) eqn:Ep; destruct (q a) eqn:Eq; cbn [map].
    - cbn [join_hash]. assert (Els : last_special a = false) by (rewrite Hq in Eq; apply negb_true_iff in Eq; exact Eq).
      rewrite Els. unfold rec_of at 1. cbn [skip_to]. rewrite geqb_refl. unfold want at 1. rewrite Eq. rewrite IH. reflexivity.
    - cbn [join_hash]. assert (Els : last_special a = true) by (rewrite Hq in Eq; apply negb_false_iff in Eq; exact Eq).
      rewrite Els. unfold want at 1. rewrite Eq. rewrite IH. reflexivity.
    - unfold rec_of at 1. rewrite join_hash_skip; [exact IH|]. intro Hin. apply filter_In in Hin. tauto.
    - exact IH.
  Qed.
End AbstractJoin.

Lemma map_filter_kept : forall (l : list entry), NoDup (map e_gram l) ->
  map e_gram (filter kept l) =
  filter (fun g => match find (fun e => geqb (e_gram e) g) l with Some e => kept e | None => false end) (map e_gram l).
Proof.
  induction l as [|e l IH]; intros Hnd; [reflexivity|]. simpl in Hnd. inversion Hnd as [|? ? He Hl]; subst.
  cbn [filter map find]. rewrite geqb_refl.
  assert (Hrest : filter (fun g => match (if geqb (e_gram e) g then Some e else find (fun e0 => geqb (e_gram e0) g) l) with Some e0 => kept e0 | None => false end) (map e_gram l) =
                  filter (fun g => match find (fun e0 => geqb (e_gram e0) g) l with Some e0 => kept e0 | None => false end) (map e_gram l)).
  { apply filter_ext_in. intros g Hg. assert (Hne : geqb (e_gram e) g = false) by (apply geqb_neq; intro E; apply He; rewrite E; exact Hg).
    rewrite Hne. reflexivity. }
  destruct (kept e); cbn [map]; rewrite Hrest, <- (IH Hl); reflexivity.
Qed.

(* ---- instantiation on a table *)
Section Join.
  Variable n : nat.
  Variable o : options.
  Variable tab : list (list entry).
  Variable ds : list (Q * Q * Q).
  Variable k : nat.
  Hypothesis Hk : (1 <= k)%nat.
  Hypothesis G : good tab.
  Hypothesis Hsorted : gsorted (map e_gram (ents tab k)).
  (* every order-k n-gram that does not end in <unk> / </s> is the context of some (k+1)-gram with a positive count ... *)
  Hypothesis Hext : (k < n)%nat -> forall e, In e (ents tab k) -> last_special (e_gram e) = false ->
                    exists e', In e' (ents tab (S k)) /\ tl (e_gram e') = e_gram e /\ (1 <= e_adj e')%N.
  (* ... and no context ends in <unk> / </s> *)
  Hypothesis Hnoext : forall e', In e' (ents tab (S k)) -> last_special (tl (e_gram e')) = false.
  (* without pruning at order k+1 nothing is pruned at order k *)
  Hypothesis Hnoprune : (k < n)%nat -> hash_mode o (S k) = false -> forall e, In e (ents tab k) -> e_marked e = false.

  Notation A := (map e_gram (ents tab k)).
  Definition qf (g : gram) : bool := negb (last_special g).

  Lemma contexts_eq : (k < n)%nat -> contexts tab (S k) = filter qf A.
  Proof.
    intros Hkn. unfold contexts. apply gsorted_ext; [apply sort_uniq_sorted|apply gsorted_filter; exact Hsorted|].
    intros c. rewrite In_sort_uniq, in_map_iff, filter_In, in_map_iff. split.
    - intros [e' [<- He']]. destruct (g_ctx tab G k e' Hk He') as [e [He [Hg _]]]. split; [exists e; tauto|].
      unfold qf. rewrite (Hnoext e' He'). reflexivity.
    - intros [[e [<- He]] Hq]. unfold qf in Hq. apply negb_true_iff in Hq. destruct (Hext Hkn e He Hq) as [e' [He' [Ht _]]]. exists e'. tauto.
  Qed.

  Lemma backoff_want : (k < n)%nat -> forall e, In e (ents tab k) ->
    (if qf (e_gram e) then gamma tab ds (S k) (e_gram e) else 1) = backoff n tab ds k (e_gram e).
  Proof.
    intros Hkn e He. unfold backoff. assert (E : (k <? n)%nat = true) by (apply Nat.ltb_lt; exact Hkn). rewrite E. unfold qf.
    destruct (last_special (e_gram e)) eqn:Els; cbn [negb].
    - assert (Hd : denom tab (S k) (e_gram e) = 0%N).
      { unfold denom. rewrite filter_none; [reflexivity|]. intros e' He'. unfold in_ctx. apply geqb_neq. intro Eq.
        pose proof (Hnoext e' He') as H. rewrite Eq, Els in H. discriminate. }
      rewrite Hd. reflexivity.
    - destruct (Hext Hkn e He Els) as [e' [He' [Ht Ha]]].
      assert (Hd : denom tab (S k) (e_gram e) <> 0%N).
      { unfold denom. assert (Hin : In e' (filter (in_ctx (e_gram e)) (ents tab (S k)))) by (apply filter_In; split; [exact He'|unfold in_ctx; rewrite Ht; apply geqb_refl]).
        induction (filter (in_ctx (e_gram e)) (ents tab (S k))) as [|x l IH]; [destruct Hin|]. simpl. destruct Hin as [->|Hin]; [lia|]. specialize (IH Hin). lia. }
      destruct (N.eqb_spec (denom tab (S k) (e_gram e)) 0); [contradiction|reflexivity].
  Qed.

  Theorem backoffs_impl_spec :
    backoffs_impl n o tab ds k = map (fun e => backoff n tab ds k (e_gram e)) (filter kept (ents tab k)).
  Proof.
    unfold backoffs_impl. destruct (Nat.ltb_spec k n) as [Hkn|Hkn].
    - rewrite gamma_records_spec. unfold gamma_stream. rewrite (contexts_eq Hkn).
      assert (Hwant : forall l, (forall e, In e l -> In e (ents tab k)) ->
                map (fun g => if qf g then gamma tab ds (S k) g else 1) (map e_gram l) = map (fun e => backoff n tab ds k (e_gram e)) l).
      { intros l Hl. rewrite map_map. apply map_ext_in. intros e He. apply (backoff_want Hkn). apply Hl. exact He. }
      destruct (hash_mode o (S k)) eqn:Ehm.
      + pose proof (map_filter_kept (ents tab k) (g_nodup tab G k)) as Efilt.
        rewrite Efilt. rewrite (join_hash_filter (gamma tab ds (S k)) qf (fun g => eq_refl) _ A (g_nodup tab G k)).
        rewrite <- Efilt. apply Hwant. intros e He. apply filter_In in He. tauto.
      + assert (Eall : filter kept (ents tab k) = ents tab k).
        { apply filter_all. intros e He. unfold kept. rewrite (Hnoprune Hkn eq_refl e He). reflexivity. }
        rewrite Eall. rewrite (join_seq_all (gamma tab ds (S k)) qf (fun g => eq_refl) A). apply Hwant. tauto.
    - rewrite map_map. apply map_ext. intros e. unfold backoff. assert (E : (k <? n)%nat = false) by (apply Nat.ltb_ge; exact Hkn). rewrite E. reflexivity.
  Qed.
End Join.
