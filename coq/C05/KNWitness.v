(* C05/KNWitness.v -- concrete witnesses (by computation) about the UNREPAIRED AdjustCounts loop. *)
From Coq Require Import List NArith ZArith QArith Bool.
From Kenlm Require Import C05.KNDefs C05.KNSpec C05.KNModel.
Import ListNotations.

Definition opts0 : options := mkOpts [] None true None.
(* a b / b b / b b / b c c c   (a=3, b=4, c=5), order 2: the last unigram flushed, c, has adjusted count 2 and raw count 3 *)
Definition f1_corpus : corpus := [[3;4];[4;4];[4;4];[4;5;5;5]]%N.

Definition stats_of (r : list (list entry) * list ostat) := snd r.
Definition discounts_of (r : result) : list disc := match r with Built m => m_discounts m | Refused _ => [] end.

(* F1: with the final flush passing the actual count to stats.Add, the counts-of-counts of the unigrams differ
   from the specification's (n2, n3 = 1, 2 instead of 2, 1) ... *)
Lemma f1_stats_differ :
  stats_of (adjust false true 2 opts0 (sorted_counts 2 (events f1_corpus)))
  <> map order_stat (table 2 opts0 (events f1_corpus)).
Proof. vm_compute. intro H. discriminate H. Qed.

(* ... and so do the discounts that every probability is computed from: D(unigram) = 1/3, 0, 3 instead of 1/5, 17/10, 3 *)
Lemma f1_discounts_differ :
  discounts_of (kn_impl_gen false true f1_corpus 2 opts0) = [((1#3, 0), 3); ((1#2, 1#2), 3)]
  /\ discounts_of (kn_spec f1_corpus 2 opts0) = [((1#5, 17#10), 3); ((1#2, 1#2), 3)].
Proof. split; vm_compute; reflexivity. Qed.

(* the repaired loop agrees with the specification on this corpus *)
Example f1_repaired_agrees : kn_impl f1_corpus 2 opts0 = kn_spec f1_corpus 2 opts0.
Proof. vm_compute. reflexivity. Qed.

(* F12L: with unigram threshold 1 and a single sentence, </s> (true count 1) is marked by the unrepaired loop although
   specials are never removed from the output: counts_pruned[0] = 4 but five unigrams are written. *)
Definition opts_p1 : options := mkOpts [1;1]%N None true (Some (1#2, 1, 3#2)).
Definition f12_corpus : corpus := [[3;4;5;3;4]]%N.
Lemma f12_eos_marked :
  let r := adjust true false 2 opts_p1 (sorted_counts 2 (events f12_corpus)) in
  map s_count_pruned (snd r) = [4; 1]%N /\
  map e_gram (filter (fun e => negb (e_marked e) || special1 (e_gram e)) (nth 0 (fst r) [])) = [[0];[1];[2];[3];[4]]%N.
Proof. vm_compute. split; reflexivity. Qed.

(* the hypotheses of the refinement theorems are satisfiable (and hold for every threshold vector lmplz can be given
   short of 2^64-1) *)
Example thr_hypothesis_satisfiable : forall k, (thr opts0 k < MAX64)%N /\ (thr opts_p1 k < MAX64)%N.
Proof.
  intros k. unfold thr, opts0, opts_p1, o_prune. split.
  - destruct (k - 1)%nat; reflexivity.
  - destruct (k - 1)%nat as [|[|j]]; try reflexivity. destruct j; reflexivity.
Qed.
