From Coq Require Import List Arith Bool Lia.
From Kenlm Require Import C05.CollapseModel C05.CollapseProofs.
Import ListNotations.

Lemma start_block_none : forall vs b, start_block b vs = None -> forall k, nth k vs 0 = 0.
Proof.
  induction vs as [|x vs IH]; intros b H k; [destruct k; reflexivity|]. simpl in H. destruct x as [|x]; [|discriminate].
  destruct k; [reflexivity|]. simpl. apply (IH (S b) H).
Qed.

Lemma start_block_zeros : forall vs b b' v rest, start_block b vs = Some (b', v, rest) ->
  exists pre, vs = pre ++ v :: rest /\ b' = b + length pre /\ 0 < v /\ forall k, k < length pre -> nth k vs 0 = 0.
Proof.
  induction vs as [|x vs IH]; intros b b' v rest H; simpl in H; [discriminate|]. destruct x as [|x].
  - destruct (IH _ _ _ _ H) as [pre [-> [-> [Hv Hz]]]]. exists (0 :: pre). simpl. split; [reflexivity|]. split; [lia|]. split; [exact Hv|].
    intros k Hk. destruct k; [reflexivity|]. apply Hz. lia.
  - injection H as <- <- <-. exists []. simpl. split; [reflexivity|]. split; [lia|]. split; [lia|]. intros k Hk. lia.
Qed.

(* every valid slot of every block is visited (marked) by the repaired stream *)
Lemma run_covers : forall fuel vs b0 k i, length vs < fuel -> i < nth k vs 0 -> In (b0 + k, i) (run true fuel b0 vs).
Proof.
  induction fuel as [|fuel IH]; intros vs b0 k i Hf Hi; [lia|]. simpl.
  destruct (start_block b0 vs) as [[[b' v] rest]|] eqn:Es.
  - destruct (start_block_zeros _ _ _ _ _ Es) as [pre [Evs [Eb' [Hv Hz]]]].
    destruct (lt_eq_lt_dec k (length pre)) as [[Hlt|Heq]|Hgt].
    + rewrite (Hz k Hlt) in Hi. lia.
    + assert (Hn : nth k vs 0 = v) by (rewrite Evs, Heq, app_nth2, Nat.sub_diag by lia; reflexivity). rewrite Hn in Hi.
      rewrite Eb', <- Heq. destruct i as [|i]; [left; reflexivity|]. right. apply in_or_app. left.
      unfold inner. apply in_map_iff. exists (S i). split; [reflexivity|]. apply in_seq. lia.
    + right. apply in_or_app. right.
      assert (Hn : nth k vs 0 = nth (k - length pre - 1) rest 0).
      { rewrite Evs, app_nth2 by lia. destruct (k - length pre) as [|j] eqn:Ej; [lia|]. simpl. f_equal. lia. }
      rewrite Hn in Hi.
      assert (Hlen : length rest < fuel) by (rewrite Evs, app_length in Hf; simpl in Hf; lia).
      destruct (start_block (S b') rest) as [[[b'' v''] rest'']|] eqn:Es2.
      * simpl. replace (b0 + k) with (S b' + (k - length pre - 1)) by lia. apply IH; assumption.
      * rewrite (start_block_none _ _ Es2) in Hi. lia.
  - rewrite (start_block_none _ _ Es) in Hi. lia.
Qed.

Theorem collapse_accesses_cover : forall vs b i, i < nth b vs 0 -> In (b, i) (accesses true vs).
Proof. intros vs b i H. unfold accesses. apply (run_covers (S (length vs)) vs 0 b i); [lia|exact H]. Qed.
