(* C05/KNAdjustD.v -- from the quantities over the sorted full n-grams to the textbook quantities over the corpus. *)
From Coq Require Import List NArith ZArith Bool Lia Sorted.
From Kenlm Require Import C05.KNDefs C05.KNSpec C05.KNModel C05.KNLex C05.KNEvents C05.KNAdjustA C05.KNAdjustB.
Import ListNotations.
Local Arguments N.add : simpl never.
Local Arguments N.leb : simpl never.
Local Arguments N.ltb : simpl never.

Lemma geqb_iff : forall a b c d : gram, (a = b <-> c = d) -> geqb a b = geqb c d.
Proof.
  intros a b c d H. destruct (geqb a b) eqn:E1; destruct (geqb c d) eqn:E2; try reflexivity.
  - apply geqb_eq in E1. apply geqb_neq in E2. tauto.
  - apply geqb_neq in E1. apply geqb_eq in E2. tauto.
Qed.

Lemma In_grams : forall ev k g, In g (grams ev k) <->
  (k = 1%nat /\ (g = [UNK] \/ g = [BOS])) \/ (exists e, In e ev /\ (k <= length e)%nat /\ g = firstn k e).
Proof.
  intros ev k g. unfold grams. rewrite In_sort_uniq.
  assert (Hw : forall j, In g (windows ev j) <-> exists e, In e ev /\ (j <= length e)%nat /\ g = firstn j e).
  { intros j. unfold windows. rewrite in_map_iff. split.
    - intros [e [<- He]]. apply filter_In in He. destruct He as [He Hl]. apply Nat.leb_le in Hl. exists e. tauto.
    - intros [e [He [Hl ->]]]. exists e. split; [reflexivity|]. apply filter_In. split; [exact He|apply Nat.leb_le; exact Hl]. }
  destruct k as [|[|k]].
  - rewrite Hw. split; [intros H; right; exact H|intros [[H _]|H]; [discriminate|exact H]].
  - simpl. rewrite Hw. split.
    + intros [<-|[<-|H]]; [left; tauto|left; tauto|right; exact H].
    + intros [[_ [->| ->]]|H]; tauto.
  - rewrite Hw. split; [intros H; right; exact H|intros [[H _]|H]; [discriminate|exact H]].
Qed.

Section D.
  Variable n : nat.
  Variable o : options.
  Variable ev : list gram.
  Hypothesis Hn : (1 <= n)%nat.
  Hypothesis Hev : Forall wf_event ev.
  Let fs := sorted_counts n ev.

  Lemma ev_wf : forall e, In e ev -> wf_event e.
  Proof. intros e He. rewrite Forall_forall in Hev. apply Hev. exact He. Qed.

  Lemma fs_In : forall f, In f fs -> exists e, In e ev /\ fst f = pad n e.
  Proof.
    intros f Hf. apply (sorted_counts_In n ev (fst f)). apply in_map. exact Hf.
  Qed.

  Lemma fs_of_event : forall e, In e ev -> exists c, In (pad n e, c) fs.
  Proof.
    intros e He. assert (H : In (pad n e) (map fst fs)) by (apply sorted_counts_In; exists e; tauto).
    apply in_map_iff in H. destruct H as [[r c] [E Hin]]. simpl in E. subst r. exists c. exact Hin.
  Qed.

  (* D1: the accumulated actual count is the true count *)
  Lemma act_tcount : forall k g, (1 <= k <= n)%nat -> length g = k -> (k - 1 <= vlen g)%nat -> act k g fs = tcount ev g.
  Proof.
    intros k g Hk Hl Hv. unfold act, sel. change (sumN (map snd (filter (fun f : gram * N => geqb (firstn k (fst f)) g) fs)))
      with (wsum (fun r => geqb (firstn k r) g) fs).
    unfold fs. rewrite sorted_counts_wsum. unfold tcount. rewrite Hl. f_equal. apply filter_ext_in.
    intros e He. apply geqb_iff. apply pad_firstn_iff; try assumption. apply ev_wf. exact He.
  Qed.

  (* D4: the number of distinct (k+1)-prefixes is N1+ *)
  Lemma extn_lext : forall k g, (1 <= k < n)%nat -> length g = k -> vlen g = k ->
    extn k g fs = lext (grams ev (S k)) g.
  Proof.
    intros k g Hk Hl Hv. unfold extn, lext. f_equal. apply gsorted_ext.
    - apply sort_uniq_sorted.
    - apply gsorted_filter. unfold grams. apply sort_uniq_sorted.
    - intros q. rewrite In_sort_uniq, in_map_iff, filter_In, In_grams, geqb_eq, Hl. split.
      + intros [f [<- Hf]]. apply In_sel in Hf. destruct Hf as [Hf Hp]. destruct (fs_In f Hf) as [e [He Ef]]. rewrite Ef in *.
        pose proof (ev_wf e He) as Hw.
        assert (Hfe : firstn k e = g) by (apply (pad_firstn_iff n k e g); try assumption; lia).
        assert (Hlen : (S k <= length e)%nat).
        { assert (Hle : (k <= length e)%nat) by (rewrite <- Hl, <- Hfe, firstn_length; lia).
          destruct (Nat.eq_dec (length e) k) as [E|]; [|lia]. exfalso.
          rewrite firstn_all2 in Hfe by lia. rewrite <- Hfe in Hv. destruct Hw as [pre [Epre [_ Hp']]]. rewrite Epre in Hv, E.
          rewrite vlen_app_bos in Hv by exact Hp'.
          rewrite app_length in E. simpl in E. lia. }
        rewrite pad_firstn_long by lia. split.
        * right. exists e. split; [exact He|]. split; [exact Hlen|reflexivity].
        * rewrite firstn_firstn. replace (Nat.min k (S k)) with k by lia. exact Hfe.
      + intros [[[Hk1 _]|[e [He [Hlen ->]]]] Hp]; [lia|].
        rewrite firstn_firstn in Hp. replace (Nat.min k (S k)) with k in Hp by lia.
        destruct (fs_of_event e He) as [c Hc]. exists (pad n e, c). cbn [fst]. split; [apply pad_firstn_long; lia|].
        apply In_sel. split; [exact Hc|]. cbn [fst]. rewrite pad_firstn_long by lia. exact Hp.
  Qed.

  (* properties of a lower-order n-gram obtained from a full n-gram *)
  Lemma prefix_props : forall f k, In f fs -> (1 <= k <= n)%nat -> (k - 1 <= vlen (fst f))%nat ->
    let g := firstn k (fst f) in
    length g = k /\ (k - 1 <= vlen g)%nat /\ (2 <= hd UNK g)%N /\ ((last g UNK =? BOS)%N = false -> vlen g = k) /\
    exists e, In e ev /\ (k <= length e)%nat /\ g = firstn k e.
  Proof.
    intros f k Hf Hk Hv g. destruct (fs_In f Hf) as [e [He Ef]]. pose proof (ev_wf e He) as Hw.
    destruct (pad_wf n e Hn Hw) as [Hl [Ht [Hv1 Hh]]]. rewrite <- Ef in *.
    assert (Hlg : length g = k) by (unfold g; rewrite firstn_length; lia).
    assert (Hvg : vlen g = Nat.min k (vlen (fst f))) by (unfold g; apply vlen_firstn).
    split; [exact Hlg|]. split; [lia|]. split; [|split].
    - unfold g. destruct (fst f) as [|x t]; [simpl in Hl; lia|]. destruct k; [lia|]. exact Hh.
    - intros Hlast. destruct (Nat.eq_dec (vlen g) k) as [E|N']; [exact E|]. exfalso.
      assert (Hvk : vlen g = (k - 1)%nat) by lia.
      assert (Hb : nth (k - 1) g UNK = BOS) by (rewrite <- Hvk; apply vlen_nth_eq; lia).
      apply N.eqb_neq in Hlast. apply Hlast. destruct k as [|k']; [lia|]. unfold g. rewrite last_firstn_nth by lia.
      unfold g in Hb. replace (S k' - 1)%nat with k' in Hb by lia. rewrite nth_firstn_lt in Hb by lia. exact Hb.
    - exists e. split; [exact He|].
      assert (Hfe : firstn k e = g).
      { apply (pad_firstn_iff n k e g); try assumption; [lia|]. unfold g. rewrite Ef. reflexivity. }
      split; [|symmetry; exact Hfe]. rewrite <- Hlg, <- Hfe, firstn_length. lia.
  Qed.

  (* D5: a regular entry is the specification's entry *)
  Definition sp (k : nat) (g : gram) : entry :=
    let a := adj n ev k (grams ev (S k)) g in mkE g a (marked o ev k g) a.

  Lemma markf_marked : forall k g, (2 <= hd UNK g)%N -> markf o k g (tcount ev g) = marked o ev k g.
  Proof.
    intros k g Hh. unfold markf, marked, has_pruned. destruct (special1 g) eqn:Es.
    - destruct g as [|w [|? ?]]; try discriminate. simpl in Hh, Es. apply N.leb_le in Es.
      assert (w = EOS) by (unfold EOS; lia). subst w. rewrite geqb_refl. simpl.
      rewrite andb_false_r. unfold pruned_word. destruct (o_limit o); reflexivity.
    - assert (E : geqb g [EOS] = false).
      { apply geqb_neq. intros ->. discriminate Es. }
      rewrite E. simpl. rewrite andb_true_r. reflexivity.
  Qed.

  Lemma rec_of_sp : forall f k, In f fs -> (1 <= k <= n - 1)%nat -> (k - 1 <= vlen (fst f))%nat ->
    rec_of o k (firstn k (fst f)) fs = sp k (firstn k (fst f)).
  Proof.
    intros f k Hf Hk Hv. destruct (prefix_props f k Hf ltac:(lia) Hv) as [Hl [Hvg [Hh [Hlast _]]]].
    set (g := firstn k (fst f)) in *. unfold rec_of, sp.
    assert (Ea : adjf k g fs = adj n ev k (grams ev (S k)) g).
    { unfold adjf, adj. assert (E : (k =? n)%nat = false) by (apply Nat.eqb_neq; lia). rewrite E. simpl orb.
      destruct (last g UNK =? BOS)%N eqn:Eb.
      - apply act_tcount; [lia|exact Hl|exact Hvg].
      - apply extn_lext; [lia|exact Hl|apply Hlast; reflexivity]. }
    rewrite Ea. f_equal. rewrite act_tcount by (try assumption; lia). apply markf_marked. exact Hh.
  Qed.
End D.
