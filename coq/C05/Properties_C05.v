(* C05 -- the property theorems and nothing else (each closed by `exact <lemma>`). *)
From Coq Require Import List NArith ZArith QArith Bool.
From Kenlm Require Import C05.KNDefs C05.KNSpec C05.KNModel C05.KNWitness.
Import ListNotations.

(* The unrepaired final flush (F1): there is a corpus on which the counts-of-counts collected by the streaming
   AdjustCounts loop differ from the specification's. *)
Theorem C05_stats_last_ngram_refuted : exists c n o,
  snd (adjust false true n o (sorted_counts n (events c))) <> map order_stat (table n o (events c)).
Proof. exists f1_corpus, 2%nat, opts0. exact f1_stats_differ. Qed.
