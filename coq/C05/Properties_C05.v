(* C05 -- the property theorems and nothing else (each closed by `exact <lemma>`).
   Representation (C05/KNDefs.v): words are ids (0 <unk>, 1 <s>, 2 </s>), an n-gram is the list of its words NEWEST
   FIRST; events c = the reversed prefixes of the <s>..</s> delimited sentences; `table n o ev` = per order the
   duplicate-free suffix-ordered n-grams with adjusted count and pruning mark (KNSpec.v); kn_spec = table followed by
   discounts, uninterpolated probabilities, gammas and interpolation over exact rationals. *)
From Coq Require Import List NArith ZArith QArith Bool.
From Kenlm Require Import C05.KNDefs C05.KNSpec C05.KNModel C05.KNWitness C05.KNLex C05.KNAdjustD C05.KNAdjustF C05.KNNgramSet C06.GoodTable C05.KNPipeline C05.CollapseModel C05.CollapseProofs C05.CollapseCover C05.MergeCombine C05.KNDiscount.
Import ListNotations.

(* F1, the unrepaired final flush (fix_stat = false): there is a corpus on which the counts-of-counts collected by the
   streaming AdjustCounts loop differ from the specification's -- witness  a b / b b / b b / b c c c, order 2. *)
Theorem C05_stats_last_ngram_refuted : exists c n o,
  snd (adjust false true n o (sorted_counts n (events c))) <> map order_stat (table n o (events c)).
Proof. exists f1_corpus, 2%nat, opts0. exact f1_stats_differ. Qed.

(* ... and the discounts every probability is computed from are different: 1/3, 0, 3 instead of 1/5, 17/10, 3. *)
Theorem C05_discounts_last_ngram_refuted :
  discounts_of (kn_impl_gen false true f1_corpus 2 opts0) = [((1#3, 0), 3); ((1#2, 1#2), 3)]
  /\ discounts_of (kn_spec f1_corpus 2 opts0) = [((1#5, 17#10), 3); ((1#2, 1#2), 3)].
Proof. exact f1_discounts_differ. Qed.

(* The repaired streaming loop (lower_valid stack, actual_counts, the three STEPs, final flush, StatCollector, CollapseStream)
   run on the sorted padded n-grams of ANY corpus, for ANY order >= 1 and any pruning options, delivers exactly the
   declarative tables: same n-grams in the same order, same adjusted counts, same pruning marks, and the same
   counts-of-counts statistics. *)
Theorem C05_adjust_counts_refines_spec : forall (c : corpus) (n : nat) (o : options),
  (1 <= n)%nat -> (forall k, (thr o k < MAX64)%N) ->
  adjust true true n o (sorted_counts n (events c)) = (table n o (events c), map order_stat (table n o (events c))).
Proof. exact adjust_counts_refines_spec. Qed.

(* Hence the model of the pipeline equals the specification (stages after AdjustCounts are shared definitions). *)
Theorem C05_impl_refines_spec : forall (c : corpus) (n : nat) (o : options),
  (1 <= n)%nat -> (forall k, (thr o k < MAX64)%N) -> kn_impl c n o = kn_spec c n o.
Proof. exact impl_refines_spec. Qed.

(* The same with the interpolation stage modelled as the code computes it: bottom up, the probability of an n-gram from
   the stored uninterpolated probability / interpolation weight (MergeRight) and the probability of its SUFFIX looked up
   one order lower (Callback::Enter; JointOrder throws "n-gram without matching suffix" when it is missing).  For every
   corpus with at least one line, every order and every legal option set the pipeline never misses a suffix and writes
   exactly the specification's model (or refuses where the specification has no discounts). *)
Theorem C05_pipeline_refines_spec : forall (c : corpus) (n : nat) (o : options),
  c <> [] -> (1 <= n)%nat -> thr_mono o n -> (forall k, (thr o k < MAX64)%N) ->
  kn_pipeline c n o = lift_result (kn_spec c n o).
Proof. exact pipeline_refines_spec. Qed.

(* The n-grams of order k are exactly the windows of the delimited sentences, plus <unk> and <s> among the unigrams ... *)
Theorem C05_ngram_set : forall (c : corpus) k g, In g (grams (events c) k) <->
  (k = 1%nat /\ (g = [UNK] \/ g = [BOS])) \/ (exists e, In e (events c) /\ (k <= length e)%nat /\ g = firstn k e).
Proof. intros c. exact (In_grams (events c)). Qed.

(* ... and what is written for order k is that list minus exactly the n-grams marked for pruning (true count at or below
   the threshold, or an excluded word; never a special unigram). *)
Theorem C05_emitted_ngrams : forall (c : corpus) n o m k, kn_spec c n o = Built m -> (1 <= k <= n)%nat ->
  map a_gram (nth (k - 1) (m_orders m) []) = filter (fun g => negb (marked o (events c) k g)) (grams (events c) k).
Proof. exact emitted_ngrams. Qed.

(* without pruning options nothing is removed *)
Theorem C05_emitted_ngrams_unpruned : forall (c : corpus) n o m k, kn_spec c n o = Built m -> (1 <= k <= n)%nat ->
  (forall j, thr o j = 0%N) -> o_limit o = None ->
  map a_gram (nth (k - 1) (m_orders m) []) = grams (events c) k.
Proof. exact emitted_ngrams_unpruned. Qed.

(* CollapseStream's block handling (F15L): the unrepaired operator++ touches the slot behind a full last block ... *)
Theorem C05_collapse_overflow_refuted : In (0, 7)%nat (accesses false [7]%nat) /\ ~ in_bounds [7]%nat (0, 7)%nat.
Proof. exact collapse_overflow_witness. Qed.

(* ... the repaired one only touches valid slots, for every sequence of block sizes (empty blocks included). *)
Theorem C05_collapse_accesses_in_bounds : forall vs a, In a (accesses true vs) -> in_bounds vs a.
Proof. exact collapse_accesses_in_bounds. Qed.

(* ... and it visits (marks for pruning) EVERY valid slot of every block, the first slot of the second and later blocks included. *)
Theorem C05_collapse_accesses_cover : forall vs b i, (i < nth b vs 0)%nat -> In (b, i) (accesses true vs).
Proof. exact collapse_accesses_cover. Qed.

(* corpus_count hands the sorter one deduplicated block after another; the sorter merges the sorted runs with CombineCounts,
   which adds the counts of two records iff ALL their words are equal.  Wherever the block borders fall (any number of
   blocks, any sizes), the merged stream is `sorted_counts` of the whole corpus -- the input of the AdjustCounts theorems. *)
Theorem C05_merge_runs_any_blocks : forall n (blocks : list (list gram)),
  merge_runs (map (sorted_counts n) blocks) = sorted_counts n (concat blocks).
Proof. exact merge_runs_blocks. Qed.

(* The discounts of an order (StatCollector::CalculateDiscounts): the Chen-Goodman closed form is used exactly when
   n1, n2, n3 > 0 and every D_j lies in the CLOSED interval [0, j] (discount_ok d j := 0 <= d <= j: D_j = 0 and
   D_3 = 3 are legal); in every other case the user's fallback, and a refusal when there is none. *)
Theorem C05_closed_form_iff_in_range : forall fb s,
  (cf_exists s -> order_discount fb s = Some (Qred (cf_d1 s), Qred (cf_d2 s), Qred (cf_d3 s))) /\
  (~ cf_exists s -> order_discount fb s = fb).
Proof. exact order_discount_spec. Qed.

(* boundary witnesses: counts of counts 2,3,8,1 have D2 = 0 exactly and the closed form is used *)
Theorem C05_discount_zero_is_legal : closed_form (mkS 2 3 8 1 20 20) = Some (1 # 4, 0, 23 # 8).
Proof. exact boundary_zero_accepted. Qed.
