(* C05/KNDiscount.v -- the case split of StatCollector::CalculateDiscounts, with its boundaries in the statement:
   the closed-form discounts are used exactly when n1, n2, n3 > 0 and every D_j lies in the CLOSED interval [0, j];
   the user's fallback (or a refusal) exactly otherwise. *)
From Coq Require Import List NArith ZArith QArith Bool Lia Lqa.
From Kenlm Require Import C05.KNDefs.
Import ListNotations.
Local Open Scope Q_scope.

Definition discount_ok (d : Q) (j : Q) : Prop := 0 <= d /\ d <= j.

(* Chen & Goodman, equation (26) *)
Definition cf_y (s : ostat) : Q := QN (s_n1 s) / (QN (s_n1 s) + 2 * QN (s_n2 s)).
Definition cf_d1 (s : ostat) : Q := 1 - 2 * cf_y s * QN (s_n2 s) / QN (s_n1 s).
Definition cf_d2 (s : ostat) : Q := 2 - 3 * cf_y s * QN (s_n3 s) / QN (s_n2 s).
Definition cf_d3 (s : ostat) : Q := 3 - 4 * cf_y s * QN (s_n4 s) / QN (s_n3 s).
Definition cf_exists (s : ostat) : Prop :=
  s_n1 s <> 0%N /\ s_n2 s <> 0%N /\ s_n3 s <> 0%N /\
  discount_ok (cf_d1 s) 1 /\ discount_ok (cf_d2 s) 2 /\ discount_ok (cf_d3 s) 3.

Lemma in_range_iff : forall d j, in_range d j = true <-> discount_ok d j.
Proof.
  intros d j. unfold in_range, discount_ok. rewrite andb_true_iff, !Qle_bool_iff. tauto.
Qed.

Lemma closed_form_used : forall s, cf_exists s -> closed_form s = Some (Qred (cf_d1 s), Qred (cf_d2 s), Qred (cf_d3 s)).
Proof.
  intros s [H1 [H2 [H3 [D1 [D2 D3]]]]]. unfold closed_form.
  apply N.eqb_neq in H1. apply N.eqb_neq in H2. apply N.eqb_neq in H3. rewrite H1, H2, H3. cbn [orb]. cbv zeta.
  fold (cf_y s). fold (cf_d1 s). fold (cf_d2 s). fold (cf_d3 s). unfold mk_disc.
  apply in_range_iff in D1. apply in_range_iff in D2. apply in_range_iff in D3. rewrite D1, D2, D3. reflexivity.
Qed.

Lemma closed_form_only_then : forall s d, closed_form s = Some d -> cf_exists s /\ d = (Qred (cf_d1 s), Qred (cf_d2 s), Qred (cf_d3 s)).
Proof.
  intros s d H. unfold closed_form in H.
  destruct (s_n1 s =? 0)%N eqn:E1; [discriminate|]. destruct (s_n2 s =? 0)%N eqn:E2; [discriminate|]. destruct (s_n3 s =? 0)%N eqn:E3; [discriminate|].
  cbn [orb] in H. cbv zeta in H. fold (cf_y s) in H. fold (cf_d1 s) in H. fold (cf_d2 s) in H. fold (cf_d3 s) in H. unfold mk_disc in H.
  destruct (in_range (cf_d1 s) 1) eqn:R1; [|discriminate]. destruct (in_range (cf_d2 s) 2) eqn:R2; [|discriminate].
  destruct (in_range (cf_d3 s) 3) eqn:R3; [|discriminate]. cbn [andb] in H.
  apply N.eqb_neq in E1. apply N.eqb_neq in E2. apply N.eqb_neq in E3.
  apply in_range_iff in R1. apply in_range_iff in R2. apply in_range_iff in R3.
  split; [repeat split; try assumption; try apply R1; try apply R2; try apply R3|congruence].
Qed.

(* the discounts of an order: the closed form iff it exists; otherwise the fallback, and a refusal without one *)
Theorem order_discount_spec : forall fb s,
  (cf_exists s -> order_discount fb s = Some (Qred (cf_d1 s), Qred (cf_d2 s), Qred (cf_d3 s))) /\
  (~ cf_exists s -> order_discount fb s = fb).
Proof.
  intros fb s. unfold order_discount. split.
  - intros H. rewrite (closed_form_used s H). reflexivity.
  - intros H. destruct (closed_form s) as [d|] eqn:E; [|reflexivity]. exfalso. apply H. apply (closed_form_only_then s d E).
Qed.

(* both boundaries are inside: counts of counts 2,3,8,1 give D2 = 0 exactly, 4,1,1,0 give D2 = 0 and D3 = 3 exactly *)
Example boundary_zero_accepted : closed_form (mkS 2 3 8 1 20 20) = Some (1 # 4, 0, 23 # 8).
Proof. vm_compute. reflexivity. Qed.
Example boundary_zero_and_three_accepted : closed_form (mkS 4 1 1 0 9 9) = Some (2 # 3, 0, 3).
Proof. vm_compute. reflexivity. Qed.
(* just outside: 2,3,9,1 gives D2 = -1/4 *)
Example just_outside_rejected : closed_form (mkS 2 3 9 1 20 20) = None /\ cf_d2 (mkS 2 3 9 1 20 20) == - (1 # 4).
Proof. split; vm_compute; reflexivity. Qed.
