From Coq Require Import List Arith Bool Lia.
From Kenlm Require Import C05.CollapseModel.
Import ListNotations.

(* the unrepaired stream reads slot 7 of a block with 7 entries *)
Lemma collapse_overflow_witness : In (0, 7) (accesses false [7]) /\ ~ in_bounds [7] (0, 7).
Proof. split; [vm_compute; tauto|unfold in_bounds; simpl; lia]. Qed.

Lemma start_block_spec : forall vs b b' v rest, start_block b vs = Some (b', v, rest) ->
  exists pre, vs = pre ++ v :: rest /\ b' = b + length pre /\ 0 < v.
Proof.
  induction vs as [|x vs IH]; intros b b' v rest H; simpl in H; [discriminate|]. destruct x as [|x].
  - destruct (IH _ _ _ _ H) as [pre [-> [-> Hv]]]. exists (0 :: pre). simpl. split; [reflexivity|]. split; [lia|exact Hv].
  - injection H as <- <- <-. exists []. simpl. split; [reflexivity|]. split; lia.
Qed.

(* every access of the repaired stream is inside its block, for every sequence of block sizes *)
Lemma run_in_bounds : forall fuel all b vs front, all = front ++ vs -> b = length front ->
  forall a, In a (run true fuel b vs) -> in_bounds all a.
Proof.
  induction fuel as [|fuel IH]; intros all b vs front Hall Hb a Ha; [destruct Ha|]. simpl in Ha.
  destruct (start_block b vs) as [[[b' v] rest]|] eqn:Es; [|destruct Ha].
  destruct (start_block_spec _ _ _ _ _ Es) as [pre [Evs [Eb' Hv]]].
  assert (Hnth : nth b' all 0 = v).
  { rewrite Hall, Evs, Eb', Hb. rewrite app_assoc. rewrite app_nth2 by (rewrite app_length; lia). rewrite app_length.
    replace (length front + length pre - (length front + length pre)) with 0 by lia. reflexivity. }
  destruct Ha as [<-|Ha]; [unfold in_bounds; simpl; lia|]. apply in_app_or in Ha. destruct Ha as [Ha|Ha].
  - unfold inner in Ha. apply in_map_iff in Ha. destruct Ha as [i [<- Hi]]. apply in_seq in Hi. unfold in_bounds. simpl. lia.
  - destruct (start_block (S b') rest) as [[[b'' v''] rest'']|] eqn:Es2; [|destruct Ha]. simpl in Ha.
    apply (IH all (S b') rest (front ++ pre ++ [v])); [rewrite Hall, Evs, <- !app_assoc; reflexivity|rewrite !app_length; simpl; lia|exact Ha].
Qed.

Theorem collapse_accesses_in_bounds : forall vs a, In a (accesses true vs) -> in_bounds vs a.
Proof. intros vs a Ha. apply (run_in_bounds (S (length vs)) vs 0 vs []); [reflexivity|reflexivity|exact Ha]. Qed.
