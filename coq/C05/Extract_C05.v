(* Extraction of the C05/C06 executable model (ExtrOcamlBasic only; N/Z/positive/nat/Q stay inductive types). *)
From Coq Require Import List NArith ZArith QArith Extraction ExtrOcamlBasic.
From Kenlm Require Import C05.KNDefs C05.KNSpec C05.KNModel.
Extraction Language OCaml.
Extraction "extracted/c05_model.ml" kn_spec kn_impl_gen kn_pipeline parse_pruning bo_prob vocab adjust table events sorted_counts order_stat all_discounts.
