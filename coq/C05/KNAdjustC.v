(* C05/KNAdjustC.v -- the loop invariant of AdjustCounts::Run and its preservation. *)
From Coq Require Import List NArith ZArith Bool Lia Sorted.
From Kenlm Require Import C05.KNDefs C05.KNSpec C05.KNModel C05.KNLex C05.KNEvents C05.KNAdjustA C05.KNAdjustB.
Import ListNotations.
Local Arguments N.add : simpl never.
Local Arguments N.leb : simpl never.
Local Arguments N.ltb : simpl never.

Definition UNKe : entry := mkE [UNK] 0 false 0.
Definition BOSe : entry := mkE [BOS] 0 false 0.
Definition elen (e : entry) : nat := length (e_gram e).
(* newest-first trace: an older entry of the same order is smaller *)
Definition Rel (a b : entry) : Prop := elen a = elen b -> glt (e_gram b) (e_gram a).

Lemma SS_distinct : forall l, NoDup (map elen l) -> StronglySorted Rel l.
Proof.
  induction l as [|a l IH]; intros H; [constructor|]. inversion H as [|? ? Hn Hd]; subst.
  constructor; [apply IH; exact Hd|]. apply Forall_forall. intros b Hb E. exfalso. apply Hn. rewrite E. apply in_map. exact Hb.
Qed.

Lemma SS_app : forall l1 l2, StronglySorted Rel l1 -> StronglySorted Rel l2 ->
  (forall a b, In a l1 -> In b l2 -> Rel a b) -> StronglySorted Rel (l1 ++ l2).
Proof.
  intros l1 l2 H1 H2 H. induction H1 as [|a t Hs IH Hall]; simpl; [exact H2|].
  constructor.
  - apply IH. intros x y Hx Hy. apply H; [right; exact Hx|exact Hy].
  - rewrite Forall_forall in *. intros x Hx. apply in_app_or in Hx. destruct Hx as [Hx|Hx]; [apply Hall; exact Hx|].
    apply H; [left; reflexivity|exact Hx].
Qed.

Section C.
  Variable n : nat.
  Variable o : options.
  Hypothesis Hn : (2 <= n)%nat.
  Hypothesis Hthr : forall k, (thr o k < MAX64)%N.

  Definition regular (fs : fulls) (e : entry) : Prop :=
    (1 <= elen e <= n - 1)%nat /\ e = rec_of o (elen e) (e_gram e) fs /\
    exists f, In f fs /\ (elen e - 1 <= vlen (fst f))%nat /\ firstn (elen e) (fst f) = e_gram e.

  Record TBase (fs : fulls) (tr : list entry) : Prop := mkTB {
    tb_sorted : StronglySorted Rel tr;
    tb_val : forall e, In e tr -> e = UNKe \/ e = BOSe \/ regular fs e;
    tb_spec : In UNKe tr /\ In BOSe tr
  }.
  Record TInv (fs : fulls) (rp : gram) (tr : list entry) : Prop := mkTI {
    ti_base : TBase fs tr;
    ti_bound : forall e, In e tr -> glt (e_gram e) (firstn (elen e) rp);
    ti_cover : forall f k, In f fs -> (1 <= k <= n - 1)%nat -> (k - 1 <= vlen (fst f))%nat ->
               (exists e, In e tr /\ e_gram e = firstn k (fst f)) \/ firstn k (fst f) = firstn k rp
  }.
  Definition SInv (fs : fulls) (rp : gram) (s : st) : Prop :=
    stack s = stk fs rp (lvl n rp) /\ TInv fs rp (trace s) /\ fullstat s = rev (collapse n o fs).

  (* ---- the entries emitted in one iteration *)
  Lemma In_emits : forall fs rp same d e, In e (emits o fs rp same d) <->
    exists k, (same < k <= same + d)%nat /\ e = rec_of o k (firstn k rp) fs.
  Proof.
    intros. unfold emits. rewrite in_map_iff. split.
    - intros [k [<- Hk]]. apply in_seq in Hk. exists k. split; [lia|reflexivity].
    - intros [k [Hk ->]]. exists k. split; [reflexivity|apply in_seq; lia].
  Qed.

  Lemma emits_elen : forall fs rp same d, (same + d <= length rp)%nat -> map elen (emits o fs rp same d) = seq (S same) d.
  Proof.
    intros fs rp same d H. unfold emits. rewrite map_map. rewrite <- (map_id (seq (S same) d)) at 2.
    apply map_ext_in. intros k Hk. apply in_seq in Hk. unfold elen, rec_of. simpl. rewrite firstn_length. lia.
  Qed.

  Lemma rec_of_snoc_other : forall k g fs (f : gram * N), firstn k (fst f) <> g -> rec_of o k g (fs ++ [f]) = rec_of o k g fs.
  Proof. intros. unfold rec_of. rewrite adjf_snoc_other, act_snoc_other by assumption. reflexivity. Qed.

  Lemma regular_snoc : forall fs (f : gram * N) e, regular fs e -> firstn (elen e) (fst f) <> e_gram e -> regular (fs ++ [f]) e.
  Proof.
    intros fs f e [Hk [He [w [Hw [Hv Hf]]]]] Hne. split; [exact Hk|]. split.
    - rewrite rec_of_snoc_other by exact Hne. exact He.
    - exists w. split; [apply in_or_app; left; exact Hw|]. split; assumption.
  Qed.

  Lemma glt_neq : forall a b, glt a b -> a <> b.
  Proof. intros a b H E. subst. exact (cmp_irrefl _ H). Qed.

  (* the fullstat / collapse bookkeeping *)
  Lemma full_flag : forall r, wf_full n r -> (n - 1 <=? vlen r)%nat = negb (nth (n - 2) r UNK =? BOS)%N.
  Proof.
    intros r [Hl [Ht [Hv Hh]]]. destruct (Nat.leb_spec (n - 1) (vlen r)) as [H|H].
    - symmetry. apply negb_true_iff. apply N.eqb_neq. apply vlen_nth_lt. lia.
    - symmetry. apply negb_false_iff. apply N.eqb_eq. apply bos_trail_vlen; [exact Ht|lia|lia].
  Qed.

  Lemma collapse_snoc : forall fs r c, collapse n o (fs ++ [(r, c)]) =
    collapse n o fs ++ (if negb (nth (n - 2) r UNK =? BOS)%N then [mkE r c (mark_full n o r c) c] else []).
  Proof.
    intros. unfold collapse. rewrite filter_app, map_app. simpl. destruct (negb (nth (n - 2) r UNK =? BOS)%N); reflexivity.
  Qed.

  (* ---- the general iteration *)
  Lemma step_inv : forall fs0 rp cp r c s, wf_fulls n ((fs0 ++ [(rp, cp)]) ++ [(r, c)]) ->
    SInv (fs0 ++ [(rp, cp)]) rp s -> SInv ((fs0 ++ [(rp, cp)]) ++ [(r, c)]) r (step true n o s (r, c)).
  Proof.
    intros fs0 rp cp r c s Hwf [Hstack [Hinv Hfull]].
    set (fs := fs0 ++ [(rp, cp)]) in *.
    destruct (wf_fulls_snoc_inv _ _ _ Hwf) as [Hwfs [Hwr Hbefore]]. simpl in Hwr, Hbefore.
    assert (Hinrp : In (rp, cp) fs) by (apply in_or_app; right; left; reflexivity).
    assert (Hlt : glt rp r) by (apply (Hbefore (rp, cp)); exact Hinrp).
    assert (Hwrp : wf_full n rp).
    { destruct Hwfs as [_ Hall]. rewrite Forall_forall in Hall. apply (Hall (rp, cp)). exact Hinrp. }
    assert (Hne : r <> rp) by (intro E; subst; exact (cmp_irrefl _ Hlt)).
    destruct (lcp_bound n r rp Hwr Hwrp Hne) as [HL1 [HL2 HL3]].
    destruct Hwr as [Hlr [Htr [Hvr Hhr]]]. destruct Hwrp as [Hlrp [Htrp [Hvrp Hhrp]]].
    set (L := lcp r rp) in *.
    assert (Hlvl : (L <= lvl n rp)%nat) by (unfold lvl; lia).
    assert (Hlvlp : (1 <= lvl n rp)%nat) by (unfold lvl; lia).
    assert (Hlvln : (lvl n rp <= n - 1)%nat) by (unfold lvl; lia).
    assert (Hnew : forall k f, (L < k <= n)%nat -> In f fs -> firstn k (fst f) <> firstn k r).
    { intros k f Hk Hf. apply (no_earlier n fs0 rp cp r k); try assumption. }
    assert (Hsame : firstn L r = firstn L rp) by (apply lcp_firstn; unfold L; lia).
    (* compute the step *)
    unfold step. rewrite Hstack.
    assert (Etop : match stk fs rp (lvl n rp) with [] => [] | l :: _ => l_gram l end = firstn (lvl n rp) rp).
    { destruct (lvl n rp) as [|m]; [lia|]. reflexivity. }
    rewrite Etop. rewrite lcp_firstn_r. fold L. replace (Nat.min L (lvl n rp)) with L by lia.
    rewrite stk_length.
    replace (lvl n rp) with (L + (lvl n rp - L))%nat at 2 by lia.
    rewrite (pop_emit_stk n o Hn) by lia.
    rewrite (bump_stk n Hn fs rp cp r c L Hinrp Hlr Hlrp Hsame HL2 HL3 Hnew).
    rewrite (push_new_stk n Hn fs rp r c L Hlr Hlrp HL2 HL3 Hnew (n - 1 - L) L) by lia.
    unfold SInv. cbn [stack trace fullstat].
    set (d := (lvl n rp - L)%nat).
    assert (Hemit : forall e, In e (emits o fs rp L d) -> exists k, (L < k <= lvl n rp)%nat /\ e = rec_of o k (firstn k rp) fs /\ elen e = k).
    { intros e He. apply In_emits in He. destruct He as [k [Hk ->]]. exists k. split; [unfold d in Hk; lia|]. split; [reflexivity|].
      unfold elen, rec_of. simpl. rewrite firstn_length. unfold d in Hk. lia. }
    assert (Hpk : forall k, (L < k <= n)%nat -> firstn k rp <> firstn k r).
    { intros k Hk E. assert ((k <= L)%nat) by (apply firstn_lcp; [lia|lia|symmetry; exact E]). lia. }
    destruct Hinv as [[Hsorted Hval Hspec] Hbound Hcover].
    split; [reflexivity|]. split.
    - (* trace invariant *)
      split; [split|..].
      + (* sorted *)
        apply SS_app; [|exact Hsorted|].
        * apply SS_distinct. rewrite emits_elen by (unfold d; lia). apply seq_NoDup.
        * intros a b Ha Hb E. destruct (Hemit a Ha) as [k [Hk [-> Hek]]]. unfold rec_of at 1. cbn [e_gram].
          specialize (Hbound b Hb). rewrite <- E, Hek in Hbound. exact Hbound.
      + (* values *)
        intros e He. apply in_app_or in He. destruct He as [He|He].
        * right; right. destruct (Hemit e He) as [k [Hk [-> Hek]]]. split; [rewrite Hek; lia|]. split.
          -- rewrite Hek. unfold rec_of at 2. cbn [e_gram]. symmetry. apply rec_of_snoc_other. simpl. intro E. apply (Hpk k); [lia|]. symmetry. exact E.
          -- exists (rp, cp). split; [apply in_or_app; left; exact Hinrp|]. rewrite Hek. cbn [fst]. split; [unfold lvl in Hk; lia|]. reflexivity.
        * destruct (Hval e He) as [H|[H|H]]; [left; exact H|right; left; exact H|right; right].
          apply regular_snoc; [exact H|]. cbn [fst]. specialize (Hbound e He). intro E.
          destruct (firstn_le_of_lt (elen e) rp r Hlt) as [E2|L2].
          -- rewrite E2, E in Hbound. exact (cmp_irrefl _ Hbound).
          -- rewrite E in L2. exact (cmp_irrefl _ (glt_trans _ _ _ Hbound L2)).
      + destruct Hspec as [H1 H2]. split; apply in_or_app; right; assumption.
      + (* bound *)
        intros e He. apply in_app_or in He. destruct He as [He|He].
        * destruct (Hemit e He) as [k [Hk [-> Hek]]]. rewrite Hek. unfold rec_of. cbn [e_gram].
          destruct (firstn_le_of_lt k rp r Hlt) as [E2|L2]; [exfalso; apply (Hpk k); [lia|exact E2]|exact L2].
        * specialize (Hbound e He). destruct (firstn_le_of_lt (elen e) rp r Hlt) as [E2|L2]; [rewrite <- E2; exact Hbound|].
          exact (glt_trans _ _ _ Hbound L2).
      + (* cover *)
        intros f k Hf Hk Hv. apply in_app_or in Hf. destruct Hf as [Hf|[<-|[]]]; [|right; reflexivity].
        destruct (Hcover f k Hf Hk Hv) as [[e [He Hg]]|E].
        * left. exists e. split; [apply in_or_app; right; exact He|exact Hg].
        * destruct (Nat.le_gt_cases k L) as [HkL|HkL].
          -- right. rewrite E. symmetry. replace k with (Nat.min k L) by lia. rewrite <- !firstn_firstn. rewrite Hsame. reflexivity.
          -- left. exists (rec_of o k (firstn k rp) fs). split; [|unfold rec_of; cbn [e_gram]; symmetry; exact E].
             apply in_or_app. left. apply In_emits. exists k. split; [|reflexivity].
             assert (Hvp : (k - 1 <= vlen rp)%nat) by (apply (vlen_prefix_iff k (fst f) rp E); exact Hv).
             unfold d, lvl. lia.
    - (* fullstat *)
      rewrite collapse_snoc, <- (full_flag r) by (repeat split; assumption).
      destruct (n - 1 <=? vlen r)%nat; [rewrite rev_app_distr; simpl; rewrite Hfull; reflexivity|rewrite app_nil_r; exact Hfull].
  Qed.

  (* ---- the first iteration *)
  Lemma emit_bos : emit_lower true o (mkL [BOS] 0 MAX64) = BOSe.
  Proof.
    unfold emit_lower, mark_lower, BOSe. cbn [l_gram l_count l_actual length].
    assert (E : (MAX64 <=? thr o 1)%N = false) by (apply N.leb_gt; apply Hthr). rewrite E.
    unfold has_pruned, pruned_word. cbn [existsb andb]. destruct (o_limit o); reflexivity.
  Qed.

  Lemma glt_special : forall (w x : N) t, (w <= 1)%N -> (2 <= x)%N -> glt [w] (firstn 1 (x :: t)).
  Proof. intros w x t Hw Hx. unfold glt. simpl. assert (E : (w ?= x)%N = Lt) by (apply N.compare_lt_iff; lia). rewrite E. reflexivity. Qed.

  Lemma first_inv : forall r c, wf_fulls n [(r, c)] -> SInv [(r, c)] r (step true n o init (r, c)).
  Proof.
    intros r c [_ Hw]. inversion Hw as [|? ? Hwr _]; subst. simpl in Hwr. destruct Hwr as [Hlr [Htr [Hvr Hhr]]].
    destruct r as [|x t]; [simpl in Hlr; lia|]. simpl in Hhr.
    assert (Hx : (x =? BOS)%N = false) by (apply N.eqb_neq; unfold BOS; lia).
    unfold step, init. cbn [stack trace fullstat l_gram]. simpl lcp. rewrite Hx. cbn [length Nat.sub pop_emit]. rewrite emit_bos.
    cbn [bump map]. rewrite Nat.sub_0_r.
    assert (Hnew : forall k (f : gram * N), (0 < k <= n)%nat -> In f [] -> firstn k (fst f) <> firstn k (x :: t)) by (intros k f _ []).
    pose proof (push_new_stk n Hn [] (x :: t) (x :: t) c 0 Hlr Hlr ltac:(lia) ltac:(lia) Hnew (n - 1) 0 ltac:(lia) ltac:(lia) ltac:(lia)) as Hp.
    cbn [stk app] in Hp. rewrite Hp. unfold SInv. cbn [stack trace fullstat]. split; [reflexivity|]. split.
    - split; [split|..].
      + constructor; [constructor; [constructor|constructor]|]. constructor; [|constructor]. intros _. reflexivity.
      + intros e [<-|[<-|[]]]; [right; left; reflexivity|left; reflexivity].
      + split; [right; left; reflexivity|left; reflexivity].
      + intros e [<-|[<-|[]]]; unfold BOSe, UNKe, elen; cbn [e_gram length]; apply glt_special; (exact Hhr || (unfold BOS, UNK; lia)).
      + intros f k [<-|[]] Hk Hv. right. reflexivity.
    - change [(x :: t, c)] with ([] ++ [(x :: t, c)]). rewrite collapse_snoc, <- (full_flag (x :: t)) by (repeat split; assumption).
      destruct (n - 1 <=? vlen (x :: t))%nat; reflexivity.
  Qed.

  (* ---- the whole loop *)
  Lemma fold_inv : forall rest fs0 rp cp s, wf_fulls n ((fs0 ++ [(rp, cp)]) ++ rest) -> SInv (fs0 ++ [(rp, cp)]) rp s ->
    exists fs1 rl cl, (fs0 ++ [(rp, cp)]) ++ rest = fs1 ++ [(rl, cl)] /\ SInv (fs1 ++ [(rl, cl)]) rl (fold_left (step true n o) rest s).
  Proof.
    induction rest as [|[r c] rest IH]; intros fs0 rp cp s Hwf Hinv.
    - exists fs0, rp, cp. rewrite app_nil_r. split; [reflexivity|exact Hinv].
    - simpl fold_left. replace ((fs0 ++ [(rp, cp)]) ++ (r, c) :: rest) with (((fs0 ++ [(rp, cp)]) ++ [(r, c)]) ++ rest) in *
        by (rewrite <- (app_assoc _ [(r, c)] rest); reflexivity).
      apply IH; [exact Hwf|]. apply step_inv; [|exact Hinv].
      destruct Hwf as [Hs Hall]. split.
      + clear - Hs. revert Hs. generalize ((fs0 ++ [(rp, cp)]) ++ [(r, c)]). intros l. induction l as [|h l IH]; simpl; intros H; [constructor|].
        inversion H as [|? ? Hs' Hall']; subst. constructor; [apply IH; exact Hs'|]. rewrite Forall_forall in *. intros x Hx. apply Hall'. apply in_or_app. left. exact Hx.
      + apply Forall_app in Hall. tauto.
  Qed.

  Lemma loop_inv : forall r c rest, wf_fulls n ((r, c) :: rest) ->
    exists fs1 rl cl, (r, c) :: rest = fs1 ++ [(rl, cl)] /\ SInv (fs1 ++ [(rl, cl)]) rl (fold_left (step true n o) ((r, c) :: rest) init).
  Proof.
    intros r c rest Hwf. simpl fold_left. apply (fold_inv rest [] r c).
    - exact Hwf.
    - apply first_inv. destruct Hwf as [Hs Hall]. split; [constructor; constructor|]. inversion Hall; subst. constructor; [assumption|constructor].
  Qed.
End C.
