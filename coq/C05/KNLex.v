(* C05/KNLex.v -- the suffix order `cmp`, strictly sorted duplicate-free lists, common prefixes. *)
From Coq Require Import List NArith ZArith Bool Lia Sorted Permutation.
From Kenlm Require Import C05.KNDefs.
Import ListNotations.

Lemma cmp_refl : forall a, cmp a a = Eq.
Proof. induction a as [|x a IH]; simpl; [reflexivity|]. rewrite N.compare_refl. exact IH. Qed.

Lemma cmp_eq : forall a b, cmp a b = Eq -> a = b.
Proof.
  induction a as [|x a IH]; destruct b as [|y b]; simpl; intros H; try discriminate; [reflexivity|].
  destruct (N.compare x y) eqn:E; try discriminate. apply N.compare_eq in E. subst y. f_equal. apply IH. exact H.
Qed.

Lemma cmp_antisym : forall a b, cmp b a = CompOpp (cmp a b).
Proof.
  induction a as [|x a IH]; destruct b as [|y b]; simpl; try reflexivity.
  rewrite (N.compare_antisym x y). destruct (N.compare x y); simpl; try reflexivity. apply IH.
Qed.

Lemma cmp_lt_gt : forall a b, cmp a b = Lt <-> cmp b a = Gt.
Proof. intros a b. rewrite (cmp_antisym a b). destruct (cmp a b); simpl; split; intro H; try discriminate; reflexivity. Qed.

Lemma cmp_lt_trans : forall a b c, cmp a b = Lt -> cmp b c = Lt -> cmp a c = Lt.
Proof.
  induction a as [|x a IH]; destruct b as [|y b]; destruct c as [|z c]; simpl; intros H1 H2; try discriminate; try reflexivity.
  destruct (N.compare x y) eqn:E1; try discriminate.
  - apply N.compare_eq in E1. subst y. destruct (N.compare x z) eqn:E2; try discriminate; [|reflexivity]. eapply IH; eassumption.
  - destruct (N.compare y z) eqn:E2; try discriminate.
    + apply N.compare_eq in E2. subst z. rewrite E1. reflexivity.
    + rewrite N.compare_lt_iff in E1, E2. assert (E3 : (x < z)%N) by lia. rewrite <- N.compare_lt_iff in E3. rewrite E3. reflexivity.
Qed.

Lemma cmp_irrefl : forall a, cmp a a <> Lt.
Proof. intros a. rewrite cmp_refl. discriminate. Qed.

Lemma geqb_eq : forall a b, geqb a b = true <-> a = b.
Proof.
  intros a b. unfold geqb. split.
  - destruct (cmp a b) eqn:E; try discriminate. intros _. apply cmp_eq. exact E.
  - intros ->. rewrite cmp_refl. reflexivity.
Qed.
Lemma geqb_refl : forall a, geqb a a = true.
Proof. intros a. apply geqb_eq. reflexivity. Qed.
Lemma geqb_neq : forall a b, geqb a b = false <-> a <> b.
Proof.
  intros a b. split.
  - intros H E. apply geqb_eq in E. congruence.
  - intros H. destruct (geqb a b) eqn:E; [|reflexivity]. apply geqb_eq in E. contradiction.
Qed.
Lemma geqb_sym : forall a b, geqb a b = geqb b a.
Proof.
  intros a b. destruct (geqb a b) eqn:E.
  - apply geqb_eq in E. subst. symmetry. apply geqb_refl.
  - apply geqb_neq in E. symmetry. apply geqb_neq. congruence.
Qed.

Definition glt (a b : gram) : Prop := cmp a b = Lt.
Definition gsorted (l : list gram) : Prop := StronglySorted glt l.

Lemma glt_trans : forall a b c, glt a b -> glt b c -> glt a c.
Proof. exact cmp_lt_trans. Qed.

Lemma cmp_total : forall a b, glt a b \/ a = b \/ glt b a.
Proof.
  intros a b. unfold glt. destruct (cmp a b) eqn:E.
  - right; left. apply cmp_eq. exact E.
  - left. reflexivity.
  - right; right. apply cmp_lt_gt. exact E.
Qed.

(* ---- ins / sort_uniq *)
Lemma In_ins : forall g l x, In x (ins g l) <-> x = g \/ In x l.
Proof.
  intros g l x. induction l as [|h t IH]; simpl.
  - intuition.
  - destruct (cmp g h) eqn:E; simpl.
    + apply cmp_eq in E. subst h. intuition.
    + intuition.
    + rewrite IH. intuition.
Qed.

Lemma ins_sorted : forall g l, gsorted l -> gsorted (ins g l).
Proof.
  intros g l H. induction H as [|h t Hs IH Hall]; simpl.
  - constructor; constructor.
  - destruct (cmp g h) eqn:E.
    + constructor; assumption.
    + constructor; [constructor; assumption|]. constructor; [exact E|].
      rewrite Forall_forall in *. intros x Hx. eapply glt_trans; [exact E|]. apply Hall. exact Hx.
    + constructor; [exact IH|]. rewrite Forall_forall in *. intros x Hx. apply In_ins in Hx. destruct Hx as [->|Hx].
      * apply cmp_lt_gt. exact E.
      * apply Hall. exact Hx.
Qed.

Lemma sort_uniq_sorted : forall l, gsorted (sort_uniq l).
Proof. induction l as [|x l IH]; simpl; [constructor|]. apply ins_sorted. exact IH. Qed.

Lemma In_sort_uniq : forall l x, In x (sort_uniq l) <-> In x l.
Proof.
  induction l as [|h t IH]; intros x; simpl; [tauto|]. rewrite In_ins, IH. intuition.
Qed.

Lemma gsorted_NoDup : forall l, gsorted l -> NoDup l.
Proof.
  intros l H. induction H as [|h t Hs IH Hall]; constructor; [|exact IH].
  intro Hin. rewrite Forall_forall in Hall. apply Hall in Hin. exact (cmp_irrefl _ Hin).
Qed.

(* two strictly sorted lists with the same elements are equal *)
Lemma gsorted_ext : forall l1 l2, gsorted l1 -> gsorted l2 -> (forall x, In x l1 <-> In x l2) -> l1 = l2.
Proof.
  intros l1 l2 H1. revert l2. induction H1 as [|h1 t1 Hs1 IH Hall1]; intros l2 H2 Hext.
  - destruct l2 as [|h2 t2]; [reflexivity|]. exfalso. apply (Hext h2). left. reflexivity.
  - destruct H2 as [|h2 t2 Hs2 Hall2].
    + exfalso. apply (Hext h1). left. reflexivity.
    + rewrite Forall_forall in Hall1, Hall2.
      assert (Eh : h1 = h2).
      { destruct (proj1 (Hext h1) (or_introl eq_refl)) as [E|Hin]; [congruence|].
        destruct (proj2 (Hext h2) (or_introl eq_refl)) as [E|Hin2]; [exact E|].
        exfalso. apply (cmp_irrefl h1). eapply glt_trans; [apply Hall1; exact Hin2|apply Hall2; exact Hin]. }
      subst h2. f_equal. apply IH; [exact Hs2|].
      intros x. split; intros Hx.
      * destruct (proj1 (Hext x) (or_intror Hx)) as [E|Hin]; [|exact Hin]. subst x. exfalso. exact (cmp_irrefl _ (Hall1 _ Hx)).
      * destruct (proj2 (Hext x) (or_intror Hx)) as [E|Hin]; [|exact Hin]. subst x. exfalso. exact (cmp_irrefl _ (Hall2 _ Hx)).
Qed.

Lemma sort_uniq_ext : forall l1 l2, (forall x, In x l1 <-> In x l2) -> sort_uniq l1 = sort_uniq l2.
Proof.
  intros l1 l2 H. apply gsorted_ext; try apply sort_uniq_sorted. intros x. rewrite !In_sort_uniq. apply H.
Qed.

Lemma sort_uniq_id : forall l, gsorted l -> sort_uniq l = l.
Proof. intros l H. apply gsorted_ext; [apply sort_uniq_sorted|exact H|]. intros x. apply In_sort_uniq. Qed.

Lemma gsorted_filter : forall f l, gsorted l -> gsorted (filter f l).
Proof.
  intros f l H. induction H as [|h t Hs IH Hall]; simpl; [constructor|].
  destruct (f h); [|exact IH]. constructor; [exact IH|]. rewrite Forall_forall in *. intros x Hx. apply filter_In in Hx. apply Hall. tauto.
Qed.

Lemma gsorted_app : forall l1 l2, gsorted l1 -> gsorted l2 -> (forall a b, In a l1 -> In b l2 -> glt a b) -> gsorted (l1 ++ l2).
Proof.
  intros l1 l2 H1 H2 H. induction H1 as [|h t Hs IH Hall]; simpl; [exact H2|].
  constructor.
  - apply IH. intros a b Ha Hb. apply H; [right; exact Ha|exact Hb].
  - rewrite Forall_forall in *. intros x Hx. apply in_app_or in Hx. destruct Hx as [Hx|Hx]; [apply Hall; exact Hx|].
    apply H; [left; reflexivity|exact Hx].
Qed.

Lemma gsorted_snoc : forall l x, gsorted l -> (forall a, In a l -> glt a x) -> gsorted (l ++ [x]).
Proof.
  intros l x Hl H. apply gsorted_app; [exact Hl|constructor; constructor|].
  intros a b Ha [<-|[]]. apply H. exact Ha.
Qed.

(* ---- prefixes: firstn is monotone for cmp *)
Lemma cmp_firstn_mono : forall k a b, cmp a b = Lt -> cmp (firstn k a) (firstn k b) <> Gt.
Proof.
  induction k as [|k IH]; intros a b H; simpl; [discriminate|].
  destruct a as [|x a]; destruct b as [|y b]; simpl in *; try discriminate.
  destruct (N.compare x y) eqn:E; try discriminate. apply IH. exact H.
Qed.

Lemma firstn_le_of_lt : forall k a b, glt a b -> firstn k a = firstn k b \/ glt (firstn k a) (firstn k b).
Proof.
  intros k a b H. pose proof (cmp_firstn_mono k a b H) as Hn. unfold glt.
  destruct (cmp (firstn k a) (firstn k b)) eqn:E; [left; apply cmp_eq; exact E|right; reflexivity|congruence].
Qed.

(* sandwich: if a < b < c and a, c share their first k words then so does b *)
Lemma firstn_sandwich : forall k a b c, glt a b -> glt b c -> firstn k a = firstn k c -> firstn k b = firstn k a.
Proof.
  intros k a b c Hab Hbc Hac.
  destruct (firstn_le_of_lt k a b Hab) as [E|L1]; [symmetry; exact E|].
  destruct (firstn_le_of_lt k b c Hbc) as [E|L2].
  - exfalso. rewrite E, <- Hac in L1. exact (cmp_irrefl _ L1).
  - exfalso. rewrite <- Hac in L2. exact (cmp_irrefl _ (glt_trans _ _ _ L1 L2)).
Qed.

(* ---- longest common prefix *)
Lemma lcp_firstn : forall k a b, (k <= lcp a b)%nat -> firstn k a = firstn k b.
Proof.
  induction k as [|k IH]; intros a b H; [reflexivity|].
  destruct a as [|x a]; destruct b as [|y b]; simpl in *; try lia.
  destruct (N.eqb_spec x y) as [->|]; [|lia]. f_equal. apply IH. lia.
Qed.

Lemma lcp_le_l : forall a b, (lcp a b <= length a)%nat.
Proof. induction a as [|x a IH]; destruct b as [|y b]; simpl; try lia. destruct (x =? y)%N; [specialize (IH b)|]; lia. Qed.
Lemma lcp_le_r : forall a b, (lcp a b <= length b)%nat.
Proof. induction a as [|x a IH]; destruct b as [|y b]; simpl; try lia. destruct (x =? y)%N; [specialize (IH b)|]; lia. Qed.

Lemma firstn_lcp : forall k a b, (k <= length a)%nat -> (k <= length b)%nat -> firstn k a = firstn k b -> (k <= lcp a b)%nat.
Proof.
  induction k as [|k IH]; intros a b Ha Hb H; [lia|].
  destruct a as [|x a]; destruct b as [|y b]; simpl in *; try lia.
  injection H as -> H. rewrite N.eqb_refl. apply le_n_S. apply IH; [lia|lia|exact H].
Qed.

(* the element just after the common prefix differs *)
Lemma lcp_nth_neq : forall a b d, (lcp a b < length a)%nat -> (lcp a b < length b)%nat -> nth (lcp a b) a d <> nth (lcp a b) b d.
Proof.
  induction a as [|x a IH]; destruct b as [|y b]; simpl; intros d Ha Hb; try lia.
  destruct (N.eqb_spec x y) as [->|N]; [|exact N]. apply IH; lia.
Qed.

Lemma firstn_S_neq_lcp : forall a b, (lcp a b < length a)%nat -> (lcp a b < length b)%nat ->
  firstn (S (lcp a b)) a <> firstn (S (lcp a b)) b.
Proof.
  intros a b Ha Hb E. pose proof (firstn_lcp (S (lcp a b)) a b ltac:(lia) ltac:(lia) E) as H. lia.
Qed.

Lemma nth_firstn_lt : forall {A} k (l : list A) i d, (i < k)%nat -> nth i (firstn k l) d = nth i l d.
Proof.
  induction k as [|k IH]; intros l i d H; [lia|]. destruct l as [|x t]; simpl; [destruct i; reflexivity|].
  destruct i; [reflexivity|]. apply IH. lia.
Qed.
