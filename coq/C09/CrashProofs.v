(* C09 -- lemmas: the header is written last, every crash image is rejected or agrees with the final image,
   truncation.  See Properties_C09.v for the statements claimed. *)
From Coq Require Import List Arith Bool Lia.
From Kenlm Require Import Gen.BinaryFormatConsts C15.IoModel C15.IoProofs C09.CrashModel.
Import ListNotations.

Ltac inv H := inversion H; subst; clear H.
(* H : (if c then None else X) = Some v  -->  E : c = false, H : X = Some v *)
Ltac peel H :=
  match type of H with
  | (if ?c then None else ?X) = Some ?v => destruct c eqn:E; [discriminate H|change (X = Some v) in H]
  end.
Ltac branch H :=
  match type of H with
  | (if ?c then ?A else ?B) = Some ?v => destruct c; [change (A = Some v) in H|change (B = Some v) in H]
  end.

(* ------------------------------------------------------------------------------------------ *)
(* lists *)
Lemma list_eqb_eq : forall a b, list_eqb a b = true -> a = b.
Proof.
  induction a as [|x a IH]; destruct b as [|y b]; simpl; intro H; try discriminate; [reflexivity|].
  apply andb_true_iff in H. destruct H as [H1 H2]. apply Nat.eqb_eq in H1. subst. f_equal. apply IH. exact H2.
Qed.

Lemma nth_resize : forall (l : list byte) n i, nth i (resize zero l n) 0 = if i <? n then nth i l 0 else 0.
Proof.
  intros l n i. unfold resize. destruct (i <? n) eqn:E.
  - apply Nat.ltb_lt in E. rewrite nth_firstn_lt by exact E.
    destruct (Nat.lt_ge_cases i (length l)).
    + rewrite app_nth1 by lia. reflexivity.
    + rewrite app_nth2 by lia. rewrite nth_repeat. rewrite nth_overflow by lia. reflexivity.
  - apply Nat.ltb_ge in E. apply nth_overflow. rewrite firstn_length. lia.
Qed.

Lemma resize_length : forall (l : list byte) n, length (resize zero l n) = n.
Proof. intros. unfold resize. rewrite firstn_length, app_length, repeat_length. lia. Qed.

Lemma nth_pad : forall (l : list byte) n i, nth i (pad l n) 0 = nth i l 0.
Proof.
  intros l n i. unfold pad. destruct (Nat.lt_ge_cases i (length l)).
  - rewrite app_nth1 by lia. reflexivity.
  - rewrite app_nth2 by lia. rewrite nth_repeat. rewrite nth_overflow by lia. reflexivity.
Qed.

Lemma pad_length : forall (l : list byte) n, length l <= n -> length (pad l n) = n.
Proof. intros. unfold pad. rewrite app_length, repeat_length. lia. Qed.

(* ------------------------------------------------------------------------------------------ *)
(* page mixtures *)
Lemma mix_from_length : forall d c i sel, length d = length c -> length (mix_from i sel d c) = length d.
Proof.
  induction d as [|x d IH]; destruct c as [|y c]; simpl; intros i sel H; try discriminate; [reflexivity|].
  f_equal. apply IH. lia.
Qed.

Lemma mix_from_nth : forall d c i sel k, length d = length c ->
  nth k (mix_from i sel d c) 0 = if sel ((i + k) / page) then nth k c 0 else nth k d 0.
Proof.
  induction d as [|x d IH]; destruct c as [|y c]; simpl; intros i sel k H; try discriminate.
  - destruct k; destruct (sel _); reflexivity.
  - destruct k as [|k].
    + rewrite Nat.add_0_r. reflexivity.
    + rewrite IH by lia. replace (S i + k) with (i + S k) by lia. reflexivity.
Qed.

Lemma mix_length : forall sel d c, length d = length c -> length (mix sel d c) = length d.
Proof. intros. apply mix_from_length. assumption. Qed.

Lemma mix_nth : forall sel d c k, length d = length c ->
  nth k (mix sel d c) 0 = if sel (k / page) then nth k c 0 else nth k d 0.
Proof. intros. unfold mix. rewrite mix_from_nth by assumption. reflexivity. Qed.

Lemma mix_same : forall sel c, mix sel c c = c.
Proof.
  intros sel c. apply (nth_ext _ _ 0 0).
  - apply mix_length. reflexivity.
  - intros n _. rewrite mix_nth by reflexivity. destruct (sel _); reflexivity.
Qed.

Lemma page_pos : 0 < page. Proof. unfold page. lia. Qed.

(* pages beyond the first agree, the first comes from c: the mixture is c *)
Lemma mix_first_page : forall sel d c h, length d = length c -> h <= page ->
  (forall i, h <= i -> nth i d 0 = nth i c 0) -> sel 0 = true -> mix sel d c = c.
Proof.
  intros sel d c h Hl Hh Hag Hs. apply (nth_ext _ _ 0 0).
  - rewrite mix_length; assumption.
  - intros n _. rewrite mix_nth by assumption.
    destruct (Nat.lt_ge_cases n page) as [Hn|Hn].
    + rewrite Nat.div_small by exact Hn. rewrite Hs. reflexivity.
    + destruct (sel (n / page)); [reflexivity|]. apply Hag. lia.
Qed.

(* ------------------------------------------------------------------------------------------ *)
(* files *)
Definition len_inv (st : file) : Prop := length (durable st) = length (cache st).

Lemma step_len_inv : forall st op, len_inv st -> len_inv (step st op).
Proof.
  intros st op H. unfold len_inv in *. destruct op; simpl; auto.
  - rewrite !resize_length. reflexivity.
  - rewrite pad_length; [reflexivity|]. rewrite overwrite_length. lia.
  - rewrite pad_length; [reflexivity|]. rewrite overwrite_length. lia.
  - rewrite mix_length by exact H. exact H.
Qed.

Lemma run_app : forall st a b, run st (a ++ b) = run (run st a) b.
Proof. intros. unfold run. apply fold_left_app. Qed.

Lemma run_len_inv : forall tr st, len_inv st -> len_inv (run st tr).
Proof. induction tr as [|op tr IH]; intros st H; [exact H|]. simpl. apply IH. apply step_len_inv. exact H. Qed.

(* ------------------------------------------------------------------------------------------ *)
(* the byte that tells the reference header from everything written before it:
   index 34 holds 'f' ("format version") in the reference and 'i' ("incomplete") in kMagicIncomplete *)
Definition dix : nat := 34.
Definition bad : byte := nth dix ref_sanity 0.

Lemma dix_lt_sanity : dix < sanity_size. Proof. vm_compute. lia. Qed.
Lemma bad_nonzero : bad <> 0. Proof. vm_compute. lia. Qed.
Lemma incomplete_differs : nth dix magic_incomplete 0 <> bad. Proof. vm_compute. lia. Qed.
Lemma dix_lt_magic : dix < length magic_incomplete. Proof. vm_compute. lia. Qed.

Definition no_header (st : file) : Prop := nth dix (durable st) 0 <> bad /\ nth dix (cache st) 0 <> bad.

Definition safe_op (op : sysop) : Prop :=
  match op with
  | MapStore off bs | Write off bs => dix < off \/ off + length bs <= dix \/ nth (dix - off) bs 0 <> bad
  | _ => True
  end.

Lemma overwrite_keeps_no_header : forall (f : list byte) off bs,
  nth dix f 0 <> bad -> (dix < off \/ off + length bs <= dix \/ nth (dix - off) bs 0 <> bad) ->
  nth dix (overwrite zero f off bs) 0 <> bad.
Proof.
  intros f off bs Hf Hs. change 0 with zero. rewrite overwrite_nth. unfold zero.
  destruct (dix <? off) eqn:E1; [exact Hf|]. apply Nat.ltb_ge in E1.
  match goal with |- context [if ?c then _ else _] => destruct c eqn:E2 end; [|exact Hf]. apply Nat.ltb_lt in E2.
  destruct Hs as [H|[H|H]]; [lia|unfold byte in *; lia|exact H].
Qed.

Lemma step_no_header : forall st op, len_inv st -> no_header st -> safe_op op -> no_header (step st op).
Proof.
  intros st op Hl [Hd Hc] Hs. unfold no_header. destruct op; simpl in *; auto.
  - split; destruct dix; simpl; apply not_eq_sym; apply bad_nonzero.
  - rewrite !nth_resize. destruct (dix <? n); auto. split; apply not_eq_sym; apply bad_nonzero.
  - rewrite nth_pad. split; [exact Hd|]. apply overwrite_keeps_no_header; assumption.
  - rewrite nth_pad. split; [exact Hd|]. apply overwrite_keeps_no_header; assumption.
  - split; [|exact Hc]. rewrite mix_nth by exact Hl. destruct (_ <? _); assumption.
Qed.

Lemma empty_no_header : no_header empty_file.
Proof. unfold no_header, empty_file. simpl. destruct dix; simpl; split; apply not_eq_sym; apply bad_nonzero. Qed.

(* every prefix of a sequence of safe operations leaves a file without the reference header *)
Lemma run_prefix_no_header : forall ops st, Forall safe_op ops -> len_inv st -> no_header st ->
  forall t1 t2, ops = t1 ++ t2 -> no_header (run st t1) /\ len_inv (run st t1).
Proof.
  induction ops as [|op ops IH]; intros st Hs Hl Hn t1 t2 E.
  - destruct t1; [|discriminate]. simpl. auto.
  - destruct t1 as [|x t1]; [simpl; auto|]. inv E. inv Hs. simpl.
    eapply IH; eauto using step_len_inv, step_no_header.
Qed.

(* ------------------------------------------------------------------------------------------ *)
(* the loader *)
Section Loader.
  Variable pm_ok : list byte -> bool.
  Variable body_size : loader_cfg -> list byte -> nat.
  Variable words_ok : list byte -> list byte -> bool.
  Notation load := (load pm_ok body_size words_ok).

  (* everything a successful load tells about the image *)
  Lemma load_some_inv : forall cfg img v, load cfg img = Some v ->
    sanity_size < length img /\ firstn sanity_size img = ref_sanity /\
    exists total, total <= length img /\ fst v = firstn total img /\
                  (snd v = None \/ snd v = Some (skipn total img)).
  Proof.
    intros cfg img v H. unfold CrashModel.load in H.
    peel H. rename E into E0. apply Nat.leb_gt in E0.
    peel H. rename E into E1. apply negb_false_iff in E1. apply list_eqb_eq in E1.
    split; [exact E0|]. split; [exact E1|].
    do 7 (cbv zeta in H; peel H; clear E). cbv zeta in H.
    match type of H with
    | (if length img <? ?t then None else _) = Some _ => set (total := t) in *
    end.
    peel H. apply Nat.ltb_ge in E.
    exists total. split; [exact E|].
    repeat branch H; try discriminate H; inv H; simpl; auto.
  Qed.

  Definition reads_agree (F : list byte) (v : list byte * option (list byte)) : Prop :=
    fst v = firstn (length (fst v)) F /\
    match snd v with None => True | Some x => exists rest, skipn (length (fst v)) F = x ++ rest end.

  Lemma skipn_firstn : forall (l : list byte) m n, skipn m (firstn n l) = firstn (n - m) (skipn m l).
  Proof.
    intros l m. revert l. induction m as [|m IH]; intros l n.
    - rewrite Nat.sub_0_r. reflexivity.
    - destruct n as [|n]; [destruct l; reflexivity|]. destruct l as [|x l]; [simpl; destruct (n - m); reflexivity|].
      simpl. apply IH.
  Qed.

  (* a strict prefix of an image either fails to load, or everything the loader read from it is what the
     whole image holds at the same place, and nothing below `total` is missing *)
  Lemma load_truncated : forall cfg F L v, load cfg (firstn L F) = Some v ->
    reads_agree F v /\ length (fst v) <= L.
  Proof.
    intros cfg F L v H. destruct (load_some_inv _ _ _ H) as (_ & _ & total & Ht & Hv & Hw).
    rewrite firstn_length in Ht.
    assert (Hb : fst v = firstn total F).
    { rewrite Hv, firstn_firstn. f_equal. lia. }
    assert (Hl : length (fst v) = total) by (rewrite Hb, firstn_length; lia).
    split; [|lia]. unfold reads_agree. rewrite Hl. split; [exact Hb|].
    destruct Hw as [-> | ->]; [exact I|].
    exists (skipn (L - total) (skipn total F)). rewrite skipn_firstn. symmetry. apply firstn_skipn.
  Qed.

  Lemma load_full : forall cfg F v, load cfg F = Some v -> reads_agree F v.
  Proof.
    intros cfg F v H. rewrite <- (firstn_all F) in H at 1. apply load_truncated in H. tauto.
  Qed.

  (* an image that lacks the reference header byte is rejected *)
  Lemma load_needs_header : forall cfg img, nth dix img 0 <> bad -> load cfg img = None.
  Proof.
    intros cfg img Hn. destruct (load cfg img) as [v|] eqn:E; [|reflexivity]. exfalso.
    destruct (load_some_inv _ _ _ E) as (Hl & Hh & _). apply Hn. unfold bad. rewrite <- Hh.
    rewrite nth_firstn_lt by apply dix_lt_sanity. reflexivity.
  Qed.

  Lemma crash_no_header : forall st sel L cfg, len_inv st -> no_header st ->
    load cfg (crash_image st sel L) = None.
  Proof.
    intros st sel L cfg Hl [Hd Hc]. apply load_needs_header. unfold crash_image.
    destruct (Nat.lt_ge_cases dix L) as [Hlt|Hge].
    - rewrite nth_firstn_lt by exact Hlt. rewrite mix_nth by exact Hl. destruct (sel _); assumption.
    - rewrite nth_overflow; [apply not_eq_sym; apply bad_nonzero|]. rewrite firstn_length. lia.
  Qed.

  (* -------------------------------------------------------------------------------------- *)
  (* after the header has been stored *)
  Definition quiet_op (op : sysop) : Prop :=
    match op with Msync _ | Fsync | SyncFail | Mmap _ | Munmap _ | Close => True | _ => False end.

  (* the page cache holds the final image F; stable storage agrees with it from offset h on, and its first
     page either still lacks the header byte or is final as well *)
  Definition header_phase (h : nat) (F : list byte) (st : file) : Prop :=
    cache st = F /\ length (durable st) = length F /\
    (forall i, h <= i -> nth i (durable st) 0 = nth i F 0) /\
    (nth dix (durable st) 0 <> bad \/ durable st = F).

  Lemma step_header_phase : forall h F st op, h <= page -> quiet_op op ->
    header_phase h F st -> header_phase h F (step st op).
  Proof.
    intros h F st op Hh Hq (Hc & Hl & Hag & Hp). destruct op; simpl in Hq; try contradiction; try (repeat split; assumption).
    - (* Msync *) unfold header_phase. simpl. rewrite Hc in *.
      assert (Hlen : length (durable st) = length F) by exact Hl.
      split; [reflexivity|]. split; [rewrite mix_length; assumption|].
      split.
      + intros i Hi. rewrite mix_nth by assumption. destruct (_ <? _); [reflexivity|apply Hag; exact Hi].
      + destruct Hp as [Hp|Hp].
        * destruct (0 <? pages_covering len) eqn:E.
          -- right. eapply mix_first_page; eauto.
          -- left. rewrite mix_nth by assumption.
             replace (dix / page) with 0 by (symmetry; apply Nat.div_small; vm_compute; lia).
             rewrite E. exact Hp.
        * right. rewrite Hp. apply mix_same.
    - (* Fsync *) unfold header_phase. simpl. rewrite Hc. repeat split; auto.
  Qed.

  Lemma run_header_phase : forall h F ops st, h <= page -> Forall quiet_op ops ->
    header_phase h F st -> forall t1 t2, ops = t1 ++ t2 -> header_phase h F (run st t1).
  Proof.
    induction ops as [|op ops IH]; intros st Hh Hq Hp t1 t2 E.
    - destruct t1; [|discriminate]. exact Hp.
    - destruct t1 as [|x t1]; [exact Hp|]. inv E. inv Hq. simpl. eapply IH; eauto using step_header_phase.
  Qed.

  Lemma crash_header_phase : forall h F st sel L cfg v, h <= page -> header_phase h F st ->
    load cfg (crash_image st sel L) = Some v -> reads_agree F v /\ length (fst v) <= L.
  Proof.
    intros h F st sel L cfg v Hh (Hc & Hl & Hag & Hp) H. unfold crash_image in H. rewrite Hc in H.
    assert (Hmix : mix sel (durable st) F = F \/ nth dix (mix sel (durable st) F) 0 <> bad).
    { destruct Hp as [Hp|Hp].
      - destruct (sel 0) eqn:E.
        + left. eapply mix_first_page; eauto.
        + right. rewrite mix_nth by assumption.
          replace (dix / page) with 0 by (symmetry; apply Nat.div_small; vm_compute; lia). rewrite E. exact Hp.
      - left. rewrite Hp. apply mix_same. }
    destruct Hmix as [Hm|Hm].
    - rewrite Hm in H. apply load_truncated in H. exact H.
    - exfalso. rewrite load_needs_header in H; [discriminate|].
      destruct (Nat.lt_ge_cases dix L) as [Hlt|Hge].
      + rewrite nth_firstn_lt by exact Hlt. exact Hm.
      + rewrite nth_overflow; [apply not_eq_sym; apply bad_nonzero|]. rewrite firstn_length. lia.
  Qed.

  (* the state right after the header is stored over a fully synced, header-less file *)
  Lemma header_store_phase : forall st off_bs_is_header hdr,
    off_bs_is_header = MapStore 0 hdr \/ off_bs_is_header = Write 0 hdr ->
    len_inv st -> no_header st -> durable st = cache st ->
    header_phase (length hdr) (cache (step st off_bs_is_header)) (step st off_bs_is_header).
  Proof.
    intros st op hdr Hop Hl [Hd Hc] Hsync.
    assert (E : step st op = {| durable := pad (durable st) (length (overwrite zero (cache st) 0 hdr));
                                cache := overwrite zero (cache st) 0 hdr |}) by (destruct Hop; subst; reflexivity).
    rewrite E. unfold header_phase. simpl.
    split; [reflexivity|]. split; [apply pad_length; rewrite overwrite_length, Hsync; lia|].
    split.
    - intros i Hi. rewrite nth_pad, Hsync. change 0 with zero at 2. rewrite overwrite_nth. unfold zero.
      replace (i <? 0) with false by (symmetry; apply Nat.ltb_ge; lia).
      replace (i <? 0 + length hdr) with false by (symmetry; apply Nat.ltb_ge; lia). reflexivity.
    - left. rewrite nth_pad. exact Hd.
  Qed.
End Loader.

(* ------------------------------------------------------------------------------------------ *)
(* the concrete trace *)
Definition wf_contents (c : contents) : Prop :=
  sanity_size <= c_H c /\ c_H c <= page /\ length (c_header c) = c_H c /\
  length (c_vocab2 c) = length (c_vocab1 c) /\ length (c_search2 c) = length (c_search1 c).

Lemma incomplete_header_length : forall H, length (incomplete_header H) = H.
Proof. intro H. unfold incomplete_header. rewrite firstn_length, app_length, repeat_length. lia. Qed.

Lemma incomplete_header_safe : forall H, nth dix (incomplete_header H) 0 <> bad.
Proof.
  intro H. unfold incomplete_header. destruct (Nat.lt_ge_cases dix H) as [Hlt|Hge].
  - rewrite nth_firstn_lt by exact Hlt. rewrite app_nth1 by apply dix_lt_magic. apply incomplete_differs.
  - rewrite nth_overflow; [apply not_eq_sym; apply bad_nonzero|]. rewrite firstn_length. lia.
Qed.

Lemma body_safe : forall fixed wm iv c, sanity_size <= c_H c ->
  Forall safe_op (body_trace wm iv c ++ sync_trace fixed wm).
Proof.
  intros fixed wm iv c HH. pose proof dix_lt_sanity as Hd.
  assert (S0 : forall bs, safe_op (MapStore 0 (incomplete_header (c_H c))) /\ safe_op (Write 0 (incomplete_header (c_H c) ++ bs))).
  { intro bs. split; unfold safe_op; right; right; rewrite Nat.sub_0_r.
    - apply incomplete_header_safe.
    - rewrite app_nth1 by (rewrite incomplete_header_length; lia). apply incomplete_header_safe. }
  assert (S1 : forall off bs, c_H c <= off -> safe_op (MapStore off bs) /\ safe_op (Write off bs)).
  { intros off bs Ho. split; unfold safe_op; left; lia. }
  assert (Hd' : dix < c_H c) by lia.
  unfold body_trace, sync_trace.
  destruct wm, iv, fixed; cbv beta iota zeta;
    repeat first [apply Forall_nil | apply Forall_cons | (apply Forall_app; split)];
    match goal with
    | |- safe_op (MapStore 0 (incomplete_header _)) => apply (S0 [])
    | |- safe_op (Write 0 (incomplete_header _ ++ _)) => apply S0
    | |- safe_op (MapStore _ _) => unfold safe_op; left; lia
    | |- safe_op (Write _ _) => unfold safe_op; left; lia
    | |- safe_op _ => exact I
    end.
Qed.

Lemma tail_quiet : forall wm c, Forall quiet_op (tail_trace wm c).
Proof. intros [] c; simpl; repeat constructor. Qed.

Lemma quiet_cache : forall ops st, Forall quiet_op ops -> cache (run st ops) = cache st.
Proof.
  induction ops as [|op ops IH]; intros st H; [reflexivity|]. inv H. simpl. rewrite IH by assumption.
  destruct op; simpl in *; try contradiction; reflexivity.
Qed.

(* the final image *)
Definition final_image (wm : write_method) (iv : bool) (c : contents) : list byte :=
  cache (run empty_file (finish_trace wm iv c)).

Lemma prefix_split : forall (A T t1 t2 : list sysop) h, t1 ++ t2 = A ++ h :: T ->
  (exists r, A = t1 ++ r) \/ (exists t', t1 = A ++ h :: t' /\ exists r, T = t' ++ r).
Proof.
  intros A T t1 t2 h E. apply app_eq_app in E. destruct E as [l [[E1 E2]|[E1 E2]]].
  - destruct l as [|x l].
    + left. exists []. rewrite app_nil_r in E1. rewrite app_nil_r. symmetry. exact E1.
    + simpl in E2. inv E2. right. exists l. split; [reflexivity|]. exists t2. reflexivity.
  - left. exists l. exact E1.
Qed.

Section Main.
  Variable pm_ok : list byte -> bool.
  Variable body_size : loader_cfg -> list byte -> nat.
  Variable words_ok : list byte -> list byte -> bool.
  Notation load := (load pm_ok body_size words_ok).

  (* state after the body and the sync: fully durable, no header; then the header phase *)
  Lemma after_sync : forall wm iv c, wf_contents c ->
    let st := run empty_file (body_trace wm iv c ++ sync_trace true wm) in
    len_inv st /\ no_header st /\ durable st = cache st.
  Proof.
    intros wm iv c (H1 & _) st.
    destruct (run_prefix_no_header _ empty_file (body_safe true wm iv c H1) eq_refl empty_no_header
                (body_trace wm iv c ++ sync_trace true wm) [] (eq_sym (app_nil_r _))) as [Hn Hl].
    split; [exact Hl|]. split; [exact Hn|].
    subst st. rewrite run_app. destruct wm; simpl; reflexivity.
  Qed.

  Lemma trace_phases : forall wm iv c t1 t2, wf_contents c -> finish_trace wm iv c = t1 ++ t2 ->
    (len_inv (run empty_file t1) /\ no_header (run empty_file t1)) \/
    header_phase (c_H c) (final_image wm iv c) (run empty_file t1).
  Proof.
    intros wm iv c t1 t2 Hwf E. pose proof Hwf as (H1 & H2 & H3 & _).
    unfold finish_trace, finish_trace_gen in E. rewrite app_assoc in E. simpl in E. symmetry in E.
    destruct (prefix_split _ _ _ _ _ E) as [[r Hr]|[t' [Ht [r Hr]]]].
    - left. destruct (run_prefix_no_header _ empty_file (body_safe true wm iv c H1) eq_refl empty_no_header t1 r Hr). tauto.
    - right. subst t1. rewrite run_app. simpl.
      destruct (after_sync wm iv c Hwf) as (Hl & Hn & Hs).
      set (S1 := run empty_file (body_trace wm iv c ++ sync_trace true wm)) in *.
      assert (Hph : header_phase (c_H c) (cache (step S1 (header_op wm c))) (step S1 (header_op wm c))).
      { rewrite <- H3. apply (header_store_phase S1 (header_op wm c) (c_header c)); auto.
        destruct wm; simpl; auto. }
      assert (Hfin : final_image wm iv c = cache (step S1 (header_op wm c))).
      { unfold final_image, finish_trace, finish_trace_gen. rewrite app_assoc, run_app. simpl.
        fold S1. apply quiet_cache. apply tail_quiet. }
      rewrite Hfin.
      eapply run_header_phase; eauto using tail_quiet.
  Qed.

  (* C09_crash_old_or_new *)
  Lemma crash_old_or_new : forall wm iv c t1 t2 sel L cfg v, wf_contents c ->
    finish_trace wm iv c = t1 ++ t2 ->
    load cfg (crash_image (run empty_file t1) sel L) = Some v ->
    reads_agree (final_image wm iv c) v /\ length (fst v) <= L.
  Proof.
    intros wm iv c t1 t2 sel L cfg v Hwf E H.
    destruct (trace_phases wm iv c t1 t2 Hwf E) as [[Hl Hn]|Hp].
    - rewrite crash_no_header in H by assumption. discriminate.
    - destruct Hwf as (_ & H2 & _). eapply crash_header_phase; eauto.
  Qed.

  (* C09_header_last *)
  Lemma header_last : forall wm iv c t1 t2, wf_contents c -> finish_trace wm iv c = t1 ++ t2 ->
    firstn sanity_size (cache (run empty_file t1)) = ref_sanity ->
    length (durable (run empty_file t1)) = length (final_image wm iv c) /\
    forall i, c_H c <= i -> nth i (durable (run empty_file t1)) 0 = nth i (final_image wm iv c) 0.
  Proof.
    intros wm iv c t1 t2 Hwf E Hh.
    destruct (trace_phases wm iv c t1 t2 Hwf E) as [[Hl [_ Hn]]|(Hc & Hlen & Hag & _)].
    - exfalso. apply Hn. unfold bad. rewrite <- Hh. rewrite nth_firstn_lt by apply dix_lt_sanity. reflexivity.
    - split; assumption.
  Qed.

  Lemma truncation : forall cfg F L v, load cfg (firstn L F) = Some v -> reads_agree F v /\ length (fst v) <= L.
  Proof. exact (load_truncated pm_ok body_size words_ok). Qed.
End Main.

(* ------------------------------------------------------------------------------------------ *)
(* a writer that never stores the header -- in particular one stopped by a failed sync -- leaves nothing that loads *)
Section NoHeader.
  Variable pm_ok : list byte -> bool.
  Variable body_size : loader_cfg -> list byte -> nat.
  Variable words_ok : list byte -> list byte -> bool.
  Notation load := (load pm_ok body_size words_ok).

  Lemma never_loads : forall ops t1 t2 sel L cfg, Forall safe_op ops -> ops = t1 ++ t2 ->
    load cfg (crash_image (run empty_file t1) sel L) = None.
  Proof.
    intros ops t1 t2 sel L cfg Hs E.
    destruct (run_prefix_no_header ops empty_file Hs eq_refl empty_no_header t1 t2 E) as [Hn Hl].
    apply crash_no_header; assumption.
  Qed.

  Lemma failed_sync_safe : forall wm iv c, sanity_size <= c_H c -> Forall safe_op (failed_sync_trace wm iv c).
  Proof.
    intros wm iv c HH. unfold failed_sync_trace.
    pose proof (body_safe false wm iv c HH) as Hb. apply Forall_app in Hb. destruct Hb as [Hb _].
    apply Forall_app. split; [exact Hb|]. destruct wm; repeat constructor.
  Qed.

  Lemma failed_sync_never_loads : forall wm iv c t1 t2 sel L cfg, wf_contents c ->
    failed_sync_trace wm iv c = t1 ++ t2 -> load cfg (crash_image (run empty_file t1) sel L) = None.
  Proof.
    intros wm iv c t1 t2 sel L cfg (H1 & _) E. eapply never_loads; [apply failed_sync_safe; exact H1|exact E].
  Qed.
End NoHeader.

(* ------------------------------------------------------------------------------------------ *)
(* The same for ANY writer of this shape: an arbitrary sequence of operations that never put the reference
   header's distinguishing byte in place (stores through the mapping in any order and any chunking, writes
   split at any point -- so also a process killed inside a write --, truncations, syncs), then fsync, then
   ONE store of the header within the first page, then only syncs / unmaps / close. *)
Section General.
  Variable pm_ok : list byte -> bool.
  Variable body_size : loader_cfg -> list byte -> nat.
  Variable words_ok : list byte -> list byte -> bool.
  Notation load := (load pm_ok body_size words_ok).

  Lemma general_phases : forall A T hop hdr t1 t2,
    Forall safe_op A -> Forall quiet_op T -> hop = MapStore 0 hdr \/ hop = Write 0 hdr -> length hdr <= page ->
    A ++ Fsync :: hop :: T = t1 ++ t2 ->
    (len_inv (run empty_file t1) /\ no_header (run empty_file t1)) \/
    header_phase (length hdr) (cache (run empty_file (A ++ [Fsync; hop]))) (run empty_file t1).
  Proof.
    intros A T hop hdr t1 t2 HA HT Hop Hlen E.
    assert (HA' : Forall safe_op (A ++ [Fsync])) by (apply Forall_app; split; [exact HA|repeat constructor]).
    replace (A ++ Fsync :: hop :: T) with ((A ++ [Fsync]) ++ hop :: T) in E by (rewrite <- app_assoc; reflexivity).
    symmetry in E. destruct (prefix_split _ _ _ _ _ E) as [[r Hr]|[t' [Ht [r Hr]]]].
    - left. destruct (run_prefix_no_header _ empty_file HA' eq_refl empty_no_header t1 r Hr). tauto.
    - right. subst t1.
      destruct (run_prefix_no_header _ empty_file HA' eq_refl empty_no_header (A ++ [Fsync]) [] (eq_sym (app_nil_r _))) as [Hn Hl].
      assert (Hs : durable (run empty_file (A ++ [Fsync])) = cache (run empty_file (A ++ [Fsync]))) by (rewrite run_app; reflexivity).
      assert (Hfin : cache (run empty_file (A ++ [Fsync; hop])) = cache (step (run empty_file (A ++ [Fsync])) hop)).
      { replace (A ++ [Fsync; hop]) with ((A ++ [Fsync]) ++ [hop]) by (rewrite <- app_assoc; reflexivity).
        rewrite run_app. reflexivity. }
      rewrite Hfin. rewrite (run_app empty_file (A ++ [Fsync]) (hop :: t')).
      change (run (run empty_file (A ++ [Fsync])) (hop :: t')) with (run (step (run empty_file (A ++ [Fsync])) hop) t').
      eapply run_header_phase; eauto.
      apply (header_store_phase (run empty_file (A ++ [Fsync])) hop hdr); auto.
  Qed.

  Lemma general_crash : forall A T hop hdr t1 t2 sel L cfg v,
    Forall safe_op A -> Forall quiet_op T -> hop = MapStore 0 hdr \/ hop = Write 0 hdr -> length hdr <= page ->
    A ++ Fsync :: hop :: T = t1 ++ t2 ->
    load cfg (crash_image (run empty_file t1) sel L) = Some v ->
    reads_agree (cache (run empty_file (A ++ [Fsync; hop]))) v /\ length (fst v) <= L.
  Proof.
    intros A T hop hdr t1 t2 sel L cfg v HA HT Hop Hlen E H.
    destruct (general_phases A T hop hdr t1 t2 HA HT Hop Hlen E) as [[Hl Hn]|Hp].
    - rewrite crash_no_header in H by assumption. discriminate.
    - eapply crash_header_phase; eauto.
  Qed.
End General.

(* ------------------------------------------------------------------------------------------ *)
(* the trace as the system-call tracer sees it *)
Lemma shapes_app : forall a b, shapes (a ++ b) = shapes a ++ shapes b.
Proof.
  induction a as [|op a IH]; intro b; [reflexivity|]. simpl. destruct (shape_of op); simpl; rewrite IH; reflexivity.
Qed.

Lemma finish_shape_correct : forall wm iv c, wf_contents c ->
  shapes (finish_trace wm iv c) =
  finish_shape wm iv (c_H c) (c_H c + length (c_vocab1 c)) (c_pad c) (length (c_search1 c)) (length (c_words c)).
Proof.
  intros wm iv c (_ & _ & H3 & H4 & H5).
  unfold finish_trace, finish_trace_gen, finish_shape, body_trace, sync_trace, header_op, tail_trace.
  destruct wm, iv; simpl; rewrite ?app_length, ?incomplete_header_length, ?H3, ?H4, ?H5; reflexivity.
Qed.

(* ------------------------------------------------------------------------------------------ *)
(* the hypotheses are satisfiable and the loader is not trivially rejecting: a small complete build loads,
   the same build cut before the header does not *)
Definition ex_contents : contents :=
  {| c_H := 128; c_vocab1 := repeat 7 8; c_vocab2 := repeat 7 8; c_pad := 3; c_search1 := repeat 9 13; c_search2 := repeat 9 13;
     c_words := unk6 ++ [97; 0];
     c_header := ref_sanity ++ [2; 0; 0; 0; 0; 0; 192; 63; 0; 0; 0; 0; 1; 0; 0; 0; 1; 0; 0; 0] ++ [3; 0; 0; 0; 0; 0; 0; 0; 1; 0; 0; 0; 0; 0; 0; 0] ++ repeat 0 4 |}.
Definition ex_cfg : loader_cfg := {| l_model_type := 0; l_search_version := 1; l_enumerate := true |}.
Definition ex_load := load (fun _ => true) (fun _ _ => 24) (fun _ _ => true) ex_cfg.

Example ex_wf : wf_contents ex_contents.
Proof. unfold wf_contents. vm_compute. repeat split; lia. Qed.
Example ex_final_loads : forall wm, exists body, ex_load (final_image wm true ex_contents) = Some (body, Some (unk6 ++ [97; 0])) /\ length body = 152.
Proof. intros []; eexists; vm_compute; split; reflexivity. Qed.
Example ex_before_header_rejected :
  ex_load (crash_image (run empty_file (body_trace WriteMmap true ex_contents ++ sync_trace true WriteMmap)) (fun _ => true) 1000) = None.
Proof. vm_compute. reflexivity. Qed.
