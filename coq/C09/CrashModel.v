(* C09 -- executable model: the system-call trace of a binary build (lm/binary_format.cc: SetupJustVocab,
   GrowForSearch, WriteVocabWords, FinishFile and the destructors), a page-granular crash semantics of a file,
   and the loader's acceptance function (IsBinaryFormat, ReadHeader, MatchCheck, CheckCounts, LoadBinary,
   ReadWords).  NO PROOFS in this file.

   Header constants (sizeof(Sanity), the reference Sanity bytes, kMagicIncomplete, the layout of
   FixedWidthParameters, TotalHeaderSize) come from Gen/BinaryFormatConsts.v, regenerated from the sources. *)
From Coq Require Import List Arith Bool.
From Kenlm Require Import Gen.BinaryFormatConsts C15.IoModel.
Import ListNotations.

Definition byte := nat.
Definition page : nat := 4096.

(* ------------------------------------------------------------------------------------------ *)
(* system calls on the output file, with the bytes they carry *)
Inductive sysop :=
| Create                                   (* util::CreateOrThrow: open(O_CREAT|O_TRUNC|O_RDWR) *)
| Truncate (n : nat)                       (* util::ResizeOrThrow *)
| Mmap (len : nat)                         (* util::MapOrThrow(len, for_write, MAP_SHARED, fd, 0) *)
| Munmap (len : nat)
| MapStore (off : nat) (bs : list byte)    (* a store through the shared mapping: reaches the page cache only *)
| Write (off : nat) (bs : list byte)       (* util::SeekOrThrow + util::WriteOrThrow: reaches the page cache only *)
| Msync (len : nat)                        (* msync(base, len, MS_SYNC): the pages of [0, len) become durable *)
| Fsync                                    (* util::FSyncOrThrow: every page (and the size) becomes durable *)
| SyncFail                                 (* an msync/fsync that returns -1 (EIO, ENOSPC, EDQUOT...): forces nothing to stable storage *)
| Close.

(* what strace / the shim can see of an operation (stores through a mapping are invisible) *)
Inductive shape := SCreate | STruncate (n : nat) | SMmap (len : nat) | SMunmap (len : nat)
                 | SWrite (off len : nat) | SMsync (len : nat) | SFsync | SSyncFail | SClose.

Definition shape_of (op : sysop) : option shape :=
  match op with
  | Create => Some SCreate
  | Truncate n => Some (STruncate n)
  | Mmap l => Some (SMmap l)
  | Munmap l => Some (SMunmap l)
  | MapStore _ _ => None
  | Write off bs => Some (SWrite off (length bs))
  | Msync l => Some (SMsync l)
  | Fsync => Some SFsync
  | SyncFail => Some SSyncFail
  | Close => Some SClose
  end.

Fixpoint shapes (tr : list sysop) : list shape :=
  match tr with
  | [] => []
  | op :: r => match shape_of op with Some s => s :: shapes r | None => shapes r end
  end.

(* ------------------------------------------------------------------------------------------ *)
(* the file: what is on stable storage and what the page cache holds (what read(2) and a mapping see).
   Both always have the same length: a size change is journalled at once, a grown region reads as zeros
   until its pages are written back.  (Crash images are additionally cut at an arbitrary length, below.) *)
Record file := { durable : list byte; cache : list byte }.

Definition zero : byte := 0.
Definition pad (l : list byte) (n : nat) : list byte := l ++ repeat zero (n - length l).

(* page-wise choice between two images of equal length: page p comes from `c` when sel p, else from `d` *)
Fixpoint mix_from (i : nat) (sel : nat -> bool) (d c : list byte) : list byte :=
  match d, c with
  | x :: d', y :: c' => (if sel (i / page) then y else x) :: mix_from (S i) sel d' c'
  | _, _ => []
  end.
Definition mix (sel : nat -> bool) (d c : list byte) : list byte := mix_from 0 sel d c.

Definition pages_covering (len : nat) : nat := (len + page - 1) / page.

Definition step (st : file) (op : sysop) : file :=
  match op with
  | Create => {| durable := []; cache := [] |}
  | Truncate n => {| durable := resize zero (durable st) n; cache := resize zero (cache st) n |}
  | MapStore off bs | Write off bs =>
      let c := overwrite zero (cache st) off bs in {| durable := pad (durable st) (length c); cache := c |}
  | Msync len => {| durable := mix (fun p => p <? pages_covering len) (durable st) (cache st); cache := cache st |}
  | Fsync => {| durable := cache st; cache := cache st |}
  | Mmap _ | Munmap _ | SyncFail | Close => st
  end.

Definition run (st : file) (tr : list sysop) : file := fold_left step tr st.
Definition empty_file : file := {| durable := []; cache := [] |}.

(* the images a crash (power loss, or a kill: sel = everything) can leave: any subset of the pages that differ
   written back, the size possibly not yet updated *)
Definition crash_image (st : file) (sel : nat -> bool) (len : nat) : list byte :=
  firstn len (mix sel (durable st) (cache st)).

(* ------------------------------------------------------------------------------------------ *)
(* the writer.  Sizes: H = TotalHeaderSize(order); contents are arbitrary parameters:
     vocab1   the vocabulary table as it is when the search area is allocated (|vocab1| = V)
     vocab2   the vocabulary table after loading finished (same length)
     pad      vocab_pad: bytes between the vocabulary table and the search structure that are never written (a hole)
     search1  the search structure as built (|search1| = M), stored at H + V + pad
     search2  the search structure after the <unk> patch (same length)
     words    the vocabulary strings, '\0' separated
     header   the real header (|header| = H, begins with the reference Sanity) *)
Inductive write_method := WriteMmap | WriteAfter.

Definition align8 (a : nat) : nat := ((a - 1) / 8 + 1) * 8.
Definition header_size (order : nat) : nat := align8 (sanity_size + fixed_size + 8 * order).

(* strncpy(base, kMagicIncomplete, header_size) into zeroed memory *)
Definition incomplete_header (H : nat) : list byte := firstn H (magic_incomplete ++ repeat zero (H - length magic_incomplete)).

Record contents := {
  c_H : nat; c_vocab1 : list byte; c_vocab2 : list byte; c_pad : nat; c_search1 : list byte; c_search2 : list byte;
  c_words : list byte; c_header : list byte }.

(* the trace up to (excluding) the sync that FinishFile performs before the header is written *)
Definition body_trace (wm : write_method) (include_vocab : bool) (c : contents) : list sysop :=
  let H := c_H c in
  let HV := H + length (c_vocab1 c) in
  let HVP := HV + c_pad c in
  let tot := HVP + length (c_search1 c) in
  match wm with
  | WriteMmap =>
      (* SetupJustVocab: CreateOrThrow, MapZeroedWrite = ResizeOrThrow 0, ResizeOrThrow total, MapOrThrow; strncpy *)
      [Create; Truncate 0; Truncate HV; Mmap HV; MapStore 0 (incomplete_header H); MapStore H (c_vocab1 c)] ++
      (* GrowForSearch: mapping_.reset() (scoped_mmap: msync, munmap), ResizeOrThrow, MapFile *)
      [Msync HV; Munmap HV; Truncate tot; Mmap tot; MapStore H (c_vocab2 c); MapStore HVP (c_search1 c)] ++
      (* WriteVocabWords: mapping_.reset(), SeekOrThrow, WriteOrThrow, MapFile *)
      (if include_vocab then [Msync tot; Munmap tot; Write tot (c_words c); Mmap tot] else []) ++
      [MapStore HVP (c_search2 c)] ++
      (* FinishFile, first half: SyncOrThrow(mapping) *)
      [Msync tot]
  | WriteAfter =>
      (* SetupJustVocab: CreateOrThrow, ResizeOrThrow 0; everything else is built in anonymous memory *)
      [Create; Truncate 0] ++
      (if include_vocab then [Write tot (c_words c)] else []) ++
      (* FinishFile, first half: the vocabulary memory (with the incomplete magic in front) and the search memory *)
      [Write 0 (incomplete_header H ++ c_vocab2 c); Write HVP (c_search2 c)]
  end.

(* the sync before the header.  `fixed` = the code after the C09 fix (FinishFile fsyncs in the mmap method
   too, so that the vocabulary words written with write(2) are covered); false = the code before it. *)
Definition sync_trace (fixed : bool) (wm : write_method) : list sysop :=
  match wm with
  | WriteMmap => if fixed then [Fsync] else []
  | WriteAfter => [Fsync]
  end.

Definition header_op (wm : write_method) (c : contents) : sysop :=
  match wm with WriteMmap => MapStore 0 (c_header c) | WriteAfter => Write 0 (c_header c) end.

(* after the header: FinishFile's second SyncOrThrow, then ~BinaryFormat (scoped_memory: msync, munmap), ~scoped_fd *)
Definition tail_trace (wm : write_method) (c : contents) : list sysop :=
  let tot := c_H c + length (c_vocab1 c) + c_pad c + length (c_search1 c) in
  match wm with
  | WriteMmap => [Msync tot; Msync tot; Munmap tot; Close]
  | WriteAfter => [Close]
  end.

Definition finish_trace_gen (fixed : bool) (wm : write_method) (include_vocab : bool) (c : contents) : list sysop :=
  body_trace wm include_vocab c ++ sync_trace fixed wm ++ [header_op wm c] ++ tail_trace wm c.

(* the current code *)
Definition finish_trace := finish_trace_gen true.
(* the code before commit "fix: ... fsync ..." (kept for the refutation witness) *)
Definition finish_trace_before_fix := finish_trace_gen false.

(* The sync of FinishFile fails (SyncOrThrow / FSyncOrThrow throw): the exception leaves FinishFile before the header is
   written; build_binary reports the error and the destructors run (~BinaryFormat: msync + munmap of the mapping; ~scoped_fd). *)
Definition failed_sync_trace (wm : write_method) (include_vocab : bool) (c : contents) : list sysop :=
  let tot := c_H c + length (c_vocab1 c) + c_pad c + length (c_search1 c) in
  body_trace wm include_vocab c ++ [SyncFail] ++
  match wm with WriteMmap => [Msync tot; Munmap tot; Close] | WriteAfter => [Close] end.

(* the same trace as strace sees it, from the sizes alone: HV = H + V, P = vocab_pad, M = |search|, W = |words| *)
Definition finish_shape (wm : write_method) (include_vocab : bool) (H HV P M W : nat) : list shape :=
  let tot := HV + P + M in
  match wm with
  | WriteMmap =>
      [SCreate; STruncate 0; STruncate HV; SMmap HV; SMsync HV; SMunmap HV; STruncate tot; SMmap tot] ++
      (if include_vocab then [SMsync tot; SMunmap tot; SWrite tot W; SMmap tot] else []) ++
      [SMsync tot; SFsync; SMsync tot; SMsync tot; SMunmap tot; SClose]
  | WriteAfter =>
      [SCreate; STruncate 0] ++ (if include_vocab then [SWrite tot W] else []) ++
      [SWrite 0 HV; SWrite (HV + P) M; SFsync; SWrite 0 H; SClose]
  end.

(* ------------------------------------------------------------------------------------------ *)
(* the loader *)
Fixpoint list_eqb (a b : list byte) : bool :=
  match a, b with
  | [], [] => true
  | x :: a', y :: b' => Nat.eqb x y && list_eqb a' b'
  | _, _ => false
  end.

Definition le32 (bs : list byte) : nat := nth 0 bs 0 + 256 * (nth 1 bs 0 + 256 * (nth 2 bs 0 + 256 * nth 3 bs 0)).
Definition unk6 : list byte := [60; 117; 110; 107; 62; 0].   (* "<unk>\0" *)

Record loader_cfg := { l_model_type : nat; l_search_version : nat; l_enumerate : bool }.

Section Loader.
  (* the environment of the header logic, all universally quantified in the theorems:
       pm_ok      the test !(probing_multiplier >= 1.0) on the four bytes of the float
       body_size  VocabularyT::Size + Search::Size after UpdateConfigFromBinary, a function of the image (header, counts and the
                  few configuration bytes ReadForConfig fetches from inside the body)
       words_ok   ReadWords' enumeration: the number of '\0'-separated strings equals counts[0] *)
  Variable pm_ok : list byte -> bool.
  Variable body_size : loader_cfg -> list byte -> nat.
  Variable words_ok : list byte -> list byte -> bool.

  (* Some (bytes [0, total) that are mapped and used for queries, vocabulary strings handed to enumerate_vocab) *)
  Definition load (cfg : loader_cfg) (img : list byte) : option (list byte * option (list byte)) :=
    if length img <=? sanity_size then None                                   (* IsBinaryFormat: too small to be binary (then not ARPA either) *)
    else if negb (list_eqb (firstn sanity_size img) ref_sanity) then None     (* incomplete magic / other magic: exception; no magic: not ARPA *)
    else
      let fixed := firstn fixed_size (skipn sanity_size img) in
      if length fixed <? fixed_size then None                                  (* ReadHeader: ReadOrThrow hits end of file *)
      else if negb (pm_ok (firstn 4 (skipn off_probing_multiplier fixed))) then None
      else
        let order := nth off_order fixed 0 in
        let counts := firstn (8 * order) (skipn (sanity_size + fixed_size) img) in
        if length counts <? 8 * order then None
        else if negb (Nat.eqb (le32 (skipn off_model_type fixed)) (l_model_type cfg)) then None       (* MatchCheck *)
        else if negb (Nat.eqb (le32 (skipn off_search_version fixed)) (l_search_version cfg)) then None
        else if (order <? 2) || (max_order <? order) then None                                       (* CheckCounts (its "no unigrams" test is
                                                                                                         not modelled: it only rejects more) *)
        else
          let has_vocab := negb (Nat.eqb (nth off_has_vocabulary fixed 0) 0) in
          if l_enumerate cfg && negb has_vocab then None
          else
            let hdr := header_size order in
            let total := hdr + body_size cfg img in
            if length img <? total then None                                   (* LoadBinary: file shorter than the headers say *)
            else if negb has_vocab && negb (Nat.eqb (length img) total) then None   (* without strings the file ends exactly with its tables *)
            else if has_vocab then
              let w := skipn total img in
              if negb (list_eqb (firstn 6 w) unk6) then None                  (* ReadWords: "<unk>\0" must be first *)
              else if l_enumerate cfg then
                if words_ok counts w then Some (firstn total img, Some w) else None
              else Some (firstn total img, None)
            else Some (firstn total img, None).

  (* RecognizeBinary (IsBinaryFormat + ReadHeader, no MatchCheck): what the header decoder hands back *)
  Record header_info := { h_order : nat; h_probing_multiplier : list byte; h_model_type : nat; h_has_vocabulary : bool;
                          h_search_version : nat; h_counts : list byte }.

  Definition recognize (img : list byte) : option header_info :=
    if length img <=? sanity_size then None
    else if negb (list_eqb (firstn sanity_size img) ref_sanity) then None
    else
      let fixed := firstn fixed_size (skipn sanity_size img) in
      if length fixed <? fixed_size then None
      else if negb (pm_ok (firstn 4 (skipn off_probing_multiplier fixed))) then None
      else
        let order := nth off_order fixed 0 in
        let counts := firstn (8 * order) (skipn (sanity_size + fixed_size) img) in
        if length counts <? 8 * order then None
        else Some {| h_order := order; h_probing_multiplier := firstn 4 (skipn off_probing_multiplier fixed);
                     h_model_type := le32 (skipn off_model_type fixed);
                     h_has_vocabulary := negb (Nat.eqb (nth off_has_vocabulary fixed 0) 0);
                     h_search_version := le32 (skipn off_search_version fixed); h_counts := counts |}.
End Loader.

(* ------------------------------------------------------------------------------------------ *)
(* the header WriteHeader produces: memset 0, the reference Sanity, FixedWidthParameters field by field
   (order: 1 byte; probing_multiplier: the 4 bytes of the float; model_type, search_version: 32-bit little endian;
   has_vocabulary: 1 byte; the rest of the struct is padding left 0), then the counts, padded to a multiple of 8 *)
Definition bytes_le32 (n : nat) : list byte :=
  [n mod 256; (n / 256) mod 256; (n / 256 / 256) mod 256; (n / 256 / 256 / 256) mod 256].

Definition make_fixed (order p0 p1 p2 p3 mtype hv version : nat) : list byte :=
  [order; 0; 0; 0; p0; p1; p2; p3] ++ bytes_le32 mtype ++ [hv; 0; 0; 0] ++ bytes_le32 version.

Definition make_header (order p0 p1 p2 p3 mtype hv version : nat) (counts : list byte) : list byte :=
  ref_sanity ++ make_fixed order p0 p1 p2 p3 mtype hv version ++ counts ++
  repeat zero (header_size order - (sanity_size + fixed_size + 8 * order)).

(* the complete file: header, vocabulary table, vocab_pad zeros, search structure, vocabulary strings *)
Definition expected_image (include_vocab : bool) (c : contents) : list byte :=
  c_header c ++ c_vocab2 c ++ repeat zero (c_pad c) ++ c_search2 c ++ (if include_vocab then c_words c else []).

