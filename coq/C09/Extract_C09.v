(* Extraction of the C09 executable model (ExtrOcamlBasic only). coqc runs with cwd = /verif/coq. *)
From Coq Require Import List Extraction ExtrOcamlBasic.
From Kenlm Require Import Gen.BinaryFormatConsts C15.IoModel C09.CrashModel.
Extraction Language OCaml.
Extraction "extracted/c09_model.ml"
  finish_shape finish_trace finish_trace_before_fix failed_sync_trace shapes header_size step run empty_file crash_image mix
  sanity_size ref_sanity magic_incomplete incomplete_header total_header_sizes list_eqb.
