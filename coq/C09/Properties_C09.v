(* C09 -- the property theorems and nothing else.
   Quantification: every write method, with and without vocabulary strings, every content of the vocabulary
   table / search structure / strings / header of well-formed sizes, EVERY prefix t1 of the system-call trace
   (= every system-call boundary at which the builder can die), EVERY subset `sel` of pages written back and
   every length `L` the file may have been left with, every loader configuration, and every environment
   (pm_ok, body_size, words_ok: the float test, the Size() functions, the vocabulary enumeration). *)
From Coq Require Import List Arith Bool Lia.
From Kenlm Require Import Gen.BinaryFormatConsts C15.IoModel C09.CrashModel C09.CrashProofs.
Import ListNotations.

(* Whatever instant the build is interrupted at and whichever dirty pages reached the disk: the loader rejects
   the image (load = None), or every byte it read -- all of [0, total) that is mapped and queried, and the
   vocabulary strings it handed out -- is the byte the complete file holds at that place (so queries are
   answered exactly as by the complete file), and nothing below `total` is missing. *)
Theorem C09_crash_old_or_new :
  forall pm_ok body_size words_ok wm iv c t1 t2 sel L cfg v,
  wf_contents c -> finish_trace wm iv c = t1 ++ t2 ->
  load pm_ok body_size words_ok cfg (crash_image (run empty_file t1) sel L) = Some v ->
  reads_agree (final_image wm iv c) v /\ length (fst v) <= L.
Proof. exact crash_old_or_new. Qed.

(* The same for any writer of that shape -- arbitrary operations that never put the reference header's
   distinguishing byte (index 34, 'f') in place, in any order and chunking (so also a process killed inside a
   write, at any byte), then fsync, then one store of the header inside the first page, then only
   syncs/unmaps/close.  C09_crash_old_or_new is the instance for the trace of lm/binary_format.cc. *)
Theorem C09_crash_old_or_new_any_writer :
  forall pm_ok body_size words_ok A T hop hdr t1 t2 sel L cfg v,
  Forall safe_op A -> Forall quiet_op T -> hop = MapStore 0 hdr \/ hop = Write 0 hdr -> length hdr <= page ->
  A ++ Fsync :: hop :: T = t1 ++ t2 ->
  load pm_ok body_size words_ok cfg (crash_image (run empty_file t1) sel L) = Some v ->
  reads_agree (cache (run empty_file (A ++ [Fsync; hop]))) v /\ length (fst v) <= L.
Proof. exact general_crash. Qed.

(* A sync that fails forces nothing to stable storage; the writer must then never store the header.  For the trace
   of lm/binary_format.cc with FinishFile's sync failing (exception, destructors), and for ANY sequence of operations that
   does not store the header: at every instant, every crash image is rejected. *)
Theorem C09_failed_sync_never_loads : forall pm_ok body_size words_ok wm iv c t1 t2 sel L cfg, wf_contents c ->
  failed_sync_trace wm iv c = t1 ++ t2 ->
  load pm_ok body_size words_ok cfg (crash_image (run empty_file t1) sel L) = None.
Proof. exact failed_sync_never_loads. Qed.

Theorem C09_no_header_store_never_loads : forall pm_ok body_size words_ok ops t1 t2 sel L cfg,
  Forall safe_op ops -> ops = t1 ++ t2 ->
  load pm_ok body_size words_ok cfg (crash_image (run empty_file t1) sel L) = None.
Proof. exact never_loads. Qed.

(* The complete Sanity header is visible (in the page cache) only when every other byte of the file is
   already on stable storage with its final value. *)
Theorem C09_header_last : forall wm iv c t1 t2, wf_contents c -> finish_trace wm iv c = t1 ++ t2 ->
  firstn sanity_size (cache (run empty_file t1)) = ref_sanity ->
  length (durable (run empty_file t1)) = length (final_image wm iv c) /\
  forall i, c_H c <= i -> nth i (durable (run empty_file t1)) 0 = nth i (final_image wm iv c) 0.
Proof. exact header_last. Qed.

(* Before the fix (FinishFile did not fsync in the mmap write method) this was false: the vocabulary strings,
   written with write(2) beyond the mapping, were not covered by msync when the header became visible. *)
Theorem C09_header_last_before_fix_refuted : exists c t1 t2 i,
  wf_contents c /\ finish_trace_before_fix WriteMmap true c = t1 ++ t2 /\
  firstn sanity_size (cache (run empty_file t1)) = ref_sanity /\
  c_H c <= i /\ nth i (durable (run empty_file t1)) 0 <> nth i (cache (run empty_file (t1 ++ t2))) 0.
Proof.
  exists {| c_H := 128; c_vocab1 := repeat 7 8; c_vocab2 := repeat 7 8; c_pad := 0; c_search1 := repeat 9 3960; c_search2 := repeat 9 3960;
            c_words := unk6; c_header := ref_sanity ++ repeat 0 40 |}.
  eexists. exists []. exists 4096.
  split; [unfold wf_contents; vm_compute; repeat split; lia|].
  split; [rewrite app_nil_r; reflexivity|].
  split; [vm_compute; reflexivity|].
  split; [vm_compute; lia|]. vm_compute. lia.
Qed.

(* Every strict prefix of any image: rejected, or what was read agrees with the whole image and only bytes
   beyond `total` -- vocabulary strings -- are missing. *)
Theorem C09_truncation : forall pm_ok body_size words_ok cfg F L v,
  load pm_ok body_size words_ok cfg (firstn L F) = Some v -> reads_agree F v /\ length (fst v) <= L.
Proof. exact truncation. Qed.

(* an image without the complete header byte is rejected whatever else it holds *)
Theorem C09_incomplete_rejected : forall pm_ok body_size words_ok cfg img,
  nth dix img 0 <> bad -> load pm_ok body_size words_ok cfg img = None.
Proof. exact load_needs_header. Qed.

(* the trace as a system-call tracer sees it (the correspondence compares this with the recorded calls) *)
Theorem C09_trace_shape : forall wm iv c, wf_contents c ->
  shapes (finish_trace wm iv c) =
  finish_shape wm iv (c_H c) (c_H c + length (c_vocab1 c)) (c_pad c) (length (c_search1 c)) (length (c_words c)).
Proof. exact finish_shape_correct. Qed.

(* the model's header size formula is the code's TotalHeaderSize for every order, and the distinguishing byte
   really distinguishes kMagicIncomplete from the reference header of the current sources *)
Theorem C09_header_constants : map header_size (seq 0 (S max_order)) = total_header_sizes /\
  nth dix magic_incomplete 0 <> nth dix ref_sanity 0 /\ length ref_sanity = sanity_size /\
  header_size max_order <= page.
Proof. vm_compute. repeat split; try lia; discriminate. Qed.
