(* Executable model of lm/interpolate passes 1-3 at the level of the records they produce.
     pass 1  merge_probabilities.cc HandleSuffix: for every n-gram of the union set and every component, the
             probability of the longest listed suffix ("found", with its `from` level), weighted and summed;
     pass 2  normalize.cc Recurse::SameContext: the back-offs b_m of the contexts longer than the one the
             component backed off to are charged (the un-normalised weighted sums; the normaliser Z itself
             is pow/log10 arithmetic on these sums and is recomputed by the harness in float64);
             BackoffManager: which n-grams receive a back-off record (Enter/SkipRecord);
     pass 3  backoff_reunification.cc: probability records and back-off records are zipped, which requires the
             two streams of every order below the maximum to have the same length.
   Generic in the score ring K (operations only; no proofs here); instantiated at Z for extraction. *)
From Coq Require Import List NArith ZArith Bool Arith.
From Kenlm Require Import C13.InterpSpec.
Import ListNotations.

Fixpoint ngram_eqb (a b : ngram) : bool :=
  match a, b with
  | [], [] => true
  | x :: a', y :: b' => N.eqb x y && ngram_eqb a' b'
  | _, _ => false
  end.

Definition mem_ngram (g : ngram) (l : list ngram) : bool := existsb (ngram_eqb g) l.
Fixpoint dedup (l : list ngram) : list ngram :=
  match l with
  | [] => []
  | g :: r => if mem_ngram g r then dedup r else g :: dedup r
  end.

Section Model.
  Variable K : Type.
  Variables (k0 : K) (kadd kmul : K -> K -> K).

  Definition atable := list (ngram * (K * K)).
  Fixpoint alookup (t : atable) (g : ngram) : option (K * K) :=
    match t with
    | [] => None
    | (h, v) :: r => if ngram_eqb g h then Some v else alookup r g
    end.

  (* pass 1: longest listed suffix of g: (its length, its probability); an unlisted word is <unk> *)
  Fixpoint found (T : table K) (g : ngram) : nat * K :=
    match T g with
    | Some (p, _) => (length g, p)
    | None => match g with
              | [] => (0, k0)
              | _ :: g' => match g' with
                           | [] => (1, unkp K k0 T)
                           | _ => found T g'
                           end
              end
    end.

  (* pass 2: back-offs of the suffixes of the context c that are longer than the context that was found,
     i.e. of length >= L where L = length of the found n-gram *)
  Fixpoint charged (T : table K) (c : ngram) (L : nat) : K :=
    match c with
    | [] => k0
    | _ :: c' => if L <=? length c then kadd (bo K k0 T c) (charged T c' L) else k0
    end.

  Definition score2 (T : table K) (g : ngram) : K :=
    let '(L, p) := found T g in kadd p (charged T (removelast g) L).

  Record comp := { c_order : nat; c_lambda : K; c_tbl : atable }.
  Definition comps_of (cs : list comp) : list (K * table K) := map (fun c => (c_lambda c, alookup (c_tbl c))) cs.

  Definition keys (c : comp) : list ngram := map fst (c_tbl c).
  Definition union_ngrams (cs : list comp) : list ngram := dedup (concat (map keys cs)).

  (* one record per n-gram of the union set: un-normalised probability sum and back-off sum *)
  Definition merged (cs : list comp) : list (ngram * (K * K)) :=
    let lt := comps_of cs in
    map (fun g => (g, (wsum K k0 kadd kmul lt (fun T => score2 T g), wsum K k0 kadd kmul lt (fun T => bo K k0 T g))))
        (union_ngrams cs).

  (* ---- which n-grams of order k get a probability record / a back-off record -------------------- *)
  Definition of_order (k : nat) (l : list ngram) : list ngram := filter (fun g => length g =? k) l.
  Definition prob_keys (cs : list comp) (k : nat) : list ngram := of_order k (union_ngrams cs).

  Definition max_order (cs : list comp) : nat := fold_right (fun c n => Nat.max (c_order c) n) 0 cs.

  (* pipeline.cc SetupInputs(exclude_highest = true): is the order-k file of component c left out of the
     BackoffManager?   buggy (as shipped): every model's own highest order;
                       repaired: the highest order only of models whose order is the maximum *)
  Definition excluded (fixed : bool) (N : nat) (c : comp) (k : nat) : bool :=
    if fixed then (k =? c_order c) && (c_order c =? N) else (k =? c_order c).

  (* back-off records of order k: one per n-gram entered by SameContext (the contexts of the order k+1
     probability records) or skipped by SkipRecord (the n-grams of the component streams that are present) *)
  Definition backoff_keys (fixed : bool) (cs : list comp) (k : nat) : list ngram :=
    let N := max_order cs in
    dedup (concat (map (fun c => if excluded fixed N c k then [] else of_order k (keys c)) cs)
           ++ map (@removelast _) (prob_keys cs (S k))).

  (* ---- pass 2 rewinds over all successors of one context: how many can there be? --------------------- *)
  Definition is_follower (c g : ngram) : bool := match g with [] => false | _ => ngram_eqb (removelast g) c end.
  Definition followers_in (u : list ngram) (c : ngram) : list ngram := filter (is_follower c) u.
  Definition followers (cs : list comp) (c : ngram) : list ngram := followers_in (union_ngrams cs) c.
  Definition union_unigrams (cs : list comp) : list ngram := of_order 1 (union_ngrams cs).
  Definition contexts_of (cs : list comp) (k : nat) : list ngram := dedup (map (@removelast _) (prob_keys cs k)).
  (* the longest run of order-k records the normaliser has to keep in its rewind window *)
  Definition max_followers (cs : list comp) (k : nat) : nat :=
    let u := union_ngrams cs in                                   (* computed once *)
    fold_right (fun c m => Nat.max (length (followers_in u c)) m) 0 (dedup (map (@removelast _) (of_order k u))).
  Definition comp_vocab_size (c : comp) : nat := length (dedup (of_order 1 (keys c))).
  Definition max_comp_vocab (cs : list comp) : nat := fold_right (fun c m => Nat.max (comp_vocab_size c) m) 0 cs.

  (* ReunifyBackoff: "Streams were not the same size during merging" *)
  Definition reunify_ok (fixed : bool) (cs : list comp) : bool :=
    forallb (fun k => length (prob_keys cs k) =? length (backoff_keys fixed cs k)) (seq 1 (max_order cs - 1)).
End Model.

(* ---- instance used for execution: K = Z, one unit = 2^-149 (weights too, so products are 2^-298) ---- *)
Definition Zcomp := comp Z.
Definition merged_Z (cs : list Zcomp) := merged Z 0%Z Z.add Z.mul cs.
Definition reunify_ok_Z (fixed : bool) (cs : list Zcomp) := reunify_ok Z fixed cs.
Definition max_followers_Z (cs : list Zcomp) : list nat :=
  let u := union_ngrams Z cs in
  map (fun k => fold_right (fun c m => Nat.max (length (followers_in u c)) m) 0 (dedup (map (@removelast _) (of_order k u))))
      (seq 1 (max_order Z cs)).
Definition vocab_sizes_Z (cs : list Zcomp) : nat * nat := (length (union_unigrams Z cs), max_comp_vocab Z cs).
