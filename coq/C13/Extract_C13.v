(* Extraction of the C13 executable model (ExtrOcamlBasic only). coqc runs with cwd = /verif/coq. *)
From Coq Require Import List NArith ZArith Extraction ExtrOcamlBasic.
From Kenlm Require Import C13.InterpSpec C13.InterpModel C13.MergeVocabModel C13.BseModel.
Extraction Language OCaml.
Extraction "extracted/c13_model.ml" merged_Z reunify_ok_Z merge_vocab Z.add encode decode encoded_length max_followers_Z vocab_sizes_Z.
