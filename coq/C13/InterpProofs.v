(* C13 -- proofs about the interpolation specification and the record-level model. *)
From Coq Require Import List NArith ZArith Bool Arith Lia Ring Ring_theory Permutation.
From Kenlm Require Import C13.InterpSpec C13.InterpModel.
Import ListNotations.

Lemma ngram_eqb_eq : forall a b, ngram_eqb a b = true <-> a = b.
Proof.
  induction a as [|x a IH]; destruct b as [|y b]; simpl; split; intros H; try reflexivity; try discriminate.
  - apply andb_true_iff in H as [H1 H2]. apply N.eqb_eq in H1. apply IH in H2. now subst.
  - inversion H; subst. rewrite N.eqb_refl. simpl. now apply IH.
Qed.

Lemma mem_ngram_In : forall g l, mem_ngram g l = true <-> In g l.
Proof.
  intros g l. unfold mem_ngram. rewrite existsb_exists. split.
  - intros [h [Hin He]]. apply ngram_eqb_eq in He. now subst.
  - intros H. exists g. split; [exact H|]. now apply ngram_eqb_eq.
Qed.

Lemma dedup_In : forall l g, In g (dedup l) <-> In g l.
Proof.
  induction l as [|h r IH]; simpl; intros g; [tauto|].
  destruct (mem_ngram h r) eqn:E.
  - rewrite IH. split; [tauto|]. intros [->|H]; [now apply mem_ngram_In|exact H].
  - simpl. rewrite IH. tauto.
Qed.

Lemma dedup_NoDup : forall l, NoDup (dedup l).
Proof.
  induction l as [|h r IH]; simpl; [constructor|].
  destruct (mem_ngram h r) eqn:E; [exact IH|].
  constructor; [|exact IH]. rewrite dedup_In. intros H. apply mem_ngram_In in H. congruence.
Qed.

Section Proofs.
  Variable K : Type.
  Variables (k0 k1 : K) (kadd kmul ksub : K -> K -> K) (kopp : K -> K).
  Hypothesis Kring : ring_theory k0 k1 kadd kmul ksub kopp (@eq K).
  Add Ring Kr : Kring.

  Notation table := (table K).
  Notation score := (score K k0 kadd).
  Notation wsum := (wsum K k0 kadd kmul).
  Notation bo := (bo K k0).
  Notation unkp := (unkp K k0).
  Notation inU := (inU K).
  Notation formula := (formula K k0 kadd kmul ksub).
  Notation emitted := (emitted K k0 kadd kmul ksub).

  Lemma wsum_add : forall comps f g,
    wsum comps (fun T => kadd (f T) (g T)) = kadd (wsum comps f) (wsum comps g).
  Proof.
    induction comps as [|[lam T] r IH]; intros f g; simpl; [ring|]. rewrite IH. ring.
  Qed.

  Lemma wsum_ext : forall comps f g, (forall lt, In lt comps -> f (snd lt) = g (snd lt)) -> wsum comps f = wsum comps g.
  Proof.
    induction comps as [|[lam T] r IH]; intros f g H; simpl; [reflexivity|].
    pose proof (H (lam, T) (or_introl eq_refl)) as E. simpl in E. rewrite E. rewrite (IH f g); [reflexivity|].
    intros lt Hin. apply H. now right.
  Qed.

  Lemma wsum_zero : forall comps, wsum comps (fun _ => k0) = k0.
  Proof. induction comps as [|[lam T] r IH]; simpl; [reflexivity|]. rewrite IH. ring. Qed.

  Lemma inU_false : forall comps g, inU comps g = false -> forall lt, In lt comps -> snd lt g = None.
  Proof.
    intros comps g H lt Hin. unfold InterpSpec.inU in H.
    destruct (snd lt g) eqn:E; [|reflexivity]. exfalso.
    assert (existsb (fun lt0 => listed K (snd lt0) g) comps = true).
    { apply existsb_exists. exists lt. split; [exact Hin|]. unfold listed. now rewrite E. }
    congruence.
  Qed.

  Lemma score_unlisted_cons : forall (T : table) a c x, T ((a :: c) ++ [x]) = None ->
    score T (a :: c) x = kadd (bo T (a :: c)) (score T c x).
  Proof. intros T a c x H. simpl score. simpl in H. rewrite H. reflexivity. Qed.

  Lemma score_unlisted_nil : forall (T : table) x, T [x] = None -> score T [] x = unkp T.
  Proof. intros T x H. simpl. rewrite H. reflexivity. Qed.

  Lemma score_nil_unk : forall (T : table), score T [] UNK = unkp T.
  Proof. intros T. simpl. unfold InterpSpec.unkp. destruct (T [UNK]) as [[p b]|]; reflexivity. Qed.

  (* ---- C13_arpa_represents_formula ------------------------------------------------------------- *)
  Theorem arpa_represents_formula : forall comps (logZ : ngram -> K),
    inU comps [UNK] = true ->
    (forall c, c <> [] -> inU comps c = false -> logZ c = logZ (tl c)) ->
    forall c x, score (emitted comps logZ) c x = formula comps logZ c x.
  Proof.
    intros comps logZ Hunk HZ c x. induction c as [|a c IH].
    - simpl score. unfold InterpSpec.emitted at 1. simpl app.
      destruct (inU comps [x]) eqn:E.
      + simpl. reflexivity.
      + unfold InterpSpec.unkp, InterpSpec.emitted. rewrite Hunk. simpl removelast. simpl last.
        unfold InterpSpec.formula. f_equal. apply wsum_ext. intros lt Hin.
        rewrite score_nil_unk. symmetry. apply score_unlisted_nil. exact (inU_false _ _ E lt Hin).
    - simpl score. unfold InterpSpec.emitted at 1.
      destruct (inU comps (a :: c ++ [x])) eqn:E.
      + change (a :: c ++ [x]) with ((a :: c) ++ [x]). rewrite removelast_last, last_last. reflexivity.
      + rewrite IH. unfold InterpSpec.formula.
        assert (Hs : wsum comps (fun T => score T (a :: c) x)
                     = kadd (wsum comps (fun T => bo T (a :: c))) (wsum comps (fun T => score T c x))).
        { rewrite <- wsum_add. apply wsum_ext. intros lt Hin. apply score_unlisted_cons.
          exact (inU_false _ _ E lt Hin). }
        rewrite Hs. unfold InterpSpec.bo at 1, InterpSpec.emitted.
        destruct (inU comps (a :: c)) eqn:Ec.
        * simpl tl. ring.
        * assert (Hb : wsum comps (fun T => bo T (a :: c)) = k0).
          { transitivity (wsum comps (fun _ => k0)); [|apply wsum_zero]. apply wsum_ext. intros lt Hin. unfold InterpSpec.bo.
            now rewrite (inU_false _ _ Ec lt Hin). }
          rewrite Hb. rewrite (HZ (a :: c)); [|discriminate|exact Ec]. simpl tl. ring.
  Qed.

  (* the hypotheses are satisfiable and the statement is not vacuous: see Example below (K = Z) *)

  Lemma score_listed : forall (T : table) c x p b, T (c ++ [x]) = Some (p, b) -> score T c x = p.
  Proof. intros T c x p b H. destruct c; simpl in *; rewrite H; reflexivity. Qed.

  (* ---- C13_single_model_identity --------------------------------------------------------------- *)
  Lemma app_removelast_last_ngram : forall (g : ngram), g <> [] -> g = removelast g ++ [last g UNK].
  Proof. intros g H. now apply app_removelast_last. Qed.

  Theorem single_model_identity : forall (T : table) (logZ : ngram -> K),
    T [] = None -> (forall c, logZ c = k0) ->
    forall g, emitted [(k1, T)] logZ g = T g.
  Proof.
    intros T logZ Hnil HZ g. unfold InterpSpec.emitted, InterpSpec.inU. simpl existsb. unfold listed.
    destruct (T g) as [[p b]|] eqn:E; simpl; [|reflexivity].
    assert (Hg : g <> []) by (intros ->; congruence).
    unfold InterpSpec.formula. simpl wsum. rewrite !HZ.
    assert (Hs : score T (removelast g) (last g UNK) = p).
    { apply score_listed with (b := b). rewrite <- app_removelast_last_ngram by exact Hg. exact E. }
    rewrite Hs. unfold InterpSpec.bo. rewrite E. f_equal. f_equal; ring.
  Qed.

  (* ---- the two-pass computation (found probability + charged back-offs) is the back-off score ---- *)
  Notation found := (found K k0).
  Notation charged := (charged K k0 kadd).
  Notation score2 := (score2 K k0 kadd).

  Lemma found_len : forall (T : table) g, g <> [] -> 1 <= fst (found T g) <= length g.
  Proof.
    intros T g. induction g as [|a g IH]; intros H; [congruence|].
    simpl found. destruct (T (a :: g)) as [[p b]|]; [simpl; lia|].
    destruct g as [|b g]; [simpl; lia|].
    specialize (IH ltac:(discriminate)). simpl length in *. lia.
  Qed.

  Lemma charged_short : forall (T : table) c L, length c < L -> charged T c L = k0.
  Proof.
    intros T c L H. destruct c as [|a c]; [reflexivity|]. unfold InterpModel.charged; fold (InterpModel.charged K k0 kadd).
    replace (L <=? length (a :: c)) with false; [reflexivity|]. symmetry. apply Nat.leb_gt. exact H.
  Qed.

  Lemma charged_long : forall (T : table) a c L, L <= length (a :: c) ->
    charged T (a :: c) L = kadd (bo T (a :: c)) (charged T c L).
  Proof.
    intros T a c L H. unfold InterpModel.charged at 1; fold (InterpModel.charged K k0 kadd).
    replace (L <=? length (a :: c)) with true; [reflexivity|]. symmetry. apply Nat.leb_le. exact H.
  Qed.

  Lemma found_listed : forall (T : table) g p b, T g = Some (p, b) -> found T g = (length g, p).
  Proof. intros T g p b H. destruct g; simpl; rewrite H; reflexivity. Qed.

  Lemma found_unlisted_cons : forall (T : table) a g, g <> [] -> T (a :: g) = None -> found T (a :: g) = found T g.
  Proof. intros T a g Hg H. simpl. rewrite H. destruct g; [congruence|reflexivity]. Qed.

  Theorem two_pass_is_backoff_score : forall (T : table) c x, score2 T (c ++ [x]) = score T c x.
  Proof.
    intros T c x. induction c as [|a c IH].
    - unfold InterpModel.score2. simpl. destruct (T [x]) as [[p b]|]; simpl; ring.
    - unfold InterpModel.score2 in *. rewrite removelast_last in *.
      destruct (T ((a :: c) ++ [x])) as [[p b]|] eqn:E.
      + rewrite (found_listed _ _ _ _ E). rewrite (score_listed _ _ _ _ _ E).
        rewrite charged_short; [ring|]. rewrite app_length. simpl. lia.
      + rewrite score_unlisted_cons by exact E.
        change ((a :: c) ++ [x]) with (a :: (c ++ [x])) in *.
        rewrite found_unlisted_cons; [|destruct c; discriminate|exact E].
        pose proof (found_len T (c ++ [x]) ltac:(destruct c; discriminate)) as Hl.
        destruct (found T (c ++ [x])) as [L p] eqn:Ef. simpl fst in Hl. rewrite app_length in Hl. simpl in Hl.
        rewrite charged_long by (simpl; lia). rewrite <- IH. ring.
  Qed.

  Corollary merged_rows : forall cs g, g <> [] ->
    wsum (comps_of K cs) (fun T => score2 T g) = wsum (comps_of K cs) (fun T => score T (removelast g) (last g UNK)).
  Proof.
    intros cs g Hg. apply wsum_ext. intros lt _.
    rewrite (app_removelast_last_ngram g Hg) at 1. apply two_pass_is_backoff_score.
  Qed.

  (* every record the executable model emits carries the sums of the specification *)
  Theorem merged_is_spec : forall cs g P B, In (g, (P, B)) (merged K k0 kadd kmul cs) -> g <> [] ->
    In g (InterpModel.union_ngrams K cs) /\
    P = wsum (comps_of K cs) (fun T => score T (removelast g) (last g UNK)) /\
    B = wsum (comps_of K cs) (fun T => bo T g).
  Proof.
    intros cs g P B Hin Hg. unfold merged in Hin. apply in_map_iff in Hin as [g' [He Hin]].
    inversion He; subst. split; [exact Hin|]. split; [now apply merged_rows|reflexivity].
  Qed.

  (* ---- pass 3: with the repaired exclusion rule every n-gram below the top order has exactly one
          back-off record, so the two streams ReunifyBackoff zips have the same keys and length ------ *)
  Notation union_ngrams := (union_ngrams K).
  Notation prob_keys := (prob_keys K).
  Notation backoff_keys := (backoff_keys K).
  Notation max_order := (max_order K).

  Definition context_closed (cs : list (comp K)) : Prop :=
    forall g, In g (union_ngrams cs) -> 2 <= length g -> In (removelast g) (union_ngrams cs).

  Lemma of_order_In : forall k l g, In g (of_order k l) <-> In g l /\ length g = k.
  Proof. intros k l g. unfold of_order. rewrite filter_In, Nat.eqb_eq. tauto. Qed.

  Lemma union_In : forall cs g, In g (union_ngrams cs) <-> exists c, In c cs /\ In g (keys K c).
  Proof.
    intros cs g. unfold InterpModel.union_ngrams. rewrite dedup_In, in_concat. split.
    - intros [l [Hl Hg]]. apply in_map_iff in Hl as [c [<- Hc]]. now exists c.
    - intros [c [Hc Hg]]. exists (keys K c). split; [now apply in_map|exact Hg].
  Qed.

  Lemma removelast_length : forall (g : ngram), length (removelast g) = length g - 1.
  Proof.
    induction g as [|a g IH]; [reflexivity|]. destruct g as [|b g]; [reflexivity|].
    change (removelast (a :: b :: g)) with (a :: removelast (b :: g)). simpl length in *. lia.
  Qed.

  Theorem backoff_keys_fixed : forall cs k, context_closed cs -> 1 <= k < max_order cs ->
    forall g, In g (backoff_keys true cs k) <-> In g (prob_keys cs k).
  Proof.
    intros cs k Hcl Hk g. unfold InterpModel.backoff_keys, InterpModel.prob_keys.
    rewrite dedup_In, in_app_iff, of_order_In. split.
    - intros [H|H].
      + apply in_concat in H as [l [Hl Hg]]. apply in_map_iff in Hl as [c [<- Hc]].
        destruct (excluded K true (max_order cs) c k); [destruct Hg|].
        apply of_order_In in Hg as [Hg Hlen]. split; [|exact Hlen]. apply union_In. now exists c.
      + apply in_map_iff in H as [g' [<- Hg']]. apply of_order_In in Hg' as [Hg' Hlen].
        split; [apply Hcl; [exact Hg'|lia]|]. rewrite removelast_length. lia.
    - intros [Hg Hlen]. left. apply union_In in Hg as [c [Hc Hg]].
      apply in_concat. exists (of_order k (keys K c)). split.
      + apply in_map_iff. exists c. split; [|exact Hc].
        unfold excluded. destruct (k =? c_order K c) eqn:E1; [|reflexivity].
        apply Nat.eqb_eq in E1. replace (c_order K c =? max_order cs) with false; [reflexivity|].
        symmetry. apply Nat.eqb_neq. lia.
      + apply of_order_In. split; [exact Hg|exact Hlen].
  Qed.

  Lemma same_members_same_length : forall (a b : list ngram), NoDup a -> NoDup b ->
    (forall g, In g a <-> In g b) -> length a = length b.
  Proof.
    intros a b Ha Hb H. apply Nat.le_antisymm; apply NoDup_incl_length; auto; intros g Hg; now apply H.
  Qed.

  Lemma NoDup_filter : forall (f : ngram -> bool) l, NoDup l -> NoDup (filter f l).
  Proof.
    intros f l H. induction H as [|x l Hx Hl IH]; simpl; [constructor|].
    destruct (f x); [constructor; [|exact IH]|exact IH]. rewrite filter_In. tauto.
  Qed.

  Theorem reunify_ok_fixed : forall cs, context_closed cs -> reunify_ok K true cs = true.
  Proof.
    intros cs Hcl. unfold InterpModel.reunify_ok. apply forallb_forall. intros k Hk.
    apply in_seq in Hk. apply Nat.eqb_eq. apply same_members_same_length.
    - unfold InterpModel.prob_keys, of_order. apply NoDup_filter. apply dedup_NoDup.
    - apply dedup_NoDup.
    - intros g. symmetry. apply backoff_keys_fixed; [exact Hcl|lia].
  Qed.

  (* ---- the rewind window of pass 2: one context can be followed by every word of the UNION vocabulary, never by more --- *)
  Definition words_listed (cs : list (comp K)) : Prop :=
    forall g, In g (union_ngrams cs) -> g <> [] -> In [last g UNK] (union_ngrams cs).

  Lemma NoDup_map_inj_in : forall {A B} (f : A -> B) (l : list A),
    (forall x y, In x l -> In y l -> f x = f y -> x = y) -> NoDup l -> NoDup (map f l).
  Proof.
    intros A B f l Hinj Hnd. induction Hnd as [|x l Hx Hl IH]; simpl; constructor.
    - intros Hin. apply in_map_iff in Hin as [y [Hy Hyl]]. assert (y = x) by (apply Hinj; [now right|now left|exact Hy]).
      subst y. contradiction.
    - apply IH. intros a b Ha Hb. apply Hinj; now right.
  Qed.

  Lemma is_follower_spec : forall c g, is_follower c g = true <-> g <> [] /\ removelast g = c.
  Proof.
    intros c g. unfold is_follower. destruct g as [|x g]; [split; [discriminate|intros [H _]; congruence]|].
    rewrite ngram_eqb_eq. split; [intros H; split; [discriminate|exact H]|intros [_ H]; exact H].
  Qed.

  Theorem followers_bound : forall cs c, words_listed cs ->
    length (followers K cs c) <= length (union_unigrams K cs).
  Proof.
    intros cs c Hw. unfold followers, followers_in, union_unigrams.
    set (F := filter (is_follower c) (union_ngrams cs)).
    assert (Hnd : NoDup F) by (apply NoDup_filter; apply dedup_NoDup).
    assert (HF : forall g, In g F -> In g (union_ngrams cs) /\ g <> [] /\ removelast g = c).
    { intros g Hg. apply filter_In in Hg as [H1 H2]. apply is_follower_spec in H2. tauto. }
    apply Nat.le_trans with (length (map (fun g : ngram => [last g UNK]) F)); [rewrite map_length; apply Nat.le_refl|].
    apply NoDup_incl_length.
    - apply NoDup_map_inj_in; [|exact Hnd]. intros x y Hx Hy E.
      destruct (HF x Hx) as [_ [Hx1 Hx2]]. destruct (HF y Hy) as [_ [Hy1 Hy2]].
      rewrite (app_removelast_last_ngram x Hx1), (app_removelast_last_ngram y Hy1), Hx2, Hy2. inversion E. reflexivity.
    - intros u Hu. apply in_map_iff in Hu as [g [<- Hg]]. destruct (HF g Hg) as [H1 [H2 _]].
      apply of_order_In. split; [now apply Hw|reflexivity].
  Qed.

  Corollary max_followers_bound : forall cs k, words_listed cs -> max_followers K cs k <= length (union_unigrams K cs).
  Proof.
    intros cs k Hw. unfold max_followers. cbv zeta.
    induction (dedup (map (@removelast _) (of_order k (union_ngrams cs)))) as [|c l IH]; simpl; [lia|].
    pose proof (followers_bound cs c Hw) as H. unfold followers in H. lia.
  Qed.

  Theorem mixed_order_fixed : forall cs, context_closed cs ->
    reunify_ok K true cs = true /\
    forall k g, 1 <= k < max_order cs -> (In g (backoff_keys true cs k) <-> In g (prob_keys cs k)).
  Proof. intros cs H. split; [exact (reunify_ok_fixed cs H)|]. intros k g Hk. exact (backoff_keys_fixed cs k H Hk g). Qed.
End Proofs.

(* ---- the shipped exclusion rule loses back-off records: model-level witness of F10 --------------------- *)
(* A: order 3 with a a a ; B: order 2 with b b (ids: 0 <unk>, 1 a, 2 b).  The bigram b b is listed only as the
   highest order of B and is no context of any trigram. *)
Definition f10_A : Zcomp := {| c_order := 3; c_lambda := 1%Z;
  c_tbl := [([0%N], (-8, 0)%Z); ([1%N], (-2, -1)%Z); ([1%N; 1%N], (-1, -1)%Z); ([1%N; 1%N; 1%N], (-1, 0)%Z)] |}.
Definition f10_B : Zcomp := {| c_order := 2; c_lambda := 1%Z;
  c_tbl := [([0%N], (-8, 0)%Z); ([2%N], (-2, -1)%Z); ([2%N; 2%N], (-1, 0)%Z)] |}.

Lemma mixed_order_refuted :
  context_closed Z [f10_A; f10_B] /\
  reunify_ok_Z false [f10_A; f10_B] = false /\ reunify_ok_Z true [f10_A; f10_B] = true.
Proof.
  split; [|split; vm_compute; reflexivity].
  intros g Hg Hlen. vm_compute in Hg.
  repeat (destruct Hg as [<-|Hg]; [vm_compute; try tauto; simpl in Hlen; try lia|]); try destruct Hg.
Qed.

(* the bound is attained, and no component-wise bound holds: three components over disjoint vocabularies {1,2}, {3,4}, {5,6}
   (0 = <unk>): the unigram context is followed by all 7 words of the union, each component lists only 3 *)
Definition dj (a b : N) : Zcomp := {| c_order := 2; c_lambda := 1%Z;
  c_tbl := [([0%N], (-8, 0)%Z); ([a], (-2, -1)%Z); ([b], (-2, -1)%Z); ([a; b], (-1, 0)%Z)] |}.

Lemma rewind_window_component_bound_refuted :
  let cs := [dj 1 2; dj 3 4; dj 5 6] in
  words_listed Z cs /\
  max_followers Z cs 1 = 7 /\ length (union_unigrams Z cs) = 7 /\ max_comp_vocab Z cs = 3.
Proof.
  cbv zeta. split; [|repeat split; vm_compute; reflexivity].
  intros g Hg Hne. vm_compute in Hg.
  repeat (destruct Hg as [<-|Hg]; [vm_compute; tauto|]). destruct Hg.
Qed.

(* the hypotheses of arpa_represents_formula are satisfiable (K = Z, logZ = 0 everywhere) *)
Example formula_hypotheses_satisfiable :
  let comps := comps_of Z [f10_A; f10_B] in
  inU Z comps [UNK] = true /\
  (forall c, c <> [] -> inU Z comps c = false -> (fun _ : ngram => 0%Z) c = (fun _ : ngram => 0%Z) (tl c)) /\
  score Z 0%Z Z.add (emitted Z 0%Z Z.add Z.mul Z.sub comps (fun _ => 0%Z)) [2%N] 1%N = (-11)%Z.
Proof. split; [reflexivity|split; [reflexivity|vm_compute; reflexivity]]. Qed.

(* ---- C13_normalised: with e an exponential-like homomorphism into a commutative ring F, dividing by
        Z(c) = sum_x e(sum_i lambda_i log p_i(x|c)) makes every context's distribution sum to one ------- *)
Section Normalised.
  Variable K : Type.
  Variables (k0 k1 : K) (kadd kmul ksub : K -> K -> K) (kopp : K -> K).
  Hypothesis Kring : ring_theory k0 k1 kadd kmul ksub kopp (@eq K).
  Add Ring Kr2 : Kring.
  Variable F : Type.
  Variables (f0 f1 : F) (fadd fmul fsub : F -> F -> F) (fopp : F -> F).
  Hypothesis Fring : ring_theory f0 f1 fadd fmul fsub fopp (@eq F).
  Add Ring Fr : Fring.
  Variable e : K -> F.
  Hypothesis e_add : forall a b, e (kadd a b) = fmul (e a) (e b).
  Hypothesis e_zero : e k0 = f1.

  Fixpoint fsum (l : list F) : F := match l with [] => f0 | x :: r => fadd x (fsum r) end.

  Lemma fsum_scale : forall (l : list F) c, fsum (map (fun y => fmul y c) l) = fmul (fsum l) c.
  Proof. induction l as [|y r IH]; intros c; simpl; [ring|]. rewrite IH. ring. Qed.

  Theorem normalised : forall (comps : list (K * table K)) (logZ : ngram -> K) (V : list wid) (c : ngram),
    e (logZ c) = fsum (map (fun x => e (wsum K k0 kadd kmul comps (fun T => score K k0 kadd T c x))) V) ->
    fsum (map (fun x => e (formula K k0 kadd kmul ksub comps logZ c x)) V) = f1.
  Proof.
    intros comps logZ V c HZ. set (z := logZ c) in *.
    set (a := fun x => wsum K k0 kadd kmul comps (fun T => score K k0 kadd T c x)) in *.
    set (t := fsum (map (fun x => e (formula K k0 kadd kmul ksub comps logZ c x)) V)).
    assert (H1 : fmul t (e z) = e z).
    { transitivity (fsum (map (fun x => e (a x)) V)); [|symmetry; exact HZ].
      unfold t. rewrite <- fsum_scale, map_map. f_equal. apply map_ext. intros x.
      unfold InterpSpec.formula. fold (a x). fold z. rewrite <- e_add. f_equal. ring. }
    assert (H2 : fmul (e z) (e (kopp z)) = f1).
    { rewrite <- e_add. rewrite <- e_zero. f_equal. ring. }
    transitivity (fmul (fmul t (e z)) (e (kopp z))).
    - transitivity (fmul t (fmul (e z) (e (kopp z)))); [rewrite H2; ring|ring].
    - rewrite H1. exact H2.
  Qed.
End Normalised.
