(* Executable model of lm/interpolate/bounded_sequence_encoding.{hh,cc}: the packing of the per-model back-off
   levels ("from" values) that pass 1 stores in every merged record and pass 2 decodes.
   Entry i takes bitlen(bound_i) bits; entries are packed into 64-bit words, a new word is started when the next
   entry does not fit; the record holds the full words (8 bytes each, little endian) and the used bytes of the last.
   Bytes are N < 256.  No proofs here. *)
From Coq Require Import List NArith Bool.
Import ListNotations.
Local Open Scope N_scope.

(* sizeof(unsigned)*8 - clz(bound) for bound >= 2, else 0 *)
Definition bitlen (b : N) : N := if b <=? 1 then 0 else N.size b.

Record entry := { e_next : bool; e_shift : N; e_len : N }.

(* the constructor: entries, number of full words, bits used in the last word *)
Fixpoint layout (bounds : list N) (shift : N) : list entry * N * N :=
  match bounds with
  | [] => ([], 0, shift)
  | b :: t =>
      let len := bitlen b in
      if 64 <? shift + len
      then let '(es, full, fs) := layout t len in ({| e_next := true; e_shift := 0; e_len := len |} :: es, full + 1, fs)
      else let '(es, full, fs) := layout t (shift + len) in ({| e_next := false; e_shift := shift; e_len := len |} :: es, full, fs)
  end.

Definition byte_length (full fs : N) : N := full * 8 + (fs + 7) / 8.
Definition overhang (blen : N) : N := if blen =? 0 then 0 else (blen - 1) mod 8 + 1.

(* memcpy of the low k bytes of a word / of k bytes into a zeroed word (little endian) *)
Fixpoint le_bytes (k : nat) (w : N) : list N :=
  match k with
  | O => []
  | S k' => (w mod 256) :: le_bytes k' (w / 256)
  end.
Fixpoint le_val (bs : list N) : N :=
  match bs with
  | [] => 0
  | b :: t => b + 256 * le_val t
  end.

(* Encode: cur |= value << shift; a word is flushed when the next entry starts a new one; the last word is written
   with overhang bytes *)
Fixpoint enc (oh : nat) (es : list entry) (vals : list N) (cur : N) : list N :=
  match es, vals with
  | e :: es', v :: vs =>
      if e_next e then le_bytes 8 cur ++ enc oh es' vs (N.shiftl v (e_shift e))
      else enc oh es' vs (N.lor cur (N.shiftl v (e_shift e)))
  | _, _ => le_bytes oh cur
  end.

Definition encode (bounds vals : list N) : list N :=
  let '(es, full, fs) := layout bounds 0 in
  enc (N.to_nat (overhang (byte_length full fs))) es vals 0.

(* Decode: the current word is the (at most 8) bytes at the current position: memcpy(&cur, from, min(8, remaining)) *)
Definition extract (cur : N) (e : entry) : N := N.land (N.shiftr cur (e_shift e)) (N.ones (e_len e)).
Fixpoint dec (es : list entry) (rest : list N) : list N :=
  match es with
  | [] => []
  | e :: es' =>
      let rest' := if e_next e then skipn 8 rest else rest in
      extract (le_val (firstn 8 rest')) e :: dec es' rest'
  end.
Definition decode (bounds : list N) (bytes : list N) : list N :=
  let '(es, _, _) := layout bounds 0 in dec es bytes.

Definition encoded_length (bounds : list N) : N := let '(_, full, fs) := layout bounds 0 in byte_length full fs.
