(* Executable model of lm/interpolate/merge_vocab.cc MergeVocab: a k-way merge, by 64-bit vocabulary hash,
   of the component vocabularies (each file lists its words in increasing hash order after <unk>).
   A reader is the not yet consumed part of one file (hashes of its words with index 1, 2, ...; index 0 is
   <unk> and maps to universal index 0) plus the universal indices assigned so far (reversed).
   The std::priority_queue is modelled by "a reader whose current hash is least" (the first such: which one
   the heap delivers among equal hashes does not influence the result).  No proofs here. *)
From Coq Require Import List NArith Bool Arith.
Import ListNotations.

Record reader := { r_rest : list N; r_map : list nat }.

(* position and value of a least current hash; None when every reader is exhausted (heap.empty()) *)
Fixpoint min_head (rs : list reader) : option (nat * N) :=
  match rs with
  | [] => None
  | r :: t =>
      match r_rest r, min_head t with
      | [], None => None
      | [], Some (i, v) => Some (S i, v)
      | h :: _, None => Some (0, h)
      | h :: _, Some (i, v) => if N.leb h v then Some (0, h) else Some (S i, v)
      end
  end.

(* vocab.InsertUniversalIdx(model, CurrentIndex, global_index); heap.pop(); if (++reader) heap.push(reader) *)
Fixpoint advance (rs : list reader) (i : nat) (gi : nat) : list reader :=
  match rs, i with
  | [], _ => []
  | r :: t, O => {| r_rest := tl (r_rest r); r_map := gi :: r_map r |} :: t
  | r :: t, S k => r :: advance t k gi
  end.

Fixpoint merge_loop (fuel : nat) (rs : list reader) (prev : N) (gidx : nat) (glob_rev : list N)
  : option (list N * list (list nat)) :=
  match fuel with
  | O => None
  | S f =>
      match min_head rs with
      | None => Some (rev glob_rev, map (fun r => rev (r_map r)) rs)
      | Some (i, v) =>
          if N.eqb v prev
          then merge_loop f (advance rs i gidx) v gidx glob_rev
          else merge_loop f (advance rs i (S gidx)) v (S gidx) (v :: glob_rev)        (* enumerate.Add(++global_index, word) *)
      end
  end.

Definition total (files : list (list N)) : nat := fold_right (fun l n => length l + n) 0 files.

(* result: hashes of universal words 1, 2, ... and, per model, the universal index of its words 1, 2, ... *)
Definition merge_vocab (files : list (list N)) : option (list N * list (list nat)) :=
  merge_loop (S (total files)) (map (fun l => {| r_rest := l; r_map := [] |}) files) 0%N 0 [].
