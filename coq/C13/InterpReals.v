(* C13 -- C13_normalised instantiated over Coq's real numbers with e = 10^x (Rpower 10).
   This file is the only place where the axioms of the standard library's reals enter. *)
From Coq Require Import List Reals Rpower RealField Lra.
From Kenlm Require Import C13.InterpSpec C13.InterpProofs.
Import ListNotations.
Local Open Scope R_scope.

Definition pow10 (x : R) : R := Rpower 10 x.

Lemma pow10_add : forall a b, pow10 (a + b) = pow10 a * pow10 b.
Proof. intros. apply Rpower_plus. Qed.

Lemma pow10_zero : pow10 0 = 1.
Proof. apply Rpower_O. lra. Qed.

Definition rsum (l : list R) : R := fsum R 0 Rplus l.

Theorem normalised_reals : forall (comps : list (R * table R)) (logZ : ngram -> R) (V : list wid) (c : ngram),
  pow10 (logZ c) = rsum (map (fun x => pow10 (wsum R 0 Rplus Rmult comps (fun T => score R 0 Rplus T c x))) V) ->
  rsum (map (fun x => pow10 (formula R 0 Rplus Rmult Rminus comps logZ c x)) V) = 1.
Proof.
  intros. unfold rsum.
  apply (normalised R 0 1 Rplus Rmult Rminus Ropp RTheory R 0 1 Rplus Rmult Rminus Ropp RTheory pow10 pow10_add pow10_zero).
  assumption.
Qed.
