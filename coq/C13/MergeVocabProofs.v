(* C13 -- MergeVocab yields the sorted union without duplicates; the per-model id maps point at the same
   hash in the universal list (hence they are injective and order preserving). *)
From Coq Require Import List NArith Bool Arith Lia Sorted.
From Kenlm Require Import C13.MergeVocabModel.
Import ListNotations.

Definition sinc (l : list N) : Prop := StronglySorted N.lt l.

(* ---- min_head ----------------------------------------------------------------------------------- *)
Lemma min_head_none : forall rs, min_head rs = None -> forall r, In r rs -> r_rest r = [].
Proof.
  induction rs as [|r t IH]; intros H r' Hin; [destruct Hin|].
  simpl in H. destruct (r_rest r) as [|h s] eqn:E.
  - destruct (min_head t) as [[i v]|] eqn:Em; [discriminate|].
    destruct Hin as [<-|Hin]; [exact E|]. now apply IH.
  - destruct (min_head t) as [[i v]|]; [destruct (N.leb h v)|]; discriminate.
Qed.

Lemma min_head_some : forall rs i v, min_head rs = Some (i, v) ->
  (exists r t, nth_error rs i = Some r /\ r_rest r = v :: t) /\
  (forall r h t, In r rs -> r_rest r = h :: t -> (v <= h)%N).
Proof.
  induction rs as [|r t IH]; intros i v H; [discriminate|].
  simpl in H. destruct (r_rest r) as [|h s] eqn:E.
  - destruct (min_head t) as [[j w]|] eqn:Em; [|discriminate]. inversion H; subst.
    destruct (IH j v eq_refl) as [[r0 [t0 [Hn Hr]]] Hmin]. split.
    + exists r0, t0. now split.
    + intros r' h' t' [<-|Hin] Hr'; [congruence|]. eapply Hmin; eauto.
  - destruct (min_head t) as [[j w]|] eqn:Em.
    + destruct (IH j w eq_refl) as [[r0 [t0 [Hn Hr]]] Hmin].
      destruct (N.leb h w) eqn:El; inversion H; subst.
      * apply N.leb_le in El. split.
        -- exists r, s. now split.
        -- intros r' h' t' [<-|Hin] Hr'; [rewrite E in Hr'; inversion Hr'; lia|].
           specialize (Hmin r' h' t' Hin Hr'). lia.
      * apply N.leb_gt in El. split.
        -- exists r0, t0. now split.
        -- intros r' h' t' [<-|Hin] Hr'; [rewrite E in Hr'; inversion Hr'; lia|]. eapply Hmin; eauto.
    + inversion H; subst. split.
      * exists r, s. now split.
      * intros r' h' t' [<-|Hin] Hr'; [rewrite E in Hr'; inversion Hr'; lia|].
        rewrite (min_head_none t Em r' Hin) in Hr'. discriminate.
Qed.

(* ---- the per-reader invariant -------------------------------------------------------------------- *)
Definition points (em : list N) (h : N) (gi : nat) : Prop := 1 <= gi /\ nth_error em (gi - 1) = Some h.

Definition rinv (em : list N) (l : list N) (r : reader) : Prop :=
  exists consumed, l = consumed ++ r_rest r /\ Forall2 (points em) consumed (rev (r_map r)).

Lemma Forall2_imp : forall {A B} (P Q : A -> B -> Prop) l1 l2,
  (forall a b, P a b -> Q a b) -> Forall2 P l1 l2 -> Forall2 Q l1 l2.
Proof. intros A B P Q l1 l2 H F. induction F; constructor; auto. Qed.

Lemma points_app : forall em x h gi, points em h gi -> points (em ++ x) h gi.
Proof.
  intros em x h gi [H1 H2]. split; [exact H1|]. rewrite nth_error_app1; [exact H2|].
  apply nth_error_Some. congruence.
Qed.

Lemma rinv_app : forall em x l r, rinv em l r -> rinv (em ++ x) l r.
Proof.
  intros em x l r [c [H1 H2]]. exists c. split; [exact H1|].
  eapply Forall2_imp; [|exact H2]. intros; now apply points_app.
Qed.

Lemma advance_length : forall rs i gi, length (advance rs i gi) = length rs.
Proof. induction rs as [|r t IH]; intros [|i] gi; simpl; auto. Qed.

Lemma Forall2_advance : forall (P : list N -> reader -> Prop) files rs i gi r,
  Forall2 P files rs -> nth_error rs i = Some r ->
  (forall l, P l r -> P l {| r_rest := tl (r_rest r); r_map := gi :: r_map r |}) ->
  Forall2 P files (advance rs i gi).
Proof.
  intros P files rs i gi r H. revert i. induction H as [|l r0 ls rs0 Hp Hf IH]; intros i Hn Hstep.
  - destruct i; discriminate.
  - destruct i as [|i]; simpl in *.
    + inversion Hn; subst. constructor; [now apply Hstep|exact Hf].
    + constructor; [exact Hp|]. now apply IH.
Qed.

Definition rest_total (rs : list reader) : nat := fold_right (fun r n => length (r_rest r) + n) 0 rs.

Lemma rest_total_advance : forall rs i gi r h t, nth_error rs i = Some r -> r_rest r = h :: t ->
  S (rest_total (advance rs i gi)) = rest_total rs.
Proof.
  induction rs as [|r0 rs IH]; intros [|i] gi r h t Hn Hr; simpl in *; try discriminate.
  - inversion Hn; subst. rewrite Hr. simpl. reflexivity.
  - rewrite <- (IH i gi r h t Hn Hr). lia.
Qed.

Lemma In_advance : forall rs i gi r', In r' (advance rs i gi) ->
  In r' rs \/ exists r, nth_error rs i = Some r /\ r' = {| r_rest := tl (r_rest r); r_map := gi :: r_map r |}.
Proof.
  induction rs as [|r0 rs IH]; intros [|i] gi r' H; simpl in *; try tauto.
  - destruct H as [<-|H]; [right; now exists r0|tauto].
  - destruct H as [<-|H]; [tauto|]. destruct (IH i gi r' H) as [H1|[r [H1 H2]]]; [tauto|]. right. now exists r.
Qed.

(* ---- sortedness helpers --------------------------------------------------------------------------- *)
Lemma sinc_app_last : forall em v, sinc em -> (forall h, In h em -> (h < v)%N) -> sinc (em ++ [v]).
Proof.
  induction em as [|a em IH]; intros v Hs Hlt; simpl.
  - constructor; constructor.
  - inversion Hs; subst. constructor.
    + apply IH; [assumption|]. intros h Hh. apply Hlt. now right.
    + apply Forall_app. split; [assumption|]. constructor; [|constructor]. apply Hlt. now left.
Qed.

Lemma sinc_last_max : forall em d h, sinc em -> In h em -> (h <= last em d)%N.
Proof.
  induction em as [|a em IH]; intros d h Hs Hin; [destruct Hin|].
  inversion Hs; subst. destruct em as [|b em].
  - destruct Hin as [<-|[]]. simpl. lia.
  - change (last (a :: b :: em) d) with (last (b :: em) d). destruct Hin as [<-|Hin].
    + rewrite Forall_forall in H2. specialize (H2 (last (b :: em) d)).
      assert (In (last (b :: em) d) (b :: em)).
      { clear. generalize b. induction em as [|c em IH]; intros b0; [now left|]. right. apply IH. }
      specialize (H2 H). lia.
    + now apply IH.
Qed.

Lemma sinc_suffix : forall a b, sinc (a ++ b) -> sinc b.
Proof. induction a as [|x a IH]; intros b H; [exact H|]. inversion H; subst. now apply IH. Qed.

Lemma sinc_head_min : forall h t x, sinc (h :: t) -> In x (h :: t) -> (h <= x)%N.
Proof.
  intros h t x H [<-|Hin]; [lia|]. inversion H; subst. rewrite Forall_forall in H3. specialize (H3 x Hin). lia.
Qed.

Lemma last_rev_hd : forall (l : list N) d, last (rev l) d = hd d l.
Proof. intros [|a l] d; [reflexivity|]. simpl. apply last_last. Qed.

(* ---- the loop invariant ---------------------------------------------------------------------------- *)
Record inv (files : list (list N)) (rs : list reader) (prev : N) (gidx : nat) (glob_rev : list N) : Prop := {
  i_readers : Forall2 (rinv (rev glob_rev)) files rs;
  i_gidx : gidx = length glob_rev;
  i_sorted : sinc (rev glob_rev);
  i_prev : prev = hd 0%N glob_rev;
  i_ge : forall r h, In r rs -> In h (r_rest r) -> (prev <= h)%N /\ (0 < h)%N;
  i_rest_sorted : forall r, In r rs -> sinc (r_rest r);
  i_sound : forall h, In h glob_rev -> exists l, In l files /\ In h l
}.

Definition good_files (files : list (list N)) : Prop :=
  forall l, In l files -> sinc l /\ forall h, In h l -> (0 < h)%N.

Lemma rinv_In_file : forall em l r h, rinv em l r -> In h (r_rest r) -> In h l.
Proof. intros em l r h [c [-> _]] H. apply in_or_app. now right. Qed.

Lemma Forall2_nth_l : forall (P : list N -> reader -> Prop) files rs i r,
  Forall2 P files rs -> nth_error rs i = Some r -> exists l, nth_error files i = Some l /\ P l r.
Proof.
  intros P files rs i r H. revert i. induction H as [|l r0 ls rs0 Hp Hf IH]; intros [|i] Hn; simpl in *; try discriminate.
  - inversion Hn; subst. now exists l.
  - now apply IH.
Qed.

Lemma inv_step : forall files rs prev gidx glob_rev i v,
  inv files rs prev gidx glob_rev -> min_head rs = Some (i, v) ->
  if N.eqb v prev
  then inv files (advance rs i gidx) v gidx glob_rev
  else inv files (advance rs i (S gidx)) v (S gidx) (v :: glob_rev).
Proof.
  intros files rs prev gidx glob_rev i v I Hm.
  destruct (min_head_some rs i v Hm) as [[r [t [Hn Hr]]] Hmin].
  destruct I as [Ird Igx Iso Ipv Ige Irs Isd].
  assert (Hrin : In r rs) by (eapply nth_error_In; eauto).
  assert (Hvin : In v (r_rest r)) by (rewrite Hr; now left).
  destruct (Ige r v Hrin Hvin) as [Hpv Hpos].
  destruct (Forall2_nth_l _ _ _ _ _ Ird Hn) as [l [Hl Hrl]].
  (* every remaining element is >= v *)
  assert (Hall : forall r' h, In r' rs -> In h (r_rest r') -> (v <= h)%N).
  { intros r' h Hr' Hh. destruct (r_rest r') as [|h0 t0] eqn:E; [destruct Hh|].
    pose proof (Hmin r' h0 t0 Hr' E). pose proof (Irs r' Hr') as Hs. rewrite E in Hs.
    pose proof (sinc_head_min h0 t0 h Hs Hh). lia. }
  assert (Hgen : forall gi prev' glob',
     (forall l0 r0, rinv (rev glob_rev) l0 r0 -> rinv (rev glob') l0 r0) ->
     points (rev glob') v gi -> prev' = v ->
     Forall2 (rinv (rev glob')) files (advance rs i gi) /\
     (forall r' h, In r' (advance rs i gi) -> In h (r_rest r') -> (prev' <= h)%N /\ (0 < h)%N) /\
     (forall r', In r' (advance rs i gi) -> sinc (r_rest r'))).
  { intros gi prev' glob' Hmono Hpt ->. split; [|split].
    - apply Forall2_advance with (r := r); [|exact Hn|].
      + eapply Forall2_imp; [|exact Ird]. exact Hmono.
      + intros l0 [c [H1 H2]]. exists (c ++ [v]). simpl. rewrite Hr in *. simpl. split.
        * rewrite <- app_assoc. exact H1.
        * apply Forall2_app; [exact H2|]. constructor; [exact Hpt|constructor].
    - intros r' h Hr' Hh. destruct (In_advance _ _ _ _ Hr') as [H|[r0 [H1 ->]]].
      + split; [now apply (Hall r' h)|now apply (Ige r' h)].
      + rewrite Hn in H1. inversion H1; subst r0. simpl in Hh. rewrite Hr in Hh. simpl in Hh.
        split; [apply (Hall r h Hrin); rewrite Hr; now right|apply (Ige r h Hrin); rewrite Hr; now right].
    - intros r' Hr'. destruct (In_advance _ _ _ _ Hr') as [H|[r0 [H1 ->]]]; [now apply Irs|].
      rewrite Hn in H1. inversion H1; subst r0. simpl. pose proof (Irs r Hrin) as Hs. rewrite Hr in *.
      simpl. inversion Hs; assumption. }
  destruct (N.eqb v prev) eqn:Ev.
  - apply N.eqb_eq in Ev. subst v.
    assert (Hne : glob_rev <> []).
    { intros ->. simpl in Ipv. lia. }
    destruct (Hgen gidx prev glob_rev (fun _ _ H => H)) as [G1 [G2 G3]]; [|reflexivity|].
    { split; [subst gidx; destruct glob_rev; [congruence|simpl; lia]|].
      subst gidx. destruct glob_rev as [|g gl]; [congruence|]. simpl in Ipv. subst g.
      simpl rev. rewrite nth_error_app2; rewrite rev_length; simpl; [|lia].
      replace (length gl - 0 - length gl) with 0 by lia. reflexivity. }
    constructor; auto.
  - apply N.eqb_neq in Ev. assert (Hlt : (prev < v)%N) by lia.
    assert (Hall_lt : forall h, In h (rev glob_rev) -> (h < v)%N).
    { intros h Hh. pose proof (sinc_last_max (rev glob_rev) 0%N h Iso Hh) as Hm2.
      rewrite last_rev_hd in Hm2. rewrite <- Ipv in Hm2. lia. }
    destruct (Hgen (S gidx) v (v :: glob_rev)) as [G1 [G2 G3]]; [| |reflexivity|].
    { intros l0 r0. simpl rev. apply rinv_app. }
    { split; [lia|]. simpl rev. subst gidx. rewrite nth_error_app2; rewrite rev_length; simpl; [|lia].
      replace (length glob_rev - 0 - length glob_rev) with 0 by lia. reflexivity. }
    constructor; auto.
    + simpl. lia.
    + simpl rev. now apply sinc_app_last.
    + intros h [<-|Hh]; [|now apply Isd].
      exists l. split; [eapply nth_error_In; eauto|]. now apply (rinv_In_file _ _ _ _ Hrl).
Qed.

Lemma merge_loop_correct : forall fuel files rs prev gidx glob_rev,
  inv files rs prev gidx glob_rev -> rest_total rs < fuel ->
  exists glob maps, merge_loop fuel rs prev gidx glob_rev = Some (glob, maps) /\
    sinc glob /\ (forall h, In h glob -> exists l, In l files /\ In h l) /\
    Forall2 (fun l mp => Forall2 (points glob) l mp) files maps.
Proof.
  induction fuel as [|f IH]; intros files rs prev gidx glob_rev I Hf; [lia|].
  simpl. destruct (min_head rs) as [[i v]|] eqn:Hm.
  - pose proof (inv_step _ _ _ _ _ _ _ I Hm) as Hs.
    destruct (min_head_some rs i v Hm) as [[r [t [Hn Hr]]] _].
    destruct (N.eqb v prev).
    + apply IH; [exact Hs|]. pose proof (rest_total_advance rs i gidx r v t Hn Hr). lia.
    + apply IH; [exact Hs|]. pose proof (rest_total_advance rs i (S gidx) r v t Hn Hr). lia.
  - exists (rev glob_rev), (map (fun r => rev (r_map r)) rs). split; [reflexivity|].
    destruct I as [Ird Igx Iso Ipv Ige Irs Isd]. split; [exact Iso|]. split.
    + intros h Hh. apply Isd. now apply in_rev.
    + pose proof (min_head_none rs Hm) as Hnone. clear - Ird Hnone.
      induction Ird as [|l r ls rs0 Hp Hf IH]; simpl; constructor.
      * destruct Hp as [c [H1 H2]]. rewrite (Hnone r (or_introl eq_refl)), app_nil_r in H1. now subst.
      * apply IH. intros r' Hr'. apply Hnone. now right.
Qed.

Lemma rest_total_init : forall files, rest_total (map (fun l => {| r_rest := l; r_map := [] |}) files) = total files.
Proof. induction files as [|l fs IH]; simpl; [reflexivity|]. now rewrite IH. Qed.

Theorem merge_vocab_correct : forall files, good_files files ->
  exists glob maps, merge_vocab files = Some (glob, maps) /\
    sinc glob /\
    (forall h, In h glob <-> exists l, In l files /\ In h l) /\
    Forall2 (fun l mp => Forall2 (points glob) l mp) files maps.
Proof.
  intros files Hg. unfold merge_vocab.
  destruct (merge_loop_correct (S (total files)) files (map (fun l => {| r_rest := l; r_map := [] |}) files) 0%N 0 [])
    as [glob [maps [H1 [H2 [H3 H4]]]]].
  - constructor; simpl; auto.
    + induction files as [|l fs IH]; simpl; constructor.
      * exists []. simpl. split; [reflexivity|constructor].
      * apply IH. intros l0 H0. apply Hg. now right.
    + constructor.
    + intros r h Hr Hh. apply in_map_iff in Hr as [l [<- Hl]]. simpl in Hh.
      destruct (Hg l Hl) as [_ Hp]. specialize (Hp h Hh). lia.
    + intros r Hr. apply in_map_iff in Hr as [l [<- Hl]]. simpl. now apply Hg.
    + intros h [].
  - rewrite rest_total_init. lia.
  - exists glob, maps. split; [exact H1|]. split; [exact H2|]. split; [|exact H4].
    intros h. split; [apply H3|]. intros [l [Hl Hh]].
    clear - H4 Hl Hh. induction H4 as [|l0 mp ls mps Hp Hf IH]; [destruct Hl|].
    destruct Hl as [->|Hl]; [|now apply IH].
    clear - Hp Hh. induction Hp as [|h0 gi l1 mp1 Hpt Hf IH]; [destruct Hh|].
    destruct Hh as [<-|Hh]; [|now apply IH]. destruct Hpt as [_ Hn]. eapply nth_error_In; eauto.
Qed.

(* the id map of every model is strictly increasing (injective and order preserving) *)
Lemma sinc_nth_lt : forall glob a b x y, sinc glob -> a < b -> nth_error glob a = Some x -> nth_error glob b = Some y -> (x < y)%N.
Proof.
  induction glob as [|g gl IH]; intros a b x y Hs Hab Ha Hb; [destruct a; discriminate|].
  inversion Hs; subst. destruct a as [|a]; destruct b as [|b]; simpl in *; try lia.
  - inversion Ha; subst. rewrite Forall_forall in H2. apply H2. eapply nth_error_In; eauto.
  - apply (IH a b x y); [assumption|lia|assumption|assumption].
Qed.

Theorem map_strictly_increasing : forall glob l mp, sinc glob -> sinc l -> Forall2 (points glob) l mp ->
  StronglySorted lt mp.
Proof.
  intros glob l mp Hg Hl H. induction H as [|h gi l mp Hpt Hf IH]; [constructor|].
  inversion Hl; subst. constructor; [now apply IH|].
  rewrite Forall_forall. intros gj Hgj.
  assert (exists h2, In h2 l /\ points glob h2 gj) as [h2 [Hh2 [Hj1 Hj2]]].
  { clear - Hf Hgj. induction Hf as [|a b l mp Hp Hf IH]; [destruct Hgj|].
    destruct Hgj as [<-|Hgj]; [exists a; split; [now left|exact Hp]|].
    destruct (IH Hgj) as [h2 [H1 H2]]. exists h2. split; [now right|exact H2]. }
  destruct Hpt as [Hi1 Hi2]. rewrite Forall_forall in H2. specialize (H2 h2 Hh2).
  destruct (Nat.lt_ge_cases gi gj) as [|Hge]; [assumption|]. exfalso.
  destruct (Nat.eq_dec gi gj) as [->|Hne]; [rewrite Hi2 in Hj2; inversion Hj2; lia|].
  assert (Hlt : gj - 1 < gi - 1) by lia.
  pose proof (sinc_nth_lt glob (gj - 1) (gi - 1) h2 h Hg Hlt Hj2 Hi2). lia.
Qed.

(* the hypotheses are satisfiable *)
Example merge_vocab_example :
  good_files [[3; 5; 9]; [1; 5]; []]%N /\
  merge_vocab [[3; 5; 9]; [1; 5]; []]%N = Some ([1; 3; 5; 9]%N, [[2; 3; 4]; [1; 3]; []]).
Proof.
  split; [|vm_compute; reflexivity].
  intros l [<-|[<-|[<-|[]]]]; (split; [repeat constructor|]); simpl; intros h H;
    repeat (destruct H as [<-|H]; [reflexivity|]); destruct H.
Qed.
