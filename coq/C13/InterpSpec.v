(* C13 -- specification: log-linear interpolation as the normalised weighted product of its inputs.

   "... writes an ARPA model over the union vocabulary and union n-gram set in which, for every context,
    log p(w|context) equals the weighted sum of the component models' back-off log probabilities (a word
    missing from a component counts as its <unk>) minus a per-context normaliser, so that each context's
    distribution sums to one.  With a single model and weight one the input model is reproduced."

   Scores live in a commutative ring K with Leibniz equality, given by its operations (the theorems take a
   ring_theory as hypothesis; the executable model instantiates K := Z, log-probabilities and weights
   being exact integers in units of 2^-149 -- every float32 is such an integer).
   Words are universal vocabulary ids (N, 0 = <unk>); an n-gram is a list of words, oldest first. *)
From Coq Require Import List NArith Bool Arith.
Import ListNotations.

Definition wid := N.
Definition ngram := list wid.
Definition UNK : wid := 0%N.

Section Spec.
  Variable K : Type.
  Variables (k0 : K) (kadd kmul ksub : K -> K -> K).

  (* one component model: n-gram -> (log probability, log back-off) *)
  Definition table := ngram -> option (K * K).

  Definition prob_of (T : table) (g : ngram) : option K := match T g with Some (p, _) => Some p | None => None end.
  Definition bo (T : table) (c : ngram) : K := match T c with Some (_, b) => b | None => k0 end.
  Definition unkp (T : table) : K := match T [UNK] with Some (p, _) => p | None => k0 end.

  (* full back-off log probability of x after context c (the ARPA recursion); a word that is not listed as a
     unigram counts as <unk> *)
  Fixpoint score (T : table) (c : ngram) (x : wid) : K :=
    match T (c ++ [x]) with
    | Some (p, _) => p
    | None => match c with
              | [] => unkp T
              | _ :: c' => kadd (bo T c) (score T c' x)
              end
    end.

  (* weighted sum over the components *)
  Fixpoint wsum (comps : list (K * table)) (f : table -> K) : K :=
    match comps with
    | [] => k0
    | (lam, T) :: r => kadd (kmul lam (f T)) (wsum r f)
    end.

  (* union n-gram set *)
  Definition listed (T : table) (g : ngram) : bool := match T g with Some _ => true | None => false end.
  Definition inU (comps : list (K * table)) (g : ngram) : bool := existsb (fun lt => listed (snd lt) g) comps.

  (* the defining formula: log p_I(x | c) = sum_i lambda_i log p_i(x | c) - log Z(c) *)
  Definition formula (comps : list (K * table)) (logZ : ngram -> K) (c : ngram) (x : wid) : K :=
    ksub (wsum comps (fun T => score T c x)) (logZ c).

  (* the emitted ARPA table: for every n-gram g = c.x of the union set
       probability  sum_i lambda_i log p_i(x|c) - log Z(c)
       back-off     log Z(c') + sum_i lambda_i b_i(g) - log Z(g)        (c' = g without its oldest word) *)
  Definition emitted (comps : list (K * table)) (logZ : ngram -> K) : table :=
    fun g => if inU comps g
             then Some (formula comps logZ (removelast g) (last g UNK),
                        ksub (kadd (logZ (tl g)) (wsum comps (fun T => bo T g))) (logZ g))
             else None.
End Spec.
