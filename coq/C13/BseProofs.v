(* C13 -- BoundedSequenceEncoding: what Encode packs, Decode returns (for every vector of bounds and every vector of
   values below 2^bitlen(bound)), at the level of the bytes of the record and with the decoder's min(8, remaining)
   loads. *)
From Coq Require Import List NArith Arith Bool Lia.
From Kenlm Require Import C13.BseModel.
Import ListNotations.
Local Open Scope N_scope.

(* ---- bytes <-> words ------------------------------------------------------------------------------------------- *)
Lemma le_bytes_length : forall k w, length (le_bytes k w) = k.
Proof. induction k as [|k IH]; intros w; simpl; [reflexivity|]. now rewrite IH. Qed.

Lemma le_val_le_bytes : forall k w, le_val (le_bytes k w) = w mod 2 ^ (8 * N.of_nat k).
Proof.
  induction k as [|k IH]; intros w.
  - simpl. now rewrite N.mod_1_r.
  - cbn [le_bytes le_val]. rewrite IH.
    replace (8 * N.of_nat (S k)) with (8 + 8 * N.of_nat k) by lia.
    rewrite N.pow_add_r. change (2 ^ 8) with 256.
    rewrite (N.mod_mul_r w 256 (2 ^ (8 * N.of_nat k))); [lia|lia|]. apply N.pow_nonzero. lia.
Qed.

Lemma le_val_le_bytes_small : forall k w, w < 2 ^ (8 * N.of_nat k) -> le_val (le_bytes k w) = w.
Proof. intros k w H. rewrite le_val_le_bytes. now apply N.mod_small. Qed.

(* ---- the layout ---------------------------------------------------------------------------------------------------- *)
Fixpoint lay (s : N) (es : list entry) : Prop :=
  match es with
  | [] => True
  | e :: t => if e_next e then e_shift e = 0 /\ e_len e <= 64 /\ lay (e_len e) t
              else e_shift e = s /\ s + e_len e <= 64 /\ lay (s + e_len e) t
  end.
Fixpoint fin (s : N) (es : list entry) : N :=
  match es with
  | [] => s
  | e :: t => if e_next e then fin (e_len e) t else fin (s + e_len e) t
  end.

Lemma layout_lay : forall bounds s es full fs, layout bounds s = (es, full, fs) ->
  (forall b, In b bounds -> bitlen b <= 64) ->
  lay s es /\ fin s es = fs /\ Forall2 (fun b e => e_len e = bitlen b) bounds es.
Proof.
  induction bounds as [|b t IH]; intros s es full fs H Hb; simpl in H.
  - inversion H; subst. repeat split. constructor.
  - destruct (64 <? s + bitlen b) eqn:E.
    + destruct (layout t (bitlen b)) as [[es' full'] fs'] eqn:El. inversion H; subst.
      destruct (IH _ _ _ _ El (fun x Hx => Hb x (or_intror Hx))) as [H1 [H2 H3]].
      simpl. repeat split; auto. apply Hb. now left.
    + destruct (layout t (s + bitlen b)) as [[es' full'] fs'] eqn:El. inversion H; subst.
      destruct (IH _ _ _ _ El (fun x Hx => Hb x (or_intror Hx))) as [H1 [H2 H3]].
      apply N.ltb_ge in E. simpl. repeat split; auto.
Qed.

Lemma fin_le : forall es s, s <= 64 -> lay s es -> fin s es <= 64.
Proof.
  induction es as [|e t IH]; intros s Hs Hl; simpl in *; [exact Hs|].
  destruct (e_next e); destruct Hl as [_ [H2 H3]]; now apply IH.
Qed.

(* ---- the word the decoder sees ---------------------------------------------------------------------------------- *)
(* final value of the current word *)
Fixpoint fw (es : list entry) (vals : list N) (cur : N) : N :=
  match es, vals with
  | e :: es', v :: vs => if e_next e then cur else fw es' vs (N.lor cur (N.shiftl v (e_shift e)))
  | _, _ => cur
  end.

Definition vals_ok (es : list entry) (vals : list N) : Prop := Forall2 (fun e v => v < 2 ^ e_len e) es vals.

Lemma lor_lt_pow2 : forall a b n, a < 2 ^ n -> b < 2 ^ n -> N.lor a b < 2 ^ n.
Proof.
  intros a b n Ha Hb.
  destruct (N.eq_dec a 0) as [->|Ha0]; [now rewrite N.lor_0_l|].
  destruct (N.eq_dec b 0) as [->|Hb0]; [now rewrite N.lor_0_r|].
  assert (Hne : N.lor a b <> 0) by (intros H; apply N.lor_eq_0_iff in H; tauto).
  apply N.log2_lt_pow2; [lia|]. rewrite N.log2_lor. apply N.log2_lt_pow2 in Ha, Hb; lia.
Qed.

Lemma lor_shiftl_lt : forall cur v s l, cur < 2 ^ s -> v < 2 ^ l -> N.lor cur (N.shiftl v s) < 2 ^ (s + l).
Proof.
  intros cur v s l Hc Hv. apply lor_lt_pow2.
  - eapply N.lt_le_trans; [exact Hc|]. apply N.pow_le_mono_r; lia.
  - rewrite N.shiftl_mul_pow2, N.pow_add_r, N.mul_comm. apply N.mul_lt_mono_pos_l; [|exact Hv].
    apply N.neq_0_lt_0. apply N.pow_nonzero. lia.
Qed.

(* bits below the running shift are never touched again *)
Lemma fw_low : forall es vals cur s i, lay s es -> i < s -> N.testbit (fw es vals cur) i = N.testbit cur i.
Proof.
  induction es as [|e es IH]; intros vals cur s i Hl Hi; [reflexivity|].
  destruct vals as [|v vs]; [reflexivity|]. simpl in *. destruct (e_next e); [reflexivity|].
  destruct Hl as [Hs [_ Hl]]. rewrite (IH vs _ (s + e_len e) i Hl ltac:(lia)).
  rewrite N.lor_spec, Hs, N.shiftl_spec_low by exact Hi. now rewrite orb_false_r.
Qed.

Lemma testbit_high : forall x s i, x < 2 ^ s -> s <= i -> N.testbit x i = false.
Proof.
  intros x s i Hx Hi. destruct (N.eq_dec x 0) as [->|H0]; [apply N.bits_0|].
  apply N.bits_above_log2. apply N.log2_lt_pow2 in Hx; lia.
Qed.

(* extraction of an entry from the final word *)
Lemma extract_fw : forall e es vals cur v, lay (e_shift e + e_len e) es ->
  cur < 2 ^ e_shift e -> v < 2 ^ e_len e ->
  extract (fw es vals (N.lor cur (N.shiftl v (e_shift e)))) e = v.
Proof.
  intros e es vals cur v Hl Hc Hv. unfold extract. apply N.bits_inj. intros i.
  rewrite N.land_spec, N.shiftr_spec by lia. destruct (N.ltb_spec i (e_len e)) as [Hi|Hi].
  - rewrite N.ones_spec_low by exact Hi. rewrite andb_true_r.
    rewrite (fw_low es vals _ (e_shift e + e_len e) (i + e_shift e) Hl ltac:(lia)).
    rewrite N.lor_spec, N.shiftl_spec_high by lia.
    rewrite (testbit_high cur (e_shift e) (i + e_shift e) Hc ltac:(lia)). simpl. f_equal. lia.
  - rewrite N.ones_spec_high by exact Hi. rewrite andb_false_r. symmetry. now apply (testbit_high v (e_len e)).
Qed.

Lemma firstn_app_exact : forall {A} (a b : list A) n, length a = n -> firstn n (a ++ b) = a.
Proof. intros A a b n <-. rewrite firstn_app, Nat.sub_diag, firstn_all. simpl. now rewrite app_nil_r. Qed.

Lemma skipn_app_exact : forall {A} (a b : list A) n, length a = n -> skipn n (a ++ b) = b.
Proof. intros A a b n <-. rewrite skipn_app, Nat.sub_diag, skipn_all. reflexivity. Qed.

(* the decoder's current word is the encoder's final word; F = bits used in the last word *)
Lemma first_word : forall es vals oh cur s F, lay s es -> vals_ok es vals -> s <= 64 -> cur < 2 ^ s ->
  (oh <= 8)%nat -> fin s es = F -> (F = 0 \/ F <= 8 * N.of_nat oh) ->
  le_val (firstn 8 (enc oh es vals cur)) = fw es vals cur.
Proof.
  induction es as [|e es IH]; intros vals oh cur s F Hl Hv Hs Hc Hoh HF Hfin.
  - cbn [enc fw]. rewrite firstn_all2 by (rewrite le_bytes_length; exact Hoh).
    cbn [fin] in HF. subst F. destruct Hfin as [H|H].
    + subst s. simpl in Hc. assert (cur = 0) by lia. subst cur. rewrite le_val_le_bytes. apply N.mod_0_l. apply N.pow_nonzero. lia.
    + apply le_val_le_bytes_small. eapply N.lt_le_trans; [exact Hc|]. apply N.pow_le_mono_r; lia.
  - destruct vals as [|v vs]; [inversion Hv|]. inversion Hv as [|? ? ? ? Hv1 Hv2]; subst. cbn [enc fw lay fin] in *.
    destruct (e_next e).
    + rewrite firstn_app_exact by apply le_bytes_length. apply le_val_le_bytes_small.
      change (8 * N.of_nat 8) with 64. eapply N.lt_le_trans; [exact Hc|]. apply N.pow_le_mono_r; lia.
    + destruct Hl as [Hsh [Hle Hl]]. apply (IH vs oh _ (s + e_len e) (fin (s + e_len e) es)); auto.
      rewrite Hsh. now apply lor_shiftl_lt.
Qed.

(* ---- round trip ---------------------------------------------------------------------------------------------------- *)
Lemma dec_enc : forall es vals oh cur s F, lay s es -> vals_ok es vals -> s <= 64 -> cur < 2 ^ s -> (oh <= 8)%nat ->
  fin s es = F -> (F = 0 \/ F <= 8 * N.of_nat oh) ->
  dec es (enc oh es vals cur) = vals.
Proof.
  induction es as [|e es IH]; intros vals oh cur s F Hl Hv Hs Hc Hoh HF Hfin.
  - inversion Hv. reflexivity.
  - destruct vals as [|v vs]; [inversion Hv|]. inversion Hv as [|? ? ? ? Hv1 Hv2]; subst.
    cbn [dec enc]. simpl in Hl. simpl fin in Hfin. destruct (e_next e) eqn:En.
    + destruct Hl as [Hsh [Hle Hl]].
      rewrite skipn_app_exact by apply le_bytes_length.
      assert (Hc0 : N.shiftl v (e_shift e) < 2 ^ e_len e) by (rewrite Hsh, N.shiftl_0_r; exact Hv1).
      f_equal.
      * rewrite (first_word es vs oh _ (e_len e) _ Hl Hv2 Hle Hc0 Hoh eq_refl Hfin).
        rewrite <- (N.lor_0_l (N.shiftl v (e_shift e))).
        apply extract_fw; [rewrite Hsh; exact Hl|rewrite Hsh; simpl; lia|exact Hv1].
      * apply (IH vs oh _ (e_len e) _ Hl Hv2 Hle Hc0 Hoh eq_refl Hfin).
    + destruct Hl as [Hsh [Hle Hl]].
      assert (Hc1 : N.lor cur (N.shiftl v (e_shift e)) < 2 ^ (s + e_len e)) by (rewrite Hsh; now apply lor_shiftl_lt).
      f_equal.
      * rewrite (first_word es vs oh _ (s + e_len e) _ Hl Hv2 Hle Hc1 Hoh eq_refl Hfin).
        apply extract_fw; [rewrite Hsh; exact Hl|rewrite Hsh; exact Hc|exact Hv1].
      * apply (IH vs oh _ (s + e_len e) _ Hl Hv2 Hle Hc1 Hoh eq_refl Hfin).
Qed.

(* the size of the last word as the constructor computes it covers the bits used *)
Lemma overhang_covers : forall full fs, fs <= 64 ->
  let oh := overhang (byte_length full fs) in oh <= 8 /\ (fs = 0 \/ fs <= 8 * oh).
Proof.
  intros full fs Hfs. unfold overhang, byte_length. cbv zeta.
  destruct (N.eq_dec fs 0) as [->|Hne].
  - split; [|now left]. destruct (full * 8 + (0 + 7) / 8 =? 0); [lia|].
    pose proof (N.mod_upper_bound (full * 8 + (0 + 7) / 8 - 1) 8 ltac:(lia)). lia.
  - set (c := (fs + 7) / 8).
    assert (Hc : 1 <= c <= 8 /\ fs <= 8 * c).
    { pose proof (N.div_mod (fs + 7) 8 ltac:(lia)) as H1. pose proof (N.mod_upper_bound (fs + 7) 8 ltac:(lia)) as H2.
      fold c in H1. generalize dependent ((fs + 7) mod 8). intros r H1 H2. clearbody c. lia. }
    replace (full * 8 + c =? 0) with false by (symmetry; apply N.eqb_neq; lia).
    replace (full * 8 + c - 1) with ((c - 1) + full * 8) by lia.
    rewrite N.mod_add by lia. rewrite N.mod_small by lia. split; [lia|right; lia].
Qed.

Theorem bse_roundtrip : forall bounds vals,
  (forall b, In b bounds -> b < 256) ->
  Forall2 (fun b v => v < 2 ^ bitlen b) bounds vals ->
  decode bounds (encode bounds vals) = vals.
Proof.
  intros bounds vals Hb Hv. unfold decode, encode.
  destruct (layout bounds 0) as [[es full] fs] eqn:El.
  assert (Hlen : forall b, In b bounds -> bitlen b <= 64).
  { intros b Hin. specialize (Hb b Hin). unfold bitlen. destruct (b <=? 1); [lia|].
    assert (N.size b <= 8); [|lia]. destruct (N.eq_dec b 0) as [->|Hb0]; [simpl; lia|].
    rewrite N.size_log2 by exact Hb0. change 256 with (2 ^ 8) in Hb. apply N.log2_lt_pow2 in Hb; lia. }
  destruct (layout_lay bounds 0 es full fs El Hlen) as [Hl [Hf Hlens]].
  pose proof (fin_le es 0 ltac:(lia) Hl) as Hfs. rewrite Hf in Hfs.
  destruct (overhang_covers full fs Hfs) as [Hoh Hcov].
  assert (Hok : vals_ok es vals).
  { clear - Hv Hlens. revert vals Hv. induction Hlens as [|b e bs es Hbe Hf IH]; intros vals Hv; inversion Hv; subst; constructor.
    - now rewrite Hbe.
    - now apply IH. }
  apply (dec_enc es vals (N.to_nat (overhang (byte_length full fs))) 0 0 fs Hl Hok).
  - lia.
  - simpl. lia.
  - lia.
  - exact Hf.
  - rewrite N2Nat.id. exact Hcov.
Qed.

(* hypotheses satisfiable; the example needs three 64-bit words (43 entries of 3 bits) *)
Example bse_example :
  let bounds := repeat 4 43 in let vals := repeat 3 43 in
  (forall b, In b bounds -> b < 256) /\ Forall2 (fun b v => v < 2 ^ bitlen b) bounds vals /\
  encoded_length bounds = 17 /\ decode bounds (encode bounds vals) = vals.
Proof.
  cbv zeta. split; [intros b Hb; apply repeat_spec in Hb; subst; reflexivity|].
  split; [|split; vm_compute; reflexivity].
  assert (H : forall n, Forall2 (fun b v : N => v < 2 ^ bitlen b) (repeat 4 n) (repeat 3 n)).
  { induction n; simpl; constructor; [reflexivity|assumption]. }
  apply H.
Qed.
