(* C13 -- the property theorems and nothing else.  Each is closed by `exact <lemma>`; vlib runs
   Print Assumptions on every one of them on every check run.
   K is any commutative ring with Leibniz equality (scores: log-probabilities, back-offs, weights). *)
From Coq Require Import List NArith ZArith Bool Arith Ring_theory Sorted Reals.
From Kenlm Require Import C13.InterpSpec C13.InterpModel C13.MergeVocabModel C13.InterpProofs C13.MergeVocabProofs C13.InterpReals C13.BseModel C13.BseProofs.
Import ListNotations.

(* For ANY function logZ, the emitted (probability, back-off) table, evaluated by the ARPA back-off recursion,
   equals  sum_i lambda_i log p_i(x|c) - log Z(c)  for every context c and word x, listed or not -- provided
   <unk> is listed and log Z of a context that is no listed n-gram is that of the shortened context (true of
   the real normaliser: such a context has no listed continuation in any component). *)
Theorem C13_arpa_represents_formula :
  forall (K : Type) (k0 k1 : K) (kadd kmul ksub : K -> K -> K) (kopp : K -> K),
  ring_theory k0 k1 kadd kmul ksub kopp (@eq K) ->
  forall (comps : list (K * table K)) (logZ : ngram -> K),
  inU K comps [UNK] = true ->
  (forall c, c <> [] -> inU K comps c = false -> logZ c = logZ (tl c)) ->
  forall c x, score K k0 kadd (emitted K k0 kadd kmul ksub comps logZ) c x = formula K k0 kadd kmul ksub comps logZ c x.
Proof. exact arpa_represents_formula. Qed.

(* If e is exponential-like (e(a+b) = e a * e b, e 0 = 1) into a commutative ring F and e(log Z(c)) is the sum
   over the vocabulary V of e(sum_i lambda_i log p_i(x|c)), the interpolated distribution of c sums to one. *)
Theorem C13_normalised :
  forall (K : Type) (k0 k1 : K) (kadd kmul ksub : K -> K -> K) (kopp : K -> K),
  ring_theory k0 k1 kadd kmul ksub kopp (@eq K) ->
  forall (F : Type) (f0 f1 : F) (fadd fmul fsub : F -> F -> F) (fopp : F -> F),
  ring_theory f0 f1 fadd fmul fsub fopp (@eq F) ->
  forall e : K -> F, (forall a b, e (kadd a b) = fmul (e a) (e b)) -> e k0 = f1 ->
  forall (comps : list (K * table K)) (logZ : ngram -> K) (V : list wid) (c : ngram),
  e (logZ c) = fsum F f0 fadd (map (fun x => e (wsum K k0 kadd kmul comps (fun T => score K k0 kadd T c x))) V) ->
  fsum F f0 fadd (map (fun x => e (formula K k0 kadd kmul ksub comps logZ c x)) V) = f1.
Proof. exact normalised. Qed.

(* the same over the real numbers with e = 10^x (this one depends on the axioms of the standard library's reals) *)
Theorem C13_normalised_reals :
  forall (comps : list (R * table R)) (logZ : ngram -> R) (V : list wid) (c : ngram),
  pow10 (logZ c) = rsum (map (fun x => pow10 (wsum R 0%R Rplus Rmult comps (fun T => score R 0%R Rplus T c x))) V) ->
  rsum (map (fun x => pow10 (formula R 0%R Rplus Rmult Rminus comps logZ c x)) V) = 1%R.
Proof. exact normalised_reals. Qed.

(* One model, weight one, normaliser one everywhere (the input is normalised): the input table is reproduced. *)
Theorem C13_single_model_identity :
  forall (K : Type) (k0 k1 : K) (kadd kmul ksub : K -> K -> K) (kopp : K -> K),
  ring_theory k0 k1 kadd kmul ksub kopp (@eq K) ->
  forall (T : table K) (logZ : ngram -> K), T [] = None -> (forall c, logZ c = k0) ->
  forall g, emitted K k0 kadd kmul ksub [(k1, T)] logZ g = T g.
Proof. exact single_model_identity. Qed.

(* The tool's two passes (probability of the longest listed suffix, then the back-offs of the longer contexts)
   compute the full back-off score the formula is stated with. *)
Theorem C13_two_pass_is_backoff_score :
  forall (K : Type) (k0 k1 : K) (kadd kmul ksub : K -> K -> K) (kopp : K -> K),
  ring_theory k0 k1 kadd kmul ksub kopp (@eq K) ->
  forall (T : table K) c x, score2 K k0 kadd T (c ++ [x]) = score K k0 kadd T c x.
Proof. exact two_pass_is_backoff_score. Qed.

(* ... and every record of the executable model (the one the harness compares with the tool) carries exactly the
   un-normalised sums of the specification. *)
Theorem C13_model_rows_are_spec_sums :
  forall (K : Type) (k0 k1 : K) (kadd kmul ksub : K -> K -> K) (kopp : K -> K),
  ring_theory k0 k1 kadd kmul ksub kopp (@eq K) ->
  forall (cs : list (comp K)) g P B, In (g, (P, B)) (merged K k0 kadd kmul cs) -> g <> [] ->
    In g (union_ngrams K cs) /\
    P = wsum K k0 kadd kmul (comps_of K cs) (fun T => score K k0 kadd T (removelast g) (last g UNK)) /\
    B = wsum K k0 kadd kmul (comps_of K cs) (fun T => bo K k0 T g).
Proof. exact merged_is_spec. Qed.

(* The per-model back-off levels that pass 1 packs into every merged record (BoundedSequenceEncoding) are what pass 2
   unpacks: for every vector of bounds (bytes) and every vector of values below 2^bitlen(bound), over any number of
   64-bit words, with the decoder loading min(8, remaining) bytes per word and the encoder writing only the used bytes
   of the last word. *)
Theorem C13_bse_roundtrip : forall bounds vals,
  (forall b, In b bounds -> (b < 256)%N) ->
  Forall2 (fun b v => (v < 2 ^ bitlen b)%N) bounds vals ->
  decode bounds (encode bounds vals) = vals.
Proof. exact bse_roundtrip. Qed.

(* MergeVocab: the universal vocabulary is the sorted union without duplicates and every model word is mapped
   to the universal index that holds the same hash; the loop never runs out of fuel. *)
Theorem C13_merge_vocab : forall files, good_files files ->
  exists glob maps, merge_vocab files = Some (glob, maps) /\
    StronglySorted N.lt glob /\
    (forall h, In h glob <-> exists l, In l files /\ In h l) /\
    Forall2 (fun l mp => Forall2 (fun h gi => 1 <= gi /\ nth_error glob (gi - 1) = Some h) l mp) files maps.
Proof. exact merge_vocab_correct. Qed.

(* ... hence each id map is strictly increasing: injective and order preserving *)
Theorem C13_merge_vocab_maps_increasing : forall glob l mp,
  StronglySorted N.lt glob -> StronglySorted N.lt l ->
  Forall2 (fun h gi => 1 <= gi /\ nth_error glob (gi - 1) = Some h) l mp -> StronglySorted lt mp.
Proof. exact map_strictly_increasing. Qed.

(* The rewind window of pass 2 (normalize.cc keeps all successors of one context until the normaliser is known): if every
   word of a listed n-gram is listed as a unigram, a context is followed by at most |union vocabulary| n-grams of the
   union set -- and this is attained while every component vocabulary is smaller (so no per-component bound will do). *)
Theorem C13_rewind_window_bound : forall (K : Type) (cs : list (comp K)) (k : nat),
  words_listed K cs ->
  max_followers K cs k <= length (union_unigrams K cs) /\
  forall c, length (followers K cs c) <= length (union_unigrams K cs).
Proof. intros K cs k H. split; [exact (max_followers_bound K cs k H)|intros c; exact (followers_bound K cs c H)]. Qed.

Theorem C13_rewind_window_component_bound_refuted :
  let cs := [dj 1 2; dj 3 4; dj 5 6] in
  words_listed Z cs /\
  max_followers Z cs 1 = 7 /\ length (union_unigrams Z cs) = 7 /\ max_comp_vocab Z cs = 3.
Proof. exact rewind_window_component_bound_refuted. Qed.

(* F10: with the exclusion rule as shipped (every model's own highest order is withheld from the back-off pass)
   two context-closed components of orders 3 and 2 give probability and back-off streams of different length:
   ReunifyBackoff aborts.  With the repaired rule the streams agree. *)
Theorem C13_mixed_order_refuted :
  context_closed Z [f10_A; f10_B] /\
  reunify_ok_Z false [f10_A; f10_B] = false /\ reunify_ok_Z true [f10_A; f10_B] = true.
Proof. exact mixed_order_refuted. Qed.

(* Repaired pipeline: for every tuple of context-closed components (any orders) each n-gram below the top
   order has exactly one back-off record, so pass 3 terminates successfully. *)
Theorem C13_mixed_order_fixed : forall (K : Type) (cs : list (comp K)),
  context_closed K cs ->
  reunify_ok K true cs = true /\
  forall k g, 1 <= k < max_order K cs -> (In g (backoff_keys K true cs k) <-> In g (prob_keys K cs k)).
Proof. exact mixed_order_fixed. Qed.
