(* C13 -- the property theorems and nothing else (each closed by `exact <lemma>`). *)
From Coq Require Import List NArith Bool Arith.
From Kenlm Require Import C13.InterpSpec C13.InterpModel C13.MergeVocabModel.
Import ListNotations.

Theorem C13_placeholder_bootstrap : merge_vocab [] = Some ([], []).
Proof. reflexivity. Qed.
