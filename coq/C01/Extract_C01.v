(* Extraction of the language-model executable model (shared by C01-C04, C08). ExtrOcamlBasic only. *)
From Coq Require Import ZArith List Extraction ExtrOcamlBasic.
From Kenlm Require Import LM.Defs LM.Query LM.Load LM.Chart LM.InvCheck LM.FlattenCheck C02.StateCmp C03.TrieLayout C03.TrieMem C03.TrieImage C03.ProbingImage C04.FileImage C04.VocabModel C04.TrieSize.
Extraction Language OCaml.
Extraction "extracted/c01_model.ml"
  alookup bo_score bo_length spec matched usable
  score_except_backoff full_score full_score_forgot get_state extend_left un_rest null_state
  load_probing load_trie eval_tree yield reveal_before reveal_after subsume tinv_check flat_hyp_check ext_ctx_check st_eq st_compare st_lt left_eq left_compare left_lt
  trie_image trie_walk_check probing_image trie_file probing_file rest_file sorted_vocab_ids mid_pivot probing_vocab_ids trie_size sorted_vocab_size.
