(* C01 -- query scores follow the ARPA back-off definition in every data structure.
   The theorems are about the executable model of lm/model.cc (LM/Query.v) over ANY table that satisfies the
   invariants TInv the loaders establish (LM/QueryProofs.v): suffix closure with blanks, sound left-extension and
   extension bits, stored value = back-off recursion of the ARPA file M, context closure.  Both lookup kinds
   (probing, trie -- they differ in FastMakeNode) are covered by the parameter K. *)
From Coq Require Import ZArith List Bool.
From Kenlm Require Import LM.Defs LM.Query LM.QueryProofs.
Import ListNotations.
Local Open Scope Z_scope.

(* FullScoreForgotState(history, w).prob = the ARPA recursion, for every history (any length) and every word *)
Theorem C01_forgot_state_spec : forall N T M K, (2 <= N)%nat -> TInv N T M ->
  forall ctx w, T [w] <> None ->
  r_prob (fst (full_score_forgot N T K ctx w)) = bo_score N M ctx w.
Proof. intros N T M K HN I ctx w Hw. exact (forgot_prob N HN T M K I ctx w Hw). Qed.

(* Left-to-right scoring of a whole word sequence from ANY valid state (null context, <s>, or a state produced
   by earlier scoring): every probability is the ARPA recursion over the full history. *)
Theorem C01_full_score_spec : forall N T M, (2 <= N)%nat -> TInv N T M ->
  forall ws s h, valid N T M s h -> (forall w, In w ws -> T [w] <> None) ->
  fst (score_seq N T s ws) = spec_seq N M h ws.
Proof. intros N T M HN I ws s h V Hin. eapply (proj1 (score_seq_spec N HN T M I ws s h V Hin)). Qed.

Theorem C01_null_and_bos_states_valid : forall N T M b, (2 <= N)%nat ->
  valid N T M null_state [] /\ valid N T M (bos_state T b) [b].
Proof. intros N T M b HN. split; [apply valid_null|apply valid_bos]; exact HN. Qed.

(* When the file contains every suffix of its n-grams (no entry had to be invented: M k = None -> T k = None),
   the reported matched length is the length of the longest listed n-gram ending in w. *)
Theorem C01_matched_length : forall N T M, (2 <= N)%nat -> TInv N T M ->
  (forall k, M k = None -> T k = None) ->
  forall s h w, valid N T M s h -> T [w] <> None ->
  r_len (fst (full_score N T s w)) = bo_length N M h w.
Proof. intros N T M HN I Hc s h w V Hw. eapply full_score_length; eassumption. Qed.

(* independent_left is set exactly when no stored n-gram extends the match to the left, given the context that
   was supplied (the next supplied context word if there is one, any word otherwise). *)
Theorem C01_independent_left : forall N T M, (2 <= N)%nat -> TInv N T M ->
  forall ctx w, T [w] <> None -> (length ctx <= N - 1)%nat ->
  (r_indep (fst (score_except_backoff N T ctx w)) = true <->
   no_left_extension T ctx w (r_len (fst (score_except_backoff N T ctx w)))).
Proof. intros N T M HN I ctx w Hw Hl. eapply indep_left_spec; eassumption. Qed.

(* The loader invariants are decidable on a finite table.  The checker is sound (for every table and file),
   so a table that passes it enjoys every theorem above.  The correspondence harness evaluates the extracted
   checker on the tables both loader models build for every generated ARPA file. *)
From Kenlm Require Import LM.InvCheck.
Theorem C01_inv_check_sound : forall N t m, tinv_check N t m = true -> TInv N (alookup t) (mlookup m).
Proof. exact tinv_check_sound. Qed.

Corollary C01_checked_table_scores_are_arpa : forall N t m K, (2 <= N)%nat -> tinv_check N t m = true ->
  forall ctx w, alookup t [w] <> None ->
  r_prob (fst (full_score_forgot N (alookup t) K ctx w)) = bo_score N (mlookup m) ctx w.
Proof. intros N t m K HN Hc ctx w Hw. exact (forgot_prob N HN _ _ K (tinv_check_sound N t m Hc) ctx w Hw). Qed.

(* The trie loader model (blank insertion, hallucinated probabilities, extension bits from contexts and from the
   blanks' messages, left bits from children) establishes the invariants for EVERY well-formed input it accepts
   (file listing <unk>): lengths between 1 and N, every word of every n-gram listed as a unigram. *)
From Kenlm Require Import LM.Load LM.LoadTrieProofs.
Theorem C01_load_trie_inv : forall N unigrams higher unk_prob t, (2 <= N)%nat ->
  (forall g, In g (unigrams ++ concat higher) -> (1 <= length (g_key g) <= N)%nat) ->
  (forall g w, In g (unigrams ++ concat higher) -> In w (g_key g) -> M_of (unigrams ++ concat higher) [w] <> None) ->
  load_trie N true unk_prob unigrams higher = Loaded t ->
  TInv N (alookup t) (M_of (unigrams ++ concat higher)).
Proof. exact load_trie_inv. Qed.

(* end to end, for all accepted well-formed files, all histories and words: load with the trie loader, query with
   either search kind, get the ARPA back-off recursion of the file *)
Corollary C01_trie_end_to_end : forall N unigrams higher unk_prob t K, (2 <= N)%nat ->
  (forall g, In g (unigrams ++ concat higher) -> (1 <= length (g_key g) <= N)%nat) ->
  (forall g w, In g (unigrams ++ concat higher) -> In w (g_key g) -> M_of (unigrams ++ concat higher) [w] <> None) ->
  load_trie N true unk_prob unigrams higher = Loaded t ->
  forall ctx w, alookup t [w] <> None ->
  r_prob (fst (full_score_forgot N (alookup t) K ctx w)) = bo_score N (M_of (unigrams ++ concat higher)) ctx w.
Proof.
  intros N unigrams higher up t K HN Hl Hw Hload ctx w Hu.
  exact (forgot_prob N HN _ _ K (load_trie_inv N unigrams higher up t HN Hl Hw Hload) ctx w Hu).
Qed.

(* The probing loader model (file-order insertion, FindLower's blank entries, AdjustLower, MarkExtends, context
   activation -- lm/search_hashed.cc) establishes the invariants for EVERY well-formed file it accepts, with or without a
   listed <unk> (then the default probability must be negative, as it always is), with or without REST_MAX rest costs
   (which only touch the rest field): unigram keys of length 1, section i
   of order i+2, every word of every n-gram a (possibly synthesised) unigram.  The proof attempt is what exposed findings
   F16/F17 (a file without <unk> whose n-grams contain <unk>). *)
From Kenlm Require Import LM.LoadProbingProofs.
Theorem C01_load_probing_inv : forall N buckets (rest_max saw_unk : bool) unk_prob (unigrams : list gram) (higher : list (list gram)) t,
  (2 <= N)%nat -> length higher = (N - 1)%nat ->
  let U := if saw_unk then unigrams else unk_gram unk_prob :: unigrams in
  let M := M_of (U ++ concat higher) in
  (forall g, In g U -> length (g_key g) = 1%nat) ->
  (forall i sec, nth_error higher i = Some sec -> forall g, In g sec -> length (g_key g) = (2 + i)%nat) ->
  (forall g w, In g (U ++ concat higher) -> In w (g_key g) -> M [w] <> None) ->
  (saw_unk = false -> (unk_prob < 0)%Z) ->
  load_probing buckets rest_max saw_unk unk_prob unigrams higher = Loaded t ->
  TInv N (alookup t) M.
Proof. exact load_probing_inv. Qed.

(* end to end for the probing structure: every accepted well-formed file, every history and word *)
Corollary C01_probing_end_to_end : forall N buckets (rest_max saw_unk : bool) unk_prob (unigrams : list gram) (higher : list (list gram)) t K,
  (2 <= N)%nat -> length higher = (N - 1)%nat ->
  let U := if saw_unk then unigrams else unk_gram unk_prob :: unigrams in
  let M := M_of (U ++ concat higher) in
  (forall g, In g U -> length (g_key g) = 1%nat) ->
  (forall i sec, nth_error higher i = Some sec -> forall g, In g sec -> length (g_key g) = (2 + i)%nat) ->
  (forall g w, In g (U ++ concat higher) -> In w (g_key g) -> M [w] <> None) ->
  (saw_unk = false -> (unk_prob < 0)%Z) ->
  load_probing buckets rest_max saw_unk unk_prob unigrams higher = Loaded t ->
  forall ctx w, alookup t [w] <> None ->
  r_prob (fst (full_score_forgot N (alookup t) K ctx w)) = bo_score N M ctx w.
Proof.
  intros N buckets rm saw_unk up unigrams higher t K HN Hl U M HU Hs Hw Hu Hload ctx w Hk.
  exact (forgot_prob N HN _ _ K (load_probing_inv N buckets rm saw_unk up unigrams higher t HN Hl HU Hs Hw Hu Hload) ctx w Hk).
Qed.

(* the trie loader model on files that do not list <unk> (no listed n-gram may then use word id 0 as a unigram key:
   id 0 is reserved for the synthesised <unk>) *)
Theorem C01_load_trie_inv_nounk : forall N (unigrams : list gram) (higher : list (list gram)) unk_prob t, (2 <= N)%nat ->
  let U := unk_gram_t unk_prob :: unigrams in
  (forall g, In g (unigrams ++ concat higher) -> g_key g <> [0%N]) ->
  (forall g, In g (U ++ concat higher) -> (1 <= length (g_key g) <= N)%nat) ->
  (forall g w, In g (U ++ concat higher) -> In w (g_key g) -> M_of (U ++ concat higher) [w] <> None) ->
  load_trie N false unk_prob unigrams higher = Loaded t ->
  TInv N (alookup t) (M_of (U ++ concat higher)).
Proof. exact load_trie_inv_nounk. Qed.

(* ---- down to the bits: the same statement for the answers computed from the MEMORY of the trie ----------------------------------------
   `mem_table` (coq/C03/TrieEndToEnd.v) decodes what TrieSearch's lookup -- unigram array, then one BoundedSortedUniformFind (Pivot32) per
   further word over the bit-packed arrays written through the generated WriteInt57 / WriteNonPositiveFloat31 / WriteFloat32, with the
   ArrayBhiksha offset tables when array = true -- finds in the memory laid out from the loaded table (whose bytes the checks compare
   with the binary files).  By C03_memory_table_invariants it satisfies TInv whenever the loaded table does, so FullScoreForgotState
   computed from the memory returns the ARPA back-off recursion, for every history and every word of the vocabulary. *)
From Kenlm Require Import C03.TrieEndToEnd.
Corollary C01_trie_memory_end_to_end : forall (array : bool) cfg N V (t : atable) pz M K,
  (2 <= N)%nat -> 0 <= V < 2 ^ 32 -> 0 <= cfg -> TInv N (alookup t) M -> NoDup (map fst t) ->
  (forall w, alookup t [w] <> None <-> Z.of_N w < V) ->
  (forall k e, alookup t k = Some e -> - 2 ^ 24 < e_prob e < 2 ^ 24 /\ - 2 ^ 24 < e_bo e < 2 ^ 24) ->
  (forall k e, alookup t k = Some e -> (2 <= length k)%nat -> e_prob e <= 0) ->
  (forall k e, alookup t k = Some e -> length k = N -> e_bo e = 0) ->
  Z.of_nat (N * length t) < 2 ^ 57 ->
  forall ctx w, Z.of_N w < V ->
  r_prob (fst (full_score_forgot N (mem_table array cfg N V t pz) K ctx w)) = bo_score N M ctx w.
Proof.
  intros array cfg N V t pz M K HN HV Hc Inv Hnd Hd Hr Hneg Hl Hs ctx w Hw.
  apply (forgot_prob N HN _ M K (mem_table_TInv array cfg N V t pz M HN HV Hc Inv Hnd Hd Hr Hneg Hl Hs)).
  apply (T'_none_iff array cfg N V t pz M HN HV Hc Inv Hnd Hd Hr Hneg Hl Hs). apply Hd. exact Hw.
Qed.

(* ... starting from the ARPA text: the trie loader model applied to a well-formed file that lists every n-gram once yields a table with
   the loaders' invariants (C01_load_trie_inv) and distinct keys (load_trie_nodup), so for every such file -- whose table has the word
   ids 0..V-1 as unigrams, scores in the exactly representable range and non-positive beyond unigrams, and no back-off at the highest
   order -- FullScoreForgotState computed from the memory laid out from the loaded table is the ARPA back-off recursion of the file. *)
From Kenlm Require Import LM.Load LM.LoadTrieProofs LM.LoadTrieNoDup.
Corollary C01_load_trie_memory_end_to_end : forall (array : bool) cfg N V unigrams higher unk_prob t pz K,
  (2 <= N)%nat -> 0 <= V < 2 ^ 32 -> 0 <= cfg ->
  (forall g, In g (unigrams ++ concat higher) -> (1 <= length (g_key g) <= N)%nat) ->
  (forall g w, In g (unigrams ++ concat higher) -> In w (g_key g) -> M_of (unigrams ++ concat higher) [w] <> None) ->
  NoDup (map g_key (unigrams ++ concat higher)) ->
  load_trie N true unk_prob unigrams higher = Loaded t ->
  (forall w, alookup t [w] <> None <-> Z.of_N w < V) ->
  (forall k e, alookup t k = Some e -> - 2 ^ 24 < e_prob e < 2 ^ 24 /\ - 2 ^ 24 < e_bo e < 2 ^ 24) ->
  (forall k e, alookup t k = Some e -> (2 <= length k)%nat -> e_prob e <= 0) ->
  (forall k e, alookup t k = Some e -> length k = N -> e_bo e = 0) ->
  Z.of_nat (N * length t) < 2 ^ 57 ->
  forall ctx w, Z.of_N w < V ->
  r_prob (fst (full_score_forgot N (mem_table array cfg N V t pz) K ctx w)) = bo_score N (M_of (unigrams ++ concat higher)) ctx w.
Proof.
  intros array cfg N V unigrams higher up t pz K HN HV Hc Hl Hw Hnd Hload Hd Hr Hneg Hlong Hs ctx w Hwv.
  apply (C01_trie_memory_end_to_end array cfg N V t pz (M_of (unigrams ++ concat higher)) K HN HV Hc
           (load_trie_inv N unigrams higher up t HN Hl Hw Hload) (load_trie_nodup N up unigrams higher t HN Hnd Hload) Hd Hr Hneg Hlong Hs ctx w Hwv).
Qed.

(* ... and from the FILE: the memory the trie loader sets up over the bytes of the binary file the model writes (C04/TrieParse.v parse_trie =
   TrieSearch::SetupMemory on the mapped search region, positioned by the Size() functions of the header's counts; the region is found by
   the loader at the offset C04_trie_file_loads_back proves) is the memory that was built (C04_loaded_memory_is_built_memory), so the
   probability computed from the loaded file is the ARPA recursion's -- whatever bytes (`rest`: the vocabulary strings) follow the region. *)
From Kenlm Require Import LM.TableExt C03.TrieImage C04.FileImage C04.TrieParse C04.TrieParseEnd.
Corollary C01_trie_file_end_to_end : forall (array : bool) cfg N V (t : atable) pz M K rest,
  (2 <= N)%nat -> 0 <= V < 2 ^ 32 -> 0 <= cfg -> TInv N (alookup t) M -> NoDup (map fst t) ->
  (forall w, alookup t [w] <> None <-> Z.of_N w < V) ->
  (forall k e, alookup t k = Some e -> - 2 ^ 24 < e_prob e < 2 ^ 24 /\ - 2 ^ 24 < e_bo e < 2 ^ 24) ->
  (forall k e, alookup t k = Some e -> (2 <= length k)%nat -> e_prob e <= 0) ->
  (forall k e, alookup t k = Some e -> length k = N -> e_bo e = 0) ->
  Z.of_nat (N * length t) < 2 ^ 57 ->
  forall ctx w, Z.of_N w < V ->
  r_prob (fst (full_score_forgot N (file_table array cfg N V (trie_counts N t) (trie_image array cfg N t pz ++ rest)) K ctx w)) = bo_score N M ctx w.
Proof.
  intros array cfg N V t pz M K rest HN HV Hc Inv Hnd Hd Hr Hneg Hl Hs ctx w Hw.
  rewrite <- (C01_trie_memory_end_to_end array cfg N V t pz M K HN HV Hc Inv Hnd Hd Hr Hneg Hl Hs ctx w Hw).
  f_equal. f_equal.
  destruct (same_table_same_answers N (file_table array cfg N V (trie_counts N t) (trie_image array cfg N t pz ++ rest)) (mem_table array cfg N V t pz)
              K null_state w ctx (fun k => file_table_is_mem_table array cfg N V t pz M HN HV Hc Inv Hnd Hd Hr Hs rest k)) as [_ [E _]].
  exact E.
Qed.
