(* C01 property theorems (filled in below as the proofs land). *)
From Coq Require Import ZArith List.
From Kenlm Require Import LM.Defs LM.Query.
Theorem C01_placeholder_spec_hit : forall N M ctx w p b, M (w :: firstn (usable N ctx) ctx) = Some (p, b) ->
  bo_score N M ctx w = p.
Proof. intros N M ctx w p b H. unfold bo_score. destruct (usable N ctx); simpl in *; rewrite H; reflexivity. Qed.
