(* C11 -- what "the vocabulary of a sentence" is, in terms of the bytes of the vocabulary file: the character
   automaton that models vocab::ReadMultiple (`in >> word`, IsLineEnd) yields, for every input, the words
   (maximal runs of non-white-space bytes) of each line (lines end at '\n' only) that has at least one word. *)
From Coq Require Import List NArith Arith Bool Lia.
From Kenlm Require Import C11.FilterSpec C11.IntersectModel C11.FilterModel.
Import ListNotations.

(* declarative reading *)
Fixpoint split_by (p : byte -> bool) (s : list byte) : list (list byte) :=
  match s with
  | [] => [[]]
  | c :: t => if p c then [] :: split_by p t
              else match split_by p t with f :: r => (c :: f) :: r | [] => [[c]] end
  end.
Definition is_nl (c : byte) : bool := N.eqb c NL.
Definition ws_words (line : list byte) : list word := filter nonempty (split_by isspace line).
Definition sentences_spec (s : list byte) : list (list word) := filter nonempty (map ws_words (split_by is_nl s)).

Lemma split_by_nonnil : forall p s, split_by p s <> [].
Proof.
  intros p s. induction s as [|c t IH]; simpl; [discriminate|]. destruct (p c); [discriminate|].
  destruct (split_by p t); [congruence|discriminate].
Qed.

Lemma split_by_none : forall p a, (forall c, In c a -> p c = false) -> split_by p a = [a].
Proof.
  intros p a. induction a as [|c t IH]; intros H; simpl; [reflexivity|].
  rewrite (H c (or_introl eq_refl)). rewrite IH; [reflexivity|]. intros d Hd. apply H. now right.
Qed.

Lemma split_by_app_sep : forall p a d b, (forall c, In c a -> p c = false) -> p d = true ->
  split_by p (a ++ d :: b) = a :: split_by p b.
Proof.
  intros p a d b. induction a as [|c t IH]; intros H Hd; simpl.
  - now rewrite Hd.
  - rewrite (H c (or_introl eq_refl)). rewrite IH; [reflexivity| |exact Hd]. intros e He. apply H. now right.
Qed.

Lemma split_by_app_nosep : forall p a b, (forall c, In c a -> p c = false) ->
  split_by p (a ++ b) = match split_by p b with h :: t => (a ++ h) :: t | [] => [a] end.
Proof.
  intros p a b. induction a as [|c t IH]; intros H; simpl.
  - destruct (split_by p b) eqn:E; [now apply split_by_nonnil in E|reflexivity].
  - rewrite (H c (or_introl eq_refl)). rewrite IH by (intros e He; apply H; now right).
    destruct (split_by p b) eqn:E; [now apply split_by_nonnil in E|reflexivity].
Qed.

Definition opt_word (w : list byte) : list word := match w with [] => [] | _ => [rev w] end.

Lemma rev_nonempty : forall {A} (w : list A), w <> [] -> rev w <> [].
Proof. intros A w H E. apply H. rewrite <- (rev_involutive w), E. reflexivity. Qed.

Lemma filter_nonempty_single : forall {A} (x : list A), x <> [] -> filter nonempty [x] = [x].
Proof. intros A [|a x] H; [congruence|reflexivity]. Qed.

Lemma ws_words_partial : forall w, (forall c, In c w -> isspace c = false) -> ws_words (rev w) = opt_word w.
Proof.
  intros w H. unfold ws_words. rewrite split_by_none by (intros c Hc; apply H; now apply in_rev).
  destruct w as [|c t]; [reflexivity|]. apply filter_nonempty_single. now apply rev_nonempty.
Qed.

Lemma ws_words_sep : forall w c l, (forall d, In d w -> isspace d = false) -> isspace c = true ->
  ws_words (rev w ++ c :: l) = opt_word w ++ ws_words l.
Proof.
  intros w c l Hw Hc. unfold ws_words. rewrite split_by_app_sep; [|intros d Hd; apply Hw; now apply in_rev|exact Hc].
  destruct w as [|x t]; [reflexivity|].
  change (filter nonempty ([rev (x :: t)] ++ split_by isspace l) = [rev (x :: t)] ++ filter nonempty (split_by isspace l)).
  rewrite filter_app. f_equal. apply filter_nonempty_single. now apply rev_nonempty.
Qed.

Lemma flush_word_rev : forall w line, rev (flush_word w line) = rev line ++ opt_word w.
Proof. intros [|c t] line; simpl; [now rewrite app_nil_r|reflexivity]. Qed.

Lemma flush_line_rev : forall line sents, rev (flush_line line sents) = rev sents ++ filter nonempty [rev line].
Proof.
  intros [|x t] sents; [simpl; now rewrite app_nil_r|].
  rewrite filter_nonempty_single by (apply rev_nonempty; discriminate). reflexivity.
Qed.

(* the remaining input, continuing the current word w (reversed) and the current line *)
Definition rest_spec (w : list byte) (line : list word) (s : list byte) : list (list word) :=
  match split_by is_nl (rev w ++ s) with
  | l0 :: rest => (rev line ++ ws_words l0) :: map ws_words rest
  | [] => []
  end.

Lemma nospace_nonl : forall (w : list byte), (forall c, In c w -> isspace c = false) -> forall c, In c (rev w) -> is_nl c = false.
Proof.
  intros w H c Hc. apply in_rev in Hc. specialize (H c Hc). unfold is_nl, isspace, NL in *.
  destruct (N.eqb c 10) eqn:E; [|reflexivity]. apply N.eqb_eq in E. subst c. simpl in H. discriminate.
Qed.

Lemma read_multiple_aux_spec : forall s w line sents, (forall c, In c w -> isspace c = false) ->
  read_multiple_aux s w line sents = rev sents ++ filter nonempty (rest_spec w line s).
Proof.
  induction s as [|c t IH]; intros w line sents Hw.
  - simpl read_multiple_aux. unfold rest_spec. rewrite app_nil_r.
    rewrite split_by_none by (now apply nospace_nonl). simpl map.
    rewrite flush_line_rev, flush_word_rev, ws_words_partial by exact Hw. reflexivity.
  - simpl read_multiple_aux. destruct (N.eqb c NL) eqn:Enl.
    + (* end of line *)
      rewrite IH by (intros d []). rewrite flush_line_rev, flush_word_rev. unfold rest_spec.
      rewrite split_by_app_sep; [|now apply nospace_nonl|exact Enl]. simpl rev. simpl app.
      destruct (split_by is_nl t) as [|l0 rest] eqn:E; [now apply split_by_nonnil in E|].
      rewrite ws_words_partial by exact Hw. simpl map. simpl filter at 2. rewrite <- app_assoc. f_equal.
      simpl. destruct (rev line ++ opt_word w); reflexivity.
    + destruct (isspace c) eqn:Esp.
      * (* white space inside a line *)
        rewrite IH by (intros d []). unfold rest_spec. simpl rev at 2. simpl app at 2.
        assert (Hnl : forall d, In d (rev w ++ [c]) -> is_nl d = false).
        { intros d Hd. apply in_app_iff in Hd as [Hd|[<-|[]]]; [now apply (nospace_nonl w Hw)|exact Enl]. }
        replace (rev w ++ c :: t) with ((rev w ++ [c]) ++ t) by now rewrite <- app_assoc.
        rewrite (split_by_app_nosep is_nl (rev w ++ [c]) t Hnl).
        destruct (split_by is_nl t) as [|l0 rest] eqn:E; [now apply split_by_nonnil in E|].
        rewrite <- app_assoc. simpl app at 3. rewrite ws_words_sep by assumption.
        rewrite flush_word_rev. now rewrite <- app_assoc.
      * (* a byte of a word *)
        rewrite IH.
        -- unfold rest_spec. simpl rev. now rewrite <- app_assoc.
        -- intros d [<-|Hd]; [exact Esp|now apply Hw].
Qed.

Theorem read_multiple_spec : forall s, read_multiple s = sentences_spec s.
Proof.
  intros s. unfold read_multiple. rewrite read_multiple_aux_spec by (intros c []).
  unfold rest_spec, sentences_spec. simpl rev. simpl app.
  destruct (split_by is_nl s) as [|l0 rest] eqn:E; [now apply split_by_nonnil in E|]. reflexivity.
Qed.

Corollary read_single_spec : forall s, read_single s = concat (sentences_spec s).
Proof. intros. unfold read_single. now rewrite read_multiple_spec. Qed.

Example sentences_spec_example :
  sentences_spec [97; 32; 98; 9; 99; 10; 32; 10; 100; 13; 101]%N = [[[97]; [98]; [99]]; [[100]; [101]]]%N.
Proof. vm_compute. reflexivity. Qed.
