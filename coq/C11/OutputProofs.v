(* C11 -- what reaches the output files: exactly the lines the filter passes, verbatim and in order, under a
   header that counts them and never overruns the space reserved for it; copy mode keeps everything. *)
From Coq Require Import List NArith Arith Bool Lia Sorted.
From Kenlm Require Import C11.FilterSpec C11.IntersectModel C11.FilterModel C11.IntersectProofs C11.VocabProofs C11.TokenProofs.
Import ListNotations.

(* ---- the targets of an n-gram are well formed in every mode (and the model never runs out of fuel) -------- *)
Lemma inc_NoDup : forall l, inc l -> NoDup l.
Proof.
  intros l H. induction H as [|a l Hl IH Ha]; constructor; [|exact IH].
  rewrite Forall_forall in Ha. intros Hin. specialize (Ha a Hin). lia.
Qed.

Lemma NoDup_filter_seq : forall f n, NoDup (filter f (seq 0 n)).
Proof. intros. apply inc_NoDup. apply inc_filter. apply inc_seq. Qed.

Definition wf_targets (n : nat) (l : list nat) : Prop := NoDup l /\ forall j, In j l -> j < n.

Lemma wf_single : forall (b : bool), wf_targets 1 (if b then [0] else []).
Proof.
  intros [|]; split.
  - constructor; [intros []|constructor].
  - intros j [<-|[]]. lia.
  - constructor.
  - intros j [].
Qed.

Theorem targets_wf : forall cfg bytes g,
  exists l, targets cfg (load_vocab cfg bytes) g = Ok l /\ wf_targets (noutputs cfg (load_vocab cfg bytes)) l.
Proof.
  intros [m c p] bytes g. unfold targets, load_vocab, noutputs. simpl.
  destruct m; simpl.
  - exists [0]. split; [reflexivity|]. apply (wf_single true).
  - eexists. split; [reflexivity|]. apply wf_single.
  - destruct p; simpl.
    + eexists. split; [reflexivity|]. apply wf_single.
    + rewrite union_pass_spec. eexists. split; [reflexivity|]. apply wf_single.
  - destruct p; simpl.
    + eexists. split; [reflexivity|]. unfold phrase_multiple_targets.
      destruct (phrase_words (filter_words c g)); split; try apply NoDup_filter_seq.
      * apply inc_NoDup. apply inc_seq.
      * intros j Hj. apply in_seq in Hj. lia.
      * intros j Hj. apply filter_In in Hj as [Hj _]. apply in_seq in Hj. lia.
    + destruct (multiple_targets_spec (read_multiple bytes) (filter_words c g)) as [l [H1 [H2 H3]]].
      exists l. split; [exact H1|]. split; [now apply inc_NoDup|]. intros j Hj. now apply H3.
Qed.

(* ---- C11_vocab_modes_exact: kept <-> keep, on the bytes of canonical n-grams ------------------------------ *)
Theorem targets_exact : forall cfg bytes ws, cphrase cfg = false -> words_ok ws ->
  let v := load_vocab cfg bytes in
  let ctx := cctx cfg in
  match cmode cfg with
  | MCopy => targets cfg v (join ws) = Ok [0]
  | MSingle => targets cfg v (join ws) = Ok (if keep_single (read_single bytes) ctx ws then [0] else [])
  | MUnion => targets cfg v (join ws) = Ok (if keep_union (read_multiple bytes) ctx ws then [0] else [])
  | MMultiple => exists l, targets cfg v (join ws) = Ok l /\ StronglySorted lt l /\
                   forall j, In j l <-> j < length (read_multiple bytes) /\ keep_multiple (read_multiple bytes) j ctx ws = true
  end.
Proof.
  intros [m c p] bytes ws Hp Hok. simpl in Hp. subst p. unfold targets, load_vocab. simpl.
  destruct m; simpl; try rewrite (filter_words_canonical c ws Hok).
  - reflexivity.
  - rewrite single_pass_spec. reflexivity.
  - rewrite union_pass_spec. reflexivity.
  - destruct (multiple_targets_spec (read_multiple bytes) (ctx_words c ws)) as [l [H1 [H2 H3]]].
    exists l. split; [exact H1|]. split; [exact H2|]. exact H3.
Qed.

(* ---- distribution of the lines of one section over the outputs -------------------------------------------- *)
Definition line_targets (cfg : config) (v : vocab_data) (arpa : bool) (line : list byte) : list nat :=
  match (if arpa then arpa_ngram line else Some (raw_ngram line)) with
  | Some g => match targets cfg v g with Ok l => l | OutOfFuel => [] end
  | None => []
  end.

Definition kept_lines (cfg : config) (v : vocab_data) (arpa : bool) (j : nat) (sec : list (list byte)) : list (list byte) :=
  filter (fun line => existsb (Nat.eqb j) (line_targets cfg v arpa line)) sec.

Lemma add_to_length : forall outs j line, length (add_to outs j line) = length outs.
Proof. induction outs as [|o r IH]; intros [|j] line; simpl; auto. Qed.

Lemma add_to_nth : forall outs k line j, k < length outs ->
  nth j (add_to outs k line) [] = if Nat.eqb j k then line :: nth j outs [] else nth j outs [].
Proof.
  induction outs as [|o r IH]; intros k line j Hk; simpl in Hk; [lia|].
  destruct k as [|k]; destruct j as [|j]; simpl; try reflexivity.
  apply IH. lia.
Qed.

Lemma fold_add_length : forall js outs line, length (fold_left (fun o j => add_to o j line) js outs) = length outs.
Proof. induction js as [|k js IH]; intros outs line; simpl; [reflexivity|]. rewrite IH. apply add_to_length. Qed.

Lemma fold_add_nth : forall js outs line j, NoDup js -> (forall k, In k js -> k < length outs) ->
  nth j (fold_left (fun o k => add_to o k line) js outs) [] =
  if existsb (Nat.eqb j) js then line :: nth j outs [] else nth j outs [].
Proof.
  induction js as [|k js IH]; intros outs line j Hnd Hlt; simpl; [reflexivity|].
  inversion Hnd; subst. rewrite IH; [|assumption|].
  - rewrite add_to_nth by (apply Hlt; now left).
    destruct (Nat.eqb j k) eqn:E; simpl; [|reflexivity].
    apply Nat.eqb_eq in E. subst k.
    replace (existsb (Nat.eqb j) js) with false; [reflexivity|].
    symmetry. apply not_true_iff_false. intros He. apply existsb_exists in He as [x [Hx Hxe]].
    apply Nat.eqb_eq in Hxe. subst x. contradiction.
  - intros k0 Hk0. rewrite add_to_length. apply Hlt. now right.
Qed.

Lemma distribute_spec : forall cfg bytes arpa lines outs,
  let v := load_vocab cfg bytes in
  length outs = noutputs cfg v ->
  (forall line, In line lines -> arpa = true -> arpa_ngram line <> None) ->
  exists res, distribute cfg v arpa lines outs = FOk res /\ length res = length outs /\
    forall j, nth j res [] = rev (nth j outs []) ++ kept_lines cfg v arpa j lines.
Proof.
  intros cfg bytes arpa lines. induction lines as [|line rest IH]; intros outs v Hlen Htab.
  - exists (map (@rev _) outs). split; [reflexivity|]. split; [apply map_length|].
    intros j. simpl. rewrite app_nil_r. change [] with (rev (@nil (list byte))) at 1. apply map_nth.
  - simpl distribute.
    assert (Hg : exists g, (if arpa then arpa_ngram line else Some (raw_ngram line)) = Some g).
    { destruct arpa; [|now eexists]. destruct (arpa_ngram line) as [g|] eqn:E; [now exists g|].
      exfalso. apply (Htab line (or_introl eq_refl) eq_refl E). }
    destruct Hg as [g Hg]. rewrite Hg.
    destruct (targets_wf cfg bytes g) as [l [Hl [Hnd Hlt]]]. fold v in Hl, Hlt. rewrite Hl.
    destruct (IH (fold_left (fun o j => add_to o j line) l outs)) as [res [Hrun [Hrl Hnth]]].
    + rewrite fold_add_length. exact Hlen.
    + intros line0 Hin. apply Htab. now right.
    + exists res. split; [exact Hrun|]. split; [rewrite Hrl; apply fold_add_length|].
      intros j. rewrite Hnth. rewrite fold_add_nth; [|exact Hnd|intros k Hk; rewrite Hlen; now apply Hlt].
      unfold kept_lines. simpl filter. unfold line_targets at 2. rewrite Hg, Hl.
      destruct (existsb (Nat.eqb j) l); [|reflexivity]. simpl. now rewrite <- app_assoc.
Qed.

Lemma nth_repeat_nil : forall {A} n j, nth j (repeat (@nil A) n) [] = [].
Proof. induction n as [|n IH]; intros [|j]; simpl; auto. Qed.

Theorem filter_section_spec : forall cfg bytes arpa lines,
  let v := load_vocab cfg bytes in
  (forall line, In line lines -> arpa = true -> arpa_ngram line <> None) ->
  exists res, filter_section cfg v arpa lines = FOk res /\ length res = noutputs cfg v /\
    forall j, nth j res [] = kept_lines cfg v arpa j lines.
Proof.
  intros cfg bytes arpa lines v Htab. unfold filter_section.
  destruct (distribute_spec cfg bytes arpa lines (repeat [] (noutputs cfg v))) as [res [H1 [H2 H3]]].
  - apply repeat_length.
  - exact Htab.
  - exists res. split; [exact H1|]. split; [now rewrite H2, repeat_length|].
    intros j. rewrite H3, nth_repeat_nil. reflexivity.
Qed.

(* kept lines are a sublist: verbatim, in order *)
Lemma filter_sublist : forall {A} (f : A -> bool) l, sublist (filter f l) l.
Proof.
  induction l as [|x l IH]; simpl; [constructor|]. destruct (f x); [now apply sub_keep|now apply sub_skip].
Qed.

Lemma filter_length_le' : forall {A} (f : A -> bool) l, length (filter f l) <= length l.
Proof. induction l as [|x l IH]; simpl; [lia|]. destruct (f x); simpl; lia. Qed.

(* ---- decimal rendering: fewer lines never need more digits --------------------------------------------------- *)
Lemma pos_lt_pow2_size : forall p, (N.pos p < 2 ^ N.of_nat (Pos.size_nat p))%N.
Proof.
  induction p as [p IH|p IH|]; simpl Pos.size_nat; rewrite ?Nat2N.inj_succ, ?N.pow_succ_r'; try lia.
Qed.

Lemma n_lt_pow2_size : forall n, (n < 2 ^ N.of_nat (N.size_nat n))%N.
Proof. intros [|p]; [simpl; lia|apply pos_lt_pow2_size]. Qed.

Lemma div10_lt : forall n f, (n < 2 ^ N.of_nat (S f))%N -> (n / 10 < 2 ^ N.of_nat f)%N.
Proof.
  intros n f H. rewrite Nat2N.inj_succ, N.pow_succ_r' in H.
  apply N.div_lt_upper_bound; lia.
Qed.

Lemma dec_aux_fuel : forall f1 f2 n acc, (n < 2 ^ N.of_nat f1)%N -> f1 <= f2 -> dec_aux f1 n acc = dec_aux f2 n acc.
Proof.
  induction f1 as [|f1 IH]; intros f2 n acc Hn Hf.
  - simpl in Hn. assert (n = 0%N) by lia. subst. destruct f2; reflexivity.
  - destruct f2 as [|f2]; [lia|]. simpl. destruct (N.ltb n 10); [reflexivity|].
    apply IH; [now apply div10_lt|lia].
Qed.

Lemma dec_aux_acc : forall f n acc, dec_aux f n acc = dec_aux f n [] ++ acc.
Proof.
  induction f as [|f IH]; intros n acc; simpl.
  - destruct (N.ltb n 10); reflexivity.
  - destruct (N.ltb n 10); [reflexivity|]. rewrite IH. rewrite (IH _ [_]). now rewrite <- app_assoc.
Qed.

Lemma dec_aux_mono : forall f m n, (m <= n)%N -> (n < 2 ^ N.of_nat f)%N ->
  length (dec_aux f m []) <= length (dec_aux f n []).
Proof.
  induction f as [|f IH]; intros m n Hmn Hn.
  - simpl in Hn. assert (n = 0%N) by lia. assert (m = 0%N) by lia. subst. reflexivity.
  - simpl. destruct (N.ltb n 10) eqn:En.
    + apply N.ltb_lt in En. replace (N.ltb m 10) with true by (symmetry; apply N.ltb_lt; lia). reflexivity.
    + rewrite (dec_aux_acc f (n / 10)). rewrite app_length. simpl length at 3.
      destruct (N.ltb m 10); [simpl; lia|].
      rewrite (dec_aux_acc f (m / 10)). rewrite app_length. simpl length at 2.
      assert (length (dec_aux f (m / 10) []) <= length (dec_aux f (n / 10) [])).
      { apply IH; [apply N.div_le_mono; lia|now apply div10_lt]. }
      lia.
Qed.

Lemma dec_length_mono : forall m n, m <= n -> length (dec_nat m) <= length (dec_nat n).
Proof.
  intros m n H. unfold dec_nat, dec.
  assert (Hmn : (N.of_nat m <= N.of_nat n)%N) by lia.
  set (F := Nat.max (N.size_nat (N.of_nat m)) (N.size_nat (N.of_nat n))).
  rewrite (dec_aux_fuel _ F (N.of_nat m)); [|apply n_lt_pow2_size|unfold F; lia].
  rewrite (dec_aux_fuel _ F (N.of_nat n)); [|apply n_lt_pow2_size|unfold F; lia].
  apply dec_aux_mono; [exact Hmn|].
  pose proof (n_lt_pow2_size (N.of_nat n)) as Hn.
  eapply N.lt_le_trans; [exact Hn|]. apply N.pow_le_mono_r; [lia|]. unfold F. lia.
Qed.

Lemma count_lines_mono : forall c' c k, Forall2 le c' c -> length (count_lines k c') <= length (count_lines k c).
Proof.
  intros c' c k H. revert k. induction H as [|a b c' c Hab Hf IH]; intros k; simpl; [lia|].
  rewrite !app_length. simpl. rewrite !app_length. simpl. specialize (IH (S k)).
  pose proof (dec_length_mono a b Hab). lia.
Qed.

Lemma size_needed_mono : forall c' c, Forall2 le c' c -> size_needed c' <= size_needed c.
Proof.
  intros c' c H. unfold size_needed, write_counts. rewrite !app_length. simpl.
  pose proof (count_lines_mono c' c 1 H). lia.
Qed.

Lemma skipn_repeat : forall {A} (x : A) n k, skipn k (repeat x n) = repeat x (n - k).
Proof. induction n as [|n IH]; intros [|k]; simpl; auto. Qed.

(* the header written at the end fits into the space reserved at the beginning *)
Theorem arpa_output_shape : forall in_counts kept, Forall2 le (map (@length _) kept) in_counts ->
  arpa_output in_counts kept =
  write_counts (map (@length _) kept)
  ++ repeat NL (size_needed in_counts - size_needed (map (@length _) kept))
  ++ render_sections 1 kept ++ s_end.
Proof.
  intros in_counts kept H. unfold arpa_output, overwrite_front. f_equal.
  pose proof (size_needed_mono _ _ H) as Hs. unfold size_needed in *.
  rewrite skipn_app. rewrite skipn_repeat, repeat_length.
  replace (length (write_counts (map (@length _) kept)) - length (write_counts in_counts)) with 0 by lia.
  reflexivity.
Qed.

(* ---- the whole tool, ARPA format ------------------------------------------------------------------------------ *)
Lemma filter_sections_spec : forall cfg bytes secs,
  let v := load_vocab cfg bytes in
  (forall sec line, In sec secs -> In line sec -> arpa_ngram line <> None) ->
  exists per, filter_sections cfg v secs = FOk per /\
    forall j, nth_all j per = map (kept_lines cfg v true j) secs.
Proof.
  intros cfg bytes secs v. induction secs as [|s r IH]; intros Htab.
  - exists []. split; reflexivity.
  - simpl. destruct (filter_section_spec cfg bytes true s) as [o [H1 [H2 H3]]].
    { intros line Hl _. apply (Htab s line); [now left|exact Hl]. }
    fold v in H1. rewrite H1.
    destruct IH as [os [H4 H5]]. { intros sec line Hs. apply Htab. now right. }
    rewrite H4. exists (o :: os). split; [reflexivity|]. intros j. unfold nth_all in *. simpl. now rewrite H3, H5.
Qed.

Lemma nth_map_seq : forall (f : nat -> list byte) n j, j < n -> nth j (map f (seq 0 n)) [] = f j.
Proof.
  intros f n j Hj. rewrite nth_indep with (d' := f 0) by (rewrite map_length, seq_length; exact Hj).
  rewrite map_nth. now rewrite seq_nth.
Qed.

Theorem output_is_sublist_with_counts : forall cfg bytes secs,
  let v := load_vocab cfg bytes in
  (forall sec line, In sec secs -> In line sec -> arpa_ngram line <> None) ->
  exists files, filter_arpa cfg bytes secs = FOk files /\ length files = noutputs cfg v /\
    forall j, j < noutputs cfg v ->
      let kept := map (kept_lines cfg v true j) secs in
      Forall2 sublist kept secs /\
      nth j files [] =
        write_counts (map (@length _) kept)
        ++ repeat NL (size_needed (map (@length _) secs) - size_needed (map (@length _) kept))
        ++ render_sections 1 kept ++ s_end.
Proof.
  intros cfg bytes secs v Htab. unfold filter_arpa. fold v.
  destruct (filter_sections_spec cfg bytes secs Htab) as [per [H1 H2]]. fold v in H1, H2. rewrite H1.
  eexists. split; [reflexivity|]. split; [now rewrite map_length, seq_length|].
  intros j Hj. cbv zeta. set (kept := map (kept_lines cfg v true j) secs). split.
  - unfold kept. clear. induction secs as [|s r IH]; simpl; constructor; [apply filter_sublist|exact IH].
  - rewrite nth_map_seq by exact Hj. rewrite H2. fold kept. apply arpa_output_shape.
    unfold kept. clear. induction secs as [|s r IH]; simpl; constructor; [apply filter_length_le'|exact IH].
Qed.

(* ---- copy mode -------------------------------------------------------------------------------------------------- *)
Lemma filter_all : forall {A} (f : A -> bool) l, (forall x, In x l -> f x = true) -> filter f l = l.
Proof.
  induction l as [|x l IH]; intros H; simpl; [reflexivity|]. rewrite (H x (or_introl eq_refl)). f_equal.
  apply IH. intros y Hy. apply H. now right.
Qed.

Lemma kept_lines_copy : forall c p v arpa sec,
  (forall line, In line sec -> arpa = true -> arpa_ngram line <> None) ->
  kept_lines {| cmode := MCopy; cctx := c; cphrase := p |} v arpa 0 sec = sec.
Proof.
  intros c p v arpa sec H. unfold kept_lines. apply filter_all. intros line Hl.
  unfold line_targets. destruct arpa.
  - destruct (arpa_ngram line) eqn:En; [reflexivity|]. exfalso. apply (H line Hl eq_refl En).
  - reflexivity.
Qed.

Theorem copy_identity : forall c p bytes secs,
  (forall sec line, In sec secs -> In line sec -> arpa_ngram line <> None) ->
  filter_arpa {| cmode := MCopy; cctx := c; cphrase := p |} bytes secs =
  FOk [write_counts (map (@length _) secs) ++ render_sections 1 secs ++ s_end].
Proof.
  intros c p bytes secs Htab.
  destruct (output_is_sublist_with_counts {| cmode := MCopy; cctx := c; cphrase := p |} bytes secs Htab)
    as [files [H1 [H2 H3]]].
  assert (Hn : noutputs {| cmode := MCopy; cctx := c; cphrase := p |}
                 (load_vocab {| cmode := MCopy; cctx := c; cphrase := p |} bytes) = 1) by reflexivity.
  rewrite Hn in *.
  rewrite H1. f_equal. destruct files as [|f [|f2 fs]]; try discriminate. f_equal.
  destruct (H3 0 ltac:(lia)) as [_ H4]. simpl nth in H4. rewrite H4.
  assert (E : map (kept_lines {| cmode := MCopy; cctx := c; cphrase := p |}
                    (load_vocab {| cmode := MCopy; cctx := c; cphrase := p |} bytes) true 0) secs = secs).
  { clear - Htab. induction secs as [|s r IH]; simpl; [reflexivity|]. f_equal.
    - apply kept_lines_copy. intros line Hl _. apply (Htab s line); [now left|exact Hl].
    - apply IH. intros sec line Hs. apply Htab. now right. }
  rewrite E. rewrite Nat.sub_diag. reflexivity.
Qed.

Theorem copy_identity_raw : forall c p bytes lines,
  filter_raw {| cmode := MCopy; cctx := c; cphrase := p |} bytes lines = FOk [render_lines lines].
Proof.
  intros c p bytes lines. unfold filter_raw.
  destruct (filter_section_spec {| cmode := MCopy; cctx := c; cphrase := p |} bytes false lines) as [res [H1 [H2 H3]]].
  { intros line _ Hf. discriminate. }
  assert (Hn : noutputs {| cmode := MCopy; cctx := c; cphrase := p |}
                 (load_vocab {| cmode := MCopy; cctx := c; cphrase := p |} bytes) = 1) by reflexivity.
  rewrite Hn in *.
  rewrite H1. destruct res as [|o [|o2 os]]; try discriminate.
  specialize (H3 0). simpl in H3. rewrite H3. rewrite kept_lines_copy; [reflexivity|]. intros line _ Hf. discriminate.
Qed.
