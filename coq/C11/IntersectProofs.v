(* C11 -- util/multi_intersection.hh: FirstIntersection returns the least common element of sorted lists (or none),
   AllIntersection all common elements in increasing order; both terminate within the model's fuel. *)
From Coq Require Import List Arith Bool Lia Sorted.
From Kenlm Require Import C11.IntersectModel.
Import ListNotations.

Definition inc (l : list nat) : Prop := StronglySorted lt l.
Definition common (sets : list (list nat)) (v : nat) : Prop := forall s, In s sets -> In v s.

(* ---- lower_bound ---------------------------------------------------------------------------------- *)
Lemma lower_bound_sub : forall l v x, In x (lower_bound l v) -> In x l.
Proof.
  induction l as [|a l IH]; intros v x H; simpl in *; [exact H|].
  destruct (a <? v); [right; now apply (IH v)|exact H].
Qed.

Lemma lower_bound_keep : forall l v x, In x l -> v <= x -> In x (lower_bound l v).
Proof.
  induction l as [|a l IH]; intros v x H Hv; simpl in *; [exact H|].
  destruct (a <? v) eqn:E; [|exact H]. apply Nat.ltb_lt in E.
  destruct H as [->|H]; [lia|]. now apply IH.
Qed.

Lemma inc_tail : forall a l, inc (a :: l) -> inc l.
Proof. intros a l H. now inversion H. Qed.

Lemma inc_head_lt : forall a l x, inc (a :: l) -> In x l -> a < x.
Proof. intros a l x H Hin. inversion H; subst. rewrite Forall_forall in H3. now apply H3. Qed.

Lemma lower_bound_inc : forall l v, inc l -> inc (lower_bound l v).
Proof.
  induction l as [|a l IH]; intros v H; simpl; [exact H|].
  destruct (a <? v); [apply IH; now apply inc_tail in H|exact H].
Qed.

Lemma lower_bound_ge : forall l v x, inc l -> In x (lower_bound l v) -> v <= x.
Proof.
  induction l as [|a l IH]; intros v x Hs H; simpl in *; [destruct H|].
  destruct (a <? v) eqn:E.
  - apply (IH v x); [now apply inc_tail in Hs|exact H].
  - apply Nat.ltb_ge in E. destruct H as [<-|H]; [exact E|]. pose proof (inc_head_lt a l x Hs H). lia.
Qed.

(* ---- counting the elements above the bound (termination measure) ------------------------------------ *)
Definition cnt (h : nat) (s : list nat) : nat := length (filter (fun x => h <? x) s).
Definition gtc (h : nat) (sets : list (list nat)) : nat := fold_right (fun s n => cnt h s + n) 0 sets.

Lemma gtc_app : forall h a b, gtc h (a ++ b) = gtc h a + gtc h b.
Proof. induction a as [|s a IH]; intros b; simpl; [reflexivity|]. rewrite IH. lia. Qed.

Lemma gtc_rev : forall h a, gtc h (rev a) = gtc h a.
Proof. induction a as [|s a IH]; simpl; [reflexivity|]. rewrite gtc_app, IH. simpl. lia. Qed.

Lemma cnt_mono : forall h h' s, h <= h' -> cnt h' s <= cnt h s.
Proof.
  intros h h' s Hh. unfold cnt. induction s as [|a s IH]; simpl; [lia|].
  destruct (h' <? a) eqn:E1; destruct (h <? a) eqn:E2; simpl; try lia.
  apply Nat.ltb_lt in E1. apply Nat.ltb_ge in E2. lia.
Qed.

Lemma gtc_mono : forall h h' sets, h <= h' -> gtc h' sets <= gtc h sets.
Proof. intros h h' sets Hh. induction sets as [|s r IH]; simpl; [lia|]. pose proof (cnt_mono h h' s Hh). lia. Qed.

Lemma cnt_lower_bound : forall h s v, cnt h (lower_bound s v) <= cnt h s.
Proof.
  intros h s v. induction s as [|a s IH]; simpl; [lia|].
  destruct (a <? v); [|lia]. unfold cnt in *. simpl. destruct (h <? a); simpl; lia.
Qed.

Lemma cnt_le_length : forall h s, cnt h s <= length s.
Proof. intros h s. unfold cnt. induction s as [|a s IH]; simpl; [lia|]. destruct (h <? a); simpl; lia. Qed.

Lemma gtc_le_total : forall h sets, gtc h sets <= total_len sets.
Proof. induction sets as [|s r IH]; simpl; [lia|]. pose proof (cnt_le_length h s). lia. Qed.

Lemma total_len_app : forall a b, total_len (a ++ b) = total_len a + total_len b.
Proof. induction a as [|s a IH]; intros b; simpl; [reflexivity|]. rewrite IH. lia. Qed.

Lemma total_len_rev : forall a, total_len (rev a) = total_len a.
Proof. induction a as [|s a IH]; simpl; [reflexivity|]. rewrite total_len_app, IH. simpl. lia. Qed.

Lemma lower_bound_length : forall s v, length (lower_bound s v) <= length s.
Proof. induction s as [|a s IH]; intros v; simpl; [lia|]. destruct (a <? v); simpl; [specialize (IH v); lia|lia]. Qed.

(* ---- the loop --------------------------------------------------------------------------------------- *)
Lemma In_mid : forall {A} (a b : list A) y z, In z (a ++ y :: b) <-> z = y \/ In z (a ++ b).
Proof. intros. rewrite !in_app_iff. simpl. intuition. Qed.

Definition mu (h : nat) (done todo : list (list nat)) : nat :=
  gtc h (done ++ todo) * S (length (done ++ todo)) + length todo.

Definition post (sets0 : list (list nat)) (r : option nat) (sets' : list (list nat)) : Prop :=
  (forall s, In s sets' -> inc s) /\ length sets' = length sets0 /\ total_len sets' <= total_len sets0 /\
  match r with
  | Some v => common sets0 v /\ (forall u, common sets0 u -> v <= u) /\
              (forall s, In s sets' -> exists t, s = v :: t) /\ (forall u, common sets' u <-> common sets0 u)
  | None => forall u, ~ common sets0 u
  end.

Lemma post_transfer : forall a b r sets', length a = length b -> total_len a <= total_len b ->
  (forall u, common a u <-> common b u) -> post a r sets' -> post b r sets'.
Proof.
  intros a b r sets' Hl Ht He [P1 [P2 [P3 P4]]]. split; [exact P1|]. split; [congruence|]. split; [lia|].
  destruct r as [v|].
  - destruct P4 as [Q1 [Q2 [Q3 Q4]]]. split; [now apply He|]. split; [intros u Hu; apply Q2; now apply He|].
    split; [exact Q3|]. intros u. rewrite Q4. apply He.
  - intros u Hu. apply (P4 u). now apply He.
Qed.

Lemma fis_loop_spec : forall fuel done todo h,
  (forall s, In s (done ++ todo) -> inc s) ->
  (forall s, In s done -> exists t, s = h :: t) ->
  (forall v, common (done ++ todo) v -> h <= v) ->
  mu h done todo < fuel ->
  exists r sets', fis_loop fuel done todo h = Ok (r, sets') /\ post (done ++ todo) r sets'.
Proof.
  induction fuel as [|f IH]; intros done todo h Hinc Hdone Hmin Hmu; [lia|].
  simpl. destruct todo as [|s rest].
  - exists (Some h), (rev done). split; [reflexivity|]. rewrite app_nil_r in *.
    split; [intros s Hs; apply Hinc; now apply in_rev|]. split; [apply rev_length|].
    split; [rewrite total_len_rev; lia|]. split; [|split; [exact Hmin|split]].
    + intros s Hs. destruct (Hdone s Hs) as [t ->]. now left.
    + intros s Hs. apply Hdone. now apply in_rev.
    + intros u. unfold common. split; intros H s Hs; apply H; [now rewrite <- in_rev|now rewrite in_rev].
  - assert (Hs_inc : inc s) by (apply Hinc; apply in_app_iff; right; now left).
    destruct (lower_bound s h) as [|x s'] eqn:Elb.
    + exists None, (rev_append done ([] :: rest)). split; [reflexivity|].
      split; [|split; [|split]].
      * intros s0 Hs0. rewrite rev_append_rev in Hs0. apply In_mid in Hs0 as [->|Hs0]; [constructor|].
        apply Hinc. rewrite in_app_iff in *. rewrite <- in_rev in Hs0. simpl. tauto.
      * rewrite rev_append_rev, !app_length, rev_length. simpl. lia.
      * rewrite rev_append_rev, !total_len_app, total_len_rev. simpl. lia.
      * intros u Hu. pose proof (Hmin u Hu) as Hge.
        assert (In u s) by (apply Hu; apply in_app_iff; right; now left).
        pose proof (lower_bound_keep s h u H Hge) as Hk. rewrite Elb in Hk. destruct Hk.
    + assert (Hlb_inc : inc (x :: s')) by (rewrite <- Elb; now apply lower_bound_inc).
      assert (Hx_ge : h <= x) by (apply (lower_bound_ge s h x Hs_inc); rewrite Elb; now left).
      assert (Hcnt : cnt h (x :: s') <= cnt h s) by (rewrite <- Elb; apply cnt_lower_bound).
      assert (Hlen : S (length s') <= length s) by (change (length (x :: s') <= length s); rewrite <- Elb; apply lower_bound_length).
      (* common elements are unaffected by replacing s with its lower bound *)
      assert (Hcommon : forall (others : list (list nat)) u,
                 (forall v, common (s :: others) v -> h <= v) ->
                 (common ((x :: s') :: others) u <-> common (s :: others) u)).
      { intros others u Hm. split; intros H.
        - intros s0 [<-|Hs0]; [|apply H; now right].
          apply (lower_bound_sub s h). rewrite Elb. apply H. now left.
        - assert (Hu : h <= u) by (apply Hm; exact H).
          intros s0 [<-|Hs0]; [|apply H; now right].
          rewrite <- Elb. apply lower_bound_keep; [apply H; now left|exact Hu]. }
      assert (Hperm : forall (l : list nat) u, common (done ++ l :: rest) u <-> common (l :: (done ++ rest)) u).
      { intros l u. unfold common. split; intros H s0 Hs0; apply H.
        - apply In_mid. destruct Hs0 as [<-|Hs0]; [now left|now right].
        - apply In_mid in Hs0. destruct Hs0 as [->|Hs0]; [now left|now right]. }
      assert (Hmin' : forall v, common (s :: done ++ rest) v -> h <= v).
      { intros v Hv. apply Hmin. now apply Hperm. }
      destruct (h <? x) eqn:Ehx.
      * apply Nat.ltb_lt in Ehx.
        destruct (IH [] (rev_append done ((x :: s') :: rest)) x) as [r [sets' [Hrun Hpost]]].
        -- simpl. intros s0 Hs0. rewrite rev_append_rev in Hs0. apply In_mid in Hs0 as [->|Hs0]; [exact Hlb_inc|].
           apply Hinc. rewrite in_app_iff in *. rewrite <- in_rev in Hs0. simpl. tauto.
        -- intros s0 [].
        -- simpl. intros v Hv.
           assert (In v (x :: s')). { apply Hv. rewrite rev_append_rev. apply In_mid. now left. }
           destruct H as [<-|H]; [lia|]. pose proof (inc_head_lt x s' v Hlb_inc H). lia.
        -- unfold mu in *. simpl app. rewrite rev_append_rev in *.
           rewrite !app_length, rev_length in *. simpl length in *.
           rewrite !gtc_app, gtc_rev in *. simpl gtc in *.
           assert (G1 : gtc x done <= gtc h done) by (apply gtc_mono; lia).
           assert (G2 : gtc x rest <= gtc h rest) by (apply gtc_mono; lia).
           assert (G3 : S (cnt x (x :: s')) <= cnt h (x :: s')).
           { unfold cnt. simpl. rewrite Nat.ltb_irrefl.
             replace (h <? x) with true by (symmetry; now apply Nat.ltb_lt). simpl.
             apply le_n_S. apply (cnt_mono h x s'). lia. }
           nia.
        -- exists r, sets'. split; [exact Hrun|].
           simpl app in Hpost. rewrite rev_append_rev in Hpost.
           apply post_transfer with (a := rev done ++ (x :: s') :: rest); [| | |exact Hpost].
           ++ rewrite !app_length, rev_length. simpl. lia.
           ++ rewrite !total_len_app, total_len_rev. simpl. lia.
           ++ intros u.
              assert (Hrev : forall l, common (rev done ++ l :: rest) u <-> common (done ++ l :: rest) u).
              { intros l. unfold common. split; intros H s0 Hs0; apply H; rewrite in_app_iff in *;
                  (destruct Hs0 as [Hs0|Hs0]; [left|now right]); [now apply -> in_rev|now apply in_rev]. }
              rewrite Hrev, !Hperm. now apply Hcommon.
      * apply Nat.ltb_ge in Ehx. assert (x = h) by lia. subst x.
        destruct (IH ((h :: s') :: done) rest h) as [r [sets' [Hrun Hpost]]].
        -- simpl. intros s0 [<-|Hs0]; [exact Hlb_inc|]. apply Hinc. rewrite in_app_iff in *. simpl. tauto.
        -- intros s0 [<-|Hs0]; [now exists s'|now apply Hdone].
        -- simpl. intros v Hv. apply Hmin'. now apply Hcommon.
        -- unfold mu in *. simpl app. simpl length. rewrite !app_length in *. simpl length in *.
           simpl gtc. rewrite !gtc_app in *. simpl gtc in *. nia.
        -- exists r, sets'. split; [exact Hrun|].
           apply post_transfer with (a := ((h :: s') :: done) ++ rest); [| | |exact Hpost].
           ++ simpl. rewrite !app_length. simpl. lia.
           ++ simpl. rewrite !total_len_app. simpl. lia.
           ++ intros u. simpl app. rewrite Hperm. now apply Hcommon.
Qed.

Lemma first_sorted_spec : forall sets, sets <> [] -> (forall s, In s sets -> inc s) ->
  exists r sets', first_intersection_sorted sets = Ok (r, sets') /\ post sets r sets'.
Proof.
  intros sets Hne Hinc. destruct sets as [|s0 rest]; [congruence|].
  destruct s0 as [|h t].
  - exists None, ([] :: rest). split; [reflexivity|]. split; [exact Hinc|]. split; [reflexivity|]. split; [lia|].
    intros u Hu. destruct (Hu [] (or_introl eq_refl)).
  - unfold first_intersection_sorted.
    apply (fis_loop_spec (fis_fuel ((h :: t) :: rest)) [] ((h :: t) :: rest) h).
    + exact Hinc.
    + intros s [].
    + simpl. intros v Hv. assert (In v (h :: t)) by (apply Hv; now left).
      destruct H as [<-|H]; [lia|]. pose proof (inc_head_lt h t v (Hinc _ (or_introl eq_refl)) H). lia.
    + unfold mu, fis_fuel. simpl app. pose proof (gtc_le_total h ((h :: t) :: rest)). simpl length in *. nia.
Qed.

(* ---- std::sort by size: a permutation ----------------------------------------------------------------- *)
Lemma insert_by_size_In : forall s l x, In x (insert_by_size s l) <-> x = s \/ In x l.
Proof.
  induction l as [|t r IH]; intros x; simpl; [intuition|].
  destruct (length s <=? length t); simpl; [intuition|]. rewrite IH. intuition.
Qed.

Lemma sort_by_size_In : forall sets x, In x (sort_by_size sets) <-> In x sets.
Proof.
  induction sets as [|s r IH]; intros x; simpl; [tauto|]. rewrite insert_by_size_In, IH. intuition.
Qed.

Lemma sort_by_size_nonempty : forall sets, sets <> [] -> sort_by_size sets <> [].
Proof.
  intros [|s r] H; [congruence|]. simpl. intros E.
  assert (In s (insert_by_size s (sort_by_size r))) by (apply insert_by_size_In; now left).
  rewrite E in H0. destruct H0.
Qed.

Lemma common_sort : forall sets u, common (sort_by_size sets) u <-> common sets u.
Proof. intros. unfold common. split; intros H s Hs; apply H; now apply sort_by_size_In. Qed.

(* ---- C11_intersection_correct --------------------------------------------------------------------------- *)
Theorem first_intersection_correct : forall sets, sets <> [] -> (forall s, In s sets -> inc s) ->
  exists r, first_intersection sets = Ok r /\
    match r with
    | Some v => common sets v /\ forall u, common sets u -> v <= u
    | None => forall u, ~ common sets u
    end.
Proof.
  intros sets Hne Hinc. unfold first_intersection.
  destruct (first_sorted_spec (sort_by_size sets)) as [r [sets' [Hrun [_ [_ [_ Hp]]]]]].
  - now apply sort_by_size_nonempty.
  - intros s Hs. apply Hinc. now apply sort_by_size_In.
  - rewrite Hrun. exists r. split; [reflexivity|]. destruct r as [v|].
    + destruct Hp as [Q1 [Q2 _]]. split; [now apply common_sort|]. intros u Hu. apply Q2. now apply common_sort.
    + intros u Hu. apply (Hp u). now apply common_sort.
Qed.

Lemma all_loop_spec : forall fuel sets acc, sets <> [] -> (forall s, In s sets -> inc s) ->
  S (total_len sets) < fuel ->
  exists l, all_loop fuel sets acc = Ok (rev acc ++ l) /\ inc l /\ forall u, In u l <-> common sets u.
Proof.
  induction fuel as [|f IH]; intros sets acc Hne Hinc Hf; [lia|].
  simpl. destruct (first_sorted_spec sets Hne Hinc) as [r [sets' [Hrun [P1 [P2 [P3 P4]]]]]].
  rewrite Hrun. destruct r as [v|].
  - destruct P4 as [Q1 [Q2 [Q3 Q4]]].
    destruct sets' as [|s1 rest]; [destruct sets; [congruence|discriminate]|].
    destruct (Q3 s1 (or_introl eq_refl)) as [s0 ->].
    assert (Hinc0 : inc (v :: s0)) by (apply P1; now left).
    assert (Hstep : forall u, common (s0 :: rest) u <-> common sets u /\ u <> v).
    { intros u. rewrite <- Q4. split.
      - intros H. split.
        + intros s [<-|Hs]; [right; apply H; now left|apply H; now right].
        + assert (In u s0) by (apply H; now left). pose proof (inc_head_lt v s0 u Hinc0 H0). lia.
      - intros [H Hn] s [<-|Hs]; [|apply H; now right].
        destruct (H (v :: s0) (or_introl eq_refl)) as [->|Hu]; [congruence|exact Hu]. }
    destruct (IH (s0 :: rest) (v :: acc)) as [l [Hl [Hlinc Hlmem]]].
    + discriminate.
    + intros s [<-|Hs]; [now apply inc_tail in Hinc0|apply P1; now right].
    + simpl in P3 |- *. lia.
    + exists (v :: l). split; [rewrite Hl; simpl; now rewrite <- app_assoc|]. split.
      * constructor; [exact Hlinc|]. rewrite Forall_forall. intros u Hu.
        apply Hlmem in Hu. apply Hstep in Hu as [Hu Hn]. pose proof (Q2 u Hu). lia.
      * intros u. simpl. rewrite Hlmem, Hstep. split.
        -- intros [<-|[H _]]; [exact Q1|exact H].
        -- intros H. destruct (Nat.eq_dec v u) as [->|Hn]; [now left|right; split; [exact H|congruence]].
  - exists []. rewrite app_nil_r. split; [reflexivity|]. split; [constructor|].
    intros u. split; [intros []|]. intros H. destruct (P4 u H).
Qed.

Theorem all_intersection_correct : forall sets, sets <> [] -> (forall s, In s sets -> inc s) ->
  exists l, all_intersection sets = Ok l /\ inc l /\ forall u, In u l <-> common sets u.
Proof.
  intros sets Hne Hinc. unfold all_intersection.
  destruct (all_loop_spec (S (S (total_len (sort_by_size sets)))) (sort_by_size sets) []) as [l [H1 [H2 H3]]].
  - now apply sort_by_size_nonempty.
  - intros s Hs. apply Hinc. now apply sort_by_size_In.
  - lia.
  - exists l. split; [exact H1|]. split; [exact H2|]. intros u. rewrite H3. apply common_sort.
Qed.

Example intersection_example :
  first_intersection [[1; 2; 3]; [2; 3]; [0; 3; 5]] = Ok (Some 3) /\
  all_intersection [[1; 2; 3; 7]; [2; 3; 7]; [0; 3; 5; 7]] = Ok [3; 7].
Proof. split; vm_compute; reflexivity. Qed.
