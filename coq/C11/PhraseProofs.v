(* C11 -- phrase mode: the executable decision procedure of the model (infix of a phrase, or non-empty suffix of a
   phrase . whole phrases . prefix of a phrase) decides exactly the declarative predicate `derivable`
   ("can be read off a concatenation of one sentence's phrases"). *)
From Coq Require Import List NArith Arith Bool Lia.
From Kenlm Require Import C11.FilterSpec C11.IntersectModel C11.FilterModel C11.VocabProofs.
Import ListNotations.

Lemma list_eqb_eq : forall a b, list_eqb a b = true <-> a = b.
Proof.
  induction a as [|x a IH]; destruct b as [|y b]; simpl; split; intros H; try reflexivity; try discriminate.
  - apply andb_true_iff in H as [H1 H2]. apply bytes_eqb_eq in H1. apply IH in H2. now subst.
  - inversion H; subst. rewrite bytes_eqb_refl. simpl. now apply IH.
Qed.

Lemma is_prefix_spec : forall a b, is_prefix a b = true <-> exists t, b = a ++ t.
Proof.
  induction a as [|x a IH]; intros b; simpl.
  - split; [intros _; now exists b|reflexivity].
  - destruct b as [|y b]; [split; [discriminate|intros [t Ht]; discriminate]|].
    rewrite andb_true_iff, bytes_eqb_eq, IH. split.
    + intros [-> [t ->]]. now exists t.
    + intros [t Ht]. inversion Ht; subst. split; [reflexivity|now exists t].
Qed.

Lemma is_infix_spec : forall a b, is_infix a b = true <-> exists pre post, b = pre ++ a ++ post.
Proof.
  intros a b. induction b as [|y b IH].
  - simpl. rewrite orb_false_r, is_prefix_spec. split.
    + intros [t Ht]. now exists [], t.
    + intros [pre [post H]]. destruct pre; [now exists post|discriminate].
  - simpl. rewrite orb_true_iff, is_prefix_spec, IH. split.
    + intros [[t Ht]|[pre [post H]]]; [now exists [], t|]. exists (y :: pre), post. now rewrite H.
    + intros [pre [post H]]. destruct pre as [|z pre]; [left; now exists post|].
      right. inversion H; subst. now exists pre, post.
Qed.

Lemma is_suffix_spec : forall a b, is_suffix a b = true <-> exists pre, b = pre ++ a.
Proof.
  intros a b. induction b as [|y b IH].
  - simpl. rewrite orb_false_r, list_eqb_eq. split.
    + intros ->. now exists [].
    + intros [pre H]. destruct pre; [now simpl in H|discriminate].
  - simpl. rewrite orb_true_iff, list_eqb_eq, IH. split.
    + intros [->|[pre ->]]; [now exists []|now exists (y :: pre)].
    + intros [pre H]. destruct pre as [|z pre]; [left; now simpl in H|]. right. inversion H; subst. now exists pre.
Qed.

Lemma splits_spec : forall g h r, In (h, r) (splits g) <-> h <> [] /\ g = h ++ r.
Proof.
  induction g as [|x t IH]; intros h r; simpl.
  - split; [intros []|]. intros [Hh H]. destruct h; [congruence|discriminate].
  - split.
    + intros [H|H].
      * inversion H; subst. split; [discriminate|reflexivity].
      * apply in_map_iff in H as [[h' r'] [He Hin]]. inversion He; subst.
        apply IH in Hin as [_ ->]. split; [discriminate|reflexivity].
    + intros [Hh H]. destruct h as [|y h]; [congruence|]. inversion H; subst.
      destruct h as [|z h]; [now left|]. right. apply in_map_iff. exists (z :: h, r). split; [reflexivity|].
      apply IH. split; [discriminate|reflexivity].
Qed.

(* ---- cover -------------------------------------------------------------------------------------------- *)
Lemma cover_cons : forall phrases fuel x r,
  cover phrases fuel (x :: r) =
  existsb (fun p => is_prefix (x :: r) p) phrases ||
  match fuel with
  | O => false
  | S f => existsb (fun p => nonempty p && is_prefix p (x :: r) && cover phrases f (skipn (length p) (x :: r))) phrases
  end.
Proof. intros. destruct fuel; reflexivity. Qed.

Lemma cover_sound : forall phrases fuel r, cover phrases fuel r = true ->
  exists qs post, Forall (fun p => In p phrases) qs /\ concat qs = r ++ post.
Proof.
  intros phrases. induction fuel as [|f IH]; intros r H.
  - destruct r as [|x r]; [now exists [], []|]. rewrite cover_cons, orb_false_r in H.
    apply existsb_exists in H as [p [Hp Hpre]]. apply is_prefix_spec in Hpre as [t ->].
    exists [x :: r ++ t], t. split; [now constructor|]. simpl. now rewrite app_nil_r.
  - destruct r as [|x r]; [now exists [], []|]. rewrite cover_cons in H. apply orb_true_iff in H as [H|H].
    + apply existsb_exists in H as [p [Hp Hpre]]. apply is_prefix_spec in Hpre as [t ->].
      exists [x :: r ++ t], t. split; [now constructor|]. simpl. now rewrite app_nil_r.
    + apply existsb_exists in H as [p [Hp H]]. apply andb_true_iff in H as [H Hc]. apply andb_true_iff in H as [_ Hpre].
      apply is_prefix_spec in Hpre as [t Ht]. rewrite Ht in Hc. rewrite skipn_app, skipn_all, Nat.sub_diag in Hc. simpl in Hc.
      destruct (IH t Hc) as [qs [post [Hq Hcat]]]. exists (p :: qs), post. split; [now constructor|].
      simpl concat. rewrite Hcat, Ht. now rewrite <- app_assoc.
Qed.

Lemma cover_complete : forall phrases qs r post fuel, Forall (fun p => In p phrases) qs ->
  concat qs = r ++ post -> length r <= fuel -> cover phrases fuel r = true.
Proof.
  intros phrases. induction qs as [|q qs IH]; intros r post fuel Hq Hcat Hf.
  - simpl in Hcat. destruct r; [destruct fuel; reflexivity|discriminate].
  - destruct r as [|x r]; [destruct fuel; reflexivity|].
    inversion Hq as [|? ? Hqin Hqs]; subst. simpl concat in Hcat.
    apply app_eq_app in Hcat as [l [[H1 H2]|[H1 H2]]].
    + (* q = (x :: r) ++ l : the rest is a prefix of q *)
      assert (Hpre : existsb (fun p => is_prefix (x :: r) p) phrases = true).
      { apply existsb_exists. exists q. split; [exact Hqin|]. apply is_prefix_spec. now exists l. }
      rewrite cover_cons, Hpre. reflexivity.
    + (* x :: r = q ++ l *)
      destruct q as [|y q].
      * simpl in H1. subst l. apply (IH (x :: r) post fuel Hqs H2 Hf).
      * destruct fuel as [|f]; [simpl in Hf; lia|]. rewrite cover_cons. apply orb_true_iff. right.
        apply existsb_exists. exists (y :: q). split; [exact Hqin|].
        assert (Hp : is_prefix (y :: q) (x :: r) = true) by (apply is_prefix_spec; now exists l).
        apply andb_true_iff; split; [apply andb_true_iff; split; [reflexivity|exact Hp]|].
        rewrite H1. rewrite skipn_app, skipn_all, Nat.sub_diag. simpl.
        apply (IH l post f Hqs H2). assert (length (x :: r) = length ((y :: q) ++ l)) by now rewrite H1.
        rewrite app_length in H. simpl in *. lia.
Qed.

(* ---- derivable_b <-> derivable --------------------------------------------------------------------------- *)
Theorem derivable_b_sound : forall phrases g, derivable_b phrases g = true -> derivable phrases g.
Proof.
  intros phrases g H. destruct g as [|x g]; [exists [], [], []; split; [constructor|reflexivity]|].
  unfold derivable_b in H. apply orb_true_iff in H as [H|H].
  - apply existsb_exists in H as [p [Hp Hi]]. apply is_infix_spec in Hi as [pre [post ->]].
    exists [pre ++ (x :: g) ++ post], pre, post. split; [now constructor|]. simpl. now rewrite app_nil_r.
  - apply existsb_exists in H as [[h r] [Hin H]]. apply splits_spec in Hin as [Hh Hg].
    apply andb_true_iff in H as [Hs Hc]. apply existsb_exists in Hs as [p [Hp Hs]].
    apply andb_true_iff in Hs as [_ Hs]. apply is_suffix_spec in Hs as [pre ->].
    destruct (cover_sound _ _ _ Hc) as [qs [post [Hq Hcat]]].
    exists ((pre ++ h) :: qs), pre, post. split; [now constructor|].
    simpl concat. rewrite Hcat, Hg. now rewrite <- !app_assoc.
Qed.

Theorem derivable_b_complete : forall phrases g, g <> [] -> derivable phrases g -> derivable_b phrases g = true.
Proof.
  intros phrases g Hg [ps [pre [post [Hps Hcat]]]].
  revert pre Hcat. induction ps as [|p ps IH]; intros pre Hcat.
  - simpl in Hcat. destruct pre; [destruct g; [congruence|discriminate]|discriminate].
  - inversion Hps as [|? ? Hp Hps']; subst. simpl concat in Hcat.
    apply app_eq_app in Hcat as [l [[H1 H2]|[H1 H2]]].
    + (* p = pre ++ l, g ++ post = l ++ concat ps *)
      destruct l as [|y l].
      * simpl in H2. apply (IH Hps' []). simpl. now rewrite H2.
      * symmetry in H2. apply app_eq_app in H2 as [l2 [[H3 H4]|[H3 H4]]].
        -- (* y :: l = g ++ l2 : g is inside p *)
           destruct g as [|x g]; [congruence|]. unfold derivable_b. apply orb_true_iff. left.
           apply existsb_exists. exists p. split; [exact Hp|]. apply is_infix_spec.
           exists pre, l2. rewrite H1, H3. reflexivity.
        -- (* g = (y :: l) ++ l2, concat ps = l2 ++ post *)
           destruct g as [|x g]; [congruence|]. unfold derivable_b. apply orb_true_iff. right.
           apply existsb_exists. exists (y :: l, l2). split.
           ++ apply splits_spec. split; [discriminate|exact H3].
           ++ apply andb_true_iff. split.
              ** apply existsb_exists. exists p. split; [exact Hp|]. simpl nonempty. simpl andb.
                 apply is_suffix_spec. now exists pre.
              ** apply (cover_complete phrases ps l2 post (length l2) Hps' H4). lia.
    + (* pre = p ++ l *)
      apply (IH Hps' l). exact H2.
Qed.

Theorem derivable_b_exact : forall phrases g, g <> [] -> (derivable_b phrases g = true <-> derivable phrases g).
Proof. intros. split; [apply derivable_b_sound|now apply derivable_b_complete]. Qed.

(* the model's phrase filters in terms of the declarative predicate *)
Theorem phrase_union_exact : forall sents ws,
  phrase_union_pass sents ws = true <->
  phrase_words ws = [] \/ exists s, In s sents /\ derivable s (phrase_words ws).
Proof.
  intros sents ws. unfold phrase_union_pass. destruct (phrase_words ws) as [|x g] eqn:E.
  - split; [now left|reflexivity].
  - rewrite existsb_exists. split.
    + intros [s [Hs Hd]]. right. exists s. split; [exact Hs|now apply derivable_b_sound].
    + intros [H|[s [Hs Hd]]]; [discriminate|]. exists s. split; [exact Hs|]. apply derivable_b_complete; [discriminate|exact Hd].
Qed.

Theorem phrase_multiple_exact : forall sents ws j,
  In j (phrase_multiple_targets sents ws) <->
  j < length sents /\ (phrase_words ws = [] \/ derivable (nth j sents []) (phrase_words ws)).
Proof.
  intros sents ws j. unfold phrase_multiple_targets. destruct (phrase_words ws) as [|x g] eqn:E.
  - rewrite in_seq. split; [intros H; split; [lia|now left]|intros [H _]; lia].
  - rewrite filter_In, in_seq. split.
    + intros [H Hd]. split; [lia|]. right. now apply derivable_b_sound.
    + intros [H [Hd|Hd]]; [discriminate|]. split; [lia|]. apply derivable_b_complete; [discriminate|exact Hd].
Qed.

Example derivable_example :
  let a := [97%N] in let b := [98%N] in let c := [99%N] in
  derivable_b [[a; b]; [c]] [b; c; a] = true /\ derivable_b [[a; b]; [c]] [b; a; c] = false.
Proof. split; vm_compute; reflexivity. Qed.
