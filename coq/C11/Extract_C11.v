(* Extraction of the C11 executable model (ExtrOcamlBasic only). coqc runs with cwd = /verif/coq. *)
From Coq Require Import List NArith ZArith Extraction ExtrOcamlBasic.
From Kenlm Require Import C11.FilterSpec C11.IntersectModel C11.FilterModel C11.PhraseGraphModel.
Extraction Language OCaml.
Extraction "extracted/c11_model.ml"
  first_intersection all_intersection filter_arpa filter_raw read_multiple read_single read_phrases
  derivable_b phrase_words filter_words is_tag build_postings lookup score restrict Z.add
  graph_union_pass graph_multiple_targets phrase_union_pass phrase_multiple_targets.
