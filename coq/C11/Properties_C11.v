(* C11 -- the property theorems and nothing else.  Each is closed by `exact <lemma>`; vlib runs
   Print Assumptions on every one of them on every check run. *)
From Coq Require Import List NArith ZArith Bool Arith Sorted.
From Kenlm Require Import C11.FilterSpec C11.IntersectModel C11.FilterModel C11.IntersectProofs C11.VocabProofs
  C11.TokenProofs C11.OutputProofs C11.QueryProofs C11.PhraseProofs C11.ReaderProofs
  C11.PhraseGraphModel C11.PhraseSearchProofs C11.PhraseTableProofs C11.PhraseGraphProofs.
Import ListNotations.

(* util/multi_intersection.hh on sorted posting lists: FirstIntersection returns the least common element (or
   none), AllIntersection all common elements in increasing order; neither runs out of the model's fuel. *)
Theorem C11_intersection_correct : forall sets, sets <> [] -> (forall s, In s sets -> StronglySorted lt s) ->
  (exists r, first_intersection sets = Ok r /\
     match r with
     | Some v => (forall s, In s sets -> In v s) /\ forall u, (forall s, In s sets -> In u s) -> v <= u
     | None => forall u, ~ (forall s, In s sets -> In u s)
     end) /\
  (exists l, all_intersection sets = Ok l /\ StronglySorted lt l /\ forall u, In u l <-> (forall s, In s sets -> In u s)).
Proof. intros sets H1 H2. split; [exact (first_intersection_correct sets H1 H2)|exact (all_intersection_correct sets H1 H2)]. Qed.

(* kept <-> keep: for every vocabulary file (bytes), every n-gram of well-formed words joined by single spaces,
   every vocabulary mode, with and without `context`, the outputs that receive the line are exactly those of
   the specification predicates keep_single / keep_union / keep_multiple (FilterSpec.v). *)
Theorem C11_vocab_modes_exact : forall cfg bytes ws, cphrase cfg = false -> words_ok ws ->
  let v := load_vocab cfg bytes in
  let ctx := cctx cfg in
  match cmode cfg with
  | MCopy => targets cfg v (join ws) = Ok [0]
  | MSingle => targets cfg v (join ws) = Ok (if keep_single (read_single bytes) ctx ws then [0] else [])
  | MUnion => targets cfg v (join ws) = Ok (if keep_union (read_multiple bytes) ctx ws then [0] else [])
  | MMultiple => exists l, targets cfg v (join ws) = Ok l /\ StronglySorted lt l /\
                   forall j, In j l <-> j < length (read_multiple bytes) /\ keep_multiple (read_multiple bytes) j ctx ws = true
  end.
Proof. exact targets_exact. Qed.

(* what "the vocabulary of a sentence" is in terms of the bytes of the vocabulary file: the reader automaton
   (vocab::ReadMultiple / ReadSingle) yields the white-space separated words of every line ('\n' only) that has a
   word; blank lines do not consume a sentence number. *)
Theorem C11_vocabulary_reader_spec : forall s,
  read_multiple s = sentences_spec s /\ read_single s = concat (sentences_spec s).
Proof. intros s. split; [exact (read_multiple_spec s)|exact (read_single_spec s)]. Qed.

(* the n-gram the filter sees in an ARPA line `prob TAB n-gram [TAB back-off]` / a raw line `n-gram [TAB ...]` *)
Theorem C11_line_ngram : forall p ws tail, ~ In TAB p -> words_ok ws -> (tail = [] \/ exists b, tail = TAB :: b) ->
  arpa_ngram (p ++ TAB :: join ws ++ tail) = Some (join ws) /\ raw_ngram (join ws ++ tail) = join ws.
Proof.
  intros p ws tail Hp Hok Ht. split.
  - exact (arpa_ngram_line p (join ws) tail Hp (join_no_tab ws Hok) Ht).
  - exact (raw_ngram_line (join ws) tail (join_no_tab ws Hok) Ht).
Qed.

(* Every output file is: a header that counts the lines of each section (it fits into the space reserved for
   the input's counts, the slack stays as newlines), then exactly the lines the filter passes to that output --
   a sublist of the input section, verbatim and in order.  The model never reports out-of-fuel.
   (All modes, phrase mode included; every line must have its tab, otherwise the tool stops with an error.) *)
Theorem C11_output_is_sublist_with_counts : forall cfg bytes secs,
  let v := load_vocab cfg bytes in
  (forall sec line, In sec secs -> In line sec -> arpa_ngram line <> None) ->
  exists files, filter_arpa cfg bytes secs = FOk files /\ length files = noutputs cfg v /\
    forall j, j < noutputs cfg v ->
      let kept := map (kept_lines cfg v true j) secs in
      Forall2 sublist kept secs /\
      nth j files [] =
        write_counts (map (@length _) kept)
        ++ repeat NL (size_needed (map (@length _) secs) - size_needed (map (@length _) kept))
        ++ render_sections 1 kept ++ s_end.
Proof. exact output_is_sublist_with_counts. Qed.

(* copy mode preserves every entry (both formats) *)
Theorem C11_copy_identity : forall c p bytes secs lines,
  ((forall sec line, In sec secs -> In line sec -> arpa_ngram line <> None) ->
   filter_arpa {| cmode := MCopy; cctx := c; cphrase := p |} bytes secs =
   FOk [write_counts (map (@length _) secs) ++ render_sections 1 secs ++ s_end]) /\
  filter_raw {| cmode := MCopy; cctx := c; cphrase := p |} bytes lines = FOk [render_lines lines].
Proof. intros. split; [exact (copy_identity c p bytes secs)|exact (copy_identity_raw c p bytes lines)]. Qed.

(* Consequently: for a model m and the model filtered by any predicate that keeps every n-gram made of passing
   words (and <unk>), the ARPA back-off recursion gives the same probability and the same matched length for
   every word after every context over passing words. *)
Theorem C11_query_equivalence : forall (W : Type) (unk : W) (pass : W -> bool) (kept : list W -> bool),
  (forall g, g <> [] -> forallb pass g = true -> kept g = true) -> kept [unk] = true ->
  forall (m : lm W) c x, forallb pass (c ++ [x]) = true ->
  score W unk (restrict W kept m) c x = score W unk m c x.
Proof. exact query_equivalence. Qed.

(* ... instantiated for the three vocabulary modes, with or without `context` *)
Theorem C11_query_equivalence_modes : forall sents v j ctx (m : lm word) c x,
  (forallb (passes v) (c ++ [x]) = true ->
   score word unk_word (restrict word (keep_single v ctx) m) c x = score word unk_word m c x) /\
  (In v sents -> forallb (passes v) (c ++ [x]) = true ->
   score word unk_word (restrict word (keep_union sents ctx) m) c x = score word unk_word m c x) /\
  (forallb (passes (nth j sents [])) (c ++ [x]) = true ->
   score word unk_word (restrict word (keep_multiple sents j ctx) m) c x = score word unk_word m c x).
Proof.
  intros. split; [exact (query_equivalence_single v ctx m c x)|split].
  - intros Hv. exact (query_equivalence_union sents v ctx m c x Hv).
  - exact (query_equivalence_multiple sents j ctx m c x).
Qed.

(* Phrase mode, specification side: the decision procedure used by the tool model (FilterModel.derivable_b: infix of a
   phrase, or non-empty suffix . whole phrases . prefix) decides the declarative predicate `derivable` exactly --
   complete AND sound -- and so do the model's union / multiple phrase filters. *)
Theorem C11_phrase_decision_exact : forall sents ws,
  (phrase_union_pass sents ws = true <->
     phrase_words ws = [] \/ exists s, In s sents /\ derivable s (phrase_words ws)) /\
  (forall j, In j (phrase_multiple_targets sents ws) <->
     j < length sents /\ (phrase_words ws = [] \/ derivable (nth j sents []) (phrase_words ws))).
Proof. intros. split; [exact (phrase_union_exact sents ws)|exact (phrase_multiple_exact sents ws)]. Qed.

(* Phrase mode, implementation side: the structure-faithful model of lm/filter/phrase.{hh,cc} (PhraseGraphModel.v:
   Substrings::AddPhrase tables, BuildGraph, the mutually recursive Arc::LowerBound / Vertex::LowerBound search with
   its lazily advanced pointers, Union::Evaluate / Multiple::Evaluate) keeps EVERY n-gram that can be read off a
   concatenation of one sentence's phrases -- the direction the property claims -- and never runs out of fuel
   (the search terminates within the model's fuel for every vocabulary and n-gram).
   Hashes are the word sequences themselves (64-bit hashes treated as injective; a collision only adds sentences). *)
Theorem C11_phrase_complete : forall sents ws,
  (exists r, graph_union_pass sents ws = Ok r /\
     ((exists t, t < length sents /\ derivable (nth t sents []) (phrase_words ws)) -> r = true)) /\
  (exists l, graph_multiple_targets sents ws = Ok l /\
     forall t, t < length sents -> (phrase_words ws = [] \/ derivable (nth t sents []) (phrase_words ws)) -> In t l).
Proof. intros. split; [exact (graph_union_complete sents ws)|exact (graph_multiple_complete sents ws)]. Qed.
