(* C11 -- the property theorems and nothing else (each closed by `exact <lemma>`). *)
From Coq Require Import List NArith Bool Arith.
From Kenlm Require Import C11.FilterSpec C11.IntersectModel C11.FilterModel.
Import ListNotations.

Theorem C11_placeholder_bootstrap : forall l v, lower_bound [] v = [] /\ lower_bound l 0 = l.
Proof. intros. split; [reflexivity|]. destruct l; reflexivity. Qed.
