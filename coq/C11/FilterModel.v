(* Executable model of lm/filter: vocabulary readers (vocab.cc, phrase.cc), the filters
   (vocab.hh Single/Union/Multiple, wrapper.hh ContextFilter/BinaryFilter, phrase.hh MakeHashes),
   line tokenisation (arpa_io.hh ReadNGrams, count_io.hh ReadCount, util/tokenize_piece.hh) and the
   outputs (arpa_io.cc ARPAOutput with its reserved header, count_io.hh CountOutput, format.hh
   MultipleOutput).  No proofs here. *)
From Coq Require Import List NArith Bool Arith.
From Kenlm Require Import C11.FilterSpec C11.IntersectModel.
Import ListNotations.

(* ---- characters -------------------------------------------------------------------------------- *)
(* C-locale isspace: ' ' \t \n \v \f \r *)
Definition isspace (c : byte) : bool :=
  N.eqb c 32 || (N.leb 9 c && N.leb c 13).
Definition SP : byte := 32%N.
Definition TAB : byte := 9%N.
Definition NL : byte := 10%N.
Definition VT : byte := 11%N.

(* ---- util::TokenIter<SingleCharacter, SkipEmpty> ----------------------------------------------- *)
(* all fields, empty ones included (at least one field) *)
Fixpoint split_on (d : byte) (s : list byte) : list (list byte) :=
  match s with
  | [] => [[]]
  | c :: t =>
      if N.eqb c d then [] :: split_on d t
      else match split_on d t with
           | f :: r => (c :: f) :: r
           | [] => [[c]]              (* unreachable: split_on never returns [] *)
           end
  end.
Definition nonempty {A} (l : list A) : bool := match l with [] => false | _ => true end.
(* SkipEmpty = true *)
Definition tokens (d : byte) (s : list byte) : list (list byte) := filter nonempty (split_on d s).

(* ---- vocab::ReadSingle / vocab::ReadMultiple ---------------------------------------------------- *)
(* `in >> word` reads maximal runs of non-isspace bytes; IsLineEnd ends the sentence at the first
   '\n' after a word; lines without a word do not consume a sentence id.
   State of the character automaton: current word (reversed), words of the current line (reversed),
   finished sentences (reversed). *)
Definition flush_word (w : list byte) (line : list word) : list word :=
  match w with [] => line | _ => rev w :: line end.
Definition flush_line (line : list word) (sents : list (list word)) : list (list word) :=
  match line with [] => sents | _ => rev line :: sents end.

Fixpoint read_multiple_aux (s : list byte) (w : list byte) (line : list word) (sents : list (list word))
  : list (list word) :=
  match s with
  | [] => rev (flush_line (flush_word w line) sents)
  | c :: t =>
      if N.eqb c NL then read_multiple_aux t [] [] (flush_line (flush_word w line) sents)
      else if isspace c then read_multiple_aux t [] (flush_word w line) sents
      else read_multiple_aux t (c :: w) line sents
  end.
(* one vocabulary (list of words, duplicates kept) per non-blank line *)
Definition read_multiple (s : list byte) : list (list word) := read_multiple_aux s [] [] [].
Definition read_single (s : list byte) : list word := concat (read_multiple s).

(* phrase::ReadMultiple: ' ' separates words, '\t' and '\v' separate phrases, any other isspace byte
   ('\n' '\f' '\r') ends the sentence; sentences without a phrase do not consume an id *)
Definition flush_phrase (ph : list word) (sent : list (list word)) : list (list word) :=
  match ph with [] => sent | _ => rev ph :: sent end.
Definition flush_sent (sent : list (list word)) (sents : list (list (list word))) :=
  match sent with [] => sents | _ => rev sent :: sents end.

Fixpoint read_phrases_aux (s : list byte) (w : list byte) (ph : list word) (sent : list (list word))
  (sents : list (list (list word))) : list (list (list word)) :=
  match s with
  | [] => rev (flush_sent (flush_phrase (flush_word w ph) sent) sents)
  | c :: t =>
      if negb (isspace c) then read_phrases_aux t (c :: w) ph sent sents
      else if N.eqb c SP then read_phrases_aux t [] (flush_word w ph) sent sents
      else if N.eqb c TAB || N.eqb c VT then read_phrases_aux t [] [] (flush_phrase (flush_word w ph) sent) sents
      else read_phrases_aux t [] [] [] (flush_sent (flush_phrase (flush_word w ph) sent) sents)
  end.
Definition read_phrases (s : list byte) : list (list (list word)) := read_phrases_aux s [] [] [] [].

(* ---- posting lists: boost::unordered_map<string, vector<unsigned>> ------------------------------ *)
Definition postings := list (word * list nat).

Definition append_sentence (l : list nat) (sid : nat) : list nat :=
  match l with
  | [] => [sid]
  | _ => if Nat.eqb (last l 0) sid then l else l ++ [sid]
  end.

Fixpoint add_posting (w : word) (sid : nat) (p : postings) : postings :=
  match p with
  | [] => [(w, [sid])]
  | (w', l) :: t => if bytes_eqb w w' then (w', append_sentence l sid) :: t else (w', l) :: add_posting w sid t
  end.

Fixpoint lookup (w : word) (p : postings) : option (list nat) :=
  match p with
  | [] => None
  | (w', l) :: t => if bytes_eqb w w' then Some l else lookup w t
  end.

Definition add_sentence (ws : list word) (sid : nat) (p : postings) : postings :=
  fold_left (fun p w => add_posting w sid p) ws p.

Fixpoint build_from (sents : list (list word)) (sid : nat) (p : postings) : postings :=
  match sents with
  | [] => p
  | s :: t => build_from t (S sid) (add_sentence s sid p)
  end.
Definition build_postings (sents : list (list word)) : postings := build_from sents 0 [].

(* ---- the filters --------------------------------------------------------------------------------- *)
(* vocab::Single::PassNGram *)
Fixpoint single_pass (vocab : list word) (ws : list word) : bool :=
  match ws with
  | [] => true
  | w :: t => if is_tag w then single_pass vocab t
              else if mem w vocab then single_pass vocab t else false
  end.

(* the loop shared by Union::PassNGram and Multiple::AddNGram: None = some word is in no sentence *)
Fixpoint gather_sets (p : postings) (ws : list word) (acc : list (list nat)) : option (list (list nat)) :=
  match ws with
  | [] => Some (rev acc)
  | w :: t => if is_tag w then gather_sets p t acc
              else match lookup w p with
                   | None => None
                   | Some l => gather_sets p t (l :: acc)
                   end
  end.

Definition union_pass (p : postings) (ws : list word) : res bool :=
  match gather_sets p ws [] with
  | None => Ok false
  | Some [] => Ok true
  | Some sets => match first_intersection sets with
                 | Ok (Some _) => Ok true
                 | Ok None => Ok false
                 | OutOfFuel => OutOfFuel
                 end
  end.

(* Multiple::AddNGram: the outputs that receive the line, in the order the callbacks are made *)
Definition multiple_targets (p : postings) (noutputs : nat) (ws : list word) : res (list nat) :=
  match gather_sets p ws [] with
  | None => Ok []
  | Some [] => Ok (seq 0 noutputs)                      (* output.AddNGram(line): every file *)
  | Some sets => all_intersection sets
  end.

(* ContextFilter::AddNGram: cut the n-gram at its last space (never looking at index 0) *)
Fixpoint before_last_space (l : list byte) : option (list byte) :=
  match l with
  | [] => None
  | c :: t => match before_last_space t with
              | Some pre => Some (c :: pre)
              | None => if N.eqb c SP then Some [] else None
              end
  end.
Definition strip_context (ngram : list byte) : list byte :=
  match ngram with
  | [] => []                                   (* outside the domain (the C++ forms a length -1 piece) *)
  | c :: t => match before_last_space t with Some pre => c :: pre | None => [] end
  end.

Definition filter_words (ctx : bool) (ngram : list byte) : list word :=
  tokens SP (if ctx then strip_context ngram else ngram).

(* ---- phrase mode: executable decision procedure (dynamic programme over split points) ------------ *)
Fixpoint list_eqb (a b : list word) : bool :=
  match a, b with
  | [], [] => true
  | x :: a', y :: b' => bytes_eqb x y && list_eqb a' b'
  | _, _ => false
  end.
Fixpoint is_prefix (a b : list word) : bool :=       (* a is a prefix of b *)
  match a, b with
  | [], _ => true
  | x :: a', y :: b' => bytes_eqb x y && is_prefix a' b'
  | _, [] => false
  end.
Fixpoint is_infix (a b : list word) : bool :=
  is_prefix a b || match b with [] => false | _ :: b' => is_infix a b' end.
Fixpoint is_suffix (a b : list word) : bool :=
  list_eqb a b || match b with [] => false | _ :: b' => is_suffix a b' end.

(* cover ph fuel g: g = phrase* . (proper-or-empty prefix of a phrase), g consumed left to right *)
Fixpoint cover (phrases : list (list word)) (fuel : nat) (g : list word) : bool :=
  match g with
  | [] => true
  | _ =>
      existsb (fun p => is_prefix g p) phrases ||
      match fuel with
      | O => false
      | S f => existsb (fun p => nonempty p && is_prefix p g && cover phrases f (skipn (length p) g)) phrases
      end
  end.

(* splits of g into (nonempty head, tail) *)
Fixpoint splits (g : list word) : list (list word * list word) :=
  match g with
  | [] => []
  | x :: t => ([x], t) :: map (fun '(h, r) => (x :: h, r)) (splits t)
  end.

Definition derivable_b (phrases : list (list word)) (g : list word) : bool :=
  match g with
  | [] => true
  | _ =>
      existsb (fun p => is_infix g p) phrases ||
      existsb (fun '(h, r) => existsb (fun p => nonempty h && is_suffix h p) phrases && cover phrases (length r) r) (splits g)
  end.

Definition phrase_union_pass (sents : list (list (list word))) (ws : list word) : bool :=
  match phrase_words ws with
  | [] => true
  | g => existsb (fun s => derivable_b s g) sents
  end.
Definition phrase_multiple_targets (sents : list (list (list word))) (ws : list word) : list nat :=
  match phrase_words ws with
  | [] => seq 0 (length sents)
  | g => filter (fun j => derivable_b (nth j sents []) g) (seq 0 (length sents))
  end.

(* ---- configuration and dispatch ------------------------------------------------------------------ *)
Inductive fmode := MCopy | MSingle | MUnion | MMultiple.

Record config := { cmode : fmode; cctx : bool; cphrase : bool }.

(* the vocabulary input, read the way the selected mode reads it *)
Inductive vocab_data :=
| VNone
| VSingle (v : list word)
| VPost (n : nat) (p : postings)                       (* number of sentences, posting lists *)
| VPhrase (s : list (list (list word))).

Definition load_vocab (cfg : config) (bytes : list byte) : vocab_data :=
  match cmode cfg with
  | MCopy => VNone
  | MSingle => VSingle (read_single bytes)
  | _ => if cphrase cfg then VPhrase (read_phrases bytes)
         else let s := read_multiple bytes in VPost (length s) (build_postings s)
  end.

Definition noutputs (cfg : config) (v : vocab_data) : nat :=
  match cmode cfg, v with
  | MMultiple, VPost n _ => n
  | MMultiple, VPhrase s => length s
  | _, _ => 1
  end.

(* which outputs receive an n-gram (by its n-gram field) *)
Definition targets (cfg : config) (v : vocab_data) (ngram : list byte) : res (list nat) :=
  match cmode cfg with
  | MCopy => Ok [0]
  | m =>
      let ws := filter_words (cctx cfg) ngram in
      match m, v with
      | MSingle, VSingle vocab => Ok (if single_pass vocab ws then [0] else [])
      | MUnion, VPost _ p => match union_pass p ws with
                             | Ok b => Ok (if b then [0] else [])
                             | OutOfFuel => OutOfFuel
                             end
      | MUnion, VPhrase s => Ok (if phrase_union_pass s ws then [0] else [])
      | MMultiple, VPost n p => multiple_targets p n ws
      | MMultiple, VPhrase s => Ok (phrase_multiple_targets s ws)
      | _, _ => Ok []
      end
  end.

(* ---- line tokenisation ---------------------------------------------------------------------------- *)
Inductive line_err := NoTab.
(* ARPA: the n-gram is the second tab-separated field (ReadNGrams) *)
Definition arpa_ngram (line : list byte) : option (list byte) :=
  match split_on TAB line with
  | _ :: g :: _ => Some g
  | _ => None
  end.
(* raw: the n-gram is the first tab-separated field (ReadCount) *)
Definition raw_ngram (line : list byte) : list byte := hd [] (split_on TAB line).

(* distribute the lines of one section over the outputs: result.(j) = lines of output j, in order *)
Inductive fres (A : Type) := FOk (a : A) | FNoTab | FOutOfFuel.
Arguments FOk {A} _.
Arguments FNoTab {A}.
Arguments FOutOfFuel {A}.

Fixpoint add_to (outs : list (list (list byte))) (j : nat) (line : list byte) : list (list (list byte)) :=
  match outs, j with
  | [], _ => []
  | o :: r, O => (line :: o) :: r
  | o :: r, S k => o :: add_to r k line
  end.

Fixpoint distribute (cfg : config) (v : vocab_data) (arpa : bool) (lines : list (list byte))
  (outs : list (list (list byte))) : fres (list (list (list byte))) :=
  match lines with
  | [] => FOk (map (@rev _) outs)
  | line :: rest =>
      match (if arpa then arpa_ngram line else Some (raw_ngram line)) with
      | None => FNoTab
      | Some g =>
          match targets cfg v g with
          | OutOfFuel => FOutOfFuel
          | Ok js => distribute cfg v arpa rest (fold_left (fun o j => add_to o j line) js outs)
          end
      end
  end.

Definition filter_section (cfg : config) (v : vocab_data) (arpa : bool) (lines : list (list byte))
  : fres (list (list (list byte))) :=
  distribute cfg v arpa lines (repeat [] (noutputs cfg v)).

(* ---- rendering ------------------------------------------------------------------------------------- *)
Fixpoint dec_aux (fuel : nat) (n : N) (acc : list byte) : list byte :=
  if N.ltb n 10 then (48 + n)%N :: acc
  else match fuel with
       | O => acc
       | S f => dec_aux f (n / 10)%N ((48 + n mod 10)%N :: acc)
       end.
Definition dec (n : N) : list byte := dec_aux (N.size_nat n) n [].
Definition dec_nat (n : nat) : list byte := dec (N.of_nat n).

(* "\n\\data\\\n" "ngram k=c\n"... "\n"   (arpa_io.cc WriteCounts) *)
Definition s_data : list byte := [10; 92; 100; 97; 116; 97; 92; 10]%N.
Definition s_ngram : list byte := [110; 103; 114; 97; 109; 32]%N.
Fixpoint count_lines (k : nat) (counts : list nat) : list byte :=
  match counts with
  | [] => []
  | c :: r => s_ngram ++ dec_nat k ++ [61%N] ++ dec_nat c ++ [NL] ++ count_lines (S k) r
  end.
Definition write_counts (counts : list nat) : list byte := s_data ++ count_lines 1 counts ++ [NL].
Definition size_needed (counts : list nat) : nat := length (write_counts counts).

(* "\\k-grams:\n" lines "\n" *)
Definition s_grams : list byte := [45; 103; 114; 97; 109; 115; 58; 10]%N.
Definition render_lines (ls : list (list byte)) : list byte := concat (map (fun l => l ++ [NL]) ls).
Fixpoint render_sections (k : nat) (secs : list (list (list byte))) : list byte :=
  match secs with
  | [] => []
  | s :: r => [92%N] ++ dec_nat k ++ s_grams ++ render_lines s ++ [NL] ++ render_sections (S k) r
  end.
Definition s_end : list byte := [92; 101; 110; 100; 92; 10]%N.

(* seekp(0) + write *)
Definition overwrite_front (data file : list byte) : list byte := data ++ skipn (length data) file.

(* ARPAOutput: ReserveForCounts(SizeNeededForCounts(input counts)) newlines; sections; \end\; then the
   real counts are written over the front of the file. *)
Definition arpa_output (in_counts : list nat) (kept : list (list (list byte))) : list byte :=
  let file := repeat NL (size_needed in_counts) ++ render_sections 1 kept ++ s_end in
  overwrite_front (write_counts (map (@length _) kept)) file.

(* transpose: sections x outputs -> outputs x sections *)
Definition nth_all (j : nat) (secs : list (list (list (list byte)))) : list (list (list byte)) :=
  map (fun outs => nth j outs []) secs.

Fixpoint filter_sections (cfg : config) (v : vocab_data) (secs : list (list (list byte)))
  : fres (list (list (list (list byte)))) :=
  match secs with
  | [] => FOk []
  | s :: r => match filter_section cfg v true s with
              | FOk o => match filter_sections cfg v r with
                         | FOk os => FOk (o :: os)
                         | e => e
                         end
              | FNoTab => FNoTab
              | FOutOfFuel => FOutOfFuel
              end
  end.

(* the whole tool, ARPA format: vocabulary bytes + sections of lines -> one byte string per output file *)
Definition filter_arpa (cfg : config) (vocab_bytes : list byte) (secs : list (list (list byte)))
  : fres (list (list byte)) :=
  let v := load_vocab cfg vocab_bytes in
  match filter_sections cfg v secs with
  | FOk per_section =>
      FOk (map (fun j => arpa_output (map (@length _) secs) (nth_all j per_section)) (seq 0 (noutputs cfg v)))
  | FNoTab => FNoTab
  | FOutOfFuel => FOutOfFuel
  end.

(* raw format *)
Definition filter_raw (cfg : config) (vocab_bytes : list byte) (lines : list (list byte))
  : fres (list (list byte)) :=
  let v := load_vocab cfg vocab_bytes in
  match filter_section cfg v false lines with
  | FOk outs => FOk (map render_lines outs)
  | FNoTab => FNoTab
  | FOutOfFuel => FOutOfFuel
  end.
