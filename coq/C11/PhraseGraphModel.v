(* Executable, structure-faithful model of lm/filter/phrase.{hh,cc}:
     Substrings::AddPhrase      the four sentence lists (substring / left / right / phrase) per sub-phrase
     BuildGraph                 arcs "before the n-gram -> vertex" (SetRight) and "vertex -> vertex" (SetPhrase)
     Arc::LowerBound / Vertex::LowerBound   the mutually recursive lower-bound search (explicit fuel)
     Union::Evaluate / Multiple::Evaluate
   Keys of the hash table are the word sequences themselves (64-bit hashes are treated as injective).
   The priority queue of a vertex is "its non-empty incoming arcs", top = one with the least Current()
   (the first such; the heap's choice among equal keys does not matter for the result).  No proofs here. *)
From Coq Require Import List NArith Arith Bool.
From Kenlm Require Import C11.FilterSpec C11.IntersectModel C11.FilterModel.
Import ListNotations.

(* ---- Substrings ------------------------------------------------------------------------------------------ *)
Record rel := { r_sub : list nat; r_left : list nat; r_right : list nat; r_phrase : list nat }.
Definition rel0 : rel := {| r_sub := []; r_left := []; r_right := []; r_phrase := [] |}.
Definition ptable := list (list word * rel).

Fixpoint pt_lookup (k : list word) (t : ptable) : option rel :=
  match t with
  | [] => None
  | (k', r) :: rest => if list_eqb k k' then Some r else pt_lookup k rest
  end.

Fixpoint pt_update (k : list word) (f : rel -> rel) (t : ptable) : ptable :=
  match t with
  | [] => [(k, f rel0)]                                    (* table_[hash] default-constructs the entry *)
  | (k', r) :: rest => if list_eqb k k' then (k', f r) :: rest else (k', r) :: pt_update k f rest
  end.

(* non-empty prefixes of l, shortest first *)
Fixpoint prefixes (l : list word) : list (list word) :=
  match l with
  | [] => []
  | x :: t => [x] :: map (cons x) (prefixes t)
  end.

(* inner loop of AddPhrase for one start position (suf = phrase from start) *)
Definition add_from (sid : nat) (first : bool) (suf : list word) (t : ptable) : ptable :=
  let t1 := fold_left (fun t k => pt_update k (fun r =>
               {| r_sub := append_sentence (r_sub r) sid;
                  r_left := if first then append_sentence (r_left r) sid else r_left r;
                  r_right := r_right r; r_phrase := r_phrase r |}) t) (prefixes suf) t in
  match suf with
  | [] => t1
  | _ => pt_update suf (fun r =>
               {| r_sub := r_sub r; r_left := r_left r;
                  r_right := append_sentence (r_right r) sid;
                  r_phrase := if first then append_sentence (r_phrase r) sid else r_phrase r |}) t1
  end.

Fixpoint add_phrase_aux (sid : nat) (first : bool) (suf : list word) (t : ptable) : ptable :=
  match suf with
  | [] => t
  | _ :: rest => add_phrase_aux sid false rest (add_from sid first suf t)
  end.
Definition add_phrase (sid : nat) (phrase : list word) (t : ptable) : ptable := add_phrase_aux sid true phrase t.

Fixpoint build_ptable_from (sents : list (list (list word))) (sid : nat) (t : ptable) : ptable :=
  match sents with
  | [] => t
  | s :: rest => build_ptable_from rest (S sid) (fold_left (fun t p => add_phrase sid p t) s t)
  end.
Definition build_ptable (sents : list (list (list word))) : ptable := build_ptable_from sents 0 [].

(* ---- BuildGraph -------------------------------------------------------------------------------------------- *)
Record arc := { a_from : option nat; a_to : nat; a_list : list nat }.      (* a_list = [current_, last_) *)

(* arcs from before the n-gram: prefixes ws[0..k] *)
Fixpoint right_arcs (t : ptable) (n : nat) (k : nat) (pres : list (list word)) : list arc :=
  match pres with
  | [] => []
  | key :: rest =>
      match pt_lookup key t with
      | None => []                                                         (* break *)
      | Some r =>
          if S k =? n then [{| a_from := None; a_to := k; a_list := r_sub r |}]
          else {| a_from := None; a_to := k; a_list := r_right r |} :: right_arcs t n (S k) rest
      end
  end.

(* arcs starting at word index from (vertex from-1): pieces ws[from..to] *)
Fixpoint phrase_arcs (t : ptable) (n : nat) (from : nat) (to : nat) (pres : list (list word)) : list arc :=
  match pres with
  | [] => []
  | key :: rest =>
      match pt_lookup key t with
      | None => []
      | Some r =>
          if S to =? n then [{| a_from := Some (from - 1); a_to := to; a_list := r_left r |}]
          else {| a_from := Some (from - 1); a_to := to; a_list := r_phrase r |} :: phrase_arcs t n from (S to) rest
      end
  end.

Fixpoint all_phrase_arcs (t : ptable) (n : nat) (from : nat) (suf : list word) : list arc :=
  match suf with
  | [] => []
  | _ :: rest => phrase_arcs t n from from (prefixes suf) ++ all_phrase_arcs t n (S from) rest
  end.

Definition build_graph (t : ptable) (ws : list word) : list arc :=
  let n := length ws in
  right_arcs t n 0 (prefixes ws) ++ all_phrase_arcs t n 1 (tl ws).

(* ---- the search --------------------------------------------------------------------------------------------- *)
Record gstate := { g_arcs : list arc; g_cur : list nat }.                   (* g_cur: Vertex::current_ per vertex *)

Fixpoint set_nth {A} (l : list A) (i : nat) (x : A) : list A :=
  match l, i with
  | [], _ => []
  | _ :: t, O => x :: t
  | a :: t, S k => a :: set_nth t k x
  end.

Definition set_arc_list (st : gstate) (ai : nat) (l : list nat) : gstate :=
  match nth_error (g_arcs st) ai with
  | Some a => {| g_arcs := set_nth (g_arcs st) ai {| a_from := a_from a; a_to := a_to a; a_list := l |}; g_cur := g_cur st |}
  | None => st
  end.
Definition set_vcur (st : gstate) (k : nat) (c : nat) : gstate :=
  {| g_arcs := g_arcs st; g_cur := set_nth (g_cur st) k c |}.

(* incoming_.top(): index and Current() of a non-empty arc into vertex k with least Current() *)
Fixpoint top_arc_aux (arcs : list arc) (k : nat) (i : nat) (best : option (nat * nat)) : option (nat * nat) :=
  match arcs with
  | [] => best
  | a :: rest =>
      let best' :=
        if a_to a =? k then
          match a_list a with
          | [] => best
          | c :: _ => match best with
                      | None => Some (i, c)
                      | Some (_, bc) => if c <? bc then Some (i, c) else best
                      end
          end
        else best in
      top_arc_aux rest k (S i) best'
  end.
Definition top_arc (st : gstate) (k : nat) : option (nat * nat) := top_arc_aux (g_arcs st) k 0 None.
Definition vertex_empty (st : gstate) (k : nat) : bool := match top_arc st k with None => true | Some _ => false end.

Fixpoint vertex_lb (fuel : nat) (k : nat) (to : nat) (st : gstate) : option gstate :=
  match fuel with
  | O => None
  | S f =>
      match top_arc st k with
      | None => Some st                                                     (* if (Empty()) return; *)
      | Some (ai, cur) =>
          if to <? cur then Some (set_vcur st k cur)                        (* a bound, not necessarily an element *)
          else
            match arc_lb f ai to st with                                    (* incoming_.pop(); top->LowerBound(to); *)
            | None => None
            | Some st' =>
                match nth_error (g_arcs st') ai with
                | Some a => match a_list a with
                            | c :: _ => if c =? to then Some (set_vcur st' k to) else vertex_lb f k to st'
                            | [] => vertex_lb f k to st'                    (* not pushed back; loop (returns if now empty) *)
                            end
                | None => None
                end
            end
      end
  end
with arc_lb (fuel : nat) (ai : nat) (to : nat) (st : gstate) : option gstate :=
  match fuel with
  | O => None
  | S f =>
      match nth_error (g_arcs st) ai with
      | None => None
      | Some a =>
          let l := lower_bound (a_list a) to in
          let st1 := set_arc_list st ai l in
          match a_from a, l with
          | None, _ => Some st1
          | Some _, [] => Some st1
          | Some fv, c :: l' =>
              if to <? c then Some st1
              else                                                          (* Current() == to *)
                match vertex_lb f fv to st1 with
                | None => None
                | Some st2 =>
                    if vertex_empty st2 fv then Some (set_arc_list st2 ai [])
                    else
                      let fc := nth fv (g_cur st2) 0 in
                      if to <? fc then Some (set_arc_list st2 ai (lower_bound l' fc)) else Some st2
                end
          end
      end
  end.

Definition init_state (arcs : list arc) (n : nat) : gstate := {| g_arcs := arcs; g_cur := repeat 0 n |}.

(* Union::Evaluate *)
Fixpoint union_eval (fuel big : nat) (last : nat) (lower : nat) (st : gstate) : res bool :=
  match fuel with
  | O => OutOfFuel
  | S f =>
      match vertex_lb big last lower st with
      | None => OutOfFuel
      | Some st' =>
          if vertex_empty st' last then Ok false
          else let c := nth last (g_cur st') 0 in
               if c =? lower then Ok true else union_eval f big last c st'
      end
  end.

(* Multiple::Evaluate *)
Fixpoint multiple_eval (fuel big : nat) (last : nat) (lower : nat) (st : gstate) (acc : list nat) : res (list nat) :=
  match fuel with
  | O => OutOfFuel
  | S f =>
      match vertex_lb big last lower st with
      | None => OutOfFuel
      | Some st' =>
          if vertex_empty st' last then Ok (rev acc)
          else let c := nth last (g_cur st') 0 in
               if c =? lower then multiple_eval f big last (S lower) st' (lower :: acc)
               else multiple_eval f big last c st' acc
      end
  end.

Definition graph_fuel (arcs : list arc) (n : nat) : nat :=
  S (S (fold_right (fun a m => length (a_list a) + m) 0 arcs)) * S (S (length arcs)) * S (S n).

Definition graph_union_pass (sents : list (list (list word))) (ws : list word) : res bool :=
  match phrase_words ws with
  | [] => Ok true
  | g => let arcs := build_graph (build_ptable sents) g in
         let n := length g in
         union_eval (S (S (length sents))) (graph_fuel arcs n) (n - 1) 0 (init_state arcs n)
  end.

Definition graph_multiple_targets (sents : list (list (list word))) (ws : list word) : res (list nat) :=
  match phrase_words ws with
  | [] => Ok (seq 0 (length sents))
  | g => let arcs := build_graph (build_ptable sents) g in
         let n := length g in
         multiple_eval (S (S (2 * length sents))) (graph_fuel arcs n) (n - 1) 0 (init_state arcs n) []
  end.
