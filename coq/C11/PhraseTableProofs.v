(* C11 -- phrase::Substrings (AddPhrase) as modelled in PhraseGraphModel.v: after reading the vocabulary, the
   entry of every non-empty sub-phrase of a phrase of sentence t lists t as substring; prefixes additionally as
   left, suffixes as right, the phrase itself as phrase; every list is strictly increasing with ids below the
   number of sentences. *)
From Coq Require Import List NArith Arith Bool Lia Sorted.
From Kenlm Require Import C11.FilterSpec C11.IntersectModel C11.FilterModel C11.IntersectProofs C11.VocabProofs
  C11.PhraseProofs C11.PhraseGraphModel.
Import ListNotations.

Inductive which := Wsub | Wleft | Wright | Wphrase.
Definition sel (w : which) (r : rel) : list nat :=
  match w with Wsub => r_sub r | Wleft => r_left r | Wright => r_right r | Wphrase => r_phrase r end.

Definition has (w : which) (key : list word) (t : nat) (T : ptable) : Prop :=
  exists r, pt_lookup key T = Some r /\ In t (sel w r).
Definition good (b : nat) (r : rel) : Prop := forall w, inc (sel w r) /\ forall x, In x (sel w r) -> x < b.
Definition tgood (b : nat) (T : ptable) : Prop := forall key r, pt_lookup key T = Some r -> good b r.

Lemma list_eqb_refl : forall a, list_eqb a a = true.
Proof. intros. now apply list_eqb_eq. Qed.

Lemma pt_lookup_update : forall k f T k',
  pt_lookup k' (pt_update k f T) =
  if list_eqb k' k then Some (f (match pt_lookup k T with Some r => r | None => rel0 end)) else pt_lookup k' T.
Proof.
  intros k f T k'. induction T as [|[k1 r1] rest IH]; simpl.
  - destruct (list_eqb k' k); reflexivity.
  - destruct (list_eqb k k1) eqn:E; simpl.
    + apply list_eqb_eq in E. subst k1. destruct (list_eqb k' k); reflexivity.
    + destruct (list_eqb k' k1) eqn:E1.
      * apply list_eqb_eq in E1. subst k1.
        replace (list_eqb k' k) with false; [reflexivity|]. symmetry. apply not_true_iff_false. intros H.
        apply list_eqb_eq in H. subst k'. rewrite list_eqb_refl in E. discriminate.
      * exact IH.
Qed.

(* ---- append_sentence --------------------------------------------------------------------------------------- *)
Lemma as_In_old : forall l s x, In x l -> In x (append_sentence l s).
Proof.
  intros l s x H. unfold append_sentence. destruct l as [|a l]; [destruct H|].
  destruct (last (a :: l) 0 =? s); [exact H|]. apply in_or_app. now left.
Qed.

Lemma as_In_new : forall l s, In s (append_sentence l s).
Proof.
  intros l s. unfold append_sentence. destruct l as [|a l]; [now left|].
  destruct (last (a :: l) 0 =? s) eqn:E.
  - apply Nat.eqb_eq in E. rewrite <- E. clear. generalize a. induction l as [|b l IH]; intros a0; [now left|]. right. apply IH.
  - apply in_or_app. right. now left.
Qed.

Lemma inc_snoc : forall l s, inc l -> (forall x, In x l -> x < s) -> inc (l ++ [s]).
Proof.
  induction l as [|a l IH]; intros s Hi Hl; simpl; [constructor; constructor|].
  inversion Hi; subst. constructor.
  - apply IH; [assumption|]. intros x Hx. apply Hl. now right.
  - apply Forall_app. split; [assumption|]. constructor; [apply Hl; now left|constructor].
Qed.

Lemma inc_last_max : forall l x, inc l -> In x l -> x <= last l 0.
Proof.
  induction l as [|a l IH]; intros x Hi Hx; [destruct Hx|]. destruct l as [|b l].
  - destruct Hx as [<-|[]]. simpl. lia.
  - change (last (a :: b :: l) 0) with (last (b :: l) 0). destruct Hx as [<-|Hx].
    + assert (In (last (b :: l) 0) (b :: l)).
      { clear. generalize b. induction l as [|c l IH]; intros b0; [now left|]. right. apply IH. }
      pose proof (inc_head_lt a (b :: l) _ Hi H). lia.
    + apply IH; [now apply inc_tail in Hi|exact Hx].
Qed.

Lemma as_good : forall l s, inc l -> (forall x, In x l -> x < S s) ->
  inc (append_sentence l s) /\ forall x, In x (append_sentence l s) -> x < S s.
Proof.
  intros l s Hi Hb. unfold append_sentence. destruct l as [|a l]; [split; [repeat constructor|intros x [<-|[]]; lia]|].
  destruct (last (a :: l) 0 =? s) eqn:E; [split; assumption|].
  apply Nat.eqb_neq in E. split.
  - apply inc_snoc; [exact Hi|]. intros x Hx. pose proof (inc_last_max _ x Hi Hx).
    assert (In (last (a :: l) 0) (a :: l)).
    { clear. generalize a. induction l as [|b l IH]; intros a0; [now left|]. right. apply IH. }
    specialize (Hb _ H0). lia.
  - intros x Hx. apply in_app_iff in Hx as [Hx|[<-|[]]]; [now apply Hb|lia].
Qed.

(* ---- the two record updates of AddPhrase --------------------------------------------------------------------- *)
Definition upd1 (sid : nat) (first : bool) (r : rel) : rel :=
  {| r_sub := append_sentence (r_sub r) sid;
     r_left := if first then append_sentence (r_left r) sid else r_left r;
     r_right := r_right r; r_phrase := r_phrase r |}.
Definition upd2 (sid : nat) (first : bool) (r : rel) : rel :=
  {| r_sub := r_sub r; r_left := r_left r;
     r_right := append_sentence (r_right r) sid;
     r_phrase := if first then append_sentence (r_phrase r) sid else r_phrase r |}.

Definition extensive (f : rel -> rel) : Prop := forall w r x, In x (sel w r) -> In x (sel w (f r)).

Lemma upd1_ext : forall sid first, extensive (upd1 sid first).
Proof. intros sid first [| | |] r x H; simpl in *; try exact H; [now apply as_In_old|destruct first; [now apply as_In_old|exact H]]. Qed.
Lemma upd2_ext : forall sid first, extensive (upd2 sid first).
Proof. intros sid first [| | |] r x H; simpl in *; try exact H; [now apply as_In_old|destruct first; [now apply as_In_old|exact H]]. Qed.

Lemma good_rel0 : forall b, good b rel0.
Proof. intros b [| | |]; simpl; (split; [constructor|intros x []]). Qed.

Lemma upd1_good : forall sid first r, good (S sid) r -> good (S sid) (upd1 sid first r).
Proof.
  intros sid first r H [| | |]; simpl; try apply (H Wright); try apply (H Wphrase).
  - destruct (H Wsub). now apply as_good.
  - destruct (H Wleft). destruct first; [now apply as_good|split; assumption].
Qed.
Lemma upd2_good : forall sid first r, good (S sid) r -> good (S sid) (upd2 sid first r).
Proof.
  intros sid first r H [| | |]; simpl; try apply (H Wsub); try apply (H Wleft).
  - destruct (H Wright). now apply as_good.
  - destruct (H Wphrase). destruct first; [now apply as_good|split; assumption].
Qed.

Lemma has_update_mono : forall f k w key t T, extensive f -> has w key t T -> has w key t (pt_update k f T).
Proof.
  intros f k w key t T Hf [r [Hl Hin]]. unfold has. rewrite pt_lookup_update.
  destruct (list_eqb key k) eqn:E; [|now exists r].
  apply list_eqb_eq in E. subst k. rewrite Hl. exists (f r). split; [reflexivity|now apply Hf].
Qed.

Lemma has_update_new : forall f k w t T, (forall r, In t (sel w (f r))) -> has w k t (pt_update k f T).
Proof. intros f k w t T H. unfold has. rewrite pt_lookup_update, list_eqb_refl. eexists. split; [reflexivity|apply H]. Qed.

Lemma tgood_update : forall b f k T, (forall r, good b r -> good b (f r)) -> tgood b T -> tgood b (pt_update k f T).
Proof.
  intros b f k T Hf HT key r Hl. rewrite pt_lookup_update in Hl. destruct (list_eqb key k) eqn:E; [|now apply (HT key)].
  inversion Hl; subst. apply Hf. destruct (pt_lookup k T) eqn:E2; [now apply (HT k)|apply good_rel0].
Qed.

(* ---- prefixes --------------------------------------------------------------------------------------------------- *)
Lemma prefixes_spec : forall l key, In key (prefixes l) <-> key <> [] /\ exists post, l = key ++ post.
Proof.
  induction l as [|x t IH]; intros key; simpl.
  - split; [intros []|]. intros [Hk [post H]]. destruct key; [congruence|discriminate].
  - split.
    + intros [<-|H]; [split; [discriminate|now exists t]|].
      apply in_map_iff in H as [k' [<- Hk']]. apply IH in Hk' as [_ [post ->]]. split; [discriminate|now exists post].
    + intros [Hk [post H]]. destruct key as [|y key]; [congruence|]. inversion H; subst.
      destruct key as [|z key]; [now left|]. right. apply in_map_iff. exists (z :: key). split; [reflexivity|].
      apply IH. split; [discriminate|now exists post].
Qed.

(* ---- AddPhrase ---------------------------------------------------------------------------------------------------- *)
Definition tstep (sid : nat) (T T' : ptable) : Prop :=
  (tgood (S sid) T -> tgood (S sid) T') /\ (forall w key t, has w key t T -> has w key t T').

Lemma tstep_refl : forall sid T, tstep sid T T.
Proof. intros. split; auto. Qed.
Lemma tstep_trans : forall sid T1 T2 T3, tstep sid T1 T2 -> tstep sid T2 T3 -> tstep sid T1 T3.
Proof. intros sid T1 T2 T3 [A1 A2] [B1 B2]. split; auto. Qed.

Lemma tstep_upd1 : forall sid first k T, tstep sid T (pt_update k (upd1 sid first) T).
Proof.
  intros. split; [apply tgood_update; intros; now apply upd1_good|]. intros. apply has_update_mono; [apply upd1_ext|assumption].
Qed.
Lemma tstep_upd2 : forall sid first k T, tstep sid T (pt_update k (upd2 sid first) T).
Proof.
  intros. split; [apply tgood_update; intros; now apply upd2_good|]. intros. apply has_update_mono; [apply upd2_ext|assumption].
Qed.

Lemma fold_upd1 : forall sid first keys T,
  let T' := fold_left (fun t k => pt_update k (upd1 sid first) t) keys T in
  tstep sid T T' /\ forall key, In key keys -> has Wsub key sid T' /\ (first = true -> has Wleft key sid T').
Proof.
  intros sid first keys. induction keys as [|k keys IH]; intros T; simpl.
  - split; [apply tstep_refl|intros key []].
  - destruct (IH (pt_update k (upd1 sid first) T)) as [Hs Hk]. split.
    + eapply tstep_trans; [apply tstep_upd1|exact Hs].
    + intros key [<-|Hin]; [|now apply Hk]. destruct Hs as [_ Hmono]. split.
      * apply Hmono. apply has_update_new. intros r. simpl. apply as_In_new.
      * intros ->. apply Hmono. apply has_update_new. intros r. simpl. apply as_In_new.
Qed.

Lemma add_from_spec : forall sid first suf T,
  let T' := add_from sid first suf T in
  tstep sid T T' /\
  (forall key, In key (prefixes suf) -> has Wsub key sid T' /\ (first = true -> has Wleft key sid T')) /\
  (suf <> [] -> has Wright suf sid T' /\ (first = true -> has Wphrase suf sid T')).
Proof.
  intros sid first suf T. unfold add_from.
  change (fun r : rel => {| r_sub := append_sentence (r_sub r) sid; r_left := if first then append_sentence (r_left r) sid else r_left r;
                            r_right := r_right r; r_phrase := r_phrase r |}) with (upd1 sid first).
  change (fun r : rel => {| r_sub := r_sub r; r_left := r_left r; r_right := append_sentence (r_right r) sid;
                            r_phrase := if first then append_sentence (r_phrase r) sid else r_phrase r |}) with (upd2 sid first).
  destruct (fold_upd1 sid first (prefixes suf) T) as [Hs Hk].
  set (T1 := fold_left (fun t k => pt_update k (upd1 sid first) t) (prefixes suf) T) in *.
  destruct suf as [|x suf].
  - split; [exact Hs|]. split; [intros key []|congruence].
  - pose proof (tstep_upd2 sid first (x :: suf) T1) as Hs2. split; [eapply tstep_trans; eauto|]. split.
    + intros key Hin. destruct (Hk key Hin) as [H1 H2]. destruct Hs2 as [_ Hm]. split; [now apply Hm|intros E; apply Hm; now apply H2].
    + intros _. split; [apply has_update_new; intros r; simpl; apply as_In_new|].
      intros ->. apply has_update_new. intros r. simpl. apply as_In_new.
Qed.

(* everything AddPhrase enters for the suffixes of suf *)
Lemma add_phrase_aux_spec : forall sid suf first T,
  let T' := add_phrase_aux sid first suf T in
  tstep sid T T' /\
  (forall pre s' key, suf = pre ++ s' -> In key (prefixes s') -> has Wsub key sid T') /\
  (forall pre s', suf = pre ++ s' -> s' <> [] -> has Wright s' sid T') /\
  (first = true -> (forall key, In key (prefixes suf) -> has Wleft key sid T') /\ (suf <> [] -> has Wphrase suf sid T')).
Proof.
  intros sid suf. induction suf as [|x suf IH]; intros first T; simpl.
  - split; [apply tstep_refl|]. split; [|split].
    + intros pre s' key H Hk. destruct pre; [|discriminate]. simpl in H. subst s'. destruct Hk.
    + intros pre s' H Hne. destruct pre; [|discriminate]. simpl in H. congruence.
    + intros _. split; [intros key []|congruence].
  - destruct (add_from_spec sid first (x :: suf) T) as [Hs1 [Hk1 Hr1]].
    set (T1 := add_from sid first (x :: suf) T) in *.
    destruct (IH false T1) as [Hs2 [Hsub2 [Hright2 _]]].
    pose proof (proj2 Hs2) as Hm2.
    split; [eapply tstep_trans; eauto|]. split; [|split].
    + intros pre s' key H Hk. destruct pre as [|y pre].
      * simpl in H. subst s'. apply Hm2. now apply Hk1.
      * inversion H; subst. now apply (Hsub2 pre s' key).
    + intros pre s' H Hne. destruct pre as [|y pre].
      * simpl in H. subst s'. apply Hm2. now apply Hr1.
      * inversion H; subst. now apply (Hright2 pre s').
    + intros ->. split.
      * intros key Hk. apply Hm2. now apply Hk1.
      * intros _. apply Hm2. apply Hr1; [discriminate|reflexivity].
Qed.

Definition phrase_facts (p : list word) (t : nat) (T : ptable) : Prop :=
  (forall key, key <> [] -> (exists pre post, p = pre ++ key ++ post) -> has Wsub key t T) /\
  (forall key, key <> [] -> (exists post, p = key ++ post) -> has Wleft key t T) /\
  (forall key, key <> [] -> (exists pre, p = pre ++ key) -> has Wright key t T) /\
  (p <> [] -> has Wphrase p t T).

Lemma add_phrase_spec : forall sid p T, tstep sid T (add_phrase sid p T) /\ phrase_facts p sid (add_phrase sid p T).
Proof.
  intros sid p T. unfold add_phrase. destruct (add_phrase_aux_spec sid p true T) as [Hs [Hsub [Hright Hfirst]]].
  destruct (Hfirst eq_refl) as [Hleft Hphrase]. split; [exact Hs|]. split; [|split; [|split]].
  - intros key Hk [pre [post H]]. apply (Hsub pre (key ++ post) key H). apply prefixes_spec. split; [exact Hk|now exists post].
  - intros key Hk Hp. apply Hleft. now apply prefixes_spec.
  - intros key Hk [pre H]. now apply (Hright pre key).
  - exact Hphrase.
Qed.

Lemma phrase_facts_mono : forall sid p t T T', tstep sid T T' -> phrase_facts p t T -> phrase_facts p t T'.
Proof.
  intros sid p t T T' [_ Hm] [H1 [H2 [H3 H4]]]. repeat split; intros; apply Hm; auto.
Qed.

Lemma add_sentence_phrases_spec : forall sid s T,
  let T' := fold_left (fun t p => add_phrase sid p t) s T in
  tstep sid T T' /\ forall p, In p s -> phrase_facts p sid T'.
Proof.
  intros sid s. induction s as [|p s IH]; intros T; simpl.
  - split; [apply tstep_refl|intros p []].
  - destruct (add_phrase_spec sid p T) as [Hs1 Hf1]. destruct (IH (add_phrase sid p T)) as [Hs2 Hf2].
    split; [eapply tstep_trans; eauto|]. intros q [<-|Hq]; [now apply (phrase_facts_mono sid p sid _ _ Hs2)|now apply Hf2].
Qed.

Lemma tgood_weaken : forall b T, tgood b T -> tgood (S b) T.
Proof. intros b T H key r Hl w. destruct (H key r Hl w) as [H1 H2]. split; [exact H1|]. intros x Hx. specialize (H2 x Hx). lia. Qed.

Lemma build_from_spec : forall sents sid T, tgood sid T ->
  let T' := build_ptable_from sents sid T in
  tgood (sid + length sents) T' /\
  (forall w key t, has w key t T -> has w key t T') /\
  (forall j p, j < length sents -> In p (nth j sents []) -> phrase_facts p (sid + j) T').
Proof.
  induction sents as [|s sents IH]; intros sid T Hg; simpl.
  - rewrite Nat.add_0_r. split; [exact Hg|]. split; [auto|]. intros j p Hj. lia.
  - destruct (add_sentence_phrases_spec sid s T) as [[Hg1 Hm1] Hf1].
    set (T1 := fold_left (fun t p => add_phrase sid p t) s T) in *.
    destruct (IH (S sid) T1 (Hg1 (tgood_weaken sid T Hg))) as [Hg2 [Hm2 Hf2]].
    split; [now rewrite <- Nat.add_succ_comm|]. split; [intros; apply Hm2; now apply Hm1|].
    intros j p Hj Hp. destruct j as [|j].
    + rewrite Nat.add_0_r. destruct (Hf1 p Hp) as [H1 [H2 [H3 H4]]]. repeat split; intros; apply Hm2; auto.
    + rewrite <- Nat.add_succ_comm. apply Hf2; [lia|exact Hp].
Qed.

Theorem build_ptable_spec : forall sents,
  tgood (length sents) (build_ptable sents) /\
  forall t p, t < length sents -> In p (nth t sents []) -> phrase_facts p t (build_ptable sents).
Proof.
  intros sents. destruct (build_from_spec sents 0 []) as [H1 [_ H3]].
  - intros key r H. discriminate.
  - split; [exact H1|]. intros t p Ht Hp. exact (H3 t p Ht Hp).
Qed.
