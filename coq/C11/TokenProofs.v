(* C11 -- line and n-gram tokenisation: for canonical n-grams (non-empty words without space or tab, joined by
   single spaces) the bytes the filter looks at are the words of the specification, with and without `context`. *)
From Coq Require Import List NArith Arith Bool Lia.
From Kenlm Require Import C11.FilterSpec C11.IntersectModel C11.FilterModel.
Import ListNotations.

Definition word_ok (w : word) : Prop := w <> [] /\ ~ In SP w /\ ~ In TAB w.
Definition words_ok (ws : list word) : Prop := Forall word_ok ws.

(* words joined by single spaces *)
Fixpoint join (ws : list word) : list byte :=
  match ws with
  | [] => []
  | w :: r => match r with [] => w | _ => w ++ SP :: join r end
  end.

Lemma join_cons2 : forall w r, r <> [] -> join (w :: r) = w ++ SP :: join r.
Proof. intros w [|x r] H; [congruence|reflexivity]. Qed.

(* ---- split_on ---------------------------------------------------------------------------------------- *)
Lemma split_on_nonempty : forall d s, split_on d s <> [].
Proof. intros d s. induction s as [|c t IH]; simpl; [discriminate|]. destruct (N.eqb c d); [discriminate|]. destruct (split_on d t); [congruence|discriminate]. Qed.

Lemma split_on_none : forall d w, ~ In d w -> split_on d w = [w].
Proof.
  intros d w. induction w as [|c t IH]; intros H; simpl; [reflexivity|].
  destruct (N.eqb c d) eqn:E; [apply N.eqb_eq in E; subst; exfalso; apply H; now left|].
  rewrite IH; [reflexivity|]. intros Hin. apply H. now right.
Qed.

Lemma split_on_app : forall d w rest, ~ In d w -> split_on d (w ++ d :: rest) = w :: split_on d rest.
Proof.
  intros d w rest. induction w as [|c t IH]; intros H; simpl.
  - now rewrite N.eqb_refl.
  - destruct (N.eqb c d) eqn:E; [apply N.eqb_eq in E; subst; exfalso; apply H; now left|].
    rewrite IH; [reflexivity|]. intros Hin. apply H. now right.
Qed.

Lemma split_join : forall ws, words_ok ws -> ws <> [] -> split_on SP (join ws) = ws.
Proof.
  induction ws as [|w r IH]; intros Hok Hne; [congruence|].
  inversion Hok as [|? ? [_ [Hsp _]] Hr]; subst. destruct r as [|w2 r].
  - simpl. now apply split_on_none.
  - rewrite join_cons2 by discriminate. rewrite split_on_app by exact Hsp. f_equal. apply IH; [exact Hr|discriminate].
Qed.

Lemma tokens_join : forall ws, words_ok ws -> tokens SP (join ws) = ws.
Proof.
  intros ws Hok. unfold tokens. destruct ws as [|w r]; [reflexivity|].
  rewrite split_join by (auto; discriminate).
  clear - Hok. induction Hok as [|x l [Hx _] Hl IH]; simpl; [reflexivity|].
  destruct x; [congruence|]. simpl. now rewrite IH.
Qed.

(* ---- ContextFilter ----------------------------------------------------------------------------------- *)
Lemma bls_app : forall l1 l2,
  before_last_space (l1 ++ l2) = match before_last_space l2 with
                                 | Some pre => Some (l1 ++ pre)
                                 | None => before_last_space l1
                                 end.
Proof.
  induction l1 as [|c t IH]; intros l2; simpl.
  - destruct (before_last_space l2); reflexivity.
  - rewrite IH. destruct (before_last_space l2); [reflexivity|]. reflexivity.
Qed.

Lemma bls_none : forall w, ~ In SP w -> before_last_space w = None.
Proof.
  induction w as [|c t IH]; intros H; simpl; [reflexivity|].
  rewrite IH by (intros Hin; apply H; now right).
  destruct (N.eqb c SP) eqn:E; [apply N.eqb_eq in E; subst; exfalso; apply H; now left|reflexivity].
Qed.

Lemma removelast_cons2 : forall {A} (a b : A) l, removelast (a :: b :: l) = a :: removelast (b :: l).
Proof. reflexivity. Qed.

Lemma bls_join : forall ws, words_ok ws ->
  before_last_space (join ws) = match ws with
                                | [] => None
                                | _ :: r => match r with [] => None | _ => Some (join (removelast ws)) end
                                end.
Proof.
  induction ws as [|w r IH]; intros Hok; [reflexivity|].
  inversion Hok as [|? ? [Hne [Hsp _]] Hr]; subst. destruct r as [|w2 r].
  - simpl. now apply bls_none.
  - rewrite join_cons2 by discriminate. rewrite bls_app.
    change (before_last_space (SP :: join (w2 :: r))) with
      (match before_last_space (join (w2 :: r)) with Some pre => Some (SP :: pre) | None => if N.eqb SP SP then Some [] else None end).
    rewrite (IH Hr). destruct r as [|w3 r].
    + simpl. now rewrite app_nil_r.
    + assert (E : removelast (w :: w2 :: w3 :: r) = w :: removelast (w2 :: w3 :: r)) by reflexivity.
      assert (N : removelast (w2 :: w3 :: r) <> []) by (rewrite removelast_cons2; discriminate).
      rewrite E, (join_cons2 w _ N). reflexivity.
Qed.

Lemma words_ok_removelast : forall ws, words_ok ws -> words_ok (removelast ws).
Proof.
  induction ws as [|w r IH]; intros H; [constructor|]. inversion H; subst.
  destruct r as [|w2 r]; [constructor|]. rewrite removelast_cons2. constructor; [assumption|now apply IH].
Qed.

Lemma strip_context_join : forall ws, words_ok ws -> strip_context (join ws) = join (removelast ws).
Proof.
  intros ws Hok. destruct ws as [|w r]; [reflexivity|].
  pose proof (bls_join (w :: r) Hok) as Hb.
  inversion Hok as [|? ? [Hne [Hsp _]] Hr]; subst.
  assert (Hj : exists c t, join (w :: r) = c :: t /\ c <> SP).
  { destruct w as [|c t]; [congruence|]. exists c. destruct r as [|w2 r].
    - exists t. split; [reflexivity|]. intros ->. apply Hsp. now left.
    - exists (t ++ SP :: join (w2 :: r)). split; [reflexivity|]. intros ->. apply Hsp. now left. }
  destruct Hj as [c [t [Hj Hc]]]. rewrite Hj in *. unfold strip_context.
  change (before_last_space (c :: t)) with
    (match before_last_space t with Some pre => Some (c :: pre) | None => if N.eqb c SP then Some [] else None end) in Hb.
  destruct (before_last_space t) as [pre|] eqn:Et.
  - destruct r as [|w2 r]; [discriminate|]. now inversion Hb.
  - replace (N.eqb c SP) with false in Hb by (symmetry; now apply N.eqb_neq).
    destruct r as [|w2 r]; [reflexivity|discriminate].
Qed.

Theorem filter_words_canonical : forall ctx ws, words_ok ws -> filter_words ctx (join ws) = ctx_words ctx ws.
Proof.
  intros ctx ws Hok. unfold filter_words, ctx_words. destruct ctx.
  - rewrite strip_context_join by exact Hok. apply tokens_join. now apply words_ok_removelast.
  - now apply tokens_join.
Qed.

(* ---- the n-gram field of a line ------------------------------------------------------------------------- *)
Lemma join_no_tab : forall ws, words_ok ws -> ~ In TAB (join ws).
Proof.
  induction ws as [|w r IH]; intros Hok; [intros []|]. inversion Hok as [|? ? [_ [_ Ht]] Hr]; subst.
  destruct r as [|w2 r]; [exact Ht|]. rewrite join_cons2 by discriminate. intros H.
  apply in_app_iff in H as [H|[H|H]]; [now apply Ht|discriminate|now apply (IH Hr)].
Qed.

(* ARPA line: probability TAB n-gram [TAB back-off] *)
Lemma arpa_ngram_line : forall p g tail, ~ In TAB p -> ~ In TAB g -> (tail = [] \/ exists b, tail = TAB :: b) ->
  arpa_ngram (p ++ TAB :: g ++ tail) = Some g.
Proof.
  intros p g tail Hp Hg Ht. unfold arpa_ngram. rewrite split_on_app by exact Hp.
  destruct Ht as [->|[b ->]].
  - rewrite app_nil_r. now rewrite split_on_none.
  - now rewrite split_on_app.
Qed.

(* raw line: n-gram [TAB anything] *)
Lemma raw_ngram_line : forall g tail, ~ In TAB g -> (tail = [] \/ exists b, tail = TAB :: b) -> raw_ngram (g ++ tail) = g.
Proof.
  intros g tail Hg Ht. unfold raw_ngram. destruct Ht as [->|[b ->]].
  - rewrite app_nil_r. now rewrite split_on_none.
  - now rewrite split_on_app.
Qed.
