(* C11 -- the specification a reader checks against the property text.

   "The filter writes a subset of the input n-gram lines, verbatim and in order, with a header that
    counts them: in vocabulary modes an n-gram is kept exactly when all of its words other than <tags>
    occur in the vocabulary (single), in the vocabulary of at least one sentence (union), or of that
    output's sentence (multiple); with the context option only the words before the last must pass; in
    phrase mode every n-gram that can be read off a concatenation of one sentence's phrases is kept.
    Consequently, for every sentence made of words that passed, the filtered model returns the same
    probabilities and matched lengths as the original model, and copy mode preserves every entry."

   Bytes are N (< 256), a word is a list of bytes, an n-gram is a list of words (oldest word first). *)
From Coq Require Import List NArith Bool Arith ZArith.
Import ListNotations.

Definition byte := N.
Definition word := list byte.

Fixpoint bytes_eqb (a b : list byte) : bool :=
  match a, b with
  | [], [] => true
  | x :: a', y :: b' => N.eqb x y && bytes_eqb a' b'
  | _, _ => false
  end.

Definition mem (w : word) (v : list word) : bool := existsb (bytes_eqb w) v.

(* lm/filter/vocab.hh IsTag: first byte '<' (60) and last byte '>' (62) *)
Definition is_tag (w : word) : bool :=
  match w with
  | [] => false
  | b :: _ => N.eqb b 60 && N.eqb (last w 0%N) 62
  end.

Definition nontag (ws : list word) : list word := filter (fun w => negb (is_tag w)) ws.
Definition all_in (v : list word) (ws : list word) : bool := forallb (fun w => mem w v) ws.

(* with the context option only the words before the last must pass *)
Definition ctx_words (ctx : bool) (ws : list word) : list word := if ctx then removelast ws else ws.

(* ---- vocabulary modes ------------------------------------------------------------------------ *)
(* single: the whole vocabulary input is one vocabulary *)
Definition keep_single (vocab : list word) (ctx : bool) (ws : list word) : bool :=
  all_in vocab (nontag (ctx_words ctx ws)).

(* union: some sentence's vocabulary holds every non-tag word (an n-gram of tags only always passes) *)
Definition keep_union (sents : list (list word)) (ctx : bool) (ws : list word) : bool :=
  match nontag (ctx_words ctx ws) with
  | [] => true
  | r => existsb (fun v => all_in v r) sents
  end.

(* multiple: output j <-> sentence j *)
Definition keep_multiple (sents : list (list word)) (j : nat) (ctx : bool) (ws : list word) : bool :=
  all_in (nth j sents []) (nontag (ctx_words ctx ws)).

(* ---- phrase mode ----------------------------------------------------------------------------- *)
(* An n-gram can be read off a concatenation of one sentence's phrases: it is an infix of
   concat ps for some list ps of phrases of that sentence (any order, repetition allowed). *)
Definition derivable (phrases : list (list word)) (ng : list word) : Prop :=
  exists ps pre post, Forall (fun p => In p phrases) ps /\ concat ps = pre ++ ng ++ post.

(* the words of the n-gram that the phrase filter looks at (lm/filter/phrase.hh MakeHashes):
   a leading tag is skipped, everything from "</s>" on is cut *)
Definition end_sentence : word := [60; 47; 115; 62]%N.   (* "</s>" *)
Fixpoint until_eos (ws : list word) : list word :=
  match ws with
  | [] => []
  | w :: t => if bytes_eqb w end_sentence then [] else w :: until_eos t
  end.
Definition phrase_words (ws : list word) : list word :=
  match ws with
  | [] => []
  | w :: t => if is_tag w then until_eos t else until_eos ws
  end.

(* ---- output ----------------------------------------------------------------------------------- *)
(* "a subset of the input lines, verbatim and in order" *)
Inductive sublist {A} : list A -> list A -> Prop :=
| sub_nil : forall l, sublist [] l
| sub_keep : forall x a b, sublist a b -> sublist (x :: a) (x :: b)
| sub_skip : forall x a b, sublist a b -> sublist a (x :: b).

(* ---- query equivalence: the ARPA back-off recursion (self-contained) ------------------------- *)
(* A model maps an n-gram (oldest word first) to (log-probability, back-off) in fixed-point units.
   score m c x = (log p(x | c), matched length) by the ARPA definition: the longest suffix of c·x
   that is listed, plus the back-offs of the contexts that were skipped; a word that is not listed as a
   unigram is scored as unk. *)
Section Backoff.
  Variable W : Type.
  Definition lm := list W -> option (Z * Z).
  Variable unk : W.

  Definition bo_of (m : lm) (c : list W) : Z :=
    match c with [] => 0%Z | _ => match m c with Some (_, b) => b | None => 0%Z end end.

  Fixpoint score (m : lm) (c : list W) (x : W) : Z * nat :=
    match m (c ++ [x]) with
    | Some (p, _) => (p, S (length c))
    | None =>
        match c with
        | [] => match m [unk] with Some (p, _) => (p, 0) | None => (0%Z, 0) end
        | _ :: c' => let '(p, n) := score m c' x in ((bo_of m c + p)%Z, n)
        end
    end.

  (* filtering a model with a keep predicate *)
  Definition restrict (kept : list W -> bool) (m : lm) : lm := fun g => if kept g then m g else None.
End Backoff.
