(* C11 -- query equivalence: a filter that keeps every n-gram made of passing words does not change the ARPA
   back-off score (probability and matched length) of any sentence over passing words. *)
From Coq Require Import List NArith ZArith Arith Bool Lia.
From Kenlm Require Import C11.FilterSpec C11.IntersectModel C11.FilterModel C11.VocabProofs.
Import ListNotations.

Section Query.
  Variable W : Type.
  Variable unk : W.
  Variable pass : W -> bool.
  Variable kept : list W -> bool.
  (* every n-gram over passing words is kept; the <unk> unigram is kept (it is a tag) *)
  Hypothesis kept_passing : forall g, g <> [] -> forallb pass g = true -> kept g = true.
  Hypothesis kept_unk : kept [unk] = true.

  Lemma score_cons : forall (m : lm W) a c x,
    score W unk m (a :: c) x =
    match m ((a :: c) ++ [x]) with
    | Some (p, _) => (p, S (length (a :: c)))
    | None => let '(p, n) := score W unk m c x in ((bo_of W m (a :: c) + p)%Z, n)
    end.
  Proof. reflexivity. Qed.

  Theorem query_equivalence : forall (m : lm W) c x, forallb pass (c ++ [x]) = true ->
    score W unk (restrict W kept m) c x = score W unk m c x.
  Proof.
    intros m c x. induction c as [|a c IH]; intros Hp.
    - simpl. unfold restrict at 1. rewrite (kept_passing [x]) by (auto; discriminate).
      destruct (m [x]) as [[p b]|]; [reflexivity|]. unfold restrict. now rewrite kept_unk.
    - rewrite !score_cons. unfold restrict at 1.
      rewrite (kept_passing ((a :: c) ++ [x])) by (auto; discriminate).
      destruct (m ((a :: c) ++ [x])) as [[p b]|]; [reflexivity|].
      simpl in Hp. apply andb_true_iff in Hp as [Ha Hc]. rewrite (IH Hc).
      assert (Hbo : bo_of W (restrict W kept m) (a :: c) = bo_of W m (a :: c)).
      { unfold bo_of, restrict. rewrite (kept_passing (a :: c)); [reflexivity|discriminate|].
        simpl. rewrite Ha. simpl. rewrite forallb_app in Hc. now apply andb_true_iff in Hc as [Hc _]. }
      now rewrite Hbo.
  Qed.
End Query.

(* the vocabulary filters are such filters (words = byte strings, <unk> is a tag) *)
Definition unk_word : word := [60; 117; 110; 107; 62]%N.     (* "<unk>" *)
Definition passes (vocab : list word) (w : word) : bool := is_tag w || mem w vocab.

Lemma all_in_nontag : forall vocab g, forallb (passes vocab) g = true -> all_in vocab (nontag g) = true.
Proof.
  intros vocab g. induction g as [|w g IH]; intros H; [reflexivity|].
  simpl in H. apply andb_true_iff in H as [Hw Hg]. unfold nontag in *. simpl.
  destruct (is_tag w) eqn:Et; simpl; [now apply IH|].
  unfold passes in Hw. rewrite Et in Hw. simpl in Hw. rewrite Hw. simpl. now apply IH.
Qed.

Lemma forallb_removelast : forall {A} (f : A -> bool) l, forallb f l = true -> forallb f (removelast l) = true.
Proof.
  induction l as [|a l IH]; intros H; [reflexivity|]. simpl in H. apply andb_true_iff in H as [Ha Hl].
  destruct l as [|b l]; [reflexivity|]. change (removelast (a :: b :: l)) with (a :: removelast (b :: l)).
  simpl forallb. rewrite Ha. now apply IH.
Qed.

Lemma forallb_ctx : forall vocab ctx g, forallb (passes vocab) g = true -> forallb (passes vocab) (ctx_words ctx g) = true.
Proof. intros vocab [|] g H; [now apply forallb_removelast|exact H]. Qed.

Lemma keep_single_passing : forall vocab ctx g, forallb (passes vocab) g = true -> keep_single vocab ctx g = true.
Proof. intros. unfold keep_single. apply all_in_nontag. now apply forallb_ctx. Qed.

Lemma keep_union_passing : forall sents v ctx g, In v sents -> forallb (passes v) g = true -> keep_union sents ctx g = true.
Proof.
  intros sents v ctx g Hv H. unfold keep_union. destruct (nontag (ctx_words ctx g)) as [|w r] eqn:E; [reflexivity|].
  rewrite <- E. apply existsb_exists. exists v. split; [exact Hv|]. apply all_in_nontag. now apply forallb_ctx.
Qed.

Lemma keep_multiple_passing : forall sents j ctx g, forallb (passes (nth j sents [])) g = true -> keep_multiple sents j ctx g = true.
Proof. intros. unfold keep_multiple. apply all_in_nontag. now apply forallb_ctx. Qed.

Lemma unk_is_tag : is_tag unk_word = true.
Proof. reflexivity. Qed.

Lemma keep_unk_single : forall vocab ctx, keep_single vocab ctx [unk_word] = true.
Proof. intros vocab [|]; reflexivity. Qed.
Lemma keep_unk_union : forall sents ctx, keep_union sents ctx [unk_word] = true.
Proof. intros sents [|]; reflexivity. Qed.
Lemma keep_unk_multiple : forall sents j ctx, keep_multiple sents j ctx [unk_word] = true.
Proof. intros sents j [|]; reflexivity. Qed.

(* single / union / multiple (with or without `context`): same probabilities and matched lengths *)
Theorem query_equivalence_single : forall vocab ctx (m : lm word) c x,
  forallb (passes vocab) (c ++ [x]) = true ->
  score word unk_word (restrict word (keep_single vocab ctx) m) c x = score word unk_word m c x.
Proof.
  intros vocab ctx m c x H. apply (query_equivalence word unk_word (passes vocab)); [|apply keep_unk_single|exact H].
  intros g _ Hg. now apply keep_single_passing.
Qed.

Theorem query_equivalence_union : forall sents v ctx (m : lm word) c x, In v sents ->
  forallb (passes v) (c ++ [x]) = true ->
  score word unk_word (restrict word (keep_union sents ctx) m) c x = score word unk_word m c x.
Proof.
  intros sents v ctx m c x Hv H. apply (query_equivalence word unk_word (passes v)); [|apply keep_unk_union|exact H].
  intros g _ Hg. now apply (keep_union_passing sents v).
Qed.

Theorem query_equivalence_multiple : forall sents j ctx (m : lm word) c x,
  forallb (passes (nth j sents [])) (c ++ [x]) = true ->
  score word unk_word (restrict word (keep_multiple sents j ctx) m) c x = score word unk_word m c x.
Proof.
  intros sents j ctx m c x H. apply (query_equivalence word unk_word (passes (nth j sents []))); [|apply keep_unk_multiple|exact H].
  intros g _ Hg. now apply keep_multiple_passing.
Qed.

(* not vacuous: a model, a vocabulary, a sentence over it *)
Example query_equivalence_example :
  let a := [97%N] in let b := [98%N] in
  let m : lm word := fun g => if list_eqb g [a] then Some (-10, -3)%Z else if list_eqb g [a; a] then Some (-5, 0)%Z
                              else if list_eqb g [b] then Some (-20, 0)%Z else if list_eqb g [unk_word] then Some (-99, 0)%Z else None in
  forallb (passes [a]) ([a] ++ [a]) = true /\
  score word unk_word (restrict word (keep_single [a] false) m) [a] a = ((-5)%Z, 2) /\
  score word unk_word (restrict word (keep_single [a] false) m) [a] b = ((-102)%Z, 0) /\
  score word unk_word m [a] b = ((-23)%Z, 1).
Proof. repeat split; vm_compute; reflexivity. Qed.
