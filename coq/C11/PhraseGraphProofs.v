(* C11 -- BuildGraph over the Substrings tables admits, at the last vertex, every sentence from whose phrases the
   n-gram can be derived; together with PhraseSearchProofs.v: the structure-faithful model of the phrase filter
   keeps every derivable n-gram (C11_phrase_complete for the model), and never runs out of fuel. *)
From Coq Require Import List NArith Arith Bool Lia Sorted.
From Kenlm Require Import C11.FilterSpec C11.IntersectModel C11.FilterModel C11.IntersectProofs C11.VocabProofs
  C11.PhraseProofs C11.PhraseGraphModel C11.PhraseTableProofs C11.PhraseSearchProofs.
Import ListNotations.

(* ---- prefixes by position ------------------------------------------------------------------------------------ *)
Lemma prefixes_length : forall l, length (prefixes l) = length l.
Proof. induction l as [|x t IH]; simpl; [reflexivity|]. now rewrite map_length, IH. Qed.

Lemma nth_error_prefixes : forall l j, j < length l -> nth_error (prefixes l) j = Some (firstn (S j) l).
Proof.
  induction l as [|x t IH]; intros j Hj; simpl in Hj; [lia|].
  destruct j as [|j]; [reflexivity|]. simpl prefixes. simpl nth_error.
  rewrite nth_error_map, (IH j) by lia. reflexivity.
Qed.

Lemma skipn_skipn' : forall {A} (l : list A) a b, skipn a (skipn b l) = skipn (b + a) l.
Proof.
  intros A l a b. revert l. induction b as [|b IH]; intros l; [reflexivity|].
  destruct l as [|x l]; [now rewrite !skipn_nil|]. simpl. apply IH.
Qed.

Lemma derivable_b_unfold : forall phrases g, g <> [] ->
  derivable_b phrases g =
  (existsb (fun p => is_infix g p) phrases ||
   existsb (fun '(h, r) => existsb (fun p => nonempty h && is_suffix h p) phrases && cover phrases (length r) r) (splits g)).
Proof. intros phrases [|x g] H; [congruence|reflexivity]. Qed.

Section Graph.
  Variable T : ptable.
  Variable n : nat.

  Definition right_arc (k : nat) (r : rel) : arc :=
    {| a_from := None; a_to := k; a_list := if S k =? n then r_sub r else r_right r |}.
  Definition phrase_arc (from to : nat) (r : rel) : arc :=
    {| a_from := Some (from - 1); a_to := to; a_list := if S to =? n then r_left r else r_phrase r |}.

  Lemma right_arcs_In : forall pres k j key r, nth_error pres j = Some key -> pt_lookup key T = Some r ->
    (forall i key_i, i < j -> nth_error pres i = Some key_i -> pt_lookup key_i T <> None /\ S (k + i) <> n) ->
    In (right_arc (k + j) r) (right_arcs T n k pres).
  Proof.
    induction pres as [|key0 rest IH]; intros k j key r Hn Hl Hprev; [destruct j; discriminate|].
    destruct j as [|j]; simpl in Hn.
    - inversion Hn; subst key0. cbn [right_arcs]. rewrite Hl. rewrite Nat.add_0_r. unfold right_arc.
      destruct (S k =? n); now left.
    - destruct (Hprev 0 key0 ltac:(lia) eq_refl) as [Hl0 Hne]. rewrite Nat.add_0_r in Hne.
      cbn [right_arcs]. destruct (pt_lookup key0 T) as [r0|]; [|congruence].
      replace (S k =? n) with false by (symmetry; now apply Nat.eqb_neq). right.
      replace (k + S j) with (S k + j) by lia. apply (IH (S k) j key r Hn Hl).
      intros i key_i Hi Hni. destruct (Hprev (S i) key_i ltac:(lia) Hni) as [H1 H2]. split; [exact H1|].
      replace (S k + i) with (k + S i) by lia. exact H2.
  Qed.

  Lemma phrase_arcs_In : forall pres from to j key r, nth_error pres j = Some key -> pt_lookup key T = Some r ->
    (forall i key_i, i < j -> nth_error pres i = Some key_i -> pt_lookup key_i T <> None /\ S (to + i) <> n) ->
    In (phrase_arc from (to + j) r) (phrase_arcs T n from to pres).
  Proof.
    induction pres as [|key0 rest IH]; intros from to j key r Hn Hl Hprev; [destruct j; discriminate|].
    destruct j as [|j]; simpl in Hn.
    - inversion Hn; subst key0. cbn [phrase_arcs]. rewrite Hl. rewrite Nat.add_0_r. unfold phrase_arc.
      destruct (S to =? n); now left.
    - destruct (Hprev 0 key0 ltac:(lia) eq_refl) as [Hl0 Hne]. rewrite Nat.add_0_r in Hne.
      cbn [phrase_arcs]. destruct (pt_lookup key0 T) as [r0|]; [|congruence].
      replace (S to =? n) with false by (symmetry; now apply Nat.eqb_neq). right.
      replace (to + S j) with (S to + j) by lia. apply (IH from (S to) j key r Hn Hl).
      intros i key_i Hi Hni. destruct (Hprev (S i) key_i ltac:(lia) Hni) as [H1 H2]. split; [exact H1|].
      replace (S to + i) with (to + S i) by lia. exact H2.
  Qed.

  Lemma all_phrase_arcs_incl : forall suf from d a, d < length suf ->
    In a (phrase_arcs T n (from + d) (from + d) (prefixes (skipn d suf))) -> In a (all_phrase_arcs T n from suf).
  Proof.
    induction suf as [|x rest IH]; intros from d a Hd Hin; simpl in Hd; [lia|].
    destruct d as [|d].
    - rewrite Nat.add_0_r in Hin. simpl skipn in Hin. cbn [all_phrase_arcs]. apply in_or_app. now left.
    - cbn [all_phrase_arcs]. apply in_or_app. right. apply (IH (S from) d a); [lia|].
      replace (S from + d) with (from + S d) by lia. exact Hin.
  Qed.

  (* shape of the arcs (for well-formedness) *)
  Lemma right_arcs_shape : forall pres k a, In a (right_arcs T n k pres) ->
    a_from a = None /\ k <= a_to a < k + length pres /\
    exists key r, pt_lookup key T = Some r /\ (a_list a = r_sub r \/ a_list a = r_right r).
  Proof.
    induction pres as [|key0 rest IH]; intros k a H; [destruct H|]. cbn [right_arcs] in H.
    destruct (pt_lookup key0 T) as [r|] eqn:E; [|destruct H].
    destruct (S k =? n).
    - destruct H as [<-|[]]. simpl. split; [reflexivity|]. split; [lia|]. exists key0, r. auto.
    - destruct H as [<-|H].
      + simpl. split; [reflexivity|]. split; [lia|]. exists key0, r. auto.
      + destruct (IH (S k) a H) as [H1 [H2 H3]]. split; [exact H1|]. split; [simpl; lia|exact H3].
  Qed.

  Lemma phrase_arcs_shape : forall pres from to a, In a (phrase_arcs T n from to pres) ->
    a_from a = Some (from - 1) /\ to <= a_to a < to + length pres /\
    exists key r, pt_lookup key T = Some r /\ (a_list a = r_left r \/ a_list a = r_phrase r).
  Proof.
    induction pres as [|key0 rest IH]; intros from to a H; [destruct H|]. cbn [phrase_arcs] in H.
    destruct (pt_lookup key0 T) as [r|] eqn:E; [|destruct H].
    destruct (S to =? n).
    - destruct H as [<-|[]]. simpl. split; [reflexivity|]. split; [lia|]. exists key0, r. auto.
    - destruct H as [<-|H].
      + simpl. split; [reflexivity|]. split; [lia|]. exists key0, r. auto.
      + destruct (IH from (S to) a H) as [H1 [H2 H3]]. split; [exact H1|]. split; [simpl; lia|exact H3].
  Qed.

  Lemma all_phrase_arcs_shape : forall suf from a, In a (all_phrase_arcs T n from suf) ->
    exists f, a_from a = Some (f - 1) /\ from <= f /\ f <= a_to a < from + length suf /\
    exists key r, pt_lookup key T = Some r /\ (a_list a = r_left r \/ a_list a = r_phrase r).
  Proof.
    induction suf as [|x rest IH]; intros from a H; [destruct H|]. cbn [all_phrase_arcs] in H. apply in_app_iff in H as [H|H].
    - destruct (phrase_arcs_shape _ _ _ _ H) as [H1 [H2 H3]]. exists from. split; [exact H1|]. split; [lia|].
      rewrite prefixes_length in H2. split; [lia|exact H3].
    - destruct (IH (S from) a H) as [f [H1 [H2 [H3 H4]]]]. exists f. split; [exact H1|]. split; [lia|]. split; [simpl; lia|exact H4].
  Qed.
End Graph.

(* ---- the graph of an n-gram against the tables of a vocabulary ------------------------------------------------- *)
Section Complete.
  Variable sents : list (list (list word)).
  Variable g : list word.
  Hypothesis g_ne : g <> [].
  Let T := build_ptable sents.
  Let n := length g.
  Let G := build_graph T g.

  Lemma n_pos : 1 <= n.
  Proof. unfold n. destruct g; [congruence|simpl; lia]. Qed.

  Lemma G_wf : forall a0, In a0 G ->
    (a_to a0 < n /\ inc (a_list a0) /\ forall f, a_from a0 = Some f -> f < a_to a0) /\
    forall t, In t (a_list a0) -> t < length sents.
  Proof.
    intros a0 Hin. unfold G, build_graph in Hin. fold n in Hin. fold T in Hin.
    destruct (build_ptable_spec sents) as [Hgood _]. fold T in Hgood.
    assert (Hlists : forall key r, pt_lookup key T = Some r ->
              forall l, (l = r_sub r \/ l = r_right r \/ l = r_left r \/ l = r_phrase r) -> inc l /\ forall t, In t l -> t < length sents).
    { intros key r Hl l [ -> | [ -> | [ -> | -> ] ] ]; [apply (Hgood key r Hl Wsub)|apply (Hgood key r Hl Wright)|apply (Hgood key r Hl Wleft)|apply (Hgood key r Hl Wphrase)]. }
    apply in_app_iff in Hin as [Hin|Hin].
    - destruct (right_arcs_shape T n _ _ _ Hin) as [H1 [H2 [key [r [Hl Hlist]]]]]. rewrite prefixes_length in H2. fold n in H2.
      destruct (Hlists key r Hl (a_list a0)) as [Hi Hb]; [destruct Hlist; auto|].
      split; [split; [lia|split; [exact Hi|intros f Hf; congruence]]|exact Hb].
    - destruct (all_phrase_arcs_shape T n _ _ _ Hin) as [f [H1 [H2 [H3 [key [r [Hl Hlist]]]]]]].
      assert (Hlen : 1 + length (tl g) = n) by (unfold n; destruct g; [congruence|simpl; lia]).
      destruct (Hlists key r Hl (a_list a0)) as [Hi Hb]; [destruct Hlist; auto|].
      split; [split; [lia|split; [exact Hi|intros f' Hf'; rewrite H1 in Hf'; inversion Hf'; lia]]|exact Hb].
  Qed.

  Variable t : nat.
  Hypothesis t_lt : t < length sents.
  Let phrases := nth t sents [].

  Lemma infix_lookup : forall key p, In p phrases -> key <> [] -> (exists pre post, p = pre ++ key ++ post) ->
    exists r, pt_lookup key T = Some r /\ In t (r_sub r).
  Proof.
    intros key p Hp Hk Hi. destruct (build_ptable_spec sents) as [_ Hf].
    destruct (Hf t p t_lt Hp) as [H1 _]. exact (H1 key Hk Hi).
  Qed.

  Lemma firstn_prefix_infix : forall (l : list word) j i p pre post, j <= i -> p = pre ++ firstn i l ++ post ->
    exists pre' post', p = pre' ++ firstn j l ++ post'.
  Proof.
    intros l j i p pre post Hji Hp. exists pre, (skipn j (firstn i l) ++ post).
    rewrite Hp. f_equal. rewrite app_assoc. f_equal.
    rewrite <- (firstn_skipn j (firstn i l)) at 1. f_equal. rewrite firstn_firstn. f_equal. lia.
  Qed.

  Lemma firstn_nonempty : forall (l : list word) j, 1 <= j -> l <> [] -> firstn j l <> [].
  Proof. intros [|x l] [|j] Hj Hl; try congruence; try lia. discriminate. Qed.

  (* an arc from before the n-gram to vertex i-1 *)
  Lemma right_arc_inS : forall i p, 1 <= i <= n -> In p phrases ->
    (exists pre post, p = pre ++ firstn i g ++ post) ->
    (i < n -> exists pre, p = pre ++ firstn i g) ->
    inS G (i - 1) t.
  Proof.
    intros i p Hi Hp Hinfix Hsuf.
    assert (Hkey : firstn i g <> []) by (apply firstn_nonempty; [lia|exact g_ne]).
    destruct Hinfix as [pre [post Hinf]].
    destruct (infix_lookup (firstn i g) p Hp Hkey (ex_intro _ pre (ex_intro _ post Hinf))) as [r [Hl Hsub]].
    assert (Hin : In (right_arc n (0 + (i - 1)) r) (right_arcs T n 0 (prefixes g))).
    { apply (right_arcs_In T n (prefixes g) 0 (i - 1) (firstn i g) r).
      - rewrite nth_error_prefixes by (fold n; lia). f_equal. f_equal. lia.
      - exact Hl.
      - intros j key_j Hj Hnj. rewrite nth_error_prefixes in Hnj by (fold n; lia). inversion Hnj; subst key_j. split; [|lia].
        destruct (firstn_prefix_infix g (S j) i p pre post ltac:(lia) Hinf) as [pre' [post' Hp']].
        destruct (infix_lookup (firstn (S j) g) p Hp) as [r' [Hl' _]]; [apply firstn_nonempty; [lia|exact g_ne]|eauto|congruence]. }
    simpl plus in Hin.
    assert (HinG : In (right_arc n (i - 1) r) G) by (unfold G, build_graph; fold n; fold T; apply in_or_app; now left).
    change (i - 1) with (a_to (right_arc n (i - 1) r)). apply inS_right; [exact HinG|reflexivity|].
    unfold right_arc. cbn [a_list]. destruct (S (i - 1) =? n) eqn:E; [exact Hsub|].
    apply Nat.eqb_neq in E. destruct (Hsuf ltac:(lia)) as [pre2 Hsuf2].
    destruct (build_ptable_spec sents) as [_ Hf]. destruct (Hf t p t_lt Hp) as [_ [_ [H3 _]]].
    destruct (H3 (firstn i g) Hkey (ex_intro _ pre2 Hsuf2)) as [r2 [Hl2 Hr2]]. fold T in Hl2. rewrite Hl in Hl2. inversion Hl2; subst. exact Hr2.
  Qed.

  Lemma skipn_tl : forall {A} (l : list A) d, skipn d (tl l) = skipn (S d) l.
  Proof. intros A [|x l] d; [destruct d; reflexivity|reflexivity]. Qed.

  (* an arc from vertex i-1 over the piece g[i, i+m) *)
  Lemma phrase_arc_inS : forall i m p, 1 <= i -> 1 <= m -> i + m <= n -> In p phrases ->
    (exists post, p = firstn m (skipn i g) ++ post) ->
    (i + m < n -> p = firstn m (skipn i g)) ->
    inS G (i - 1) t -> inS G (i + m - 1) t.
  Proof.
    intros i m p Hi Hm Him Hp Hpre Hwhole Hfrom.
    assert (Hlen : length (skipn i g) = n - i) by (rewrite skipn_length; reflexivity).
    assert (Hkey : firstn m (skipn i g) <> []).
    { apply firstn_nonempty; [lia|]. intros E. rewrite E in Hlen. simpl in Hlen. lia. }
    destruct Hpre as [post Hpost].
    destruct (build_ptable_spec sents) as [_ Hf]. destruct (Hf t p t_lt Hp) as [Hsubf [Hleftf [_ Hphrasef]]].
    destruct (Hleftf (firstn m (skipn i g)) Hkey (ex_intro _ post Hpost)) as [r [Hl Hleft]]. fold T in Hl.
    assert (Hin : In (phrase_arc n i (i + (m - 1)) r) (phrase_arcs T n i i (prefixes (skipn i g)))).
    { apply (phrase_arcs_In T n (prefixes (skipn i g)) i i (m - 1) (firstn m (skipn i g)) r).
      - rewrite nth_error_prefixes by lia. f_equal. f_equal. lia.
      - exact Hl.
      - intros j key_j Hj Hnj. rewrite nth_error_prefixes in Hnj by lia. inversion Hnj; subst key_j. split; [|lia].
        destruct (firstn_prefix_infix (skipn i g) (S j) m p [] post ltac:(lia) Hpost) as [pre' [post' Hp']].
        destruct (Hsubf (firstn (S j) (skipn i g))) as [r' [Hl' _]]; [apply firstn_nonempty; [lia|intros E; rewrite E in Hlen; simpl in Hlen; lia]|eauto|].
        fold T in Hl'. congruence. }
    assert (HinG : In (phrase_arc n i (i + (m - 1)) r) G).
    { unfold G, build_graph. fold n. fold T. apply in_or_app. right.
      apply (all_phrase_arcs_incl T n (tl g) 1 (i - 1)).
      - assert (length (tl g) = n - 1) by (unfold n; destruct g; [congruence|simpl; lia]). lia.
      - rewrite skipn_tl. replace (1 + (i - 1)) with i by lia. replace (S (i - 1)) with i by lia. exact Hin. }
    replace (i + m - 1) with (a_to (phrase_arc n i (i + (m - 1)) r)) by (simpl; lia).
    apply inS_phrase with (f := i - 1); [exact HinG|reflexivity| |exact Hfrom].
    unfold phrase_arc. cbn [a_list]. destruct (S (i + (m - 1)) =? n) eqn:E; [exact Hleft|].
    apply Nat.eqb_neq in E. rewrite <- (Hwhole ltac:(lia)) in *.
    destruct (Hphrasef ltac:(intros E2; rewrite E2 in Hkey; congruence)) as [r2 [Hl2 Hr2]]. fold T in Hl2.
    rewrite Hl in Hl2. inversion Hl2; subst. exact Hr2.
  Qed.

  Lemma cover_to_inS : forall fuel i, 1 <= i < n -> inS G (i - 1) t -> cover phrases fuel (skipn i g) = true -> inS G (n - 1) t.
  Proof.
    induction fuel as [|f IH]; intros i Hi Hfrom Hc.
    - assert (Hlen : length (skipn i g) = n - i) by (rewrite skipn_length; reflexivity).
      destruct (skipn i g) as [|x r] eqn:E; [simpl in Hlen; lia|]. rewrite cover_cons, orb_false_r in Hc.
      apply existsb_exists in Hc as [p [Hp Hpre]]. apply is_prefix_spec in Hpre as [post Hpost].
      replace (n - 1) with (i + (n - i) - 1) by lia.
      apply (phrase_arc_inS i (n - i) p); try lia; try exact Hp; try exact Hfrom.
      exists post. rewrite E. rewrite <- Hlen. now rewrite firstn_all.
    - assert (Hlen : length (skipn i g) = n - i) by (rewrite skipn_length; reflexivity).
      destruct (skipn i g) as [|x r] eqn:E; [simpl in Hlen; lia|]. rewrite cover_cons in Hc.
      apply orb_true_iff in Hc as [Hc|Hc].
      + apply existsb_exists in Hc as [p [Hp Hpre]]. apply is_prefix_spec in Hpre as [post Hpost].
        replace (n - 1) with (i + (n - i) - 1) by lia.
        apply (phrase_arc_inS i (n - i) p); try lia; try exact Hp; try exact Hfrom.
        exists post. rewrite E. rewrite <- Hlen. now rewrite firstn_all.
      + apply existsb_exists in Hc as [p [Hp Hc]]. apply andb_true_iff in Hc as [Hc1 Hc2]. apply andb_true_iff in Hc1 as [Hne Hpre].
        apply is_prefix_spec in Hpre as [rest Hrest].
        assert (Hm : 1 <= length p) by (destruct p; [discriminate|simpl; lia]).
        assert (Hle : i + length p <= n).
        { assert (length (x :: r) = length (p ++ rest)) by now rewrite Hrest. rewrite app_length in H. lia. }
        assert (Hfp : firstn (length p) (skipn i g) = p).
        { rewrite E, Hrest. rewrite firstn_app, firstn_all, Nat.sub_diag. simpl. now rewrite app_nil_r. }
        assert (Hstep : inS G (i + length p - 1) t).
        { apply (phrase_arc_inS i (length p) p); try lia; try exact Hp; try exact Hfrom; rewrite Hfp; [now exists []; rewrite app_nil_r|reflexivity]. }
        destruct (Nat.eq_dec (i + length p) n) as [Heq|Hneq]; [now rewrite Heq in Hstep|].
        apply (IH (i + length p)); [lia|exact Hstep|].
        rewrite <- E in Hc2. rewrite skipn_skipn' in Hc2. exact Hc2.
  Qed.

  Theorem derivable_inS : derivable phrases g -> inS G (n - 1) t.
  Proof.
    intros Hd. pose proof (derivable_b_complete phrases g g_ne Hd) as Hb.
    rewrite (derivable_b_unfold phrases g g_ne) in Hb.
    apply orb_true_iff in Hb as [Hb|Hb].
    - apply existsb_exists in Hb as [p [Hp Hi]]. apply is_infix_spec in Hi as [pre [post Hinf]].
      apply (right_arc_inS n p); [pose proof n_pos; lia|exact Hp| |intros; lia].
      exists pre, post. unfold n. now rewrite firstn_all.
    - apply existsb_exists in Hb as [[h r] [Hsp Hb]]. apply splits_spec in Hsp as [Hh Hg].
      apply andb_true_iff in Hb as [Hs Hc]. apply existsb_exists in Hs as [p0 [Hp0 Hs]].
      apply andb_true_iff in Hs as [_ Hs]. apply is_suffix_spec in Hs as [pre0 Hsuf].
      assert (Hhl : 1 <= length h) by (destruct h; [congruence|simpl; lia]).
      assert (Hn : n = length h + length r) by (unfold n; rewrite Hg, app_length; reflexivity).
      assert (Hfh : firstn (length h) g = h) by (rewrite Hg, firstn_app, firstn_all, Nat.sub_diag; simpl; now rewrite app_nil_r).
      destruct r as [|y r'] eqn:Er.
      + (* the n-gram is a suffix of a phrase *)
        simpl in Hn. rewrite Nat.add_0_r in Hn. apply (right_arc_inS n p0); [lia|exact Hp0| |intros; lia].
        exists pre0, []. rewrite Hn, Hfh, app_nil_r. exact Hsuf.
      + assert (Hbase : inS G (length h - 1) t).
        { apply (right_arc_inS (length h) p0); [simpl in Hn; lia|exact Hp0| |].
          - exists pre0, []. now rewrite Hfh, app_nil_r.
          - intros _. exists pre0. now rewrite Hfh. }
        apply (cover_to_inS (length (y :: r')) (length h)); [simpl in Hn; lia|exact Hbase|].
        replace (skipn (length h) g) with (y :: r'); [exact Hc|].
        rewrite Hg, skipn_app, skipn_all, Nat.sub_diag. reflexivity.
  Qed.
End Complete.

(* ---- C11_phrase_complete for the structure-faithful model ------------------------------------------------------- *)
Lemma init_sinv : forall G n, (forall a0, In a0 G -> inc (a_list a0)) -> sinv G n 0 (init_state G n).
Proof.
  intros G n Hinc. split; [|simpl; apply repeat_length]. simpl.
  assert (H : forall l, (forall a0, In a0 l -> inc (a_list a0)) -> Forall2 (arc_rel G 0) l l).
  { induction l as [|a l IH]; intros Hl; constructor.
    - split; [reflexivity|]. split; [reflexivity|]. split; [apply Hl; now left|]. split; [auto|]. intros t [Ht _] _. exact Ht.
    - apply IH. intros a0 H0. apply Hl. now right. }
  (* live is stated against G itself; the relation above is instantiated at l = G *)
  apply H. exact Hinc.
Qed.

Lemma graph_fuel_enough : forall arcs n, msize arcs + 2 * (n - 1) + 1 <= graph_fuel arcs n.
Proof. intros arcs n. unfold graph_fuel. fold (msize arcs). nia. Qed.

Theorem graph_union_complete : forall sents ws,
  exists r, graph_union_pass sents ws = Ok r /\
    ((exists t, t < length sents /\ derivable (nth t sents []) (phrase_words ws)) -> r = true).
Proof.
  intros sents ws. unfold graph_union_pass. destruct (phrase_words ws) as [|x g'] eqn:Eg.
  - exists true. split; reflexivity.
  - set (g := x :: g') in *. set (G := build_graph (build_ptable sents) g). set (n := length g).
    assert (Hne : g <> []) by discriminate.
    assert (Hwf : forall a0, In a0 G -> a_to a0 < n /\ inc (a_list a0) /\ forall f, a_from a0 = Some f -> f < a_to a0)
      by (intros a0 H; exact (proj1 (G_wf sents g Hne a0 H))).
    assert (Hbd : forall a0 t, In a0 G -> In t (a_list a0) -> t < length sents)
      by (intros a0 t H; exact (proj2 (G_wf sents g Hne a0 H) t)).
    destruct (union_eval_complete G n Hwf (length sents) Hbd (n - 1) ltac:(unfold n; simpl; lia)
                (S (S (length sents))) (graph_fuel G n) 0 (init_state G n)) as [r [Hr Hc]].
    + apply init_sinv. intros a0 H. now apply Hwf.
    + simpl g_arcs. apply graph_fuel_enough.
    + lia.
    + lia.
    + exists r. split; [exact Hr|]. intros [t [Ht Hd]]. apply Hc. exists t. split; [|lia].
      exact (derivable_inS sents g Hne t Ht Hd).
Qed.

Theorem graph_multiple_complete : forall sents ws,
  exists l, graph_multiple_targets sents ws = Ok l /\
    forall t, t < length sents -> (phrase_words ws = [] \/ derivable (nth t sents []) (phrase_words ws)) -> In t l.
Proof.
  intros sents ws. unfold graph_multiple_targets. destruct (phrase_words ws) as [|x g'] eqn:Eg.
  - exists (seq 0 (length sents)). split; [reflexivity|]. intros t Ht _. apply in_seq. lia.
  - set (g := x :: g') in *. set (G := build_graph (build_ptable sents) g). set (n := length g).
    assert (Hne : g <> []) by discriminate.
    assert (Hwf : forall a0, In a0 G -> a_to a0 < n /\ inc (a_list a0) /\ forall f, a_from a0 = Some f -> f < a_to a0)
      by (intros a0 H; exact (proj1 (G_wf sents g Hne a0 H))).
    assert (Hbd : forall a0 t, In a0 G -> In t (a_list a0) -> t < length sents)
      by (intros a0 t H; exact (proj2 (G_wf sents g Hne a0 H) t)).
    destruct (multiple_eval_complete G n Hwf (length sents) Hbd (n - 1) ltac:(unfold n; simpl; lia)
                (S (S (2 * length sents))) (graph_fuel G n) 0 (init_state G n) []) as [l [Hr [_ Hc]]].
    + apply init_sinv. intros a0 H. now apply Hwf.
    + simpl g_arcs. apply graph_fuel_enough.
    + lia.
    + lia.
    + exists l. split; [exact Hr|]. intros t Ht [Hd|Hd]; [discriminate|]. apply Hc; [|lia].
      exact (derivable_inS sents g Hne t Ht Hd).
Qed.
