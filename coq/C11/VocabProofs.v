(* C11 -- vocabulary modes: the implementation-shaped filters (posting lists + sorted intersections) decide
   exactly the specification predicate keep_single / keep_union / keep_multiple. *)
From Coq Require Import List NArith Arith Bool Lia Sorted.
From Kenlm Require Import C11.FilterSpec C11.IntersectModel C11.FilterModel C11.IntersectProofs.
Import ListNotations.

Lemma bytes_eqb_eq : forall a b, bytes_eqb a b = true <-> a = b.
Proof.
  induction a as [|x a IH]; destruct b as [|y b]; simpl; split; intros H; try reflexivity; try discriminate.
  - apply andb_true_iff in H as [H1 H2]. apply N.eqb_eq in H1. apply IH in H2. now subst.
  - inversion H; subst. rewrite N.eqb_refl. simpl. now apply IH.
Qed.

Lemma bytes_eqb_refl : forall a, bytes_eqb a a = true.
Proof. intros. now apply bytes_eqb_eq. Qed.

Lemma bytes_eqb_neq : forall a b, bytes_eqb a b = false <-> a <> b.
Proof. intros. rewrite <- bytes_eqb_eq. destruct (bytes_eqb a b); split; congruence. Qed.

Lemma mem_In : forall w v, mem w v = true <-> In w v.
Proof.
  intros w v. unfold mem. rewrite existsb_exists. split.
  - intros [x [Hin He]]. apply bytes_eqb_eq in He. now subst.
  - intros H. exists w. split; [exact H|apply bytes_eqb_refl].
Qed.

(* ---- single ------------------------------------------------------------------------------------------ *)
Lemma single_pass_spec : forall vocab ws, single_pass vocab ws = all_in vocab (nontag ws).
Proof.
  intros vocab ws. induction ws as [|w t IH]; simpl; [reflexivity|].
  unfold nontag in *. simpl. destruct (is_tag w); simpl; [exact IH|].
  destruct (mem w vocab); simpl; [exact IH|reflexivity].
Qed.

(* ---- posting lists ------------------------------------------------------------------------------------- *)
(* the sentences (ids, increasing) whose vocabulary holds w *)
Definition posting_of (sents : list (list word)) (w : word) : list nat :=
  filter (fun j => mem w (nth j sents [])) (seq 0 (length sents)).

Definition opt (l : list nat) : option (list nat) := match l with [] => None | _ => Some l end.

Lemma posting_of_snoc : forall sents s w,
  posting_of (sents ++ [s]) w = posting_of sents w ++ (if mem w s then [length sents] else []).
Proof.
  intros sents s w. unfold posting_of. rewrite app_length. simpl length.
  rewrite Nat.add_1_r, seq_S, filter_app. simpl. f_equal.
  - apply filter_ext_in. intros j Hj. apply in_seq in Hj. now rewrite app_nth1 by lia.
  - rewrite app_nth2 by lia. rewrite Nat.sub_diag. simpl. destruct (mem w s); reflexivity.
Qed.

Lemma posting_of_lt : forall sents w j, In j (posting_of sents w) -> j < length sents.
Proof. intros sents w j H. apply filter_In in H as [H _]. apply in_seq in H. lia. Qed.

Lemma posting_of_In : forall sents w j, In j (posting_of sents w) <-> j < length sents /\ mem w (nth j sents []) = true.
Proof. intros. unfold posting_of. rewrite filter_In, in_seq. intuition lia. Qed.

Lemma inc_seq : forall n a, inc (seq a n).
Proof.
  induction n as [|n IH]; intros a; simpl; [constructor|]. constructor; [apply IH|].
  rewrite Forall_forall. intros x Hx. apply in_seq in Hx. lia.
Qed.

Lemma inc_filter : forall f l, inc l -> inc (filter f l).
Proof.
  intros f l H. induction H as [|a l Hl IH Ha]; simpl; [constructor|].
  destruct (f a); [|exact IH]. constructor; [exact IH|].
  rewrite Forall_forall in *. intros x Hx. apply filter_In in Hx as [Hx _]. now apply Ha.
Qed.

Lemma posting_of_inc : forall sents w, inc (posting_of sents w).
Proof. intros. apply inc_filter. apply inc_seq. Qed.

Lemma lookup_add_posting : forall w0 sid p w,
  lookup w (add_posting w0 sid p) =
  if bytes_eqb w w0 then Some (match lookup w0 p with None => [sid] | Some l => append_sentence l sid end)
  else lookup w p.
Proof.
  intros w0 sid p w. induction p as [|[w' l] t IH]; simpl.
  - destruct (bytes_eqb w w0); reflexivity.
  - destruct (bytes_eqb w0 w') eqn:E0; simpl.
    + apply bytes_eqb_eq in E0. subst w'. destruct (bytes_eqb w w0); reflexivity.
    + destruct (bytes_eqb w w') eqn:E1.
      * apply bytes_eqb_eq in E1. subst w'.
        replace (bytes_eqb w w0) with false; [reflexivity|].
        symmetry. apply bytes_eqb_neq. apply bytes_eqb_neq in E0. congruence.
      * exact IH.
Qed.

(* what the table holds after the sentences `prefix` and the first words `seen` of sentence number length prefix *)
Definition table_inv (prefix : list (list word)) (seen : list word) (p : postings) : Prop :=
  forall w, lookup w p = opt (posting_of prefix w ++ (if mem w seen then [length prefix] else [])).

Lemma append_sentence_new : forall l sid, (forall j, In j l -> j < sid) -> append_sentence l sid = l ++ [sid].
Proof.
  intros l sid H. destruct l as [|a l]; [reflexivity|]. unfold append_sentence.
  replace (last (a :: l) 0 =? sid) with false; [reflexivity|]. symmetry. apply Nat.eqb_neq.
  assert (In (last (a :: l) 0) (a :: l)).
  { clear. generalize a. induction l as [|b l IH]; intros a0; [now left|]. right. apply IH. }
  specialize (H _ H0). lia.
Qed.

Lemma append_sentence_old : forall l sid, append_sentence (l ++ [sid]) sid = l ++ [sid].
Proof.
  intros l sid. unfold append_sentence. destruct (l ++ [sid]) eqn:E; [destruct l; discriminate|].
  rewrite <- E. rewrite last_last, Nat.eqb_refl. reflexivity.
Qed.

Lemma opt_app_single : forall l (sid : nat), opt (l ++ [sid]) = Some (l ++ [sid]).
Proof. intros. destruct l; reflexivity. Qed.

Lemma table_inv_step : forall prefix seen p w0, table_inv prefix seen p ->
  table_inv prefix (seen ++ [w0]) (add_posting w0 (length prefix) p).
Proof.
  intros prefix seen p w0 H w. rewrite lookup_add_posting.
  assert (Hmem : mem w (seen ++ [w0]) = mem w seen || bytes_eqb w w0).
  { unfold mem. rewrite existsb_app. simpl. now rewrite orb_false_r. }
  rewrite Hmem. destruct (bytes_eqb w w0) eqn:E.
  - apply bytes_eqb_eq in E. subst w0. rewrite orb_true_r. rewrite (H w).
    rewrite opt_app_single. f_equal.
    destruct (mem w seen).
    + simpl. rewrite opt_app_single. apply append_sentence_old.
    + rewrite app_nil_r. destruct (posting_of prefix w) as [|a l] eqn:Ep; [reflexivity|].
      simpl opt. rewrite <- Ep. apply append_sentence_new. intros j Hj. now apply posting_of_lt in Hj.
  - rewrite orb_false_r. apply H.
Qed.

Lemma table_inv_sentence : forall s prefix seen p, table_inv prefix seen p ->
  table_inv prefix (seen ++ s) (add_sentence s (length prefix) p).
Proof.
  induction s as [|w0 s IH]; intros prefix seen p H; simpl.
  - now rewrite app_nil_r.
  - unfold add_sentence in *. simpl. replace (seen ++ w0 :: s) with ((seen ++ [w0]) ++ s) by now rewrite <- app_assoc.
    apply IH. now apply table_inv_step.
Qed.

Lemma table_inv_next : forall prefix s p, table_inv prefix s p -> table_inv (prefix ++ [s]) [] p.
Proof.
  intros prefix s p H w. rewrite (H w). rewrite posting_of_snoc. simpl. now rewrite app_nil_r.
Qed.

Lemma build_from_inv : forall rest prefix p, table_inv prefix [] p ->
  table_inv (prefix ++ rest) [] (build_from rest (length prefix) p).
Proof.
  induction rest as [|s rest IH]; intros prefix p H; simpl.
  - now rewrite app_nil_r.
  - replace (prefix ++ s :: rest) with ((prefix ++ [s]) ++ rest) by now rewrite <- app_assoc.
    replace (S (length prefix)) with (length (prefix ++ [s])) by (rewrite app_length; simpl; lia).
    apply IH. apply table_inv_next. apply (table_inv_sentence s prefix [] p H).
Qed.

Theorem lookup_build_postings : forall sents w, lookup w (build_postings sents) = opt (posting_of sents w).
Proof.
  intros sents w. unfold build_postings.
  pose proof (build_from_inv sents [] [] (fun w => eq_refl)) as H. simpl in H.
  rewrite (H w). simpl. now rewrite app_nil_r.
Qed.

(* ---- gather_sets ------------------------------------------------------------------------------------------ *)
Lemma gather_sets_spec : forall sents ws acc,
  gather_sets (build_postings sents) ws acc =
  if forallb (fun w => nonempty (posting_of sents w)) (nontag ws)
  then Some (rev acc ++ map (posting_of sents) (nontag ws)) else None.
Proof.
  intros sents ws. induction ws as [|w t IH]; intros acc; simpl.
  - now rewrite app_nil_r.
  - unfold nontag in *. simpl. destruct (is_tag w); simpl; [apply IH|].
    rewrite lookup_build_postings. destruct (posting_of sents w) as [|a l] eqn:E; simpl; [reflexivity|].
    rewrite IH. destruct (forallb _ _); [|reflexivity]. simpl. now rewrite <- app_assoc.
Qed.

Lemma all_in_nth : forall sents r j, all_in (nth j sents []) r = true <-> forall w, In w r -> mem w (nth j sents []) = true.
Proof. intros. unfold all_in. apply forallb_forall. Qed.

Lemma common_postings : forall sents r j, r <> [] ->
  (common (map (posting_of sents) r) j <-> j < length sents /\ all_in (nth j sents []) r = true).
Proof.
  intros sents r j Hne. rewrite all_in_nth. unfold common. split.
  - intros H. assert (forall w, In w r -> In j (posting_of sents w)).
    { intros w Hw. apply H. now apply in_map. }
    split.
    + destruct r as [|w r]; [congruence|]. apply (posting_of_lt sents w). apply H0. now left.
    + intros w Hw. now apply posting_of_In, H0.
  - intros [Hj H] s Hs. apply in_map_iff in Hs as [w [<- Hw]]. apply posting_of_In. split; [exact Hj|now apply H].
Qed.

Lemma existsb_nth : forall (sents : list (list word)) (f : list word -> bool),
  existsb f sents = true <-> exists j, j < length sents /\ f (nth j sents []) = true.
Proof.
  intros sents f. rewrite existsb_exists. split.
  - intros [v [Hin Hf]]. destruct (In_nth sents v [] Hin) as [j [Hj Hn]]. exists j. now rewrite Hn.
  - intros [j [Hj Hf]]. exists (nth j sents []). split; [now apply nth_In|exact Hf].
Qed.

(* ---- union --------------------------------------------------------------------------------------------------- *)
Definition decide_first (sets : list (list nat)) : res bool :=
  match first_intersection sets with
  | Ok (Some _) => Ok true
  | Ok None => Ok false
  | OutOfFuel => OutOfFuel
  end.

Lemma union_pass_unfold : forall p ws,
  union_pass p ws = match gather_sets p ws [] with
                    | None => Ok false
                    | Some sets => match sets with [] => Ok true | _ => decide_first sets end
                    end.
Proof. intros. unfold union_pass, decide_first. destruct (gather_sets p ws []) as [[|s l]|]; reflexivity. Qed.

Lemma no_posting_no_sentence : forall sents r j,
  forallb (fun w => nonempty (posting_of sents w)) r = false ->
  j < length sents -> all_in (nth j sents []) r = true -> False.
Proof.
  intros sents r j Hf Hj Ha. rewrite all_in_nth in Ha.
  assert (forallb (fun w => nonempty (posting_of sents w)) r = true).
  { apply forallb_forall. intros w Hw. specialize (Ha w Hw).
    assert (In j (posting_of sents w)) by (apply posting_of_In; now split).
    destruct (posting_of sents w); [destruct H|reflexivity]. }
  congruence.
Qed.

Theorem union_pass_spec : forall sents ws,
  union_pass (build_postings sents) ws = Ok (keep_union sents false ws).
Proof.
  intros sents ws. rewrite union_pass_unfold. unfold keep_union. simpl ctx_words. rewrite gather_sets_spec.
  change (rev [] ++ map (posting_of sents) (nontag ws)) with (map (posting_of sents) (nontag ws)).
  destruct (nontag ws) as [|w0 r0] eqn:Er; [reflexivity|]. set (r := w0 :: r0).
  assert (Hne : r <> []) by discriminate.
  destruct (forallb (fun w => nonempty (posting_of sents w)) r) eqn:Eall.
  - assert (Hmap : map (posting_of sents) r <> []) by discriminate.
    destruct (first_intersection_correct (map (posting_of sents) r) Hmap) as [res [Hrun Hres]].
    { intros s Hs. apply in_map_iff in Hs as [w [<- _]]. apply posting_of_inc. }
    transitivity (decide_first (map (posting_of sents) r)); [reflexivity|].
    unfold decide_first. rewrite Hrun. destruct res as [v|]; f_equal; symmetry.
    + destruct Hres as [Hc _]. apply common_postings in Hc as [Hv Ha]; [|exact Hne].
      apply existsb_nth. now exists v.
    + destruct (existsb (fun v => all_in v r) sents) eqn:Ee; [|reflexivity]. exfalso.
      apply existsb_nth in Ee as [j [Hj Ha]]. apply (Hres j). apply common_postings; [exact Hne|now split].
  - f_equal. symmetry.
    destruct (existsb (fun v => all_in v r) sents) eqn:Ee; [|reflexivity]. exfalso.
    apply existsb_nth in Ee as [j [Hj Ha]]. exact (no_posting_no_sentence sents r j Eall Hj Ha).
Qed.

(* ---- multiple -------------------------------------------------------------------------------------------------- *)
Lemma multiple_targets_unfold : forall p n ws,
  multiple_targets p n ws = match gather_sets p ws [] with
                            | None => Ok []
                            | Some sets => match sets with [] => Ok (seq 0 n) | _ => all_intersection sets end
                            end.
Proof. intros. unfold multiple_targets. destruct (gather_sets p ws []) as [[|s l]|]; reflexivity. Qed.

Theorem multiple_targets_spec : forall sents ws,
  exists l, multiple_targets (build_postings sents) (length sents) ws = Ok l /\ inc l /\
    forall j, In j l <-> j < length sents /\ keep_multiple sents j false ws = true.
Proof.
  intros sents ws. rewrite multiple_targets_unfold. unfold keep_multiple. simpl ctx_words. rewrite gather_sets_spec.
  change (rev [] ++ map (posting_of sents) (nontag ws)) with (map (posting_of sents) (nontag ws)).
  destruct (nontag ws) as [|w0 r0] eqn:Er.
  - simpl. exists (seq 0 (length sents)). split; [reflexivity|]. split; [apply inc_seq|].
    intros j. rewrite in_seq. simpl. intuition lia.
  - set (r := w0 :: r0). assert (Hne : r <> []) by discriminate.
    destruct (forallb (fun w => nonempty (posting_of sents w)) r) eqn:Eall.
    + assert (Hmap : map (posting_of sents) r <> []) by discriminate.
      destruct (all_intersection_correct (map (posting_of sents) r) Hmap) as [l [Hrun [Hinc Hmem]]].
      { intros s Hs. apply in_map_iff in Hs as [w [<- _]]. apply posting_of_inc. }
      exists l. split; [exact Hrun|]. split; [exact Hinc|]. intros j. rewrite Hmem. now apply common_postings.
    + exists []. split; [reflexivity|]. split; [constructor|]. intros j. split; [intros []|].
      intros [Hj Ha]. exfalso. exact (no_posting_no_sentence sents r j Eall Hj Ha).
Qed.
