(* C11 -- the lower-bound graph search of lm/filter/phrase.cc (Arc::LowerBound / Vertex::LowerBound /
   Union::Evaluate / Multiple::Evaluate, as modelled in PhraseGraphModel.v) is COMPLETE: every sentence id that
   the graph admits at the last vertex is found; the search terminates within the model's fuel.
   The graph is abstract here (any arcs whose `from` vertex precedes their `to` vertex, with strictly
   increasing sentence lists); PhraseTableProofs.v shows that the graph built from the Substrings tables admits
   every sentence from whose phrases the n-gram can be derived. *)
From Coq Require Import List NArith Arith Bool Lia Sorted.
From Kenlm Require Import C11.FilterSpec C11.IntersectModel C11.FilterModel C11.IntersectProofs C11.PhraseGraphModel.
Import ListNotations.

(* ---- what the graph admits ---------------------------------------------------------------------------------- *)
Inductive inS (G : list arc) : nat -> nat -> Prop :=
| inS_right : forall a t, In a G -> a_from a = None -> In t (a_list a) -> inS G (a_to a) t
| inS_phrase : forall a f t, In a G -> a_from a = Some f -> In t (a_list a) -> inS G f t -> inS G (a_to a) t.

Definition live (G : list arc) (a0 : arc) (t : nat) : Prop :=
  In t (a_list a0) /\ match a_from a0 with None => True | Some f => inS G f t end.

Lemma live_inS : forall G a0 t, In a0 G -> live G a0 t -> inS G (a_to a0) t.
Proof.
  intros G a0 t Hin [Ht Hf]. destruct (a_from a0) as [f|] eqn:E.
  - now apply inS_phrase with (f := f).
  - now apply inS_right.
Qed.

Lemma inS_live : forall G k t, inS G k t -> exists a0, In a0 G /\ a_to a0 = k /\ live G a0 t.
Proof.
  intros G k t H. induction H as [a t Hin Hf Ht|a f t Hin Hf Ht Hs _]; exists a.
  - split; [exact Hin|]. split; [reflexivity|]. unfold live. rewrite Hf. auto.
  - split; [exact Hin|]. split; [reflexivity|]. unfold live. rewrite Hf. auto.
Qed.

(* ---- list plumbing ---------------------------------------------------------------------------------------------- *)
Lemma set_nth_length : forall {A} (l : list A) i x, length (set_nth l i x) = length l.
Proof. induction l as [|a l IH]; intros [|i] x; simpl; auto. Qed.

Lemma set_nth_same : forall {A} (l : list A) i x, i < length l -> nth_error (set_nth l i x) i = Some x.
Proof.
  induction l as [|a l IH]; intros i x H; simpl in H; [lia|].
  destruct i as [|i]; simpl; [reflexivity|]. apply IH. lia.
Qed.

Lemma set_nth_other : forall {A} (l : list A) i j x, i <> j -> nth_error (set_nth l i x) j = nth_error l j.
Proof. induction l as [|a l IH]; intros [|i] [|j] x H; simpl; try reflexivity; try congruence. apply IH. congruence. Qed.

Lemma nth_set_nth : forall (l : list nat) i x d, i < length l -> nth i (set_nth l i x) d = x.
Proof.
  induction l as [|a l IH]; intros i x d H; simpl in H; [lia|].
  destruct i as [|i]; simpl; [reflexivity|]. apply IH. lia.
Qed.

Lemma Forall2_set_nth : forall {A B} (P : A -> B -> Prop) l1 l2 i a b,
  Forall2 P l1 l2 -> nth_error l1 i = Some a -> P a b -> Forall2 P l1 (set_nth l2 i b).
Proof.
  intros A B P l1 l2 i a b H. revert i. induction H as [|x y l1 l2 Hxy Hf IH]; intros [|i] Hn Hp; simpl in *; try discriminate.
  - inversion Hn; subst. now constructor.
  - constructor; [exact Hxy|now apply IH].
Qed.

Lemma Forall2_nth_both : forall {A B} (P : A -> B -> Prop) l1 l2 i b,
  Forall2 P l1 l2 -> nth_error l2 i = Some b -> exists a, nth_error l1 i = Some a /\ P a b.
Proof.
  intros A B P l1 l2 i b H. revert i. induction H as [|x y l1 l2 Hxy Hf IH]; intros [|i] Hn; simpl in *; try discriminate.
  - inversion Hn; subst. now exists x.
  - now apply IH.
Qed.

Lemma Forall2_imp' : forall {A B} (P Q : A -> B -> Prop) l1 l2,
  (forall a b, P a b -> Q a b) -> Forall2 P l1 l2 -> Forall2 Q l1 l2.
Proof. intros A B P Q l1 l2 H F. induction F; constructor; auto. Qed.

(* ---- measure ----------------------------------------------------------------------------------------------------- *)
Definition msize (arcs : list arc) : nat := fold_right (fun a m => length (a_list a) + m) 0 arcs.

Lemma msize_set_nth : forall arcs i a b, nth_error arcs i = Some a ->
  msize (set_nth arcs i b) + length (a_list a) = msize arcs + length (a_list b).
Proof.
  induction arcs as [|x arcs IH]; intros [|i] a b H; simpl in *; try discriminate.
  - inversion H; subst. lia.
  - specialize (IH i a b H). lia.
Qed.

(* ---- top_arc ------------------------------------------------------------------------------------------------------ *)
Lemma top_arc_aux_spec : forall arcs k i best,
  match top_arc_aux arcs k i best with
  | None => best = None /\ forall a, In a arcs -> a_to a = k -> a_list a = []
  | Some (ai, c) =>
      ((best = Some (ai, c)) \/ (exists a l, i <= ai /\ nth_error arcs (ai - i) = Some a /\ a_to a = k /\ a_list a = c :: l)) /\
      (forall bi bc, best = Some (bi, bc) -> c <= bc) /\
      (forall a c' l', In a arcs -> a_to a = k -> a_list a = c' :: l' -> c <= c')
  end.
Proof.
  induction arcs as [|a arcs IH]; intros k i best; simpl.
  - destruct best as [[bi bc]|].
    + split; [now left|]. split; [intros ? ? H; inversion H; lia|intros ? ? ? []].
    + split; [reflexivity|intros ? []].
  - set (best' := if a_to a =? k then match a_list a with
                                       | [] => best
                                       | c :: _ => match best with None => Some (i, c) | Some (_, bc) => if c <? bc then Some (i, c) else best end
                                       end else best).
    specialize (IH k (S i) best').
    destruct (top_arc_aux arcs k (S i) best') as [[ai c]|].
    + destruct IH as [Hsrc [Hbest Hmin]].
      assert (Hb' : forall bi bc, best = Some (bi, bc) -> c <= bc).
      { intros bi bc Hb. subst best'. destruct (a_to a =? k); [|now apply (Hbest bi bc)].
        destruct (a_list a) as [|c0 l0]; [now apply (Hbest bi bc)|]. rewrite Hb in Hbest.
        destruct (c0 <? bc) eqn:E; [|now apply (Hbest bi bc)]. apply Nat.ltb_lt in E.
        specialize (Hbest i c0 eq_refl). lia. }
      split; [|split; [exact Hb'|]].
      * destruct Hsrc as [Hsrc|[a1 [l1 [Hi [Hn [Hk Hl]]]]]].
        -- subst best'. destruct (a_to a =? k) eqn:Ek; [|now left].
           destruct (a_list a) as [|c0 l0] eqn:El; [now left|].
           destruct best as [[bi bc]|].
           ++ destruct (c0 <? bc); [|now left]. inversion Hsrc; subst. right. exists a, l0.
              rewrite Nat.sub_diag. apply Nat.eqb_eq in Ek. auto.
           ++ inversion Hsrc; subst. right. exists a, l0. rewrite Nat.sub_diag. apply Nat.eqb_eq in Ek. auto.
        -- right. exists a1, l1. split; [lia|]. split; [|auto].
           replace (ai - i) with (S (ai - S i)) by lia. exact Hn.
      * intros a2 c' l' [<-|Hin] Hk Hl; [|now apply (Hmin a2 c' l')].
        subst best'. apply Nat.eqb_eq in Hk. rewrite Hk, Hl in Hbest.
        destruct best as [[bi bc]|].
        -- destruct (c' <? bc) eqn:E; [now apply (Hbest i c')|].
           apply Nat.ltb_ge in E. specialize (Hbest bi bc eq_refl). lia.
        -- now apply (Hbest i c').
    + destruct IH as [Hb Hall]. subst best'.
      destruct (a_to a =? k) eqn:Ek.
      * destruct (a_list a) as [|c0 l0] eqn:El.
        -- split; [exact Hb|]. intros a2 [<-|Hin] Hk; [exact El|now apply Hall].
        -- destruct best as [[bi bc]|]; [destruct (c0 <? bc)|]; discriminate.
      * split; [exact Hb|]. intros a2 [<-|Hin] Hk; [apply Nat.eqb_neq in Ek; congruence|now apply Hall].
Qed.

Lemma top_arc_some : forall st k ai c, top_arc st k = Some (ai, c) ->
  (exists a l, nth_error (g_arcs st) ai = Some a /\ a_to a = k /\ a_list a = c :: l) /\
  (forall a c' l', In a (g_arcs st) -> a_to a = k -> a_list a = c' :: l' -> c <= c').
Proof.
  intros st k ai c H. unfold top_arc in H. pose proof (top_arc_aux_spec (g_arcs st) k 0 None) as S.
  rewrite H in S. destruct S as [[Hs|[a [l [_ [Hn [Hk Hl]]]]]] [_ Hmin]]; [discriminate|].
  split; [|exact Hmin]. exists a, l. rewrite Nat.sub_0_r in Hn. auto.
Qed.

Lemma top_arc_none : forall st k, top_arc st k = None -> forall a, In a (g_arcs st) -> a_to a = k -> a_list a = [].
Proof.
  intros st k H. unfold top_arc in H. pose proof (top_arc_aux_spec (g_arcs st) k 0 None) as S.
  rewrite H in S. now destruct S.
Qed.

(* ---- the invariant ------------------------------------------------------------------------------------------------- *)
Section Search.
  Variable G : list arc.                     (* the graph as built (original lists) *)
  Variable n : nat.                          (* number of vertices *)
  Hypothesis G_wf : forall a0, In a0 G -> a_to a0 < n /\ inc (a_list a0) /\ forall f, a_from a0 = Some f -> f < a_to a0.
  Variable Bnd : nat.                        (* sentence ids are below Bnd *)
  Hypothesis G_bound : forall a0 t, In a0 G -> In t (a_list a0) -> t < Bnd.

  (* relation of a current arc to its original: same end points, a sorted list that still holds every live
     sentence >= b *)
  Definition arc_rel (b : nat) (a0 a : arc) : Prop :=
    a_from a = a_from a0 /\ a_to a = a_to a0 /\ inc (a_list a) /\
    (forall t, In t (a_list a) -> In t (a_list a0)) /\
    (forall t, live G a0 t -> b <= t -> In t (a_list a)).

  Definition sinv (b : nat) (st : gstate) : Prop :=
    Forall2 (arc_rel b) G (g_arcs st) /\ length (g_cur st) = n.

  Lemma arc_rel_mono : forall b b' a0 a, b <= b' -> arc_rel b a0 a -> arc_rel b' a0 a.
  Proof. intros b b' a0 a Hb [H1 [H2 [H3 [H4 H5]]]]. repeat split; auto. intros t Hl Ht. apply H5; [exact Hl|lia]. Qed.

  Lemma sinv_mono : forall b b' st, b <= b' -> sinv b st -> sinv b' st.
  Proof. intros b b' st Hb [H1 H2]. split; [|exact H2]. eapply Forall2_imp'; [|exact H1]. intros; now apply (arc_rel_mono b b'). Qed.

  Lemma sinv_set_vcur : forall b st k c, sinv b st -> sinv b (set_vcur st k c).
  Proof. intros b st k c [H1 H2]. split; [exact H1|]. simpl. now rewrite set_nth_length. Qed.

  Lemma sinv_nth : forall b st ai a, sinv b st -> nth_error (g_arcs st) ai = Some a ->
    exists a0, nth_error G ai = Some a0 /\ In a0 G /\ arc_rel b a0 a.
  Proof.
    intros b st ai a [H1 _] Hn. destruct (Forall2_nth_both _ _ _ _ _ H1 Hn) as [a0 [Hn0 Hr]].
    exists a0. split; [exact Hn0|]. split; [eapply nth_error_In; eauto|exact Hr].
  Qed.

  Lemma sinv_set_arc : forall b st ai a a0 l, sinv b st -> nth_error (g_arcs st) ai = Some a -> nth_error G ai = Some a0 ->
    arc_rel b a0 {| a_from := a_from a; a_to := a_to a; a_list := l |} -> sinv b (set_arc_list st ai l).
  Proof.
    intros b st ai a a0 l [H1 H2] Hn Hn0 Hr. unfold set_arc_list. rewrite Hn. split; [|exact H2]. simpl.
    now apply Forall2_set_nth with (a := a0).
  Qed.

  Lemma msize_set_arc : forall st ai a l, nth_error (g_arcs st) ai = Some a ->
    msize (g_arcs (set_arc_list st ai l)) + length (a_list a) = msize (g_arcs st) + length l.
  Proof. intros st ai a l Hn. unfold set_arc_list. rewrite Hn. simpl. now rewrite (msize_set_nth _ _ a). Qed.

  Lemma set_arc_nth_same : forall st ai a l, nth_error (g_arcs st) ai = Some a ->
    nth_error (g_arcs (set_arc_list st ai l)) ai = Some {| a_from := a_from a; a_to := a_to a; a_list := l |}.
  Proof.
    intros st ai a l Hn. unfold set_arc_list. rewrite Hn. simpl. apply set_nth_same. apply nth_error_Some. congruence.
  Qed.

  (* a vertex is non-empty iff top_arc finds something *)
  Definition vnonempty (st : gstate) (k : nat) : Prop := vertex_empty st k = false.

  (* post-condition of Vertex::LowerBound(to) *)
  Definition vpost (k to : nat) (st' : gstate) : Prop :=
    (forall t, inS G k t -> to <= t -> vnonempty st' k /\ nth k (g_cur st') 0 <= t) /\
    (vnonempty st' k -> to <= nth k (g_cur st') 0 < Bnd).

  (* post-condition of Arc::LowerBound(to) on arc ai *)
  Definition apost (ai to : nat) (st st' : gstate) : Prop :=
    exists a a', nth_error (g_arcs st) ai = Some a /\ nth_error (g_arcs st') ai = Some a' /\
      (forall c l, a_list a' = c :: l -> to <= c) /\
      length (a_list a') <= length (a_list a) /\
      (forall c0 l0, a_list a = c0 :: l0 -> c0 <= to -> (forall l, a_list a' <> to :: l) -> length (a_list a') < length (a_list a)).

  Lemma lower_bound_suffix_len : forall l v, length (lower_bound l v) <= length l.
  Proof. exact lower_bound_length. Qed.

  Lemma lower_bound_head_lt : forall c0 l0 v, c0 < v -> length (lower_bound (c0 :: l0) v) < length (c0 :: l0).
  Proof.
    intros c0 l0 v H. simpl. replace (c0 <? v) with true by (symmetry; now apply Nat.ltb_lt).
    pose proof (lower_bound_length l0 v). simpl. lia.
  Qed.

  Lemma lower_bound_head_eq : forall c0 l0, lower_bound (c0 :: l0) c0 = c0 :: l0.
  Proof. intros. simpl. now rewrite Nat.ltb_irrefl. Qed.

  Lemma inc_head_le : forall c l t, inc (c :: l) -> In t (c :: l) -> c <= t.
  Proof. intros c l t H [<-|Hin]; [lia|]. pose proof (inc_head_lt c l t H Hin). lia. Qed.

  Lemma Forall2_In_l : forall {A B} (P : A -> B -> Prop) l1 l2 a, Forall2 P l1 l2 -> In a l1 -> exists b, In b l2 /\ P a b.
  Proof.
    intros A B P l1 l2 a H. induction H as [|x y l1 l2 Hxy Hf IH]; intros Hin; [destruct Hin|].
    destruct Hin as [<-|Hin]; [exists y; split; [now left|exact Hxy]|].
    destruct (IH Hin) as [b [Hb Hp]]. exists b. split; [now right|exact Hp].
  Qed.

  Lemma live_current : forall b st k t, sinv b st -> inS G k t -> b <= t ->
    exists a, In a (g_arcs st) /\ a_to a = k /\ In t (a_list a).
  Proof.
    intros b st k t [H1 _] Hs Hb. destruct (inS_live G k t Hs) as [a0 [Hin [Hk Hl]]].
    destruct (Forall2_In_l _ _ _ a0 H1 Hin) as [a [Ha [_ [Hto [_ [_ Hlive]]]]]].
    exists a. split; [exact Ha|]. split; [congruence|]. now apply Hlive.
  Qed.

  Lemma vnonempty_of_arc : forall st k a, In a (g_arcs st) -> a_to a = k -> a_list a <> [] -> vnonempty st k.
  Proof.
    intros st k a Hin Hk Hne. unfold vnonempty, vertex_empty. destruct (top_arc st k) eqn:E; [reflexivity|].
    exfalso. apply Hne. now apply (top_arc_none st k E a).
  Qed.

  Lemma msize_nth_le : forall arcs i a, nth_error arcs i = Some a -> length (a_list a) <= msize arcs.
  Proof.
    induction arcs as [|x arcs IH]; intros [|i] a H; simpl in *; try discriminate.
    - inversion H; subst. lia.
    - specialize (IH i a H). lia.
  Qed.

  Lemma set_arc_nth_other : forall st ai l j, j <> ai -> nth_error (g_arcs (set_arc_list st ai l)) j = nth_error (g_arcs st) j.
  Proof.
    intros st ai l j H. unfold set_arc_list. destruct (nth_error (g_arcs st) ai); [|reflexivity]. simpl.
    apply set_nth_other. congruence.
  Qed.

  Definition frame_v (k : nat) (st st' : gstate) : Prop :=
    forall j aj, nth_error (g_arcs st) j = Some aj -> k < a_to aj -> nth_error (g_arcs st') j = Some aj.
  Definition frame_a (ai toa : nat) (st st' : gstate) : Prop :=
    forall j aj, j <> ai -> nth_error (g_arcs st) j = Some aj -> toa <= a_to aj -> nth_error (g_arcs st') j = Some aj.

  Definition vspec (fuel : nat) : Prop :=
    forall k to st, k < n -> sinv to st -> msize (g_arcs st) + 2 * k + 1 <= fuel ->
      exists st', vertex_lb fuel k to st = Some st' /\ sinv to st' /\ msize (g_arcs st') <= msize (g_arcs st) /\
                  vpost k to st' /\ frame_v k st st'.
  Definition aspec (fuel : nat) : Prop :=
    forall ai a to st, nth_error (g_arcs st) ai = Some a -> sinv to st -> 1 <= fuel -> msize (g_arcs st) + 2 * (a_to a) <= fuel ->
      exists st' a', arc_lb fuel ai to st = Some st' /\ sinv to st' /\ nth_error (g_arcs st') ai = Some a' /\
                  a_to a' = a_to a /\
                  msize (g_arcs st') + length (a_list a) <= msize (g_arcs st) + length (a_list a') /\
                  (forall c l, a_list a' = c :: l -> to <= c) /\
                  length (a_list a') <= length (a_list a) /\
                  (forall c0 l0, a_list a = c0 :: l0 -> c0 <= to -> (forall l, a_list a' <> to :: l) -> length (a_list a') < length (a_list a)) /\
                  frame_a ai (a_to a) st st'.

  Lemma Forall2_In_r : forall {A B} (P : A -> B -> Prop) l1 l2 b, Forall2 P l1 l2 -> In b l2 -> exists a, In a l1 /\ P a b.
  Proof.
    intros A B P l1 l2 b H. induction H as [|x y l1 l2 Hxy Hf IH]; intros Hin; [destruct Hin|].
    destruct Hin as [<-|Hin]; [exists x; split; [now left|exact Hxy]|].
    destruct (IH Hin) as [a [Ha Hp]]. exists a. split; [now right|exact Hp].
  Qed.

  Lemma sinv_In : forall b st a, sinv b st -> In a (g_arcs st) -> exists a0, In a0 G /\ arc_rel b a0 a.
  Proof. intros b st a [H1 _] Hin. exact (Forall2_In_r _ _ _ a H1 Hin). Qed.

  (* every admitted sentence >= to lies at or above the least Current() of the vertex' arcs *)
  Lemma top_is_lower_bound : forall to st k ai cur t, sinv to st -> top_arc st k = Some (ai, cur) ->
    inS G k t -> to <= t -> cur <= t.
  Proof.
    intros to st k ai cur t Hs Etop Ht Hto.
    destruct (top_arc_some st k ai cur Etop) as [_ Hmin].
    destruct (live_current to st k t Hs Ht Hto) as [a2 [Hin2 [Hk2 Ht2]]].
    destruct (sinv_In to st a2 Hs Hin2) as [a0 [_ [_ [_ [Hinc _]]]]].
    destruct (a_list a2) as [|c' l'] eqn:El2; [destruct Ht2|].
    pose proof (Hmin a2 c' l' Hin2 Hk2 El2). pose proof (inc_head_le c' l' t Hinc Ht2). lia.
  Qed.

  Lemma vspec_step : forall f, aspec f -> vspec f -> vspec (S f).
  Proof.
    intros f IHa IHv k to st Hk Hs Hf. simpl vertex_lb.
    destruct (top_arc st k) as [[ai cur]|] eqn:Etop.
    - destruct (top_arc_some st k ai cur Etop) as [[a [l [Hn [Hka Hla]]]] Hmin].
      destruct (to <? cur) eqn:Elt.
      + apply Nat.ltb_lt in Elt. exists (set_vcur st k cur). split; [reflexivity|].
        split; [now apply sinv_set_vcur|]. split; [simpl; lia|]. split.
        * assert (Hcur : nth k (g_cur (set_vcur st k cur)) 0 = cur).
          { simpl. apply nth_set_nth. destruct Hs as [_ Hl]. lia. }
          assert (Hne : vnonempty (set_vcur st k cur) k).
          { apply (vnonempty_of_arc _ k a); [simpl; eapply nth_error_In; eauto|exact Hka|rewrite Hla; discriminate]. }
          split.
          -- intros t Ht Hto. split; [exact Hne|]. rewrite Hcur. exact (top_is_lower_bound to st k ai cur t Hs Etop Ht Hto).
          -- intros _. rewrite Hcur. split; [lia|].
             destruct (sinv_In to st a Hs (nth_error_In _ _ Hn)) as [a0 [Hin0 [_ [_ [_ [Hsub0 _]]]]]].
             apply (G_bound a0 cur Hin0). apply Hsub0. rewrite Hla. now left.
        * intros j aj Hj _. exact Hj.
      + apply Nat.ltb_ge in Elt.
        assert (Hm1 : 1 <= msize (g_arcs st)).
        { pose proof (msize_nth_le _ _ _ Hn). rewrite Hla in H. simpl in H. lia. }
        destruct (IHa ai a to st Hn Hs ltac:(lia) ltac:(rewrite Hka; lia))
          as [st1 [a' [Hrun [Hs1 [Hn1 [Hto1 [Hms [Hhead [Hlen [Hstrict Hfr]]]]]]]]]].
        rewrite Hrun, Hn1.
        assert (Hfound : forall l1, a_list a' = to :: l1 ->
                  exists st', Some (set_vcur st1 k to) = Some st' /\ sinv to st' /\ msize (g_arcs st') <= msize (g_arcs st) /\
                              vpost k to st' /\ frame_v k st st').
        { intros l1 Hl1. exists (set_vcur st1 k to). split; [reflexivity|].
          split; [now apply sinv_set_vcur|]. split; [simpl; lia|]. split.
          - assert (Hcur : nth k (g_cur (set_vcur st1 k to)) 0 = to).
            { simpl. apply nth_set_nth. destruct Hs1 as [_ Hl]. lia. }
            assert (Hne : vnonempty (set_vcur st1 k to) k).
            { apply (vnonempty_of_arc _ k a'); [simpl; eapply nth_error_In; eauto|congruence|rewrite Hl1; discriminate]. }
            split; [intros t Ht Hto; split; [exact Hne|rewrite Hcur; exact Hto]|intros _; rewrite Hcur; split; [lia|]].
            destruct (sinv_In to st1 a' Hs1 (nth_error_In _ _ Hn1)) as [a0 [Hin0 [_ [_ [_ [Hsub0 _]]]]]].
            apply (G_bound a0 to Hin0). apply Hsub0. rewrite Hl1. now left.
          - intros j aj Hj Hkj. simpl. apply Hfr; [|exact Hj|lia]. intros ->. rewrite Hn in Hj. inversion Hj; subst. lia. }
        assert (Hloop : (forall l1, a_list a' <> to :: l1) ->
                  exists st', vertex_lb f k to st1 = Some st' /\ sinv to st' /\ msize (g_arcs st') <= msize (g_arcs st) /\
                              vpost k to st' /\ frame_v k st st').
        { intros Hnot. pose proof (Hstrict cur l Hla Elt Hnot) as Hlt.
          destruct (IHv k to st1 Hk Hs1 ltac:(lia)) as [st' [Hr [Hs' [Hm' [Hp' Hf']]]]].
          exists st'. split; [exact Hr|]. split; [exact Hs'|]. split; [lia|]. split; [exact Hp'|].
          intros j aj Hj Hkj. apply Hf'; [|exact Hkj]. apply Hfr; [|exact Hj|lia].
          intros ->. rewrite Hn in Hj. inversion Hj; subst. lia. }
        destruct (a_list a') as [|c l1] eqn:El'.
        * apply Hloop. intros l1. discriminate.
        * destruct (c =? to) eqn:Ec.
          -- apply Nat.eqb_eq in Ec. subst c. exact (Hfound l1 eq_refl).
          -- apply Nat.eqb_neq in Ec. apply Hloop. intros l2 H. inversion H. congruence.
    - exists st. split; [reflexivity|]. split; [exact Hs|]. split; [lia|]. split.
      + split.
        * intros t Ht Hto. exfalso. destruct (live_current to st k t Hs Ht Hto) as [a2 [Hin2 [Hk2 Ht2]]].
          rewrite (top_arc_none st k Etop a2 Hin2 Hk2) in Ht2. destruct Ht2.
        * intros Hne. unfold vnonempty, vertex_empty in Hne. rewrite Etop in Hne. discriminate.
      + intros j aj Hj _. exact Hj.
  Qed.

  Lemma aspec_step : forall f, vspec f -> aspec (S f).
  Proof.
    intros f IHv ai a to st Hn Hs _ Hf. simpl arc_lb. rewrite Hn.
    destruct (sinv_nth to st ai a Hs Hn) as [a0 [Hn0 [Hin0 Hrel]]].
    destruct Hrel as [Hfrom [Hto [Hinc [Hsub Hlive]]]].
    set (l := lower_bound (a_list a) to).
    set (st1 := set_arc_list st ai l).
    assert (Hrel1 : arc_rel to a0 {| a_from := a_from a; a_to := a_to a; a_list := l |}).
    { split; [exact Hfrom|]. split; [exact Hto|]. split; [now apply lower_bound_inc|]. split.
      - intros t Ht. apply Hsub. now apply (lower_bound_sub (a_list a) to).
      - intros t Hl Ht. apply lower_bound_keep; [now apply Hlive|exact Ht]. }
    assert (Hs1 : sinv to st1) by (apply (sinv_set_arc to st ai a a0 l Hs Hn Hn0 Hrel1)).
    assert (Hn1 : nth_error (g_arcs st1) ai = Some {| a_from := a_from a; a_to := a_to a; a_list := l |})
      by (apply set_arc_nth_same; exact Hn).
    assert (Hm1 : msize (g_arcs st1) + length (a_list a) = msize (g_arcs st) + length l) by (apply msize_set_arc; exact Hn).
    assert (Hll : length l <= length (a_list a)) by apply lower_bound_length.
    assert (Hhead : forall c l', l = c :: l' -> to <= c).
    { intros c l' E. apply (lower_bound_ge (a_list a) to c Hinc). fold l. rewrite E. now left. }
    assert (Hstrict1 : forall c0 l0, a_list a = c0 :: l0 -> c0 <= to -> (forall l', l <> to :: l') -> length l < length (a_list a)).
    { intros c0 l0 E Hc Hnot. destruct (Nat.eq_dec c0 to) as [->|Hne].
      - exfalso. apply (Hnot l0). unfold l. rewrite E. apply lower_bound_head_eq.
      - unfold l. rewrite E. apply lower_bound_head_lt. lia. }
    assert (Hfr1 : frame_a ai (a_to a) st st1).
    { intros j aj Hj Hnj _. unfold st1. rewrite set_arc_nth_other by exact Hj. exact Hnj. }
    (* the result when the arc is finished after the first lower_bound *)
    assert (Hdone : exists st' a', Some st1 = Some st' /\ sinv to st' /\ nth_error (g_arcs st') ai = Some a' /\ a_to a' = a_to a /\
              msize (g_arcs st') + length (a_list a) <= msize (g_arcs st) + length (a_list a') /\
              (forall c l', a_list a' = c :: l' -> to <= c) /\ length (a_list a') <= length (a_list a) /\
              (forall c0 l0, a_list a = c0 :: l0 -> c0 <= to -> (forall l', a_list a' <> to :: l') -> length (a_list a') < length (a_list a)) /\
              frame_a ai (a_to a) st st').
    { exists st1, {| a_from := a_from a; a_to := a_to a; a_list := l |}. simpl.
      split; [reflexivity|]. split; [exact Hs1|]. split; [exact Hn1|]. split; [reflexivity|]. split; [lia|].
      split; [exact Hhead|]. split; [exact Hll|]. split; [exact Hstrict1|exact Hfr1]. }
    destruct (a_from a) as [fv|] eqn:Efrom; [|exact Hdone].
    destruct l as [|c l'] eqn:El; [exact Hdone|].
    destruct (to <? c) eqn:Elt; [exact Hdone|].
    apply Nat.ltb_ge in Elt. assert (c = to) by (pose proof (Hhead c l' eq_refl); lia). subst c.
    (* Current() == to: consult the from vertex *)
    destruct (G_wf a0 Hin0) as [Hton [_ Hfl]].
    assert (Hfv : fv < a_to a0) by (apply Hfl; congruence).
    destruct (IHv fv to st1 ltac:(lia) Hs1 ltac:(lia)) as [st2 [Hrun2 [Hs2 [Hm2 [[Hvp1 Hvp2] Hfr2]]]]].
    rewrite Hrun2.
    assert (Hn2 : nth_error (g_arcs st2) ai = Some {| a_from := Some fv; a_to := a_to a; a_list := to :: l' |}).
    { apply Hfr2 with (j := ai); [exact Hn1|simpl; lia]. }
    assert (Hfin : forall lnew, arc_rel to a0 {| a_from := Some fv; a_to := a_to a; a_list := lnew |} -> length lnew <= length l' ->
              (forall c l2, lnew = c :: l2 -> to < c) ->
              exists st' a', Some (set_arc_list st2 ai lnew) = Some st' /\ sinv to st' /\ nth_error (g_arcs st') ai = Some a' /\ a_to a' = a_to a /\
              msize (g_arcs st') + length (a_list a) <= msize (g_arcs st) + length (a_list a') /\
              (forall c l2, a_list a' = c :: l2 -> to <= c) /\ length (a_list a') <= length (a_list a) /\
              (forall c0 l0, a_list a = c0 :: l0 -> c0 <= to -> (forall l2, a_list a' <> to :: l2) -> length (a_list a') < length (a_list a)) /\
              frame_a ai (a_to a) st st').
    { intros lnew Hrn Hln Hgt.
      exists (set_arc_list st2 ai lnew), {| a_from := Some fv; a_to := a_to a; a_list := lnew |}.
      split; [reflexivity|]. split; [apply (sinv_set_arc to st2 ai _ a0 lnew Hs2 Hn2 Hn0); exact Hrn|].
      split; [apply (set_arc_nth_same st2 ai _ lnew Hn2)|]. split; [reflexivity|].
      pose proof (msize_set_arc st2 ai _ lnew Hn2) as Hm3. simpl in Hm3, Hll, Hm1. simpl.
      split; [lia|]. split; [intros c l2 E; specialize (Hgt c l2 E); lia|]. split; [lia|]. split; [intros; lia|].
      intros j aj Hj Hnj Hge. rewrite set_arc_nth_other by exact Hj.
      apply Hfr2; [|lia]. apply Hfr1; assumption. }
    destruct (vertex_empty st2 fv) eqn:Eve.
    - (* no sentence >= to is admitted at the from vertex: the arc is finished *)
      apply Hfin; [|simpl; lia|intros c l2 E; discriminate].
      split; [simpl; congruence|]. split; [exact Hto|]. split; [constructor|]. split; [intros t []|].
      intros t [Hl1 Hl2] Ht. exfalso. rewrite <- Hfrom in Hl2.
      destruct (Hvp1 t Hl2 Ht) as [Hne _]. unfold vnonempty in Hne. congruence.
    - assert (Hfc : to <= nth fv (g_cur st2) 0) by (apply Hvp2; exact Eve).
      destruct (to <? nth fv (g_cur st2) 0) eqn:Efc.
      + apply Nat.ltb_lt in Efc. set (fc := nth fv (g_cur st2) 0) in *.
        assert (Hinc' : inc l').
        { pose proof (lower_bound_inc (a_list a) to Hinc) as Hi. fold l in Hi. rewrite El in Hi. now apply inc_tail in Hi. }
        apply Hfin.
        * split; [simpl; congruence|]. split; [exact Hto|]. split; [now apply lower_bound_inc|]. split.
          -- intros t Ht. apply Hsub. apply (lower_bound_sub (a_list a) to). fold l. rewrite El. right.
             now apply (lower_bound_sub l' fc).
          -- intros t [Hl1 Hl2] Ht. simpl. rewrite <- Hfrom in Hl2.
             destruct (Hvp1 t Hl2 Ht) as [_ Hge].
             assert (Hin : In t (to :: l')).
             { rewrite <- El. apply lower_bound_keep; [apply Hlive; [split; [exact Hl1|rewrite <- Hfrom; exact Hl2]|exact Ht]|exact Ht]. }
             destruct Hin as [<-|Hin]; [fold fc in Hge; lia|]. apply lower_bound_keep; [exact Hin|exact Hge].
        * simpl. apply lower_bound_length.
        * intros c l2 E. assert (fc <= c). { apply (lower_bound_ge l' fc c Hinc'). rewrite E. now left. } lia.
      + (* from vertex sits exactly on `to`: the arc keeps Current() == to *)
        exists st2, {| a_from := Some fv; a_to := a_to a; a_list := to :: l' |}.
        split; [reflexivity|]. split; [exact Hs2|]. split; [exact Hn2|]. split; [reflexivity|]. simpl in *.
        split; [lia|]. split; [intros c l2 E; inversion E; lia|]. split; [lia|].
        split; [intros c0 l0 _ _ Hnot; exfalso; apply (Hnot l'); reflexivity|].
        intros j aj Hj Hnj Hge. apply Hfr2; [|lia]. apply Hfr1; assumption.
  Qed.

  Theorem search_spec : forall fuel, vspec fuel /\ aspec fuel.
  Proof.
    induction fuel as [|f [IHv IHa]].
    - split.
      + intros k to st Hk Hs Hf. lia.
      + intros ai a to st Hn Hs H1 Hf. lia.
    - split; [now apply vspec_step|now apply aspec_step].
  Qed.

  (* ---- Union::Evaluate / Multiple::Evaluate ------------------------------------------------------------------- *)
  Variable last : nat.
  Hypothesis last_lt : last < n.

  Theorem union_eval_complete : forall fuel big lower st, sinv lower st ->
    msize (g_arcs st) + 2 * last + 1 <= big -> lower <= Bnd -> Bnd + 1 - lower <= fuel ->
    exists r, union_eval fuel big last lower st = Ok r /\ ((exists t, inS G last t /\ lower <= t) -> r = true).
  Proof.
    induction fuel as [|f IH]; intros big lower st Hs Hbig Hlb Hf; [lia|].
    simpl union_eval.
    destruct (proj1 (search_spec big) last lower st last_lt Hs Hbig) as [st' [Hrun [Hs' [Hm' [[Hp1 Hp2] _]]]]].
    rewrite Hrun. destruct (vertex_empty st' last) eqn:Eve.
    - exists false. split; [reflexivity|]. intros [t [Ht Hlt]]. destruct (Hp1 t Ht Hlt) as [Hne _].
      unfold vnonempty in Hne. congruence.
    - destruct (Hp2 Eve) as [Hge Hlt]. destruct (nth last (g_cur st') 0 =? lower) eqn:Ec.
      + exists true. split; reflexivity.
      + apply Nat.eqb_neq in Ec.
        destruct (IH big (nth last (g_cur st') 0) st') as [r [Hr Hc]]; [apply (sinv_mono lower); [lia|exact Hs']|lia|lia|lia|].
        exists r. split; [exact Hr|]. intros [t [Ht Hlo]]. apply Hc. exists t. split; [exact Ht|].
        destruct (Hp1 t Ht Hlo) as [_ Hle]. exact Hle.
  Qed.

  Theorem multiple_eval_complete : forall fuel big lower st acc, sinv lower st ->
    msize (g_arcs st) + 2 * last + 1 <= big -> lower <= Bnd -> Bnd + 1 - lower <= fuel ->
    exists l, multiple_eval fuel big last lower st acc = Ok l /\
      (forall t, In t acc -> In t l) /\ (forall t, inS G last t -> lower <= t -> In t l).
  Proof.
    induction fuel as [|f IH]; intros big lower st acc Hs Hbig Hlb Hf; [lia|].
    simpl multiple_eval.
    destruct (proj1 (search_spec big) last lower st last_lt Hs Hbig) as [st' [Hrun [Hs' [Hm' [[Hp1 Hp2] _]]]]].
    rewrite Hrun. destruct (vertex_empty st' last) eqn:Eve.
    - exists (rev acc). split; [reflexivity|]. split; [intros t Ht; now apply -> in_rev|].
      intros t Ht Hlt. destruct (Hp1 t Ht Hlt) as [Hne _]. unfold vnonempty in Hne. congruence.
    - destruct (Hp2 Eve) as [Hge Hlt]. destruct (nth last (g_cur st') 0 =? lower) eqn:Ec.
      + apply Nat.eqb_eq in Ec.
        destruct (IH big (S lower) st' (lower :: acc)) as [l [Hr [Hacc Hc]]]; [apply (sinv_mono lower); [lia|exact Hs']|lia|lia|lia|].
        exists l. split; [exact Hr|]. split; [intros t Ht; apply Hacc; now right|].
        intros t Ht Hlo. destruct (Nat.eq_dec t lower) as [->|Hne]; [apply Hacc; now left|]. apply Hc; [exact Ht|lia].
      + apply Nat.eqb_neq in Ec.
        destruct (IH big (nth last (g_cur st') 0) st' acc) as [l [Hr [Hacc Hc]]]; [apply (sinv_mono lower); [lia|exact Hs']|lia|lia|lia|].
        exists l. split; [exact Hr|]. split; [exact Hacc|].
        intros t Ht Hlo. apply Hc; [exact Ht|]. destruct (Hp1 t Ht Hlo) as [_ Hle]. exact Hle.
  Qed.
End Search.
