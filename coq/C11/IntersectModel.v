(* Executable model of util/multi_intersection.hh (FirstIntersectionSorted, FirstIntersection,
   AllIntersection) over posting lists of sentence ids (nat, increasing).

   A "set" is the iterator_range [begin,end): here the list of the elements still in the range.
   advance_begin(lower_bound(...)) = drop the elements < highest (the lists are sorted, so the position
   binary search returns is the first element >= highest).  The `for (i = sets.begin(); ...)` loop with
   its "start over" branch is run with explicit fuel over a zipper (done, todo): `done` holds the sets
   before the iterator (reversed), `todo` the set under the iterator and those after it.  *)
From Coq Require Import List Arith Bool.
Import ListNotations.

Inductive res (A : Type) := Ok (a : A) | OutOfFuel.
Arguments Ok {A} _.
Arguments OutOfFuel {A}.

Fixpoint lower_bound (l : list nat) (v : nat) : list nat :=
  match l with
  | [] => []
  | x :: t => if x <? v then lower_bound t v else l
  end.

(* the body of FirstIntersectionSorted's for loop; returns (result, the truncated sets) *)
Fixpoint fis_loop (fuel : nat) (done todo : list (list nat)) (highest : nat) : res (option nat * list (list nat)) :=
  match fuel with
  | O => OutOfFuel
  | S f =>
      match todo with
      | [] => Ok (Some highest, rev done)
      | s :: rest =>
          match lower_bound s highest with
          | [] => Ok (None, rev_append done ([] :: rest))                       (* i->empty(): no intersection *)
          | x :: s' =>
              if highest <? x
              then fis_loop f [] (rev_append done ((x :: s') :: rest)) x         (* start over *)
              else fis_loop f ((x :: s') :: done) rest highest                  (* ++i *)
          end
      end
  end.

Definition total_len (sets : list (list nat)) : nat := fold_right (fun s n => length s + n) 0 sets.

(* fuel that the proofs show to be sufficient: (elements + 1) * (sets + 1) + 1 *)
Definition fis_fuel (sets : list (list nat)) : nat := S ((S (total_len sets)) * (S (length sets))).

Definition first_intersection_sorted (sets : list (list nat)) : res (option nat * list (list nat)) :=
  match sets with
  | [] => Ok (None, sets)                          (* excluded by the assert(!sets.empty()) precondition *)
  | [] :: _ => Ok (None, sets)                     (* sets.front().empty() *)
  | (h :: _) :: _ => fis_loop (fis_fuel sets) [] sets h
  end.

(* std::sort(sets, RangeLessBySize): insertion sort on the length (any permutation gives the same answer) *)
Fixpoint insert_by_size (s : list nat) (l : list (list nat)) : list (list nat) :=
  match l with
  | [] => [s]
  | t :: r => if length s <=? length t then s :: l else t :: insert_by_size s r
  end.
Definition sort_by_size (sets : list (list nat)) : list (list nat) := fold_right insert_by_size [] sets.

Definition first_intersection (sets : list (list nat)) : res (option nat) :=
  match first_intersection_sorted (sort_by_size sets) with
  | Ok (r, _) => Ok r
  | OutOfFuel => OutOfFuel
  end.

(* AllIntersection: for (; ret = FirstIntersectionSorted(sets); sets.front().advance_begin(1)) out(ret) *)
Fixpoint all_loop (fuel : nat) (sets : list (list nat)) (acc : list nat) : res (list nat) :=
  match fuel with
  | O => OutOfFuel
  | S f =>
      match first_intersection_sorted sets with
      | OutOfFuel => OutOfFuel
      | Ok (None, _) => Ok (rev acc)
      | Ok (Some v, sets') =>
          match sets' with
          | (_ :: s0) :: rest => all_loop f (s0 :: rest) (v :: acc)
          | _ => Ok (rev (v :: acc))             (* unreachable: after a hit every set starts with v *)
          end
      end
  end.

Definition all_intersection (sets : list (list nat)) : res (list nat) :=
  let s := sort_by_size sets in
  all_loop (S (S (total_len s))) s [].
