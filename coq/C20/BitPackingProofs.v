(* Proofs about the translator-generated bit-packing functions (coq/Gen/BitPacking.v, regenerated
   from /repo/util/bit_packing.hh and bit_packing.cc on every run). *)
From Coq Require Import ZArith Lia Bool.
From Kenlm Require Import Base.Mem Base.Fuel Gen.BitPacking.
Local Open Scope Z_scope.
Arguments Z.ones : simpl never.
Arguments Z.testbit : simpl never.
Arguments Z.shiftl : simpl never.
Arguments Z.shiftr : simpl never.
Arguments Z.land : simpl never.
Arguments Z.lor : simpl never.
Arguments Z.ldiff : simpl never.
Arguments Z.mul : simpl never.
Arguments Z.add : simpl never.
Arguments Z.sub : simpl never.
Arguments Z.pow : simpl never.
Arguments Z.div : simpl never.
Arguments Z.modulo : simpl never.

Lemma land7 : forall x, 0 <= x -> Z.land x 7 = x mod 8.
Proof. intros. change 7 with (Z.ones 3). rewrite Z.land_ones by lia. reflexivity. Qed.
Lemma shr3 : forall x, Z.shiftr x 3 = x / 8.
Proof. intros. rewrite Z.shiftr_div_pow2 by lia. reflexivity. Qed.
Lemma wrap8_mod8 : forall x, 0 <= x -> wrap 8 (x mod 8) = x mod 8.
Proof. intros. apply wrap_small. pose proof (Z.mod_pos_bound x 8 ltac:(lia)). change (2 ^ 8) with 256. lia. Qed.

Section Generic.
(* the 57-bit (64-bit window) and 25-bit (32-bit window) routines share one proof, parameterised by the window W *)
Variable W : Z.
Hypothesis HW : 8 <= W.

Definition rd (mem base off mask : Z) : Z :=
  Z.land (Z.shiftr (loadw W mem (base + off / 8)) (off mod 8)) mask.
Definition wr (mem base off value : Z) : Z :=
  storew W mem (base + off / 8)
    (Z.lor (loadw W mem (base + off / 8)) (wrap W (Z.shiftl value (off mod 8)))).

Lemma rd_bit : forall mem base off len i, 0 <= base -> 0 <= off -> 0 <= len <= W - 7 -> 0 <= i ->
  Z.testbit (rd mem base off (Z.ones len)) i = Z.testbit mem (8 * base + off + i) && (i <? len).
Proof.
  intros mem base off len i Hb Hoff Hlen Hi. unfold rd.
  assert (Hm : 0 <= off mod 8 < 8) by (apply Z.mod_pos_bound; lia).
  assert (Hd : 0 <= off / 8) by (apply Z.div_pos; lia).
  pose proof (Z.div_mod off 8 ltac:(lia)) as Hdm.
  rewrite Z.land_spec, Z.shiftr_spec, loadw_bit, testbit_ones by lia.
  replace (i + off mod 8 + 8 * (base + off / 8)) with (8 * base + off + i) by lia.
  destruct (Z.ltb_spec i len); [|rewrite !andb_false_r; reflexivity].
  destruct (Z.ltb_spec (i + off mod 8) W); [|lia]. rewrite !andb_true_r. reflexivity.
Qed.

Lemma wr_bit : forall mem base off len v i, 0 <= base -> 0 <= off -> 0 <= len <= W - 7 -> 0 <= v < 2 ^ len -> 0 <= i ->
  Z.testbit (wr mem base off v) i =
  Z.testbit mem i || ((8 * base + off <=? i) && Z.testbit v (i - (8 * base + off))).
Proof.
  intros mem base off len v i Hb Hoff Hlen Hv Hi. unfold wr.
  assert (Hm : 0 <= off mod 8 < 8) by (apply Z.mod_pos_bound; lia).
  assert (Hd : 0 <= off / 8) by (apply Z.div_pos; lia).
  pose proof (Z.div_mod off 8 ltac:(lia)) as Hdm.
  rewrite storew_bit by lia.
  destruct ((8 * (base + off / 8) <=? i) && (i <? 8 * (base + off / 8) + W)) eqn:Ein.
  - apply andb_true_iff in Ein. destruct Ein as [E1 E2]. apply Z.leb_le in E1. apply Z.ltb_lt in E2.
    rewrite Z.lor_spec, loadw_bit, wrap_bit, Z.shiftl_spec by lia.
    replace (i - 8 * (base + off / 8) + 8 * (base + off / 8)) with i by lia.
    replace (i - 8 * (base + off / 8) - off mod 8) with (i - (8 * base + off)) by lia.
    destruct (Z.ltb_spec (i - 8 * (base + off / 8)) W); [|lia]. rewrite !andb_true_r.
    destruct (Z.leb_spec (8 * base + off) i); simpl; [reflexivity|].
    rewrite (Z.testbit_neg_r v (i - (8 * base + off))) by lia. reflexivity.
  - destruct (Z.leb_spec (8 * base + off) i); simpl; [|rewrite orb_false_r; reflexivity].
    assert (Hz : Z.testbit v (i - (8 * base + off)) = false).
    { apply andb_false_iff in Ein. destruct Ein as [E|E]; [apply Z.leb_gt in E; lia|apply Z.ltb_ge in E].
      apply small_no_high_bits with len; lia. }
    rewrite Hz, orb_false_r. reflexivity.
Qed.

Lemma rd_after_wr : forall mem base off len v, 0 <= base -> 0 <= off -> 0 <= len <= W - 7 -> 0 <= v < 2 ^ len ->
  rd mem base off (Z.ones len) = 0 ->
  rd (wr mem base off v) base off (Z.ones len) = v.
Proof.
  intros mem base off len v Hb Hoff Hlen Hv Hz. apply Z.bits_inj'. intros i Hi.
  rewrite rd_bit by lia. rewrite wr_bit with (len := len) by lia.
  pose proof (f_equal (fun z => Z.testbit z i) Hz) as Hzi. cbv beta in Hzi.
  rewrite rd_bit, Z.bits_0 in Hzi by lia.
  replace (8 * base + off + i - (8 * base + off)) with i by lia.
  destruct (Z.leb_spec (8 * base + off) (8 * base + off + i)); [|lia]. simpl.
  destruct (Z.ltb_spec i len).
  - rewrite andb_true_r in *. rewrite Hzi. reflexivity.
  - rewrite andb_false_r. symmetry. apply small_no_high_bits with len; lia.
Qed.

Lemma wr_frames : forall mem base off len v i, 0 <= base -> 0 <= off -> 0 <= len <= W - 7 -> 0 <= v < 2 ^ len -> 0 <= i ->
  (i < 8 * base + off \/ 8 * base + off + len <= i) -> Z.testbit (wr mem base off v) i = Z.testbit mem i.
Proof.
  intros mem base off len v i Hb Hoff Hlen Hv Hi Hout. rewrite wr_bit with (len := len) by lia.
  destruct (Z.leb_spec (8 * base + off) i); simpl; [|rewrite orb_false_r; reflexivity].
  rewrite (small_no_high_bits v len) by lia. rewrite orb_false_r. reflexivity.
Qed.

(* a later write at a disjoint position does not disturb an earlier value: what makes a bit-packed array an array *)
Lemma rd_other_wr : forall mem base off len v off2 len2, 0 <= base -> 0 <= off -> 0 <= off2 ->
  0 <= len <= W - 7 -> 0 <= len2 <= W - 7 -> 0 <= v < 2 ^ len ->
  (off2 + len2 <= off \/ off + len <= off2) ->
  rd (wr mem base off v) base off2 (Z.ones len2) = rd mem base off2 (Z.ones len2).
Proof.
  intros mem base off len v off2 len2 Hb Ho Ho2 Hl Hl2 Hv Hdis. apply Z.bits_inj'. intros i Hi.
  rewrite !rd_bit by lia. destruct (Z.ltb_spec i len2); [|rewrite !andb_false_r; reflexivity].
  rewrite wr_frames with (len := len) by lia. reflexivity.
Qed.
End Generic.

(* ---- link to the generated code --------------------------------------------------------------- *)
Lemma ReadInt57_is_rd : forall mem base off len mask, 0 <= off ->
  ReadInt57 mem base off len mask = rd 64 mem base off mask.
Proof.
  intros. unfold ReadInt57, ReadOff, BitPackShift, rd, load64. rewrite land7, shr3, wrap8_mod8 by lia. reflexivity.
Qed.
Lemma WriteInt57_is_wr : forall mem base off len v, 0 <= off ->
  WriteInt57 mem base off len v = wr 64 mem base off v.
Proof.
  intros. unfold WriteInt57, BitPackShift, wr, load64, store64. rewrite land7, shr3, wrap8_mod8 by lia. reflexivity.
Qed.
Lemma ReadInt25_is_rd : forall mem base off len mask, 0 <= off ->
  ReadInt25 mem base off len mask = rd 32 mem base off mask.
Proof.
  intros. unfold ReadInt25, BitPackShift32, rd, load32. rewrite land7, shr3, wrap8_mod8 by lia. reflexivity.
Qed.
Lemma WriteInt25_is_wr : forall mem base off len v, 0 <= off ->
  WriteInt25 mem base off len v = wr 32 mem base off v.
Proof.
  intros. unfold WriteInt25, BitPackShift32, wr, load32, store32. rewrite land7, shr3, wrap8_mod8 by lia. reflexivity.
Qed.

Lemma read_after_write_57 : forall mem base off len v,
  0 <= base -> 0 <= off -> 0 <= len <= 57 -> 0 <= v < 2 ^ len ->
  ReadInt57 mem base off len (Z.ones len) = 0 ->
  ReadInt57 (WriteInt57 mem base off len v) base off len (Z.ones len) = v.
Proof.
  intros. rewrite WriteInt57_is_wr, ReadInt57_is_rd by lia. rewrite ReadInt57_is_rd in * by lia.
  apply rd_after_wr with (len := len); solve [lia | assumption].
Qed.
Lemma write_frames_57 : forall mem base off len v i,
  0 <= base -> 0 <= off -> 0 <= len <= 57 -> 0 <= v < 2 ^ len -> 0 <= i ->
  (i < 8 * base + off \/ 8 * base + off + len <= i) ->
  Z.testbit (WriteInt57 mem base off len v) i = Z.testbit mem i.
Proof. intros. rewrite WriteInt57_is_wr by lia. apply wr_frames with (len := len); lia. Qed.
Lemma read_other_write_57 : forall mem base off len v off2 len2, 0 <= base -> 0 <= off -> 0 <= off2 ->
  0 <= len <= 57 -> 0 <= len2 <= 57 -> 0 <= v < 2 ^ len -> (off2 + len2 <= off \/ off + len <= off2) ->
  ReadInt57 (WriteInt57 mem base off len v) base off2 len2 (Z.ones len2) = ReadInt57 mem base off2 len2 (Z.ones len2).
Proof. intros. rewrite WriteInt57_is_wr, !ReadInt57_is_rd by lia. apply rd_other_wr with (len := len); lia. Qed.

Lemma read_after_write_25 : forall mem base off len v,
  0 <= base -> 0 <= off -> 0 <= len <= 25 -> 0 <= v < 2 ^ len ->
  ReadInt25 mem base off len (Z.ones len) = 0 ->
  ReadInt25 (WriteInt25 mem base off len v) base off len (Z.ones len) = v.
Proof.
  intros. rewrite WriteInt25_is_wr, ReadInt25_is_rd by lia. rewrite ReadInt25_is_rd in * by lia.
  apply rd_after_wr with (len := len); solve [lia | assumption].
Qed.
Lemma write_frames_25 : forall mem base off len v i,
  0 <= base -> 0 <= off -> 0 <= len <= 25 -> 0 <= v < 2 ^ len -> 0 <= i ->
  (i < 8 * base + off \/ 8 * base + off + len <= i) ->
  Z.testbit (WriteInt25 mem base off len v) i = Z.testbit mem i.
Proof. intros. rewrite WriteInt25_is_wr by lia. apply wr_frames with (len := len); lia. Qed.

(* floats: a float is its 32-bit pattern *)
Lemma ones32 : Z.ones 32 = 4294967295. Proof. reflexivity. Qed.

Lemma ReadFloat32_is_rd : forall mem base off, 0 <= off ->
  ReadFloat32 mem base off = rd 64 mem base off (Z.ones 32).
Proof.
  intros. unfold ReadFloat32, ReadOff, BitPackShift, rd, load64. rewrite land7, shr3, wrap8_mod8 by lia.
  rewrite wrap_land_ones by lia. reflexivity.
Qed.
Lemma float32_roundtrip : forall mem base off v, 0 <= base -> 0 <= off -> 0 <= v < 2 ^ 32 ->
  ReadFloat32 mem base off = 0 ->
  ReadFloat32 (WriteFloat32 mem base off v) base off = v.
Proof.
  intros mem base off v Hb Ho Hv Hz. unfold WriteFloat32. rewrite (wrap_small 64 v) by lia.
  rewrite WriteInt57_is_wr, ReadFloat32_is_rd by lia. rewrite ReadFloat32_is_rd in Hz by lia.
  apply rd_after_wr with (len := 32); solve [lia | assumption].
Qed.

Lemma unset_sign_val : forall v, 0 <= v < 2 ^ 32 ->
  Z.land (wrap 32 v) (wrap 32 (Z.lnot kSignBit)) = v mod 2 ^ 31.
Proof.
  intros v Hv. rewrite (wrap_small 32 v) by lia. unfold kSignBit.
  replace (wrap 32 (Z.lnot 2147483648)) with (Z.ones 31) by reflexivity.
  rewrite Z.land_ones by lia. reflexivity.
Qed.

Lemma bit31_set : forall v, 2 ^ 31 <= v < 2 ^ 32 -> Z.testbit v 31 = true.
Proof.
  intros v Hv. rewrite Z.testbit_true by lia.
  assert (E : v / 2 ^ 31 = 1) by (symmetry; apply Z.div_unique with (v - 2 ^ 31); [left; lia | lia]).
  rewrite E. reflexivity.
Qed.

(* non-positive floats: the sign bit is not stored and is forced on when reading *)
Lemma float31_roundtrip : forall mem base off v, 0 <= base -> 0 <= off -> 2 ^ 31 <= v < 2 ^ 32 ->
  rd 64 mem base off (Z.ones 31) = 0 ->
  ReadNonPositiveFloat31 (WriteNonPositiveFloat31 mem base off v) base off = v.
Proof.
  intros mem base off v Hb Ho Hv Hz. unfold WriteNonPositiveFloat31.
  cbv zeta. rewrite unset_sign_val by lia.
  assert (Hr : 0 <= v mod 2 ^ 31 < 2 ^ 31) by (apply Z.mod_pos_bound; lia).
  rewrite (wrap_small 64 (v mod 2 ^ 31)) by lia.
  rewrite WriteInt57_is_wr by lia.
  unfold ReadNonPositiveFloat31, ReadOff, BitPackShift. cbv zeta. rewrite land7, shr3, wrap8_mod8 by lia.
  set (m2 := wr 64 mem base off (v mod 2 ^ 31)).
  assert (Hrd : rd 64 m2 base off (Z.ones 31) = v mod 2 ^ 31).
  { apply rd_after_wr with (len := 31); solve [lia | assumption]. }
  apply Z.bits_inj'. intros i Hi.
  unfold kSignBit. rewrite Z.lor_spec.
  rewrite wrap_bit by lia. rewrite wrap_bit by lia. rewrite Z.shiftr_spec by lia.
  change 2147483648 with (2 ^ 31). rewrite Z.pow2_bits_eqb by lia.
  destruct (Z.eqb_spec 31 i) as [<-|Hne].
  - rewrite orb_true_r. symmetry. apply bit31_set. exact Hv.
  - rewrite orb_false_r.
    destruct (Z.ltb_spec i 32); [|rewrite !andb_false_r; symmetry; apply small_no_high_bits with 32; lia].
    rewrite !andb_true_r.
    pose proof (f_equal (fun z => Z.testbit z i) Hrd) as Hb2. cbv beta in Hb2.
    unfold rd in Hb2. rewrite Z.land_spec, Z.shiftr_spec, testbit_ones in Hb2 by lia.
    destruct (Z.ltb_spec i 31); [|lia]. rewrite andb_true_r in Hb2. unfold load64. rewrite Hb2.
    rewrite Z.mod_pow2_bits_low by lia. reflexivity.
Qed.

(* RequiredBits: number of binary digits *)
Lemma required_bits_loop : forall (n : nat) x ret, 0 < x -> x < 2 ^ (Z.of_nat n) -> 0 <= ret -> ret + Z.of_nat n < 256 ->
  exists r, while_fuel RequiredBits_loop1_step (S n) (x, ret) = Some (0, r) /\ r = ret + Z.log2 x.
Proof.
  induction n as [|n IH]; intros x ret Hx Hlt Hret Hb.
  - simpl in Hlt. lia.
  - cbn [while_fuel]. unfold RequiredBits_loop1_step at 1.
    rewrite Z.shiftr_div_pow2 by lia. change (2 ^ 1) with 2.
    pose proof (Z.div_mod x 2 ltac:(lia)) as Hdm. pose proof (Z.mod_pos_bound x 2 ltac:(lia)) as Hmb.
    destruct (Z.eqb_spec (x / 2) 0) as [E|E]; cbn [negb].
    + exists ret. rewrite E. split; [reflexivity|].
      assert (x = 1) by lia. subst x. change (Z.log2 1) with 0. lia.
    + assert (H2 : 0 < x / 2). { pose proof (Z.div_pos x 2 ltac:(lia) ltac:(lia)). lia. }
      rewrite (wrap_small 8 (ret + 1)) by (change (2 ^ 8) with 256; lia).
      destruct (IH (x / 2) (ret + 1)) as [r [Hr1 Hr2]]; try lia.
      { apply Z.div_lt_upper_bound; [lia|]. rewrite Nat2Z.inj_succ in Hlt. rewrite Z.pow_succ_r in Hlt by lia. lia. }
      exists r. split; [exact Hr1|]. rewrite Hr2.
      assert (Hl : 1 <= Z.log2 x) by (apply Z.log2_le_pow2; [lia| change (2 ^ 1) with 2; lia]).
      assert (Hs : Z.log2 (x / 2) = Z.log2 x - 1).
      { replace (x / 2) with (Z.shiftr x 1) by (rewrite Z.shiftr_div_pow2 by lia; reflexivity).
        rewrite Z.log2_shiftr by lia. lia. }
      lia.
Qed.

Lemma required_bits_spec : forall x, 0 <= x < 2 ^ 64 ->
  RequiredBits 65 x = Some (if x =? 0 then 0 else Z.log2 x + 1).
Proof.
  intros x Hx. unfold RequiredBits. destruct (Z.eqb_spec x 0) as [->|Hn]; [reflexivity|]. cbn [negb].
  destruct (required_bits_loop 64 x 1) as [r [H1 H2]]; try lia.
  change (S 64) with 65%nat in H1. rewrite H1. rewrite H2. f_equal. lia.
Qed.
