(* Extraction of the C20 executable model (ExtrOcamlBasic only; Z/positive/nat stay inductive types).
   coqc runs with cwd = /verif/coq (coq_makefile), so the output lands in coq/extracted/. *)
From Coq Require Import ZArith List Extraction ExtrOcamlBasic.
From Kenlm Require Import Base.Mem Base.Fuel Gen.BitPacking Gen.SortedUniform Gen.ProbingMod C20.ProbingModel C20.SearchModel C20.ArrayModel C20.MiddleModel C03.BhikshaModel.
Extraction Language OCaml.
Extraction "extracted/c20_model.ml"
  wrap ReadInt57 WriteInt57 ReadInt25 WriteInt25 ReadFloat32 WriteFloat32 ReadNonPositiveFloat31
  WriteNonPositiveFloat31 SetSign UnsetSign RequiredBits Pivot32_Calc Power2Mod_RoundBuckets DivMod_RoundBuckets
  ideal_of next_of find insert find_or_insert double_cells auto_find_or_insert auto_find empty_cells threshold
  bitpacked_base_size bounded_find binary_find sorted_uniform_find Pivot64_Calc Z_of_bytes bytes_of_Z
  bits_needed mid_inserts mid_finish mid_find midA_inserts midA_finish midA_find inline_bits array_count.
