(* C20/MiddleModel.v -- executable model of lm/trie.cc BitPackedMiddle<DontBhiksha> over the GENERATED bit-packing routines:
   Insert (word, then the payload written through the address Insert returns, then the next pointer), FinishedLoading (the
   closing record's next pointer), Find (FindBitPacked = BoundedSortedUniformFind over the word fields with Pivot32, then the
   payload address and the child range read from this record's and the following record's next pointer).  No proofs here. *)
From Coq Require Import ZArith List Bool.
From Kenlm Require Import Base.Mem Gen.BitPacking Gen.SortedUniform C20.SearchModel C03.BhikshaModel.
Import ListNotations.
Local Open Scope Z_scope.

Record mid := { m_base : Z; m_wb : Z; m_qb : Z; m_nb : Z; m_max_vocab : Z }.
Definition m_tb (m : mid) : Z := m_wb m + m_qb m + m_nb m.

(* Insert(word); WriteInt57(returned address, payload); next = next_source->InsertIndex() *)
Definition mid_insert (m : mid) (mem : Z) (i : Z) (rec : Z * Z * Z) : Z :=
  let '(word, payload, next) := rec in
  let at_ := i * m_tb m in
  let mem1 := WriteInt57 mem (m_base m) at_ (m_wb m) word in
  let mem2 := WriteInt57 mem1 (m_base m) (at_ + m_wb m) (m_qb m) payload in
  WriteInt57 mem2 (m_base m) (at_ + m_wb m + m_qb m) (m_nb m) next.

Fixpoint mid_inserts (m : mid) (mem : Z) (i : Z) (recs : list (Z * Z * Z)) : Z :=
  match recs with
  | [] => mem
  | r :: rest => mid_inserts m (mid_insert m mem i r) (i + 1) rest
  end.

(* FinishedLoading(next_end): at insert_index * total_bits + (total_bits - inline bits) *)
Definition mid_finish (m : mid) (mem : Z) (n next_end : Z) : Z :=
  WriteInt57 mem (m_base m) (n * m_tb m + (m_tb m - m_nb m)) (m_nb m) next_end.

Definition mid_key (m : mid) (mem : Z) (i : Z) : Z := ReadInt57 mem (m_base m) (i * m_tb m) (m_wb m) (Z.ones (m_wb m)).

(* Find(word, range): None = out of fuel; Some None = not found; Some (Some (index, payload, child begin, child end)) *)
Definition mid_find (m : mid) (fuel : nat) (mem : Z) (word b e : Z) : option (option (Z * Z * Z * Z)) :=
  match bounded_find (mid_key m mem) Pivot32_Calc fuel (b - 1) 0 e (m_max_vocab m) word with
  | None => None
  | Some None => Some None
  | Some (Some p) =>
      let at_ := p * m_tb m + m_wb m in
      Some (Some (p,
                  ReadInt57 mem (m_base m) at_ (m_qb m) (Z.ones (m_qb m)),
                  ReadInt57 mem (m_base m) (at_ + m_qb m) (m_nb m) (Z.ones (m_nb m)),
                  ReadInt57 mem (m_base m) (at_ + m_qb m + m_tb m) (m_nb m) (Z.ones (m_nb m))))
  end.

(* ---- BitPackedMiddle<ArrayBhiksha>: the next field of a record holds only the low m_nb bits of the pointer (ArrayBhiksha::WriteNext:
   `value & mask` inline, and the offset table filled for `value >> bits`); ReadNext rebuilds both ends of the child range from the
   offset table (C03/BhikshaModel.v) and the inline bits of this and the following record.  State = (memory, offset slots 1..). *)
Definition midA_insert (m : mid) (st : Z * list Z) (i : Z) (rec : Z * Z * Z) : Z * list Z :=
  let '(mem, offs) := st in
  let '(word, payload, next) := rec in
  (mid_insert m mem i (word, payload, Z.land next (Z.ones (m_nb m))), fst (write_next (m_nb m) (offs, []) i next)).

Fixpoint midA_inserts (m : mid) (st : Z * list Z) (i : Z) (recs : list (Z * Z * Z)) : Z * list Z :=
  match recs with
  | [] => st
  | r :: rest => midA_inserts m (midA_insert m st i r) (i + 1) rest
  end.

(* BitPackedMiddle::FinishedLoading: WriteNext(insert_index, next_end), then ArrayBhiksha::FinishedLoading sets offset slot 0 to 0 *)
Definition midA_finish (m : mid) (st : Z * list Z) (n next_end : Z) : Z * list Z :=
  let '(mem, offs) := st in
  (mid_finish m mem n (Z.land next_end (Z.ones (m_nb m))), 0 :: fst (write_next (m_nb m) (offs, []) n next_end)).

(* Find: the same search; the child range through ArrayBhiksha::ReadNext: the offset table and the inline bits of this and the following record *)
Definition midA_find (m : mid) (fuel : nat) (st : Z * list Z) (word b e : Z) : option (option (Z * Z * Z * Z)) :=
  let '(mem, offs) := st in
  match mid_find m fuel mem word b e with
  | Some (Some (p, pay, lowa, lowb)) =>
      let '(cb, ce) := read_next2 (m_nb m) offs p lowa lowb in
      Some (Some (p, pay, cb, ce))
  | Some None => Some None
  | None => None
  end.
