(* C20/ArrayModel.v -- the bit-packed record arrays of lm/trie.cc (BitPacked::BaseSize / BaseInit / Insert):
   record i of an array with `entries` records (+1 for the closing next-pointer record) occupies the bits
   [i*tb, (i+1)*tb) with tb = RequiredBits(max_vocab) + remaining_bits; the word goes first. *)
From Coq Require Import ZArith Lia.
From Kenlm Require Import Base.Mem Gen.BitPacking C20.BitPackingProofs.
Local Open Scope Z_scope.

Definition bits_needed (x : Z) : Z := if x =? 0 then 0 else Z.log2 x + 1.     (* = RequiredBits, C20_required_bits *)

(* BaseSize: ((1 + entries) * total_bits + 7) / 8 + sizeof(uint64_t) *)
Definition bitpacked_base_size (entries max_vocab remaining : Z) : Z :=
  ((1 + entries) * (bits_needed max_vocab + remaining) + 7) / 8 + 8.

(* every 64-bit access the read/write routines make for a field of record i <= entries (the closing record
   included) stays inside the BaseSize bytes: the word at the record's first bit and a payload anywhere in it *)
Lemma record_access_in_bounds : forall entries max_vocab remaining i off,
  0 <= entries -> 0 <= max_vocab -> 0 <= remaining -> 0 <= i <= entries ->
  0 <= off < bits_needed max_vocab + remaining ->
  let tb := bits_needed max_vocab + remaining in
  (i * tb + off) / 8 + 8 <= bitpacked_base_size entries max_vocab remaining.
Proof.
  intros entries max_vocab remaining i off He Hm Hr Hi Ho tb. unfold bitpacked_base_size. fold tb.
  assert (Htb : 0 < tb) by lia.
  assert (H1 : i * tb + off < (1 + entries) * tb) by nia.
  assert (H2 : (i * tb + off) / 8 <= ((1 + entries) * tb + 7) / 8) by (apply Z.div_le_mono; lia).
  lia.
Qed.

(* distinct records never overlap *)
Lemma records_disjoint : forall tb i j, 0 <= tb -> 0 <= i -> i < j -> i * tb + tb <= j * tb.
Proof. intros. nia. Qed.
