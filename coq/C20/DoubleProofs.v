(* C20/DoubleProofs.v -- ProbingHashTable::Double (in place) preserves the map and re-establishes the probing
   invariant for the doubled bucket count, including entries that had wrapped around the end.
   Model: ProbingModel.double_cells (take_rolled / reinsert / insert_all). *)
From Coq Require Import ZArith List Bool Arith Lia.
From Kenlm Require Import C20.ProbingModel C20.ProbingProofs.
Import ListNotations.

Section Double.
  Variable n : nat.                      (* old bucket count *)
  Hypothesis Hn : 0 < n.
  Let N2 := 2 * n.
  Variable ideal1 : Z -> nat.            (* Ideal() before Double *)
  Variable ideal2 : Z -> nat.            (* Ideal() after mod_.Double() *)
  Hypothesis ideal1_lt : forall k, ideal1 k < n.
  Hypothesis ideal2_rel : forall k, ideal2 k = ideal1 k \/ ideal2 k = ideal1 k + n.
  Variable next2 : nat -> nat.
  Hypothesis next2_is : forall i, i < N2 -> next2 i = nxt N2 i.

  Lemma ideal2_lt : forall k, ideal2 k < N2.
  Proof. intros k. pose proof (ideal1_lt k). destruct (ideal2_rel k); unfold N2; lia. Qed.

  Local Notation key_at := (key_at).
  Local Open Scope Z_scope.
  Definition occupied (c : list cell) (p : nat) : Prop := key_at c p <> 0.

  (* chain of the new table: everything between the ideal bucket and the cell is occupied *)
  Definition chain2 (c : list cell) (p : nat) : Prop :=
    forall d, (d < dist N2 (ideal2 (key_at c p)) p)%nat -> occupied c (pos N2 (ideal2 (key_at c p)) d).

  (* loop invariant of the second loop at index i *)
  Record LI (i : nat) (c : list cell) : Prop := {
    li_len : length c = N2;
    (* settled cells: below i, or in the new half *)
    li_upper : forall p, (n <= p < N2)%nat -> occupied c p -> (n <= ideal2 (key_at c p) <= p)%nat /\ chain2 c p;
    li_lower : forall p, (p < i)%nat -> occupied c p ->
                 ((ideal2 (key_at c p) <= p)%nat \/ (n <= ideal2 (key_at c p))%nat) /\ chain2 c p;
    (* pending cells keep the old layout, truncated at i *)
    li_pending : forall p, (i <= p < n)%nat -> occupied c p ->
                 (ideal1 (key_at c p) <= p)%nat /\
                 forall q, (Nat.max (ideal1 (key_at c p)) i <= q < p)%nat -> occupied c q;
    li_distinct : forall p q, (p < N2)%nat -> (q < N2)%nat -> occupied c p -> key_at c p = key_at c q -> p = q
  }.

  Lemma key_at_setc_same : forall c i x, (i < length c)%nat -> key_at (setc c i x) i = fst x.
  Proof. intros. unfold ProbingProofs.key_at. rewrite getc_setc_same by assumption. reflexivity. Qed.
  Lemma key_at_setc_other : forall c i j x, i <> j -> key_at (setc c i x) j = key_at c j.
  Proof. intros. unfold ProbingProofs.key_at. rewrite getc_setc_other by assumption. reflexivity. Qed.

  (* an empty cell at i: just move on *)
  Lemma li_skip : forall i c, (i < n)%nat -> LI i c -> key_at c i = 0 -> LI (S i) c.
  Proof.
    intros i c Hi L Hz. destruct L as [L0 L1 L2 L3 L4]. constructor; try assumption.
    - intros p Hp Ho. destruct (Nat.eq_dec p i) as [->|Hne]; [unfold occupied in Ho; congruence|]. apply L2; [lia|exact Ho].
    - intros p Hp Ho. destruct (L3 p ltac:(lia) Ho) as [H1 H2]. split; [exact H1|]. intros q Hq. apply H2. lia.
  Qed.

  Lemma N2_pos : (0 < N2)%nat. Proof. unfold N2. lia. Qed.

  (* an occupied cell at i: take the entry out, re-insert it; it lands at or before i, or in the new half *)
  Lemma li_move : forall i c k v, (i < n)%nat -> LI i c -> getc c i = (k, v) -> k <> 0 ->
    exists q, unchecked_insert N2 ideal2 next2 (setc c i (0, v)) (k, v) = Some (setc (setc c i (0, v)) q (k, v)) /\
              key_at (setc c i (0, v)) q = 0 /\ (q < N2)%nat /\
              LI (S i) (setc (setc c i (0, v)) q (k, v)).
  Proof.
    intros i c k v Hi L Hg Hk. destruct L as [L0 L1 L2 L3 L4].
    assert (Hki : key_at c i = k) by (unfold ProbingProofs.key_at; rewrite Hg; reflexivity).
    assert (Hoi : occupied c i) by (unfold occupied; rewrite Hki; exact Hk).
    destruct (L3 i ltac:(lia) Hoi) as [Ha _]. rewrite Hki in Ha.
    set (c' := setc c i (0, v)).
    assert (Hlen' : length c' = N2) by (unfold c'; rewrite setc_length; exact L0).
    assert (HiN : (i < N2)%nat) by (unfold N2; lia).
    assert (K'i : key_at c' i = 0) by (unfold c'; rewrite key_at_setc_same by lia; reflexivity).
    assert (K'o : forall p, p <> i -> key_at c' p = key_at c p) by (intros p Hp; unfold c'; apply key_at_setc_other; congruence).
    destruct (probe_empty_first N2 N2_pos next2 next2_is c' (ideal2 k) (ideal2_lt k) (ex_intro _ i (conj HiN K'i)))
      as [e [He [Hprobe [Hqz Hbefore]]]].
    set (q := pos N2 (ideal2 k) e) in *.
    assert (HqN : (q < N2)%nat) by (apply pos_lt'; [apply ideal2_lt|exact He]).
    (* the empty cell i bounds how far the probe goes *)
    assert (Hebound : (e <= dist N2 (ideal2 k) i)%nat).
    { destruct (Nat.le_gt_cases e (dist N2 (ideal2 k) i)) as [H|H]; [exact H|]. exfalso.
      apply (Hbefore _ H). rewrite pos_dist by (try apply ideal2_lt; exact HiN). exact K'i. }
    pose proof (ideal1_lt k) as Ha1.
    assert (Hshape : (q <= i /\ (ideal2 k <= q \/ n <= ideal2 k))%nat \/ (n <= ideal2 k <= q)%nat).
    { clear Hbefore Hprobe Hqz. unfold q, pos, dist, N2 in *. destruct (ideal2_rel k) as [E|E]; rewrite E in *.
      - destruct (Nat.leb_spec (ideal1 k) i); [|lia].
        destruct (Nat.ltb_spec (ideal1 k + e) (2 * n)); [left; lia|lia].
      - destruct (Nat.leb_spec (ideal1 k + n) i); [lia|].
        destruct (Nat.ltb_spec (ideal1 k + n + e) (2 * n)); [right; lia|left; lia]. }
    exists q. split; [|split; [exact Hqz|split; [exact HqN|]]].
    { unfold unchecked_insert. cbn [fst]. fold c'. rewrite Hprobe. reflexivity. }
    set (c'' := setc c' q (k, v)).
    assert (K''q : key_at c'' q = k) by (unfold c''; rewrite key_at_setc_same by lia; reflexivity).
    assert (K''o : forall p, p <> q -> key_at c'' p = key_at c' p) by (intros p Hp; unfold c''; apply key_at_setc_other; congruence).
    assert (Kkeep : forall p, p <> i -> p <> q -> key_at c'' p = key_at c p) by (intros p H1 H2; rewrite K''o, K'o by assumption; reflexivity).
    assert (Omono : forall p, p <> i -> occupied c p -> occupied c'' p).
    { intros p Hp Ho. unfold occupied in *. destruct (Nat.eq_dec p q) as [->|Hne]; [rewrite K''q; exact Hk|rewrite Kkeep by assumption; exact Ho]. }
    assert (Oback : forall p, p <> q -> occupied c'' p -> p <> i /\ occupied c p).
    { intros p Hp Ho. unfold occupied in *. rewrite K''o in Ho by exact Hp.
      destruct (Nat.eq_dec p i) as [->|Hne]; [congruence|]. split; [exact Hne|]. rewrite <- K'o by exact Hne. exact Ho. }
    (* the new cell's chain *)
    assert (Cq : chain2 c'' q).
    { unfold chain2. rewrite K''q. unfold q at 1. rewrite dist_pos by (try apply ideal2_lt; exact He).
      intros d Hd. unfold occupied. 
      assert (pos N2 (ideal2 k) d <> q).
      { unfold q. intros Heq. apply pos_inj in Heq; try apply ideal2_lt; lia. }
      rewrite K''o by exact H. apply Hbefore. exact Hd. }
    (* chains of settled cells avoid i, so they survive *)
    assert (Ctransfer : forall p, (p < N2)%nat -> p <> i -> p <> q -> occupied c p -> chain2 c p ->
              ((n <= ideal2 (key_at c p) <= p)%nat \/ ((p < i)%nat /\ ((ideal2 (key_at c p) <= p)%nat \/ (n <= ideal2 (key_at c p))%nat))) ->
              chain2 c'' p).
    { intros p HpN Hpi Hpq Ho Hc Hsh. unfold chain2 in *. rewrite Kkeep by assumption. intros d Hd.
      apply Omono; [|apply Hc; exact Hd].
      pose proof (ideal2_lt (key_at c p)) as HI. clear - Hd Hsh HI Hpi Hi HpN. unfold pos, dist, N2 in *.
      destruct (Nat.leb_spec (ideal2 (key_at c p)) p);
        destruct (Nat.ltb_spec (ideal2 (key_at c p) + d) (2 * n)); lia. }
    constructor.
    - unfold c''. rewrite setc_length. exact Hlen'.
    - intros p Hp Ho. destruct (Nat.eq_dec p q) as [->|Hne].
      + rewrite K''q. split; [|exact Cq]. destruct Hshape as [[H1 _]|H2]; lia.
      + destruct (Oback p Hne Ho) as [Hpi Hoc]. destruct (L1 p Hp Hoc) as [Hs Hc].
        rewrite Kkeep by assumption. split; [exact Hs|]. apply Ctransfer; try assumption; [lia|]. left. exact Hs.
    - intros p Hp Ho. destruct (Nat.eq_dec p q) as [->|Hne].
      + rewrite K''q. split; [|exact Cq]. destruct Hshape as [[_ H1]|H2]; [exact H1|lia].
      + destruct (Oback p Hne Ho) as [Hpi Hoc]. assert (Hlt : (p < i)%nat) by lia.
        destruct (L2 p Hlt Hoc) as [Hs Hc]. rewrite Kkeep by assumption. split; [exact Hs|].
        apply Ctransfer; try assumption; [unfold N2; lia|]. right. split; assumption.
    - intros p Hp Ho.
      assert (Hpq : p <> q) by (destruct Hshape as [[H1 _]|H2]; lia).
      destruct (Oback p Hpq Ho) as [Hpi Hoc]. destruct (L3 p ltac:(lia) Hoc) as [H1 H2].
      rewrite Kkeep by assumption. split; [exact H1|]. intros x Hx. apply Omono; [lia|]. apply H2. lia.
    - intros p p' Hp Hp' Ho Heq.
      destruct (Nat.eq_dec p q) as [->|Hpq]; destruct (Nat.eq_dec p' q) as [->|Hp'q]; auto.
      + rewrite K''q, K''o in Heq by assumption. exfalso.
        destruct (Nat.eq_dec p' i) as [->|Hp'i]; [congruence|]. rewrite K'o in Heq by assumption.
        assert (i = p') by (apply L4; try assumption; congruence). congruence.
      + destruct (Oback p Hpq Ho) as [Hpi Hoc]. rewrite K''q, Kkeep in Heq by assumption. exfalso.
        assert (p = i) by (apply L4; try assumption; congruence). congruence.
      + destruct (Oback p Hpq Ho) as [Hpi Hoc]. rewrite Kkeep in Heq by assumption. rewrite K''o in Heq by assumption.
        destruct (Nat.eq_dec p' i) as [->|Hp'i]; [unfold occupied in Hoc; congruence|].
        rewrite K'o in Heq by assumption. apply L4; assumption.
  Qed.

  (* ---- contents and counts ------------------------------------------------------------------ *)
  Definition holds (c : list cell) (k v : Z) : Prop := exists p, (p < length c)%nat /\ getc c p = (k, v).

  Lemma move_contents : forall c i q k0 v0 k v, (i < length c)%nat -> (q < length c)%nat -> getc c i = (k0, v0) ->
    key_at (setc c i (0, v0)) q = 0 -> k <> 0 ->
    (holds (setc (setc c i (0, v0)) q (k0, v0)) k v <-> holds c k v).
  Proof.
    intros c i q k0 v0 k v Hi Hq Hg Hz Hk. unfold holds. rewrite !setc_length. split.
    - intros [p [Hp Hgp]]. destruct (Nat.eq_dec p q) as [->|Hpq].
      + rewrite getc_setc_same in Hgp by (rewrite setc_length; exact Hq). exists i. split; [exact Hi|]. congruence.
      + rewrite getc_setc_other in Hgp by congruence. destruct (Nat.eq_dec p i) as [->|Hpi].
        * rewrite getc_setc_same in Hgp by exact Hi. congruence.
        * rewrite getc_setc_other in Hgp by congruence. exists p. split; assumption.
    - intros [p [Hp Hgp]]. destruct (Nat.eq_dec p i) as [->|Hpi].
      + exists q. split; [exact Hq|]. rewrite getc_setc_same by (rewrite setc_length; exact Hq). congruence.
      + assert (Hpq : p <> q).
        { intros ->. unfold ProbingProofs.key_at in Hz. rewrite getc_setc_other in Hz by congruence. rewrite Hgp in Hz. cbn in Hz. congruence. }
        exists p. split; [exact Hp|]. rewrite !getc_setc_other by congruence. exact Hgp.
  Qed.

  Lemma occ_count_clear : forall c i v, (i < length c)%nat -> fst (getc c i) <> 0 -> S (occ_count (setc c i (0, v))) = occ_count c.
  Proof.
    unfold occ_count, getc. induction c as [|y r IH]; intros [|i] v Hi Hz; simpl in *; try lia.
    - assert (occ y = true) by (unfold occ; apply negb_true_iff; apply Z.eqb_neq; exact Hz).
      rewrite H. unfold occ at 1. cbn. reflexivity.
    - destruct (occ y); simpl; rewrite <- (IH i v) by (try lia; exact Hz); reflexivity.
  Qed.

  (* ---- the second loop -------------------------------------------------------------------- *)
  Lemma reinsert_spec : forall k i c, (i + k = n)%nat -> LI i c ->
    exists c2, reinsert N2 ideal2 next2 k i c = Some c2 /\ LI n c2 /\
               (forall key v, key <> 0 -> (holds c2 key v <-> holds c key v)) /\ occ_count c2 = occ_count c.
  Proof.
    induction k as [|k IH]; intros i c Hik L.
    - exists c. cbn [reinsert]. replace n with i by lia. split; [reflexivity|]. split; [exact L|]. split; [intros; reflexivity|reflexivity].
    - cbn [reinsert]. destruct (getc c i) as [k0 v0] eqn:Hg. cbn [fst snd].
      pose proof (li_len _ _ L) as Hlen.
      destruct (Z.eqb_spec k0 0) as [->|Hk0].
      + apply IH; [lia|]. apply li_skip; [lia|exact L|]. unfold ProbingProofs.key_at. rewrite Hg. reflexivity.
      + destruct (li_move i c k0 v0 ltac:(lia) L Hg Hk0) as [q [Hins [Hqz [HqN L']]]].
        rewrite Hins.
        destruct (IH (S i) _ ltac:(lia) L') as [c2 [H1 [H2 [H3 H4]]]].
        exists c2. split; [exact H1|]. split; [exact H2|]. split.
        * intros key v Hkey. rewrite H3 by exact Hkey.
          apply move_contents; try assumption; unfold N2 in *; lia.
        * rewrite H4. rewrite occ_count_setc; cbn [fst]; try assumption.
          -- apply occ_count_clear; [unfold N2 in *; lia|]. rewrite Hg. exact Hk0.
          -- rewrite setc_length. unfold N2 in *. lia.
  Qed.

  (* after the loop every cell is settled: the probing invariant of the doubled table *)
  Lemma li_final : forall c, LI n c -> inv N2 ideal2 c.
  Proof.
    intros c L. destruct L as [L0 L1 L2 L3 L4]. constructor; [exact L0| |exact L4].
    intros p Hp Ho d Hd. destruct (Nat.lt_ge_cases p n) as [Hlt|Hge].
    - exact (proj2 (L2 p Hlt Ho) d Hd).
    - exact (proj2 (L1 p (conj Hge Hp) Ho) d Hd).
  Qed.

  (* ---- the first loop: the roll-over prefix is set aside ------------------------------------ *)
  Fixpoint run_len (c : list cell) : nat :=
    match c with x :: r => if fst x =? 0 then O else S (run_len r) | [] => O end.
  Definition zk (x : cell) : cell := (0, snd x).

  Lemma take_rolled_spec : forall old ext limit, (run_len old <= limit)%nat -> (run_len old < length old)%nat ->
    take_rolled (old ++ ext) limit =
    (firstn (run_len old) old, map zk (firstn (run_len old) old) ++ skipn (run_len old) old ++ ext).
  Proof.
    induction old as [|x r IH]; intros ext limit Hl Hr; [simpl in Hr; lia|].
    cbn [run_len] in *. destruct (Z.eqb_spec (fst x) 0) as [Hz|Hnz].
    - cbn [firstn map skipn app]. destruct limit; cbn [take_rolled app]; [reflexivity|]. rewrite (proj2 (Z.eqb_eq _ _) Hz). reflexivity.
    - destruct limit as [|limit]; [lia|]. cbn [app take_rolled]. rewrite (proj2 (Z.eqb_neq _ _) Hnz).
      cbn [length] in Hr. rewrite (IH ext limit) by lia. cbn [firstn map skipn app]. reflexivity.
  Qed.

  Lemma run_len_le : forall c, (run_len c <= length c)%nat.
  Proof. induction c as [|x r IH]; cbn [run_len length]; [lia|]. destruct (fst x =? 0); lia. Qed.
  Lemma run_len_occupied : forall c p, (p < run_len c)%nat -> fst (getc c p) <> 0.
  Proof.
    unfold getc. induction c as [|x r IH]; intros p Hp; cbn [run_len] in Hp; [lia|].
    destruct (Z.eqb_spec (fst x) 0); [lia|]. destruct p; cbn [nth]; [assumption|apply IH; lia].
  Qed.
  Lemma run_len_stop : forall c, (run_len c < length c)%nat -> fst (getc c (run_len c)) = 0.
  Proof.
    unfold getc. induction c as [|x r IH]; intros H; cbn [run_len length] in *; [lia|].
    destruct (Z.eqb_spec (fst x) 0); [cbn [nth]; assumption|]. cbn [nth]. apply IH. lia.
  Qed.
  Lemma run_len_exists_empty : forall c j, (j < length c)%nat -> fst (getc c j) = 0 -> (run_len c <= j)%nat.
  Proof.
    intros c j Hj Hz. destruct (Nat.le_gt_cases (run_len c) j); [assumption|]. exfalso. apply (run_len_occupied c j H). exact Hz.
  Qed.

  Lemma nth_skipn' : forall (A : Type) (l : list A) k i d, nth i (skipn k l) d = nth (k + i) l d.
  Proof.
    intros A l k. revert l. induction k as [|k IH]; intros l i d; [reflexivity|].
    destruct l as [|a l]; [destruct i; reflexivity|]. cbn [skipn Nat.add nth]. apply IH.
  Qed.

  Variable old : list cell.
  Hypothesis old_inv : inv n ideal1 old.
  Hypothesis old_empty : exists j, (j < n)%nat /\ key_at old j = 0.
  Let r := run_len old.
  Let c0 := old ++ empty_cells n.
  Let c1 := map zk (firstn r old) ++ skipn r old ++ empty_cells n.

  Lemma old_len : length old = n. Proof. exact (inv_len _ _ _ old_inv). Qed.
  Lemma r_lt : (r < n)%nat.
  Proof. destruct old_empty as [j [Hj Hz]]. unfold r. pose proof (run_len_exists_empty old j ltac:(rewrite old_len; exact Hj) Hz). lia. Qed.

  Lemma take_rolled_c0 : take_rolled c0 n = (firstn r old, c1).
  Proof. unfold c0, c1, r. apply take_rolled_spec; [pose proof r_lt; unfold r in *; lia|rewrite old_len; exact r_lt]. Qed.

  Lemma c1_len : length c1 = N2.
  Proof.
    unfold c1. rewrite !app_length, map_length, firstn_length, skipn_length. unfold empty_cells. rewrite repeat_length, old_len.
    pose proof r_lt. unfold N2. lia.
  Qed.

  Lemma getc_c1_low : forall p, (p < r)%nat -> fst (getc c1 p) = 0.
  Proof.
    intros p Hp. unfold c1, getc. rewrite app_nth1 by (rewrite map_length, firstn_length, old_len; pose proof r_lt; lia).
    rewrite (nth_indep _ (0, 0) (zk (0, 0))) by (rewrite map_length, firstn_length, old_len; pose proof r_lt; lia).
    rewrite map_nth. reflexivity.
  Qed.
  Lemma getc_c1_mid : forall p, (r <= p < n)%nat -> getc c1 p = getc old p.
  Proof.
    intros p Hp. unfold c1, getc. pose proof r_lt.
    rewrite app_nth2 by (rewrite map_length, firstn_length, old_len; lia).
    rewrite map_length, firstn_length, old_len. replace (Nat.min r n) with r by lia.
    rewrite app_nth1 by (rewrite skipn_length, old_len; lia).
    rewrite nth_skipn'. f_equal. lia.
  Qed.
  Lemma getc_c1_high : forall p, (n <= p)%nat -> getc c1 p = (0, 0).
  Proof.
    intros p Hp. unfold c1, getc. pose proof r_lt.
    rewrite app_nth2 by (rewrite map_length, firstn_length, old_len; lia).
    rewrite map_length, firstn_length, old_len. replace (Nat.min r n) with r by lia.
    rewrite app_nth2 by (rewrite skipn_length, old_len; lia). rewrite skipn_length, old_len.
    unfold empty_cells. destruct (Nat.lt_ge_cases (p - r - (n - r)) n) as [Hlt|Hge].
    - apply nth_repeat.
    - apply nth_overflow. rewrite repeat_length. lia.
  Qed.

  Lemma li_init : LI 0 c1.
  Proof.
    pose proof r_lt as Hr. pose proof old_len as Hol.
    assert (Hrz : key_at old r = 0) by (unfold ProbingProofs.key_at, r; apply run_len_stop; rewrite Hol; exact Hr).
    assert (Kmid : forall p, (r <= p < n)%nat -> key_at c1 p = key_at old p) by (intros p Hp; unfold ProbingProofs.key_at; rewrite getc_c1_mid by exact Hp; reflexivity).
    assert (Occ : forall p, (p < N2)%nat -> occupied c1 p -> (r < p < n)%nat /\ key_at c1 p = key_at old p /\ key_at old p <> 0).
    { intros p Hp Ho. unfold occupied in Ho. destruct (Nat.lt_ge_cases p r) as [H1|H1].
      - exfalso. apply Ho. unfold ProbingProofs.key_at. apply getc_c1_low. exact H1.
      - destruct (Nat.lt_ge_cases p n) as [H2|H2].
        + rewrite Kmid in Ho by lia. destruct (Nat.eq_dec p r) as [->|Hne]; [congruence|]. split; [lia|]. split; [apply Kmid; lia|exact Ho].
        + exfalso. apply Ho. unfold ProbingProofs.key_at. rewrite getc_c1_high by exact H2. reflexivity. }
    constructor.
    - exact c1_len.
    - intros p Hp Ho. destruct (Occ p ltac:(lia) Ho) as [H _]. lia.
    - intros p Hp. lia.
    - intros p Hp Ho. destruct (Occ p ltac:(unfold N2; lia) Ho) as [Hrp [Hk Hnz]]. rewrite Hk.
      pose proof (ideal1_lt (key_at old p)) as Ha.
      pose proof (inv_chain _ _ _ old_inv p ltac:(lia) Hnz) as Hch.
      (* the entry is not wrapped: otherwise its chain would pass the empty cell r *)
      assert (Hle : (ideal1 (key_at old p) <= p)%nat).
      { destruct (Nat.le_gt_cases (ideal1 (key_at old p)) p) as [H|H]; [exact H|]. exfalso.
        specialize (Hch (n - ideal1 (key_at old p) + r)%nat).
        unfold dist, pos in Hch.
        destruct (Nat.leb_spec (ideal1 (key_at old p)) p); [lia|].
        destruct (Nat.ltb_spec (ideal1 (key_at old p) + (n - ideal1 (key_at old p) + r)) n); [lia|].
        replace (ideal1 (key_at old p) + (n - ideal1 (key_at old p) + r) - n)%nat with r in Hch by lia.
        apply Hch; [lia|exact Hrz]. }
      split; [exact Hle|]. intros q Hq.
      assert (Hoq : key_at old q <> 0).
      { specialize (Hch (q - ideal1 (key_at old p))%nat). unfold dist, pos in Hch.
        destruct (Nat.leb_spec (ideal1 (key_at old p)) p); [|lia].
        destruct (Nat.ltb_spec (ideal1 (key_at old p) + (q - ideal1 (key_at old p))) n); [|lia].
        replace (ideal1 (key_at old p) + (q - ideal1 (key_at old p)))%nat with q in Hch by lia. apply Hch. lia. }
      assert (q <> r) by congruence.
      assert (r < ideal1 (key_at old p))%nat.
      { destruct (Nat.le_gt_cases (ideal1 (key_at old p)) r) as [H1|H1]; [|exact H1]. exfalso.
        specialize (Hch (r - ideal1 (key_at old p))%nat). unfold dist, pos in Hch.
        destruct (Nat.leb_spec (ideal1 (key_at old p)) p); [|lia].
        destruct (Nat.ltb_spec (ideal1 (key_at old p) + (r - ideal1 (key_at old p))) n); [|lia].
        replace (ideal1 (key_at old p) + (r - ideal1 (key_at old p)))%nat with r in Hch by lia. apply Hch; [lia|exact Hrz]. }
      unfold occupied. rewrite Kmid by lia. exact Hoq.
    - intros p q Hp Hq Ho Heq. destruct (Occ p Hp Ho) as [Hrp [Hk Hnz]].
      assert (Hoq : occupied c1 q) by (unfold occupied in *; rewrite <- Heq; exact Ho).
      destruct (Occ q Hq Hoq) as [Hrq [Hkq _]].
      apply (inv_distinct _ _ _ old_inv); [lia|lia|exact Hnz|congruence].
  Qed.

  (* ---- contents of the table after the first loop -------------------------------------------- *)
  Lemma occ_count_app : forall a b, occ_count (a ++ b) = (occ_count a + occ_count b)%nat.
  Proof. intros. unfold occ_count. rewrite filter_app, app_length. reflexivity. Qed.
  Lemma occ_count_zk : forall l, occ_count (map zk l) = 0%nat.
  Proof. induction l as [|x l IH]; [reflexivity|]. unfold occ_count in *. cbn [map filter]. unfold occ at 1. cbn. exact IH. Qed.
  Lemma occ_count_run : forall c, occ_count (firstn (run_len c) c) = run_len c.
  Proof.
    induction c as [|x l IH]; [reflexivity|]. cbn [run_len]. destruct (Z.eqb_spec (fst x) 0) as [Hz|Hnz]; [reflexivity|].
    cbn [firstn]. unfold occ_count in *. cbn [filter]. unfold occ at 1. rewrite (proj2 (Z.eqb_neq _ _) Hnz). cbn [negb length]. rewrite IH. reflexivity.
  Qed.

  Lemma c1_count : (occ_count c1 + r = occ_count old)%nat.
  Proof.
    unfold c1. rewrite !occ_count_app, occ_count_zk.
    assert (H0 : occ_count (empty_cells n) = 0%nat) by (apply occ_count_repeat). rewrite H0.
    assert (Hsplit : occ_count old = (occ_count (firstn r old) + occ_count (skipn r old))%nat)
      by (rewrite <- occ_count_app, firstn_skipn; reflexivity).
    rewrite Hsplit. unfold r at 3. rewrite occ_count_run. fold r. lia.
  Qed.

  Lemma rolled_in : forall k v, In (k, v) (firstn r old) <-> exists p, (p < r)%nat /\ getc old p = (k, v).
  Proof.
    intros k v. pose proof r_lt. pose proof old_len. split.
    - intros Hin. destruct (In_nth _ _ (0, 0) Hin) as [p [Hp Hg]]. rewrite firstn_length in Hp.
      exists p. split; [lia|]. unfold getc. rewrite <- Hg. symmetry. rewrite <- (firstn_skipn r old) at 2.
      rewrite app_nth1 by (rewrite firstn_length; lia). reflexivity.
    - intros [p [Hp Hg]]. unfold getc in Hg. rewrite <- (firstn_skipn r old) in Hg.
      rewrite app_nth1 in Hg by (rewrite firstn_length; lia). rewrite <- Hg. apply nth_In. rewrite firstn_length. lia.
  Qed.

  Lemma c1_contents : forall k v, k <> 0 -> (holds old k v <-> holds c1 k v \/ In (k, v) (firstn r old)).
  Proof.
    intros k v Hk. pose proof r_lt. pose proof old_len as Hol. unfold holds. rewrite c1_len, Hol. split.
    - intros [p [Hp Hg]]. destruct (Nat.lt_ge_cases p r) as [H1|H1].
      + right. apply rolled_in. exists p. split; assumption.
      + left. exists p. split; [unfold N2; lia|]. rewrite getc_c1_mid by lia. exact Hg.
    - intros [[p [Hp Hg]]|Hin].
      + destruct (Nat.lt_ge_cases p r) as [H1|H1].
        * pose proof (getc_c1_low p H1) as Hz. rewrite Hg in Hz. cbn in Hz. congruence.
        * destruct (Nat.lt_ge_cases p n) as [H2|H2].
          -- exists p. split; [exact H2|]. rewrite <- getc_c1_mid by lia. exact Hg.
          -- rewrite getc_c1_high in Hg by exact H2. congruence.
      + apply rolled_in in Hin. destruct Hin as [p [Hp Hg]]. exists p. split; [lia|exact Hg].
  Qed.

  (* ---- the third loop: put the roll-over entries back ---------------------------------------- *)
  Lemma insert_all_spec : forall rolled c,
    inv N2 ideal2 c ->
    (forall kv, In kv rolled -> fst kv <> 0 /\ forall p, (p < N2)%nat -> key_at c p <> fst kv) ->
    NoDup (map fst rolled) ->
    (occ_count c + length rolled < N2)%nat ->
    exists c', insert_all N2 ideal2 next2 rolled (Some c) = Some c' /\ inv N2 ideal2 c' /\
               (forall k v, k <> 0 -> (holds c' k v <-> holds c k v \/ In (k, v) rolled)) /\
               occ_count c' = (occ_count c + length rolled)%nat.
  Proof.
    induction rolled as [|[k0 v0] rest IH]; intros c I Hfresh Hnd Hroom.
    - exists c. cbn. split; [reflexivity|]. split; [exact I|]. split; [intros; tauto|lia].
    - change (insert_all N2 ideal2 next2 ((k0, v0) :: rest) (Some c))
        with (insert_all N2 ideal2 next2 rest (unchecked_insert N2 ideal2 next2 c (k0, v0))).
      unfold unchecked_insert. cbn [fst].
      pose proof (inv_len _ _ _ I) as Hlen.
      destruct (Hfresh (k0, v0) (or_introl eq_refl)) as [Hk0 Hnew]. cbn [fst] in *.
      destruct (exists_empty c) as [j [Hj Hz]]; [cbn [length] in Hroom; lia|].
      destruct (probe_empty_first N2 N2_pos next2 next2_is c (ideal2 k0) (ideal2_lt k0)) as [e [He [Hprobe [Hqz Hbefore]]]].
      { exists j. split; [lia|exact Hz]. }
      rewrite Hprobe. set (q := pos N2 (ideal2 k0) e) in *.
      assert (HqN : (q < N2)%nat) by (apply pos_lt'; [apply ideal2_lt|exact He]).
      assert (I' : inv N2 ideal2 (setc c q (k0, v0))).
      { apply inv_insert; try assumption; [exact N2_pos|exact ideal2_lt]. }
      inversion Hnd as [|? ? Hnotin Hnd']. subst.
      destruct (IH (setc c q (k0, v0)) I') as [c' [H1 [H2 [H3 H4]]]].
      + intros kv Hin. destruct (Hfresh kv (or_intror Hin)) as [Hk Hfr]. split; [exact Hk|].
        intros p Hp. destruct (Nat.eq_dec p q) as [->|Hne].
        * rewrite key_at_setc_same by lia. cbn [fst]. intros Heq. apply Hnotin. rewrite Heq. apply in_map. exact Hin.
        * rewrite key_at_setc_other by congruence. apply Hfr. exact Hp.
      + exact Hnd'.
      + rewrite occ_count_setc; cbn [fst length] in *; try assumption; lia.
      + exists c'. split; [exact H1|]. split; [exact H2|]. split.
        * intros k v Hk. rewrite H3 by exact Hk. unfold holds. rewrite setc_length. cbn [In]. split.
          -- intros [[p [Hp Hg]]|Hin]; [|tauto]. destruct (Nat.eq_dec p q) as [->|Hne].
             ++ rewrite getc_setc_same in Hg by lia. right. left. exact Hg.
             ++ rewrite getc_setc_other in Hg by congruence. left. exists p. split; assumption.
          -- intros [[p [Hp Hg]]|[Heq|Hin]]; [| |tauto].
             ++ left. exists p. split; [exact Hp|]. assert (p <> q).
                { intros ->. unfold ProbingProofs.key_at in Hqz. rewrite Hg in Hqz. cbn in Hqz. congruence. }
                rewrite getc_setc_other by congruence. exact Hg.
             ++ left. exists q. split; [lia|]. rewrite getc_setc_same by lia. exact Heq.
        * rewrite H4. rewrite occ_count_setc; cbn [fst length]; try assumption; lia.
  Qed.

  Lemma rolled_nodup : NoDup (map fst (firstn r old)).
  Proof.
    pose proof r_lt as Hr. pose proof old_len as Hol.
    apply (NoDup_nth _ 0). intros i j Hi Hj Heq. rewrite map_length, firstn_length in Hi, Hj.
    assert (Hk : forall p, (p < r)%nat -> nth p (map fst (firstn r old)) 0 = key_at old p).
    { intros p Hp. change 0 with (fst (0, 0) : Z) at 1. rewrite map_nth. unfold ProbingProofs.key_at, getc.
      rewrite <- (firstn_skipn r old) at 2. rewrite app_nth1 by (rewrite firstn_length; lia). reflexivity. }
    rewrite !Hk in Heq by lia.
    apply (inv_distinct _ _ _ old_inv i j); try lia.
    apply (run_len_occupied old i). fold r. lia.
  Qed.

  (* ---- Double as a whole ---------------------------------------------------------------------- *)
  Theorem double_spec :
    exists c3,
      (let '(rolled, c1') := take_rolled c0 n in
       match reinsert N2 ideal2 next2 n O c1' with
       | None => None
       | Some c2 => insert_all N2 ideal2 next2 rolled (Some c2)
       end) = Some c3 /\
      inv N2 ideal2 c3 /\
      (forall k v, k <> 0 -> (holds c3 k v <-> holds old k v)) /\
      occ_count c3 = occ_count old.
  Proof.
    pose proof r_lt as Hr. pose proof old_len as Hol.
    rewrite take_rolled_c0.
    destruct (reinsert_spec n O c1 eq_refl li_init) as [c2 [R1 [R2 [R3 R4]]]].
    rewrite R1. pose proof (li_final c2 R2) as I2. pose proof (inv_len _ _ _ I2) as Hlen2.
    destruct (insert_all_spec (firstn r old) c2 I2) as [c3 [A1 [A2 [A3 A4]]]].
    - intros [k v] Hin. cbn [fst]. apply rolled_in in Hin. destruct Hin as [p0 [Hp0 Hg0]].
      assert (Hk : k <> 0).
      { pose proof (run_len_occupied old p0 Hp0) as Ho. rewrite Hg0 in Ho. exact Ho. }
      split; [exact Hk|]. intros p Hp Heq.
      assert (Hh : holds c2 k (snd (getc c2 p))).
      { exists p. split; [lia|]. rewrite <- Heq. unfold ProbingProofs.key_at. destruct (getc c2 p); reflexivity. }
      apply R3 in Hh; [|exact Hk]. destruct Hh as [p' [Hp' Hg']]. rewrite c1_len in Hp'.
      destruct (Nat.lt_ge_cases p' r) as [H1|H1].
      + pose proof (getc_c1_low p' H1) as Hz. rewrite Hg' in Hz. cbn in Hz. congruence.
      + destruct (Nat.lt_ge_cases p' n) as [H2|H2].
        * rewrite getc_c1_mid in Hg' by lia.
          assert (p0 = p'); [|lia].
          apply (inv_distinct _ _ _ old_inv p0 p'); try lia; unfold ProbingProofs.key_at; rewrite Hg0; [exact Hk|].
          rewrite Hg'. reflexivity.
        * rewrite getc_c1_high in Hg' by exact H2. congruence.
    - exact rolled_nodup.
    - rewrite R4, firstn_length. pose proof c1_count. pose proof (occ_count_le old). unfold N2. lia.
    - exists c3. split; [exact A1|]. split; [exact A2|]. split.
      + intros k v Hk. rewrite A3 by exact Hk. rewrite R3 by exact Hk. symmetry. apply c1_contents. exact Hk.
      + rewrite A4, R4, firstn_length. pose proof c1_count. lia.
  Qed.
End Double.

(* ---- the two mod policies ---------------------------------------------------------------------- *)
Lemma mod_double : forall h n : Z, (0 < n)%Z -> (h mod (n * 2) = h mod n \/ h mod (n * 2) = h mod n + n)%Z.
Proof.
  intros h n Hn. rewrite Z.rem_mul_r by lia.
  pose proof (Z.mod_pos_bound (h / n) 2 ltac:(lia)) as Hb.
  assert (Hc : ((h / n) mod 2 = 0 \/ (h / n) mod 2 = 1)%Z) by lia.
  destruct Hc as [-> | ->]; [left|right]; lia.
Qed.

Lemma divmod_ideal_double : forall n k, 0 < n ->
  ideal_of DivMod (2 * n) k = ideal_of DivMod n k \/ ideal_of DivMod (2 * n) k = ideal_of DivMod n k + n.
Proof.
  intros n k Hn. unfold ideal_of.
  replace (Z.of_nat (2 * n)) with (Z.of_nat n * 2)%Z by lia.
  pose proof (Z.mod_pos_bound k (Z.of_nat n) ltac:(lia)) as Hb.
  destruct (mod_double k (Z.of_nat n) ltac:(lia)) as [-> | ->]; [left; reflexivity|right].
  rewrite Z2Nat.inj_add by lia. rewrite Nat2Z.id. reflexivity.
Qed.

Lemma pow2_ideal_mod : forall b k, ideal_of Power2Mod (2 ^ b) k = ideal_of DivMod (2 ^ b) k.
Proof. intros b k. unfold ideal_of. rewrite mask_ones. rewrite Z.land_ones by lia. rewrite of_nat_pow2. reflexivity. Qed.

Lemma pow2_ideal_double : forall b k,
  ideal_of Power2Mod (2 * 2 ^ b) k = ideal_of Power2Mod (2 ^ b) k \/
  ideal_of Power2Mod (2 * 2 ^ b) k = ideal_of Power2Mod (2 ^ b) k + 2 ^ b.
Proof.
  intros b k. change (2 * 2 ^ b) with (2 ^ S b). rewrite !pow2_ideal_mod. change (2 ^ S b) with (2 * 2 ^ b).
  apply divmod_ideal_double. pose proof (Nat.pow_nonzero 2 b ltac:(lia)). lia.
Qed.

(* a policy together with a bucket count it supports: DivMod any positive count, Power2Mod powers of two *)
Definition policy_ok (m : modpolicy) (n : nat) : Prop :=
  match m with DivMod => 0 < n | Power2Mod => exists b, n = 2 ^ b end.

Lemma policy_ok_pos : forall m n, policy_ok m n -> 0 < n.
Proof. intros [|] n H; [exact H|]. destruct H as [b ->]. pose proof (Nat.pow_nonzero 2 b ltac:(lia)). lia. Qed.
Lemma policy_ok_double : forall m n, policy_ok m n -> policy_ok m (2 * n).
Proof. intros [|] n H; cbn in *; [lia|]. destruct H as [b ->]. exists (S b). reflexivity. Qed.
Lemma policy_ideal_lt : forall m n k, policy_ok m n -> ideal_of m n k < n.
Proof. intros [|] n k H; [apply divmod_ideal_lt; exact H|]. destruct H as [b ->]. apply pow2_ideal_lt. Qed.
Lemma policy_next_is : forall m n i, policy_ok m n -> i < n -> next_of m n i = nxt n i.
Proof. intros [|] n i H Hi; [apply divmod_next_is; exact Hi|]. destruct H as [b ->]. apply pow2_next_is. exact Hi. Qed.
Lemma policy_ideal_double : forall m n k, policy_ok m n ->
  ideal_of m (2 * n) k = ideal_of m n k \/ ideal_of m (2 * n) k = ideal_of m n k + n.
Proof. intros [|] n k H; [apply divmod_ideal_double; exact H|]. destruct H as [b ->]. apply pow2_ideal_double. Qed.

(* Double() keeps the abstract map and the entry count, and the doubled table satisfies the probing
   invariant for the new bucket count -- so every later Find / FindOrInsert / Insert refines the same map. *)
Theorem double_refines : forall m old ent mm,
  policy_ok m (length old) ->
  rep (length old) (ideal_of m (length old)) {| cells := old; entries := ent |} mm ->
  exists c3, double_cells m old = Some c3 /\ length c3 = 2 * length old /\
             rep (2 * length old) (ideal_of m (2 * length old)) {| cells := c3; entries := ent |} mm.
Proof.
  intros m old ent mm Hpol R. set (n := length old) in *.
  pose proof (policy_ok_pos _ _ Hpol) as Hn.
  pose proof (policy_ok_double _ _ Hpol) as Hpol2.
  destruct R as [I [Hmap [Hent [Hcnt Hroom]]]]. cbn [cells entries] in *.
  destruct (double_spec n Hn (ideal_of m n) (ideal_of m (2 * n))
              (fun k => policy_ideal_lt m n k Hpol) (fun k => policy_ideal_double m n k Hpol)
              (next_of m (2 * n)) (fun i Hi => policy_next_is m (2 * n) i Hpol2 Hi)
              old I) as [c3 [D1 [D2 [D3 D4]]]].
  { apply (rep_has_empty n Hn (ideal_of m n) {| cells := old; entries := ent |} mm).
    split; [exact I|]. split; [exact Hmap|]. split; [exact Hent|]. split; assumption. }
  exists c3. split.
  - unfold double_cells. fold n. exact D1.
  - pose proof (inv_len _ _ _ D2) as Hl3. split; [exact Hl3|].
    split; [exact D2|]. cbn [cells entries]. split; [|split; [exact Hent|split; lia]].
    intros k v Hk. rewrite <- (Hmap k v Hk).
    pose proof (inv_len _ _ _ I) as Hl. pose proof (D3 k v Hk) as H3. unfold holds in H3. rewrite Hl3, Hl in H3. exact H3.
Qed.

(* non-vacuity: a full-ish 4-bucket table whose last entry wrapped around doubles to 8 buckets with both keys found *)
Example double_example :
  match double_cells DivMod [(7, 70); (0, 0); (0, 0); (3, 30)]%Z with
  | Some c => length c = 8 /\
              find 8 (ideal_of DivMod 8) (next_of DivMod 8) {| cells := c; entries := 2 |} 7%Z = Ok (Some 70%Z) /\
              find 8 (ideal_of DivMod 8) (next_of DivMod 8) {| cells := c; entries := 2 |} 3%Z = Ok (Some 30%Z)
  | None => False
  end.
Proof. vm_compute. repeat split; reflexivity. Qed.

(* ---- AutoProbing: FindOrInsert with growth never throws and refines an unbounded map ------------ *)
Definition arep (a : auto) (mm : list (Z * Z)) : Prop :=
  (exists b, length (acells a) = 2 ^ b) /\
  rep (length (acells a)) (ideal_of Power2Mod (length (acells a))) {| cells := acells a; entries := aentries a |} mm.

Definition afound (mm : list (Z * Z)) (k : Z) : bool := match alookup mm k with Some _ => true | None => false end.
Definition avalue (mm : list (Z * Z)) (k v : Z) : Z := match alookup mm k with Some v0 => v0 | None => v end.
Definition aafter (mm : list (Z * Z)) (k v : Z) : list (Z * Z) := match alookup mm k with Some _ => mm | None => (k, v) :: mm end.

Lemma foi_room : forall c ent mm k v b, length c = 2 ^ b ->
  rep (length c) (ideal_of Power2Mod (length c)) {| cells := c; entries := ent |} mm -> k <> 0%Z ->
  (Z.of_nat (length mm) + 1 < Z.of_nat (length c))%Z ->
  exists t', find_or_insert (length c) (ideal_of Power2Mod (length c)) (next_of Power2Mod (length c))
               {| cells := c; entries := ent |} (k, v) = Ok (t', afound mm k, avalue mm k v) /\
             length (cells t') = length c /\
             rep (length c) (ideal_of Power2Mod (length c)) t' (aafter mm k v).
Proof.
  intros c ent mm k v b Hb R Hk Hroom.
  assert (Hn : 0 < length c) by (rewrite Hb; pose proof (Nat.pow_nonzero 2 b ltac:(lia)); lia).
  pose proof (find_or_insert_refines (length c) Hn (ideal_of Power2Mod (length c))
                (fun k0 => policy_ideal_lt Power2Mod (length c) k0 (ex_intro _ b Hb))
                (next_of Power2Mod (length c))
                (fun i Hi => policy_next_is Power2Mod (length c) i (ex_intro _ b Hb) Hi)
                {| cells := c; entries := ent |} mm k v R Hk) as H.
  unfold afound, avalue, aafter. destruct (alookup mm k) as [v0|].
  - eexists. split; [exact H|]. split; [reflexivity|exact R].
  - destruct (Z.geb_spec (Z.of_nat (length mm) + 1) (Z.of_nat (length c))) as [Hge|Hlt]; [lia|].
    destruct H as [t' [H1 H2]]. exists t'. split; [exact H1|]. split; [|exact H2].
    destruct H2 as [I2 _]. exact (inv_len _ _ _ I2).
Qed.

Theorem auto_find_or_insert_refines : forall a mm k v, arep a mm -> k <> 0%Z ->
  exists a', auto_find_or_insert a (k, v) = Ok (a', afound mm k, avalue mm k v) /\ arep a' (aafter mm k v).
Proof.
  intros a mm k v [[b Hb] R] Hk. unfold auto_find_or_insert, double_if_needed.
  pose proof R as R0. destruct R0 as [I [Hmap [Hent [Hcnt Hroom]]]]. cbn [cells entries] in *.
  destruct (Z.ltb_spec (aentries a) (threshold (length (acells a)))) as [Hlt|Hge].
  - cbn [acells aentries].
    destruct (foi_room (acells a) (aentries a) mm k v b Hb R Hk) as [t' [F1 [F2 F3]]].
    { unfold threshold in Hlt. lia. }
    rewrite F1. eexists. split; [reflexivity|]. split; cbn [acells aentries].
    + exists b. rewrite F2. exact Hb.
    + rewrite F2. destruct t'; exact F3.
  - destruct (double_refines Power2Mod (acells a) (aentries a) mm (ex_intro _ b Hb) R) as [c3 [D1 [D2 D3]]].
    rewrite D1. cbn [acells aentries]. rewrite <- D2 in D3.
    assert (Hb3 : length c3 = 2 ^ S b) by (rewrite D2, Hb; reflexivity).
    destruct (foi_room c3 (aentries a) mm k v (S b) Hb3 D3 Hk) as [t' [F1 [F2 F3]]].
    { lia. }
    rewrite F1. eexists. split; [reflexivity|]. split; cbn [acells aentries].
    + exists (S b). rewrite F2. exact Hb3.
    + rewrite F2. destruct t'; exact F3.
Qed.

(* whole FindOrInsert sequences on an AutoProbing table against the unbounded map *)
Fixpoint auto_run (a : auto) (ops : list (Z * Z)) : list out :=
  match ops with
  | [] => []
  | kv :: r => match auto_find_or_insert a kv with
               | Ok (a', f, x) => RFoi f x :: auto_run a' r
               | Throw => [RThrow]
               | OutOfFuel => [RFuel]
               end
  end.
Fixpoint amap_run (mm : list (Z * Z)) (ops : list (Z * Z)) : list out :=
  match ops with
  | [] => []
  | (k, v) :: r => RFoi (afound mm k) (avalue mm k v) :: amap_run (aafter mm k v) r
  end.

Theorem auto_run_refines : forall ops a mm, arep a mm -> Forall (fun kv => fst kv <> 0%Z) ops ->
  auto_run a ops = amap_run mm ops.
Proof.
  induction ops as [|[k v] ops IH]; intros a mm R Hok; [reflexivity|].
  inversion Hok as [|? ? Hk Hok']. subst. cbn [fst] in Hk. cbn [auto_run amap_run].
  destruct (auto_find_or_insert_refines a mm k v R Hk) as [a' [H1 H2]]. rewrite H1.
  f_equal. apply IH; assumption.
Qed.

Lemma arep_empty : forall b, arep {| acells := empty_cells (2 ^ b); aentries := 0 |} [].
Proof.
  intros b. assert (Hl : length (empty_cells (2 ^ b)) = 2 ^ b) by (unfold empty_cells; apply repeat_length).
  split; cbn [acells aentries]; [exists b; exact Hl|]. rewrite Hl.
  apply rep_empty. pose proof (Nat.pow_nonzero 2 b ltac:(lia)). lia.
Qed.
