(* Proofs about the search loops of util/sorted_uniform.hh (model: SearchModel.v) and about the
   translator-generated Pivot32::Calc (Gen/SortedUniform.v). *)
From Coq Require Import ZArith Lia Bool.
From Kenlm Require Import Base.Mem Gen.SortedUniform C20.SearchModel.
Local Open Scope Z_scope.

Section Search.
  Variable a : Z -> Z.
  Variable pivot : Z -> Z -> Z -> Z.

  (* sorted on the open index interval (lo, hi) *)
  Definition sorted_between (lo hi : Z) : Prop :=
    forall i j, lo < i -> i <= j -> j < hi -> a i <= a j.

  (* the pivot is only asked about off <= range < R and 0 < width <= Wd (what the loop really passes);
     Pivot32 meets this for R = Wd = 2^32, the capped Pivot64 for R = 2^64 and any Wd *)
  Variables R Wd : Z.
  Hypothesis HR : R <= 2 ^ 64.
  Definition pivot_ok : Prop := forall off range width,
    0 <= off <= range -> range < R -> 0 < width <= Wd -> 0 <= pivot off range width < width.

  Lemma bounded_find_correct : forall fuel bi bv ai av key,
    pivot_ok -> sorted_between bi ai ->
    (forall i, bi < i < ai -> 0 <= a i < R) -> 0 <= bv -> bv <= key -> key <= av -> av < R ->
    ai - bi - 1 <= Wd ->
    (Z.of_nat fuel >= Z.max 1 (ai - bi)) ->
    exists r, bounded_find a pivot fuel bi bv ai av key = Some r /\
      match r with
      | Some p => bi < p < ai /\ a p = key
      | None => forall i, bi < i < ai -> a i <> key
      end.
  Proof.
    induction fuel as [|f IH]; intros bi bv ai av key Hp Hs Hrng Hbv0 Hbk Hka HavR HW Hf; [lia|].
    cbn [bounded_find].
    destruct (Z.gtb_spec (ai - bi) 1) as [Hgt|Hle].
    - set (w := ai - bi - 1).
      assert (Hw : 0 < w <= Wd) by (unfold w; lia).
      rewrite (wrap_small 64 (key - bv)) by lia.
      rewrite (wrap_small 64 (av - bv)) by lia.
      pose proof (Hp (key - bv) (av - bv) w ltac:(lia) ltac:(lia) Hw) as Hpv.
      set (pv := pivot (key - bv) (av - bv) w) in *.
      set (p := bi + (1 + pv)).
      assert (Hpr : bi < p < ai) by (unfold p, w in *; lia).
      pose proof (Hrng p Hpr) as Hap.
      destruct (Z.ltb_spec (a p) key) as [Hlt|Hge].
      + destruct (IH p (a p) ai av key Hp) as [r [Hr1 Hr2]]; try lia.
        * intros i j Hi Hij Hj. apply Hs; lia.
        * intros i Hi. apply Hrng. lia.
        * exists r. split; [exact Hr1|]. destruct r as [q|].
          -- lia.
          -- intros i Hi. destruct (Z_lt_le_dec p i) as [Hpi|Hip]; [apply Hr2; lia|].
             assert (a i <= a p) by (apply Hs; lia). lia.
      + destruct (Z.gtb_spec (a p) key) as [Hgt2|Hle2].
        * destruct (IH bi bv p (a p) key Hp) as [r [Hr1 Hr2]]; try lia.
          -- intros i j Hi Hij Hj. apply Hs; lia.
          -- intros i Hi. apply Hrng. lia.
          -- exists r. split; [exact Hr1|]. destruct r as [q|].
             ++ lia.
             ++ intros i Hi. destruct (Z_lt_le_dec i p) as [Hpi|Hip]; [apply Hr2; lia|].
                assert (a p <= a i) by (apply Hs; lia). lia.
        * exists (Some p). split; [reflexivity|]. split; [exact Hpr|lia].
    - exists None. split; [reflexivity|]. intros i Hi. lia.
  Qed.

  Lemma binary_find_correct : forall fuel b e key,
    (forall i j, b <= i -> i <= j -> j < e -> a i <= a j) ->
    (Z.of_nat fuel >= Z.max 1 (e - b + 1)) ->
    exists r, binary_find a fuel b e key = Some r /\
      match r with
      | Some p => b <= p < e /\ a p = key
      | None => forall i, b <= i < e -> a i <> key
      end.
  Proof.
    induction fuel as [|f IH]; intros b e key Hs Hf; [lia|].
    cbn [binary_find].
    destruct (Z.gtb_spec e b) as [Hgt|Hle].
    - set (p := b + (e - b) / 2).
      assert (Hpr : b <= p < e).
      { unfold p. pose proof (Z.div_pos (e - b) 2 ltac:(lia) ltac:(lia)).
        assert ((e - b) / 2 < e - b) by (apply Z.div_lt; lia). lia. }
      destruct (Z.ltb_spec (a p) key) as [Hlt|Hge].
      + destruct (IH (p + 1) e key) as [r [Hr1 Hr2]].
        * intros i j Hi Hij Hj. apply Hs; lia.
        * lia.
        * exists r. split; [exact Hr1|]. destruct r as [q|]; [lia|].
          intros i Hi. destruct (Z_lt_le_dec p i) as [Hpi|Hip]; [apply Hr2; lia|].
          assert (a i <= a p) by (apply Hs; lia). lia.
      + destruct (Z.gtb_spec (a p) key) as [Hgt2|Hle2].
        * destruct (IH b p key) as [r [Hr1 Hr2]].
          -- intros i j Hi Hij Hj. apply Hs; lia.
          -- lia.
          -- exists r. split; [exact Hr1|]. destruct r as [q|]; [lia|].
             intros i Hi. destruct (Z_lt_le_dec i p) as [Hpi|Hip]; [apply Hr2; lia|].
             assert (a p <= a i) by (apply Hs; lia). lia.
        * exists (Some p). split; [reflexivity|]. split; [exact Hpr|lia].
    - exists None. split; [reflexivity|]. intros i Hi. lia.
  Qed.

  (* SortedUniformFind over [b, e): present iff reported, with the position *)
  Lemma sorted_uniform_find_correct : forall fuel b e key,
    pivot_ok -> b <= e -> e - b - 2 <= Wd ->
    (forall i j, b <= i -> i <= j -> j < e -> a i <= a j) ->
    (forall i, b <= i < e -> 0 <= a i < R) -> 0 <= key < R ->
    (Z.of_nat fuel >= Z.max 1 (e - b)) ->
    exists r, sorted_uniform_find a pivot fuel b e key = Some r /\
      match r with
      | Some p => b <= p < e /\ a p = key
      | None => forall i, b <= i < e -> a i <> key
      end.
  Proof.
    intros fuel b e key Hp Hbe HW Hs Hrng Hkey Hf. unfold sorted_uniform_find.
    destruct (Z.eqb_spec b e) as [->|Hne].
    - exists None. split; [reflexivity|]. intros; lia.
    - destruct (Z.leb_spec key (a b)) as [Hle|Hgt].
      + destruct (Z.eqb_spec key (a b)) as [He|Hn].
        * exists (Some b). split; [reflexivity|]. lia.
        * exists None. split; [reflexivity|]. intros i Hi.
          assert (a b <= a i) by (apply Hs; lia). lia.
      + destruct (Z.geb_spec key (a (e - 1))) as [Hge|Hlt].
        * destruct (Z.eqb_spec key (a (e - 1))) as [He|Hn].
          -- exists (Some (e - 1)). split; [reflexivity|]. lia.
          -- exists None. split; [reflexivity|]. intros i Hi.
             assert (a i <= a (e - 1)) by (apply Hs; lia). lia.
        * pose proof (Hrng b ltac:(lia)) as Hab. pose proof (Hrng (e - 1) ltac:(lia)) as Hae.
          destruct (bounded_find_correct fuel b (a b) (e - 1) (a (e - 1)) key Hp) as [r [Hr1 Hr2]]; try lia.
          -- intros i j Hi Hij Hj. apply Hs; lia.
          -- intros i Hi. apply Hrng. lia.
          -- exists r. split; [exact Hr1|]. destruct r as [q|]; [lia|].
             intros i Hi. destruct (Z.eq_dec i b) as [->|Hib]; [lia|].
             destruct (Z.eq_dec i (e - 1)) as [->|Hie]; [lia|]. apply Hr2. lia.
  Qed.
End Search.

(* Pivot32::Calc (generated): in range whenever off <= range and the product does not wrap *)
Lemma pivot32_in_range : forall off range width,
  0 <= off <= range -> range + 1 < 2 ^ 64 -> 0 < width -> off * width < 2 ^ 64 ->
  0 <= Pivot32_Calc off range width < width.
Proof.
  intros off range width Ho Hr Hw Hm. unfold Pivot32_Calc.
  rewrite (wrap_small 64 (off * width)) by nia.
  rewrite (wrap_small 64 (range + 1)) by lia.
  split.
  - apply Z.div_pos; nia.
  - apply Z.div_lt_upper_bound; [lia|]. nia.
Qed.

(* hence Pivot32 is a legal pivot for 32-bit keys and at most 2^32 elements: the trie's use *)
Lemma pivot32_ok : pivot_ok Pivot32_Calc (2 ^ 32) (2 ^ 32).
Proof.
  intros off range width Ho Hr Hw. apply pivot32_in_range; try lia.
  assert (off * width <= 2 ^ 32 * 2 ^ 32) by (apply Z.mul_le_mono_nonneg; lia).
  change (2 ^ 64) with (2 ^ 32 * 2 ^ 32 ). 
  assert (off < 2 ^ 32) by lia.
  assert (off * width < 2 ^ 32 * width \/ off = 0) by nia. nia.
Qed.

(* Pivot64::Calc: whatever the float expression evaluates to (any function f with a non-negative result),
   the cap keeps the pivot below width *)
Lemma pivot64_in_range : forall f off range width, 0 < width -> 0 <= f off range width ->
  0 <= Pivot64_Calc f off range width < width.
Proof.
  intros f off range width Hw Hf. unfold Pivot64_Calc.
  destruct (Z.ltb_spec (f off range width) width); lia.
Qed.
Lemma pivot64_ok : forall f Wd, (forall o r w, 0 <= f o r w) -> pivot_ok (Pivot64_Calc f) (2 ^ 64) Wd.
Proof. intros f Wd Hf off range width _ _ Hw. apply pivot64_in_range; [lia|apply Hf]. Qed.

(* the trie's search: SortedUniformFind<..., Pivot32> over 32-bit word indices *)
Lemma sorted_uniform_find_pivot32 : forall a fuel b e key,
  b <= e -> e - b - 2 <= 2 ^ 32 ->
  (forall i j, b <= i -> i <= j -> j < e -> a i <= a j) ->
  (forall i, b <= i < e -> 0 <= a i < 2 ^ 32) -> 0 <= key < 2 ^ 32 ->
  (Z.of_nat fuel >= Z.max 1 (e - b)) ->
  exists r, sorted_uniform_find a Pivot32_Calc fuel b e key = Some r /\
    match r with
    | Some p => b <= p < e /\ a p = key
    | None => forall i, b <= i < e -> a i <> key
    end.
Proof.
  intros. apply sorted_uniform_find_correct with (R := 2 ^ 32) (Wd := 2 ^ 32); try assumption; try lia.
  apply pivot32_ok.
Qed.

(* non-vacuity: a concrete sorted array, Pivot32 *)
Example search_example :
  sorted_uniform_find (fun i => 2 * i + 1) Pivot32_Calc 10 0 5 7 = Some (Some 3)
  /\ sorted_uniform_find (fun i => 2 * i + 1) Pivot32_Calc 10 0 5 6 = Some None.
Proof. split; vm_compute; reflexivity. Qed.
