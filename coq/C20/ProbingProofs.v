(* The linear-probing table refines a finite map (model: ProbingModel.v). *)
From Coq Require Import ZArith List Bool Arith Lia.
From Kenlm Require Import C20.ProbingModel.
Import ListNotations.

(* ---- list plumbing -------------------------------------------------------------------------- *)
Lemma setc_length : forall c i x, length (setc c i x) = length c.
Proof. induction c as [|y r IH]; intros [|i] x; simpl; auto. Qed.

Lemma getc_setc_same : forall c i x, i < length c -> getc (setc c i x) i = x.
Proof.
  unfold getc. induction c as [|y r IH]; intros [|i] x H; simpl in *; try lia; auto.
  apply IH. lia.
Qed.

Lemma getc_setc_other : forall c i j x, i <> j -> getc (setc c i x) j = getc c j.
Proof.
  unfold getc. induction c as [|y r IH]; intros [|i] [|j] x H; simpl; auto; try lia.
Qed.

Definition occ (x : cell) : bool := negb (Z.eqb (fst x) 0).
Definition occ_count (c : list cell) : nat := length (filter occ c).

Lemma occ_count_le : forall c, occ_count c <= length c.
Proof. unfold occ_count. induction c as [|x r IH]; simpl; [lia|]. destruct (occ x); simpl; lia. Qed.

Lemma exists_empty : forall c, occ_count c < length c -> exists j, j < length c /\ fst (getc c j) = 0%Z.
Proof.
  unfold occ_count, getc. induction c as [|x r IH]; simpl; intros H; [lia|].
  destruct (occ x) eqn:E; simpl in H.
  - destruct IH as [j [Hj Hz]]; [lia|]. exists (S j). split; [lia|exact Hz].
  - exists 0. split; [lia|]. unfold occ in E. apply negb_false_iff in E. apply Z.eqb_eq in E. exact E.
Qed.

Lemma occ_count_setc : forall c i x, i < length c -> fst (getc c i) = 0%Z -> fst x <> 0%Z ->
  occ_count (setc c i x) = S (occ_count c).
Proof.
  unfold occ_count, getc. induction c as [|y r IH]; intros [|i] x Hi Hz Hx; simpl in *; try lia.
  - assert (occ y = false) by (unfold occ; rewrite Hz; reflexivity).
    assert (occ x = true) by (unfold occ; apply negb_true_iff; apply Z.eqb_neq; exact Hx).
    rewrite H, H0. reflexivity.
  - destruct (occ y); simpl; rewrite IH; auto; lia.
Qed.

Lemma repeat_getc : forall n i, getc (repeat (0%Z, 0%Z) n) i = (0%Z, 0%Z).
Proof.
  unfold getc. induction n as [|n IH]; intros [|i]; simpl; auto.
Qed.

Lemma occ_count_repeat : forall n, occ_count (empty_cells n) = 0.
Proof. unfold occ_count, empty_cells. induction n; simpl; auto. Qed.

(* ---- cyclic positions ---------------------------------------------------------------------- *)
Section Cyclic.
  Variable n : nat.

  Definition nxt (i : nat) : nat := if Nat.eqb (S i) n then 0 else S i.
  Definition pos (a d : nat) : nat := if Nat.ltb (a + d) n then a + d else a + d - n.
  Definition dist (a p : nat) : nat := if Nat.leb a p then p - a else p + n - a.

  Lemma pos_lt : forall a d, a < n -> d <= n -> pos a d < n \/ (d = n /\ pos a d = a).
  Proof. intros a d Ha Hd. unfold pos. destruct (Nat.ltb_spec (a + d) n); lia. Qed.
  Lemma pos_lt' : forall a d, a < n -> d < n -> pos a d < n.
  Proof. intros a d Ha Hd. unfold pos. destruct (Nat.ltb_spec (a + d) n); lia. Qed.
  Lemma pos_0 : forall a, a < n -> pos a 0 = a.
  Proof. intros a Ha. unfold pos. destruct (Nat.ltb_spec (a + 0) n); lia. Qed.
  Lemma nxt_pos : forall a d, a < n -> d < n -> nxt (pos a d) = pos a (S d).
  Proof.
    intros a d Ha Hd. unfold nxt, pos.
    destruct (Nat.ltb_spec (a + d) n); destruct (Nat.ltb_spec (a + S d) n);
      match goal with |- context [Nat.eqb ?x ?y] => destruct (Nat.eqb_spec x y) end; lia.
  Qed.
  Lemma pos_dist : forall a p, a < n -> p < n -> pos a (dist a p) = p.
  Proof.
    intros a p Ha Hp. unfold pos, dist. destruct (Nat.leb_spec a p);
      match goal with |- context [Nat.ltb ?x ?y] => destruct (Nat.ltb_spec x y) end; lia.
  Qed.
  Lemma dist_lt : forall a p, a < n -> p < n -> dist a p < n.
  Proof. intros a p Ha Hp. unfold dist. destruct (Nat.leb_spec a p); lia. Qed.
  Lemma dist_pos : forall a d, a < n -> d < n -> dist a (pos a d) = d.
  Proof.
    intros a d Ha Hd. unfold pos, dist. destruct (Nat.ltb_spec (a + d) n);
      match goal with |- context [Nat.leb ?x ?y] => destruct (Nat.leb_spec x y) end; lia.
  Qed.
  Lemma pos_inj : forall a d1 d2, a < n -> d1 < n -> d2 < n -> pos a d1 = pos a d2 -> d1 = d2.
  Proof.
    intros a d1 d2 Ha H1 H2 E. rewrite <- (dist_pos a d1), <- (dist_pos a d2) by assumption. rewrite E. reflexivity.
  Qed.
End Cyclic.

(* ---- the table ----------------------------------------------------------------------------- *)
Section Table.
  Variable n : nat.
  Hypothesis Hn : 0 < n.
  Variable ideal : Z -> nat.
  Hypothesis ideal_lt : forall k, ideal k < n.
  Variable next : nat -> nat.
  Hypothesis next_is : forall i, i < n -> next i = nxt n i.

  Local Notation pos := (pos n).
  Local Notation dist := (dist n).
  Local Open Scope Z_scope.

  Definition key_at (c : list cell) (p : nat) : Z := fst (getc c p).

  Record inv (c : list cell) : Prop := {
    inv_len : length c = n;
    inv_chain : forall p, (p < n)%nat -> key_at c p <> 0 ->
                forall d, (d < dist (ideal (key_at c p)) p)%nat -> key_at c (pos (ideal (key_at c p)) d) <> 0;
    inv_distinct : forall p q, (p < n)%nat -> (q < n)%nat -> key_at c p <> 0 -> key_at c p = key_at c q -> p = q
  }.

  (* scanning over cells that are occupied by other keys *)
  Lemma probe_scan : forall e d fuel c a key, (a < n)%nat -> (d + e <= n)%nat -> (d + e < n \/ fuel = O)%nat ->
    (forall d', (d <= d' < d + e)%nat -> key_at c (pos a d') <> key /\ key_at c (pos a d') <> 0) ->
    probe next (e + fuel) c (pos a d) key = probe next fuel c (pos a (d + e)) key.
  Proof.
    induction e as [|e IH]; intros d fuel c a key Ha Hde Hf Hocc.
    - simpl. replace (d + 0)%nat with d by lia. reflexivity.
    - cbn [Nat.add probe]. destruct (Hocc d ltac:(lia)) as [H1 H2]. unfold key_at in H1, H2.
      destruct (Z.eqb_spec (fst (getc c (pos a d))) key); [contradiction|].
      destruct (Z.eqb_spec (fst (getc c (pos a d))) 0); [contradiction|].
      rewrite next_is by (apply pos_lt'; lia). rewrite nxt_pos by lia.
      replace (d + S e)%nat with (S d + e)%nat by lia.
      apply IH; try lia. intros d' Hd'. apply Hocc. lia.
  Qed.

  (* probing for a key that is stored at position p finds it there *)
  Lemma probe_found : forall c key p, inv c -> key <> 0 -> (p < n)%nat -> key_at c p = key ->
    probe next (S n) c (ideal key) key = Some (p, true).
  Proof.
    intros c key p I Hk Hp Hkp.
    pose proof (ideal_lt key) as Ha.
    set (e := dist (ideal key) p).
    assert (He : (e < n)%nat) by (apply dist_lt; assumption).
    rewrite <- (pos_0 n (ideal key)) at 1 by assumption.
    replace (S n) with (e + (S n - e))%nat by lia.
    rewrite probe_scan; try lia.
    - replace (0 + e)%nat with e by lia. unfold e. rewrite pos_dist by assumption.
      destruct (S n - dist (ideal key) p)%nat eqn:E; [fold e in E; lia|].
      cbn [probe]. unfold key_at in Hkp. rewrite Hkp. rewrite Z.eqb_refl. reflexivity.
    - intros d' Hd'. assert (Hocc : key_at c (pos (ideal key) d') <> 0).
      { rewrite <- Hkp. apply (inv_chain c I p Hp); [rewrite Hkp; exact Hk|]. rewrite Hkp. fold e. lia. }
      split; [|exact Hocc]. intros Heq.
      assert (pos (ideal key) d' = p).
      { symmetry. apply (inv_distinct c I p (pos (ideal key) d') Hp); [apply pos_lt'; lia| rewrite Hkp; exact Hk|].
        rewrite Hkp, Heq. reflexivity. }
      assert (d' = e). { apply (pos_inj n (ideal key)); try lia. rewrite H. unfold e. rewrite pos_dist; auto. }
      lia.
  Qed.

  (* probing for an absent key stops at the first empty cell, with everything before it occupied *)
  Lemma probe_absent : forall c key, inv c -> key <> 0 -> (forall p, (p < n)%nat -> key_at c p <> key) ->
    (exists j, (j < n)%nat /\ key_at c j = 0) ->
    exists e, (e < n)%nat /\ probe next (S n) c (ideal key) key = Some (pos (ideal key) e, false) /\
              key_at c (pos (ideal key) e) = 0 /\
              forall d, (d < e)%nat -> key_at c (pos (ideal key) d) <> 0.
  Proof.
    intros c key I Hk Habs [j [Hj Hz]].
    pose proof (ideal_lt key) as Ha.
    (* least offset with an empty cell, by bounded search up to dist(ideal, j) *)
    assert (Hex : exists e, (e <= dist (ideal key) j)%nat /\ key_at c (pos (ideal key) e) = 0 /\
                            forall d, (d < e)%nat -> key_at c (pos (ideal key) d) <> 0).
    { assert (G : forall m, (m <= dist (ideal key) j)%nat ->
                (exists e, (e <= m)%nat /\ key_at c (pos (ideal key) e) = 0 /\ forall d, (d < e)%nat -> key_at c (pos (ideal key) d) <> 0)
                \/ (forall d, (d <= m)%nat -> key_at c (pos (ideal key) d) <> 0)).
      { induction m as [|m IHm]; intros Hm.
        - destruct (Z.eq_dec (key_at c (pos (ideal key) 0)) 0) as [E|E].
          + left. exists O. split; [lia|]. split; [exact E|]. intros; lia.
          + right. intros d Hd. replace d with O by lia. exact E.
        - destruct IHm as [[e [He1 [He2 He3]]]|Hall]; [lia| |].
          + left. exists e. split; [lia|]. split; assumption.
          + destruct (Z.eq_dec (key_at c (pos (ideal key) (S m))) 0) as [E|E].
            * left. exists (S m). split; [lia|]. split; [exact E|]. intros d Hd. apply Hall. lia.
            * right. intros d Hd. destruct (Nat.eq_dec d (S m)) as [->|]; [exact E|apply Hall; lia]. }
      destruct (G (dist (ideal key) j) ltac:(lia)) as [[e He]|Hall].
      - exists e. exact He.
      - exfalso. apply (Hall (dist (ideal key) j) ltac:(lia)). rewrite pos_dist by assumption. exact Hz. }
    destruct Hex as [e [He1 [He2 He3]]].
    assert (Hdj : (dist (ideal key) j < n)%nat) by (apply dist_lt; assumption).
    exists e. split; [lia|]. split; [|split; assumption].
    rewrite <- (pos_0 n (ideal key)) at 1 by assumption.
    replace (S n) with (e + (S n - e))%nat by lia.
    rewrite probe_scan; try lia.
    - replace (0 + e)%nat with e by lia.
      destruct (S n - e)%nat eqn:E; [lia|]. cbn [probe].
      unfold key_at in He2. rewrite He2.
      destruct (Z.eqb_spec 0 key); [congruence|]. reflexivity.
    - intros d' Hd'. split; [apply Habs; apply pos_lt'; lia| apply He3; lia].
  Qed.

  Lemma probe_empty_first : forall c a, (a < n)%nat -> (exists j, (j < n)%nat /\ key_at c j = 0) ->
    exists e, (e < n)%nat /\ probe_empty next (S n) c a = Some (pos a e) /\ key_at c (pos a e) = 0 /\
              forall d, (d < e)%nat -> key_at c (pos a d) <> 0.
  Proof.
    intros c a Ha [j [Hj Hz]].
    assert (G : forall m d, (d + m = dist a j)%nat -> (forall d', (d' < d)%nat -> key_at c (pos a d') <> 0) ->
      forall fuel, (fuel > m)%nat ->
      exists e, (e < n)%nat /\ probe_empty next fuel c (pos a d) = Some (pos a e) /\ key_at c (pos a e) = 0 /\
                forall d', (d' < e)%nat -> key_at c (pos a d') <> 0).
    { assert (Hdj : (dist a j < n)%nat) by (apply dist_lt; assumption).
      induction m as [|m IHm]; intros d Hd Hbefore fuel Hfuel; (destruct fuel as [|fuel]; [lia|]); cbn [probe_empty].
      - assert (d = dist a j) by lia. subst d. rewrite pos_dist by assumption. unfold key_at in Hz. rewrite Hz. simpl.
        exists (dist a j). split; [lia|]. rewrite pos_dist by assumption. split; [reflexivity|]. split; [exact Hz|exact Hbefore].
      - destruct (Z.eqb_spec (fst (getc c (pos a d))) 0) as [E|E].
        + exists d. split; [lia|]. split; [reflexivity|]. split; [exact E|exact Hbefore].
        + rewrite next_is by (apply pos_lt'; lia). rewrite nxt_pos by lia.
          apply IHm; try lia. intros d' Hd'. destruct (Nat.eq_dec d' d) as [->|]; [exact E|apply Hbefore; lia]. }
    destruct (G (dist a j) O ltac:(lia) ltac:(intros; lia) (S n)) as [e He].
    { pose proof (dist_lt n a j Ha Hj). lia. }
    rewrite pos_0 in He by assumption. exists e. exact He.
  Qed.

  (* writing a fresh non-zero key into the first empty cell of its probe sequence preserves the invariant *)
  Lemma inv_insert : forall c k v e, inv c -> k <> 0 -> (forall p, (p < n)%nat -> key_at c p <> k) ->
    (e < n)%nat -> key_at c (pos (ideal k) e) = 0 -> (forall d, (d < e)%nat -> key_at c (pos (ideal k) d) <> 0) ->
    inv (setc c (pos (ideal k) e) (k, v)).
  Proof.
    intros c k v e I Hk Hfresh He Hz Hbefore.
    pose proof (ideal_lt k) as Ha.
    set (q := pos (ideal k) e).
    assert (Hq : (q < n)%nat) by (apply pos_lt'; lia).
    assert (Hlen : length c = n) by (apply inv_len; assumption).
    assert (Kq : key_at (setc c q (k, v)) q = k) by (unfold key_at; rewrite getc_setc_same by lia; reflexivity).
    assert (Ko : forall p, p <> q -> key_at (setc c q (k, v)) p = key_at c p)
      by (intros p Hp; unfold key_at; rewrite getc_setc_other by congruence; reflexivity).
    assert (Kmono : forall p, key_at c p <> 0 -> key_at (setc c q (k, v)) p <> 0).
    { intros p Hp. destruct (Nat.eq_dec p q) as [->|Hne]; [rewrite Kq; exact Hk|rewrite Ko by assumption; exact Hp]. }
    constructor.
    - rewrite setc_length. exact Hlen.
    - intros p Hp Hocc d Hd. destruct (Nat.eq_dec p q) as [->|Hne].
      + rewrite Kq in *. unfold q in Hd. rewrite dist_pos in Hd by lia. apply Kmono. apply Hbefore. exact Hd.
      + rewrite (Ko p Hne) in *. apply Kmono. apply (inv_chain c I p Hp Hocc d Hd).
    - intros p p' Hp Hp' Hocc Heq.
      destruct (Nat.eq_dec p q) as [->|Hne]; destruct (Nat.eq_dec p' q) as [->|Hne']; auto.
      + rewrite Kq, (Ko p' Hne') in Heq. exfalso. apply (Hfresh p' Hp'). congruence.
      + rewrite Kq, (Ko p Hne) in Heq. exfalso. apply (Hfresh p Hp). congruence.
      + rewrite (Ko p Hne), (Ko p' Hne') in *. apply (inv_distinct c I); assumption.
  Qed.

  Lemma inv_empty : inv (empty_cells n).
  Proof.
    constructor.
    - unfold empty_cells. apply repeat_length.
    - intros p Hp Hocc. exfalso. apply Hocc. unfold key_at, empty_cells. rewrite repeat_getc. reflexivity.
    - intros p q Hp Hq Hocc. exfalso. apply Hocc. unfold key_at, empty_cells. rewrite repeat_getc. reflexivity.
  Qed.

  (* ---- refinement to a finite map --------------------------------------------------------- *)
  (* abstract state: association list, newest binding first is irrelevant because keys are distinct *)
  Fixpoint alookup (m : list (Z * Z)) (k : Z) : option Z :=
    match m with [] => None | (k', v) :: r => if k' =? k then Some v else alookup r k end.

  Definition rep (t : table) (m : list (Z * Z)) : Prop :=
    inv (cells t) /\
    (forall k v, k <> 0 -> ((exists p, (p < n)%nat /\ getc (cells t) p = (k, v)) <-> alookup m k = Some v)) /\
    entries t = Z.of_nat (length m) /\ occ_count (cells t) = length m /\ (length m < n)%nat.

  Lemma rep_empty : rep {| cells := empty_cells n; entries := 0 |} [].
  Proof.
    split; [apply inv_empty|]. split; [|split; [reflexivity|split; [apply occ_count_repeat|simpl; lia]]].
    intros k v Hk. split; [|simpl; discriminate].
    intros [p [Hp E]]. cbn [cells] in E. unfold empty_cells in E. rewrite repeat_getc in E. inversion E. congruence.
  Qed.

  Lemma rep_has_empty : forall t m, rep t m -> exists j, (j < n)%nat /\ key_at (cells t) j = 0.
  Proof.
    intros t m [I [_ [_ [Hc Hl]]]]. pose proof (inv_len _ I) as Hlen.
    destruct (exists_empty (cells t)) as [j [Hj Hz]]; [lia|]. exists j. split; [lia|exact Hz].
  Qed.

  Lemma rep_absent : forall t m k, rep t m -> k <> 0 -> alookup m k = None -> forall p, (p < n)%nat -> key_at (cells t) p <> k.
  Proof.
    intros t m k [I [Hmap _]] Hk Hnone p Hp Heq.
    destruct (getc (cells t) p) as [k' v] eqn:E. unfold key_at in Heq. rewrite E in Heq. simpl in Heq. subst k'.
    assert (alookup m k = Some v) by (apply Hmap; [exact Hk|exists p; split; assumption]). congruence.
  Qed.

  (* Find agrees with the map, and never runs out of fuel *)
  Theorem find_refines : forall t m k, rep t m -> k <> 0 -> find n ideal next t k = Ok (alookup m k).
  Proof.
    intros t m k R Hk. unfold find. destruct R as [I [Hmap Hrest]].
    destruct (alookup m k) as [v|] eqn:E.
    - apply Hmap in E; [|exact Hk]. destruct E as [p [Hp Hg]].
      rewrite (probe_found (cells t) k p I Hk Hp) by (unfold key_at; rewrite Hg; reflexivity).
      rewrite Hg. reflexivity.
    - destruct (probe_absent (cells t) k I Hk) as [e [He [Hpr _]]].
      + apply (rep_absent t m k); [split; [exact I|split; assumption]|exact Hk|exact E].
      + apply (rep_has_empty t m). split; [exact I|split; assumption].
      + rewrite Hpr. reflexivity.
  Qed.

  Lemma rep_after_set : forall t m k v e, rep t m -> k <> 0 -> alookup m k = None ->
    (e < n)%nat -> key_at (cells t) (pos (ideal k) e) = 0 -> (forall d, (d < e)%nat -> key_at (cells t) (pos (ideal k) d) <> 0) ->
    (S (length m) < n)%nat ->
    rep {| cells := setc (cells t) (pos (ideal k) e) (k, v); entries := entries t + 1 |} ((k, v) :: m).
  Proof.
    intros t m k v e R Hk Hnone He Hz Hbefore Hcap.
    pose proof (rep_absent t m k R Hk Hnone) as Hfresh.
    destruct R as [I [Hmap [Hent [Hcnt Hlt]]]].
    pose proof (inv_len _ I) as Hlen. pose proof (ideal_lt k) as Ha.
    set (q := pos (ideal k) e). assert (Hq : (q < n)%nat) by (apply pos_lt'; lia).
    split; [apply inv_insert; assumption|]. cbn [cells entries].
    split; [|split; [simpl length; lia|split; [|simpl; lia]]].
    - intros k' v' Hk'. cbn [alookup]. destruct (Z.eqb_spec k k') as [<-|Hne].
      + split.
        * intros [p [Hp Hg]]. destruct (Nat.eq_dec p q) as [->|Hpq].
          -- rewrite getc_setc_same in Hg by lia. congruence.
          -- rewrite getc_setc_other in Hg by congruence. exfalso. apply (Hfresh p Hp). unfold key_at. rewrite Hg. reflexivity.
        * intros Hv. inversion Hv; subst v'. exists q. split; [exact Hq|]. apply getc_setc_same. lia.
      + rewrite <- (Hmap k' v' Hk'). split; intros [p [Hp Hg]]; exists p; (split; [exact Hp|]).
        * destruct (Nat.eq_dec p q) as [->|Hpq]; [rewrite getc_setc_same in Hg by lia; congruence|].
          rewrite getc_setc_other in Hg by congruence. exact Hg.
        * destruct (Nat.eq_dec p q) as [->|Hpq].
          -- exfalso. unfold key_at in Hz. fold q in Hz. rewrite Hg in Hz. simpl in Hz. congruence.
          -- rewrite getc_setc_other by congruence. exact Hg.
    - rewrite occ_count_setc; [simpl; lia|lia|exact Hz|exact Hk].
  Qed.

  (* Insert of a fresh key below capacity refines map insertion; at capacity it throws *)
  Theorem insert_refines : forall t m k v, rep t m -> k <> 0 -> alookup m k = None ->
    if (Z.of_nat (length m) + 1 >=? Z.of_nat n) then insert n ideal next t (k, v) = Throw
    else exists t', insert n ideal next t (k, v) = Ok t' /\ rep t' ((k, v) :: m).
  Proof.
    intros t m k v R Hk Hnone. unfold insert. destruct R as [I [Hmap [Hent [Hcnt Hlt]]]]. rewrite Hent.
    destruct (Z.geb_spec (Z.of_nat (length m) + 1) (Z.of_nat n)) as [Hfull|Hroom]; [reflexivity|].
    unfold unchecked_insert. cbn [fst].
    destruct (probe_empty_first (cells t) (ideal k) (ideal_lt k)) as [e [He [Hpr [Hz Hb]]]].
    { apply (rep_has_empty t m). split; [exact I|split; [exact Hmap|split; [exact Hent|split; assumption]]]. }
    rewrite Hpr. eexists. split; [reflexivity|].
    rewrite <- Hent. apply rep_after_set; try assumption; try lia.
    split; [exact I|split; [exact Hmap|split; [exact Hent|split; assumption]]].
  Qed.

  (* FindOrInsert refines "lookup, else insert"; throws exactly at capacity *)
  Theorem find_or_insert_refines : forall t m k v, rep t m -> k <> 0 ->
    match alookup m k with
    | Some v0 => find_or_insert n ideal next t (k, v) = Ok (t, true, v0)
    | None => if (Z.of_nat (length m) + 1 >=? Z.of_nat n) then find_or_insert n ideal next t (k, v) = Throw
              else exists t', find_or_insert n ideal next t (k, v) = Ok (t', false, v) /\ rep t' ((k, v) :: m)
    end.
  Proof.
    intros t m k v R Hk. unfold find_or_insert. cbn [fst snd].
    pose proof R as R0. destruct R as [I [Hmap [Hent [Hcnt Hlt]]]].
    destruct (alookup m k) as [v0|] eqn:E.
    - apply Hmap in E; [|exact Hk]. destruct E as [p [Hp Hg]].
      rewrite (probe_found (cells t) k p I Hk Hp) by (unfold key_at; rewrite Hg; reflexivity).
      rewrite Hg. reflexivity.
    - destruct (probe_absent (cells t) k I Hk) as [e [He [Hpr [Hz Hb]]]].
      + apply (rep_absent t m k R0 Hk E).
      + apply (rep_has_empty t m R0).
      + rewrite Hpr, Hent.
        destruct (Z.geb_spec (Z.of_nat (length m) + 1) (Z.of_nat n)) as [Hfull|Hroom]; [reflexivity|].
        eexists. split; [reflexivity|]. rewrite <- Hent. apply rep_after_set; try assumption; lia.
  Qed.
End Table.

(* ---- the two mod policies instantiate the section ------------------------------------------- *)
Lemma divmod_ideal_lt : forall n k, 0 < n -> ideal_of DivMod n k < n.
Proof.
  intros n k Hn. unfold ideal_of. pose proof (Z.mod_pos_bound k (Z.of_nat n) ltac:(lia)). lia.
Qed.
Lemma divmod_next_is : forall n i, i < n -> next_of DivMod n i = nxt n i.
Proof. intros. reflexivity. Qed.

(* Power2Mod: buckets = 2^b; `& mask` is `mod 2^b` *)
Lemma of_nat_pow2 : forall b, Z.of_nat (2 ^ b) = (2 ^ Z.of_nat b)%Z.
Proof. intros. rewrite Nat2Z.inj_pow. reflexivity. Qed.
Lemma mask_ones : forall b, (Z.of_nat (2 ^ b) - 1)%Z = Z.ones (Z.of_nat b).
Proof. intros. rewrite of_nat_pow2, Z.ones_equiv. lia. Qed.

Lemma pow2_ideal_lt : forall b k, ideal_of Power2Mod (2 ^ b) k < 2 ^ b.
Proof.
  intros b k. unfold ideal_of. rewrite mask_ones. rewrite Z.land_ones by lia.
  pose proof (Z.mod_pos_bound k (2 ^ Z.of_nat b) ltac:(apply Z.pow_pos_nonneg; lia)) as H.
  apply Nat2Z.inj_lt. rewrite Z2Nat.id by lia. rewrite of_nat_pow2. exact (proj2 H).
Qed.
Lemma pow2_next_is : forall b i, i < 2 ^ b -> next_of Power2Mod (2 ^ b) i = nxt (2 ^ b) i.
Proof.
  intros b i Hi. unfold next_of, nxt. rewrite mask_ones. rewrite Z.land_ones by lia.
  assert (Hp : (0 < 2 ^ Z.of_nat b)%Z) by (apply Z.pow_pos_nonneg; lia).
  pose proof (of_nat_pow2 b) as Hb.
  destruct (Nat.eqb_spec (S i) (2 ^ b)) as [E|E].
  - assert (H : (Z.of_nat i + 1)%Z = (2 ^ Z.of_nat b)%Z) by lia.
    rewrite H. rewrite Z.mod_same by lia. reflexivity.
  - rewrite Z.mod_small by lia. lia.
Qed.

(* non-vacuity: a 4-bucket DivMod table after inserting 5 and 9 (both ideal 1) finds both *)
Example probing_example :
  let n := 4 in let ideal := ideal_of DivMod n in let next := next_of DivMod n in
  match insert n ideal next {| cells := empty_cells n; entries := 0 |} (5%Z, 50%Z) with
  | Ok t1 => match insert n ideal next t1 (9%Z, 90%Z) with
             | Ok t2 => find n ideal next t2 9%Z = Ok (Some 90%Z) /\ find n ideal next t2 13%Z = Ok None
             | _ => False end
  | _ => False end.
Proof. vm_compute. split; reflexivity. Qed.

(* ---- whole operation sequences against the abstract map ---------------------------------------- *)
Section Seq.
  Variable n : nat.
  Hypothesis Hn : 0 < n.
  Variable ideal : Z -> nat.
  Hypothesis ideal_lt : forall k, ideal k < n.
  Variable next : nat -> nat.
  Hypothesis next_is : forall i, i < n -> next i = nxt n i.
  Local Open Scope Z_scope.

  (* the specification: a finite map with a capacity; Insert requires a fresh key (as the header says) *)
  Fixpoint arun (m : list (Z * Z)) (ops : list op) : list out :=
    match ops with
    | [] => []
    | OFind k :: r => RFind (alookup m k) :: arun m r
    | OFoi k v :: r => match alookup m k with
                       | Some v0 => RFoi true v0 :: arun m r
                       | None => if Z.of_nat (length m) + 1 >=? Z.of_nat n then [RThrow]
                                 else RFoi false v :: arun ((k, v) :: m) r end
    | OIns k v :: r => if Z.of_nat (length m) + 1 >=? Z.of_nat n then [RThrow]
                       else RIns :: arun ((k, v) :: m) r
    end.

  (* legal use: no invalid (0) keys; Insert only of keys not present *)
  Fixpoint ops_ok (m : list (Z * Z)) (ops : list op) : Prop :=
    match ops with
    | [] => True
    | OFind k :: r => k <> 0 /\ ops_ok m r
    | OFoi k v :: r => k <> 0 /\ match alookup m k with Some _ => ops_ok m r | None => ops_ok ((k, v) :: m) r end
    | OIns k v :: r => k <> 0 /\ alookup m k = None /\ ops_ok ((k, v) :: m) r
    end.

  Theorem run_refines : forall ops t m, rep n ideal t m -> ops_ok m ops -> run n ideal next t ops = arun m ops.
  Proof.
    induction ops as [|o ops IH]; intros t m R Hok; [reflexivity|].
    destruct o as [k|k v|k v]; cbn [run arun ops_ok] in *.
    - destruct Hok as [Hk Hok]. rewrite (find_refines n Hn ideal ideal_lt next next_is t m k R Hk).
      f_equal. apply IH; assumption.
    - destruct Hok as [Hk Hok].
      pose proof (find_or_insert_refines n Hn ideal ideal_lt next next_is t m k v R Hk) as H.
      destruct (alookup m k) as [v0|].
      + rewrite H. f_equal. apply IH; assumption.
      + destruct (Z.of_nat (length m) + 1 >=? Z.of_nat n).
        * rewrite H. reflexivity.
        * destruct H as [t' [H1 H2]]. rewrite H1. f_equal. apply IH; assumption.
    - destruct Hok as [Hk [Hfresh Hok]].
      pose proof (insert_refines n Hn ideal ideal_lt next next_is t m k v R Hk Hfresh) as H.
      destruct (Z.of_nat (length m) + 1 >=? Z.of_nat n).
      + rewrite H. reflexivity.
      + destruct H as [t' [H1 H2]]. rewrite H1. f_equal. apply IH; assumption.
  Qed.

  (* in particular the probe loops never run out of fuel on legal sequences *)
  Corollary run_no_fuel : forall ops t m, rep n ideal t m -> ops_ok m ops -> ~ In RFuel (run n ideal next t ops).
  Proof.
    intros ops t m R Hok. rewrite (run_refines ops t m R Hok). clear R t.
    revert m Hok. induction ops as [|o ops IH]; intros m Hok; simpl; [tauto|].
    destruct o as [k|k v|k v]; cbn [ops_ok] in Hok.
    - destruct Hok as [_ Hok]. simpl. intros [H|H]; [discriminate|apply (IH m Hok H)].
    - destruct Hok as [_ Hok]. destruct (alookup m k).
      + simpl. intros [H|H]; [discriminate|apply (IH m Hok H)].
      + destruct (Z.of_nat (length m) + 1 >=? Z.of_nat n); simpl.
        * intros [H|H]; [discriminate|exact H].
        * intros [H|H]; [discriminate|apply (IH _ Hok H)].
    - destruct Hok as [_ [_ Hok]]. destruct (Z.of_nat (length m) + 1 >=? Z.of_nat n); simpl.
      + intros [H|H]; [discriminate|exact H].
      + intros [H|H]; [discriminate|apply (IH _ Hok H)].
  Qed.
End Seq.

Definition empty_table (n : nat) : table := {| cells := empty_cells n; entries := 0 |}.

Theorem divmod_refines_map : forall n ops, 0 < n -> ops_ok [] ops ->
  run n (ideal_of DivMod n) (next_of DivMod n) (empty_table n) ops = arun n [] ops.
Proof.
  intros n ops Hn Hok. apply run_refines; try assumption.
  - intros k. apply divmod_ideal_lt. exact Hn.
  - intros i Hi. apply divmod_next_is. exact Hi.
  - apply rep_empty. exact Hn.
Qed.

Theorem pow2_refines_map : forall b ops, ops_ok [] ops ->
  run (2 ^ b) (ideal_of Power2Mod (2 ^ b)) (next_of Power2Mod (2 ^ b)) (empty_table (2 ^ b)) ops = arun (2 ^ b) [] ops.
Proof.
  intros b ops Hok.
  assert (Hn : 0 < 2 ^ b) by (pose proof (Nat.pow_nonzero 2 b ltac:(lia)); lia).
  apply run_refines; try assumption.
  - intros k. apply pow2_ideal_lt.
  - intros i Hi. apply pow2_next_is. exact Hi.
  - apply rep_empty. exact Hn.
Qed.

(* the abstract map run depends on the capacity only through the exception *)
Lemma arun_capacity_irrelevant : forall ops n1 n2 m,
  ~ In RThrow (arun n1 m ops) -> ~ In RThrow (arun n2 m ops) -> arun n1 m ops = arun n2 m ops.
Proof.
  induction ops as [|o ops IH]; intros n1 n2 m H1 H2; [reflexivity|].
  destruct o as [k|k v|k v]; cbn [arun] in *.
  - f_equal. apply IH; intros H; [apply H1|apply H2]; right; exact H.
  - destruct (alookup m k).
    + f_equal. apply IH; intros H; [apply H1|apply H2]; right; exact H.
    + destruct (Z.of_nat (length m) + 1 >=? Z.of_nat n1)%Z; [exfalso; apply H1; left; reflexivity|].
      destruct (Z.of_nat (length m) + 1 >=? Z.of_nat n2)%Z; [exfalso; apply H2; left; reflexivity|].
      f_equal. apply IH; intros H; [apply H1|apply H2]; right; exact H.
  - destruct (Z.of_nat (length m) + 1 >=? Z.of_nat n1)%Z; [exfalso; apply H1; left; reflexivity|].
    destruct (Z.of_nat (length m) + 1 >=? Z.of_nat n2)%Z; [exfalso; apply H2; left; reflexivity|].
    f_equal. apply IH; intros H; [apply H1|apply H2]; right; exact H.
Qed.
