(* C20/MiddleAProofs.v -- BitPackedMiddle<ArrayBhiksha> (C20/MiddleModel.v: the generated bit-packing routines + the offset table of
   C03/BhikshaModel.v) is the same sorted array of (word, payload, child range) records as the DontBhiksha variant: although a
   record stores only the low bits of its next pointer, Find returns the FULL pointers [next_p, next_{p+1}) for every non-decreasing
   pointer sequence and every number of inline bits.  From mid_refines / next_field_read (MiddleProofs) applied to the records with
   truncated pointers, and read_after_write / write_spec (C03/BhikshaProofs). *)
From Coq Require Import ZArith Lia Bool List.
From Kenlm Require Import Base.Mem Gen.BitPacking Gen.SortedUniform C20.ArrayModel C20.ArrayProofs C20.SearchModel C20.SearchProofs
                          C20.MiddleModel C20.MiddleProofs C03.BhikshaModel C03.BhikshaProofs.
Import ListNotations.
Local Open Scope Z_scope.
Arguments Z.ones : simpl never.
Arguments Z.testbit : simpl never.
Arguments Z.mul : simpl never.
Arguments Z.add : simpl never.
Arguments Z.sub : simpl never.
Arguments Z.pow : simpl never.
Arguments Z.land : simpl never.
Arguments Z.shiftr : simpl never.

(* the offset table does not depend on the inline values carried along *)
Definition offs_run (b : Z) (offs : list Z) (i : Z) (vs : list Z) : list Z := fst (write_all_from b (offs, []) i vs).

Lemma wn_offs : forall b offs inls i v, fst (write_next b (offs, inls) i v) = fst (write_next b (offs, []) i v).
Proof. intros. unfold write_next. reflexivity. Qed.

Lemma waf_offs : forall vs b offs inls i, fst (write_all_from b (offs, inls) i vs) = offs_run b offs i vs.
Proof.
  induction vs as [|v r IH]; intros b offs inls i; [reflexivity|].
  unfold offs_run. cbn [write_all_from].
  destruct (write_next b (offs, inls) i v) as [o1 i1] eqn:E1. destruct (write_next b (offs, []) i v) as [o2 i2] eqn:E2.
  assert (o1 = o2) by (pose proof (wn_offs b offs inls i v) as H; rewrite E1, E2 in H; exact H). subst o2.
  rewrite !IH. reflexivity.
Qed.

Lemma offs_run_cons : forall b offs i v r, offs_run b offs i (v :: r) = offs_run b (fst (write_next b (offs, []) i v)) (i + 1) r.
Proof.
  intros. unfold offs_run at 1. cbn [write_all_from]. destruct (write_next b (offs, []) i v) as [o1 i1]. cbn [fst]. apply waf_offs.
Qed.

Lemma offs_run_app : forall vs ws b offs i,
  offs_run b offs i (vs ++ ws) = offs_run b (offs_run b offs i vs) (i + Z.of_nat (length vs)) ws.
Proof.
  induction vs as [|v r IH]; intros ws b offs i.
  - cbn [app length Z.of_nat]. rewrite Z.add_0_r. reflexivity.
  - cbn [app length]. rewrite !offs_run_cons, IH. f_equal. lia.
Qed.

Lemma offs_run_one : forall b offs i v, offs_run b offs i [v] = fst (write_next b (offs, []) i v).
Proof. intros. rewrite offs_run_cons. reflexivity. Qed.

Lemma read_next_as_2 : forall b st p,
  read_next b st p = read_next2 b (fst st) p (nth (Z.to_nat p) (snd st) 0) (nth (Z.to_nat (p + 1)) (snd st) 0).
Proof. intros b [offs inls] p. reflexivity. Qed.

Definition lowrec (b : Z) (r : Z * Z * Z) : Z * Z * Z := (fst r, low b (snd r)).

Lemma midA_inserts_split : forall m recs mem offs i,
  midA_inserts m (mem, offs) i recs = (mid_inserts m mem i (map (lowrec (m_nb m)) recs), offs_run (m_nb m) offs i (map snd recs)).
Proof.
  intros m. induction recs as [|[[w p] x] rest IH]; intros mem offs i; [reflexivity|].
  cbn [midA_inserts midA_insert map mid_inserts snd]. rewrite IH, offs_run_cons. reflexivity.
Qed.

Section MiddleA.
  Variable m : mid.
  Hypothesis Hbase : 0 <= m_base m.
  Hypothesis Hwb : 0 <= m_wb m <= 57.
  Hypothesis Hqb : 0 <= m_qb m <= 57.
  Hypothesis Hnb : 0 <= m_nb m <= 57.
  Let tb := m_tb m.
  Let b := m_nb m.

  Variable recs : list (Z * Z * Z).
  Variable next_end : Z.
  Variable mem0 : Z.
  Let n := Z.of_nat (length recs).
  Let nexts := map snd recs ++ [next_end].
  Hypothesis Hwords : Forall (fun r => 0 <= fst (fst r) < 2 ^ m_wb m /\ 0 <= snd (fst r) < 2 ^ m_qb m) recs.
  Hypothesis Hsorted : sorted nexts.
  Hypothesis Hnonneg : nonneg nexts.
  Hypothesis Hzero : forall i, 8 * m_base m <= i < 8 * m_base m + (n + 1) * tb -> Z.testbit mem0 i = false.

  Definition stA : Z * list Z := midA_finish m (midA_inserts m (mem0, []) 0 recs) n next_end.

  Let lrecs := map (lowrec b) recs.

  Lemma low_range : forall v, 0 <= low b v < 2 ^ b.
  Proof.
    intros v. unfold low. rewrite Z.land_ones by (unfold b; lia). apply Z.mod_pos_bound. apply Z.pow_pos_nonneg; unfold b; lia.
  Qed.

  Lemma lrecs_ok : Forall (rec_ok m) lrecs.
  Proof.
    unfold lrecs. apply Forall_forall. intros r Hr. apply in_map_iff in Hr. destruct Hr as [r0 [<- Hin]].
    rewrite Forall_forall in Hwords. destruct (Hwords r0 Hin) as [W1 W2].
    unfold rec_ok, lowrec. cbn [fst snd]. split; [exact W1|split; [exact W2|apply low_range]].
  Qed.

  Lemma lrecs_len : Z.of_nat (length lrecs) = n.
  Proof. unfold lrecs, n. rewrite map_length. reflexivity. Qed.

  Lemma stA_split : stA = (mem' m lrecs (low b next_end) mem0, fst (bhiksha_write b nexts)).
  Proof.
    unfold stA. rewrite midA_inserts_split. unfold midA_finish. fold b. unfold mem'. fold lrecs. rewrite lrecs_len.
    f_equal.
    unfold bhiksha_write, nexts.
    pose proof (waf_offs (map snd recs ++ [next_end]) b [] [] 0) as Hw.
    destruct (write_all_from b ([], []) 0 (map snd recs ++ [next_end])) as [o i]. cbn [fst] in *. subst o.
    rewrite offs_run_app. rewrite map_length. fold n. rewrite Z.add_0_l. rewrite offs_run_one. reflexivity.
  Qed.

  Definition nextA (k : Z) : Z := nth (Z.to_nat k) nexts 0.

  Lemma nexts_len : length nexts = S (length recs).
  Proof. unfold nexts. rewrite app_length, map_length. cbn [length]. lia. Qed.

  Lemma lrecs_next : forall k, 0 <= k <= n -> next_of lrecs (low b next_end) k = low b (nextA k).
  Proof.
    intros k Hk. unfold next_of, nextA, nexts. rewrite lrecs_len.
    destruct (Z.ltb_spec k n) as [Hlt|Hge].
    - rewrite app_nth1 by (rewrite map_length; unfold n in Hlt; lia).
      unfold lrecs. change (0, 0, 0) with (lowrec b (0, 0, 0)) at 1.
      + rewrite map_nth. unfold lowrec. cbn [snd]. f_equal.
        symmetry. exact (map_nth snd recs (0, 0, 0) (Z.to_nat k)).
    - assert (Ek : Z.to_nat k = length (map snd recs)) by (rewrite map_length; unfold n in *; lia).
      rewrite Ek, nth_middle. reflexivity.
  Qed.

  Lemma inls_are_low :
    map (fun k => ReadInt57 (fst stA) (m_base m) (Z.of_nat k * m_tb m + m_wb m + m_qb m) (m_nb m) (Z.ones (m_nb m))) (seq 0 (length nexts))
    = map (low b) nexts.
  Proof.
    rewrite stA_split. cbn [fst].
    set (F := fun k : nat => ReadInt57 (mem' m lrecs (low b next_end) mem0) (m_base m) (Z.of_nat k * m_tb m + m_wb m + m_qb m) (m_nb m) (Z.ones (m_nb m))).
    apply nth_ext with (d := F 0%nat) (d' := low b 0); [rewrite !map_length, seq_length; reflexivity|].
    intros k Hk. rewrite map_length, seq_length in Hk.
    rewrite !map_nth. rewrite seq_nth by exact Hk. cbn [plus]. unfold F.
    rewrite nexts_len in Hk.
    pose proof (next_field_read m Hbase Hwb Hqb Hnb lrecs (low b next_end) mem0 lrecs_ok (low_range next_end)) as Hread.
    rewrite lrecs_len in Hread. specialize (Hread Hzero (Z.of_nat k) ltac:(unfold n; lia)).
    rewrite Hread. rewrite lrecs_next by (unfold n; lia).
    unfold nextA. rewrite Nat2Z.id. reflexivity.
  Qed.

  Theorem midA_refines : forall fuel word lo hi, 0 <= lo -> lo <= hi -> hi <= n -> m_max_vocab m < 2 ^ 32 ->
    (forall i j, lo <= i -> i <= j -> j < hi -> word_of recs i <= word_of recs j) ->
    (forall i, lo <= i < hi -> word_of recs i <= m_max_vocab m) -> 0 <= word <= m_max_vocab m -> hi - lo <= 2 ^ 32 ->
    (Z.of_nat fuel >= Z.max 1 (hi - lo + 1)) ->
    exists res, midA_find m fuel stA word lo hi = Some res /\
      match res with
      | Some (p, pay, cb, ce) => lo <= p < hi /\ word_of recs p = word /\ pay = pay_of recs p /\ cb = nextA p /\ ce = nextA (p + 1)
      | None => forall i, lo <= i < hi -> word_of recs i <> word
      end.
  Proof.
    intros fuel word lo hi Hlo Hlh Hhn Hmv Hsw Hle Hword Hwidth Hfuel.
    assert (Ew : forall k, word_of lrecs k = word_of recs k).
    { intros k. unfold word_of, lrecs. change (0, 0, 0) with (lowrec b (0, 0, 0)) at 1. rewrite map_nth. reflexivity. }
    assert (Ep : forall k, pay_of lrecs k = pay_of recs k).
    { intros k. unfold pay_of, lrecs. change (0, 0, 0) with (lowrec b (0, 0, 0)) at 1. rewrite map_nth. reflexivity. }
    pose proof (mid_refines m Hbase Hwb Hqb Hnb lrecs (low b next_end) mem0 lrecs_ok (low_range next_end)) as Href.
    rewrite lrecs_len in Href. specialize (Href Hzero fuel word lo hi Hlo Hlh Hhn Hmv).
    destruct Href as [res [Hfind Hres]]; try assumption.
    - intros i j Hi Hij Hj. rewrite !Ew. apply Hsw; assumption.
    - intros i Hi. rewrite Ew. apply Hle. exact Hi.
    - unfold midA_find. rewrite stA_split. rewrite Hfind. destruct res as [[[[p pay] cb0] ce0]|].
      + destruct Hres as [Hp [Hwp [Hpay [Hcb Hce]]]].
        rewrite Hcb, Hce, !lrecs_next by lia.
        pose proof (f_equal snd (write_spec b ltac:(unfold b; lia) nexts Hsorted Hnonneg)) as Hws. cbn [snd] in Hws.
        pose proof (read_after_write b ltac:(unfold b; lia) nexts p Hsorted Hnonneg ltac:(lia) ltac:(rewrite nexts_len; unfold n in *; lia)) as Hraw.
        rewrite read_next_as_2, Hws in Hraw. unfold nextA in *.
        change 0 with (low b 0) in Hraw at 1 2. rewrite !map_nth in Hraw.
        cbn [fst]. fold b. rewrite Hraw.
        eexists. split; [reflexivity|]. rewrite Ew in Hwp. rewrite Ep in Hpay.
        split; [exact Hp|]. split; [exact Hwp|]. split; [exact Hpay|]. split; reflexivity.
      + eexists. split; [reflexivity|]. intros i Hi. rewrite <- Ew. apply Hres. exact Hi.
  Qed.
End MiddleA.

(* the model computes and the hypotheses are satisfiable: pointers 0, 300, 300, 1000 with 4 inline bits *)
Example middleA_example :
  let m := {| m_base := 1; m_wb := 4; m_qb := 6; m_nb := 4; m_max_vocab := 12 |} in
  let recs := [(2, 40, 0); (5, 7, 300); (9, 63, 300)] in
  let st := midA_finish m (midA_inserts m (0, []) 0 recs) 3 1000 in
  (midA_find m 6 st 5 0 3, midA_find m 6 st 9 0 3, midA_find m 6 st 7 0 3, midA_find m 6 st 2 0 3) =
  (Some (Some (1, 7, 300, 300)), Some (Some (2, 63, 300, 1000)), Some None, Some (Some (0, 40, 0, 300))).
Proof. vm_compute. reflexivity. Qed.
