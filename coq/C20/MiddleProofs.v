(* C20/MiddleProofs.v -- BitPackedMiddle<DontBhiksha> (C20/MiddleModel.v, over the generated bit-packing routines) is a sorted
   array of (word, payload, child range) records: after any sequence of Insert calls and FinishedLoading on zeroed memory, Find of a
   word inside a parent range whose words are sorted returns the record holding that word -- its index, its payload and the child
   range [its next pointer, the following record's next pointer) -- or reports absence exactly when no record of the range holds
   the word.  Assembled from record_array_read_back (ArrayProofs), bounded_find_correct and pivot32_ok (SearchProofs). *)
From Coq Require Import ZArith Lia Bool List.
From Kenlm Require Import Base.Mem Gen.BitPacking Gen.SortedUniform C20.BitPackingProofs C20.ArrayModel C20.ArrayProofs
                          C20.SearchModel C20.SearchProofs C20.MiddleModel.
Import ListNotations.
Local Open Scope Z_scope.
Arguments Z.ones : simpl never.
Arguments Z.testbit : simpl never.
Arguments Z.mul : simpl never.
Arguments Z.add : simpl never.
Arguments Z.sub : simpl never.
Arguments Z.pow : simpl never.

Section Middle.
  Variable m : mid.
  Hypothesis Hbase : 0 <= m_base m.
  Hypothesis Hwb : 0 <= m_wb m <= 57.
  Hypothesis Hqb : 0 <= m_qb m <= 57.
  Hypothesis Hnb : 0 <= m_nb m <= 57.
  Let tb := m_tb m.

  Definition fw : field := {| f_k := W57; f_off := 0; f_len := m_wb m |}.
  Definition fq : field := {| f_k := W57; f_off := m_wb m; f_len := m_qb m |}.
  Definition fn : field := {| f_k := W57; f_off := m_wb m + m_qb m; f_len := m_nb m |}.

  Fixpoint cells (i : Z) (recs : list (Z * Z * Z)) : list cell :=
    match recs with
    | [] => []
    | (w, p, x) :: rest => (i, fw, w) :: (i, fq, p) :: (i, fn, x) :: cells (i + 1) rest
    end.

  Lemma mid_insert_cells : forall mem i r,
    mid_insert m mem i r = fold_left (do_write (m_base m)) (map (cell_write tb) (cells i [r])) mem.
  Proof.
    intros mem i [[w p] x]. unfold mid_insert. cbn [cells map fold_left]. unfold do_write, cell_write, rec_write. cbn [w_k w_off w_len w_val fst snd f_k f_off f_len fw fq fn].
    fold tb. replace (i * tb + 0) with (i * tb) by lia. replace (i * tb + (m_wb m + m_qb m)) with (i * tb + m_wb m + m_qb m) by lia. reflexivity.
  Qed.

  Lemma mid_inserts_cells : forall recs mem i,
    mid_inserts m mem i recs = fold_left (do_write (m_base m)) (map (cell_write tb) (cells i recs)) mem.
  Proof.
    induction recs as [|r rest IH]; intros mem i; [reflexivity|].
    cbn [mid_inserts]. rewrite IH, mid_insert_cells. destruct r as [[w p] x]. cbn [cells map fold_left]. reflexivity.
  Qed.

  Lemma mid_finish_cell : forall mem n x,
    mid_finish m mem n x = fold_left (do_write (m_base m)) (map (cell_write tb) [(n, fn, x)]) mem.
  Proof.
    intros mem n x. unfold mid_finish. cbn [map fold_left]. unfold do_write, cell_write, rec_write. cbn [w_k w_off w_len w_val fst snd f_k f_off f_len fn].
    fold tb. replace (n * tb + (tb - m_nb m)) with (n * tb + (m_wb m + m_qb m)) by (unfold tb, m_tb; lia). reflexivity.
  Qed.

  (* record indices of the cells *)
  Lemma cells_index : forall recs i c, In c (cells i recs) -> i <= fst (fst c) < i + Z.of_nat (length recs).
  Proof.
    induction recs as [|[[w p] x] rest IH]; intros i c H; [destruct H|].
    cbn [cells In length] in *. rewrite Nat2Z.inj_succ.
    destruct H as [<-|[<-|[<-|H]]]; cbn [fst]; try lia. specialize (IH (i + 1) c H). lia.
  Qed.

  Lemma fields_ok : fok tb fw /\ fok tb fq /\ fok tb fn /\ fdisj fw fq /\ fdisj fw fn /\ fdisj fq fn.
  Proof. unfold fok, fdisj, fw, fq, fn, tb, m_tb. cbn [f_off f_len f_k maxlen]. repeat split; lia. Qed.

  Lemma cells_apart : forall recs i x, 0 <= i ->
    ForallOrdPairs cell_apart (cells i recs ++ [(i + Z.of_nat (length recs), fn, x)]).
  Proof.
    destruct fields_ok as [_ [_ [_ [D1 [D2 D3]]]]].
    induction recs as [|[[w p] y] rest IH]; intros i x Hi.
    - cbn. constructor; [constructor|constructor].
    - cbn [cells app length]. rewrite Nat2Z.inj_succ.
      replace (i + Z.succ (Z.of_nat (length rest))) with (i + 1 + Z.of_nat (length rest)) by lia.
      assert (Later : forall c, In c (cells (i + 1) rest ++ [(i + 1 + Z.of_nat (length rest), fn, x)]) -> fst (fst c) <> i).
      { intros c Hc. apply in_app_or in Hc. destruct Hc as [Hc|[<-|[]]]; [pose proof (cells_index rest (i + 1) c Hc); lia|cbn [fst]; lia]. }
      constructor; [|constructor; [|constructor; [|apply IH; lia]]].
      + constructor; [right; exact D1|]. constructor; [right; exact D2|].
        apply Forall_forall. intros c Hc. left. cbn [fst]. intros E. apply (Later c Hc). congruence.
      + constructor; [right; exact D3|].
        apply Forall_forall. intros c Hc. left. cbn [fst]. intros E. apply (Later c Hc). congruence.
      + apply Forall_forall. intros c Hc. left. cbn [fst]. intros E. apply (Later c Hc). congruence.
  Qed.

  Definition rec_ok (r : Z * Z * Z) : Prop :=
    0 <= fst (fst r) < 2 ^ m_wb m /\ 0 <= snd (fst r) < 2 ^ m_qb m /\ 0 <= snd r < 2 ^ m_nb m.

  Lemma cells_ok : forall recs i, 0 <= i -> Forall rec_ok recs -> Forall (cell_ok tb) (cells i recs).
  Proof.
    destruct fields_ok as [F1 [F2 [F3 _]]].
    induction recs as [|[[w p] x] rest IH]; intros i Hi H; [constructor|].
    inversion H as [|? ? [R1 [R2 R3]] Hr]. subst. cbn [fst snd] in *. cbn [cells].
    constructor; [split; [exact Hi|split; [exact F1|exact R1]]|].
    constructor; [split; [exact Hi|split; [exact F2|exact R2]]|].
    constructor; [split; [exact Hi|split; [exact F3|exact R3]]|]. apply IH; [lia|exact Hr].
  Qed.

  (* which cells exist *)
  Lemma cells_nth : forall recs i k, 0 <= k < Z.of_nat (length recs) ->
    let r := nth (Z.to_nat k) recs (0, 0, 0) in
    In (i + k, fw, fst (fst r)) (cells i recs) /\ In (i + k, fq, snd (fst r)) (cells i recs) /\ In (i + k, fn, snd r) (cells i recs).
  Proof.
    induction recs as [|[[w p] x] rest IH]; intros i k Hk; cbn [length] in Hk; [lia|].
    rewrite Nat2Z.inj_succ in Hk. cbn zeta.
    destruct (Z.eq_dec k 0) as [->|Hne].
    - cbn [Z.to_nat nth fst snd cells]. rewrite Z.add_0_r. cbn [In]. tauto.
    - assert (Ek : Z.to_nat k = S (Z.to_nat (k - 1))) by lia. rewrite Ek. cbn [nth cells].
      specialize (IH (i + 1) (k - 1) ltac:(lia)). cbn zeta in IH. replace (i + 1 + (k - 1)) with (i + k) in IH by lia.
      destruct IH as [I1 [I2 I3]]. cbn [In]. tauto.
  Qed.

  (* ---- the theorem --------------------------------------------------------------------------------------------------- *)
  Variable recs : list (Z * Z * Z).
  Variable next_end : Z.
  Variable mem0 : Z.
  Let n := Z.of_nat (length recs).
  Hypothesis Hrecs : Forall rec_ok recs.
  Hypothesis Hend : 0 <= next_end < 2 ^ m_nb m.
  Hypothesis Hzero : forall i, 8 * m_base m <= i < 8 * m_base m + (n + 1) * tb -> Z.testbit mem0 i = false.

  Definition word_of (k : Z) : Z := fst (fst (nth (Z.to_nat k) recs (0, 0, 0))).
  Definition pay_of (k : Z) : Z := snd (fst (nth (Z.to_nat k) recs (0, 0, 0))).
  Definition next_of (k : Z) : Z := if k <? n then snd (nth (Z.to_nat k) recs (0, 0, 0)) else next_end.

  Definition L : list cell := cells 0 recs ++ [(n, fn, next_end)].
  Definition mem' : Z := mid_finish m (mid_inserts m mem0 0 recs) n next_end.

  Lemma mem'_fold : mem' = fold_left (do_write (m_base m)) (map (cell_write tb) L) mem0.
  Proof. unfold mem', L. rewrite mid_finish_cell, mid_inserts_cells, map_app, fold_left_app. reflexivity. Qed.

  Lemma L_ok : Forall (cell_ok tb) L.
  Proof.
    destruct fields_ok as [_ [_ [F3 _]]]. unfold L. apply Forall_app. split; [apply cells_ok; [lia|exact Hrecs]|].
    constructor; [|constructor]. split; [cbn [fst]; unfold n; lia|split; [exact F3|exact Hend]].
  Qed.

  Lemma L_apart : ForallOrdPairs cell_apart L.
  Proof. unfold L, n. pose proof (cells_apart recs 0 next_end ltac:(lia)) as H. rewrite Z.add_0_l in H. exact H. Qed.

  Lemma L_index : forall c, In c L -> 0 <= fst (fst c) <= n.
  Proof.
    intros c H. unfold L in H. apply in_app_or in H. destruct H as [H|[<-|[]]]; [pose proof (cells_index recs 0 c H); unfold n; lia|cbn [fst]; unfold n; lia].
  Qed.

  Lemma read_cell : forall c, In c L ->
    ReadInt57 mem' (m_base m) (fst (fst c) * tb + f_off (snd (fst c))) (f_len (snd (fst c))) (Z.ones (f_len (snd (fst c)))) = snd c.
  Proof.
    intros c Hin. rewrite mem'_fold.
    assert (Htb : 0 <= tb) by (unfold tb, m_tb; lia).
    pose proof L_ok as Hok. pose proof Hok as Hok'. rewrite Forall_forall in Hok'. destruct (Hok' c Hin) as [Hi [[F1 [F2 F3]] Hv]].
    apply (record_array_read_back (m_base m) tb L mem0 Hbase Htb Hok L_apart) with (k := W57); [|exact Hin|].
    - intros c' i Hc' Hw. apply Hzero.
      destruct (Hok' c' Hc') as [Hi' [[G1 [G2 G3]] _]]. pose proof (L_index c' Hc') as Hidx. nia.
    - destruct (snd (fst c)) as [k o l]. cbn [f_len f_k maxlen] in *. destruct k; cbn [maxlen] in F2; cbn [maxlen]; lia.
  Qed.

  Lemma key_is_word : forall k, 0 <= k < n -> mid_key m mem' k = word_of k.
  Proof.
    intros k Hk. destruct (cells_nth recs 0 k Hk) as [I1 _]. cbn zeta in I1. rewrite Z.add_0_l in I1.
    pose proof (read_cell (k, fw, word_of k) ltac:(unfold L; apply in_or_app; left; exact I1)) as H.
    cbn [fst snd f_off f_len fw] in H. rewrite Z.add_0_r in H. exact H.
  Qed.

  Lemma next_field_read : forall k, 0 <= k <= n ->
    ReadInt57 mem' (m_base m) (k * tb + m_wb m + m_qb m) (m_nb m) (Z.ones (m_nb m)) = next_of k.
  Proof.
    intros k Hk. unfold next_of. destruct (Z.ltb_spec k n) as [Hlt|Hge].
    - destruct (cells_nth recs 0 k ltac:(lia)) as [_ [_ I3]]. cbn zeta in I3. rewrite Z.add_0_l in I3.
      pose proof (read_cell (k, fn, snd (nth (Z.to_nat k) recs (0, 0, 0))) ltac:(unfold L; apply in_or_app; left; exact I3)) as H3.
      cbn [fst snd f_off f_len fn] in H3. rewrite <- H3. f_equal. lia.
    - assert (Ek : k = n) by lia. subst k.
      pose proof (read_cell (n, fn, next_end) ltac:(unfold L; apply in_or_app; right; left; reflexivity)) as H4.
      cbn [fst snd f_off f_len fn] in H4. rewrite <- H4. f_equal. lia.
  Qed.

  Theorem mid_refines : forall fuel word b e, 0 <= b -> b <= e -> e <= n -> m_max_vocab m < 2 ^ 32 ->
    (forall i j, b <= i -> i <= j -> j < e -> word_of i <= word_of j) ->
    (forall i, b <= i < e -> word_of i <= m_max_vocab m) -> 0 <= word <= m_max_vocab m -> e - b <= 2 ^ 32 ->
    (Z.of_nat fuel >= Z.max 1 (e - b + 1)) ->
    exists res, mid_find m fuel mem' word b e = Some res /\
      match res with
      | Some (p, pay, cb, ce) => b <= p < e /\ word_of p = word /\ pay = pay_of p /\ cb = next_of p /\ ce = next_of (p + 1)
      | None => forall i, b <= i < e -> word_of i <> word
      end.
  Proof.
    intros fuel word b e Hb Hbe Hen Hmv Hsorted Hle Hword Hwidth Hfuel.
    assert (Hw0 : forall k, 0 <= k < n -> 0 <= word_of k < 2 ^ m_wb m).
    { intros k Hk. unfold word_of. pose proof Hrecs as HR. rewrite Forall_forall in HR.
      destruct (HR (nth (Z.to_nat k) recs (0, 0, 0))) as [R1 _]; [apply nth_In; unfold n in Hk; lia|exact R1]. }
    destruct (bounded_find_correct (mid_key m mem') Pivot32_Calc (2 ^ 32) (2 ^ 32) ltac:(lia) fuel (b - 1) 0 e (m_max_vocab m) word pivot32_ok)
      as [r [Hr Hspec]].
    - intros i j Hi Hij Hj. rewrite !key_is_word by lia. apply Hsorted; lia.
    - intros i Hi. rewrite key_is_word by lia. pose proof (Hw0 i ltac:(lia)). pose proof (Hle i ltac:(lia)). lia.
    - lia.
    - lia.
    - lia.
    - exact Hmv.
    - lia.
    - lia.
    - unfold mid_find. rewrite Hr. destruct r as [p|].
      + destruct Hspec as [Hp Hk]. rewrite key_is_word in Hk by lia.
        eexists. split; [reflexivity|].
        destruct (cells_nth recs 0 p ltac:(lia)) as [_ [I2 I3]]. cbn zeta in I2, I3. rewrite Z.add_0_l in I2, I3.
        pose proof (read_cell (p, fq, pay_of p) ltac:(unfold L; apply in_or_app; left; exact I2)) as H2.
        pose proof (read_cell (p, fn, snd (nth (Z.to_nat p) recs (0, 0, 0))) ltac:(unfold L; apply in_or_app; left; exact I3)) as H3.
        cbn [fst snd f_off f_len fq fn] in H2, H3. fold tb.
        split; [lia|]. split; [exact Hk|]. split; [exact H2|].
        split.
        * unfold next_of. replace (p <? n) with true by (symmetry; apply Z.ltb_lt; lia).
          rewrite <- H3. f_equal. lia.
        * unfold next_of. destruct (Z.ltb_spec (p + 1) n) as [Hlt|Hge].
          -- destruct (cells_nth recs 0 (p + 1) ltac:(lia)) as [_ [_ I4]]. cbn zeta in I4. rewrite Z.add_0_l in I4.
             pose proof (read_cell (p + 1, fn, snd (nth (Z.to_nat (p + 1)) recs (0, 0, 0))) ltac:(unfold L; apply in_or_app; left; exact I4)) as H4.
             cbn [fst snd f_off f_len fn] in H4. rewrite <- H4. f_equal. unfold tb. lia.
          -- assert (Ep : p + 1 = n) by lia.
             pose proof (read_cell (n, fn, next_end) ltac:(unfold L; apply in_or_app; right; left; reflexivity)) as H4.
             cbn [fst snd f_off f_len fn] in H4. rewrite <- H4. f_equal. rewrite <- Ep. unfold tb. lia.
      + eexists. split; [reflexivity|]. intros i Hi. rewrite <- key_is_word by lia. apply Hspec. lia.
  Qed.
End Middle.

(* the model computes, and the theorem's hypotheses are satisfiable: three records, words 2 < 5 < 9 *)
Example middle_example :
  let m := {| m_base := 1; m_wb := 4; m_qb := 6; m_nb := 5; m_max_vocab := 12 |} in
  let recs := [(2, 40, 0); (5, 7, 3); (9, 63, 3)] in
  let mem := mid_finish m (mid_inserts m 0 0 recs) 3 17 in
  (mid_find m 6 mem 5 0 3, mid_find m 6 mem 9 0 3, mid_find m 6 mem 7 0 3, mid_find m 6 mem 2 1 3) =
  (Some (Some (1, 7, 3, 3)), Some (Some (2, 63, 3, 17)), Some None, Some None).
Proof. vm_compute. reflexivity. Qed.
