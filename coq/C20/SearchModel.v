(* Executable model of util/sorted_uniform.hh: BinaryFind, BoundedSortedUniformFind, SortedUniformFind.
   The array is a function Z -> Z (index -> key); positions are Z.  Results: None = out of fuel,
   Some None = `return false`, Some (Some p) = `out = p; return true`. *)
From Coq Require Import ZArith List Bool.
From Kenlm Require Import Base.Mem.
Local Open Scope Z_scope.

Section Search.
  Variable a : Z -> Z.
  (* Pivot::Calc(off, range, width) *)
  Variable pivot : Z -> Z -> Z -> Z.

  Fixpoint bounded_find (fuel : nat) (bi bv ai av key : Z) : option (option Z) :=
    match fuel with
    | O => None
    | S f =>
        if ai - bi >? 1 then
          let p := bi + (1 + pivot (wrap 64 (key - bv)) (wrap 64 (av - bv)) (ai - bi - 1)) in
          let mid := a p in
          if mid <? key then bounded_find f p mid ai av key
          else if mid >? key then bounded_find f bi bv p mid key
          else Some (Some p)
        else Some None
    end.

  Fixpoint binary_find (fuel : nat) (b e key : Z) : option (option Z) :=
    match fuel with
    | O => None
    | S f =>
        if e >? b then
          let p := b + (e - b) / 2 in
          let mid := a p in
          if mid <? key then binary_find f (p + 1) e key
          else if mid >? key then binary_find f b p key
          else Some (Some p)
        else Some None
    end.

  Definition sorted_uniform_find (fuel : nat) (b e key : Z) : option (option Z) :=
    if b =? e then Some None
    else
      let below := a b in
      if key <=? below then (if key =? below then Some (Some b) else Some None)
      else
        let e1 := e - 1 in
        let above := a e1 in
        if key >=? above then (if key =? above then Some (Some e1) else Some None)
        else bounded_find fuel b below e1 above key.
End Search.

(* Pivot64::Calc: the float expression is an arbitrary function f; the cap is the code's *)
Definition Pivot64_Calc (f : Z -> Z -> Z -> Z) (off range width : Z) : Z :=
  let ret := f off range width in if ret <? width then ret else width - 1.
