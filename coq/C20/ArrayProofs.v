(* C20/ArrayProofs.v -- "a bit-packed array is an array", for the generated WriteInt57 / WriteInt25 / ReadInt57 / ReadInt25:
   any sequence of writes at pairwise disjoint bit windows into memory that is zero there (the documented precondition of the
   write routines) can be read back field by field, whatever the order of the writes and whichever of the two routines wrote or
   reads a field; bits outside every window are untouched.  Instantiated to the records of lm/trie.cc (word, quantised payload,
   next pointer per record). *)
From Coq Require Import ZArith Lia Bool List.
From Kenlm Require Import Base.Mem Base.Fuel Gen.BitPacking C20.BitPackingProofs C20.ArrayModel.
Import ListNotations.
Local Open Scope Z_scope.
Arguments Z.ones : simpl never.
Arguments Z.testbit : simpl never.
Arguments Z.mul : simpl never.
Arguments Z.add : simpl never.
Arguments Z.sub : simpl never.
Arguments Z.pow : simpl never.

Inductive wkind := W25 | W57.
Definition maxlen (k : wkind) : Z := match k with W25 => 25 | W57 => 57 end.
Record wrt := { w_k : wkind; w_off : Z; w_len : Z; w_val : Z }.

Definition do_write (base : Z) (mem : Z) (w : wrt) : Z :=
  match w_k w with
  | W57 => WriteInt57 mem base (w_off w) (w_len w) (w_val w)
  | W25 => WriteInt25 mem base (w_off w) (w_len w) (w_val w)
  end.
Definition do_read (mem base : Z) (k : wkind) (off len : Z) : Z :=
  match k with
  | W57 => ReadInt57 mem base off len (Z.ones len)
  | W25 => ReadInt25 mem base off len (Z.ones len)
  end.

Definition wok (w : wrt) : Prop := 0 <= w_off w /\ 0 <= w_len w <= maxlen (w_k w) /\ 0 <= w_val w < 2 ^ w_len w.
Definition wdisj (a b : wrt) : Prop := w_off a + w_len a <= w_off b \/ w_off b + w_len b <= w_off a.

(* bit i of the memory after one write *)
Lemma do_write_bit : forall base mem w i, 0 <= base -> wok w -> 0 <= i ->
  Z.testbit (do_write base mem w) i =
  Z.testbit mem i || ((8 * base + w_off w <=? i) && Z.testbit (w_val w) (i - (8 * base + w_off w))).
Proof.
  intros base mem w i Hb [Ho [Hl Hv]] Hi. unfold do_write. destruct (w_k w) eqn:Ek; cbn [maxlen] in Hl.
  - rewrite WriteInt25_is_wr by lia. apply (wr_bit 32 ltac:(lia) mem base (w_off w) (w_len w)); lia.
  - rewrite WriteInt57_is_wr by lia. apply (wr_bit 64 ltac:(lia) mem base (w_off w) (w_len w)); lia.
Qed.

(* bit i of a field read *)
Lemma do_read_bit : forall mem base k off len i, 0 <= base -> 0 <= off -> 0 <= len <= maxlen k -> 0 <= i ->
  Z.testbit (do_read mem base k off len) i = Z.testbit mem (8 * base + off + i) && (i <? len).
Proof.
  intros mem base k off len i Hb Ho Hl Hi. unfold do_read. destruct k; cbn [maxlen] in Hl.
  - rewrite ReadInt25_is_rd by lia. apply (rd_bit 32 ltac:(lia)); lia.
  - rewrite ReadInt57_is_rd by lia. apply (rd_bit 64 ltac:(lia)); lia.
Qed.

(* bit i after a whole sequence of writes: the old bit or the corresponding bit of some written value *)
Fixpoint contrib (base : Z) (ws : list wrt) (i : Z) : bool :=
  match ws with
  | [] => false
  | w :: r => ((8 * base + w_off w <=? i) && Z.testbit (w_val w) (i - (8 * base + w_off w))) || contrib base r i
  end.

Lemma writes_bit : forall base ws mem i, 0 <= base -> Forall wok ws -> 0 <= i ->
  Z.testbit (fold_left (do_write base) ws mem) i = Z.testbit mem i || contrib base ws i.
Proof.
  intros base ws. induction ws as [|w r IH]; intros mem i Hb Hok Hi; cbn [fold_left contrib]; [rewrite orb_false_r; reflexivity|].
  inversion Hok as [|? ? Hw Hr]. subst. rewrite IH by assumption. rewrite do_write_bit by assumption.
  rewrite <- orb_assoc. reflexivity.
Qed.

(* a write contributes nothing outside its window *)
Lemma contrib_outside_one : forall base w i, 0 <= base -> wok w -> 0 <= i ->
  (i < 8 * base + w_off w \/ 8 * base + w_off w + w_len w <= i) ->
  (8 * base + w_off w <=? i) && Z.testbit (w_val w) (i - (8 * base + w_off w)) = false.
Proof.
  intros base w i Hb [Ho [Hl Hv]] Hi Hout. destruct (Z.leb_spec (8 * base + w_off w) i); [|reflexivity]. cbn [andb].
  apply small_no_high_bits with (w_len w); lia.
Qed.

Lemma contrib_outside : forall base ws i, 0 <= base -> Forall wok ws -> 0 <= i ->
  (forall w, In w ws -> i < 8 * base + w_off w \/ 8 * base + w_off w + w_len w <= i) ->
  contrib base ws i = false.
Proof.
  intros base ws. induction ws as [|w r IH]; intros i Hb Hok Hi Hout; cbn [contrib]; [reflexivity|].
  inversion Hok as [|? ? Hw Hr]. subst.
  rewrite (contrib_outside_one base w i Hb Hw Hi (Hout w (or_introl eq_refl))). cbn [orb].
  apply IH; try assumption. intros w' Hin. apply Hout. right. exact Hin.
Qed.

(* inside the window of one of pairwise disjoint writes, only that write contributes *)
Lemma contrib_inside : forall base ws w i, 0 <= base -> Forall wok ws -> ForallOrdPairs wdisj ws -> In w ws -> 0 <= i ->
  8 * base + w_off w <= i < 8 * base + w_off w + w_len w ->
  contrib base ws i = Z.testbit (w_val w) (i - (8 * base + w_off w)).
Proof.
  intros base ws. induction ws as [|x r IH]; intros w i Hb Hok Hd Hin Hi Hw; [destruct Hin|].
  inversion Hok as [|? ? Hx Hr]. subst. inversion Hd as [|? ? Hxr Hdr]. subst. cbn [contrib].
  destruct Hin as [->|Hin].
  - destruct (Z.leb_spec (8 * base + w_off w) i); [|lia]. cbn [andb].
    rewrite (contrib_outside base r i Hb Hr Hi); [apply orb_false_r|].
    intros w' Hin'. rewrite Forall_forall in Hxr. destruct (Hxr w' Hin') as [D|D]; lia.
  - assert (Hdx : wdisj x w) by (rewrite Forall_forall in Hxr; apply Hxr; exact Hin).
    rewrite (contrib_outside_one base x i Hb Hx Hi ltac:(destruct Hdx; lia)). cbn [orb].
    apply IH; assumption.
Qed.

(* ---- the theorem ---------------------------------------------------------------------------------------------------- *)
Theorem disjoint_writes_read_back : forall base ws mem, 0 <= base -> Forall wok ws -> ForallOrdPairs wdisj ws ->
  (forall w i, In w ws -> 8 * base + w_off w <= i < 8 * base + w_off w + w_len w -> Z.testbit mem i = false) ->
  let mem' := fold_left (do_write base) ws mem in
  (forall w k, In w ws -> w_len w <= maxlen k -> do_read mem' base k (w_off w) (w_len w) = w_val w) /\
  (forall i, 0 <= i -> (forall w, In w ws -> i < 8 * base + w_off w \/ 8 * base + w_off w + w_len w <= i) ->
             Z.testbit mem' i = Z.testbit mem i).
Proof.
  intros base ws mem Hb Hok Hd Hz. cbn zeta. split.
  - intros w k Hin Hk. pose proof Hok as Hok'. rewrite Forall_forall in Hok'. destruct (Hok' w Hin) as [Ho [Hl Hv]].
    apply Z.bits_inj'. intros i Hi.
    rewrite do_read_bit by lia. rewrite writes_bit by (assumption || lia).
    destruct (Z.ltb_spec i (w_len w)).
    + rewrite andb_true_r. rewrite (Hz w (8 * base + w_off w + i) Hin) by lia. cbn [orb].
      rewrite (contrib_inside base ws w (8 * base + w_off w + i) Hb Hok Hd Hin) by lia.
      f_equal. lia.
    + rewrite andb_false_r. symmetry. apply small_no_high_bits with (w_len w); lia.
  - intros i Hi Hout. rewrite writes_bit by assumption. rewrite (contrib_outside base ws i Hb Hok Hi Hout). apply orb_false_r.
Qed.

(* ---- records of a bit-packed array: field f of record i sits at bit i*tb + off_f ------------------------------------------ *)
Record field := { f_k : wkind; f_off : Z; f_len : Z }.
Definition fok (tb : Z) (f : field) : Prop := 0 <= f_off f /\ 0 <= f_len f <= maxlen (f_k f) /\ f_off f + f_len f <= tb.
Definition fdisj (a b : field) : Prop := f_off a + f_len a <= f_off b \/ f_off b + f_len b <= f_off a.
Definition rec_write (tb : Z) (i : Z) (f : field) (v : Z) : wrt :=
  {| w_k := f_k f; w_off := i * tb + f_off f; w_len := f_len f; w_val := v |}.

Lemma rec_writes_disjoint : forall tb i j f g v u, 0 <= tb -> 0 <= i -> 0 <= j -> fok tb f -> fok tb g ->
  (i <> j \/ fdisj f g) -> wdisj (rec_write tb i f v) (rec_write tb j g u).
Proof.
  intros tb i j f g v u Ht Hi Hj [F1 [F2 F3]] [G1 [G2 G3]] H. unfold wdisj, rec_write. cbn [w_off w_len].
  destruct (Z.lt_trichotomy i j) as [L|[E|L]].
  - left. nia.
  - subst j. destruct H as [H|H]; [congruence|]. destruct H; [left|right]; lia.
  - right. nia.
Qed.

Definition cell := (Z * field * Z)%type.          (* record index, field, value *)
Definition cell_write (tb : Z) (c : cell) : wrt := rec_write tb (fst (fst c)) (snd (fst c)) (snd c).
Definition cell_ok (tb : Z) (c : cell) : Prop := 0 <= fst (fst c) /\ fok tb (snd (fst c)) /\ 0 <= snd c < 2 ^ f_len (snd (fst c)).
Definition cell_apart (a b : cell) : Prop := fst (fst a) <> fst (fst b) \/ fdisj (snd (fst a)) (snd (fst b)).

Lemma fop_map : forall (A B : Type) (R : A -> A -> Prop) (S : B -> B -> Prop) (f : A -> B) (l : list A),
  (forall a b, In a l -> In b l -> R a b -> S (f a) (f b)) -> ForallOrdPairs R l -> ForallOrdPairs S (map f l).
Proof.
  intros A B R S f l. induction l as [|x r IH]; intros H HF; cbn [map]; [constructor|].
  inversion HF as [|? ? Hx Hr]. subst. constructor.
  - rewrite Forall_forall in *. intros y Hy. apply in_map_iff in Hy. destruct Hy as [a [<- Ha]].
    apply H; [left; reflexivity|right; exact Ha|apply Hx; exact Ha].
  - apply IH; [|exact Hr]. intros a b Ha Hb. apply H; right; assumption.
Qed.

(* any set of (record, field) cells of a bit-packed array, written in any order by either routine into memory that is zero
   there, reads back cell by cell; everything outside the cells is untouched *)
Theorem record_array_read_back : forall base tb (L : list cell) mem, 0 <= base -> 0 <= tb ->
  Forall (cell_ok tb) L -> ForallOrdPairs cell_apart L ->
  (forall c i, In c L -> 8 * base + (fst (fst c) * tb + f_off (snd (fst c))) <= i <
                         8 * base + (fst (fst c) * tb + f_off (snd (fst c))) + f_len (snd (fst c)) -> Z.testbit mem i = false) ->
  let mem' := fold_left (do_write base) (map (cell_write tb) L) mem in
  forall c k, In c L -> f_len (snd (fst c)) <= maxlen k ->
    do_read mem' base k (fst (fst c) * tb + f_off (snd (fst c))) (f_len (snd (fst c))) = snd c.
Proof.
  intros base tb L mem Hb Ht Hok Hap Hz. cbn zeta. intros c k Hin Hk.
  assert (Hwok : Forall wok (map (cell_write tb) L)).
  { rewrite Forall_forall in *. intros w Hw. apply in_map_iff in Hw. destruct Hw as [c' [<- Hc']].
    destruct (Hok c' Hc') as [Hi [[F1 [F2 F3]] Hv]]. unfold wok, cell_write, rec_write. cbn [w_off w_len w_val w_k].
    split; [nia|]. split; [exact F2|exact Hv]. }
  assert (Hwd : ForallOrdPairs wdisj (map (cell_write tb) L)).
  { apply (fop_map _ _ cell_apart wdisj (cell_write tb) L); [|exact Hap].
    intros a b Ha Hb' Hab. rewrite Forall_forall in Hok. destruct (Hok a Ha) as [Ia [Fa _]]. destruct (Hok b Hb') as [Ib [Fb _]].
    unfold cell_write. apply rec_writes_disjoint; assumption. }
  destruct (disjoint_writes_read_back base (map (cell_write tb) L) mem Hb Hwok Hwd) as [HR _].
  - intros w i Hw Hi. apply in_map_iff in Hw. destruct Hw as [c' [<- Hc']]. apply (Hz c' i Hc'). exact Hi.
  - apply (HR (cell_write tb c) k); [apply in_map; exact Hin|exact Hk].
Qed.

(* the hypotheses are satisfiable and the functions compute: two records of (19-bit word, 8-bit payload, 13-bit next) *)
Example two_records :
  let fw := {| f_k := W25; f_off := 0; f_len := 19 |} in
  let fq := {| f_k := W57; f_off := 19; f_len := 8 |} in
  let fn := {| f_k := W57; f_off := 27; f_len := 13 |} in
  let L := [(1, fn, 4097); (0, fw, 300000); (0, fq, 200); (1, fw, 7); (0, fn, 5); (1, fq, 255)] in
  let mem' := fold_left (do_write 3) (map (cell_write 40) L) 0 in
  (do_read mem' 3 W25 0 19, do_read mem' 3 W57 19 8, do_read mem' 3 W57 27 13,
   do_read mem' 3 W25 40 19, do_read mem' 3 W57 59 8, do_read mem' 3 W57 67 13) = (300000, 200, 5, 7, 255, 4097).
Proof. vm_compute. reflexivity. Qed.
