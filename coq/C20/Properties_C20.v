(* C20 -- the property theorems and nothing else.  Each is closed by `exact <lemma>`; vlib runs
   Print Assumptions on every one of them on every check run. *)
From Coq Require Import ZArith.
From Kenlm Require Import Base.Mem Gen.BitPacking C20.BitPackingProofs.
Local Open Scope Z_scope.

(* A value written at any bit offset with any width <= 57 into zeroed target bits reads back unchanged. *)
Theorem C20_read_after_write_57 : forall mem base off len v,
  0 <= base -> 0 <= off -> 0 <= len <= 57 -> 0 <= v < 2 ^ len ->
  ReadInt57 mem base off len (Z.ones len) = 0 ->
  ReadInt57 (WriteInt57 mem base off len v) base off len (Z.ones len) = v.
Proof. exact read_after_write_57. Qed.

(* ... and leaves every neighbouring bit of the whole memory untouched. *)
Theorem C20_write_frames_57 : forall mem base off len v i,
  0 <= base -> 0 <= off -> 0 <= len <= 57 -> 0 <= v < 2 ^ len -> 0 <= i ->
  (i < 8 * base + off \/ 8 * base + off + len <= i) ->
  Z.testbit (WriteInt57 mem base off len v) i = Z.testbit mem i.
Proof. exact write_frames_57. Qed.

Theorem C20_read_other_write_57 : forall mem base off len v off2 len2, 0 <= base -> 0 <= off -> 0 <= off2 ->
  0 <= len <= 57 -> 0 <= len2 <= 57 -> 0 <= v < 2 ^ len -> (off2 + len2 <= off \/ off + len <= off2) ->
  ReadInt57 (WriteInt57 mem base off len v) base off2 len2 (Z.ones len2) = ReadInt57 mem base off2 len2 (Z.ones len2).
Proof. exact read_other_write_57. Qed.

Theorem C20_read_after_write_25 : forall mem base off len v,
  0 <= base -> 0 <= off -> 0 <= len <= 25 -> 0 <= v < 2 ^ len ->
  ReadInt25 mem base off len (Z.ones len) = 0 ->
  ReadInt25 (WriteInt25 mem base off len v) base off len (Z.ones len) = v.
Proof. exact read_after_write_25. Qed.

Theorem C20_write_frames_25 : forall mem base off len v i,
  0 <= base -> 0 <= off -> 0 <= len <= 25 -> 0 <= v < 2 ^ len -> 0 <= i ->
  (i < 8 * base + off \/ 8 * base + off + len <= i) ->
  Z.testbit (WriteInt25 mem base off len v) i = Z.testbit mem i.
Proof. exact write_frames_25. Qed.

Theorem C20_float32_roundtrip : forall mem base off v, 0 <= base -> 0 <= off -> 0 <= v < 2 ^ 32 ->
  ReadFloat32 mem base off = 0 ->
  ReadFloat32 (WriteFloat32 mem base off v) base off = v.
Proof. exact float32_roundtrip. Qed.

(* sign bit forced: every non-positive float (bit pattern >= 2^31) round-trips through 31 bits *)
Theorem C20_float31_roundtrip : forall mem base off v, 0 <= base -> 0 <= off -> 2 ^ 31 <= v < 2 ^ 32 ->
  rd 64 mem base off (Z.ones 31) = 0 ->
  ReadNonPositiveFloat31 (WriteNonPositiveFloat31 mem base off v) base off = v.
Proof. exact float31_roundtrip. Qed.

Theorem C20_required_bits : forall x, 0 <= x < 2 ^ 64 ->
  RequiredBits 65 x = Some (if x =? 0 then 0 else Z.log2 x + 1).
Proof. exact required_bits_spec. Qed.
