(* C20 -- the property theorems and nothing else.  Each is closed by `exact <lemma>`; vlib runs
   Print Assumptions on every one of them on every check run. *)
From Coq Require Import ZArith.
From Coq Require Import List.
From Kenlm Require Import Base.Mem Gen.BitPacking Gen.SortedUniform C20.BitPackingProofs C20.ProbingModel C20.ProbingProofs C20.SearchModel C20.SearchProofs.
Import ListNotations.
Local Open Scope Z_scope.

(* A value written at any bit offset with any width <= 57 into zeroed target bits reads back unchanged. *)
Theorem C20_read_after_write_57 : forall mem base off len v,
  0 <= base -> 0 <= off -> 0 <= len <= 57 -> 0 <= v < 2 ^ len ->
  ReadInt57 mem base off len (Z.ones len) = 0 ->
  ReadInt57 (WriteInt57 mem base off len v) base off len (Z.ones len) = v.
Proof. exact read_after_write_57. Qed.

(* ... and leaves every neighbouring bit of the whole memory untouched. *)
Theorem C20_write_frames_57 : forall mem base off len v i,
  0 <= base -> 0 <= off -> 0 <= len <= 57 -> 0 <= v < 2 ^ len -> 0 <= i ->
  (i < 8 * base + off \/ 8 * base + off + len <= i) ->
  Z.testbit (WriteInt57 mem base off len v) i = Z.testbit mem i.
Proof. exact write_frames_57. Qed.

Theorem C20_read_other_write_57 : forall mem base off len v off2 len2, 0 <= base -> 0 <= off -> 0 <= off2 ->
  0 <= len <= 57 -> 0 <= len2 <= 57 -> 0 <= v < 2 ^ len -> (off2 + len2 <= off \/ off + len <= off2) ->
  ReadInt57 (WriteInt57 mem base off len v) base off2 len2 (Z.ones len2) = ReadInt57 mem base off2 len2 (Z.ones len2).
Proof. exact read_other_write_57. Qed.

Theorem C20_read_after_write_25 : forall mem base off len v,
  0 <= base -> 0 <= off -> 0 <= len <= 25 -> 0 <= v < 2 ^ len ->
  ReadInt25 mem base off len (Z.ones len) = 0 ->
  ReadInt25 (WriteInt25 mem base off len v) base off len (Z.ones len) = v.
Proof. exact read_after_write_25. Qed.

Theorem C20_write_frames_25 : forall mem base off len v i,
  0 <= base -> 0 <= off -> 0 <= len <= 25 -> 0 <= v < 2 ^ len -> 0 <= i ->
  (i < 8 * base + off \/ 8 * base + off + len <= i) ->
  Z.testbit (WriteInt25 mem base off len v) i = Z.testbit mem i.
Proof. exact write_frames_25. Qed.

Theorem C20_float32_roundtrip : forall mem base off v, 0 <= base -> 0 <= off -> 0 <= v < 2 ^ 32 ->
  ReadFloat32 mem base off = 0 ->
  ReadFloat32 (WriteFloat32 mem base off v) base off = v.
Proof. exact float32_roundtrip. Qed.

(* sign bit forced: every non-positive float (bit pattern >= 2^31) round-trips through 31 bits *)
Theorem C20_float31_roundtrip : forall mem base off v, 0 <= base -> 0 <= off -> 2 ^ 31 <= v < 2 ^ 32 ->
  rd 64 mem base off (Z.ones 31) = 0 ->
  ReadNonPositiveFloat31 (WriteNonPositiveFloat31 mem base off v) base off = v.
Proof. exact float31_roundtrip. Qed.

Theorem C20_required_bits : forall x, 0 <= x < 2 ^ 64 ->
  RequiredBits 65 x = Some (if x =? 0 then 0 else Z.log2 x + 1).
Proof. exact required_bits_spec. Qed.

(* ---- probing hash table: any legal operation sequence (non-invalid keys, Insert only of absent keys) behaves
        exactly like a finite map with a capacity: lookups return the bound value or absence, FindOrInsert finds
        or inserts, and the operation that would fill the last bucket throws -- for every bucket count and both
        mod policies.  (run stops at the first exception; RFuel = probe loop exhausted, which arun never yields.) *)
Theorem C20_probing_refines_map_divmod : forall n ops, (0 < n)%nat -> ops_ok [] ops ->
  run n (ideal_of DivMod n) (next_of DivMod n) (empty_table n) ops = arun n [] ops.
Proof. exact divmod_refines_map. Qed.

Theorem C20_probing_refines_map_pow2 : forall b ops, ops_ok [] ops ->
  run (2 ^ b) (ideal_of Power2Mod (2 ^ b)) (next_of Power2Mod (2 ^ b)) (empty_table (2 ^ b)) ops = arun (2 ^ b) [] ops.
Proof. exact pow2_refines_map. Qed.

(* one step, from any state representing a map: FindOrInsert at capacity raises instead of looping *)
Theorem C20_probing_capacity_throws : forall n ideal next t m k v, (0 < n)%nat -> (forall k, (ideal k < n)%nat) ->
  (forall i, (i < n)%nat -> next i = nxt n i) -> rep n ideal t m -> k <> 0 -> alookup m k = None ->
  (Z.of_nat (length m) + 1 >=? Z.of_nat n) = true ->
  find_or_insert n ideal next t (k, v) = Throw /\ insert n ideal next t (k, v) = Throw.
Proof.
  intros n ideal next t m k v Hn Hi Hx R Hk Hnone Hfull. split.
  - pose proof (find_or_insert_refines n Hn ideal Hi next Hx t m k v R Hk) as H. rewrite Hnone, Hfull in H. exact H.
  - pose proof (insert_refines n Hn ideal Hi next Hx t m k v R Hk Hnone) as H. rewrite Hfull in H. exact H.
Qed.

Theorem C20_probe_terminates : forall n ops, (0 < n)%nat -> ops_ok [] ops ->
  ~ In RFuel (run n (ideal_of DivMod n) (next_of DivMod n) (empty_table n) ops).
Proof.
  intros n ops Hn Hok. apply (run_no_fuel n Hn (ideal_of DivMod n) (fun k => divmod_ideal_lt n k Hn) (next_of DivMod n)
    (fun i Hi => divmod_next_is n i Hi) ops (empty_table n) []); [apply rep_empty; exact Hn|exact Hok].
Qed.

(* ---- interpolation / binary search.  For ANY pivot function that is below the width whenever it is asked about
        off <= range < R and 0 < width <= Wd (exactly what the loop passes), over any sorted array with values in [0,R):
        reports the key present exactly when it occurs, with a position holding it, and terminates. *)
Theorem C20_bounded_find_correct : forall a pivot R Wd, R <= 2 ^ 64 -> forall fuel b e key,
  pivot_ok pivot R Wd -> b <= e -> e - b - 2 <= Wd ->
  (forall i j, b <= i -> i <= j -> j < e -> a i <= a j) ->
  (forall i, b <= i < e -> 0 <= a i < R) -> 0 <= key < R ->
  (Z.of_nat fuel >= Z.max 1 (e - b)) ->
  exists r, sorted_uniform_find a pivot fuel b e key = Some r /\
    match r with
    | Some p => b <= p < e /\ a p = key
    | None => forall i, b <= i < e -> a i <> key
    end.
Proof. exact sorted_uniform_find_correct. Qed.

(* instantiated with the translator-generated Pivot32::Calc: 32-bit keys (word indices), up to 2^32 elements *)
Theorem C20_sorted_uniform_find_pivot32 : forall a fuel b e key,
  b <= e -> e - b - 2 <= 2 ^ 32 ->
  (forall i j, b <= i -> i <= j -> j < e -> a i <= a j) ->
  (forall i, b <= i < e -> 0 <= a i < 2 ^ 32) -> 0 <= key < 2 ^ 32 ->
  (Z.of_nat fuel >= Z.max 1 (e - b)) ->
  exists r, sorted_uniform_find a Pivot32_Calc fuel b e key = Some r /\
    match r with
    | Some p => b <= p < e /\ a p = key
    | None => forall i, b <= i < e -> a i <> key
    end.
Proof. exact sorted_uniform_find_pivot32. Qed.

Theorem C20_binary_find_correct : forall a fuel b e key,
  (forall i j, b <= i -> i <= j -> j < e -> a i <= a j) ->
  (Z.of_nat fuel >= Z.max 1 (e - b + 1)) ->
  exists r, binary_find a fuel b e key = Some r /\
    match r with
    | Some p => b <= p < e /\ a p = key
    | None => forall i, b <= i < e -> a i <> key
    end.
Proof. exact binary_find_correct. Qed.

Theorem C20_pivot32_in_range : forall off range width,
  0 <= off <= range -> range + 1 < 2 ^ 64 -> 0 < width -> off * width < 2 ^ 64 ->
  0 <= Pivot32_Calc off range width < width.
Proof. exact pivot32_in_range. Qed.

Theorem C20_pivot64_in_range : forall f off range width, 0 < width -> 0 <= f off range width ->
  0 <= Pivot64_Calc f off range width < width.
Proof. exact pivot64_in_range. Qed.

(* ---- bit-packed record arrays (lm/trie.cc): the size BaseSize() asks for covers every 64-bit access made for any
        field of any record, the closing record included; with C20_read_after_write_57 / C20_write_frames_57 and the
        disjointness of records this makes a bit-packed array an array. *)
From Kenlm Require Import C20.ArrayModel.
Theorem C20_bitpacked_array_in_bounds : forall entries max_vocab remaining i off,
  0 <= entries -> 0 <= max_vocab -> 0 <= remaining -> 0 <= i <= entries ->
  0 <= off < bits_needed max_vocab + remaining ->
  (i * (bits_needed max_vocab + remaining) + off) / 8 + 8 <= bitpacked_base_size entries max_vocab remaining.
Proof. exact record_access_in_bounds. Qed.

(* ---- ProbingHashTable::Double (in place) and AutoProbing growth (util/probing_hash_table.hh):
        doubling keeps the map, the entry count and re-establishes the probing invariant for the doubled bucket count --
        wrapped-around entries included -- for both mod policies; AutoProbing::FindOrInsert therefore refines an
        unbounded map and never throws or runs out of fuel. *)
From Kenlm Require Import C20.DoubleProofs.
Theorem C20_double_preserves_map : forall m old ent mm,
  policy_ok m (length old) ->
  rep (length old) (ideal_of m (length old)) {| cells := old; entries := ent |} mm ->
  exists c3, double_cells m old = Some c3 /\ length c3 = (2 * length old)%nat /\
             rep (2 * length old) (ideal_of m (2 * length old)) {| cells := c3; entries := ent |} mm.
Proof. exact double_refines. Qed.

Theorem C20_auto_probing_refines_map : forall ops a mm, arep a mm -> Forall (fun kv => fst kv <> 0) ops ->
  auto_run a ops = amap_run mm ops.
Proof. exact auto_run_refines. Qed.

(* ---- "a bit-packed array is an array": for the GENERATED write/read routines, any sequence of writes at pairwise disjoint bit
        windows -- in any order, by either the 25-bit or the 57-bit routine -- into memory that is zero there reads back window
        by window (through either routine that is wide enough), and no other bit changes; instantiated to the cells (record i,
        field f) of a bit-packed record array with any field layout inside the record width. *)
From Kenlm Require Import C20.ArrayProofs.
Theorem C20_disjoint_writes_read_back : forall base ws mem, 0 <= base -> Forall wok ws -> ForallOrdPairs wdisj ws ->
  (forall w i, In w ws -> 8 * base + w_off w <= i < 8 * base + w_off w + w_len w -> Z.testbit mem i = false) ->
  let mem' := fold_left (do_write base) ws mem in
  (forall w k, In w ws -> w_len w <= maxlen k -> do_read mem' base k (w_off w) (w_len w) = w_val w) /\
  (forall i, 0 <= i -> (forall w, In w ws -> i < 8 * base + w_off w \/ 8 * base + w_off w + w_len w <= i) ->
             Z.testbit mem' i = Z.testbit mem i).
Proof. exact disjoint_writes_read_back. Qed.

Theorem C20_record_array_read_back : forall base tb (L : list cell) mem, 0 <= base -> 0 <= tb ->
  Forall (cell_ok tb) L -> ForallOrdPairs cell_apart L ->
  (forall c i, In c L -> 8 * base + (fst (fst c) * tb + f_off (snd (fst c))) <= i <
                         8 * base + (fst (fst c) * tb + f_off (snd (fst c))) + f_len (snd (fst c)) -> Z.testbit mem i = false) ->
  let mem' := fold_left (do_write base) (map (cell_write tb) L) mem in
  forall c k, In c L -> f_len (snd (fst c)) <= maxlen k ->
    do_read mem' base k (fst (fst c) * tb + f_off (snd (fst c))) (f_len (snd (fst c))) = snd c.
Proof. exact record_array_read_back. Qed.

(* ---- lm/trie.cc BitPackedMiddle<DontBhiksha> over the generated routines is a sorted array of (word, payload, child range)
        records: after Insert* and FinishedLoading on zeroed memory, Find of a word inside a parent range whose words are sorted
        returns the record holding it (index, payload, [its next pointer, the following record's next pointer)) and reports
        absence exactly when no record of the range holds the word. *)
From Kenlm Require Import C20.MiddleModel C20.MiddleProofs.
Theorem C20_middle_array_refines_sorted_records : forall m, 0 <= m_base m -> 0 <= m_wb m <= 57 -> 0 <= m_qb m <= 57 -> 0 <= m_nb m <= 57 ->
  forall recs next_end mem0, Forall (rec_ok m) recs -> 0 <= next_end < 2 ^ m_nb m ->
  (forall i, 8 * m_base m <= i < 8 * m_base m + (Z.of_nat (length recs) + 1) * m_tb m -> Z.testbit mem0 i = false) ->
  forall fuel word b e, 0 <= b -> b <= e -> e <= Z.of_nat (length recs) -> m_max_vocab m < 2 ^ 32 ->
  (forall i j, b <= i -> i <= j -> j < e -> word_of recs i <= word_of recs j) ->
  (forall i, b <= i < e -> word_of recs i <= m_max_vocab m) -> 0 <= word <= m_max_vocab m -> e - b <= 2 ^ 32 ->
  (Z.of_nat fuel >= Z.max 1 (e - b + 1)) ->
  exists res, mid_find m fuel (mem' m recs next_end mem0) word b e = Some res /\
    match res with
    | Some (p, pay, cb, ce) => b <= p < e /\ word_of recs p = word /\ pay = pay_of recs p /\
                               cb = next_of recs next_end p /\ ce = next_of recs next_end (p + 1)
    | None => forall i, b <= i < e -> word_of recs i <> word
    end.
Proof. exact mid_refines. Qed.

(* C20: BitPackedMiddle<ArrayBhiksha> -- records keep only the low m_nb bits of the next pointer inline, the rest lives in the offset
        table -- is the SAME sorted record array: for every non-decreasing, non-negative pointer sequence and every number of inline
        bits, Find returns index, payload and the FULL child range [next_p, next_{p+1}), and reports absence exactly when no record
        of the range holds the word. *)
From Kenlm Require Import C20.MiddleAProofs C03.BhikshaModel C03.BhikshaProofs.
Theorem C20_middle_array_bhiksha_refines_sorted_records : forall m, 0 <= m_base m -> 0 <= m_wb m <= 57 -> 0 <= m_qb m <= 57 -> 0 <= m_nb m <= 57 ->
  forall recs next_end mem0,
  Forall (fun r => 0 <= fst (fst r) < 2 ^ m_wb m /\ 0 <= snd (fst r) < 2 ^ m_qb m) recs ->
  sorted (map snd recs ++ [next_end]) -> nonneg (map snd recs ++ [next_end]) ->
  (forall i, 8 * m_base m <= i < 8 * m_base m + (Z.of_nat (length recs) + 1) * m_tb m -> Z.testbit mem0 i = false) ->
  forall fuel word lo hi, 0 <= lo -> lo <= hi -> hi <= Z.of_nat (length recs) -> m_max_vocab m < 2 ^ 32 ->
  (forall i j, lo <= i -> i <= j -> j < hi -> word_of recs i <= word_of recs j) ->
  (forall i, lo <= i < hi -> word_of recs i <= m_max_vocab m) -> 0 <= word <= m_max_vocab m -> hi - lo <= 2 ^ 32 ->
  (Z.of_nat fuel >= Z.max 1 (hi - lo + 1)) ->
  exists res, midA_find m fuel (stA m recs next_end mem0) word lo hi = Some res /\
    match res with
    | Some (p, pay, cb, ce) => lo <= p < hi /\ word_of recs p = word /\ pay = pay_of recs p /\
                               cb = nextA recs next_end p /\ ce = nextA recs next_end (p + 1)
    | None => forall i, lo <= i < hi -> word_of recs i <> word
    end.
Proof. exact midA_refines. Qed.

(* C20: WriteNonPositiveFloat31 stores exactly the low 31 bits of the pattern -- also for +0.0 (a log probability of exactly 0 is valid
        ARPA) and for any other 32-bit pattern -- so it never touches the neighbouring field; ReadNonPositiveFloat31 forces the sign on. *)
From Kenlm Require Import C03.TrieMemProofs.
Theorem C20_float31_is_31_bit_field : forall mem base off v, 0 <= v < 2 ^ 32 -> 0 <= off ->
  WriteNonPositiveFloat31 mem base off v = WriteInt57 mem base off 31 (v mod 2 ^ 31) /\
  ReadNonPositiveFloat31 mem base off = Z.lor (ReadInt57 mem base off 31 (Z.ones 31)) kSignBit.
Proof. intros mem base off v Hv Ho. split; [apply WriteFloat31_as_int; exact Hv|apply ReadFloat31_as_int; exact Ho]. Qed.
