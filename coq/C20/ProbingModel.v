(* Executable model of util::ProbingHashTable / AutoProbing (util/probing_hash_table.hh).
   No proofs here, so the model still runs when a proof breaks.
   Cells are (key, value); key 0 is the `invalid` key (empty cell).  Positions are nat. *)
From Coq Require Import ZArith List Bool Arith.
Import ListNotations.
Local Open Scope Z_scope.

Definition cell := (Z * Z)%type.
Definition getc (c : list cell) (i : nat) : cell := nth i c (0, 0).
Fixpoint setc (c : list cell) (i : nat) (x : cell) : list cell :=
  match c, i with
  | [], _ => []
  | _ :: r, O => x :: r
  | y :: r, S j => y :: setc r j x
  end.

Inductive modpolicy := DivMod | Power2Mod.

(* Mod::Ideal on the position level.  DivMod: hash % buckets.  Power2Mod: hash & mask, mask = buckets-1 *)
Definition ideal_of (m : modpolicy) (n : nat) (hash : Z) : nat :=
  match m with
  | DivMod => Z.to_nat (hash mod Z.of_nat n)
  | Power2Mod => Z.to_nat (Z.land hash (Z.of_nat n - 1))
  end.
(* Mod::Next: DivMod `if (++it == end) it = begin`, Power2Mod `(it - begin + 1) & mask` *)
Definition next_of (m : modpolicy) (n : nat) (i : nat) : nat :=
  match m with
  | DivMod => if Nat.eqb (S i) n then O else S i
  | Power2Mod => Z.to_nat (Z.land (Z.of_nat i + 1) (Z.of_nat n - 1))
  end.

Section Table.
  Variable n : nat.                 (* buckets *)
  Variable ideal : Z -> nat.        (* mod_.Ideal(begin_, hash_(key)) - begin_ *)
  Variable next : nat -> nat.

  (* the probe loop shared by Find / FindOrInsert / UnsafeMutableFind: key match is tested before invalid *)
  Fixpoint probe (fuel : nat) (c : list cell) (i : nat) (key : Z) : option (nat * bool) :=
    match fuel with
    | O => None
    | S f => let got := fst (getc c i) in
             if got =? key then Some (i, true)
             else if got =? 0 then Some (i, false)
             else probe f c (next i) key
    end.

  (* UncheckedInsert: first invalid cell from the ideal position *)
  Fixpoint probe_empty (fuel : nat) (c : list cell) (i : nat) : option nat :=
    match fuel with
    | O => None
    | S f => if fst (getc c i) =? 0 then Some i else probe_empty f c (next i)
    end.

  Inductive res (A : Type) := Ok (a : A) | Throw | OutOfFuel.
  Arguments Ok {A}. Arguments Throw {A}. Arguments OutOfFuel {A}.

  Record table := { cells : list cell; entries : Z }.

  Definition find (t : table) (key : Z) : res (option Z) :=
    match probe (S n) (cells t) (ideal key) key with
    | None => OutOfFuel
    | Some (i, true) => Ok (Some (snd (getc (cells t) i)))
    | Some (_, false) => Ok None
    end.

  Definition unchecked_insert (c : list cell) (kv : cell) : option (list cell) :=
    match probe_empty (S n) c (ideal (fst kv)) with
    | None => None
    | Some i => Some (setc c i kv)
    end.

  (* Insert: UTIL_THROW_IF(++entries_ >= buckets_) then UncheckedInsert *)
  Definition insert (t : table) (kv : cell) : res table :=
    let e := entries t + 1 in
    if e >=? Z.of_nat n then Throw
    else match unchecked_insert (cells t) kv with
         | None => OutOfFuel
         | Some c => Ok {| cells := c; entries := e |}
         end.

  (* FindOrInsert: returns (found?, value now stored under the key) *)
  Definition find_or_insert (t : table) (kv : cell) : res (table * bool * Z) :=
    match probe (S n) (cells t) (ideal (fst kv)) (fst kv) with
    | None => OutOfFuel
    | Some (i, true) => Ok (t, true, snd (getc (cells t) i))
    | Some (i, false) =>
        let e := entries t + 1 in
        if e >=? Z.of_nat n then Throw
        else Ok ({| cells := setc (cells t) i kv; entries := e |}, false, snd kv)
    end.
End Table.
Arguments Ok {A}. Arguments Throw {A}. Arguments OutOfFuel {A}.

(* ---- Double (in place, as the code does it) ----------------------------------------------------- *)
Definition empty_cells (n : nat) : list cell := repeat (0, 0) n.

(* first loop: move the roll-over prefix (occupied cells from position 0 up to the first invalid) aside *)
Fixpoint take_rolled (c : list cell) (limit : nat) : list cell * list cell :=
  match limit, c with
  | S l, x :: r => if fst x =? 0 then ([], c)
                   else let '(ro, r') := take_rolled r l in (x :: ro, (0, snd x) :: r')
  | _, _ => ([], c)
  end.

(* second loop of Double: for i in [0, old_end): if occupied, take the entry out and re-insert it *)
Section Reinsert.
  Variable n2 : nat.
  Variable ideal : Z -> nat.
  Variable next : nat -> nat.
  Fixpoint reinsert (k : nat) (i : nat) (c : list cell) : option (list cell) :=
    match k with
    | O => Some c
    | S k' => let x := getc c i in
              if fst x =? 0 then reinsert k' (S i) c
              else match unchecked_insert n2 ideal next (setc c i (0, snd x)) x with
                   | None => None
                   | Some c' => reinsert k' (S i) c'
                   end
    end.
  (* third loop: put the roll-over entries back *)
  Definition insert_all (rolled : list cell) (c : option (list cell)) : option (list cell) :=
    fold_left (fun acc x => match acc with None => None | Some c => unchecked_insert n2 ideal next c x end) rolled c.
End Reinsert.

Section Double.
  Variable m : modpolicy.
  Definition double_cells (old : list cell) : option (list cell) :=
    let n := length old in
    let n2 := (2 * n)%nat in
    let ideal := ideal_of m n2 in
    let next := next_of m n2 in
    let c0 := old ++ empty_cells n in
    let '(rolled, c1) := take_rolled c0 n in
    match reinsert n2 ideal next n O c1 with
    | None => None
    | Some c2 => insert_all n2 ideal next rolled (Some c2)
    end.
End Double.

(* AutoProbing (Power2Mod backend): threshold = min(buckets - 1, floor(buckets * 0.9)) *)
Record auto := { acells : list cell; aentries : Z }.
Definition threshold (n : nat) : Z := Z.min (Z.of_nat n - 1) (Z.of_nat n * 9 / 10).
Definition double_if_needed (a : auto) : option auto :=
  if aentries a <? threshold (length (acells a)) then Some a
  else match double_cells Power2Mod (acells a) with
       | None => None
       | Some c => Some {| acells := c; aentries := aentries a |}
       end.
Definition auto_find_or_insert (a : auto) (kv : cell) : res (auto * bool * Z) :=
  match double_if_needed a with
  | None => OutOfFuel
  | Some a1 =>
      let n := length (acells a1) in
      match find_or_insert n (ideal_of Power2Mod n) (next_of Power2Mod n) {| cells := acells a1; entries := aentries a1 |} kv with
      | Ok (t, f, v) => Ok ({| acells := cells t; aentries := entries t |}, f, v)
      | Throw => Throw
      | OutOfFuel => OutOfFuel
      end
  end.
Definition auto_find (a : auto) (key : Z) : res (option Z) :=
  let n := length (acells a) in
  find n (ideal_of Power2Mod n) (next_of Power2Mod n) {| cells := acells a; entries := aentries a |} key.

(* ---- operation sequences (used by the refinement theorem and by the correspondence driver) ---- *)
Inductive op := OFind (k : Z) | OFoi (k v : Z) | OIns (k v : Z).
Inductive out := RFind (r : option Z) | RFoi (found : bool) (v : Z) | RIns | RThrow | RFuel.

Section Run.
  Variable n : nat.
  Variable ideal : Z -> nat.
  Variable next : nat -> nat.
  (* the run stops at the first exception, as the driver does *)
  Fixpoint run (t : table) (ops : list op) : list out :=
    match ops with
    | [] => []
    | OFind k :: r => match find n ideal next t k with
                      | Ok x => RFind x :: run t r
                      | _ => [RFuel] end
    | OFoi k v :: r => match find_or_insert n ideal next t (k, v) with
                       | Ok (t', f, x) => RFoi f x :: run t' r
                       | Throw => [RThrow]
                       | OutOfFuel => [RFuel] end
    | OIns k v :: r => match insert n ideal next t (k, v) with
                       | Ok t' => RIns :: run t' r
                       | Throw => [RThrow]
                       | OutOfFuel => [RFuel] end
    end.
End Run.
