#!/usr/bin/env python3
"""cxx2gallina: regenerate Gallina definitions from kenlm's C++ source (DESIGN.md 2.3a).

Input : a tiny translation unit that #includes the real header/source, a list of function names.
Method: clang++ -fsyntax-only -Xclang -ast-dump=json gives a fully typed AST in which every integer
        promotion/conversion is an explicit ImplicitCastExpr.  The function body is lowered to a small IR
        (Assign | Store | If | While | Return) and emitted as a `let` chain over Z with the machine
        wrap written in (wrap 8/32/64).  Memory is one Z (Base/Mem.v): `*reinterpret_cast<uintN_t*>(p)`
        becomes loadN/storeN at the byte address p.  A float is its 32-bit pattern (only bit
        manipulation through the FloatEnc union is supported - no float arithmetic).
        Anything outside the supported subset raises Unsupported: the caller reports the tie as broken,
        it never silently skips.
Loops : `while` becomes a step function  st -> st * bool  run by Base.Fuel.while_fuel; the translated
        function then takes `fuel : nat` and returns `option`.
Signed `int` arithmetic is emitted without wrap (overflow is undefined behaviour in C++; the proofs
show the operands small).  x86-64 Linux data model (LP64, little endian).
"""
import json
import os
import re
import subprocess
import sys


class Unsupported(Exception):
    pass


INT_TYPES = {
    "unsigned char": ("u", 8), "uint8_t": ("u", 8), "unsigned short": ("u", 16), "uint16_t": ("u", 16),
    "unsigned int": ("u", 32), "uint32_t": ("u", 32), "unsigned long": ("u", 64), "uint64_t": ("u", 64),
    "unsigned long long": ("u", 64), "size_t": ("u", 64), "std::size_t": ("u", 64),
    "char": ("s", 8), "signed char": ("s", 8), "short": ("s", 16), "int": ("s", 32), "long": ("s", 64), "long long": ("s", 64),
    "int8_t": ("s", 8), "int16_t": ("s", 16), "int32_t": ("s", 32), "int64_t": ("s", 64),
    "bool": ("b", 1), "float": ("f", 32), "util::FloatEnc": ("f", 32), "FloatEnc": ("f", 32),
    "WordIndex": ("u", 32), "lm::WordIndex": ("u", 32),
}


def ctype(node_or_type):
    t = node_or_type.get("type", node_or_type) if isinstance(node_or_type, dict) else {"qualType": node_or_type}
    q = t.get("desugaredQualType", t.get("qualType", ""))
    q0 = t.get("qualType", "")
    for cand in (q0, q):
        c = cand.replace("const ", "").replace("volatile ", "").strip()
        isref = c.endswith("&")
        c = c.rstrip("&").strip()
        if c.endswith("*"):
            inner = c[:-1].strip()
            return ("p", INT_TYPES.get(inner, ("v", 8))[1] // 8 if inner in INT_TYPES else 1, inner)
        if c in INT_TYPES:
            k = INT_TYPES[c]
            return k + (("ref",) if isref else ())
        if c == "void":
            return ("void",)
    raise Unsupported("type %r" % (q0,))


def parse_docs(txt):
    dec = json.JSONDecoder()
    i, docs = 0, []
    while i < len(txt):
        while i < len(txt) and txt[i].isspace():
            i += 1
        if i >= len(txt):
            break
        o, j = dec.raw_decode(txt, i)
        docs.append(o)
        i = j
    return docs


def clang_ast(tu_path, filt, include_dirs, defines=()):
    cmd = ["clang++", "-std=c++11", "-fsyntax-only", "-w"] + ["-I" + d for d in include_dirs] + ["-D" + d for d in defines] + \
          ["-Xclang", "-ast-dump=json", "-Xclang", "-ast-dump-filter=" + filt, tu_path]
    p = subprocess.run(cmd, stdout=subprocess.PIPE, stderr=subprocess.PIPE, timeout=300)
    if p.returncode != 0:
        raise Unsupported("clang failed on %s: %s" % (tu_path, p.stderr.decode()[-1500:]))
    return parse_docs(p.stdout.decode())


class Val:
    """a translated expression: Gallina text + kind ('Z' | 'bool') + C type"""

    def __init__(self, s, kind, ty):
        self.s, self.kind, self.ty = s, kind, ty

    def z(self):
        return self.s if self.kind == "Z" else "(Z.b2z %s)" % self.s

    def b(self):
        return self.s if self.kind == "bool" else "(negb (Z.eqb %s 0))" % self.s


def par(s):
    return s if re.fullmatch(r"[A-Za-z0-9_.']+", s) else "(" + s + ")"


class FnInfo:
    def __init__(self, name, decl):
        self.name, self.decl = name, decl
        self.params = [c for c in decl.get("inner", []) if c["kind"] == "ParmVarDecl"]
        for i, p in enumerate(self.params):
            p.setdefault("name", "_arg%d" % i)
        body = [c for c in decl.get("inner", []) if c["kind"] == "CompoundStmt"]
        self.body = body[0] if body else None
        self.ret = ctype(decl["type"]["qualType"].split("(")[0].strip())
        self.reads_mem = self.writes_mem = self.loops = False
        self.refparams = [p["name"] for p in self.params if ctype(p)[-1] == "ref" and "const" not in p["type"]["qualType"]]
        self.text = None


class Translator:
    def __init__(self, docs, gname=lambda n: n):
        self.fns, self.globals = {}, {}
        self.gname = gname
        for d in docs:
            self._collect(d)
        self.out = []          # emitted definitions in order
        self.done = {}
        self.aux = 0

    def _collect(self, d):
        k = d.get("kind")
        if k in ("FunctionDecl", "CXXMethodDecl") and any(c["kind"] == "CompoundStmt" for c in d.get("inner", [])):
            self.fns.setdefault(d["name"], d)
        elif k == "VarDecl" and d.get("inner"):
            self.globals.setdefault(d["name"], d)
        elif k in ("NamespaceDecl", "LinkageSpecDecl", "TranslationUnitDecl", "CXXRecordDecl"):
            for c in d.get("inner", []):
                self._collect(c)

    # ---- analysis -------------------------------------------------------------------------
    def info(self, name):
        if name in self.done:
            return self.done[name]
        if name not in self.fns:
            raise Unsupported("function %s not found in the AST" % name)
        fi = FnInfo(name, self.fns[name])
        self.done[name] = fi
        self._scan(fi, fi.body)
        self._emit_fn(fi)
        return fi

    def _scan(self, fi, n):
        k = n.get("kind")
        if k == "UnaryOperator" and n.get("opcode") == "*":
            fi.reads_mem = True
        if k in ("CompoundAssignOperator", "BinaryOperator") and n.get("opcode", "").endswith("=") and n.get("opcode") not in ("==", "!=", "<=", ">="):
            lhs = strip(n["inner"][0])
            if lhs["kind"] == "UnaryOperator" and lhs.get("opcode") == "*":
                fi.writes_mem = True
        if k in ("WhileStmt", "ForStmt", "DoStmt"):
            fi.loops = True
        if k == "CallExpr":
            cal = callee_name(n)
            if cal != fi.name:
                ci = self.info(cal)
                fi.reads_mem |= ci.reads_mem
                fi.writes_mem |= ci.writes_mem
                fi.loops |= ci.loops
        for c in n.get("inner", []):
            self._scan(fi, c)

    # ---- expressions ----------------------------------------------------------------------
    def ex(self, n, env):
        k = n["kind"]
        if k in ("ParenExpr", "ExprWithCleanups", "ConstantExpr", "MaterializeTemporaryExpr"):
            return self.ex(n["inner"][0], env)
        if k == "IntegerLiteral":
            return Val(str(int(n["value"])), "Z", ctype(n))
        if k == "CXXBoolLiteralExpr":
            return Val("true" if n["value"] else "false", "bool", ("b", 1))
        if k == "DeclRefExpr":
            name = n["referencedDecl"]["name"]
            if name in env["vars"]:
                return Val(env["vars"][name], "Z", ctype(n))
            if name in self.globals:
                return Val(self._global(name), "Z", ctype(n))
            raise Unsupported("reference to %s" % name)
        if k == "MemberExpr":
            base = strip(n["inner"][0])
            bt = ctype(base)
            if bt[0] == "f":     # FloatEnc union: both members are the same 32 bits
                return self.ex(base, env)
            raise Unsupported("member access on %s" % (base.get("type"),))
        if k in ("ImplicitCastExpr", "CXXStaticCastExpr", "CXXReinterpretCastExpr", "CStyleCastExpr", "CXXFunctionalCastExpr"):
            ck = n.get("castKind")
            inner = n["inner"][0]
            if ck == "LValueToRValue":
                s = strip(inner)
                if s["kind"] == "UnaryOperator" and s.get("opcode") == "*":
                    addr = self.ex(s["inner"][0], env)
                    w = self._width(ctype(s))
                    return Val("load%d mem %s" % (w, par(addr.s)), "Z", ctype(s))
                return self.ex(inner, env)
            if ck in ("NoOp", "BitCast", "FunctionToPointerDecay", "ArrayToPointerDecay"):
                v = self.ex(inner, env)
                return Val(v.s, v.kind, ctype(n) if "type" in n else v.ty)
            if ck == "IntegralCast":
                v = self.ex(inner, env)
                return self._intcast(v, ctype(n))
            if ck == "IntegralToBoolean":
                v = self.ex(inner, env)
                return Val(v.b(), "bool", ("b", 1))
            raise Unsupported("cast kind %s" % ck)
        if k == "UnaryOperator":
            op = n["opcode"]
            a = self.ex(n["inner"][0], env)
            ty = ctype(n)
            if op == "!":
                return Val("negb %s" % par(a.b()), "bool", ("b", 1))
            if op == "~":
                return self._wrap("Z.lnot %s" % par(a.z()), ty)
            if op == "-":
                return self._wrap("- %s" % par(a.z()), ty)
            if op == "+":
                return a
            raise Unsupported("unary %s in expression position" % op)
        if k == "BinaryOperator":
            op = n["opcode"]
            a = self.ex(n["inner"][0], env)
            b = self.ex(n["inner"][1], env)
            ty = ctype(n)
            return self._binop(op, a, b, ty)
        if k == "ConditionalOperator":
            c = self.ex(n["inner"][0], env)
            a = self.ex(n["inner"][1], env)
            b = self.ex(n["inner"][2], env)
            if a.kind == "bool" and b.kind == "bool":
                return Val("if %s then %s else %s" % (c.b(), a.s, b.s), "bool", ("b", 1))
            return Val("if %s then %s else %s" % (c.b(), a.z(), b.z()), "Z", ctype(n))
        if k == "CallExpr":
            cal = callee_name(n)
            ci = self.info(cal)
            if ci.writes_mem or ci.refparams:
                raise Unsupported("call to effectful %s in expression position" % cal)
            args = [self.ex(a, env) for a in n["inner"][1:]]
            s = self.gname(cal)
            if ci.loops:
                s += " fuel"
            if ci.reads_mem:
                s += " mem"
            s += "".join(" " + par(a.z()) for a in args)
            if ci.loops:
                raise Unsupported("call to looping %s inside an expression" % cal)
            return Val(s, "bool" if ci.ret[0] == "b" else "Z", ci.ret)
        raise Unsupported("expression kind %s" % k)

    def _width(self, ty):
        return ty[1]

    def _wrap(self, s, ty):
        if ty[0] == "u":
            return Val("wrap %d %s" % (ty[1], par(s)), "Z", ty)
        if ty[0] == "p":
            return Val(s, "Z", ty)
        return Val(s, "Z", ty)      # signed: no wrap (UB on overflow)

    def _intcast(self, v, ty):
        src = v.ty
        if ty[0] == "b":
            return Val(v.b(), "bool", ty)
        s = v.z()
        if re.fullmatch(r"\d+", s) and ty[0] in "us" and int(s) < 2 ** (ty[1] - (1 if ty[0] == "s" else 0)):
            return Val(s, "Z", ty)
        if ty[0] == "u":
            if src[0] in ("u", "b") and src[1] <= ty[1]:
                return Val(s, "Z", ty)
            return Val("wrap %d %s" % (ty[1], par(s)), "Z", ty)
        if ty[0] == "s":
            if src[0] in ("u", "b") and src[1] < ty[1]:
                return Val(s, "Z", ty)
            if src[0] == "s" and src[1] <= ty[1]:
                return Val(s, "Z", ty)
            return Val("swrap %d %s" % (ty[1], par(s)), "Z", ty)
        raise Unsupported("integral cast to %s" % (ty,))

    def _binop(self, op, a, b, ty):
        if op in ("<", ">", "<=", ">=", "==", "!="):
            f = {"<": "Z.ltb", ">": "Z.gtb", "<=": "Z.leb", ">=": "Z.geb", "==": "Z.eqb", "!=": "Z.eqb"}[op]
            s = "%s %s %s" % (f, par(a.z()), par(b.z()))
            if op == "!=":
                s = "negb (%s)" % s
            return Val(s, "bool", ("b", 1))
        if op == "&&":
            return Val("andb %s %s" % (par(a.b()), par(b.b())), "bool", ("b", 1))
        if op == "||":
            return Val("orb %s %s" % (par(a.b()), par(b.b())), "bool", ("b", 1))
        x, y = par(a.z()), par(b.z())
        if op == "+":
            if a.ty[0] == "p":
                sc = a.ty[1]
                return Val("%s + %s" % (x, y if sc == 1 else "(%d * %s)" % (sc, y)), "Z", a.ty)
            return self._wrap("%s + %s" % (x, y), ty)
        if op == "-":
            return self._wrap("%s - %s" % (x, y), ty)
        if op == "*":
            return self._wrap("%s * %s" % (x, y), ty)
        if op == "/":
            return Val("Z.quot %s %s" % (x, y) if ty[0] == "s" else "%s / %s" % (x, y), "Z", ty)
        if op == "%":
            return Val("Z.rem %s %s" % (x, y) if ty[0] == "s" else "%s mod %s" % (x, y), "Z", ty)
        if op == "&":
            return Val("Z.land %s %s" % (x, y), "Z", ty)
        if op == "|":
            return Val("Z.lor %s %s" % (x, y), "Z", ty)
        if op == "^":
            return Val("Z.lxor %s %s" % (x, y), "Z", ty)
        if op == "<<":
            return self._wrap("Z.shiftl %s %s" % (x, y), ty)
        if op == ">>":
            return Val("Z.shiftr %s %s" % (x, y), "Z", ty)
        raise Unsupported("binary operator %s" % op)

    def _global(self, name):
        g = self.gname(name)
        if ("g", name) not in self.done:
            d = self.globals[name]
            init = [c for c in d["inner"] if "kind" in c and c["kind"] != "FullComment"][-1]
            v = self.ex(init, {"vars": {}})
            v = self._intcast(v, ctype(d))
            self.out.append("Definition %s : Z := %s." % (g, v.z()))
            self.done[("g", name)] = True
        return g

    # ---- statements -> IR -----------------------------------------------------------------
    def lower(self, n, env, ir):
        """append IR statements for AST statement n.  IR: ('assign',var,expr) ('store',w,addr,expr)
        ('if',cond,[...],[...]) ('while',pre_ir,cond,[...]) ('return',expr|None)"""
        k = n["kind"]
        if k == "CompoundStmt":
            for c in n.get("inner", []):
                self.lower(c, env, ir)
        elif k == "DeclStmt":
            for d in n["inner"]:
                if d["kind"] != "VarDecl":
                    raise Unsupported("declaration %s" % d["kind"])
                name = d["name"]
                env["vars"][name] = name
                env["locals"].append(name)
                inits = [c for c in d.get("inner", []) if c["kind"] not in ("FullComment",)]
                if inits and inits[0]["kind"] != "CXXConstructExpr":
                    v = self.ex(inits[0], env)
                    ir.append(("assign", name, self._conv_to(v, ctype(d))))
                else:
                    ir.append(("assign", name, "0"))
        elif k == "ReturnStmt":
            if n.get("inner"):
                v = self.ex(n["inner"][0], env)
                ir.append(("return", v.s if (env["ret"][0] == "b" and v.kind == "bool") else v.z()))
            else:
                ir.append(("return", None))
        elif k == "IfStmt":
            parts = n["inner"]
            pre = []
            c = self._cond(parts[0], env, pre)
            ir.extend(pre)
            a, b = [], []
            self.lower(parts[1], env, a)
            if len(parts) > 2:
                self.lower(parts[2], env, b)
            ir.append(("if", c, a, b))
        elif k == "WhileStmt":
            parts = [p for p in n["inner"]]
            pre = []
            c = self._cond(parts[0], env, pre)
            body = []
            self.lower(parts[1], env, body)
            ir.append(("while", pre, c, body))
        elif k == "NullStmt":
            pass
        elif k in ("CompoundAssignOperator", "BinaryOperator", "UnaryOperator", "ParenExpr", "ExprWithCleanups", "CallExpr"):
            self._effect(n, env, ir)
        else:
            raise Unsupported("statement kind %s" % k)

    def _conv_to(self, v, ty):
        return v.z()

    def _cond(self, n, env, pre):
        """condition possibly containing an assignment (while (x >>= 1)): side effects go to pre"""
        s = strip(n)
        if s["kind"] == "ImplicitCastExpr" and s.get("castKind") in ("IntegralToBoolean", "LValueToRValue"):
            inner = strip(s["inner"][0])
            if inner["kind"] == "ImplicitCastExpr" and inner.get("castKind") == "LValueToRValue":
                inner = strip(inner["inner"][0])
            if inner["kind"] in ("CompoundAssignOperator",) or (inner["kind"] == "BinaryOperator" and inner.get("opcode") == "="):
                self._effect(inner, env, pre)
                lhs = strip(inner["inner"][0])
                v = self.ex(lhs, env)
                return v.b()
        return self.ex(n, env).b()

    def _effect(self, n, env, ir):
        n = strip(n)
        k = n["kind"]
        if k == "CallExpr":
            cal = callee_name(n)
            ci = self.info(cal)
            args = n["inner"][1:]
            s = self.gname(cal)
            if ci.loops:
                raise Unsupported("effectful call to looping function")
            if ci.reads_mem or ci.writes_mem:
                s += " mem"
            outs = []
            for p, a in zip(ci.params, args):
                if p["name"] in ci.refparams:
                    la = strip(a)
                    if la["kind"] != "DeclRefExpr":
                        raise Unsupported("reference argument is not a variable")
                    outs.append(la["referencedDecl"]["name"])
                s += " " + par(self.ex(a, env).z())
            if ci.writes_mem and not outs:
                ir.append(("assign", "mem", s))
                env["wmem"] = True
            elif outs and not ci.writes_mem and len(outs) == 1:
                ir.append(("assign", env["vars"][outs[0]], s))
            elif not ci.writes_mem:
                pass    # pure call for its value: nothing to do
            else:
                raise Unsupported("call shape of %s" % cal)
            return
        if k == "UnaryOperator" and n["opcode"] in ("++", "--"):
            lhs = strip(n["inner"][0])
            cur = self.ex(lhs, env)
            one = Val("1", "Z", cur.ty)
            v = self._binop("+" if n["opcode"] == "++" else "-", cur, one, self._arith_ty(cur.ty))
            v = self._intcast(v, cur.ty)
            self._assign_to(lhs, v.z(), env, ir)
            return
        if k == "CompoundAssignOperator" or (k == "BinaryOperator" and n["opcode"] == "="):
            lhs = strip(n["inner"][0])
            rhs = self.ex(n["inner"][1], env)
            lty = ctype(lhs)
            if k == "CompoundAssignOperator":
                op = n["opcode"][:-1]
                if lhs["kind"] == "UnaryOperator" and lhs.get("opcode") == "*":
                    addr = self.ex(lhs["inner"][0], env)
                    cur = Val("load%d mem %s" % (lty[1], par(addr.s)), "Z", lty)
                else:
                    cur = self.ex(lhs, env)
                comp = ctype({"type": n.get("computeResultType", n["type"])})
                cur2 = self._intcast(cur, comp) if comp[0] in "us" else cur
                v = self._binop(op, cur2, rhs, comp)
                v = self._intcast(v, lty) if lty[0] in "us" else v
            else:
                v = rhs
            self._assign_to(lhs, v.z(), env, ir)
            return
        raise Unsupported("expression statement %s" % k)

    def _arith_ty(self, ty):
        if ty[0] in "us" and ty[1] < 32:
            return ("s", 32)
        return ty

    def _assign_to(self, lhs, s, env, ir):
        if lhs["kind"] == "MemberExpr":
            base = strip(lhs["inner"][0])
            if ctype(base)[0] != "f":
                raise Unsupported("member assignment")
            lhs = base
        if lhs["kind"] == "DeclRefExpr":
            name = lhs["referencedDecl"]["name"]
            if name not in env["vars"]:
                raise Unsupported("assignment to non-local %s" % name)
            ir.append(("assign", env["vars"][name], s))
            return
        if lhs["kind"] == "UnaryOperator" and lhs.get("opcode") == "*":
            addr = self.ex(lhs["inner"][0], env)
            w = ctype(lhs)[1]
            ir.append(("store", w, addr.s, s))
            env["wmem"] = True
            return
        raise Unsupported("assignment target %s" % lhs["kind"])

    # ---- IR -> Gallina ---------------------------------------------------------------------
    def assigned(self, ir, acc=None):
        acc = [] if acc is None else acc
        for st in ir:
            if st[0] == "assign" and st[1] not in acc:
                acc.append(st[1])
            elif st[0] == "store" and "mem" not in acc:
                acc.append("mem")
            elif st[0] == "if":
                self.assigned(st[2], acc)
                self.assigned(st[3], acc)
            elif st[0] == "while":
                self.assigned(st[1], acc)
                self.assigned(st[3], acc)
        return acc

    def has_return(self, ir):
        for st in ir:
            if st[0] == "return":
                return True
            if st[0] == "if" and (self.has_return(st[2]) or self.has_return(st[3])):
                return True
            if st[0] == "while" and self.has_return(st[3]):
                raise Unsupported("return inside a loop")
        return False

    def emit(self, ir, final, ind, fi, opt):
        """Gallina for statement list `ir` followed by `final` (the value when falling off the end)"""
        pad = "  " * ind
        if not ir:
            return pad + (("Some %s" % par(final)) if opt else final)
        st, rest = ir[0], ir[1:]
        if st[0] == "assign":
            return pad + "let %s := %s in\n" % (st[1], st[2]) + self.emit(rest, final, ind, fi, opt)
        if st[0] == "store":
            return pad + "let mem := store%d mem %s %s in\n" % (st[1], par(st[2]), par(st[3])) + self.emit(rest, final, ind, fi, opt)
        if st[0] == "return":
            v = st[1] if st[1] is not None else final
            return pad + (("Some %s" % par(v)) if opt else v)
        if st[0] == "if":
            return (pad + "if %s then\n" % st[1] + self.emit(st[2] + rest, final, ind + 1, fi, opt) + "\n" +
                    pad + "else\n" + self.emit(st[3] + rest, final, ind + 1, fi, opt))
        if st[0] == "while":
            pre, cond, body = st[1], st[2], st[3]
            svars = self.assigned(pre) + [v for v in self.assigned(body) if v not in self.assigned(pre)]
            self.aux += 1
            sname = "%s_loop%d_step" % (self.gname(fi.name), self.aux)
            free = [p for p in fi.free if p not in svars]
            tup = "(" + ", ".join(svars) + ")" if len(svars) > 1 else svars[0]
            pat = "'" + tup if len(svars) > 1 else tup
            sty = " * ".join(["Z"] * len(svars))
            step = "Definition %s %s (st : %s) : (%s) * bool :=\n  let %s := st in\n" % (
                sname, " ".join("(%s : Z)" % f for f in free), sty, sty, pat)
            step += self.emit_raw(pre, 1)
            step += "  if %s then\n" % cond
            step += self.emit_raw(body, 2)
            step += "    (%s, true)\n  else (%s, false)." % (tup, tup)
            self.out.append(step)
            fi.loops = True
            return (pad + "match while_fuel (%s%s) fuel %s with\n" % (sname, "".join(" " + f for f in free), tup) +
                    pad + "| None => None\n" +
                    pad + "| Some st => let %s := st in\n" % pat + self.emit(rest, final, ind + 1, fi, True) + "\n" +
                    pad + "end")
        raise Unsupported("IR %s" % st[0])

    def emit_raw(self, ir, ind):
        pad = "  " * ind
        s = ""
        for st in ir:
            if st[0] == "assign":
                s += pad + "let %s := %s in\n" % (st[1], st[2])
            elif st[0] == "store":
                s += pad + "let mem := store%d mem %s %s in\n" % (st[1], par(st[2]), par(st[3]))
            else:
                raise Unsupported("control flow inside a loop body/condition (%s)" % st[0])
        return s

    def _emit_fn(self, fi):
        env = {"vars": {}, "locals": [], "ret": fi.ret, "wmem": False}
        for p in fi.params:
            env["vars"][p["name"]] = p["name"]
        ir = []
        self.lower(fi.body, env, ir)
        has_loop = any(st[0] == "while" for st in ir)
        if has_loop:
            fi.loops = True
        names = [p["name"] for p in fi.params]
        fi.free = (["mem"] if (fi.reads_mem or fi.writes_mem) else []) + names
        if fi.ret[0] == "void":
            if fi.writes_mem and not fi.refparams:
                final, rty = "mem", "Z"
            elif len(fi.refparams) == 1 and not fi.writes_mem:
                final, rty = fi.refparams[0], "Z"
            else:
                raise Unsupported("void function %s with effects %s" % (fi.name, (fi.writes_mem, fi.refparams)))
        else:
            if fi.writes_mem or fi.refparams:
                raise Unsupported("function %s both returns a value and has effects" % fi.name)
            final, rty = "0", ("bool" if fi.ret[0] == "b" else "Z")
        body = self.emit(ir, final, 1, fi, fi.loops)
        args = ("(fuel : nat) " if fi.loops else "") + " ".join("(%s : Z)" % a for a in fi.free)
        rt = "option %s" % rty if fi.loops else rty
        src = fi.decl.get("loc", {})
        self.out.append("(* %s *)\nDefinition %s %s : %s :=\n%s." % (fi.decl["type"]["qualType"], self.gname(fi.name), args, rt, body))


def strip(n):
    while n["kind"] in ("ParenExpr", "ExprWithCleanups", "ConstantExpr", "MaterializeTemporaryExpr"):
        n = n["inner"][0]
    return n


def callee_name(n):
    c = n["inner"][0]
    while c["kind"] in ("ImplicitCastExpr", "ParenExpr"):
        c = c["inner"][0]
    if c["kind"] == "DeclRefExpr":
        return c["referencedDecl"]["name"]
    raise Unsupported("indirect call")


HEADER = """(* GENERATED by /verif/translator/cxx2gallina.py from %s -- do not edit.
   Regenerated from /repo's current working tree on every check run. *)
From Coq Require Import ZArith Bool.
From Kenlm Require Import Base.Mem Base.Fuel.
Local Open Scope Z_scope.

"""


def translate(tu_path, filt, functions, include_dirs, source_label, defines=()):
    docs = clang_ast(tu_path, filt, include_dirs, defines)
    tr = Translator(docs)
    for f in functions:
        tr.info(f)
    return HEADER % source_label + "\n\n".join(tr.out) + "\n"


if __name__ == "__main__":
    print(translate(sys.argv[1], sys.argv[2], sys.argv[3].split(","), ["/repo"], sys.argv[1]))
