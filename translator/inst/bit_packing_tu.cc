// translation unit handed to clang for the AST dump: the real header and source, nothing else
#include "util/bit_packing.hh"
#include "util/bit_packing.cc"
