// instantiating TU for the C17 extractor (translator/pcqueue_ops.py): the method bodies of the
// specialisation carry concrete types, so the AST contains plain MemberExpr/CallExpr nodes.
#include "util/pcqueue.hh"
template class util::PCQueue<int>;
