#include "util/sorted_uniform.hh"
