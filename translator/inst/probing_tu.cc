#include "util/probing_hash_table.hh"
