"""C17 translator link: util/pcqueue.hh  ->  coq/Gen/PCQueueProg.v

Extracts, from clang's JSON AST of the *current* source (hooks compiled out: KPU_KENLM_VERIF is not defined),
the sequence of synchronisation operations performed on the normal (non-exceptional) path of
PCQueue::Produce(const T&) and PCQueue::Consume(T&), and the member initialisers of PCQueue(size_t).
Every statement must be recognised; anything else becomes `Opaque n` (so the generated program differs from the
expected one and `C17_prog_is_expected` stops being provable by reflexivity) -- nothing is skipped silently.
catch(...) handlers are the exceptional path (T::operator= throwing); they are recorded in a comment only.
"""
import os
import sys

sys.path.insert(0, os.path.dirname(os.path.abspath(__file__)))
import cxx2gallina as cg

SEM = {"empty_": "SemEmpty", "used_": "SemUsed"}
MTX = {"produce_at_mutex_": "MtxProduce", "consume_at_mutex_": "MtxConsume"}
CUR = {"produce_at_": "CurProduce", "consume_at_": "CurConsume"}
TRANSPARENT = ("ImplicitCastExpr", "ParenExpr", "ExprWithCleanups", "MaterializeTemporaryExpr", "CXXBindTemporaryExpr",
               "CXXFunctionalCastExpr", "ConstantExpr")


def strip(n):
    while n.get("kind") in TRANSPARENT and len(n.get("inner", [])) == 1:
        n = n["inner"][0]
    return n


def shape(n):
    """canonical text of an expression (implicit casts removed)"""
    n = strip(n)
    k = n.get("kind")
    ch = [c for c in n.get("inner", [])]
    if k == "MemberExpr":
        base = strip(ch[0]) if ch else {}
        if base.get("kind") == "CXXThisExpr":
            return "this." + n.get("name", "?")
        return shape(ch[0]) + "." + n.get("name", "?")
    if k == "CXXThisExpr":
        return "this"
    if k == "DeclRefExpr":
        return n.get("referencedDecl", {}).get("name", "?")
    if k == "UnaryOperator":
        return ("post" if n.get("isPostfix") else "pre") + n.get("opcode", "?") + "(" + shape(ch[0]) + ")"
    if k == "BinaryOperator":
        return "(" + shape(ch[0]) + " " + n.get("opcode", "?") + " " + shape(ch[1]) + ")"
    if k == "CXXMemberCallExpr":
        return shape(ch[0]) + "(" + ",".join(shape(c) for c in ch[1:]) + ")"
    if k == "CallExpr":
        return shape(ch[0]) + "(" + ",".join(shape(c) for c in ch[1:]) + ")"
    if k == "IntegerLiteral":
        return n.get("value", "?")
    if k == "CXXNewExpr":
        return "new[" + ",".join(shape(c) for c in ch) + "]"
    if k == "CXXConstructExpr":
        return "ctor:" + n.get("type", {}).get("qualType", "?") + "(" + ",".join(shape(c) for c in ch) + ")"
    return k + "{" + ",".join(shape(c) for c in ch) + "}"


class Extract:
    def __init__(self):
        self.ops = []
        self.notes = []
        self.nopaque = 0

    def opaque(self, what):
        self.nopaque += 1
        self.ops.append("Opaque %d" % self.nopaque)
        self.notes.append("Opaque %d = %s" % (self.nopaque, what[:200]))

    def stmt(self, n):
        k = n.get("kind")
        if k == "CompoundStmt":
            locks = []
            for c in n.get("inner", []):
                if c.get("kind") == "DeclStmt":
                    for v in c.get("inner", []):
                        ty = v.get("type", {}).get("qualType", "")
                        init = [strip(x) for x in v.get("inner", [])]
                        if v.get("kind") == "VarDecl" and ty.replace(" ", "") in ("boost::unique_lock<boost::mutex>", "boost::lock_guard<boost::mutex>") \
                                and len(init) == 1 and init[0].get("kind") == "CXXConstructExpr" and len(init[0].get("inner", [])) == 1:
                            m = shape(init[0]["inner"][0])
                            if m.startswith("this.") and m[5:] in MTX:
                                self.ops.append("Lock " + MTX[m[5:]])
                                locks.append(MTX[m[5:]])
                                continue
                        self.opaque("declaration " + v.get("name", "?") + " : " + ty)
                else:
                    self.stmt(c)
            for m in reversed(locks):     # destructors run in reverse order at the end of the scope
                self.ops.append("Unlock " + m)
            return
        if k == "CXXTryStmt":
            inner = n.get("inner", [])
            self.stmt(inner[0])
            for h in inner[1:]:
                self.notes.append("exceptional path (not modelled): catch -> " + "; ".join(
                    shape(s) if s.get("kind") != "CXXThrowExpr" else "throw" for s in (h.get("inner", [{}, {}])[-1].get("inner", []))))
            return
        if k == "NullStmt":
            return
        if k == "ReturnStmt":
            # `return out;` in Consume(T&): no synchronisation
            inner = n.get("inner", [])
            if len(inner) == 1 and strip(inner[0]).get("kind") == "DeclRefExpr":
                return
            self.opaque("return " + (shape(inner[0]) if inner else ""))
            return
        if k == "IfStmt":
            inner = n.get("inner", [])
            if len(inner) == 2:
                c, t = shape(inner[0]), shape(inner[1])
                for cur in CUR:
                    if c == "(pre++(this.%s) == this.end_)" % cur and t == "(this.%s = this.storage_.get())" % cur:
                        self.ops.append("AdvanceWrap " + CUR[cur])
                        return
            self.opaque("if " + " / ".join(shape(x) for x in inner))
            return
        s = shape(n)
        for name, c in SEM.items():
            if s == "WaitSemaphore(this.%s)" % name:
                self.ops.append("SemWait " + c); return
            if s == "this.%s.post()" % name:
                self.ops.append("SemPost " + c); return
        for name, c in CUR.items():
            if s == "(pre*(this.%s) = val)" % name:
                self.ops.append("StoreArg " + c); return
            if s == "(out = pre*(this.%s))" % name:
                self.ops.append("LoadOut " + c); return
        self.opaque(s)


def extract(repo):
    tu = os.path.join(os.path.dirname(os.path.abspath(__file__)), "inst", "pcqueue_tu.cc")
    docs = cg.clang_ast(tu, "util::PCQueue", [repo])
    spec = None
    for d in docs:
        if d.get("kind") == "ClassTemplateSpecializationDecl":
            spec = d
        for c in d.get("inner", []):
            if c.get("kind") == "ClassTemplateSpecializationDecl":
                spec = spec or c
    if spec is None:
        raise cg.Unsupported("no specialisation of util::PCQueue in the AST")
    progs, notes = {}, []
    for m in spec.get("inner", []):
        if m.get("kind") == "CXXMethodDecl" and m.get("name") in ("Produce", "Consume"):
            q = m["type"]["qualType"]
            body = [c for c in m.get("inner", []) if c.get("kind") == "CompoundStmt"]
            if not body:
                continue
            if m["name"] == "Consume" and q.strip().endswith("()"):
                continue        # T Consume(): convenience wrapper around Consume(T&), no synchronisation of its own
            e = Extract()
            e.stmt(body[0])
            key = m["name"].lower()
            if key in progs:
                raise cg.Unsupported("two overloads of %s with a body" % m["name"])
            progs[key] = e.ops
            notes += ["%s: %s" % (m["name"], x) for x in e.notes]
    inits = []
    nop = 0
    for m in spec.get("inner", []):
        if m.get("kind") == "CXXConstructorDecl" and m.get("type", {}).get("qualType") == "void (size_t)":
            for c in m.get("inner", []):
                if c.get("kind") != "CXXCtorInitializer":
                    if c.get("kind") == "CompoundStmt" and c.get("inner"):
                        nop += 1
                        inits.append("InitOpaque %d" % nop)
                        notes.append("ctor: InitOpaque %d = non-empty constructor body" % nop)
                    continue
                name = c.get("anyInit", {}).get("name")
                if name is None:
                    continue    # base class boost::noncopyable
                s = shape(c["inner"][0]) if c.get("inner") else ""
                if name in SEM and s.endswith("(size)") and s.startswith("ctor:"):
                    inits.append("InitSemSize " + SEM[name])
                elif name in SEM and s.endswith("(0)") and s.startswith("ctor:"):
                    inits.append("InitSemZero " + SEM[name])
                elif name == "storage_" and s.endswith("(new[size])"):
                    inits.append("InitStorageSize")
                elif name == "end_" and s == "(this.storage_.get() + size)":
                    inits.append("InitEndSize")
                elif name in CUR and s == "this.storage_.get()":
                    inits.append("InitCursorBegin " + CUR[name])
                elif name in MTX and s.startswith("ctor:boost::mutex("):
                    continue
                else:
                    nop += 1
                    inits.append("InitOpaque %d" % nop)
                    notes.append("ctor: InitOpaque %d = %s(%s)" % (nop, name, s[:150]))
    if "produce" not in progs or "consume" not in progs:
        raise cg.Unsupported("PCQueue::Produce / Consume(T&) not found")
    return progs, inits, notes


def stmt_shape(n):
    k = n.get("kind")
    ch = n.get("inner", [])
    if k == "CompoundStmt":
        return "{" + ";".join(stmt_shape(c) for c in ch) + "}"
    if k == "WhileStmt":
        return "while(" + shape(ch[0]) + ")" + stmt_shape(ch[1])
    if k == "ForStmt":
        return "for(" + ";".join(shape(c) if c else "" for c in ch[:-1]) + ")" + stmt_shape(ch[-1])
    if k == "DoStmt":
        return "do" + stmt_shape(ch[0]) + "while(" + shape(ch[1]) + ")"
    if k == "CXXTryStmt":
        return "try" + stmt_shape(ch[0]) + "".join(stmt_shape(c) for c in ch[1:])
    if k == "CXXCatchStmt":
        return "catch" + stmt_shape(ch[-1])
    if k == "BreakStmt":
        return "break"
    if k == "ContinueStmt":
        return "continue"
    if k == "ReturnStmt":
        return "return"
    if k == "IfStmt":
        return "if(" + shape(ch[0]) + ")" + stmt_shape(ch[1]) + ("else" + stmt_shape(ch[2]) if len(ch) > 2 else "")
    if k == "CXXThrowExpr":
        return "throw"
    if k in TRANSPARENT and len(ch) == 1:
        return stmt_shape(ch[0])
    return shape(n)


# what WaitSemaphore does when Semaphore::wait() is interrupted by a signal (EINTR = 4 on Linux)
WAIT_SHAPES = {
    "{while(1){try{on.wait();break}catch{if((e.get_native_error() != 4)){throw}}}}": "EintrRetry",
    "{try{on.wait()}catch{if((e.get_native_error() != 4)){throw}}}": "EintrReturnAsAcquired",
}


def extract_wait(repo):
    tu = os.path.join(os.path.dirname(os.path.abspath(__file__)), "inst", "pcqueue_tu.cc")
    docs = cg.clang_ast(tu, "util::WaitSemaphore", [repo])
    for d in docs:
        if d.get("kind") == "FunctionDecl" and d.get("name") == "WaitSemaphore":
            body = [c for c in d.get("inner", []) if c.get("kind") == "CompoundStmt"]
            if body:
                s = stmt_shape(body[0])
                return WAIT_SHAPES.get(s, "EintrOpaque"), s
    raise cg.Unsupported("util::WaitSemaphore not found")


def gallina(repo):
    progs, inits, notes = extract(repo)
    waction, wshape = extract_wait(repo)
    out = ["(* GENERATED by /verif/translator/pcqueue_ops.py from util/pcqueue.hh -- do not edit.",
           "   Regenerated from /repo's current working tree on every check run: the synchronisation operations on the",
           "   normal path of PCQueue::Produce(const T&), PCQueue::Consume(T&) and the initialisers of PCQueue(size_t). *)",
           "From Coq Require Import List.", "From Kenlm Require Import C17.PCQueueOps.", "Import ListNotations.", ""]
    for x in notes:
        out.append("(* %s *)" % x.replace("*)", "* )"))
    out.append("")
    out.append("Definition produce_prog : list op :=\n  [%s]." % "; ".join(progs["produce"]))
    out.append("")
    out.append("Definition consume_prog : list op :=\n  [%s]." % "; ".join(progs["consume"]))
    out.append("")
    out.append("Definition ctor_prog : list init :=\n  [%s]." % "; ".join(inits))
    out.append("")
    out.append("(* WaitSemaphore: %s *)" % wshape.replace("*)", "* )"))
    out.append("Definition wait_on_eintr : eintr_action := %s." % waction)
    return "\n".join(out) + "\n"


if __name__ == "__main__":
    sys.stdout.write(gallina(sys.argv[1] if len(sys.argv) > 1 else "/repo"))
