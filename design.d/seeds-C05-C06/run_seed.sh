#!/bin/bash
# usage: run_seed.sh <name>
set -u
name=$1
cd /var/tmp/wt-c05 && git checkout -q -- . && python3 /var/tmp/c05x/seed/$name.py || { echo "PATCH FAILED"; exit 1; }
git diff --stat | tail -1
( ninja -C /var/tmp/kpu-kenlm-verif-c05/tests -j 12 > /var/tmp/c05x/seed/$name.build.log 2>&1 && cd /var/tmp/kpu-kenlm-verif-c05/tests && timeout 900 ctest -j 8 2>&1 | tail -3 | head -1 ) 
cd /verif
for prop in C05 C06; do
  VERIF_REPO=/var/tmp/wt-c05 VERIF_CACHE=/var/tmp/kpu-kenlm-verif-c05 ./check $prop 2>&1 | grep -v "^KNOWN" | tail -4 | sed "s/^/[$name $prop] /"
done
cd /var/tmp/wt-c05 && git checkout -q -- .
